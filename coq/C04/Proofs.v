(* C04 — proofs about the UCD model (Model.v). *)
From Coq Require Import ZArith String List Ascii Bool Lia.
From FV.C04 Require Import Text Model.
Import ListNotations.

Ltac norm_app := repeat rewrite <- app_assoc; simpl; repeat rewrite <- app_assoc;
  rewrite ?app_nil_r; reflexivity.

(* ------------------------------------------------------------ list lemmas *)
Lemma slice_mid {A} (F a b c : list A) i j :
  F = a ++ b ++ c -> i = length a -> j = i + length b -> slice i j F = b.
Proof. intros -> -> ->. apply slice_app_exact. Qed.

Lemma nth_mid {A} (F a : list A) x c i :
  F = a ++ x :: c -> i = length a -> nth_error F i = Some x.
Proof. intros -> ->. apply nth_error_app_exact. Qed.

Lemma slice_cons {A} (x : A) l a b :
  slice (Datatypes.S a) (Datatypes.S (a + b)) (x :: l) = slice a (a + b) l.
Proof. unfold slice. simpl. reflexivity. Qed.

Lemma combine_map_r {A B} (f : A -> B) l : combine l (map f l) = map (fun a => (a, f a)) l.
Proof. induction l; simpl; congruence. Qed.

Lemma repeat_map {A B} (b : B) (l : list A) : repeat b (length l) = map (fun _ => b) l.
Proof. induction l; simpl; congruence. Qed.

Lemma forallb_In {A} (p : A -> bool) l : forallb p l = true -> forall a, In a l -> p a = true.
Proof. intros H. apply forallb_forall. exact H. Qed.

Lemma concat_map_flat_map {A B} (f : A -> list B) l : concat (map f l) = flat_map f l.
Proof. symmetry. apply flat_map_concat_map. Qed.

(* ------------------------------------------------------------------ strip *)
Definition head_ok (s : str) : bool := match s with c :: _ => tokch c | [] => false end.

Lemma drop_ws_head : forall s, head_ok s = true -> drop_ws s = s.
Proof.
  intros [|c s] H; simpl in *; [discriminate|].
  unfold tokch in H. apply negb_true_iff in H. rewrite H. reflexivity.
Qed.

Lemma strip_id : forall s, head_ok s = true -> head_ok (rev s) = true -> strip s = s.
Proof.
  intros s H1 H2. unfold strip. rewrite (drop_ws_head s H1), (drop_ws_head _ H2).
  apply rev_involutive.
Qed.

Lemma forallb_rev {A} (p : A -> bool) l : forallb p l = true -> forallb p (rev l) = true.
Proof.
  induction l; simpl; intros H; [reflexivity|].
  apply andb_true_iff in H. destruct H. rewrite forallb_app. simpl.
  rewrite IHl by assumption. rewrite H. reflexivity.
Qed.

Lemma token_head : forall t, tokenb t = true -> head_ok t = true.
Proof.
  intros [|c t] H; simpl in *; [discriminate|].
  apply andb_true_iff in H. tauto.
Qed.

Lemma token_head_rev : forall t, tokenb t = true -> head_ok (rev t) = true.
Proof.
  intros t H. apply tokenb_inv in H. destruct H as [Hne H].
  apply forallb_rev in H. destruct (rev t) eqn:E.
  - apply (f_equal (@rev _)) in E. rewrite rev_involutive in E. contradiction.
  - simpl in *. apply andb_true_iff in H. tauto.
Qed.

Lemma head_ok_app : forall a b, head_ok a = true -> head_ok (a ++ b) = true.
Proof. intros [|c a] b H; simpl in *; [discriminate|exact H]. Qed.

Lemma join_snoc : forall ts t, ts <> [] -> join sp (ts ++ [t]) = join sp ts ++ sp ++ t.
Proof.
  induction ts as [|a ts IH]; intros t H; [contradiction|].
  destruct ts as [|b ts].
  - reflexivity.
  - change ((a :: b :: ts) ++ [t]) with (a :: ((b :: ts) ++ [t])).
    change (join sp (a :: (b :: ts) ++ [t])) with (a ++ sp ++ join sp ((b :: ts) ++ [t])).
    rewrite IH by discriminate.
    change (join sp (a :: b :: ts)) with (a ++ sp ++ join sp (b :: ts)).
    rewrite <- !app_assoc. reflexivity.
Qed.

Lemma strip_unwords : forall ts,
  ts <> [] -> forallb tokenb ts = true -> strip (unwords ts) = unwords ts.
Proof.
  intros ts Hne H. apply strip_id.
  - destruct ts as [|t ts]; [contradiction|]. simpl in H. apply andb_true_iff in H.
    destruct H as [Ht _]. unfold unwords. destruct ts; simpl.
    + apply token_head; assumption.
    + apply head_ok_app. apply token_head. assumption.
  - destruct (exists_last Hne) as [ts' [t ->]].
    rewrite forallb_app in H. apply andb_true_iff in H. destruct H as [_ H].
    simpl in H. apply andb_true_iff in H. destruct H as [Ht _].
    unfold unwords. destruct ts' as [|a ts'].
    + simpl. apply token_head_rev. assumption.
    + rewrite join_snoc by discriminate. rewrite !rev_app_distr.
      apply head_ok_app. apply head_ok_app. apply token_head_rev. assumption.
Qed.

(* --------------------------------------------------------------- lookups *)
Lemma lookup_some_in {X} id (tb : table X) r :
  lookup id tb = Some r -> In (id, r) tb.
Proof.
  induction tb as [|[i x] tb IH]; simpl; [discriminate|].
  destruct (Z.eqb_spec i id).
  - intros E. inversion E; subst. left. reflexivity.
  - intros E. right. apply IH. exact E.
Qed.

Lemma lookup_in_ids {X} id (tb : table X) :
  existsb (Z.eqb id) (map fst tb) = true -> exists r, lookup id tb = Some r.
Proof.
  induction tb as [|[i x] tb IH]; simpl; [discriminate|].
  destruct (Z.eqb_spec i id).
  - intros _. eexists. reflexivity.
  - intros H. apply orb_true_iff in H. destruct H as [H|H].
    + apply Z.eqb_eq in H. congruence.
    + apply IH. exact H.
Qed.

Lemma nodupZ_NoDup : forall l, nodupZ l = true -> NoDup l.
Proof.
  induction l as [|a l IH]; simpl; intros H; [constructor|].
  apply andb_true_iff in H. destruct H as [H1 H2]. constructor.
  - intros Hin. apply negb_true_iff in H1.
    assert (existsb (Z.eqb a) l = true) as E.
    { apply existsb_exists. exists a. split; [exact Hin|apply Z.eqb_refl]. }
    congruence.
  - apply IH. exact H2.
Qed.

Lemma sort_rows_length {X} (tb : table X) : length (sort_rows tb) = length tb.
Proof.
  assert (forall r (t : table X), length (insert_row r t) = Datatypes.S (length t)) as Hi.
  { intros r t. induction t as [|r' t IH]; simpl; [reflexivity|].
    destruct (fst r <=? fst r')%Z; simpl; congruence. }
  induction tb; simpl; [reflexivity|]. rewrite Hi. congruence.
Qed.

(* ============================================================== the model *)
Section UCDProofs.
  Variable V : Type.
  Variable vprint : V -> str.
  Variable vparse : str -> option V.
  Variable ETYPES : list str.
  Hypothesis vparse_vprint : forall v, vparse (vprint v) = Some v.
  Hypothesis vprint_token : forall v, tokenb (vprint v) = true.

  Notation mesh := (mesh V).
  Notation data_line := (data_line V vprint).
  Notation parse_row := (parse_row).

  (* ------------------------------------------------------------- lines *)
  Lemma data_line_tokens : forall r : row V,
    forallb tokenb (print_Z (fst r) :: map vprint (snd r)) = true.
  Proof.
    intros r. simpl. rewrite print_Z_token. simpl.
    apply forallb_forall. intros x Hx. apply in_map_iff in Hx.
    destruct Hx as [v [<- _]]. apply vprint_token.
  Qed.

  Lemma tokens_data_line : forall r : row V,
    tokens (data_line r) = print_Z (fst r) :: map vprint (snd r).
  Proof. intros r. apply tokens_unwords. apply data_line_tokens. Qed.

  Lemma strip_data_line : forall r : row V, strip (data_line r) = data_line r.
  Proof. intros r. apply strip_unwords; [discriminate|apply data_line_tokens]. Qed.

  Lemma mapO_vparse : forall l, mapO vparse (map vprint l) = Some l.
  Proof.
    intros l. rewrite <- (map_id l) at 2. apply mapO_ok. intros c _. apply vparse_vprint.
  Qed.

  Lemma mapO_parse_Z : forall l, mapO parse_Z (map print_Z l) = Some l.
  Proof.
    intros l. rewrite <- (map_id l) at 2. apply mapO_ok. intros c _. apply parse_print_Z.
  Qed.

  (* a data row whose cells are pre ++ mid ++ post: the column slice
     [1+|pre|, 1+|pre|+|mid|) parses back to mid *)
  Lemma parse_row_slice : forall id (pre mid post : list V),
    parse_row vparse (1 + length pre) (Some (1 + length pre + length mid))
              (data_line (id, pre ++ mid ++ post)) = Ok (id, mid).
  Proof.
    intros id pre mid post. unfold Model.parse_row.
    rewrite tokens_data_line. simpl fst. simpl snd.
    unfold nth_r. simpl nth_error. simpl of_opt. simpl bind.
    rewrite parse_print_Z. simpl of_opt. simpl bind.
    unfold pyslice. rewrite slice_cons.
    rewrite !map_app.
    rewrite (slice_mid _ (map vprint pre) (map vprint mid) (map vprint post) _ _ eq_refl)
      by (rewrite ?map_length; reflexivity).
    rewrite mapO_vparse. reflexivity.
  Qed.

  Lemma parse_row_all : forall r : row V,
    parse_row vparse 1 None (data_line r) = Ok r.
  Proof.
    intros [id cells]. unfold Model.parse_row.
    rewrite tokens_data_line. simpl fst. simpl snd.
    unfold nth_r. simpl nth_error. simpl of_opt. simpl bind.
    rewrite parse_print_Z. simpl of_opt. simpl bind.
    unfold pyslice. simpl skipn. rewrite mapO_vparse. reflexivity.
  Qed.

  (* header-like lines of natural numbers *)
  Lemma nat_tokens : forall ns, forallb tokenb (map print_nat ns) = true.
  Proof.
    intros ns. apply forallb_forall. intros x Hx. apply in_map_iff in Hx.
    destruct Hx as [n [<- _]]. apply print_nat_token.
  Qed.

  Lemma parse_ints_unwords : forall ns,
    parse_ints (unwords (map print_nat ns)) = Ok ns.
  Proof.
    intros ns. unfold parse_ints. rewrite tokens_unwords by apply nat_tokens.
    rewrite <- (map_id ns) at 2. apply mapM_ok. intros n _.
    rewrite parse_print_nat. reflexivity.
  Qed.

  (* ------------------------------------------------ binding rows to ids *)
  Definition rows_of (ids : list Z) (tabs : list (table V)) : table V :=
    map (fun id => (id, concat (map (get id) tabs))) ids.

  Lemma bind_rows_by_id : forall ids (tabs : list (table V)),
    (forall tb, In tb tabs -> forall id, In id ids -> exists r, lookup id tb = Some r) ->
    bind_rows V true ids tabs = Ok (rows_of ids tabs).
  Proof.
    intros ids tabs H. unfold bind_rows, rows_of.
    rewrite <- (map_id ids) at 1. apply mapM_ok. intros id Hid.
    assert (mapM (fun tb => of_opt "id not in variable" (lookup id tb)) tabs
            = Ok (map (get id) tabs)) as ->.
    { rewrite <- (map_id tabs) at 1. apply mapM_ok. intros tb Htb.
      destruct (H tb Htb id Hid) as [r Hr]. unfold get. rewrite Hr. reflexivity. }
    reflexivity.
  Qed.

  Lemma zip_app_get : forall (t : table V) ids (f : Z -> list V),
    map fst t = ids -> NoDup ids ->
    zip_app V (map snd t) (map f ids) = Ok (map (fun id => get id t ++ f id) ids).
  Proof.
    induction t as [|[i r] t IH]; intros ids f Hids Hnd; simpl in Hids; subst ids.
    - reflexivity.
    - simpl map. cbn [zip_app]. inversion Hnd as [|? ? Hni Hnd']; subst.
      rewrite (IH (map fst t) f eq_refl Hnd'). simpl bind.
      f_equal. f_equal.
      + unfold get. simpl. rewrite Z.eqb_refl. reflexivity.
      + apply map_ext_in. intros id Hid. unfold get. simpl.
        destruct (Z.eqb_spec i id); [subst; contradiction|reflexivity].
  Qed.

  Lemma hcat_aligned : forall (tabs : list (table V)) ids,
    NoDup ids -> (forall tb, In tb tabs -> map fst tb = ids) ->
    hcat V tabs (length ids) = Ok (map (fun id => concat (map (get id) tabs)) ids).
  Proof.
    induction tabs as [|t ts IH]; intros ids Hnd H.
    - simpl. rewrite repeat_map. reflexivity.
    - cbn [hcat]. rewrite (IH ids Hnd) by (intros tb Htb; apply H; right; exact Htb).
      simpl bind. rewrite (zip_app_get t ids _ (H t (or_introl eq_refl)) Hnd). reflexivity.
  Qed.

  Lemma bind_rows_positional : forall ids (tabs : list (table V)),
    NoDup ids -> (forall tb, In tb tabs -> map fst tb = ids) ->
    bind_rows V false ids tabs = Ok (rows_of ids tabs).
  Proof.
    intros ids tabs Hnd H. unfold bind_rows, rows_of.
    rewrite (hcat_aligned tabs ids Hnd H). simpl bind. rewrite combine_map_r. reflexivity.
  Qed.

  (* ---------------------------------------------- reading a data block *)
  Definition widths (vars : list (str * table V)) : list nat :=
    map (fun v => width (snd v)) vars.

  Lemma concat_get_length : forall (vars : list (str * table V)) id,
    (forall v, In v vars -> length (get id (snd v)) = width (snd v)) ->
    length (concat (map (get id) (map snd vars))) = sum (widths vars).
  Proof.
    induction vars as [|v vars IH]; intros id H; simpl; [reflexivity|].
    rewrite app_length, (H v (or_introl eq_refl)), IH; [reflexivity|].
    intros v' Hv'. apply H. right. exact Hv'.
  Qed.

  Lemma read_assoc_ok : forall (vars pre : list (str * table V)) ids,
    (forall v, In v (pre ++ vars) -> forall id, In id ids ->
               length (get id (snd v)) = width (snd v)) ->
    read_assoc V vparse (map data_line (rows_of ids (map snd (pre ++ vars))))
               (1 + sum (widths pre)) (combine (map fst vars) (widths vars))
    = Ok (map (fun v => (fst v, reindex V ids (snd v))) vars).
  Proof.
    induction vars as [|v vars IH]; intros pre ids H; [reflexivity|].
    simpl map. simpl combine. cbn [read_assoc].
    assert (mapM (parse_row vparse (1 + sum (widths pre))
                            (Some (1 + sum (widths pre) + width (snd v))))
                 (map data_line (rows_of ids (map snd (pre ++ v :: vars))))
            = Ok (reindex V ids (snd v))) as ->.
    { unfold rows_of, reindex. rewrite map_map. apply mapM_ok. intros id Hid.
      rewrite !map_app. simpl map. rewrite concat_app. simpl concat.
      assert (length (concat (map (get id) (map snd pre))) = sum (widths pre)) as E1.
      { apply concat_get_length. intros v' Hv'. apply H; [apply in_or_app; left; exact Hv'|exact Hid]. }
      assert (length (get id (snd v)) = width (snd v)) as E2.
      { apply H; [apply in_or_app; right; left; reflexivity|exact Hid]. }
      rewrite <- E1, <- E2. apply parse_row_slice. }
    simpl bind.
    replace (pre ++ v :: vars) with ((pre ++ [v]) ++ vars) by (rewrite <- app_assoc; reflexivity).
    replace (Datatypes.S (sum (widths pre) + width (snd v))) with (1 + sum (widths (pre ++ [v]))).
    2:{ unfold widths. rewrite map_app. simpl.
        assert (forall a b, sum (a ++ b) = sum a + sum b) as Hs.
        { induction a; simpl; intros; [reflexivity|rewrite IHa; lia]. }
        rewrite Hs. simpl. lia. }
    rewrite IH.
    - reflexivity.
    - intros v' Hv'. apply H. rewrite <- app_assoc in Hv'. exact Hv'.
  Qed.

  (* name lines *)
  Lemma before_comma_name : forall name rest,
    forallb namech name = true ->
    before_comma (name ++ ","%char :: rest) = Some name.
  Proof.
    induction name as [|c name IH]; intros rest H; simpl.
    - reflexivity.
    - simpl in H. apply andb_true_iff in H. destruct H as [Hc Hn].
      unfold namech in Hc. rewrite !andb_true_iff in Hc.
      destruct Hc as [[[_ Hc] _] _]. apply negb_true_iff in Hc. rewrite Hc.
      rewrite IH by exact Hn. reflexivity.
  Qed.

  Lemma strip_name_line : forall name,
    name_ok name = true -> strip (name ++ unit_suffix) = name ++ unit_suffix.
  Proof.
    intros name H. unfold name_ok in H. apply andb_true_iff in H. destruct H as [_ H].
    apply strip_id.
    - destruct name; [discriminate|]. exact H.
    - rewrite rev_app_distr. reflexivity.
  Qed.

  Lemma read_names_ok : forall vars : list (str * table V),
    (forall v, In v vars -> name_ok (fst v) = true) ->
    read_names (map (fun v => fst v ++ unit_suffix) vars) = Ok (map fst vars).
  Proof.
    intros vars H. unfold read_names. apply mapM_ok. intros v Hv.
    specialize (H v Hv). unfold name_ok in H. apply andb_true_iff in H. destruct H as [H _].
    unfold unit_suffix. change (S ", unit_unknown") with (","%char :: S " unit_unknown").
    rewrite before_comma_name by exact H. reflexivity.
  Qed.

  (* ------------------------------------------------------------ elements *)
  Lemma last_char_some : forall t : str, t <> [] -> exists c, last_char t = Some c.
  Proof.
    induction t as [|a t IH]; intros H; [contradiction|].
    destruct t as [|b t]; [exists a; reflexivity|].
    destruct IH as [c Hc]; [discriminate|]. exists c. exact Hc.
  Qed.

  Lemma type_ok_fo : forall t, type_ok ETYPES t = true ->
    fo_name t = Ok (spec_name t) /\ (forall c, fo_conn t c = spec_conn t c)
    /\ tokenb (spec_name t) = true.
  Proof.
    intros t H. unfold type_ok in H. rewrite !andb_true_iff in H.
    destruct H as [[_ Htok] Hor].
    destruct (str_eqb t (S "tet2")) eqn:E.
    - apply str_eqb_eq in E. subst t. repeat split.
    - rewrite orb_false_r in Hor. apply negb_true_iff in Hor.
      destruct (last_char_some t) as [c Hc].
      { apply tokenb_inv in Htok. tauto. }
      unfold ends2 in Hor. rewrite Hc in Hor.
      unfold fo_name, fo_conn, spec_name, spec_conn. rewrite Hc, Hor, E.
      repeat split. exact Htok.
  Qed.

  Lemma elem_line_tokens : forall tn (r : row Z), tokenb tn = true ->
    forallb tokenb (print_Z (fst r) :: S "1" :: tn :: map print_Z (snd r)) = true.
  Proof.
    intros tn r H. simpl. rewrite print_Z_token, H. simpl.
    apply forallb_forall. intros x Hx. apply in_map_iff in Hx.
    destruct Hx as [z [<- _]]. apply print_Z_token.
  Qed.

  Lemma parse_erow_line : forall tn (r : row Z), tokenb tn = true ->
    parse_erow (elem_line tn r) = Ok (tn, r).
  Proof.
    intros tn [id conn] H. unfold parse_erow, Model.parse_row, elem_line.
    rewrite tokens_unwords by (apply elem_line_tokens; exact H).
    simpl fst. simpl snd. unfold nth_r. simpl nth_error. simpl of_opt. simpl bind.
    rewrite parse_print_Z. simpl of_opt. simpl bind.
    unfold pyslice. simpl skipn. rewrite mapO_parse_Z. reflexivity.
  Qed.

  Lemma strip_elem_line : forall tn (r : row Z), tokenb tn = true ->
    strip (elem_line tn r) = elem_line tn r.
  Proof.
    intros tn r H. apply strip_unwords; [discriminate|apply elem_line_tokens; exact H].
  Qed.

  Definition elem_rows (obs : list (str * table Z)) : list (str * row Z) :=
    flat_map (fun b => map (fun r => (spec_name (fst b), (fst r, spec_conn (fst b) (snd r))))
                           (snd b)) obs.
  Definition elem_lines (obs : list (str * table Z)) : list str :=
    map (fun tr => elem_line (fst tr) (snd tr)) (elem_rows obs).

  Lemma block_lines_ok : forall obs : list (str * table Z),
    (forall b, In b obs -> type_ok ETYPES (fst b) = true) ->
    (do ls <- mapM block_lines obs; Ok (concat ls)) = Ok (elem_lines obs).
  Proof.
    intros obs H.
    assert (mapM block_lines obs
            = Ok (map (fun b => map (fun r => elem_line (spec_name (fst b))
                                               (fst r, spec_conn (fst b) (snd r))) (snd b)) obs)) as ->.
    { rewrite <- (map_id obs) at 1. apply mapM_ok. intros b Hb.
      destruct (type_ok_fo _ (H b Hb)) as [H1 [H2 _]].
      unfold block_lines. rewrite H1. simpl bind. f_equal.
      apply map_ext. intros r. rewrite H2. reflexivity. }
    simpl bind. f_equal. unfold elem_lines, elem_rows.
    clear H. induction obs as [|b obs IH]; simpl; [reflexivity|].
    rewrite map_app, map_map, IH. reflexivity.
  Qed.

  Lemma elem_rows_types : forall obs tr,
    (forall b, In b obs -> type_ok ETYPES (fst b) = true) ->
    In tr (elem_rows obs) -> exists b, In b obs /\ fst tr = spec_name (fst b).
  Proof.
    intros obs tr _ Hin. unfold elem_rows in Hin. apply in_flat_map in Hin.
    destruct Hin as [b [Hb Hin]]. apply in_map_iff in Hin. destruct Hin as [r [<- _]].
    exists b. split; [exact Hb|reflexivity].
  Qed.

  Lemma read_elem_lines : forall obs,
    (forall b, In b obs -> type_ok ETYPES (fst b) = true) ->
    mapM parse_erow (elem_lines obs) = Ok (elem_rows obs).
  Proof.
    intros obs H. unfold elem_lines.
    rewrite <- (map_id (elem_rows obs)) at 2. apply mapM_ok. intros [tn r] Hin.
    destruct (elem_rows_types _ _ H Hin) as [b [Hb E]]. simpl in E. subst tn.
    destruct (type_ok_fo _ (H b Hb)) as [_ [_ Htok]].
    simpl fst. simpl snd. apply parse_erow_line. exact Htok.
  Qed.

  Lemma filter_const_key : forall (t k : str) (f : row Z -> row Z) (l : table Z),
    map snd (filter (fun r : str * row Z => str_eqb (fst r) t) (map (fun r => (k, f r)) l))
    = if str_eqb k t then map f l else [].
  Proof.
    intros t k f l. destruct (str_eqb k t) eqn:E; induction l as [|r l IH]; simpl;
      try reflexivity; rewrite E; simpl; congruence.
  Qed.

  Lemma filter_elem_rows : forall t obs,
    map snd (filter (fun r => str_eqb (fst r) t) (elem_rows obs))
    = flat_map (fun b => if str_eqb (spec_name (fst b)) t
                         then map (fun r => (fst r, spec_conn (fst b) (snd r))) (snd b)
                         else []) obs.
  Proof.
    intros t obs. unfold elem_rows. induction obs as [|b obs IH]; [reflexivity|].
    cbn [flat_map]. rewrite filter_app, map_app. f_equal; [|exact IH].
    apply (filter_const_key t (spec_name (fst b))
             (fun r => (fst r, spec_conn (fst b) (snd r)))).
  Qed.

  Lemma group_elem_rows : forall obs,
    group_rows ETYPES (elem_rows obs)
    = flat_map (fun t =>
        match flat_map (fun b => if str_eqb (spec_name (fst b)) t
                                 then map (fun r => (fst r, spec_conn (fst b) (snd r))) (snd b)
                                 else []) obs with
        | [] => []
        | rs => [(t, rs)]
        end) ETYPES.
  Proof.
    intros obs. unfold group_rows. apply flat_map_ext. intros t.
    rewrite <- filter_elem_rows.
    destruct (filter (fun r => str_eqb (fst r) t) (elem_rows obs)); reflexivity.
  Qed.

  Lemma mem_str_in : forall t l, In t l -> mem_str t l = true.
  Proof.
    intros t l H. unfold mem_str. apply existsb_exists. exists t. split; [exact H|apply str_eqb_refl].
  Qed.

  Lemma elem_rows_mem : forall obs,
    mem_str (S "tet") ETYPES = true ->
    (forall b, In b obs -> type_ok ETYPES (fst b) = true) ->
    forallb (fun r : str * row Z => mem_str (fst r) ETYPES) (elem_rows obs) = true.
  Proof.
    intros obs Htet H. apply forallb_forall. intros tr Hin.
    destruct (elem_rows_types _ _ H Hin) as [b [Hb ->]].
    specialize (H b Hb). unfold spec_name. destruct (str_eqb (fst b) (S "tet2")); [exact Htet|].
    unfold type_ok in H. rewrite !andb_true_iff in H. tauto.
  Qed.

  Lemma elem_rows_length : forall obs, length (elem_rows obs) = length (flat_map snd obs).
  Proof.
    unfold elem_rows. induction obs as [|b obs IH]; [reflexivity|].
    cbn [flat_map]. rewrite !app_length, map_length. f_equal. exact IH.
  Qed.

  Lemma ea_table_length {X} : forall bs : list (str * table X),
    length (ea_table ETYPES bs) = length (flat_map snd (ordered_blocks ETYPES bs)).
  Proof.
    intros bs. unfold ea_table.
    destruct (ordered_blocks ETYPES bs) as [|[t tb] [|b2 rest]].
    - reflexivity.
    - simpl. rewrite app_nil_r. reflexivity.
    - rewrite sort_rows_length. reflexivity.
  Qed.

  Lemma assoc_in {X} : forall t (bs : list (str * X)) x, assoc t bs = Some x -> In (t, x) bs.
  Proof.
    induction bs as [|[k y] bs IH]; simpl; intros x H; [discriminate|].
    destruct (str_eqb k t) eqn:E.
    - apply str_eqb_eq in E. inversion H; subst. left. reflexivity.
    - right. apply IH. exact H.
  Qed.

  Lemma ordered_blocks_in {X} : forall (bs : list (str * table X)) b,
    In b (ordered_blocks ETYPES bs) -> In b bs.
  Proof.
    intros bs b H. unfold ordered_blocks in H. apply in_flat_map in H.
    destruct H as [t [_ H]]. destruct (assoc t bs) eqn:E; [|contradiction].
    destruct H as [<-|[]]. apply assoc_in. exact E.
  Qed.

  (* ------------------------------------------------------- a data block *)
  Definition block_body (ids : list Z) (vars : list (str * table V)) : list str :=
    unwords (map print_nat (length vars :: widths vars))
      :: map (fun v => fst v ++ unit_suffix) vars
      ++ map data_line (rows_of ids (map snd vars)).
  Definition block_canon (ids : list Z) (vars : list (str * table V)) : list str :=
    match vars with [] => [] | _ => block_body ids vars end.
  Arguments block_body : simpl never.

  Lemma data_block_ok : forall by_id ids (vars : list (str * table V)),
    (by_id = true /\ forall v, In v vars -> forall id, In id ids -> exists r, lookup id (snd v) = Some r)
    \/ (NoDup ids /\ forall v, In v vars -> map fst (snd v) = ids) ->
    data_block V vprint by_id ids vars = Ok (block_canon ids vars).
  Proof.
    intros by_id ids vars H.
    assert (bind_rows V by_id ids (map snd vars) = Ok (rows_of ids (map snd vars))) as E.
    { destruct H as [[-> H]|[Hnd H]].
      - apply bind_rows_by_id. intros tb Htb id Hid. apply in_map_iff in Htb.
        destruct Htb as [v [<- Hv]]. apply (H v Hv id Hid).
      - destruct by_id.
        + apply bind_rows_by_id. intros tb Htb id Hid. apply in_map_iff in Htb.
          destruct Htb as [v [<- Hv]]. apply lookup_in_ids. rewrite (H v Hv).
          apply existsb_exists. exists id. split; [exact Hid|apply Z.eqb_refl].
        + apply bind_rows_positional; [exact Hnd|]. intros tb Htb. apply in_map_iff in Htb.
          destruct Htb as [v [<- Hv]]. apply (H v Hv). }
    unfold data_block, block_canon. destruct vars as [|v0 vars0]; [reflexivity|].
    rewrite E. simpl bind. unfold block_body, widths. simpl map. rewrite map_map. reflexivity.
  Qed.

  Lemma sum_widths_zero : forall vars : list (str * table V),
    (forall v, In v vars -> 0 < width (snd v)) ->
    Nat.eqb (sum (widths vars)) 0 = match vars with [] => true | _ => false end.
  Proof.
    intros [|v vars] H; [reflexivity|]. simpl.
    specialize (H v (or_introl eq_refl)). destruct (width (snd v)) eqn:E; [lia|reflexivity].
  Qed.

  Lemma block_body_length : forall ids vars,
    length (block_body ids vars) = 1 + length vars + length ids.
  Proof.
    intros ids vars. unfold block_body.
    simpl length. rewrite app_length, !map_length. unfold rows_of. rewrite map_length.
    reflexivity.
  Qed.

  Lemma strip_block_body : forall ids vars,
    (forall v, In v vars -> name_ok (fst v) = true) ->
    map strip (block_body ids vars) = block_body ids vars.
  Proof.
    intros ids vars H. unfold block_body. simpl map at 1. rewrite map_app. f_equal.
    - apply strip_unwords; [discriminate|apply nat_tokens].
    - f_equal.
      + rewrite map_map. apply map_ext_in. intros v Hv. apply strip_name_line. apply H. exact Hv.
      + rewrite map_map. apply map_ext. intros r. apply strip_data_line.
  Qed.

  Lemma strip_block_canon : forall ids vars,
    (forall v, In v vars -> name_ok (fst v) = true) ->
    map strip (block_canon ids vars) = block_canon ids vars.
  Proof.
    intros ids vars H. unfold block_canon. destruct vars; [reflexivity|].
    apply strip_block_body. exact H.
  Qed.

  (* header + names + rows of a block found at offset |Q| of the file *)
  Lemma read_block_ok : forall (F Q R : list str) ids (vars : list (str * table V)) name_start,
    (forall v, In v vars -> name_ok (fst v) = true) ->
    (forall v, In v vars -> forall id, In id ids -> length (get id (snd v)) = width (snd v)) ->
    F = Q ++ block_body ids vars ++ R ->
    name_start = length Q + 1 ->
    (do l <- line_at (length Q) F; count_dims l) = Ok (length vars, widths vars)
    /\ (do names <- read_names (slice name_start (name_start + length vars) F);
        read_assoc V vparse
          (slice (name_start + length vars) (name_start + length vars + length ids) F) 1
          (combine names (widths vars)))
       = Ok (map (fun v => (fst v, reindex V ids (snd v))) vars).
  Proof.
    intros F Q R ids vars name_start Hnames Hw HF ->.
    unfold block_body in HF.
    set (hdr := unwords (map print_nat (length vars :: widths vars))) in *.
    set (names := map (fun v => fst v ++ unit_suffix) vars) in *.
    set (rows := map data_line (rows_of ids (map snd vars))) in *.
    split.
    - unfold line_at. rewrite (nth_mid F Q hdr ((names ++ rows) ++ R)).
      + simpl of_opt. simpl bind. unfold count_dims, hdr. rewrite parse_ints_unwords. reflexivity.
      + rewrite HF. norm_app.
      + reflexivity.
    - rewrite (slice_mid F (Q ++ [hdr]) names (rows ++ R)).
      + unfold names. rewrite read_names_ok by exact Hnames. simpl bind.
        rewrite (slice_mid F ((Q ++ [hdr]) ++ names) rows R).
        * unfold rows. change (widths vars) with (widths ([] ++ vars)) at 1.
          change 1 with (1 + sum (widths (@nil (str * table V)))).
          change (map snd vars) with (map snd ([] ++ vars)).
          apply read_assoc_ok. exact Hw.
        * rewrite HF. norm_app.
        * rewrite !app_length. unfold names. rewrite map_length. simpl. reflexivity.
        * unfold rows, rows_of. rewrite !map_length. reflexivity.
      + rewrite HF. norm_app.
      + rewrite app_length. simpl. lia.
      + unfold names. rewrite map_length. reflexivity.
  Qed.

  (* ---------------------------------------------------- the whole file *)
  Lemma var_ok_inv : forall ids (v : str * table V),
    var_ok V ids v = true ->
    name_ok (fst v) = true /\ 0 < width (snd v)
    /\ (forall id, In id ids -> exists r, lookup id (snd v) = Some r)
    /\ (forall id, In id ids -> length (get id (snd v)) = width (snd v)).
  Proof.
    intros ids v H. unfold var_ok, same_ids in H. rewrite !andb_true_iff in H.
    destruct H as [[[Hn Hw] Hr] [[_ _] Hi]].
    assert (forall id, In id ids -> exists r, lookup id (snd v) = Some r) as HL.
    { intros id Hid. apply lookup_in_ids. apply (forallb_In _ _ Hi id Hid). }
    repeat split; [exact Hn|apply Nat.ltb_lt; exact Hw|exact HL|].
    intros id Hid. destruct (HL id Hid) as [r Hr']. unfold get. rewrite Hr'.
    apply lookup_some_in in Hr'. unfold rect in Hr.
    apply Nat.eqb_eq. apply (forallb_In _ _ Hr (id, r) Hr').
  Qed.

  Definition canonical_file (nodes : table V) (obs : list (str * table Z)) (eids : list Z)
             (nv ev : list (str * table V)) : list str :=
    unwords (map print_nat [length nodes; length eids; sum (widths nv); sum (widths ev); 0])
      :: map data_line nodes ++ elem_lines obs
      ++ block_canon (map fst nodes) nv ++ block_canon eids ev.

  Definition spec_groups (obs : list (str * table Z)) : list (str * table Z) :=
    flat_map (fun t =>
      match flat_map (fun b => if str_eqb (spec_name (fst b)) t
                               then map (fun r => (fst r, spec_conn (fst b) (snd r))) (snd b)
                               else []) obs with
      | [] => []
      | rs => [(t, rs)]
      end) ETYPES.

  Lemma strip_canonical : forall nodes obs eids nv ev,
    (forall b, In b obs -> type_ok ETYPES (fst b) = true) ->
    (forall v, In v nv -> name_ok (fst v) = true) ->
    (forall v, In v ev -> name_ok (fst v) = true) ->
    map strip (canonical_file nodes obs eids nv ev) = canonical_file nodes obs eids nv ev.
  Proof.
    intros nodes obs eids nv ev Hobs Hnv Hev. unfold canonical_file.
    simpl map at 1. rewrite !map_app. f_equal; [|f_equal; [|f_equal; [|f_equal]]].
    - apply strip_unwords; [discriminate|apply nat_tokens].
    - rewrite map_map. apply map_ext. intros r. apply strip_data_line.
    - unfold elem_lines. rewrite map_map. apply map_ext_in. intros tr Hin.
      destruct (elem_rows_types _ _ Hobs Hin) as [b [Hb E]].
      destruct (type_ok_fo _ (Hobs b Hb)) as [_ [_ Htok]].
      apply strip_elem_line. rewrite E. exact Htok.
    - apply strip_block_canon. exact Hnv.
    - apply strip_block_canon. exact Hev.
  Qed.

  Lemma read_canonical : forall nodes obs eids nv ev,
    (forall b, In b obs -> type_ok ETYPES (fst b) = true) ->
    mem_str (S "tet") ETYPES = true ->
    length eids = length (flat_map snd obs) ->
    (forall v, In v nv -> var_ok V (map fst nodes) v = true) ->
    (forall v, In v ev -> var_ok V eids v = true) ->
    read_ucd V vparse ETYPES (canonical_file nodes obs eids nv ev)
    = Ok {| u_nodes := nodes;
            u_elems := spec_groups obs;
            u_nodal := upsert NODE nodes
                         (map (fun v => (fst v, reindex V (map fst nodes) (snd v))) nv);
            u_elemental := map (fun v => (fst v, reindex V eids (snd v))) ev |}.
  Proof.
    intros nodes obs eids nv ev Hobs Htet Hlen Hnv Hev.
    assert (forall v, In v nv -> name_ok (fst v) = true) as Hnv1
      by (intros v Hv; apply (var_ok_inv _ _ (Hnv v Hv))).
    assert (forall v, In v ev -> name_ok (fst v) = true) as Hev1
      by (intros v Hv; apply (var_ok_inv _ _ (Hev v Hv))).
    assert (forall v, In v nv -> 0 < width (snd v)) as Hnv2
      by (intros v Hv; apply (var_ok_inv _ _ (Hnv v Hv))).
    assert (forall v, In v ev -> 0 < width (snd v)) as Hev2
      by (intros v Hv; apply (var_ok_inv _ _ (Hev v Hv))).
    assert (forall v, In v nv -> forall id, In id (map fst nodes) ->
                      length (get id (snd v)) = width (snd v)) as Hnv3
      by (intros v Hv; apply (var_ok_inv _ _ (Hnv v Hv))).
    assert (forall v, In v ev -> forall id, In id eids ->
                      length (get id (snd v)) = width (snd v)) as Hev3
      by (intros v Hv; apply (var_ok_inv _ _ (Hev v Hv))).
    unfold read_ucd. rewrite strip_canonical by assumption.
    unfold canonical_file.
    match goal with |- context [(@length ?T nodes) :: _] => set (n := @length T nodes) end.
    set (e := length eids).
    set (NL := map data_line nodes). set (EL := elem_lines obs).
    set (BN := block_canon (map fst nodes) nv). set (BE := block_canon eids ev).
    set (dn := sum (widths nv)). set (de := sum (widths ev)).
    set (h0 := unwords (map print_nat [n; e; dn; de; 0])).
    set (F := h0 :: NL ++ EL ++ BN ++ BE).
    assert (length NL = n) as HLN by (unfold NL; apply map_length).
    assert (length EL = e) as HLE.
    { unfold EL, elem_lines. rewrite map_length, elem_rows_length. symmetry. exact Hlen. }
    assert (length (map fst nodes) = n) as HLI by apply map_length.
    set (P := h0 :: NL ++ EL).
    assert (length P = n + e + 1) as HLP.
    { unfold P. simpl. rewrite app_length, HLN, HLE. lia. }
    assert (length BN = match nv with [] => 0 | _ => 1 + length nv + n end) as HLBN.
    { unfold BN, block_canon. destruct nv; [reflexivity|]. rewrite block_body_length, HLI. reflexivity. }
    assert (Nat.eqb dn 0 = match nv with [] => true | _ => false end) as Hdn
      by (apply sum_widths_zero; exact Hnv2).
    assert (Nat.eqb de 0 = match ev with [] => true | _ => false end) as Hde
      by (apply sum_widths_zero; exact Hev2).
    (* ---- headers *)
    assert (read_headers F =
            Ok {| n_node := n; n_element := e; all_dn := dn; all_de := de;
                  n_nodal := length nv;
                  nodal_dims := match nv with [] => [0] | _ => widths nv end;
                  n_elemental := length ev;
                  elemental_dims := match ev with [] => [0] | _ => widths ev end |}) as HH.
    { unfold read_headers. unfold line_at at 1. unfold F at 1. simpl nth_error. simpl of_opt.
      simpl bind. unfold h0. rewrite parse_ints_unwords. simpl bind.
      unfold nth_r. simpl nth_error. simpl of_opt. simpl bind.
      rewrite Hdn, Hde.
      assert ((match nv with
               | [] => Ok (0, [0])
               | _ => do l <- line_at (n + e + 1) F; count_dims l
               end) = Ok (length nv, match nv with [] => [0] | _ => widths nv end)) as E1.
      { destruct nv as [|v0 nv0]; [reflexivity|].
        rewrite <- HLP.
        apply (read_block_ok F P BE (map fst nodes) (v0 :: nv0) (length P + 1) Hnv1 Hnv3).
        - unfold F, P, BN, block_canon. norm_app.
        - reflexivity. }
      destruct nv as [|v0 nv0].
      - simpl bind. simpl fst. simpl snd.
        destruct ev as [|w0 ev0]; [reflexivity|].
        match goal with |- context [line_at ?i F] =>
          replace i with (length P) by (rewrite HLP; simpl; lia) end.
        rewrite (proj1 (read_block_ok F P [] eids (w0 :: ev0) (length P + 1) Hev1 Hev3
                          ltac:(unfold F, P, BN, BE, block_canon; norm_app) eq_refl)).
        reflexivity.
      - rewrite E1. simpl bind. simpl fst. simpl snd.
        destruct ev as [|w0 ev0]; [reflexivity|].
        set (Q := P ++ BN).
        match goal with |- context [line_at ?i F] => replace i with (length Q) end.
        2:{ unfold Q. rewrite app_length, HLP, HLBN. simpl. lia. }
        rewrite (proj1 (read_block_ok F Q [] eids (w0 :: ev0) (length Q + 1) Hev1 Hev3
                          ltac:(unfold F, Q, P, BE, block_canon; norm_app) eq_refl)).
        reflexivity. }
    rewrite HH. simpl bind.
    (* ---- nodes *)
    assert (read_nodes V vparse F
              {| n_node := n; n_element := e; all_dn := dn; all_de := de;
                 n_nodal := length nv;
                 nodal_dims := match nv with [] => [0] | _ => widths nv end;
                 n_elemental := length ev;
                 elemental_dims := match ev with [] => [0] | _ => widths ev end |}
            = Ok nodes) as HN.
    { unfold read_nodes. simpl n_node.
      rewrite (slice_mid F [h0] NL (EL ++ BN ++ BE)).
      - unfold NL. rewrite <- (map_id nodes) at 2. apply mapM_ok. intros r _. apply parse_row_all.
      - reflexivity.
      - reflexivity.
      - rewrite HLN. simpl. lia. }
    rewrite HN. simpl bind.
    (* ---- elements *)
    assert (read_elements ETYPES F
              {| n_node := n; n_element := e; all_dn := dn; all_de := de;
                 n_nodal := length nv;
                 nodal_dims := match nv with [] => [0] | _ => widths nv end;
                 n_elemental := length ev;
                 elemental_dims := match ev with [] => [0] | _ => widths ev end |}
            = Ok (spec_groups obs)) as HE.
    { unfold read_elements. simpl n_node. simpl n_element.
      rewrite (slice_mid F (h0 :: NL) EL (BN ++ BE)).
      - unfold EL. rewrite read_elem_lines by exact Hobs. simpl bind.
        rewrite elem_rows_mem by assumption. rewrite group_elem_rows. reflexivity.
      - unfold F. norm_app.
      - simpl. rewrite HLN. lia.
      - rewrite HLE. reflexivity. }
    rewrite HE. simpl bind.
    (* ---- nodal data *)
    assert (read_nodal_data V vparse F
              {| n_node := n; n_element := e; all_dn := dn; all_de := de;
                 n_nodal := length nv;
                 nodal_dims := match nv with [] => [0] | _ => widths nv end;
                 n_elemental := length ev;
                 elemental_dims := match ev with [] => [0] | _ => widths ev end |}
            = Ok (map (fun v => (fst v, reindex V (map fst nodes) (snd v))) nv)) as HND.
    { unfold read_nodal_data. simpl all_dn. simpl n_node. simpl n_element. simpl n_nodal.
      simpl nodal_dims. rewrite Hdn.
      destruct nv as [|v0 nv0]; [reflexivity|].
      replace (n + 1 + e + 1) with (length P + 1) by (rewrite HLP; lia).
      rewrite <- HLI.
      apply (read_block_ok F P BE (map fst nodes) (v0 :: nv0) (length P + 1) Hnv1 Hnv3).
      - unfold F, P, BN, block_canon. norm_app.
      - reflexivity. }
    rewrite HND. simpl bind.
    (* ---- elemental data *)
    assert (read_elemental_data V vparse F
              {| n_node := n; n_element := e; all_dn := dn; all_de := de;
                 n_nodal := length nv;
                 nodal_dims := match nv with [] => [0] | _ => widths nv end;
                 n_elemental := length ev;
                 elemental_dims := match ev with [] => [0] | _ => widths ev end |}
            = Ok (map (fun v => (fst v, reindex V eids (snd v))) ev)) as HED.
    { unfold read_elemental_data. simpl all_de. simpl all_dn. simpl n_node. simpl n_element.
      simpl n_nodal. simpl n_elemental. simpl elemental_dims. rewrite Hde.
      destruct ev as [|w0 ev0]; [reflexivity|].
      set (Q := P ++ BN).
      replace (n + 1 + e + 1 + Nat.min 1 dn * (length nv + n + 1)) with (length Q + 1).
      2:{ unfold Q. rewrite app_length, HLP, HLBN.
          destruct nv as [|v0 nv0].
          - unfold dn. simpl. lia.
          - destruct dn as [|dn']; [simpl in Hdn; discriminate|]. simpl. lia. }
      apply (read_block_ok F Q [] eids (w0 :: ev0) (length Q + 1) Hev1 Hev3).
      - unfold F, Q, P, BE, block_canon. norm_app.
      - reflexivity. }
    rewrite HED. simpl bind. reflexivity.
  Qed.

  (* ------------------------------------------------------ write, then read *)
  Notation wf := (wf V ETYPES).
  Notation aligned := (aligned V ETYPES).
  Notation elem_ids := (elem_ids V ETYPES).
  Notation nodal_2d := (nodal_2d V).
  Notation elemental_2d := (elemental_2d V ETYPES).

  Lemma wf_inv : forall m : mesh, wf m = true ->
    nodupZ (map fst (m_nodes V m)) = true
    /\ forallb (type_ok ETYPES) (map fst (m_elems V m)) = true
    /\ nodupZ (elem_ids m) = true
    /\ mem_str (S "tet") ETYPES = true
    /\ forallb (var_ok V (map fst (m_nodes V m))) (nodal_2d m) = true
    /\ forallb (var_ok V (elem_ids m)) (elemental_2d m) = true.
  Proof. intros m H. unfold Model.wf in H. rewrite !andb_true_iff in H. tauto. Qed.

  Lemma obs_types : forall m : mesh, wf m = true ->
    forall b, In b (ordered_blocks ETYPES (m_elems V m)) -> type_ok ETYPES (fst b) = true.
  Proof.
    intros m H b Hb. apply wf_inv in H. destruct H as [_ [H _]].
    apply ordered_blocks_in in Hb. apply (forallb_In _ _ H). apply in_map. exact Hb.
  Qed.

  Definition file_of (m : mesh) : list str :=
    canonical_file (m_nodes V m) (ordered_blocks ETYPES (m_elems V m)) (elem_ids m)
                   (nodal_2d m) (elemental_2d m).

  Lemma write_canonical : forall cfg (m : mesh),
    wf m = true -> cfg_ok cfg = true \/ aligned m = true ->
    write_ucd V vprint ETYPES cfg m = Ok (file_of m).
  Proof.
    intros cfg m Hwf Hmode. pose proof (obs_types m Hwf) as Hobs.
    destruct (wf_inv m Hwf) as [Hn [_ [He [_ [Hnv Hev]]]]].
    unfold write_ucd, file_of, canonical_file.
    pose proof (block_lines_ok _ Hobs) as HB.
    destruct (mapM block_lines (ordered_blocks ETYPES (m_elems V m))) as [ls|] eqn:E;
      [|discriminate HB]. simpl in HB. injection HB as HB. simpl bind.
    assert (data_block V vprint (nodal_by_id cfg) (map fst (m_nodes V m)) (nodal_2d m)
            = Ok (block_canon (map fst (m_nodes V m)) (nodal_2d m))) as ->.
    { apply data_block_ok. destruct Hmode as [Hc|Ha].
      - left. unfold cfg_ok in Hc. apply andb_true_iff in Hc. split; [tauto|].
        intros v Hv. apply (var_ok_inv _ _ (forallb_In _ _ Hnv v Hv)).
      - right. split; [apply nodupZ_NoDup; exact Hn|]. intros v Hv.
        unfold Model.aligned in Ha. apply andb_true_iff in Ha. destruct Ha as [Ha _].
        apply (list_eqb_spec Z.eqb Z.eqb_eq). apply (forallb_In _ _ Ha v Hv). }
    assert (data_block V vprint (elemental_by_id cfg) (elem_ids m) (elemental_2d m)
            = Ok (block_canon (elem_ids m) (elemental_2d m))) as ->.
    { apply data_block_ok. destruct Hmode as [Hc|Ha].
      - left. unfold cfg_ok in Hc. apply andb_true_iff in Hc. split; [tauto|].
        intros v Hv. apply (var_ok_inv _ _ (forallb_In _ _ Hev v Hv)).
      - right. split; [apply nodupZ_NoDup; exact He|]. intros v Hv.
        unfold Model.aligned in Ha. apply andb_true_iff in Ha. destruct Ha as [_ Ha].
        apply (list_eqb_spec Z.eqb Z.eqb_eq). apply (forallb_In _ _ Ha v Hv). }
    simpl bind. rewrite HB. reflexivity.
  Qed.

  Lemma read_file_of : forall m : mesh, wf m = true ->
    read_ucd V vparse ETYPES (file_of m) = Ok (first_order V ETYPES m).
  Proof.
    intros m Hwf. pose proof (obs_types m Hwf) as Hobs.
    destruct (wf_inv m Hwf) as [_ [_ [_ [Htet [Hnv Hev]]]]].
    unfold file_of. rewrite read_canonical.
    - reflexivity.
    - exact Hobs.
    - exact Htet.
    - unfold Model.elem_ids. rewrite map_length. apply ea_table_length.
    - apply forallb_In. exact Hnv.
    - apply forallb_In. exact Hev.
  Qed.

  Theorem roundtrip_ok : forall cfg (m : mesh),
    wf m = true -> cfg_ok cfg = true \/ aligned m = true ->
    roundtrip V vprint vparse ETYPES cfg m = Ok (first_order V ETYPES m).
  Proof.
    intros cfg m Hwf Hmode. unfold roundtrip. rewrite (write_canonical cfg m Hwf Hmode).
    simpl bind. apply read_file_of. exact Hwf.
  Qed.
End UCDProofs.

(* ------------------------------------------- reading the specification *)
Section SpecFacts.
  Variable V : Type.
  Variable ETYPES : list str.

  Lemma lookup_reindex : forall ids (tb : table V) id,
    In id ids -> lookup id (reindex V ids tb) = Some (get id tb).
  Proof.
    induction ids as [|i ids IH]; intros tb id H; [contradiction|].
    simpl. destruct (Z.eqb_spec i id); [subst; reflexivity|].
    destruct H as [H|H]; [contradiction|]. apply IH. exact H.
  Qed.

  Lemma upsert_keys {X} : forall k (x : X) l k',
    In k' (map fst l) -> In k' (map fst (upsert k x l)).
  Proof.
    induction l as [|[a y] l IH]; intros k' H; [contradiction|].
    simpl. destruct (str_eqb a k); simpl in *; [exact H|].
    destruct H as [H|H]; [left; exact H|right; apply IH; exact H].
  Qed.
End SpecFacts.

(* ------------------------- the id-keyed meaning of a typed (per-block) table *)
From Coq Require Import Permutation.
Section TypedTables.
  Context {X : Type}.

  Lemma insert_row_permutation : forall (r : row X) t, Permutation (insert_row r t) (r :: t).
  Proof.
    induction t as [|r' t IH]; simpl; [reflexivity|].
    destruct (fst r <=? fst r')%Z; [reflexivity|]. rewrite IH. apply perm_swap.
  Qed.

  Lemma sort_rows_permutation : forall t : table X, Permutation (sort_rows t) t.
  Proof.
    induction t as [|r t IH]; simpl; [reflexivity|].
    rewrite insert_row_permutation. constructor. exact IH.
  Qed.

  Lemma lookup_not_in : forall id (t : table X), ~ In id (map fst t) -> lookup id t = None.
  Proof.
    induction t as [|[i r] t IH]; intros H; [reflexivity|]. simpl in *.
    destruct (Z.eqb_spec i id); [subst; tauto|]. apply IH. tauto.
  Qed.

  Lemma lookup_permutation : forall (t t' : table X) id,
    Permutation t t' -> NoDup (map fst t) -> lookup id t = lookup id t'.
  Proof.
    intros t t' id HP. induction HP as [|[i r] t t' HP IH|[i r] [j s] t|t t' t'' HP1 IH1 HP2 IH2];
      intros Hnd.
    - reflexivity.
    - simpl. destruct (i =? id)%Z; [reflexivity|]. apply IH. simpl in Hnd. inversion Hnd. assumption.
    - simpl in *. inversion Hnd as [|? ? Hni _]; subst.
      destruct (Z.eqb_spec j id), (Z.eqb_spec i id); try reflexivity.
      subst. exfalso. apply Hni. left. reflexivity.
    - rewrite IH1 by exact Hnd. apply IH2.
      apply (Permutation_NoDup (Permutation_map fst HP1)). exact Hnd.
  Qed.

  (* looking an id up in `.ids/.data` of a typed table (single block as stored,
     several blocks sorted by id) is looking it up in the blocks themselves *)
  Theorem ea_table_lookup : forall ETYPES (bs : list (str * table X)) id,
    NoDup (map fst (flat_map snd (ordered_blocks ETYPES bs))) ->
    lookup id (ea_table ETYPES bs) = lookup id (flat_map snd (ordered_blocks ETYPES bs)).
  Proof.
    intros ETYPES bs id Hnd. unfold ea_table.
    destruct (ordered_blocks ETYPES bs) as [|[t tb] [|b2 rest]].
    - reflexivity.
    - simpl. rewrite app_nil_r. reflexivity.
    - apply lookup_permutation.
      + apply sort_rows_permutation.
      + apply (Permutation_NoDup (Permutation_map fst (Permutation_sym (sort_rows_permutation _)))).
        exact Hnd.
  Qed.
End TypedTables.
