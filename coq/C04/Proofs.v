(* C04 — proofs about the UCD model (Model.v). *)
From Coq Require Import ZArith String List Ascii Bool Lia.
From FV.C04 Require Import Text Model.
Import ListNotations.

(* ------------------------------------------------------------ list lemmas *)
Lemma slice_mid {A} (F a b c : list A) i j :
  F = a ++ b ++ c -> i = length a -> j = i + length b -> slice i j F = b.
Proof. intros -> -> ->. apply slice_app_exact. Qed.

Lemma nth_mid {A} (F a : list A) x c i :
  F = a ++ x :: c -> i = length a -> nth_error F i = Some x.
Proof. intros -> ->. apply nth_error_app_exact. Qed.

Lemma slice_cons {A} (x : A) l a b :
  slice (Datatypes.S a) (Datatypes.S (a + b)) (x :: l) = slice a (a + b) l.
Proof. unfold slice. simpl. reflexivity. Qed.

Lemma combine_map_r {A B} (f : A -> B) l : combine l (map f l) = map (fun a => (a, f a)) l.
Proof. induction l; simpl; congruence. Qed.

Lemma repeat_map {A B} (b : B) (l : list A) : repeat b (length l) = map (fun _ => b) l.
Proof. induction l; simpl; congruence. Qed.

Lemma forallb_In {A} (p : A -> bool) l : forallb p l = true -> forall a, In a l -> p a = true.
Proof. intros H. apply forallb_forall. exact H. Qed.

Lemma concat_map_flat_map {A B} (f : A -> list B) l : concat (map f l) = flat_map f l.
Proof. symmetry. apply flat_map_concat_map. Qed.

(* ------------------------------------------------------------------ strip *)
Definition head_ok (s : str) : bool := match s with c :: _ => tokch c | [] => false end.

Lemma drop_ws_head : forall s, head_ok s = true -> drop_ws s = s.
Proof.
  intros [|c s] H; simpl in *; [discriminate|].
  unfold tokch in H. apply negb_true_iff in H. rewrite H. reflexivity.
Qed.

Lemma strip_id : forall s, head_ok s = true -> head_ok (rev s) = true -> strip s = s.
Proof.
  intros s H1 H2. unfold strip. rewrite (drop_ws_head s H1), (drop_ws_head _ H2).
  apply rev_involutive.
Qed.

Lemma forallb_rev {A} (p : A -> bool) l : forallb p l = true -> forallb p (rev l) = true.
Proof.
  induction l; simpl; intros H; [reflexivity|].
  apply andb_true_iff in H. destruct H. rewrite forallb_app. simpl.
  rewrite IHl by assumption. rewrite H. reflexivity.
Qed.

Lemma token_head : forall t, tokenb t = true -> head_ok t = true.
Proof.
  intros [|c t] H; simpl in *; [discriminate|].
  apply andb_true_iff in H. tauto.
Qed.

Lemma token_head_rev : forall t, tokenb t = true -> head_ok (rev t) = true.
Proof.
  intros t H. apply tokenb_inv in H. destruct H as [Hne H].
  apply forallb_rev in H. destruct (rev t) eqn:E.
  - apply (f_equal (@rev _)) in E. rewrite rev_involutive in E. contradiction.
  - simpl in *. apply andb_true_iff in H. tauto.
Qed.

Lemma head_ok_app : forall a b, head_ok a = true -> head_ok (a ++ b) = true.
Proof. intros [|c a] b H; simpl in *; [discriminate|exact H]. Qed.

Lemma join_snoc : forall ts t, ts <> [] -> join sp (ts ++ [t]) = join sp ts ++ sp ++ t.
Proof.
  induction ts as [|a ts IH]; intros t H; [contradiction|].
  destruct ts as [|b ts].
  - reflexivity.
  - change ((a :: b :: ts) ++ [t]) with (a :: ((b :: ts) ++ [t])).
    change (join sp (a :: (b :: ts) ++ [t])) with (a ++ sp ++ join sp ((b :: ts) ++ [t])).
    rewrite IH by discriminate.
    change (join sp (a :: b :: ts)) with (a ++ sp ++ join sp (b :: ts)).
    rewrite <- !app_assoc. reflexivity.
Qed.

Lemma strip_unwords : forall ts,
  ts <> [] -> forallb tokenb ts = true -> strip (unwords ts) = unwords ts.
Proof.
  intros ts Hne H. apply strip_id.
  - destruct ts as [|t ts]; [contradiction|]. simpl in H. apply andb_true_iff in H.
    destruct H as [Ht _]. unfold unwords. destruct ts; simpl.
    + apply token_head; assumption.
    + apply head_ok_app. apply token_head. assumption.
  - destruct (exists_last Hne) as [ts' [t ->]].
    rewrite forallb_app in H. apply andb_true_iff in H. destruct H as [_ H].
    simpl in H. apply andb_true_iff in H. destruct H as [Ht _].
    unfold unwords. destruct ts' as [|a ts'].
    + simpl. apply token_head_rev. assumption.
    + rewrite join_snoc by discriminate. rewrite !rev_app_distr.
      apply head_ok_app. apply head_ok_app. apply token_head_rev. assumption.
Qed.

(* --------------------------------------------------------------- lookups *)
Lemma lookup_some_in {X} id (tb : table X) r :
  lookup id tb = Some r -> In (id, r) tb.
Proof.
  induction tb as [|[i x] tb IH]; simpl; [discriminate|].
  destruct (Z.eqb_spec i id).
  - intros E. inversion E; subst. left. reflexivity.
  - intros E. right. apply IH. exact E.
Qed.

Lemma lookup_in_ids {X} id (tb : table X) :
  existsb (Z.eqb id) (map fst tb) = true -> exists r, lookup id tb = Some r.
Proof.
  induction tb as [|[i x] tb IH]; simpl; [discriminate|].
  destruct (Z.eqb_spec i id).
  - intros _. eexists. reflexivity.
  - intros H. apply orb_true_iff in H. destruct H as [H|H].
    + apply Z.eqb_eq in H. congruence.
    + apply IH. exact H.
Qed.

Lemma nodupZ_NoDup : forall l, nodupZ l = true -> NoDup l.
Proof.
  induction l as [|a l IH]; simpl; intros H; [constructor|].
  apply andb_true_iff in H. destruct H as [H1 H2]. constructor.
  - intros Hin. apply negb_true_iff in H1.
    assert (existsb (Z.eqb a) l = true) as E.
    { apply existsb_exists. exists a. split; [exact Hin|apply Z.eqb_refl]. }
    congruence.
  - apply IH. exact H2.
Qed.

Lemma sort_rows_length {X} (tb : table X) : length (sort_rows tb) = length tb.
Proof.
  assert (forall r (t : table X), length (insert_row r t) = Datatypes.S (length t)) as Hi.
  { intros r t. induction t as [|r' t IH]; simpl; [reflexivity|].
    destruct (fst r <=? fst r')%Z; simpl; congruence. }
  induction tb; simpl; [reflexivity|]. rewrite Hi. congruence.
Qed.

(* ============================================================== the model *)
Section UCDProofs.
  Variable V : Type.
  Variable vprint : V -> str.
  Variable vparse : str -> option V.
  Variable ETYPES : list str.
  Hypothesis vparse_vprint : forall v, vparse (vprint v) = Some v.
  Hypothesis vprint_token : forall v, tokenb (vprint v) = true.

  Notation mesh := (mesh V).
  Notation data_line := (data_line V vprint).
  Notation parse_row := (parse_row).

  (* ------------------------------------------------------------- lines *)
  Lemma data_line_tokens : forall r : row V,
    forallb tokenb (print_Z (fst r) :: map vprint (snd r)) = true.
  Proof.
    intros r. simpl. rewrite print_Z_token. simpl.
    apply forallb_forall. intros x Hx. apply in_map_iff in Hx.
    destruct Hx as [v [<- _]]. apply vprint_token.
  Qed.

  Lemma tokens_data_line : forall r : row V,
    tokens (data_line r) = print_Z (fst r) :: map vprint (snd r).
  Proof. intros r. apply tokens_unwords. apply data_line_tokens. Qed.

  Lemma strip_data_line : forall r : row V, strip (data_line r) = data_line r.
  Proof. intros r. apply strip_unwords; [discriminate|apply data_line_tokens]. Qed.

  Lemma mapO_vparse : forall l, mapO vparse (map vprint l) = Some l.
  Proof.
    intros l. rewrite <- (map_id l) at 2. apply mapO_ok. intros c _. apply vparse_vprint.
  Qed.

  Lemma mapO_parse_Z : forall l, mapO parse_Z (map print_Z l) = Some l.
  Proof.
    intros l. rewrite <- (map_id l) at 2. apply mapO_ok. intros c _. apply parse_print_Z.
  Qed.

  (* a data row whose cells are pre ++ mid ++ post: the column slice
     [1+|pre|, 1+|pre|+|mid|) parses back to mid *)
  Lemma parse_row_slice : forall id (pre mid post : list V),
    parse_row vparse (1 + length pre) (Some (1 + length pre + length mid))
              (data_line (id, pre ++ mid ++ post)) = Ok (id, mid).
  Proof.
    intros id pre mid post. unfold Model.parse_row.
    rewrite tokens_data_line. simpl fst. simpl snd.
    unfold nth_r. simpl nth_error. simpl of_opt. simpl bind.
    rewrite parse_print_Z. simpl of_opt. simpl bind.
    unfold pyslice. rewrite slice_cons.
    rewrite !map_app.
    rewrite (slice_mid _ (map vprint pre) (map vprint mid) (map vprint post) _ _ eq_refl)
      by (rewrite ?map_length; reflexivity).
    rewrite mapO_vparse. reflexivity.
  Qed.

  Lemma parse_row_all : forall r : row V,
    parse_row vparse 1 None (data_line r) = Ok r.
  Proof.
    intros [id cells]. unfold Model.parse_row.
    rewrite tokens_data_line. simpl fst. simpl snd.
    unfold nth_r. simpl nth_error. simpl of_opt. simpl bind.
    rewrite parse_print_Z. simpl of_opt. simpl bind.
    unfold pyslice. simpl skipn. rewrite mapO_vparse. reflexivity.
  Qed.

  (* header-like lines of natural numbers *)
  Lemma nat_tokens : forall ns, forallb tokenb (map print_nat ns) = true.
  Proof.
    intros ns. apply forallb_forall. intros x Hx. apply in_map_iff in Hx.
    destruct Hx as [n [<- _]]. apply print_nat_token.
  Qed.

  Lemma parse_ints_unwords : forall ns,
    parse_ints (unwords (map print_nat ns)) = Ok ns.
  Proof.
    intros ns. unfold parse_ints. rewrite tokens_unwords by apply nat_tokens.
    rewrite <- (map_id ns) at 2. apply mapM_ok. intros n _.
    rewrite parse_print_nat. reflexivity.
  Qed.

  (* ------------------------------------------------ binding rows to ids *)
  Definition rows_of (ids : list Z) (tabs : list (table V)) : table V :=
    map (fun id => (id, concat (map (get id) tabs))) ids.

  Lemma bind_rows_by_id : forall ids (tabs : list (table V)),
    (forall tb, In tb tabs -> forall id, In id ids -> exists r, lookup id tb = Some r) ->
    bind_rows V true ids tabs = Ok (rows_of ids tabs).
  Proof.
    intros ids tabs H. unfold bind_rows, rows_of.
    rewrite <- (map_id ids) at 1. apply mapM_ok. intros id Hid.
    assert (mapM (fun tb => of_opt "id not in variable" (lookup id tb)) tabs
            = Ok (map (get id) tabs)) as ->.
    { rewrite <- (map_id tabs) at 1. apply mapM_ok. intros tb Htb.
      destruct (H tb Htb id Hid) as [r Hr]. unfold get. rewrite Hr. reflexivity. }
    reflexivity.
  Qed.

  Lemma zip_app_get : forall (t : table V) ids (f : Z -> list V),
    map fst t = ids -> NoDup ids ->
    zip_app V (map snd t) (map f ids) = Ok (map (fun id => get id t ++ f id) ids).
  Proof.
    induction t as [|[i r] t IH]; intros ids f Hids Hnd; simpl in Hids; subst ids.
    - reflexivity.
    - simpl map. cbn [zip_app]. inversion Hnd as [|? ? Hni Hnd']; subst.
      rewrite (IH (map fst t) f eq_refl Hnd'). simpl bind.
      f_equal. f_equal.
      + unfold get. simpl. rewrite Z.eqb_refl. reflexivity.
      + apply map_ext_in. intros id Hid. unfold get. simpl.
        destruct (Z.eqb_spec i id); [subst; contradiction|reflexivity].
  Qed.

  Lemma hcat_aligned : forall (tabs : list (table V)) ids,
    NoDup ids -> (forall tb, In tb tabs -> map fst tb = ids) ->
    hcat V tabs (length ids) = Ok (map (fun id => concat (map (get id) tabs)) ids).
  Proof.
    induction tabs as [|t ts IH]; intros ids Hnd H.
    - simpl. rewrite repeat_map. reflexivity.
    - cbn [hcat]. rewrite (IH ids Hnd) by (intros tb Htb; apply H; right; exact Htb).
      simpl bind. rewrite (zip_app_get t ids _ (H t (or_introl eq_refl)) Hnd). reflexivity.
  Qed.

  Lemma bind_rows_positional : forall ids (tabs : list (table V)),
    NoDup ids -> (forall tb, In tb tabs -> map fst tb = ids) ->
    bind_rows V false ids tabs = Ok (rows_of ids tabs).
  Proof.
    intros ids tabs Hnd H. unfold bind_rows, rows_of.
    rewrite (hcat_aligned tabs ids Hnd H). simpl bind. rewrite combine_map_r. reflexivity.
  Qed.

  (* ---------------------------------------------- reading a data block *)
  Definition widths (vars : list (str * table V)) : list nat :=
    map (fun v => width (snd v)) vars.

  Lemma concat_get_length : forall (vars : list (str * table V)) id,
    (forall v, In v vars -> length (get id (snd v)) = width (snd v)) ->
    length (concat (map (get id) (map snd vars))) = sum (widths vars).
  Proof.
    induction vars as [|v vars IH]; intros id H; simpl; [reflexivity|].
    rewrite app_length, (H v (or_introl eq_refl)), IH; [reflexivity|].
    intros v' Hv'. apply H. right. exact Hv'.
  Qed.

  Lemma read_assoc_ok : forall (vars pre : list (str * table V)) ids,
    (forall v, In v (pre ++ vars) -> forall id, In id ids ->
               length (get id (snd v)) = width (snd v)) ->
    read_assoc V vparse (map data_line (rows_of ids (map snd (pre ++ vars))))
               (1 + sum (widths pre)) (combine (map fst vars) (widths vars))
    = Ok (map (fun v => (fst v, reindex V ids (snd v))) vars).
  Proof.
    induction vars as [|v vars IH]; intros pre ids H; [reflexivity|].
    simpl map. simpl combine. cbn [read_assoc].
    assert (mapM (parse_row vparse (1 + sum (widths pre))
                            (Some (1 + sum (widths pre) + width (snd v))))
                 (map data_line (rows_of ids (map snd (pre ++ v :: vars))))
            = Ok (reindex V ids (snd v))) as ->.
    { unfold rows_of, reindex. rewrite map_map. apply mapM_ok. intros id Hid.
      rewrite !map_app. simpl map. rewrite concat_app. simpl concat.
      assert (length (concat (map (get id) (map snd pre))) = sum (widths pre)) as E1.
      { apply concat_get_length. intros v' Hv'. apply H; [apply in_or_app; left; exact Hv'|exact Hid]. }
      assert (length (get id (snd v)) = width (snd v)) as E2.
      { apply H; [apply in_or_app; right; left; reflexivity|exact Hid]. }
      rewrite <- E1, <- E2. apply parse_row_slice. }
    simpl bind.
    replace (pre ++ v :: vars) with ((pre ++ [v]) ++ vars) by (rewrite <- app_assoc; reflexivity).
    replace (Datatypes.S (sum (widths pre) + width (snd v))) with (1 + sum (widths (pre ++ [v]))).
    2:{ unfold widths. rewrite map_app. simpl.
        assert (forall a b, sum (a ++ b) = sum a + sum b) as Hs.
        { induction a; simpl; intros; [reflexivity|rewrite IHa; lia]. }
        rewrite Hs. simpl. lia. }
    rewrite IH.
    - reflexivity.
    - intros v' Hv'. apply H. rewrite <- app_assoc in Hv'. exact Hv'.
  Qed.

  (* name lines *)
  Lemma before_comma_name : forall name rest,
    forallb namech name = true ->
    before_comma (name ++ ","%char :: rest) = Some name.
  Proof.
    induction name as [|c name IH]; intros rest H; simpl.
    - reflexivity.
    - simpl in H. apply andb_true_iff in H. destruct H as [Hc Hn].
      unfold namech in Hc. rewrite !andb_true_iff in Hc.
      destruct Hc as [[[_ Hc] _] _]. apply negb_true_iff in Hc. rewrite Hc.
      rewrite IH by exact Hn. reflexivity.
  Qed.

  Lemma strip_name_line : forall name,
    name_ok name = true -> strip (name ++ unit_suffix) = name ++ unit_suffix.
  Proof.
    intros name H. unfold name_ok in H. apply andb_true_iff in H. destruct H as [_ H].
    apply strip_id.
    - destruct name; [discriminate|]. exact H.
    - rewrite rev_app_distr. reflexivity.
  Qed.

  Lemma read_names_ok : forall vars : list (str * table V),
    (forall v, In v vars -> name_ok (fst v) = true) ->
    read_names (map (fun v => fst v ++ unit_suffix) vars) = Ok (map fst vars).
  Proof.
    intros vars H. unfold read_names. apply mapM_ok. intros v Hv.
    specialize (H v Hv). unfold name_ok in H. apply andb_true_iff in H. destruct H as [H _].
    unfold unit_suffix. change (S ", unit_unknown") with (","%char :: S " unit_unknown").
    rewrite before_comma_name by exact H. reflexivity.
  Qed.
End UCDProofs.
