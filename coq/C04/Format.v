(* C04 -- the writer's text format, named.
   The constants UCDWriter.write hands to DataFrame.to_csv / puts into its f-strings (separator,
   unit suffix of a name line, the fields of the first line) are given names here (prefix m_) and the
   lemmas show that Model.write_ucd produces lines of exactly that shape.  translate/c04_format.py
   re-reads the same constants from the source of the tree under test (gen/UcdFormat.v, prefix s_);
   the per-run obligation C04_writer_format proves them equal. *)
From Coq Require Import ZArith String List Ascii Bool Arith.
From FV.C04 Require Import Text Model.
Import ListNotations.
Set Default Timeout 120.

Definition m_sep : str := S " ".                 (* to_csv(sep=' '), ' '.join, header f-string *)
Definition m_csv_header : bool := false.         (* to_csv(header=False) *)
Definition m_unit_suffix : str := S ", unit_unknown".
Definition m_elem_material : str := S "1".       (* np.ones([n_element, 1], dtype=int) column *)
(* the first line: node count, element count, total nodal width, total elemental width, literal *)
Inductive top_field := TNodes | TElements | TNodalWidth | TElementalWidth | TLit (s : str).
Definition m_top_fields : list top_field := [TNodes; TElements; TNodalWidth; TElementalWidth; TLit (S "0")].

Section Format.
  Variable V : Type.
  Variable vprint : V -> str.
  Variable ETYPES : list str.
  Variable cfg : wcfg.

  Definition render_top (m : mesh V) (f : top_field) : str :=
    match f with
    | TNodes => print_nat (length (m_nodes V m))
    | TElements => print_nat (length (elem_ids V ETYPES m))
    | TNodalWidth => print_nat (sum (map (fun v => width (snd v)) (nodal_2d V m)))
    | TElementalWidth => print_nat (sum (map (fun v => width (snd v)) (elemental_2d V ETYPES m)))
    | TLit s => s
    end.

  Lemma data_line_format : forall r : row V,
    data_line V vprint r = join m_sep (print_Z (fst r) :: map vprint (snd r)).
  Proof. reflexivity. Qed.

  Lemma elem_line_format : forall tn (r : row Z),
    elem_line tn r = join m_sep (print_Z (fst r) :: m_elem_material :: tn :: map print_Z (snd r)).
  Proof. reflexivity. Qed.

  (* the first line of every file the model writes *)
  Lemma write_first_line : forall (m : mesh V) f,
    write_ucd V vprint ETYPES cfg m = Ok f ->
    hd_error f = Some (join m_sep (map (render_top m) m_top_fields)).
  Proof.
    intros m f. unfold write_ucd. cbv zeta.
    destruct (mapM _ _) as [el|]; simpl; [|discriminate].
    destruct (data_block _ _ _ _ _) as [nd|]; simpl; [|discriminate].
    destruct (data_block _ _ _ _ _) as [ed|]; simpl; [|discriminate].
    intros H. injection H as <-. reflexivity.
  Qed.

  (* a data section: count line, name lines with the unit suffix, then the rows *)
  Lemma data_block_format : forall by_id ids v vars lines,
    data_block V vprint by_id ids (v :: vars) = Ok lines ->
    exists rows,
      lines = join m_sep (print_nat (length (v :: vars)) :: map (fun x => print_nat (width (snd x))) (v :: vars))
              :: map (fun x => fst x ++ m_unit_suffix) (v :: vars)
              ++ map (data_line V vprint) rows.
  Proof.
    intros by_id ids v vars lines. unfold data_block.
    destruct (bind_rows _ _ _ _) as [rows|]; simpl; [|discriminate].
    intros H. injection H as <-. exists rows. reflexivity.
  Qed.
End Format.
