(* C04 — AVS UCD write -> read is exact for mesh, nodal and elemental data.
   Statements only.  gen/UcdCfg.v (ELEMENT_TYPES, the writer's row binding
   mode) is regenerated from the tree under test on every run. *)
From Coq Require Import ZArith String List Ascii Bool.
Import ListNotations.
From FV.C04 Require Import Text Model Proofs Corr.
From FV.C04.gen Require Import UcdCfg.

Section Statement.
  (* float64 values with Python's repr / float(); trusted, exercised bit-exactly
     by the correspondence check *)
  Variable V : Type.
  Variable vprint : V -> str.
  Variable vparse : str -> option V.
  Hypothesis vparse_vprint : forall v, vparse (vprint v) = Some v.
  Hypothesis vprint_token : forall v, tokenb (vprint v) = true.

  (* Full statement.  For every well-formed mesh (arbitrary ids and storage
     order, any mix of fixed-arity first-order types and tet2, any number and
     width of 2-D variables whose id set is the mesh's, in any order):
     reading what was written yields exactly the id-keyed specification
     `first_order m` -- provided the writer binds data rows by id. *)
  Theorem C04_ucd_roundtrip :
    cfg_ok UcdCfg.cfg = true ->
    forall m : mesh V, wf V element_types m = true ->
      roundtrip V vprint vparse element_types UcdCfg.cfg m = Ok (first_order V element_types m).
  Proof. intros H m Hwf. apply roundtrip_ok; auto. Qed.

  (* What holds for the writer as it is (whatever its binding mode): the same
     conclusion when every variable is stored in the mesh's own id order. *)
  Theorem C04_ucd_roundtrip_aligned :
    forall m : mesh V, wf V element_types m = true -> aligned V element_types m = true ->
      roundtrip V vprint vparse element_types UcdCfg.cfg m = Ok (first_order V element_types m).
  Proof. intros m Hwf Ha. apply roundtrip_ok; auto. Qed.

  (* nothing dropped: every 2-D variable of the input is a variable of the output *)
  Theorem C04_nothing_dropped :
    forall m : mesh V, wf V element_types m = true ->
      cfg_ok UcdCfg.cfg = true \/ aligned V element_types m = true ->
      exists u, roundtrip V vprint vparse element_types UcdCfg.cfg m = Ok u
        /\ (forall v, In v (m_nodal V m) -> nv_2d V v = true -> In (nv_name V v) (map fst (u_nodal V u)))
        /\ map fst (u_elemental V u) = map (ev_name V) (filter (ev_2d V) (m_elemental V m))
        /\ u_nodes V u = m_nodes V m.
  Proof.
    intros m Hwf Hmode. exists (first_order V element_types m). split; [apply roundtrip_ok; auto|].
    split; [|split; [|reflexivity]].
    - intros v Hv H2. simpl. apply upsert_keys. rewrite map_map. simpl.
      unfold nodal_2d. rewrite map_map. simpl.
      apply in_map_iff. exists v. split; [reflexivity|]. apply filter_In. auto.
    - simpl. unfold elemental_2d. rewrite !map_map. reflexivity.
  Qed.

  (* every value is bound to the id it was written for *)
  Theorem C04_values_by_id :
    forall (m : mesh V) name tb id,
      In (name, tb) (elemental_2d V element_types m) -> In id (elem_ids V element_types m) ->
      exists tb', In (name, tb') (u_elemental V (first_order V element_types m))
                  /\ lookup id tb' = Some (get id tb).
  Proof.
    intros m name tb id Hv Hid. exists (reindex V (elem_ids V element_types m) tb). split.
    - simpl. apply in_map_iff. exists (name, tb). auto.
    - apply lookup_reindex. exact Hid.
  Qed.

  Theorem C04_nodal_values_by_id :
    forall (m : mesh V) name tb id,
      In (name, tb) (nodal_2d V m) -> In id (map fst (m_nodes V m)) ->
      lookup id (reindex V (map fst (m_nodes V m)) tb) = Some (get id tb).
  Proof. intros m name tb id _ Hid. apply lookup_reindex. exact Hid. Qed.
End Statement.

(* a typed (per-block) variable means the same id-keyed table whether it is read
   through `.ids/.data` (sorted when there are several blocks) or block by block *)
Theorem C04_typed_variable_lookup :
  forall (X : Type) (bs : list (str * table X)) id,
    NoDup (map fst (flat_map snd (ordered_blocks element_types bs))) ->
    lookup id (ea_table element_types bs) = lookup id (flat_map snd (ordered_blocks element_types bs)).
Proof. intros. apply ea_table_lookup. assumption. Qed.

(* per-run tie of the file layer: StringSeries.read_file / read_files of the tree
   under test are the bodies the model stands for (the file is read on every
   call; no cache between a write and the next read of the same path) *)
Theorem C04_reader_reads_file : reads_file_every_call = true.
Proof. reflexivity. Qed.

(* the decimal layer under ids, counts and connectivity *)
Theorem C04_decimal_roundtrip : forall z, parse_Z (print_Z z) = Some z.
Proof. exact parse_print_Z. Qed.

(* The writer of the unchanged tree binds rows by position.  With that binding
   the full statement is false: witness (elements stored as 30, 10; the
   variable stored as 10, 30). *)
Definition positional : wcfg := {| nodal_by_id := false; elemental_by_id := false |}.
Definition witness : mesh str :=
  Build_mesh
    [(1%Z, [S "0.0"]); (2%Z, [S "1.0"])]
    [(S "line", [(30%Z, [1%Z; 2%Z]); (10%Z, [2%Z; 1%Z])])]
    []
    [Build_evar (S "p") true [(S "unknown", [(10%Z, [S "10.0"]); (30%Z, [S "30.0"])])]].

Theorem C04_ucd_roundtrip_positional_refuted :
  exists m : mesh str,
    wf str element_types m = true
    /\ roundtrip str tprint tparse element_types positional m
       <> Ok (first_order str element_types m).
Proof.
  exists witness. split; [vm_compute; reflexivity|].
  intros H.
  assert (model_roundtrip_ok element_types positional witness = true) as E.
  { unfold model_roundtrip_ok. rewrite H. unfold res_agree.
    assert (forall u, ucd_eqb u u = true) as R.
    { intros u. unfold ucd_eqb, named_eqb, table_eqb, row_eqb.
      assert (forall X (e : X -> X -> bool), (forall x, e x x = true) ->
                forall l, list_eqb e l l = true) as L.
      { intros X e He. induction l; simpl; [reflexivity|]. rewrite He, IHl. reflexivity. }
      rewrite !L; try reflexivity; intros; rewrite ?Z.eqb_refl, ?str_eqb_refl, ?L;
        try reflexivity; intros; rewrite ?Z.eqb_refl, ?str_eqb_refl, ?L; try reflexivity;
        intros; try apply str_eqb_refl; try apply Z.eqb_refl. }
    apply R. }
  vm_compute in E. discriminate E.
Qed.

(* non-vacuity: a mixed mesh with interleaved ids, tet2, nodal and elemental
   variables satisfies wf and aligned *)
Definition example : mesh str :=
  Build_mesh
    [(5%Z, [S "0.0"; S "-0.0"; S "NaN"]); (3%Z, [S "1e+308"; S "5e-324"; S "0.1"]);
     (9%Z, [S "0.0"; S "1.0"; S "0.0"]); (1%Z, [S "0.0"; S "0.0"; S "1.0"])]
    [(S "tet2", [(30%Z, [5%Z; 3%Z; 9%Z; 1%Z; 5%Z; 3%Z; 9%Z; 1%Z; 5%Z; 3%Z])]);
     (S "tri", [(20%Z, [5%Z; 3%Z; 9%Z]); (40%Z, [3%Z; 9%Z; 1%Z])])]
    [Build_nvar (S "NODE") true
       [(5%Z, [S "0.0"; S "-0.0"; S "NaN"]); (3%Z, [S "1e+308"; S "5e-324"; S "0.1"]);
        (9%Z, [S "0.0"; S "1.0"; S "0.0"]); (1%Z, [S "0.0"; S "0.0"; S "1.0"])];
     Build_nvar (S "t") true [(5%Z, [S "1.5"]); (3%Z, [S "2.5"]); (9%Z, [S "inf"]); (1%Z, [S "-inf"])];
     Build_nvar (S "series") false []]
    [Build_evar (S "p q") true
       [(S "tri", [(40%Z, [S "4.0"; S "4.5"]); (20%Z, [S "2.0"; S "2.5"])]);
        (S "tet2", [(30%Z, [S "3.0"; S "3.5"])])]].

Theorem C04_example_wf :
  wf str element_types example = true /\ aligned str element_types example = true
  /\ model_roundtrip_ok element_types positional example = true.
Proof. vm_compute. repeat split. Qed.

Print Assumptions C04_ucd_roundtrip.
Print Assumptions C04_ucd_roundtrip_aligned.
Print Assumptions C04_ucd_roundtrip_positional_refuted.
