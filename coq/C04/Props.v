From Coq Require Import ZArith String List.
From FV.C04 Require Import Text Model.
Theorem C04_decimal_roundtrip : forall z, parse_Z (print_Z z) = Some z.
Proof. exact parse_print_Z. Qed.
