(* C04 — AVS UCD write -> read is exact for mesh, nodal and elemental data.
   Statements only.  gen/UcdCfg.v (ELEMENT_TYPES, the writer's row binding
   mode) is regenerated from the tree under test on every run. *)
From Coq Require Import ZArith String List Ascii Bool.
Import ListNotations.
From FV.C04 Require Import Text Model Proofs Corr Offsets.
From FV.C04.gen Require Import UcdCfg.

Section Statement.
  (* float64 values with Python's repr / float(); trusted, exercised bit-exactly
     by the correspondence check *)
  Variable V : Type.
  Variable vprint : V -> str.
  Variable vparse : str -> option V.
  Hypothesis vparse_vprint : forall v, vparse (vprint v) = Some v.
  Hypothesis vprint_token : forall v, tokenb (vprint v) = true.

  (* Full statement.  For every well-formed mesh (arbitrary ids and storage
     order, any mix of fixed-arity first-order types and tet2, any number and
     width of 2-D variables whose id set is the mesh's, in any order):
     reading what was written yields exactly the id-keyed specification
     `first_order m` -- provided the writer binds data rows by id. *)
  Theorem C04_ucd_roundtrip :
    cfg_ok UcdCfg.cfg = true ->
    forall m : mesh V, wf V element_types m = true ->
      roundtrip V vprint vparse element_types UcdCfg.cfg m = Ok (first_order V element_types m).
  Proof. intros H m Hwf. apply roundtrip_ok; auto. Qed.

  (* What holds for the writer as it is (whatever its binding mode): the same
     conclusion when every variable is stored in the mesh's own id order. *)
  Theorem C04_ucd_roundtrip_aligned :
    forall m : mesh V, wf V element_types m = true -> aligned V element_types m = true ->
      roundtrip V vprint vparse element_types UcdCfg.cfg m = Ok (first_order V element_types m).
  Proof. intros m Hwf Ha. apply roundtrip_ok; auto. Qed.

  (* nothing dropped: every 2-D variable of the input is a variable of the output *)
  Theorem C04_nothing_dropped :
    forall m : mesh V, wf V element_types m = true ->
      cfg_ok UcdCfg.cfg = true \/ aligned V element_types m = true ->
      exists u, roundtrip V vprint vparse element_types UcdCfg.cfg m = Ok u
        /\ (forall v, In v (m_nodal V m) -> nv_2d V v = true -> In (nv_name V v) (map fst (u_nodal V u)))
        /\ map fst (u_elemental V u) = map (ev_name V) (filter (ev_2d V) (m_elemental V m))
        /\ u_nodes V u = m_nodes V m.
  Proof.
    intros m Hwf Hmode. exists (first_order V element_types m). split; [apply roundtrip_ok; auto|].
    split; [|split; [|reflexivity]].
    - intros v Hv H2. simpl. apply upsert_keys. rewrite map_map. simpl.
      unfold nodal_2d. rewrite map_map. simpl.
      apply in_map_iff. exists v. split; [reflexivity|]. apply filter_In. auto.
    - simpl. unfold elemental_2d. rewrite !map_map. reflexivity.
  Qed.

  (* every value is bound to the id it was written for *)
  Theorem C04_values_by_id :
    forall (m : mesh V) name tb id,
      In (name, tb) (elemental_2d V element_types m) -> In id (elem_ids V element_types m) ->
      exists tb', In (name, tb') (u_elemental V (first_order V element_types m))
                  /\ lookup id tb' = Some (get id tb).
  Proof.
    intros m name tb id Hv Hid. exists (reindex V (elem_ids V element_types m) tb). split.
    - simpl. apply in_map_iff. exists (name, tb). auto.
    - apply lookup_reindex. exact Hid.
  Qed.

  (* The file determines the id-keyed content: two well-formed meshes that are written to the same
     lines have the same first-order content (ids, coordinates, types, connectivity, every value of
     every 2-D variable).  "Nothing is lost" stated without the reader. *)
  Theorem C04_file_determines_content :
    cfg_ok UcdCfg.cfg = true ->
    forall (m1 m2 : mesh V) (f : list str),
      wf V element_types m1 = true -> wf V element_types m2 = true ->
      write_ucd V vprint element_types UcdCfg.cfg m1 = Ok f ->
      write_ucd V vprint element_types UcdCfg.cfg m2 = Ok f ->
      first_order V element_types m1 = first_order V element_types m2.
  Proof.
    intros Hc m1 m2 f H1 H2 W1 W2.
    assert (R1 : roundtrip V vprint vparse element_types UcdCfg.cfg m1 = Ok (first_order V element_types m1))
      by (apply roundtrip_ok; auto).
    assert (R2 : roundtrip V vprint vparse element_types UcdCfg.cfg m2 = Ok (first_order V element_types m2))
      by (apply roundtrip_ok; auto).
    unfold roundtrip in R1, R2. rewrite W1 in R1. rewrite W2 in R2. simpl in R1, R2.
    congruence.
  Qed.

  (* The reader reads at the named positions of Offsets.v (m_...): kernel-checked by computation.
     The per-run obligation C04_reader_offsets (harness) proves that the expressions translated from
     femio/formats/ucd/ucd.py of the tree under test (gen/UcdOffsets.v, s_...) equal them for all
     header counts. *)
  Theorem C04_reader_reads_at_named_offsets :
    forall lines h,
      read_nodes V vparse lines h =
        mapM (parse_row vparse m_node_first_col None)
             (slice (m_nodes_lo (n_node h)) (m_nodes_hi (n_node h)) lines)
      /\ read_nodal_data V vparse lines h =
        (if Nat.eqb (all_dn h) 0 then Ok []
         else
           do names <- read_names (slice (m_nnames_lo (n_node h) (n_element h) (n_nodal h))
                                         (m_nnames_hi (n_node h) (n_element h) (n_nodal h)) lines);
           read_assoc V vparse
             (slice (m_nrows_lo (n_node h) (n_element h) (n_nodal h))
                    (m_nrows_hi (n_node h) (n_element h) (n_nodal h)) lines)
             m_data_first_col (combine names (nodal_dims h)))
      /\ read_elemental_data V vparse lines h =
        (if Nat.eqb (all_de h) 0 then Ok []
         else
           do names <- read_names
                         (slice (m_enames_lo (n_node h) (n_element h) (all_dn h) (n_nodal h) (n_elemental h))
                                (m_enames_hi (n_node h) (n_element h) (all_dn h) (n_nodal h) (n_elemental h))
                                lines);
           read_assoc V vparse
             (slice (m_erows_lo (n_node h) (n_element h) (all_dn h) (n_nodal h) (n_elemental h))
                    (m_erows_hi (n_node h) (n_element h) (all_dn h) (n_nodal h) (n_elemental h)) lines)
             m_data_first_col (combine names (elemental_dims h))).
  Proof.
    intros lines h. split; [apply read_nodes_offsets|]. split;
      [apply read_nodal_data_offsets | apply read_elemental_data_offsets].
  Qed.

  Theorem C04_nodal_values_by_id :
    forall (m : mesh V) name tb id,
      In (name, tb) (nodal_2d V m) -> In id (map fst (m_nodes V m)) ->
      lookup id (reindex V (map fst (m_nodes V m)) tb) = Some (get id tb).
  Proof. intros m name tb id _ Hid. apply lookup_reindex. exact Hid. Qed.
End Statement.

(* a typed (per-block) variable means the same id-keyed table whether it is read
   through `.ids/.data` (sorted when there are several blocks) or block by block *)
Theorem C04_typed_variable_lookup :
  forall (X : Type) (bs : list (str * table X)) id,
    NoDup (map fst (flat_map snd (ordered_blocks element_types bs))) ->
    lookup id (ea_table element_types bs) = lookup id (flat_map snd (ordered_blocks element_types bs)).
Proof. intros. apply ea_table_lookup. assumption. Qed.

(* read_headers / read_elements read at the named positions (no float values involved) *)
Theorem C04_reader_headers_at_named_offsets :
  forall lines,
    read_headers lines =
      (do l0 <- line_at 0 lines;
       do top <- parse_ints l0;
       do nn <- nth_r 0 top; do ne <- nth_r 1 top; do dn <- nth_r 2 top; do de <- nth_r 3 top;
       do nh <- (if Nat.eqb dn 0 then Ok (0, [0])
                 else do l <- line_at (m_nodal_header_line nn ne) lines; count_dims l);
       do eh <- (if Nat.eqb de 0 then Ok (0, [0])
                 else do l <- line_at (m_elemental_header_line nn ne (fst nh)) lines; count_dims l);
       Ok {| n_node := nn; n_element := ne; all_dn := dn; all_de := de;
             n_nodal := fst nh; nodal_dims := snd nh;
             n_elemental := fst eh; elemental_dims := snd eh |})
    /\ forall h, read_elements element_types lines h =
      (do rows <- mapM (fun l => do t <- nth_r m_elem_type_col (tokens l);
                                 do r <- parse_row parse_Z m_elem_first_col None l; Ok (t, r))
                       (slice (m_elems_lo (n_node h) (n_element h))
                              (m_elems_hi (n_node h) (n_element h)) lines);
       if forallb (fun r => mem_str (fst r) element_types) rows then Ok (group_rows element_types rows)
       else Err "Unsupported element type").
Proof. intros lines. split; [apply read_headers_offsets | intros h; apply read_elements_offsets]. Qed.

(* per-run tie of the file layer: StringSeries.read_file / read_files of the tree
   under test are the bodies the model stands for (the file is read on every
   call; no cache between a write and the next read of the same path) *)
Theorem C04_reader_reads_file : reads_file_every_call = true.
Proof. reflexivity. Qed.

(* the decimal layer under ids, counts and connectivity *)
Theorem C04_decimal_roundtrip : forall z, parse_Z (print_Z z) = Some z.
Proof. exact parse_print_Z. Qed.

(* The writer of the unchanged tree binds rows by position.  With that binding
   the full statement is false: witness (elements stored as 30, 10; the
   variable stored as 10, 30). *)
Definition positional : wcfg := {| nodal_by_id := false; elemental_by_id := false |}.
Definition witness : mesh str :=
  Build_mesh
    [(1%Z, [S "0.0"]); (2%Z, [S "1.0"])]
    [(S "line", [(30%Z, [1%Z; 2%Z]); (10%Z, [2%Z; 1%Z])])]
    []
    [Build_evar (S "p") true [(S "unknown", [(10%Z, [S "10.0"]); (30%Z, [S "30.0"])])]].

Theorem C04_ucd_roundtrip_positional_refuted :
  exists m : mesh str,
    wf str element_types m = true
    /\ roundtrip str tprint tparse element_types positional m
       <> Ok (first_order str element_types m).
Proof.
  exists witness. split; [vm_compute; reflexivity|].
  intros H.
  assert (model_roundtrip_ok element_types positional witness = true) as E.
  { unfold model_roundtrip_ok. rewrite H. unfold res_agree.
    assert (forall u, ucd_eqb u u = true) as R.
    { intros u. unfold ucd_eqb, named_eqb, table_eqb, row_eqb.
      assert (forall X (e : X -> X -> bool), (forall x, e x x = true) ->
                forall l, list_eqb e l l = true) as L.
      { intros X e He. induction l; simpl; [reflexivity|]. rewrite He, IHl. reflexivity. }
      rewrite !L; try reflexivity; intros; rewrite ?Z.eqb_refl, ?str_eqb_refl, ?L;
        try reflexivity; intros; rewrite ?Z.eqb_refl, ?str_eqb_refl, ?L; try reflexivity;
        intros; try apply str_eqb_refl; try apply Z.eqb_refl. }
    apply R. }
  vm_compute in E. discriminate E.
Qed.

(* non-vacuity: a mixed mesh with interleaved ids, tet2, nodal and elemental
   variables satisfies wf and aligned *)
Definition example : mesh str :=
  Build_mesh
    [(5%Z, [S "0.0"; S "-0.0"; S "NaN"]); (3%Z, [S "1e+308"; S "5e-324"; S "0.1"]);
     (9%Z, [S "0.0"; S "1.0"; S "0.0"]); (1%Z, [S "0.0"; S "0.0"; S "1.0"])]
    [(S "tet2", [(30%Z, [5%Z; 3%Z; 9%Z; 1%Z; 5%Z; 3%Z; 9%Z; 1%Z; 5%Z; 3%Z])]);
     (S "tri", [(20%Z, [5%Z; 3%Z; 9%Z]); (40%Z, [3%Z; 9%Z; 1%Z])])]
    [Build_nvar (S "NODE") true
       [(5%Z, [S "0.0"; S "-0.0"; S "NaN"]); (3%Z, [S "1e+308"; S "5e-324"; S "0.1"]);
        (9%Z, [S "0.0"; S "1.0"; S "0.0"]); (1%Z, [S "0.0"; S "0.0"; S "1.0"])];
     Build_nvar (S "t") true [(5%Z, [S "1.5"]); (3%Z, [S "2.5"]); (9%Z, [S "inf"]); (1%Z, [S "-inf"])];
     Build_nvar (S "series") false []]
    [Build_evar (S "p q") true
       [(S "tri", [(40%Z, [S "4.0"; S "4.5"]); (20%Z, [S "2.0"; S "2.5"])]);
        (S "tet2", [(30%Z, [S "3.0"; S "3.5"])])]].

Theorem C04_example_wf :
  wf str element_types example = true /\ aligned str element_types example = true
  /\ model_roundtrip_ok element_types positional example = true.
Proof. vm_compute. repeat split. Qed.

(* non-vacuity of C04_file_determines_content: `example` and `example_permuted` (the variable t and
   the tri block of p q stored in another id order) are different well-formed meshes, the by-id
   writer gives both the same file, and their id-keyed content is the same *)
Definition by_id : wcfg := {| nodal_by_id := true; elemental_by_id := true |}.
Definition example_permuted : mesh str :=
  Build_mesh (m_nodes _ example) (m_elems _ example)
    [Build_nvar (S "NODE") true (m_nodes _ example);
     Build_nvar (S "t") true [(1%Z, [S "-inf"]); (9%Z, [S "inf"]); (5%Z, [S "1.5"]); (3%Z, [S "2.5"])];
     Build_nvar (S "series") false []]
    [Build_evar (S "p q") true
       [(S "tri", [(20%Z, [S "2.0"; S "2.5"]); (40%Z, [S "4.0"; S "4.5"])]);
        (S "tet2", [(30%Z, [S "3.0"; S "3.5"])])]].
Theorem C04_example_same_file :
  wf str element_types example_permuted = true
  /\ res_agree (list_eqb str_eqb) (write_ucd str tprint element_types by_id example)
       (match write_ucd str tprint element_types by_id example_permuted with Ok l => Some l | Err _ => None end)
     = true
  /\ res_agree ucd_eqb (Ok (first_order str element_types example))
       (Some (first_order str element_types example_permuted)) = true
  /\ length (match write_ucd str tprint element_types by_id example with Ok l => l | Err _ => [] end) = 20.
Proof. vm_compute. repeat split. Qed.

Print Assumptions C04_ucd_roundtrip.
Print Assumptions C04_ucd_roundtrip_aligned.
Print Assumptions C04_file_determines_content.
Print Assumptions C04_reader_reads_at_named_offsets.
Print Assumptions C04_reader_headers_at_named_offsets.
Print Assumptions C04_ucd_roundtrip_positional_refuted.
