(* C04 -- the reader parametrised by its line / column arithmetic.
   `read_ucd_at o` is UCDData.read_files with every line index, slice bound and column start taken
   from a record `o` of functions of the header counts.  `read_ucd_at_agree`: if `o` agrees with the
   model's positions (Offsets.v, prefix m_) on all header counts the reader can see, then
   `read_ucd_at o` IS `Model.read_ucd`; hence `roundtrip_at_ok`: the proved round trip holds for the
   reader that uses `o`.  The harness instantiates `o` with gen/UcdOffsets.v (prefix s_, translated
   from femio/formats/ucd/ucd.py of the tree under test) and discharges `agree` with the per-run
   obligation C04_reader_offsets, which states the round trip directly over the translated offsets. *)
From Coq Require Import ZArith String List Ascii Bool Arith Lia.
From FV.C04 Require Import Text Model Proofs Offsets.
Import ListNotations.
Set Default Timeout 120.

Definition cnt := nat -> nat -> nat -> nat -> nat -> nat -> nat.   (* N E DN DE ND NE *)
Record offs := {
  o_nodal_header_line : cnt; o_elemental_header_line : cnt;
  o_nodes_lo : cnt; o_nodes_hi : cnt; o_elems_lo : cnt; o_elems_hi : cnt;
  o_nnames_lo : cnt; o_nnames_hi : cnt; o_nrows_lo : cnt; o_nrows_hi : cnt;
  o_enames_lo : cnt; o_enames_hi : cnt; o_erows_lo : cnt; o_erows_hi : cnt;
  o_node_first_col : cnt; o_elem_type_col : cnt; o_elem_first_col : cnt; o_data_first_col : cnt }.

(* the model's own positions as such a record *)
Definition model_offs : offs := {|
  o_nodal_header_line := fun N E _ _ _ _ => m_nodal_header_line N E;
  o_elemental_header_line := fun N E _ _ ND _ => m_elemental_header_line N E ND;
  o_nodes_lo := fun N _ _ _ _ _ => m_nodes_lo N; o_nodes_hi := fun N _ _ _ _ _ => m_nodes_hi N;
  o_elems_lo := fun N E _ _ _ _ => m_elems_lo N E; o_elems_hi := fun N E _ _ _ _ => m_elems_hi N E;
  o_nnames_lo := fun N E _ _ ND _ => m_nnames_lo N E ND; o_nnames_hi := fun N E _ _ ND _ => m_nnames_hi N E ND;
  o_nrows_lo := fun N E _ _ ND _ => m_nrows_lo N E ND; o_nrows_hi := fun N E _ _ ND _ => m_nrows_hi N E ND;
  o_enames_lo := fun N E DN _ ND NE => m_enames_lo N E DN ND NE;
  o_enames_hi := fun N E DN _ ND NE => m_enames_hi N E DN ND NE;
  o_erows_lo := fun N E DN _ ND NE => m_erows_lo N E DN ND NE;
  o_erows_hi := fun N E DN _ ND NE => m_erows_hi N E DN ND NE;
  o_node_first_col := fun _ _ _ _ _ _ => m_node_first_col;
  o_elem_type_col := fun _ _ _ _ _ _ => m_elem_type_col;
  o_elem_first_col := fun _ _ _ _ _ _ => m_elem_first_col;
  o_data_first_col := fun _ _ _ _ _ _ => m_data_first_col |}.

(* agreement on every header the reader can see: read_headers sets n_nodal_data = 0 when there is
   no nodal section (DN = 0), and n_elemental_data = 0 when DE = 0 *)
Definition agree (o : offs) : Prop :=
  forall N E DN DE ND NE : nat, (DN = 0 -> ND = 0) -> (DE = 0 -> NE = 0) ->
    o_nodal_header_line o N E DN DE ND NE = m_nodal_header_line N E
    /\ o_elemental_header_line o N E DN DE ND NE = m_elemental_header_line N E ND
    /\ o_nodes_lo o N E DN DE ND NE = m_nodes_lo N /\ o_nodes_hi o N E DN DE ND NE = m_nodes_hi N
    /\ o_elems_lo o N E DN DE ND NE = m_elems_lo N E /\ o_elems_hi o N E DN DE ND NE = m_elems_hi N E
    /\ o_nnames_lo o N E DN DE ND NE = m_nnames_lo N E ND /\ o_nnames_hi o N E DN DE ND NE = m_nnames_hi N E ND
    /\ o_nrows_lo o N E DN DE ND NE = m_nrows_lo N E ND /\ o_nrows_hi o N E DN DE ND NE = m_nrows_hi N E ND
    /\ o_enames_lo o N E DN DE ND NE = m_enames_lo N E DN ND NE
    /\ o_enames_hi o N E DN DE ND NE = m_enames_hi N E DN ND NE
    /\ o_erows_lo o N E DN DE ND NE = m_erows_lo N E DN ND NE
    /\ o_erows_hi o N E DN DE ND NE = m_erows_hi N E DN ND NE
    /\ o_node_first_col o N E DN DE ND NE = m_node_first_col
    /\ o_elem_type_col o N E DN DE ND NE = m_elem_type_col
    /\ o_elem_first_col o N E DN DE ND NE = m_elem_first_col
    /\ o_data_first_col o N E DN DE ND NE = m_data_first_col.

Lemma agree_model : agree model_offs.
Proof. intros N E DN DE ND NE _ _. cbn. repeat split. Qed.

Section ReadAt.
  Variable V : Type.
  Variable vprint : V -> str.
  Variable vparse : str -> option V.
  Variable ETYPES : list str.
  Variable o : offs.

  (* the six counts of a headers record, applied to a field of o *)
  Definition at_h (f : cnt) (h : headers) : nat :=
    f (n_node h) (n_element h) (all_dn h) (all_de h) (n_nodal h) (n_elemental h).

  Definition read_headers_at (lines : list str) : result headers :=
    do l0 <- line_at 0 lines;
    do top <- parse_ints l0;
    do nn <- nth_r 0 top; do ne <- nth_r 1 top; do dn <- nth_r 2 top; do de <- nth_r 3 top;
    do nh <- (if Nat.eqb dn 0 then Ok (0, [0])
              else do l <- line_at (o_nodal_header_line o nn ne dn de 0 0) lines; count_dims l);
    do eh <- (if Nat.eqb de 0 then Ok (0, [0])
              else do l <- line_at (o_elemental_header_line o nn ne dn de (fst nh) 0) lines;
                   count_dims l);
    Ok {| n_node := nn; n_element := ne; all_dn := dn; all_de := de;
          n_nodal := fst nh; nodal_dims := snd nh;
          n_elemental := fst eh; elemental_dims := snd eh |}.

  Definition read_nodes_at (lines : list str) (h : headers) : result (table V) :=
    mapM (parse_row vparse (at_h (o_node_first_col o) h) None)
         (slice (at_h (o_nodes_lo o) h) (at_h (o_nodes_hi o) h) lines).

  Definition read_elements_at (lines : list str) (h : headers) : result (list (str * table Z)) :=
    do rows <- mapM (fun l => do t <- nth_r (at_h (o_elem_type_col o) h) (tokens l);
                               do r <- parse_row parse_Z (at_h (o_elem_first_col o) h) None l; Ok (t, r))
                    (slice (at_h (o_elems_lo o) h) (at_h (o_elems_hi o) h) lines);
    if forallb (fun r => mem_str (fst r) ETYPES) rows then Ok (group_rows ETYPES rows)
    else Err "Unsupported element type".

  Definition read_nodal_data_at (lines : list str) (h : headers) : result (list (str * table V)) :=
    if Nat.eqb (all_dn h) 0 then Ok []
    else
      do names <- read_names (slice (at_h (o_nnames_lo o) h) (at_h (o_nnames_hi o) h) lines);
      read_assoc V vparse (slice (at_h (o_nrows_lo o) h) (at_h (o_nrows_hi o) h) lines)
                 (at_h (o_data_first_col o) h) (combine names (nodal_dims h)).

  Definition read_elemental_data_at (lines : list str) (h : headers) : result (list (str * table V)) :=
    if Nat.eqb (all_de h) 0 then Ok []
    else
      do names <- read_names (slice (at_h (o_enames_lo o) h) (at_h (o_enames_hi o) h) lines);
      read_assoc V vparse (slice (at_h (o_erows_lo o) h) (at_h (o_erows_hi o) h) lines)
                 (at_h (o_data_first_col o) h) (combine names (elemental_dims h)).

  Definition read_ucd_at (lines0 : list str) : result (ucd V) :=
    let lines := map strip lines0 in
    do h <- read_headers_at lines;
    do ns <- read_nodes_at lines h;
    do es <- read_elements_at lines h;
    do nd <- read_nodal_data_at lines h;
    do ed <- read_elemental_data_at lines h;
    Ok {| u_nodes := ns; u_elems := es; u_nodal := upsert NODE ns nd; u_elemental := ed |}.

  Definition roundtrip_at (cfg : wcfg) (m : mesh V) : result (ucd V) :=
    do f <- write_ucd V vprint ETYPES cfg m; read_ucd_at f.
End ReadAt.

(* ------------------------------------------------------------------ proofs *)
Section ReadAtProofs.
  Variable V : Type.
  Variable vprint : V -> str.
  Variable vparse : str -> option V.
  Variable ETYPES : list str.
  Variable o : offs.
  Hypothesis Ho : agree o.

  Lemma bind_ext : forall A B (r : result A) (f g : A -> result B),
    (forall a, r = Ok a -> f a = g a) -> bind r f = bind r g.
  Proof. intros A B [a|e] f g H; simpl; [apply H|]; reflexivity. Qed.

  Lemma read_headers_at_eq : forall lines, read_headers_at o lines = read_headers lines.
  Proof.
    intros lines. unfold read_headers_at, read_headers.
    apply bind_ext; intros l0 _. apply bind_ext; intros top _.
    apply bind_ext; intros nn _. apply bind_ext; intros ne _.
    apply bind_ext; intros dn _. apply bind_ext; intros de _.
    assert (E1 : o_nodal_header_line o nn ne dn de 0 0 = nn + ne + 1).
    { destruct (Ho nn ne dn de 0 0) as [H _]; auto. }
    rewrite E1.
    apply bind_ext; intros nh Hnh.
    assert (E2 : dn = 0 -> fst nh = 0).
    { intros ->. simpl in Hnh. injection Hnh as <-. reflexivity. }
    assert (E3 : o_elemental_header_line o nn ne dn de (fst nh) 0
                 = nn + ne + 1 + fst nh + Nat.min 1 (fst nh) * (nn + 1)).
    { destruct (Ho nn ne dn de (fst nh) 0) as [_ [H _]]; auto. }
    rewrite E3. reflexivity.
  Qed.

  Lemma read_headers_inv : forall lines h, read_headers lines = Ok h ->
    (all_dn h = 0 -> n_nodal h = 0) /\ (all_de h = 0 -> n_elemental h = 0).
  Proof.
    intros lines h. unfold read_headers.
    destruct (line_at 0 lines) as [l0|]; simpl; [|discriminate].
    destruct (parse_ints l0) as [top|]; simpl; [|discriminate].
    destruct (nth_r 0 top) as [nn|]; simpl; [|discriminate].
    destruct (nth_r 1 top) as [ne|]; simpl; [|discriminate].
    destruct (nth_r 2 top) as [dn|]; simpl; [|discriminate].
    destruct (nth_r 3 top) as [de|]; simpl; [|discriminate].
    destruct (Nat.eqb dn 0) eqn:Ed.
    - simpl. destruct (Nat.eqb de 0) eqn:Ee.
      + simpl. intros H. injection H as <-. simpl. auto.
      + match goal with |- context[bind ?x _] => destruct x as [eh|] end; simpl; [|discriminate].
        intros H. injection H as <-. simpl. apply Nat.eqb_neq in Ee. split; auto. intros; contradiction.
    - match goal with |- context[bind ?x _] => destruct x as [nh|] end; simpl; [|discriminate].
      apply Nat.eqb_neq in Ed.
      destruct (Nat.eqb de 0) eqn:Ee.
      + simpl. intros H. injection H as <-. simpl. split; auto. intros; contradiction.
      + match goal with |- context[bind ?x _] => destruct x as [eh|] end; simpl; [|discriminate].
        intros H. injection H as <-. simpl. apply Nat.eqb_neq in Ee. split; intros; contradiction.
  Qed.

  Lemma readers_at_eq : forall lines h,
    (all_dn h = 0 -> n_nodal h = 0) -> (all_de h = 0 -> n_elemental h = 0) ->
    read_nodes_at V vparse o lines h = read_nodes V vparse lines h
    /\ read_elements_at ETYPES o lines h = read_elements ETYPES lines h
    /\ read_nodal_data_at V vparse o lines h = read_nodal_data V vparse lines h
    /\ read_elemental_data_at V vparse o lines h = read_elemental_data V vparse lines h.
  Proof.
    intros lines h H1 H2.
    destruct (Ho (n_node h) (n_element h) (all_dn h) (all_de h) (n_nodal h) (n_elemental h) H1 H2)
      as (_ & _ & A3 & A4 & A5 & A6 & A7 & A8 & A9 & A10 & A11 & A12 & A13 & A14 & A15 & A16 & A17 & A18).
    rewrite read_nodes_offsets, read_elements_offsets, read_nodal_data_offsets, read_elemental_data_offsets.
    unfold read_nodes_at, read_elements_at, read_nodal_data_at, read_elemental_data_at, at_h.
    rewrite A3, A4, A5, A6, A7, A8, A9, A10, A11, A12, A13, A14, A15, A16, A17, A18.
    repeat split; reflexivity.
  Qed.

  Theorem read_ucd_at_agree : forall lines, read_ucd_at V vparse ETYPES o lines = read_ucd V vparse ETYPES lines.
  Proof.
    intros lines. unfold read_ucd_at, read_ucd. cbv zeta. rewrite read_headers_at_eq.
    apply bind_ext; intros h Hh.
    destruct (read_headers_inv _ _ Hh) as [H1 H2].
    destruct (readers_at_eq (map strip lines) h H1 H2) as (E1 & E2 & E3 & E4).
    rewrite E1, E2, E3, E4. reflexivity.
  Qed.

  (* the round trip of the reader that uses o *)
  Hypothesis vparse_vprint : forall v, vparse (vprint v) = Some v.
  Hypothesis vprint_token : forall v, tokenb (vprint v) = true.
  Theorem roundtrip_at_ok : forall cfg (m : mesh V),
    wf V ETYPES m = true -> cfg_ok cfg = true \/ aligned V ETYPES m = true ->
    roundtrip_at V vprint vparse ETYPES o cfg m = Ok (first_order V ETYPES m).
  Proof.
    intros cfg m Hwf Hmode.
    assert (R : roundtrip V vprint vparse ETYPES cfg m = Ok (first_order V ETYPES m))
      by (apply roundtrip_ok; auto).
    unfold roundtrip in R. unfold roundtrip_at.
    destruct (write_ucd V vprint ETYPES cfg m) as [f|e]; simpl in *; [|exact R].
    rewrite read_ucd_at_agree. exact R.
  Qed.
End ReadAtProofs.

