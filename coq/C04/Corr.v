(* Executable glue for the correspondence check of C04 (no theorem depends on
   this file).  Values are the tokens themselves (the harness prints every
   float64 with Python's repr / 'NaN'), so `write_ucd` computes the exact file
   text and `read_ucd` the exact tokens femio converts with float(). *)
From Coq Require Import ZArith String List Ascii Bool.
From FV.C04 Require Import Text Model.
Import ListNotations.

Definition tprint (t : str) : str := t.
Definition tparse (t : str) : option str := if tokenb t then Some t else None.

Definition row_eqb {X} (e : X -> X -> bool) (a b : row X) : bool :=
  Z.eqb (fst a) (fst b) && list_eqb e (snd a) (snd b).
Definition table_eqb {X} (e : X -> X -> bool) : table X -> table X -> bool :=
  list_eqb (row_eqb e).
Definition named_eqb {X} (e : X -> X -> bool) : list (str * table X) -> list (str * table X) -> bool :=
  list_eqb (fun a b => str_eqb (fst a) (fst b) && table_eqb e (snd a) (snd b)).
Definition ucd_eqb (a b : ucd str) : bool :=
  table_eqb str_eqb (u_nodes _ a) (u_nodes _ b)
  && named_eqb Z.eqb (u_elems _ a) (u_elems _ b)
  && named_eqb str_eqb (u_nodal _ a) (u_nodal _ b)
  && named_eqb str_eqb (u_elemental _ a) (u_elemental _ b).

(* expected outcome: Some x = succeeded with x, None = raised *)
Definition res_agree {A} (e : A -> A -> bool) (r : result A) (x : option A) : bool :=
  match r, x with
  | Ok a, Some b => e a b
  | Err _, None => true
  | _, _ => false
  end.

Definition agree_write (et : list str) (c : wcfg) (m : mesh str) (lines : option (list str)) : bool :=
  res_agree (list_eqb str_eqb) (write_ucd str tprint et c m) lines.
Definition agree_read (et : list str) (lines : list str) (u : option (ucd str)) : bool :=
  res_agree ucd_eqb (read_ucd str tparse et lines) u.
(* the property on the model: round trip = id-keyed specification *)
Definition model_roundtrip_ok (et : list str) (c : wcfg) (m : mesh str) : bool :=
  res_agree ucd_eqb (roundtrip str tprint tparse et c m) (Some (first_order str et m)).
