(* C04 — AVS UCD write -> read.  Hand model (tie H) of
     /repo/femio/formats/ucd/write_ucd.py  UCDWriter.write
     /repo/femio/fem_writer.py             try_convert_to_2d, _convert_objectdict2arraydict,
                                           _extract_first_order_element
     /repo/femio/formats/ucd/ucd.py        UCDData.read_files / read_headers / read_nodes /
                                           read_elements / read_nodal_data / read_elemental_data /
                                           _read_associated_data
     /repo/femio/util/string_parser.py     StringSeries.strip / to_values / to_fem_attribute /
                                           split_vertical(1)
     /repo/femio/fem_elemental_attribute.py  keys() order, _update_self (ids/data of a typed table)
   Definitions only.  A file is the list of its lines.  Values are an abstract
   type V with a printer and a parser (float repr / float()). *)
From Coq Require Import ZArith String List Ascii Bool.
From FV.C04 Require Import Text.
Import ListNotations.

Definition row (X : Type) : Type := (Z * list X)%type.
Definition table (X : Type) : Type := list (row X).   (* ids with their rows, storage order *)

Fixpoint lookup {X} (id : Z) (tb : table X) : option (list X) :=
  match tb with
  | [] => None
  | (i, r) :: tb' => if (i =? id)%Z then Some r else lookup id tb'
  end.
Definition get {X} (id : Z) (tb : table X) : list X :=
  match lookup id tb with Some r => r | None => [] end.

Fixpoint assoc {X} (k : str) (l : list (str * X)) : option X :=
  match l with
  | [] => None
  | (k', x) :: l' => if str_eqb k' k then Some x else assoc k l'
  end.

Definition width {X} (tb : table X) : nat :=
  match tb with [] => 0 | (_, r) :: _ => length r end.

(* stable insertion sort on the id (np.argsort on distinct ids) *)
Fixpoint insert_row {X} (r : row X) (tb : table X) : table X :=
  match tb with
  | [] => [r]
  | r' :: tb' => if (fst r <=? fst r')%Z then r :: tb else r' :: insert_row r tb'
  end.
Fixpoint sort_rows {X} (tb : table X) : table X :=
  match tb with [] => [] | r :: tb' => insert_row r (sort_rows tb') end.

Fixpoint last_char (s : str) : option ascii :=
  match s with [] => None | [c] => Some c | _ :: s' => last_char s' end.

Fixpoint sum (l : list nat) : nat := match l with [] => 0 | a :: l' => a + sum l' end.

(* str.strip() *)
Fixpoint drop_ws (s : str) : str :=
  match s with [] => [] | c :: s' => if is_ws c then drop_ws s' else s end.
Definition strip (s : str) : str := rev (drop_ws (rev (drop_ws s))).

(* split_vertical(1): text before the first comma (None when there is none) *)
Fixpoint before_comma (s : str) : option str :=
  match s with
  | [] => None
  | c :: s' => if Ascii.eqb c ","%char then Some []
               else option_map (cons c) (before_comma s')
  end.

(* what the writer binds data rows with: the variable's own position, or the id *)
Record wcfg := { nodal_by_id : bool; elemental_by_id : bool }.

Section UCD.
  Variable V : Type.
  Variable vprint : V -> str.            (* repr of a float64 ('NaN' for NaN) *)
  Variable vparse : str -> option V.     (* float(token) *)
  Variable ETYPES : list str.            (* FEMElementalAttribute.ELEMENT_TYPES *)
  Variable cfg : wcfg.

  (* ------------------------------------------------------------ the mesh *)
  Record nvar := { nv_name : str; nv_2d : bool; nv_tab : table V }.
  Record evar := { ev_name : str; ev_2d : bool; ev_blocks : list (str * table V) }.
  Record mesh := {
    m_nodes : table V;
    m_elems : list (str * table Z);        (* dict element type -> block *)
    m_nodal : list nvar;                   (* dict order *)
    m_elemental : list evar }.

  (* FEMElementalAttribute.items(): blocks in ELEMENT_TYPES order *)
  Definition ordered_blocks {X} (bs : list (str * table X)) : list (str * table X) :=
    flat_map (fun t => match assoc t bs with Some tb => [(t, tb)] | None => [] end) ETYPES.

  (* FEMElementalAttribute.ids / .data (_update_self): the single block as
     stored, or the concatenation of the blocks sorted by id *)
  Definition ea_table {X} (bs : list (str * table X)) : table X :=
    match ordered_blocks bs with
    | [(_, tb)] => tb
    | obs => sort_rows (flat_map snd obs)
    end.

  (* ---------------------------------------------------------- the writer *)
  (* _extract_first_order_element *)
  Definition fo_name (t : str) : result str :=
    match last_char t with
    | None => Err "empty element type"
    | Some c =>
        if Ascii.eqb c "2"%char
        then (if str_eqb t (S "tet2") then Ok (removelast t)
              else Err "Unknown element type")
        else Ok t
    end.
  Definition fo_conn (t : str) (c : list Z) : list Z :=
    match last_char t with
    | Some c2 => if Ascii.eqb c2 "2"%char then firstn 4 c else c
    | None => c
    end.

  Definition data_line (r : row V) : str := unwords (print_Z (fst r) :: map vprint (snd r)).
  Definition elem_line (tn : str) (r : row Z) : str :=
    unwords (print_Z (fst r) :: S "1" :: tn :: map print_Z (snd r)).

  Definition block_lines (b : str * table Z) : result (list str) :=
    do tn <- fo_name (fst b);
    Ok (map (fun r => elem_line tn (fst r, fo_conn (fst b) (snd r))) (snd b)).

  (* np.concatenate([v.data ...], axis=1) under index=ids: positional *)
  Fixpoint zip_app (a b : list (list V)) : result (list (list V)) :=
    match a, b with
    | [], [] => Ok []
    | x :: a', y :: b' => do r <- zip_app a' b'; Ok ((x ++ y) :: r)
    | _, _ => Err "all the input array dimensions except for the concatenation axis must match"
    end.
  Fixpoint hcat (tabs : list (table V)) (n : nat) : result (list (list V)) :=
    match tabs with
    | [] => Ok (repeat [] n)
    | t :: ts => do rest <- hcat ts n; zip_app (map snd t) rest
    end.
  Definition bind_rows (by_id : bool) (ids : list Z) (tabs : list (table V)) : result (table V) :=
    if by_id
    then mapM (fun id =>
                 do cells <- mapM (fun tb => of_opt "id not in variable" (lookup id tb)) tabs;
                 Ok (id, concat cells)) ids
    else do rows <- hcat tabs (length ids); Ok (combine ids rows).

  Definition unit_suffix : str := S ", unit_unknown".

  Definition data_block (by_id : bool) (ids : list Z) (vars : list (str * table V))
    : result (list str) :=
    match vars with
    | [] => Ok []
    | _ =>
        do rows <- bind_rows by_id ids (map snd vars);
        Ok (unwords (print_nat (length vars) :: map (fun v => print_nat (width (snd v))) vars)
              :: map (fun v => fst v ++ unit_suffix) vars
              ++ map data_line rows)
    end.

  Definition nodal_2d (m : mesh) : list (str * table V) :=
    map (fun v => (nv_name v, nv_tab v)) (filter nv_2d (m_nodal m)).
  Definition elemental_2d (m : mesh) : list (str * table V) :=
    map (fun v => (ev_name v, ea_table (ev_blocks v))) (filter ev_2d (m_elemental m)).
  Definition elem_ids (m : mesh) : list Z := map fst (ea_table (m_elems m)).

  Definition write_ucd (m : mesh) : result (list str) :=
    let nv := nodal_2d m in
    let ev := elemental_2d m in
    let header := unwords [print_nat (length (m_nodes m)); print_nat (length (elem_ids m));
                           print_nat (sum (map (fun v => width (snd v)) nv));
                           print_nat (sum (map (fun v => width (snd v)) ev)); S "0"] in
    do elines <- mapM block_lines (ordered_blocks (m_elems m));
    do nd <- data_block (nodal_by_id cfg) (map fst (m_nodes m)) nv;
    do ed <- data_block (elemental_by_id cfg) (elem_ids m) ev;
    Ok (header :: map data_line (m_nodes m) ++ concat elines ++ nd ++ ed).

  (* ---------------------------------------------------------- the reader *)
  Record ucd := {
    u_nodes : table V;
    u_elems : list (str * table Z);
    u_nodal : list (str * table V);
    u_elemental : list (str * table V) }.

  Definition line_at (i : nat) (lines : list str) : result str :=
    of_opt "line index out of range" (nth_error lines i).
  (* to_values(r'\s+', data_type=int)[0] *)
  Definition parse_ints (l : str) : result (list nat) :=
    mapM (fun t => of_opt "not an integer" (parse_nat t)) (tokens l).
  Definition nth_r {A} (i : nat) (l : list A) : result A :=
    of_opt "index out of range" (nth_error l i).

  (* to_fem_attribute(name, id_column, slice(lo, hi), delimiter=r'\s+') on one line *)
  Definition pyslice {A} (lo : nat) (hi : option nat) (l : list A) : list A :=
    match hi with Some h => slice lo h l | None => skipn lo l end.
  Definition parse_row {X} (p : str -> option X) (lo : nat) (hi : option nat) (l : str)
    : result (row X) :=
    let ts := tokens l in
    do idt <- nth_r 0 ts;
    do id <- of_opt "bad id" (parse_Z idt);
    do cells <- of_opt "bad value" (mapO p (pyslice lo hi ts));
    Ok (id, cells).

  Record headers := {
    n_node : nat; n_element : nat; all_dn : nat; all_de : nat;
    n_nodal : nat; nodal_dims : list nat; n_elemental : nat; elemental_dims : list nat }.

  Definition count_dims (l : str) : result (nat * list nat) :=
    do h <- parse_ints l;
    match h with a :: r => Ok (a, r) | [] => Err "empty header" end.

  Definition read_headers (lines : list str) : result headers :=
    do l0 <- line_at 0 lines;
    do top <- parse_ints l0;
    do nn <- nth_r 0 top; do ne <- nth_r 1 top; do dn <- nth_r 2 top; do de <- nth_r 3 top;
    do nh <- (if Nat.eqb dn 0 then Ok (0, [0])
              else do l <- line_at (nn + ne + 1) lines; count_dims l);
    do eh <- (if Nat.eqb de 0 then Ok (0, [0])
              else do l <- line_at (nn + ne + 1 + fst nh + Nat.min 1 (fst nh) * (nn + 1)) lines;
                   count_dims l);
    Ok {| n_node := nn; n_element := ne; all_dn := dn; all_de := de;
          n_nodal := fst nh; nodal_dims := snd nh;
          n_elemental := fst eh; elemental_dims := snd eh |}.

  Definition read_nodes (lines : list str) (h : headers) : result (table V) :=
    mapM (parse_row vparse 1 None) (slice 1 (n_node h + 1) lines).

  (* read_elements: rows are grouped by the type token (column 2); the
     resulting dict is iterated in ELEMENT_TYPES order *)
  Definition parse_erow (l : str) : result (str * row Z) :=
    do t <- nth_r 2 (tokens l);
    do r <- parse_row parse_Z 3 None l;
    Ok (t, r).
  Definition mem_str (t : str) (l : list str) : bool := existsb (str_eqb t) l.
  Definition group_rows (rows : list (str * row Z)) : list (str * table Z) :=
    flat_map (fun t =>
                match filter (fun r => str_eqb (fst r) t) rows with
                | [] => []
                | rs => [(t, map snd rs)]
                end) ETYPES.
  Definition read_elements (lines : list str) (h : headers) : result (list (str * table Z)) :=
    let start := n_node h + 1 in
    do rows <- mapM parse_erow (slice start (start + n_element h) lines);
    if forallb (fun r => mem_str (fst r) ETYPES) rows then Ok (group_rows rows)
    else Err "Unsupported element type".

  (* _read_associated_data: zip(names, units, dims), cumulative column slices *)
  Fixpoint read_assoc (lines : list str) (cum : nat) (nds : list (str * nat))
    : result (list (str * table V)) :=
    match nds with
    | [] => Ok []
    | (name, dim) :: rest =>
        do tb <- mapM (parse_row vparse cum (Some (cum + dim))) lines;
        do r <- read_assoc lines (cum + dim) rest;
        Ok ((name, tb) :: r)
    end.
  Definition read_names (lines : list str) : result (list str) :=
    mapM (fun l => of_opt "no comma in name line" (before_comma l)) lines.

  Definition read_nodal_data (lines : list str) (h : headers) : result (list (str * table V)) :=
    if Nat.eqb (all_dn h) 0 then Ok []
    else
      let name_start := n_node h + 1 + n_element h + 1 in
      let name_end := name_start + n_nodal h in
      do names <- read_names (slice name_start name_end lines);
      read_assoc (slice name_end (name_end + n_node h) lines) 1 (combine names (nodal_dims h)).

  Definition read_elemental_data (lines : list str) (h : headers)
    : result (list (str * table V)) :=
    if Nat.eqb (all_de h) 0 then Ok []
    else
      let node_shift := Nat.min 1 (all_dn h) * (n_nodal h + n_node h + 1) in
      let name_start := n_node h + 1 + n_element h + 1 + node_shift in
      let name_end := name_start + n_elemental h in
      do names <- read_names (slice name_start name_end lines);
      read_assoc (slice name_end (name_end + n_element h) lines) 1
                 (combine names (elemental_dims h)).

  (* FEMData.read_files -> obj._to_fem_data() -> FEMData.__init__:
     `self.nodal_data['NODE'] = self.nodes` (dict assignment: an existing key
     keeps its position, a new key is appended) *)
  Fixpoint upsert {X} (k : str) (x : X) (l : list (str * X)) : list (str * X) :=
    match l with
    | [] => [(k, x)]
    | (k', y) :: l' => if str_eqb k' k then (k', x) :: l' else (k', y) :: upsert k x l'
    end.
  Definition NODE : str := S "NODE".

  Definition read_ucd (lines0 : list str) : result ucd :=
    let lines := map strip lines0 in
    do h <- read_headers lines;
    do ns <- read_nodes lines h;
    do es <- read_elements lines h;
    do nd <- read_nodal_data lines h;
    do ed <- read_elemental_data lines h;
    Ok {| u_nodes := ns; u_elems := es; u_nodal := upsert NODE ns nd; u_elemental := ed |}.

  Definition roundtrip (m : mesh) : result ucd := do f <- write_ucd m; read_ucd f.

  (* -------------------------------------------------- the specification *)
  (* "Second-order tetrahedra are exported as their first-order corner
     tetrahedra; nothing else is altered or dropped": id-keyed, independent of
     how the writer binds rows *)
  Definition spec_name (t : str) : str := if str_eqb t (S "tet2") then S "tet" else t.
  Definition spec_conn (t : str) (c : list Z) : list Z :=
    if str_eqb t (S "tet2") then firstn 4 c else c.
  Definition spec_elems (m : mesh) : list (str * table Z) :=
    flat_map (fun t =>
      match flat_map (fun b => if str_eqb (spec_name (fst b)) t
                               then map (fun r => (fst r, spec_conn (fst b) (snd r))) (snd b)
                               else []) (ordered_blocks (m_elems m)) with
      | [] => []
      | rs => [(t, rs)]
      end) ETYPES.
  (* the variable's value for every mesh id, in the mesh's id order *)
  Definition reindex (ids : list Z) (tb : table V) : table V :=
    map (fun id => (id, get id tb)) ids.
  Definition first_order (m : mesh) : ucd :=
    {| u_nodes := m_nodes m;
       u_elems := spec_elems m;
       (* FEMData keeps the node table itself under the name NODE *)
       u_nodal := upsert NODE (m_nodes m)
                    (map (fun v => (fst v, reindex (map fst (m_nodes m)) (snd v))) (nodal_2d m));
       u_elemental := map (fun v => (fst v, reindex (elem_ids m) (snd v))) (elemental_2d m) |}.

  (* ------------------------------------------------------ well-formedness *)
  Fixpoint nodupZ (l : list Z) : bool :=
    match l with [] => true | a :: l' => negb (existsb (Z.eqb a) l') && nodupZ l' end.
  Fixpoint nodup_str (l : list str) : bool :=
    match l with [] => true | a :: l' => negb (mem_str a l') && nodup_str l' end.
  Definition rect {X} (w : nat) (tb : table X) : bool :=
    forallb (fun r => Nat.eqb (length (snd r)) w) tb.
  (* ids survive the reader's astype(float).astype(int) *)
  Definition id_ok (z : Z) : bool := (Z.abs z <=? 9007199254740992)%Z.
  (* same id set, any order *)
  Definition same_ids (ids : list Z) (tb : table V) : bool :=
    nodupZ (map fst tb) && Nat.eqb (length tb) (length ids)
    && forallb (fun id => existsb (Z.eqb id) (map fst tb)) ids.
  (* characters a variable name may contain: printable ASCII except comma, at-sign, double quote; and
     blanks only inside *)
  Definition namech (c : ascii) : bool :=
    let n := N_of_ascii c in
    ((32 <=? n)%N && (n <=? 126)%N)
    && negb (Ascii.eqb c ","%char) && negb (Ascii.eqb c "@"%char) && negb (Ascii.eqb c """"%char).
  Definition name_ok (s : str) : bool :=
    forallb namech s
    && match s with [] => false | c :: _ => tokch c end.
  Definition ends2 (t : str) : bool :=
    match last_char t with Some c => Ascii.eqb c "2"%char | None => false end.
  Definition type_ok (t : str) : bool :=
    mem_str t ETYPES && tokenb t && (negb (ends2 t) || str_eqb t (S "tet2")).
  Definition var_ok (ids : list Z) (v : str * table V) : bool :=
    name_ok (fst v) && Nat.ltb 0 (width (snd v)) && rect (width (snd v)) (snd v)
    && same_ids ids (snd v).

  Definition wf (m : mesh) : bool :=
    (* nodes *)
    Nat.ltb 0 (length (m_nodes m)) && nodupZ (map fst (m_nodes m))
    && forallb id_ok (map fst (m_nodes m)) && rect (width (m_nodes m)) (m_nodes m)
    (* elements *)
    && nodup_str (map fst (m_elems m)) && forallb type_ok (map fst (m_elems m))
    && forallb (fun b => Nat.ltb 0 (length (snd b)) && rect (width (snd b)) (snd b)) (m_elems m)
    && nodupZ (elem_ids m) && forallb id_ok (elem_ids m)
    && mem_str (S "tet") ETYPES
    (* variables *)
    && nodup_str (map fst (nodal_2d m)) && nodup_str (map fst (elemental_2d m))
    && forallb (var_ok (map fst (m_nodes m))) (nodal_2d m)
    && forallb (var_ok (elem_ids m)) (elemental_2d m).

  (* the variable's rows are stored in the mesh's id order *)
  Definition aligned (m : mesh) : bool :=
    forallb (fun v => list_eqb Z.eqb (map fst (snd v)) (map fst (m_nodes m))) (nodal_2d m)
    && forallb (fun v => list_eqb Z.eqb (map fst (snd v)) (elem_ids m)) (elemental_2d m).

  Definition cfg_ok : bool := nodal_by_id cfg && elemental_by_id cfg.
End UCD.

Arguments Build_nvar {V} _ _ _.
Arguments Build_evar {V} _ _ _.
Arguments Build_mesh {V} _ _ _ _.
Arguments Build_ucd {V} _ _ _ _.
