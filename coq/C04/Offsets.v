(* C04 -- the reader's line / column arithmetic, named.
   Every line index and slice bound that UCDData.read_headers / read_nodes / read_elements /
   read_nodal_data / read_elemental_data compute from the header counts is given a name here
   (prefix m_: the model side), and the `*_offsets` lemmas show -- by reflexivity, i.e. by computation in
   the kernel -- that Model.read_* are exactly the functions that read at these positions.
   translate/c04_offsets.py regenerates the SAME quantities from the source of the tree under test
   (gen/UcdOffsets.v, prefix s_), and the per-run obligation C04_reader_offsets (harness/c04.py) proves
   s_x = m_x for all counts.  Definitions and reflexivity lemmas only. *)
From Coq Require Import ZArith String List Ascii Bool Arith.
From FV.C04 Require Import Text Model.
Import ListNotations.

(* header counts: N nodes, E elements, DN / DE total nodal / elemental width (0 = no section),
   ND / NE number of nodal / elemental variables *)
Definition m_nodal_header_line (N E : nat) : nat := N + E + 1.
Definition m_elemental_header_line (N E ND : nat) : nat :=
  N + E + 1 + ND + Nat.min 1 ND * (N + 1).
Definition m_nodes_lo (N : nat) : nat := 1.
Definition m_nodes_hi (N : nat) : nat := N + 1.
Definition m_elems_lo (N E : nat) : nat := N + 1.
Definition m_elems_hi (N E : nat) : nat := N + 1 + E.
Definition m_nnames_lo (N E ND : nat) : nat := N + 1 + E + 1.
Definition m_nnames_hi (N E ND : nat) : nat := N + 1 + E + 1 + ND.
Definition m_nrows_lo (N E ND : nat) : nat := N + 1 + E + 1 + ND.
Definition m_nrows_hi (N E ND : nat) : nat := N + 1 + E + 1 + ND + N.
Definition m_enames_lo (N E DN ND NE : nat) : nat :=
  N + 1 + E + 1 + Nat.min 1 DN * (ND + N + 1).
Definition m_enames_hi (N E DN ND NE : nat) : nat := m_enames_lo N E DN ND NE + NE.
Definition m_erows_lo (N E DN ND NE : nat) : nat := m_enames_hi N E DN ND NE.
Definition m_erows_hi (N E DN ND NE : nat) : nat := m_enames_hi N E DN ND NE + E.
(* columns: id column, first data column of a node row, type column and first connectivity column
   of an element row, first data column of a data row *)
Definition m_node_first_col : nat := 1.
Definition m_elem_type_col : nat := 2.
Definition m_elem_first_col : nat := 3.
Definition m_data_first_col : nat := 1.

Section Offsets.
  Variable V : Type.
  Variable vparse : str -> option V.
  Variable ETYPES : list str.

  Lemma read_headers_offsets : forall lines,
    read_headers lines =
      (do l0 <- line_at 0 lines;
       do top <- parse_ints l0;
       do nn <- nth_r 0 top; do ne <- nth_r 1 top; do dn <- nth_r 2 top; do de <- nth_r 3 top;
       do nh <- (if Nat.eqb dn 0 then Ok (0, [0])
                 else do l <- line_at (m_nodal_header_line nn ne) lines; count_dims l);
       do eh <- (if Nat.eqb de 0 then Ok (0, [0])
                 else do l <- line_at (m_elemental_header_line nn ne (fst nh)) lines; count_dims l);
       Ok {| n_node := nn; n_element := ne; all_dn := dn; all_de := de;
             n_nodal := fst nh; nodal_dims := snd nh;
             n_elemental := fst eh; elemental_dims := snd eh |}).
  Proof. reflexivity. Qed.

  Lemma read_nodes_offsets : forall lines h,
    read_nodes V vparse lines h =
      mapM (parse_row vparse m_node_first_col None)
           (slice (m_nodes_lo (n_node h)) (m_nodes_hi (n_node h)) lines).
  Proof. reflexivity. Qed.

  Lemma read_elements_offsets : forall lines h,
    read_elements ETYPES lines h =
      (do rows <- mapM (fun l => do t <- nth_r m_elem_type_col (tokens l);
                                 do r <- parse_row parse_Z m_elem_first_col None l; Ok (t, r))
                       (slice (m_elems_lo (n_node h) (n_element h))
                              (m_elems_hi (n_node h) (n_element h)) lines);
       if forallb (fun r => mem_str (fst r) ETYPES) rows then Ok (group_rows ETYPES rows)
       else Err "Unsupported element type").
  Proof. reflexivity. Qed.

  Lemma read_nodal_data_offsets : forall lines h,
    read_nodal_data V vparse lines h =
      (if Nat.eqb (all_dn h) 0 then Ok []
       else
         do names <- read_names (slice (m_nnames_lo (n_node h) (n_element h) (n_nodal h))
                                       (m_nnames_hi (n_node h) (n_element h) (n_nodal h)) lines);
         read_assoc V vparse
           (slice (m_nrows_lo (n_node h) (n_element h) (n_nodal h))
                  (m_nrows_hi (n_node h) (n_element h) (n_nodal h)) lines)
           m_data_first_col (combine names (nodal_dims h))).
  Proof. reflexivity. Qed.

  Lemma read_elemental_data_offsets : forall lines h,
    read_elemental_data V vparse lines h =
      (if Nat.eqb (all_de h) 0 then Ok []
       else
         do names <- read_names
                       (slice (m_enames_lo (n_node h) (n_element h) (all_dn h) (n_nodal h) (n_elemental h))
                              (m_enames_hi (n_node h) (n_element h) (all_dn h) (n_nodal h) (n_elemental h))
                              lines);
         read_assoc V vparse
           (slice (m_erows_lo (n_node h) (n_element h) (all_dn h) (n_nodal h) (n_elemental h))
                  (m_erows_hi (n_node h) (n_element h) (all_dn h) (n_nodal h) (n_elemental h)) lines)
           m_data_first_col (combine names (elemental_dims h))).
  Proof. reflexivity. Qed.

  (* _read_associated_data: variable i occupies the columns
     [first + sum(dims[:i]), first + sum(dims[:i]) + dims[i]) *)
  Lemma read_assoc_step : forall lines cum name dim rest,
    read_assoc V vparse lines cum ((name, dim) :: rest) =
      (do tb <- mapM (parse_row vparse cum (Some (cum + dim))) lines;
       do r <- read_assoc V vparse lines (cum + dim) rest;
       Ok ((name, tb) :: r)).
  Proof. reflexivity. Qed.
End Offsets.
