(* Text layer shared by C04 (AVS UCD) and C02 (FrontISTR res): strings as
   lists of characters, whitespace tokenisation (the model of
   `line.strip()` followed by `re.split(r'\s+', line)`), blank-separated
   joining, decimal integers (Coq's own DecimalString printer/parser with its
   round-trip lemma), the option/result monad used by the readers.
   Definitions and their lemmas live together here because the lemmas are the
   library's interface; the property models (Model.v) stay proof-free. *)
From Coq Require Import ZArith String List Ascii Bool Lia.
From Coq Require Decimal DecimalString DecimalZ DecimalPos.
Import DecimalString.
Import ListNotations.

Definition str := list ascii.
Definition S (s : string) : str := list_ascii_of_string s.
Definition show (s : str) : string := string_of_list_ascii s.

Lemma show_S : forall s, show (S s) = s.
Proof. exact string_of_list_ascii_of_string. Qed.
Lemma S_show : forall s, S (show s) = s.
Proof. exact list_ascii_of_string_of_list_ascii. Qed.

(* -------------------------------------------------------------- results *)
Inductive result (A : Type) : Type :=
| Ok : A -> result A
| Err : string -> result A.
Arguments Ok {A} _.
Arguments Err {A} _.

Definition bind {A B} (r : result A) (f : A -> result B) : result B :=
  match r with Ok a => f a | Err e => Err e end.
Definition of_opt {A} (e : string) (o : option A) : result A :=
  match o with Some a => Ok a | None => Err e end.
Notation "'do' x <- r ; k" := (bind r (fun x => k))
  (at level 200, x pattern, r at level 100, k at level 200, right associativity).

Fixpoint mapM {A B} (f : A -> result B) (l : list A) : result (list B) :=
  match l with
  | [] => Ok []
  | a :: l' => do b <- f a; do bs <- mapM f l'; Ok (b :: bs)
  end.

Fixpoint mapO {A B} (f : A -> option B) (l : list A) : option (list B) :=
  match l with
  | [] => Some []
  | a :: l' => match f a, mapO f l' with
               | Some b, Some bs => Some (b :: bs)
               | _, _ => None
               end
  end.

Lemma mapM_ok {A B C} (f : A -> result B) (g : C -> A) (h : C -> B) l :
  (forall c, In c l -> f (g c) = Ok (h c)) ->
  mapM f (map g l) = Ok (map h l).
Proof.
  induction l as [|c l IH]; intros H; simpl; [reflexivity|].
  rewrite (H c (or_introl eq_refl)). simpl.
  rewrite IH; [reflexivity|]. intros c' Hc. apply H. right. exact Hc.
Qed.

Lemma mapO_ok {A B C} (f : A -> option B) (g : C -> A) (h : C -> B) l :
  (forall c, In c l -> f (g c) = Some (h c)) ->
  mapO f (map g l) = Some (map h l).
Proof.
  induction l as [|c l IH]; intros H; simpl; [reflexivity|].
  rewrite (H c (or_introl eq_refl)).
  rewrite IH; [reflexivity|]. intros c' Hc. apply H. right. exact Hc.
Qed.

(* ----------------------------------------------------------- whitespace *)
(* Python's `\s` on str restricted to ASCII: \t \n \v \f \r, 0x1c..0x1f, ' ' *)
Definition is_ws (c : ascii) : bool :=
  let n := N_of_ascii c in
  ((9 <=? n)%N && (n <=? 13)%N) || ((28 <=? n)%N && (n <=? 32)%N).
Definition tokch (c : ascii) : bool := negb (is_ws c).
(* a token: non-empty, no whitespace *)
Definition tokenb (t : str) : bool :=
  match t with [] => false | _ => forallb tokch t end.

(* maximal runs of non-whitespace characters = re.split(r'\s+', s.strip())
   for a line with at least one non-blank character *)
Fixpoint tokens_aux (cur : str) (s : str) : list str :=
  match s with
  | [] => match cur with [] => [] | _ => [rev cur] end
  | c :: s' =>
      if is_ws c
      then match cur with [] => tokens_aux [] s' | _ => rev cur :: tokens_aux [] s' end
      else tokens_aux (c :: cur) s'
  end.
Definition tokens (s : str) : list str := tokens_aux [] s.

Fixpoint join (sep : str) (ts : list str) : str :=
  match ts with
  | [] => []
  | [t] => t
  | t :: ts' => t ++ sep ++ join sep ts'
  end.
Definition sp : str := [" "%char].
Definition unwords (ts : list str) : str := join sp ts.

Lemma tokens_aux_tok : forall t cur rest,
  forallb tokch t = true ->
  tokens_aux cur (t ++ rest) = tokens_aux (rev t ++ cur) rest.
Proof.
  induction t as [|c t IH]; intros cur rest H; simpl in *; [reflexivity|].
  apply andb_true_iff in H. destruct H as [Hc Ht].
  unfold tokch in Hc. apply negb_true_iff in Hc. rewrite Hc.
  rewrite IH by exact Ht. rewrite <- app_assoc. reflexivity.
Qed.

Lemma tokenb_inv : forall t, tokenb t = true -> t <> [] /\ forallb tokch t = true.
Proof. intros [|c t] H; simpl in H; [discriminate|]. split; [discriminate|exact H]. Qed.

Lemma tokens_unwords : forall ts,
  forallb tokenb ts = true -> tokens (unwords ts) = ts.
Proof.
  unfold tokens, unwords.
  induction ts as [|t ts IH]; intros H; [reflexivity|].
  simpl in H. apply andb_true_iff in H. destruct H as [Ht Hts].
  destruct (tokenb_inv _ Ht) as [Hne Hall].
  destruct ts as [|t' ts'].
  - simpl. rewrite <- (app_nil_r t) at 1. rewrite tokens_aux_tok by exact Hall.
    simpl. rewrite app_nil_r.
    destruct (rev t) eqn:E.
    + apply (f_equal (@rev _)) in E. rewrite rev_involutive in E. simpl in E. contradiction.
    + rewrite <- E. rewrite rev_involutive. reflexivity.
  - change (join sp (t :: t' :: ts')) with (t ++ sp ++ join sp (t' :: ts')).
    rewrite tokens_aux_tok by exact Hall. rewrite app_nil_r.
    simpl app. cbn [tokens_aux]. change (is_ws " "%char) with true. cbv iota.
    destruct (rev t) eqn:E.
    + apply (f_equal (@rev _)) in E. rewrite rev_involutive in E. simpl in E. contradiction.
    + rewrite <- E. rewrite rev_involutive. f_equal. apply IH. exact Hts.
Qed.

(* ------------------------------------------------------ decimal integers *)
Definition print_Z (z : Z) : str := S (NilZero.string_of_int (Z.to_int z)).
Definition parse_Z (s : str) : option Z :=
  option_map Z.of_int (NilZero.int_of_string (show s)).

Lemma parse_print_Z : forall z, parse_Z (print_Z z) = Some z.
Proof.
  intros z. unfold parse_Z, print_Z. rewrite show_S.
  rewrite NilZero.isi.
  - simpl. f_equal. apply DecimalZ.of_to.
  - destruct z; simpl; try discriminate. intros H. inversion H.
    eapply DecimalPos.Unsigned.to_uint_nonnil; eassumption.
  - destruct z; simpl; try discriminate. intros H. inversion H.
    eapply DecimalPos.Unsigned.to_uint_nonnil; eassumption.
Qed.

Definition digitb (c : ascii) : bool :=
  let n := N_of_ascii c in ((48 <=? n)%N && (n <=? 57)%N).

Lemma digits_uint : forall d, forallb digitb (S (NilEmpty.string_of_uint d)) = true.
Proof. induction d; simpl; try reflexivity; exact IHd. Qed.

Lemma digit_tokch : forall c, digitb c = true -> tokch c = true.
Proof.
  intros c. unfold digitb, tokch, is_ws. intros H.
  apply andb_true_iff in H. destruct H as [H1 H2].
  apply N.leb_le in H1. apply N.leb_le in H2.
  apply negb_true_iff. apply orb_false_iff. split; apply andb_false_iff.
  - right. apply N.leb_gt. lia.
  - right. apply N.leb_gt. lia.
Qed.

Lemma forallb_impl {A} (p q : A -> bool) l :
  (forall a, p a = true -> q a = true) -> forallb p l = true -> forallb q l = true.
Proof.
  intros Hpq. induction l; simpl; [auto|]. intros H.
  apply andb_true_iff in H. destruct H. apply andb_true_iff. auto.
Qed.

Lemma tokenb_intro : forall t, t <> [] -> forallb tokch t = true -> tokenb t = true.
Proof. intros [|c t] H1 H2; [contradiction|exact H2]. Qed.

Lemma uint_token : forall d, tokenb (S (NilZero.string_of_uint d)) = true.
Proof.
  intros d. destruct d; try reflexivity;
  (apply tokenb_intro;
   [unfold NilZero.string_of_uint; simpl; discriminate
   |unfold NilZero.string_of_uint;
    apply (forallb_impl _ _ _ digit_tokch); apply digits_uint]).
Qed.

Lemma print_Z_token : forall z, tokenb (print_Z z) = true.
Proof.
  intros z. unfold print_Z. destruct (Z.to_int z) as [d|d]; simpl NilZero.string_of_int.
  - apply uint_token.
  - pose proof (uint_token d) as H. apply tokenb_inv in H. destruct H as [_ H].
    simpl. exact H.
Qed.

(* natural-number fields (counts, offsets) go through the same printer *)
Definition print_nat (n : nat) : str := print_Z (Z.of_nat n).
Definition parse_nat (s : str) : option nat :=
  match parse_Z s with
  | Some z => if (z <? 0)%Z then None else Some (Z.to_nat z)
  | None => None
  end.

Lemma parse_print_nat : forall n, parse_nat (print_nat n) = Some n.
Proof.
  intros n. unfold parse_nat, print_nat. rewrite parse_print_Z.
  destruct (Z.ltb_spec (Z.of_nat n) 0); [lia|]. rewrite Nat2Z.id. reflexivity.
Qed.

Lemma print_nat_token : forall n, tokenb (print_nat n) = true.
Proof. intros n. apply print_Z_token. Qed.

(* ----------------------------------------------------------- list helpers *)
Definition slice {A} (start stop : nat) (l : list A) : list A :=
  firstn (stop - start) (skipn start l).   (* Python l[start:stop], clamped *)

Lemma slice_app_exact {A} (a b c : list A) :
  slice (length a) (length a + length b) (a ++ b ++ c) = b.
Proof.
  unfold slice. rewrite skipn_app, skipn_all, Nat.sub_diag. simpl.
  replace (length a + length b - length a) with (length b) by lia.
  rewrite firstn_app, firstn_all, Nat.sub_diag. simpl. apply app_nil_r.
Qed.

Lemma nth_error_app_exact {A} (a : list A) x c :
  nth_error (a ++ x :: c) (length a) = Some x.
Proof. rewrite nth_error_app2 by lia. rewrite Nat.sub_diag. reflexivity. Qed.

Fixpoint list_eqb {A} (eqb : A -> A -> bool) (l1 l2 : list A) : bool :=
  match l1, l2 with
  | [], [] => true
  | a :: l1', b :: l2' => eqb a b && list_eqb eqb l1' l2'
  | _, _ => false
  end.
Definition str_eqb : str -> str -> bool := list_eqb Ascii.eqb.

Lemma list_eqb_spec {A} (eqb : A -> A -> bool) :
  (forall a b, eqb a b = true <-> a = b) ->
  forall l1 l2, list_eqb eqb l1 l2 = true <-> l1 = l2.
Proof.
  intros H. induction l1 as [|a l1 IH]; intros [|b l2]; simpl; split; intros E;
    try reflexivity; try discriminate.
  - apply andb_true_iff in E. destruct E as [E1 E2].
    apply H in E1. apply IH in E2. subst. reflexivity.
  - inversion E; subst. apply andb_true_iff. split; [apply H; reflexivity|apply IH; reflexivity].
Qed.

Lemma str_eqb_eq : forall a b, str_eqb a b = true <-> a = b.
Proof. apply list_eqb_spec. intros a b. apply Ascii.eqb_eq. Qed.
Lemma str_eqb_refl : forall a, str_eqb a a = true.
Proof. intros a. apply str_eqb_eq. reflexivity. Qed.
