(* C13 — adjacency, n-hop reachability, Laplacian, edge gradient, e2v *)
From Coq Require Import ZArith Bool Arith List Lia ZifyBool.
Import ListNotations.
From FV.C13 Require Import Model ProofsMat.
Open Scope nat_scope.

(* ---------------------------------------------------------- adjacency *)
Lemma adj_node_of_spec I i k :
  bounded I ->
  (entry (adj_node_of I) i k = true <-> exists j, entry I i j = true /\ entry I k j = true).
Proof.
  intros Hb. unfold adj_node_of. rewrite entry_bmulT. split.
  - intros (_&_&j&_&H1&H2). eauto.
  - intros (j&H1&H2). destruct (Hb _ _ H1), (Hb _ _ H2). repeat split; auto. exists j. auto.
Qed.

Lemma adj_elem_of_spec I j k :
  bounded I ->
  (entry (adj_elem_of I) j k = true <-> exists i, entry I i j = true /\ entry I i k = true).
Proof.
  intros Hb. unfold adj_elem_of. rewrite entry_bTmul. split.
  - intros (_&_&i&_&H1&H2). eauto.
  - intros (i&H1&H2). destruct (Hb _ _ H1), (Hb _ _ H2). repeat split; auto. exists i. auto.
Qed.

Lemma adj_node_of_shape I : bnr (adj_node_of I) = bnr I /\ bnc (adj_node_of I) = bnr I.
Proof. split; reflexivity. Qed.
Lemma adj_elem_of_shape I : bnr (adj_elem_of I) = bnc I /\ bnc (adj_elem_of I) = bnc I.
Proof. split; reflexivity. Qed.

Lemma adj_node_of_sym I i k : entry (adj_node_of I) i k = entry (adj_node_of I) k i.
Proof.
  apply eq_true_iff_eq. unfold adj_node_of. rewrite !entry_bmulT.
  split; intros (a&b&j&c&d&e); repeat split; auto; exists j; auto.
Qed.
Lemma adj_elem_of_sym I i k : entry (adj_elem_of I) i k = entry (adj_elem_of I) k i.
Proof.
  apply eq_true_iff_eq. unfold adj_elem_of. rewrite !entry_bTmul.
  split; intros (a&b&j&c&d&e); repeat split; auto; exists j; auto.
Qed.

(* --------------------------------------------------------------- n-hop *)
(* walkS A k i j : there is a walk with k+1 steps from i to j *)
Fixpoint walkS (A : bmat) (k : nat) (i j : nat) : Prop :=
  match k with
  | O => entry A i j = true
  | S k' => exists v, walkS A k' i v /\ entry A v j = true
  end.

(* i -> p1 -> ... -> pk -> j, every step an edge: a path with (length p)+1 steps *)
Fixpoint chain (A : bmat) (i : nat) (p : list nat) (j : nat) : Prop :=
  match p with
  | [] => entry A i j = true
  | v :: p' => entry A i v = true /\ chain A v p' j
  end.

Lemma chain_snoc A i p v j : chain A i p v -> entry A v j = true -> chain A i (p ++ [v]) j.
Proof.
  revert i. induction p as [|a p IH]; simpl; intros i H E; [auto|].
  destruct H. split; auto.
Qed.

Lemma chain_unsnoc A i p v j : chain A i (p ++ [v]) j -> chain A i p v /\ entry A v j = true.
Proof.
  revert i. induction p as [|a p IH]; simpl; intros i H; [tauto|].
  destruct H as [H1 H2]. destruct (IH _ H2). tauto.
Qed.

Lemma walkS_chain A k i j : walkS A k i j <-> exists p, length p = k /\ chain A i p j.
Proof.
  revert j. induction k as [|k IH]; intros j; simpl.
  - split.
    + intros H. exists []. auto.
    + intros [p [Hl Hc]]. destruct p; [exact Hc|discriminate].
  - split.
    + intros [v [Hw He]]. apply IH in Hw. destruct Hw as [p [Hl Hc]].
      exists (p ++ [v]). split; [rewrite app_length; simpl; lia|]. now apply chain_snoc.
    + intros [p [Hl Hc]].
      destruct (exists_last (l := p)) as [p' [v Hp]]; [intros ->; discriminate|]. subst p.
      rewrite app_length in Hl. simpl in Hl.
      apply chain_unsnoc in Hc. destruct Hc as [Hc He].
      exists v. split; [|exact He]. apply IH. exists p'. split; [lia|exact Hc].
Qed.

Definition square (A : bmat) : Prop := bnr A = bnc A.

Lemma hop_loop_shape k adj ret pow :
  bnr ret = bnr adj -> bnc ret = bnc adj ->
  bnr (hop_loop k adj ret pow) = bnr adj /\ bnc (hop_loop k adj ret pow) = bnc adj.
Proof.
  revert ret pow. induction k as [|k IH]; intros ret pow H1 H2; simpl; [auto|].
  apply IH; simpl; auto.
Qed.

Lemma hop_loop_spec k : forall adj ret pow t,
  bounded adj -> bounded pow -> bounded ret -> square adj ->
  bnr pow = bnr adj -> bnc pow = bnc adj -> bnr ret = bnr adj -> bnc ret = bnc adj ->
  (forall i j, entry pow i j = true <-> walkS adj t i j) ->
  (forall i j, entry ret i j = true <-> exists s, s <= t /\ walkS adj s i j) ->
  forall i j, entry (hop_loop k adj ret pow) i j = true <->
              exists s, s <= t + k /\ walkS adj s i j.
Proof.
  induction k as [|k IH]; intros adj ret pow t Ba Bp Br Sq P1 P2 R1 R2 Hp Hr i j; simpl.
  - rewrite Hr. now replace (t + 0) with t by lia.
  - assert (Hpow' : forall a b, entry (bmul pow adj) a b = true <-> walkS adj (S t) a b).
    { intros a b. rewrite entry_bmul. simpl. split.
      - intros (_&_&v&_&H1&H2). exists v. split; [now apply Hp|exact H2].
      - intros (v&H1&H2). apply Hp in H1. destruct (Bp _ _ H1), (Ba _ _ H2).
        repeat split; auto. exists v. auto. }
    rewrite (IH adj (bor ret (bmul pow adj)) (bmul pow adj) (S t)); auto.
    + split; intros (s&Hs&Hw); exists s; (split; [lia|exact Hw]).
    + apply bounded_bmk.
    + apply bounded_bmk.
    + intros a b. rewrite entry_bor. split.
      * intros (_&_&[H|H]).
        -- apply Hr in H. destruct H as (s&Hs&Hw). exists s. split; [lia|exact Hw].
        -- apply Hpow' in H. exists (S t). split; [lia|exact H].
      * intros (s&Hs&Hw).
        destruct (Nat.eq_dec s (S t)) as [->|Hne].
        -- apply Hpow' in Hw. destruct (bounded_bmk _ _ _ _ _ Hw) as [X Y]. simpl in X, Y.
           repeat split; try lia; try (now right).
        -- assert (Hret : entry ret a b = true) by (apply Hr; exists s; split; [lia|exact Hw]).
           destruct (Br _ _ Hret). repeat split; auto.
Qed.

(* the n-hop adjacency is reachability within 1..n steps (n = 0 is treated
   like n = 1 by the code: range(1, n_hop) is empty) *)
Lemma n_hop_bool_walk adj n i j :
  bounded adj -> square adj ->
  (entry (n_hop_bool adj n) i j = true <-> exists s, s <= n - 1 /\ walkS adj s i j).
Proof.
  intros Ba Sq. unfold n_hop_bool.
  rewrite (hop_loop_spec (n - 1) adj adj adj 0); auto.
  - reflexivity.
  - intros a b. reflexivity.
  - intros a b. split.
    + intros H. exists 0. split; [lia|exact H].
    + intros (s&Hs&Hw). assert (s = 0) by lia. subst. exact Hw.
Qed.

Lemma n_hop_bool_reach adj n i j :
  bounded adj -> square adj ->
  (entry (n_hop_bool adj n) i j = true <->
   exists p, length p + 1 <= Nat.max n 1 /\ chain adj i p j).
Proof.
  intros Ba Sq. rewrite n_hop_bool_walk by assumption. split.
  - intros (s&Hs&Hw). apply walkS_chain in Hw. destruct Hw as [p [Hl Hc]].
    exists p. split; [lia|exact Hc].
  - intros (p&Hl&Hc). exists (length p). split; [lia|]. apply walkS_chain. eauto.
Qed.

Lemma n_hop_bool_shape adj n :
  bnr (n_hop_bool adj n) = bnr adj /\ bnc (n_hop_bool adj n) = bnc adj.
Proof. unfold n_hop_bool. now apply hop_loop_shape. Qed.

(* ----------------------------------------------------------- Laplacian *)
Lemma zrow_zmk r c f i : i < r -> zrow (zmk r c f) i = map (f i) (seq 0 c).
Proof.
  intros H. unfold zrow, zmk, tab. simpl. rewrite nth_map_seq.
  apply Nat.ltb_lt in H. now rewrite H.
Qed.

Lemma laplacian_rows_zero adj i :
  square adj -> i < bnr adj -> zsum (zrow (laplacian_of adj) i) = 0%Z.
Proof.
  intros Sq Hi. unfold laplacian_of. rewrite zrow_zmk by exact Hi.
  set (r := zrow (minus_eye adj) i).
  assert (Hlen : length r = bnc adj).
  { unfold r, minus_eye. rewrite zrow_zmk by exact Hi. now rewrite map_length, seq_length. }
  rewrite (zsum_map_add (fun j => nth j r 0%Z) (fun j => if Nat.eqb i j then zsum r else 0%Z)).
  rewrite <- Hlen at 1. rewrite map_nth_seq. rewrite zsum_indicator.
  unfold square in Sq. assert (Hlt : i <? bnc adj = true) by (apply Nat.ltb_lt; lia).
  rewrite Hlt. lia.
Qed.

(* number of proper neighbours of i *)
Definition degree (adj : bmat) (i : nat) : Z :=
  zsum (map (fun j => if Nat.eqb i j then 0%Z else b2z (entry adj i j)) (seq 0 (bnc adj))).

Lemma zsum_ext {A} (f g : A -> Z) l : (forall x, In x l -> f x = g x) -> zsum (map f l) = zsum (map g l).
Proof. induction l; simpl; intros H; [reflexivity|]. rewrite H, IHl; auto. Qed.

Lemma laplacian_entry adj i j :
  square adj -> i < bnr adj -> j < bnc adj ->
  zentry (laplacian_of adj) i j =
    if Nat.eqb i j then (- degree adj i)%Z else b2z (entry adj i j).
Proof.
  intros Sq Hi Hj. unfold laplacian_of. rewrite zentry_zmk.
  assert (Hi' := Hi). assert (Hj' := Hj). apply Nat.ltb_lt in Hi', Hj'. rewrite Hi', Hj'. simpl.
  fold (zentry (minus_eye adj) i j). rewrite zentry_minus_eye by assumption.
  unfold delta. destruct (Nat.eqb_spec i j) as [->|Hne]; [|lia].
  unfold minus_eye. rewrite zrow_zmk by lia.
  unfold degree.
  assert (E : zsum (map (fun j0 => (b2z (nth j0 (brow adj j) false) - delta j j0)%Z) (seq 0 (bnc adj)))
              = (zsum (map (fun j0 => if Nat.eqb j j0 then 0%Z else b2z (entry adj j j0)) (seq 0 (bnc adj)))
                 + (b2z (entry adj j j) - 1))%Z).
  { rewrite (zsum_ext _ (fun j0 => ((if Nat.eqb j j0 then 0 else b2z (entry adj j j0))
                                   - (if Nat.eqb j j0 then (1 - b2z (entry adj j j)) else 0))%Z)).
    - rewrite zsum_map_add, zsum_indicator, Hj'. lia.
    - intros x _. unfold delta, entry. destruct (Nat.eqb_spec j x); [subst|]; lia. }
  cbv zeta. rewrite E. lia.
Qed.

(* -------------------------------------------------------- edge gradient *)
Lemma in_upper_edges adj r c :
  In (r, c) (upper_edges adj) <-> r < bnr adj /\ c < bnc adj /\ entry adj r c = true /\ r < c.
Proof.
  unfold upper_edges. rewrite filter_In, in_bcoo. simpl. rewrite Nat.ltb_lt. tauto.
Qed.

Lemma NoDup_upper_edges adj : NoDup (upper_edges adj).
Proof. unfold upper_edges. apply NoDup_filter, NoDup_bcoo. Qed.

Lemma edge_gradient_shape adj :
  znr (edge_gradient_of adj) = length (upper_edges adj) /\ znc (edge_gradient_of adj) = bnr adj.
Proof. split; reflexivity. Qed.

(* every row is the +1/-1 pair of one edge r < c *)
Lemma edge_gradient_row adj k :
  k < length (upper_edges adj) ->
  exists r c, nth_error (upper_edges adj) k = Some (r, c) /\
    r < c /\ entry adj r c = true /\
    forall v, v < bnr adj ->
      zentry (edge_gradient_of adj) k v =
        if Nat.eqb v r then 1%Z else if Nat.eqb v c then (-1)%Z else 0%Z.
Proof.
  intros Hk. destruct (nth_error (upper_edges adj) k) as [[r c]|] eqn:E.
  - exists r, c. split; [reflexivity|].
    assert (Hin := nth_error_In _ _ E). apply in_upper_edges in Hin.
    destruct Hin as (_&_&He&Hlt). split; [exact Hlt|]. split; [exact He|].
    intros v Hv. unfold edge_gradient_of. rewrite zentry_zmk.
    apply Nat.ltb_lt in Hk, Hv. rewrite Hk, Hv. simpl. rewrite E. reflexivity.
  - apply nth_error_None in E. lia.
Qed.

(* every undirected edge r < c has exactly one row *)
Lemma edge_gradient_edge adj r c :
  bounded adj -> entry adj r c = true -> r < c ->
  exists k, nth_error (upper_edges adj) k = Some (r, c) /\
    forall k', nth_error (upper_edges adj) k' = Some (r, c) -> k' = k.
Proof.
  intros Hb He Hlt. destruct (Hb _ _ He) as [Hr Hc].
  assert (Hin : In (r, c) (upper_edges adj)) by (apply in_upper_edges; auto).
  apply In_nth_error in Hin. destruct Hin as [k Hk]. exists k. split; [exact Hk|].
  intros k' Hk'. eapply (proj1 (NoDup_nth_error (upper_edges adj)) (NoDup_upper_edges adj)).
  - apply nth_error_Some. congruence.
  - congruence.
Qed.

(* ------------------------------------------------------------------ e2v *)
(* the directed edges, one per column *)
Definition e2v_edges (adj : bmat) (self_loop strict : bool) : list (nat * nat) :=
  if self_loop then bcoo adj
  else if strict then filter (fun p => negb (Nat.eqb (fst p) (snd p))) (bcoo adj)
  else map fst (zcoo (minus_eye adj)).

Lemma e2v_sources_edges adj sl st : e2v_sources adj sl st = map fst (e2v_edges adj sl st).
Proof.
  unfold e2v_sources, e2v_edges. destruct sl; [reflexivity|]. destruct st; [reflexivity|].
  now rewrite map_map.
Qed.

Lemma NoDup_e2v_edges adj sl st : NoDup (e2v_edges adj sl st).
Proof.
  unfold e2v_edges. destruct sl; [apply NoDup_bcoo|].
  destruct st; [apply NoDup_filter, NoDup_bcoo|apply NoDup_zcoo_pos].
Qed.

(* which pairs get a column *)
Lemma in_e2v_edges_loop adj st r c :
  In (r, c) (e2v_edges adj true st) <-> r < bnr adj /\ c < bnc adj /\ entry adj r c = true.
Proof. apply in_bcoo. Qed.

Lemma in_e2v_edges_strict adj r c :
  In (r, c) (e2v_edges adj false true) <->
  r < bnr adj /\ c < bnc adj /\ r <> c /\ entry adj r c = true.
Proof.
  unfold e2v_edges. rewrite filter_In, in_bcoo. simpl.
  rewrite negb_true_iff, Nat.eqb_neq. tauto.
Qed.

Lemma in_e2v_edges_noloop adj r c :
  In (r, c) (e2v_edges adj false false) <->
  r < bnr adj /\ c < bnc adj /\
  ((r <> c /\ entry adj r c = true) \/ (r = c /\ entry adj r r = false)).
Proof.
  unfold e2v_edges. rewrite in_map_iff. split.
  - intros [[[a b] v] [Heq Hin]]. simpl in Heq. inversion Heq; subst a b.
    apply in_zcoo in Hin. simpl in Hin. destruct Hin as (Hr&Hc&Hv&Hnz).
    rewrite zentry_minus_eye in Hv by assumption. unfold delta in Hv.
    repeat split; auto.
    destruct (Nat.eqb_spec r c) as [Heq'|Hne].
    + subst c. right. split; [reflexivity|]. destruct (entry adj r r); [simpl in Hv; lia|reflexivity].
    + left. split; [exact Hne|]. destruct (entry adj r c); [reflexivity|simpl in Hv; lia].
  - intros (Hr&Hc&H).
    exists (r, c, (b2z (entry adj r c) - delta r c)%Z). split; [reflexivity|].
    apply in_zcoo. simpl. repeat split; auto.
    + now apply zentry_minus_eye.
    + unfold delta. destruct H as [[Hne E]|[Heq E]].
      * rewrite E. destruct (Nat.eqb_spec r c); [contradiction|]. simpl. lia.
      * subst c. rewrite E, Nat.eqb_refl. simpl. lia.
Qed.

Lemma e2v_shape adj sl st :
  znr (e2v_of adj sl st) = bnr adj /\ znc (e2v_of adj sl st) = length (e2v_edges adj sl st).
Proof.
  split; [reflexivity|]. unfold e2v_of. simpl. now rewrite e2v_sources_edges, map_length.
Qed.

(* column k is the indicator of the source vertex of the k-th directed edge *)
Lemma e2v_column adj sl st k :
  k < length (e2v_edges adj sl st) ->
  exists r c, nth_error (e2v_edges adj sl st) k = Some (r, c) /\
    forall v, v < bnr adj -> zentry (e2v_of adj sl st) v k = if Nat.eqb v r then 1%Z else 0%Z.
Proof.
  intros Hk. destruct (nth_error (e2v_edges adj sl st) k) as [[r c]|] eqn:E.
  - exists r, c. split; [reflexivity|]. intros v Hv.
    unfold e2v_of. rewrite zentry_zmk.
    assert (Hk' : k <? length (e2v_sources adj sl st) = true).
    { apply Nat.ltb_lt. now rewrite e2v_sources_edges, map_length. }
    apply Nat.ltb_lt in Hv. rewrite Hv, Hk'. simpl.
    rewrite e2v_sources_edges. rewrite (map_nth_error fst _ _ E). reflexivity.
  - apply nth_error_None in E. lia.
Qed.

Lemma e2v_edge_unique adj sl st r c :
  In (r, c) (e2v_edges adj sl st) ->
  exists k, nth_error (e2v_edges adj sl st) k = Some (r, c) /\
    forall k', nth_error (e2v_edges adj sl st) k' = Some (r, c) -> k' = k.
Proof.
  intros Hin. apply In_nth_error in Hin. destruct Hin as [k Hk]. exists k. split; [exact Hk|].
  intros k' Hk'. eapply (proj1 (NoDup_nth_error _) (NoDup_e2v_edges adj sl st)).
  - apply nth_error_Some. congruence.
  - congruence.
Qed.

Lemma zentry_zero_diag A i j :
  i < bnr A -> j < bnc A ->
  zentry (zero_diag A) i j = if Nat.eqb i j then 0%Z else b2z (entry A i j).
Proof.
  intros Hi Hj. unfold zero_diag. rewrite zentry_zmk.
  apply Nat.ltb_lt in Hi, Hj. rewrite Hi, Hj. reflexivity.
Qed.
