(* C13 — graph-level statements: the operators that follow the adjacency
   matrix, for ANY well-formed square boolean matrix, and the factorisation of
   `run_query` through them (stage-wise correspondence). *)
From Coq Require Import String ZArith Bool Arith List Lia ZifyBool.
Import ListNotations.
From FV.C13 Require Import Model ProofsMat ProofsInc ProofsGraph ProofsTop.
Open Scope nat_scope.

Lemma wf_bmat_bounded A : wf_bmat A = true -> bounded A.
Proof.
  unfold wf_bmat. intros H. apply andb_true_iff in H. destruct H as [Hl Hr].
  apply Nat.eqb_eq in Hl. rewrite forallb_forall in Hr.
  intros i j E. unfold entry, brow in E.
  destruct (Nat.lt_ge_cases i (length (bdat A))) as [Hi|Hi].
  - split; [lia|].
    assert (Hin : In (nth i (bdat A) []) (bdat A)) by (apply nth_In; exact Hi).
    apply Hr in Hin. apply Nat.eqb_eq in Hin.
    destruct (Nat.lt_ge_cases j (length (nth i (bdat A) []))) as [Hj|Hj]; [lia|].
    rewrite nth_overflow in E by exact Hj. discriminate.
  - rewrite (nth_overflow (bdat A)) in E by exact Hi. destruct j; discriminate.
Qed.

Lemma squareb_square A : squareb A = true -> square A.
Proof. unfold squareb, square. apply Nat.eqb_eq. Qed.

Lemma wf_bmat_bmk r c f : wf_bmat (bmk r c f) = true.
Proof.
  unfold wf_bmat, bmk. simpl. rewrite tab_length, Nat.eqb_refl. simpl.
  apply forallb_forall. intros x Hx. unfold tab in Hx. apply in_map_iff in Hx.
  destruct Hx as [i [<- _]]. rewrite map_length, seq_length. apply Nat.eqb_refl.
Qed.

Lemma adjacency_wfb m nodal o A :
  adjacency m nodal o = Some A -> wf_bmat A = true /\ squareb A = true.
Proof.
  intros H. apply adjacency_inv in H. destruct H as [I [_ ->]].
  destruct nodal; split; try apply wf_bmat_bmk; unfold squareb; simpl; apply Nat.eqb_refl.
Qed.

(* run_query = the graph-level operator applied to the model's adjacency *)
Lemma stagewise_factor m nodal o A :
  adjacency m nodal o = Some A ->
  run_query m (QLap nodal o) = run_gquery A GLap /\
  (forall tot, run_query m (QGrad nodal o tot) = run_gquery A (GGrad tot)) /\
  (o = false -> forall sl st, run_query m (QE2V nodal sl st) = run_gquery A (GE2V sl st)) /\
  (o = (if nodal then o else false) ->
   forall n sl zd, run_query m (QHop nodal n sl o zd) = run_gquery A (GHop n sl zd)).
Proof.
  intros HA. destruct (adjacency_wfb _ _ _ _ HA) as [W S].
  unfold run_gquery, gq_mat. rewrite W, S. simpl.
  split; [|split; [|split]].
  - unfold laplacian. now rewrite HA.
  - intros tot. unfold edge_gradient, edge_gradient_opt. rewrite HA.
    destruct tot; [reflexivity|]. destruct (upper_edges A); reflexivity.
  - intros -> sl st. unfold e2v. now rewrite HA.
  - intros Ho n sl zd. unfold n_hop. rewrite <- Ho, HA. simpl. unfold hop_of.
    destruct sl; [reflexivity|]. destruct zd; reflexivity.
Qed.

(* ---- the standard operators of ANY graph given by a boolean matrix ---- *)
Lemma graph_laplacian_spec A :
  wf_bmat A = true -> squareb A = true ->
  znr (laplacian_of A) = bnr A /\ znc (laplacian_of A) = bnr A /\
  (forall i, i < bnr A -> zsum (zrow (laplacian_of A) i) = 0%Z) /\
  (forall i j, i < bnr A -> j < bnr A -> i <> j ->
     zentry (laplacian_of A) i j = b2z (entry A i j)) /\
  (forall i, i < bnr A -> zentry (laplacian_of A) i i = (- degree A i)%Z).
Proof.
  intros W S. apply squareb_square in S. assert (S' := S). unfold square in S'.
  split; [reflexivity|]. split; [simpl; lia|]. split; [|split].
  - intros i Hi. now apply laplacian_rows_zero.
  - intros i j Hi Hj Hne. rewrite laplacian_entry; try assumption; try lia.
    destruct (Nat.eqb_spec i j); [contradiction|reflexivity].
  - intros i Hi. rewrite laplacian_entry; try assumption; try lia. now rewrite Nat.eqb_refl.
Qed.

(* the degree is the number of proper neighbours *)
Lemma degree_count A i :
  degree A i = Z.of_nat (length (filter (fun j => negb (Nat.eqb i j) && entry A i j)
                                         (seq 0 (bnc A)))).
Proof.
  unfold degree. induction (seq 0 (bnc A)) as [|j l IH]; [reflexivity|].
  cbn [map zsum fold_right filter]. fold (zsum (map (fun j0 => if Nat.eqb i j0 then 0%Z else b2z (entry A i j0)) l)).
  rewrite IH. destruct (Nat.eqb i j); cbn [negb andb]; [lia|].
  destruct (entry A i j); cbn [b2z length]; lia.
Qed.

Lemma graph_edge_gradient_spec A tot G :
  wf_bmat A = true -> squareb A = true -> edge_gradient_opt A tot = Some G ->
  znr G = length (upper_edges A) /\ znc G = bnr A /\
  (forall k, k < znr G ->
     exists r c, nth_error (upper_edges A) k = Some (r, c) /\ r < c /\ entry A r c = true /\
       forall v, v < bnr A ->
         zentry G k v = if Nat.eqb v r then 1%Z else if Nat.eqb v c then (-1)%Z else 0%Z) /\
  (forall r c, entry A r c = true -> r < c ->
     exists k, nth_error (upper_edges A) k = Some (r, c) /\
       forall k', nth_error (upper_edges A) k' = Some (r, c) -> k' = k).
Proof.
  intros W S E. apply wf_bmat_bounded in W.
  assert (EG : G = edge_gradient_of A).
  { unfold edge_gradient_opt in E. destruct tot; [now inversion E|].
    destruct (upper_edges A); [discriminate|now inversion E]. }
  subst G. split; [reflexivity|]. split; [reflexivity|]. split.
  - intros k Hk. now apply edge_gradient_row.
  - intros r c. now apply edge_gradient_edge.
Qed.

Lemma graph_e2v_spec A sl st :
  wf_bmat A = true -> squareb A = true ->
  let E := e2v_of A sl st in
  znr E = bnr A /\ znc E = length (e2v_edges A sl st) /\
  NoDup (e2v_edges A sl st) /\
  (forall k, k < znc E ->
     exists r c, nth_error (e2v_edges A sl st) k = Some (r, c) /\
       forall v, v < bnr A -> zentry E v k = if Nat.eqb v r then 1%Z else 0%Z) /\
  (forall r c, In (r, c) (e2v_edges A sl st) <->
     r < bnr A /\ c < bnr A /\
     if sl then entry A r c = true
     else if st then r <> c /\ entry A r c = true
     else (r <> c /\ entry A r c = true) \/ (r = c /\ entry A r r = false)).
Proof.
  intros W S E. subst E. apply squareb_square in S. unfold square in S.
  destruct (e2v_shape A sl st) as [S1 S2].
  split; [exact S1|]. split; [exact S2|]. split; [apply NoDup_e2v_edges|]. split.
  - intros k Hk. rewrite S2 in Hk. now apply e2v_column.
  - intros r c. destruct sl; [|destruct st].
    + rewrite in_e2v_edges_loop. rewrite <- S. tauto.
    + rewrite in_e2v_edges_strict. rewrite <- S. tauto.
    + rewrite in_e2v_edges_noloop. rewrite <- S. tauto.
Qed.

Lemma graph_n_hop_reach A n :
  wf_bmat A = true -> squareb A = true ->
  let H := hop_of A n true false in
  znr H = bnr A /\ znc H = bnr A /\
  forall i j, i < bnr A -> j < bnr A ->
    (zentry H i j = 1%Z <-> reach A n i j) /\ (zentry H i j = 0%Z <-> ~ reach A n i j).
Proof.
  intros W S H. subst H. apply wf_bmat_bounded in W. apply squareb_square in S.
  destruct (n_hop_bool_shape A n) as [S1 S2]. unfold hop_of.
  split; [exact S1|]. split; [simpl; rewrite S2; symmetry; exact S|].
  intros i j Hi Hj. rewrite zentry_b2zmat by (rewrite ?S1, ?S2; unfold square in S; lia).
  unfold reach. rewrite <- n_hop_bool_reach by assumption.
  rewrite b2z_1, b2z_0. split; [tauto|]. destruct (entry (n_hop_bool A n) i j); split; congruence.
Qed.

(* the dense comparison form determines the COO form: equal dense results
   give equal `run_gquery` results *)
Lemma zcoo_dense M M' :
  znr M = znr M' -> znc M = znc M' -> zdat M = zdat M' -> zcoo M = zcoo M'.
Proof.
  destruct M as [r c d], M' as [r' c' d']. simpl. intros -> -> ->. reflexivity.
Qed.

Lemma dense_determines A A' q q' :
  run_gquery_dense A q = run_gquery_dense A' q' -> run_gquery A q = run_gquery A' q'.
Proof.
  unfold run_gquery_dense, run_gquery.
  destruct (gq_mat A q) as [M|], (gq_mat A' q') as [M'|]; simpl; try discriminate; auto.
  unfold dres_of_z, res_of_z. intros E. inversion E as [[E1 E2 E3]].
  apply Nat2Z.inj in E1, E2. now rewrite E1, E2, (zcoo_dense M M' E1 E2 E3).
Qed.
