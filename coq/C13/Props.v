(* C13 — mesh graph matrices equal their combinatorial definitions.
   Statements only (proofs: ProofsMat / ProofsInc / ProofsGraph / ProofsTop).
   Every theorem holds for EVERY mesh (any number of nodes/elements/types, any
   ids, any storage order) and every hop count; `m'` is the (nodes, elements)
   pair the code works on: `effective m false = Some m`, and for
   order1_only=True the corner nodes / truncated rows (theorems C13_effective_...). *)
From Coq Require Import String ZArith Bool Arith List Lia.
Import ListNotations.
From FV.C13 Require Import Model ProofsMat ProofsInc ProofsGraph ProofsTop ProofsOrder1 ProofsStage.
Open Scope nat_scope.

(* ------------------------------------------------------------ incidence *)
(* entry (i, j) is set exactly where the node at storage position i belongs
   to the element at position j of elements.ids / elements.data *)
Theorem C13_incidence_spec : forall m o m' I,
  effective m o = Some m' -> ids_ok m' = true -> incidence m o = Some I ->
  bnr I = length (m_nodes m') /\ bnc I = length (elems_of (m_blocks m')) /\
  forall i j, entry I i j = true <-> belongs m' i j.
Proof. exact incidence_spec. Qed.

(* the matrix exists when every referenced node id is a node, and only then *)
Theorem C13_incidence_defined : forall m o m',
  effective m o = Some m' ->
  (forall e nid, In e (elems_of (m_blocks m')) -> In nid (snd e) -> In nid (m_nodes m')) ->
  incidence m o <> None.
Proof. exact incidence_defined. Qed.

Theorem C13_incidence_dangling : forall m e nid,
  In e (elems_of (m_blocks m)) -> In nid (snd e) -> ~ In nid (m_nodes m) ->
  incidence m false = None.
Proof. intros m e nid. exact (incidence_of_undefined m e nid). Qed.

(* element positions: one type = the block's storage order; several types =
   all rows of all blocks, ascending element id (insertion order of the dict
   and the order of the types are irrelevant) *)
Theorem C13_element_positions : forall bs,
  (forall e, In e (elems_of bs) <-> In e (flat_map snd (items bs))) /\
  (forall t b, items bs = [(t, b)] -> elems_of bs = b) /\
  (2 <= length (items bs) ->
   Sorted.StronglySorted (fun a b : elem => (fst a <= fst b)%Z) (elems_of bs)).
Proof.
  intros bs. split; [exact (elems_of_In bs)|]. split; [exact (elems_of_single bs)|exact (elems_of_sorted bs)].
Qed.

(* what order1_only selects *)
Theorem C13_effective_all_orders : forall m, effective m false = Some m.
Proof. exact effective_false. Qed.
Theorem C13_effective_first_order_mesh : forall m,
  is_first_order (m_blocks m) = true -> effective m true = Some m.
Proof. exact effective_first_order. Qed.
Theorem C13_effective_second_order_mesh : forall m m',
  is_first_order (m_blocks m) = false -> effective m true = Some m' ->
  exists bs', omap first_order_block (items (m_blocks m)) = Some bs' /\
    m_blocks m' = bs' /\
    m_nodes m' = filter (fun n => zmem n (flat_map (fun b : block => flat_map snd (snd b)) bs'))
                        (m_nodes m).
Proof. exact effective_second_order. Qed.
Theorem C13_first_order_rows : forall b b',
  first_order_block b = Some b' ->
  fst b' = fst b /\
  forall e', In e' (snd b') <->
    exists e, In e (snd b) /\ fst e' = fst e /\ first_order_conn (fst b) (snd e) = Some (snd e').
Proof. exact first_order_block_rows. Qed.
Theorem C13_first_order_conn : forall t c c',
  first_order_conn t c = Some c' ->
  (has2 t = false /\ c' = c) \/ (t = "tet2"%string /\ c' = firstn 4 c)
  \/ (t = "hex2"%string /\ c' = firstn 8 c).
Proof. exact first_order_conn_cases. Qed.

(* the first-order table over ALL element type names of ELEMENT_TYPES (the
   harness sweeps the same 19 names through calculate_incidence_matrix with both
   order1_only values on every run) *)
Theorem C13_first_order_table : forall t c, In t ELEMENT_TYPES ->
  first_order_conn t c =
    if String.eqb t "tet2" then Some (firstn 4 c)
    else if String.eqb t "hex2" then Some (firstn 8 c)
    else if existsb (String.eqb t) ["line2"; "tri2"; "quad2"; "pyr2"; "prism2"]%string then None
    else Some c.
Proof.
  intros t c H. simpl in H.
  repeat (destruct H as [<-|H]; [reflexivity|]). contradiction.
Qed.

(* distinct ids of the mesh carry over to the pair the code works on, so
   `ids_ok m = true` suffices in every theorem of this file *)
Theorem C13_effective_ids_ok : forall m o m',
  ids_ok m = true -> effective m o = Some m' -> ids_ok m' = true.
Proof. exact effective_ids_ok. Qed.

(* order1_only=True on a second-order mesh, stated on the ORIGINAL mesh: row i
   = the i-th corner node (a node among the first 4 / 8 of some tet2 / hex2
   row, or any node of a first-order row) in storage order; column j = the
   element at position j of elements.ids, truncated to its corner nodes *)
Theorem C13_incidence_order1_spec : forall m Im,
  ids_ok m = true -> is_first_order (m_blocks m) = false -> incidence m true = Some Im ->
  exists bs', omap first_order_block (items (m_blocks m)) = Some bs' /\
    let rows := filter (fun n => zmem n (corner_ids bs')) (m_nodes m) in
    bnr Im = length rows /\ bnc Im = length (elems_of (m_blocks m)) /\
    forall i j, entry Im i j = true <->
      exists nid e e', nth_error rows i = Some nid /\
                       nth_error (elems_of (m_blocks m)) j = Some e /\
                       trunc_of (m_blocks m) e e' /\ In nid (snd e').
Proof. exact incidence_order1_spec. Qed.

(* ------------------------------------------------------------ adjacency *)
Theorem C13_adj_node_spec : forall m o m' A,
  effective m o = Some m' -> ids_ok m' = true -> adjacency m true o = Some A ->
  bnr A = length (m_nodes m') /\ bnc A = length (m_nodes m') /\
  forall i k, entry A i k = true <-> exists j, belongs m' i j /\ belongs m' k j.
Proof. exact adj_node_spec. Qed.

Theorem C13_adj_elem_spec : forall m o m' A,
  effective m o = Some m' -> ids_ok m' = true -> adjacency m false o = Some A ->
  bnr A = length (elems_of (m_blocks m')) /\ bnc A = length (elems_of (m_blocks m')) /\
  forall j k, entry A j k = true <-> exists i, belongs m' i j /\ belongs m' i k.
Proof. exact adj_elem_spec. Qed.

(* ---------------------------------------------------------------- n-hop *)
(* reach A n i j : a path i -> p1 -> ... -> j along edges of A with 1..n steps *)
Theorem C13_n_hop_reach : forall m nodal n o zd A H,
  adjacency m nodal (if nodal then o else false) = Some A ->
  n_hop m nodal n true o zd = Some H ->
  znr H = bnr A /\ znc H = bnr A /\
  forall i j, i < bnr A -> j < bnr A ->
    (zentry H i j = 1%Z <-> reach A n i j) /\ (zentry H i j = 0%Z <-> ~ reach A n i j).
Proof. exact n_hop_self_loop_spec. Qed.

(* include_self_loop=False as the unchanged tree computes it (`- eye`, zd =
   false): off the diagonal reachability; on the diagonal 0 for every vertex
   that has an edge to itself (every node that belongs to an element, every
   element with a node) — and -1 for an isolated vertex *)
Theorem C13_n_hop_no_self_loop : forall m nodal n o A H,
  adjacency m nodal (if nodal then o else false) = Some A ->
  n_hop m nodal n false o false = Some H ->
  znr H = bnr A /\ znc H = bnr A /\
  (forall i j, i < bnr A -> j < bnr A -> i <> j ->
     (zentry H i j = 1%Z <-> reach A n i j) /\ (zentry H i j = 0%Z <-> ~ reach A n i j)) /\
  (forall i, i < bnr A -> entry A i i = true -> zentry H i i = 0%Z) /\
  (forall i, i < bnr A -> (forall j, entry A i j = false) -> zentry H i i = (-1)%Z).
Proof. exact n_hop_no_self_loop_spec. Qed.

(* the full-strength statement "the matrix without self loops is 0/1-valued
   reachability" is FALSE for the code: a node that belongs to no element gets
   -1 on the diagonal (replayed on the implementation by the harness; finding) *)
(* ... and in the repaired form (diagonal removed, zd = true): 0/1-valued
   reachability off the diagonal, 0 on it — the full-strength statement, for
   every mesh *)
Theorem C13_n_hop_no_self_loop_repaired : forall m nodal n o A H,
  adjacency m nodal (if nodal then o else false) = Some A ->
  n_hop m nodal n false o true = Some H ->
  znr H = bnr A /\ znc H = bnr A /\
  (forall i j, i < bnr A -> j < bnr A -> i <> j ->
     (zentry H i j = 1%Z <-> reach A n i j) /\ (zentry H i j = 0%Z <-> ~ reach A n i j)) /\
  (forall i, i < bnr A -> zentry H i i = 0%Z).
Proof. exact n_hop_zero_diag_spec. Qed.

Definition mesh_isolated : mesh :=
  mkmesh [10; 5; 7; 99]%Z [("tri", [(30, [10; 5; 7])])]%Z%string.
Theorem C13_n_hop_01_valued_refuted :
  exists m H i, ids_ok m = true /\ n_hop m true 2 false false false = Some H /\ i < znr H /\
                zentry H i i = (-1)%Z.
Proof. exists mesh_isolated, (match n_hop mesh_isolated true 2 false false false with Some H => H | None => zmk 0 0 (fun _ _ => 0%Z) end), 3. vm_compute. repeat split; reflexivity. Qed.

(* ------------------------------------------------------------ Laplacian *)
Theorem C13_laplacian_spec : forall m nodal o A L,
  adjacency m nodal o = Some A -> laplacian m nodal o = Some L ->
  znr L = bnr A /\ znc L = bnr A /\
  (forall i, i < bnr A -> zsum (zrow L i) = 0%Z) /\
  (forall i j, i < bnr A -> j < bnr A -> i <> j -> zentry L i j = b2z (entry A i j)) /\
  (forall i, i < bnr A -> zentry L i i = (- degree A i)%Z).
Proof. exact laplacian_spec. Qed.

(* -------------------------------------------------------- edge gradient *)
(* rows <-> undirected edges r < c, bijectively; row = +1 at r, -1 at c *)
Theorem C13_edge_gradient_spec : forall m nodal o tot A G,
  adjacency m nodal o = Some A -> edge_gradient m nodal o tot = Some G ->
  znr G = length (upper_edges A) /\ znc G = bnr A /\
  (forall k, k < znr G ->
     exists r c, nth_error (upper_edges A) k = Some (r, c) /\ r < c /\ entry A r c = true /\
       forall v, v < bnr A ->
         zentry G k v = if Nat.eqb v r then 1%Z else if Nat.eqb v c then (-1)%Z else 0%Z) /\
  (forall r c, entry A r c = true -> r < c ->
     exists k, nth_error (upper_edges A) k = Some (r, c) /\
       forall k', nth_error (upper_edges A) k' = Some (r, c) -> k' = k).
Proof. exact edge_gradient_spec. Qed.

(* on the unchanged tree (tot = false) it is undefined (the code raises) exactly
   on graphs without an edge; the repaired form (tot = true) is total *)
Theorem C13_edge_gradient_undefined : forall m nodal o A,
  adjacency m nodal o = Some A ->
  (edge_gradient m nodal o false = None <-> forall r c, entry A r c = true -> ~ r < c).
Proof. exact edge_gradient_none. Qed.
Theorem C13_edge_gradient_repaired_total : forall m nodal o A,
  adjacency m nodal o = Some A -> edge_gradient m nodal o true = Some (edge_gradient_of A).
Proof. exact edge_gradient_total. Qed.

(* ------------------------------------------------------------------ e2v *)
(* columns <-> the listed directed edges, bijectively (NoDup); column k is the
   indicator of the source vertex.  Without self loops the listed pairs are
   the edges r <> c (st = true, repaired form: exactly those, for every mesh)
   — on the unchanged tree (st = false) plus (r, r) for every isolated vertex
   r (finding) *)
Theorem C13_e2v_spec : forall m nodal sl st A E,
  adjacency m nodal false = Some A -> e2v m nodal sl st = Some E ->
  znr E = bnr A /\ znc E = length (e2v_edges A sl st) /\
  NoDup (e2v_edges A sl st) /\
  (forall k, k < znc E ->
     exists r c, nth_error (e2v_edges A sl st) k = Some (r, c) /\
       forall v, v < bnr A -> zentry E v k = if Nat.eqb v r then 1%Z else 0%Z) /\
  (forall r c, In (r, c) (e2v_edges A sl st) <->
     r < bnr A /\ c < bnr A /\
     if sl then entry A r c = true
     else if st then r <> c /\ entry A r c = true
     else (r <> c /\ entry A r c = true) \/ (r = c /\ entry A r r = false)).
Proof. exact e2v_spec. Qed.

(* ------------------------------------------- graph level (stage-wise) *)
(* The operators that follow the adjacency matrix are the standard operators
   of ANY graph given as a well-formed square boolean matrix (any size, any
   vertex degree), and the mesh-level functions factor through them.  The
   harness uses the factorisation to hold the second stage of the code against
   the model on hub meshes (vertex degree >= 2^7, 2^8) whose first stage is too
   large for the in-Coq evaluation. *)
Theorem C13_stagewise_factor : forall m nodal o A,
  adjacency m nodal o = Some A ->
  wf_bmat A = true /\ squareb A = true /\
  run_query m (QLap nodal o) = run_gquery A GLap /\
  (forall tot, run_query m (QGrad nodal o tot) = run_gquery A (GGrad tot)) /\
  (o = false -> forall sl st, run_query m (QE2V nodal sl st) = run_gquery A (GE2V sl st)) /\
  (o = (if nodal then o else false) ->
   forall n sl zd, run_query m (QHop nodal n sl o zd) = run_gquery A (GHop n sl zd)).
Proof.
  intros m nodal o A H. destruct (adjacency_wfb _ _ _ _ H) as [W S].
  split; [exact W|]. split; [exact S|]. now apply stagewise_factor.
Qed.

Theorem C13_graph_laplacian_spec : forall A,
  wf_bmat A = true -> squareb A = true ->
  znr (laplacian_of A) = bnr A /\ znc (laplacian_of A) = bnr A /\
  (forall i, i < bnr A -> zsum (zrow (laplacian_of A) i) = 0%Z) /\
  (forall i j, i < bnr A -> j < bnr A -> i <> j ->
     zentry (laplacian_of A) i j = b2z (entry A i j)) /\
  (forall i, i < bnr A -> zentry (laplacian_of A) i i = (- degree A i)%Z).
Proof. exact graph_laplacian_spec. Qed.

(* `degree` is the number of proper neighbours: an unbounded integer *)
Theorem C13_degree_is_neighbour_count : forall A i,
  degree A i = Z.of_nat (length (filter (fun j => negb (Nat.eqb i j) && entry A i j)
                                        (seq 0 (bnc A)))).
Proof. exact degree_count. Qed.

Theorem C13_graph_edge_gradient_spec : forall A tot G,
  wf_bmat A = true -> squareb A = true -> edge_gradient_opt A tot = Some G ->
  znr G = length (upper_edges A) /\ znc G = bnr A /\
  (forall k, k < znr G ->
     exists r c, nth_error (upper_edges A) k = Some (r, c) /\ r < c /\ entry A r c = true /\
       forall v, v < bnr A ->
         zentry G k v = if Nat.eqb v r then 1%Z else if Nat.eqb v c then (-1)%Z else 0%Z) /\
  (forall r c, entry A r c = true -> r < c ->
     exists k, nth_error (upper_edges A) k = Some (r, c) /\
       forall k', nth_error (upper_edges A) k' = Some (r, c) -> k' = k).
Proof. exact graph_edge_gradient_spec. Qed.

Theorem C13_graph_e2v_spec : forall A sl st,
  wf_bmat A = true -> squareb A = true ->
  let E := e2v_of A sl st in
  znr E = bnr A /\ znc E = length (e2v_edges A sl st) /\
  NoDup (e2v_edges A sl st) /\
  (forall k, k < znc E ->
     exists r c, nth_error (e2v_edges A sl st) k = Some (r, c) /\
       forall v, v < bnr A -> zentry E v k = if Nat.eqb v r then 1%Z else 0%Z) /\
  (forall r c, In (r, c) (e2v_edges A sl st) <->
     r < bnr A /\ c < bnr A /\
     if sl then entry A r c = true
     else if st then r <> c /\ entry A r c = true
     else (r <> c /\ entry A r c = true) \/ (r = c /\ entry A r r = false)).
Proof. exact graph_e2v_spec. Qed.

(* the comparison form of the stage-wise check (dense rows) determines the
   COO form `run_query` is compared in *)
Theorem C13_stage_dense_determines : forall A A' q q',
  run_gquery_dense A q = run_gquery_dense A' q' -> run_gquery A q = run_gquery A' q'.
Proof. exact dense_determines. Qed.

Theorem C13_graph_n_hop_reach : forall A n,
  wf_bmat A = true -> squareb A = true ->
  let H := hop_of A n true false in
  znr H = bnr A /\ znc H = bnr A /\
  forall i j, i < bnr A -> j < bnr A ->
    (zentry H i j = 1%Z <-> reach A n i j) /\ (zentry H i j = 0%Z <-> ~ reach A n i j).
Proof. exact graph_n_hop_reach. Qed.

(* non-vacuity at a size where the narrow integer dtypes overflow: the star
   K_{1,200} (hub 0) given as a dense literal-like matrix *)
Definition star200 : bmat := bmk 201 201 (fun i j => Nat.eqb i j || Nat.eqb i 0 || Nat.eqb j 0).
Example C13_graph_nonvacuous :
  wf_bmat star200 = true /\ squareb star200 = true /\
  degree star200 0 = 200%Z /\ zentry (laplacian_of star200) 0 0 = (-200)%Z /\
  zentry (laplacian_of star200) 7 7 = (-1)%Z /\ zentry (laplacian_of star200) 7 0 = 1%Z /\
  run_gquery star200 (GGrad false) <> None /\
  length (upper_edges star200) = 200.
Proof. vm_compute. repeat split; try reflexivity; discriminate. Qed.

(* ---------------------------------------------------------- non-vacuity *)
(* a mixed mesh with sparse ids, storage order <> id order, block insertion
   order <> type order, an unreferenced node *)
Definition mesh_ex : mesh :=
  mkmesh [10; 5; 7; 3; 99; 42; 1; 2; 77]%Z
         [("quad", [(7, [10; 5; 7; 3]); (2, [7; 3; 99; 42])]);
          ("tri", [(5, [42; 1; 2]); (1, [10; 5; 1])])]%Z%string.
Example C13_nonvacuous :
  ids_ok mesh_ex = true /\ wf_mesh mesh_ex = true /\
  map fst (elems_of (m_blocks mesh_ex)) = [1; 2; 5; 7]%Z /\
  option_map bcoo (incidence mesh_ex false) =
    Some [(0,0); (0,3); (1,0); (1,3); (2,1); (2,3); (3,1); (3,3); (4,1); (5,1); (5,2);
          (6,0); (6,2); (7,2)] /\
  (exists G, edge_gradient mesh_ex false false false = Some G /\ znr G = 4) /\
  (exists E, e2v mesh_ex true false false = Some E /\ znc E = 33) /\
  (exists E, e2v mesh_ex true false true = Some E /\ znc E = 32).
Proof. vm_compute. repeat split; try reflexivity; eexists; split; reflexivity. Qed.

Definition mesh_ex2 : mesh :=
  mkmesh [21; 4; 9; 15; 2; 30; 8; 11; 17; 40; 6]%Z
         [("tet2", [(3, [4; 9; 15; 2; 21; 30; 8; 11; 17; 40])])]%Z%string.
Example C13_nonvacuous_order1 :
  exists m', effective mesh_ex2 true = Some m' /\ ids_ok m' = true /\
             m_nodes m' = [4; 9; 15; 2]%Z /\
             option_map bcoo (incidence mesh_ex2 true) = Some [(0,0); (1,0); (2,0); (3,0)].
Proof. eexists. vm_compute. repeat split; reflexivity. Qed.

Print Assumptions C13_incidence_spec.
Print Assumptions C13_incidence_order1_spec.
Print Assumptions C13_n_hop_reach.
Print Assumptions C13_laplacian_spec.
Print Assumptions C13_edge_gradient_spec.
Print Assumptions C13_e2v_spec.
Print Assumptions C13_stagewise_factor.
Print Assumptions C13_graph_laplacian_spec.
Print Assumptions C13_degree_is_neighbour_count.
Print Assumptions C13_graph_edge_gradient_spec.
Print Assumptions C13_graph_e2v_spec.
Print Assumptions C13_graph_n_hop_reach.
Print Assumptions C13_first_order_table.
Print Assumptions C13_stage_dense_determines.
