From FV.C13 Require Import Model.
