(* C13 — tie T of the DECISIONS of the graph-matrix code: coq/C13/gen/Decisions.v is
   regenerated on every run by translate/c13_decisions.py from the current source
   (which adjacency every graph function calls per mode and whether it forwards
   order1_only; the first-order table; ELEMENT_TYPES).  The theorems below state
   that the translated decisions are exactly the modelled ones, so every theorem
   of Props.v is about the decisions the code takes NOW. *)
From Coq Require Import String ZArith Bool Arith List Lia.
Import ListNotations.
From FV.C13 Require Import Model ProofsStage.
From FV.C13.gen Require Import Decisions.
Set Default Timeout 120.
Open Scope string_scope.

(* the generic dispatcher calculate_adjacency_matrix(mode, order1_only): the harness
   maps a `via dispatch` query to QAdj with this order1 value *)
Definition adjacency_dispatch (m : mesh) (nodal o : bool) : option bmat :=
  adjacency m nodal (if nodal then o else false).

(* what a row (function, nodal, callee, forwards) of the translated table claims
   about the model: the function is its graph-level operator applied to the
   adjacency `callee` computes with order1_only forwarded or not *)
Definition dispatch_ok (f : string) (nd cal fw : bool) : Prop :=
  forall (m : mesh) (o : bool),
  let A := adjacency m cal (if fw then o else false) in
  if String.eqb f "calculate_adjacency_matrix" then adjacency_dispatch m nd o = A
  else if String.eqb f "calculate_laplacian_matrix" then
    laplacian m nd o = option_map laplacian_of A
  else if String.eqb f "calculate_edge_gradient_matrix" then
    forall tot, edge_gradient m nd o tot =
                match A with None => None | Some a => edge_gradient_opt a tot end
  else if String.eqb f "calculate_n_hop_adj" then
    forall n sl zd, n_hop m nd n sl o zd = option_map (fun a => hop_of a n sl zd) A
  else if String.eqb f "calculate_e2v_matrix" then
    forall sl st, e2v m nd sl st = option_map (fun a => e2v_of a sl st) A
  else False.

Lemma grad_factor m nd o tot :
  edge_gradient m nd o tot =
  match adjacency m nd o with None => None | Some a => edge_gradient_opt a tot end.
Proof.
  unfold edge_gradient, edge_gradient_opt. destruct (adjacency m nd o); [|reflexivity].
  destruct tot; reflexivity.
Qed.

Lemma hop_factor m nd n sl o zd :
  n_hop m nd n sl o zd =
  option_map (fun a => hop_of a n sl zd) (adjacency m nd (if nd then o else false)).
Proof.
  unfold n_hop, hop_of. destruct (adjacency m nd _); [|reflexivity]. simpl.
  destruct sl; [reflexivity|]. destruct zd; reflexivity.
Qed.

(* every translated dispatch decision is the modelled one; all five functions
   and both modes are present *)
Theorem C13_gen_dispatch : 
  (forall f nd cal fw, In (f, nd, cal, fw) src_dispatch -> dispatch_ok f nd cal fw) /\
  (forall f nd, In f ["calculate_adjacency_matrix"; "calculate_laplacian_matrix";
                      "calculate_edge_gradient_matrix"; "calculate_n_hop_adj";
                      "calculate_e2v_matrix"] ->
     exists cal fw, In (f, nd, cal, fw) src_dispatch).
Proof.
  split.
  - intros f nd cal fw H. simpl in H.
    repeat (destruct H as [H|H];
            [inversion H; subst; clear H; unfold dispatch_ok; cbn [String.eqb Ascii.eqb Bool.eqb];
             intros m o; cbv zeta;
             first [ reflexivity
                   | intros tot; apply grad_factor
                   | intros n sl zd; apply (hop_factor m _ n sl o zd)
                   | intros sl st; reflexivity ]|]).
    contradiction.
  - intros f nd H. simpl in H.
    repeat (destruct H as [<-|H]; [destruct nd; do 2 eexists; simpl; tauto|]). contradiction.
Qed.

(* _to_first_order as the translated table describes it *)
Fixpoint assoc (t : string) (l : list (string * nat)) : option nat :=
  match l with
  | [] => None
  | (k, v) :: r => if String.eqb t k then Some v else assoc t r
  end.
Definition first_order_src (t : string) (conn : list Z) : option (list Z) :=
  if has2 t then option_map (fun k => firstn k conn) (assoc t src_first_order_table)
  else Some conn.

Theorem C13_gen_first_order : forall t c, first_order_conn t c = first_order_src t c.
Proof.
  intros t c. unfold first_order_conn, first_order_src. destruct (has2 t); [|reflexivity].
  unfold src_first_order_table, assoc.
  destruct (String.eqb t "tet2"); [reflexivity|]. destruct (String.eqb t "hex2"); reflexivity.
Qed.

Theorem C13_gen_element_types : src_ELEMENT_TYPES = ELEMENT_TYPES.
Proof. reflexivity. Qed.

(* non-vacuity: the table has the ten (function, mode) rows, among them the two
   decisions that differ between the functions (n-hop and the dispatcher drop
   order1_only in elemental mode, the Laplacian forwards it) *)
Example C13_gen_nonvacuous :
  length src_dispatch = 10 /\
  In ("calculate_n_hop_adj", false, false, false) src_dispatch /\
  In ("calculate_laplacian_matrix", false, false, true) src_dispatch /\
  In ("calculate_e2v_matrix", true, true, false) src_dispatch /\
  first_order_src "tet2" [1; 2; 3; 4; 5; 6; 7; 8; 9; 10]%Z = Some [1; 2; 3; 4]%Z /\
  first_order_src "tri2" [1; 2; 3; 4; 5; 6]%Z = None /\
  first_order_src "prism" [1; 2; 3; 4; 5; 6]%Z = Some [1; 2; 3; 4; 5; 6]%Z.
Proof. simpl. repeat split; try reflexivity; tauto. Qed.

Print Assumptions C13_gen_dispatch.
Print Assumptions C13_gen_first_order.
Print Assumptions C13_gen_element_types.
