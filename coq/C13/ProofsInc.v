(* C13 — incidence matrix = membership, for every mesh *)
From Coq Require Import String ZArith Bool Arith List Lia ZifyBool Permutation Sorted.
Import ListNotations.
From FV.C13 Require Import Model ProofsMat.
Open Scope nat_scope.

(* ---------------------------------------------------------------- ids *)
Lemma zmem_In x l : zmem x l = true <-> In x l.
Proof.
  unfold zmem. rewrite existsb_exists. split.
  - intros [y [Hy E]]. apply Z.eqb_eq in E. now subst.
  - intros H. exists x. split; [exact H|apply Z.eqb_refl].
Qed.

Lemma nodupb_NoDup l : nodupb l = true -> NoDup l.
Proof.
  induction l as [|x r IH]; simpl; intros H; [constructor|].
  apply andb_true_iff in H. destruct H as [H1 H2]. constructor; [|auto].
  intros Hin. apply zmem_In in Hin. rewrite Hin in H1. discriminate.
Qed.

Lemma index_of_nth x l i : index_of x l = Some i -> nth_error l i = Some x.
Proof.
  revert i. induction l as [|y r IH]; simpl; intros i H; [discriminate|].
  destruct (Z.eqb_spec x y).
  - inversion H; subst. reflexivity.
  - destruct (index_of x r) eqn:E; simpl in H; [|discriminate].
    inversion H; subst. simpl. now apply IH.
Qed.

Lemma index_of_In x l : In x l -> exists i, index_of x l = Some i.
Proof.
  induction l as [|y r IH]; simpl; intros H; [contradiction|].
  destruct (Z.eqb_spec x y); [now exists 0|].
  destruct H as [H|H]; [congruence|]. destruct (IH H) as [i Hi]. exists (S i). now rewrite Hi.
Qed.

Lemma NoDup_nth_error_inj {A} (l : list A) i j x :
  NoDup l -> nth_error l i = Some x -> nth_error l j = Some x -> i = j.
Proof.
  intros Hnd Hi Hj. apply (proj1 (NoDup_nth_error l) Hnd).
  - apply nth_error_Some. congruence.
  - congruence.
Qed.

Lemma nth_index_of x l i : NoDup l -> nth_error l i = Some x -> index_of x l = Some i.
Proof.
  intros Hnd H. destruct (index_of_In x l (nth_error_In _ _ H)) as [k Hk].
  rewrite Hk. f_equal. apply index_of_nth in Hk. eapply NoDup_nth_error_inj; eauto.
Qed.

(* --------------------------------------------------------------- omap *)
Lemma omap_In {A B} (f : A -> option B) l ys y :
  omap f l = Some ys -> In y ys -> exists x, In x l /\ f x = Some y.
Proof.
  revert ys. induction l as [|a l IH]; simpl; intros ys H Hin.
  - inversion H; subst. contradiction.
  - destruct (f a) eqn:Ea; [|discriminate]. destruct (omap f l) eqn:El; [|discriminate].
    inversion H; subst. destruct Hin as [Hin|Hin].
    + subst. exists a. auto.
    + destruct (IH _ eq_refl Hin) as [x [Hx Hfx]]. exists x. auto.
Qed.

Lemma omap_In_fwd {A B} (f : A -> option B) l ys x :
  omap f l = Some ys -> In x l -> exists y, f x = Some y /\ In y ys.
Proof.
  revert ys. induction l as [|a l IH]; simpl; intros ys H Hin; [contradiction|].
  destruct (f a) eqn:Ea; [|discriminate]. destruct (omap f l) eqn:El; [|discriminate].
  inversion H; subst. destruct Hin as [Hin|Hin].
  - subst. exists b. split; [exact Ea|now left].
  - destruct (IH _ eq_refl Hin) as [y [Hy Hiny]]. exists y. split; [exact Hy|now right].
Qed.

Lemma omap_total {A B} (f : A -> option B) l :
  (forall x, In x l -> f x <> None) -> omap f l <> None.
Proof.
  induction l as [|a l IH]; simpl; intros H; [discriminate|].
  destruct (f a) eqn:Ea; [|exfalso; apply (H a); auto].
  destruct (omap f l) eqn:El; [discriminate|]. exfalso. apply IH; auto.
Qed.

(* --------------------------------------------------------------- sort *)
Lemma insert_elem_perm e l : Permutation (insert_elem e l) (e :: l).
Proof.
  induction l as [|x r IH]; simpl; [reflexivity|].
  destruct (fst e <=? fst x)%Z; [reflexivity|].
  rewrite IH. apply perm_swap.
Qed.

Lemma isort_perm l : Permutation (isort l) l.
Proof.
  induction l as [|e r IH]; simpl; [reflexivity|].
  rewrite insert_elem_perm. now constructor.
Qed.

Lemma insert_elem_sorted e l :
  StronglySorted (fun a b : elem => (fst a <= fst b)%Z) l ->
  StronglySorted (fun a b : elem => (fst a <= fst b)%Z) (insert_elem e l).
Proof.
  induction l as [|x r IH]; simpl; intros H.
  - repeat constructor.
  - destruct (Z.leb_spec (fst e) (fst x)).
    + constructor; [exact H|]. inversion H; subst. constructor; [exact H0|].
      eapply Forall_impl; [|exact H4]. simpl. intros; lia.
    + inversion H; subst. constructor; [auto|].
      assert (Hp := insert_elem_perm e r).
      apply Forall_forall. intros y Hy. apply (Permutation_in _ Hp) in Hy.
      destruct Hy as [Hy|Hy]; [subst; lia|].
      rewrite Forall_forall in H4. now apply H4.
Qed.

Lemma isort_sorted l : StronglySorted (fun a b : elem => (fst a <= fst b)%Z) (isort l).
Proof. induction l; simpl; [constructor|now apply insert_elem_sorted]. Qed.

(* elements.ids / elements.data list exactly the rows of the blocks *)
Lemma elems_of_In bs e : In e (elems_of bs) <-> In e (flat_map snd (items bs)).
Proof.
  unfold elems_of. destruct (items bs) as [|[t b] [|p r]] eqn:E.
  - simpl. tauto.
  - simpl. rewrite app_nil_r. tauto.
  - split; intros H.
    + eapply Permutation_in; [apply isort_perm|exact H].
    + eapply Permutation_in; [symmetry; apply isort_perm|exact H].
Qed.

(* several types: elements.ids ascending *)
Lemma elems_of_sorted bs :
  2 <= length (items bs) ->
  StronglySorted (fun a b : elem => (fst a <= fst b)%Z) (elems_of bs).
Proof.
  unfold elems_of. destruct (items bs) as [|[t b] [|p r]]; simpl; intros H; try lia.
  apply (isort_sorted (b ++ snd p ++ flat_map snd r)).
Qed.

Lemma elems_of_single bs t b : items bs = [(t, b)] -> elems_of bs = b.
Proof. unfold elems_of. now intros ->. Qed.

Lemma NoDup_fst_eq {A B} (l : list (A * B)) a b :
  NoDup (map fst l) -> In a l -> In b l -> fst a = fst b -> a = b.
Proof.
  induction l as [|x r IH]; simpl; intros Hnd Ha Hb E; [contradiction|].
  inversion Hnd; subst.
  destruct Ha as [Ha|Ha]; destruct Hb as [Hb|Hb]; subst; auto.
  - exfalso. apply H1. rewrite E. now apply in_map.
  - exfalso. apply H1. rewrite <- E. now apply in_map.
Qed.

(* ---------------------------------------------------------- incidence *)
Lemma pair_mem_In i j l : pair_mem i j l = true <-> In (i, j) l.
Proof.
  unfold pair_mem. rewrite existsb_exists. split.
  - intros [[a b] [Hin E]]. simpl in E. apply andb_true_iff in E. destruct E as [E1 E2].
    apply Nat.eqb_eq in E1, E2. now subst.
  - intros H. exists (i, j). split; [exact H|]. simpl. now rewrite !Nat.eqb_refl.
Qed.

(* node at storage position i belongs to the element at position j of
   elements.ids / elements.data *)
Definition belongs (m : mesh) (i j : nat) : Prop :=
  exists nid e, nth_error (m_nodes m) i = Some nid /\
                nth_error (elems_of (m_blocks m)) j = Some e /\ In nid (snd e).

Definition ids_ok (m : mesh) : bool :=
  nodupb (m_nodes m) && nodupb (map fst (elems_of (m_blocks m))).

Lemma incidence_of_spec m I :
  ids_ok m = true -> incidence_of m = Some I ->
  bnr I = length (m_nodes m) /\ bnc I = length (elems_of (m_blocks m)) /\
  forall i j, entry I i j = true <-> belongs m i j.
Proof.
  unfold ids_ok, incidence_of. intros Hok H.
  apply andb_true_iff in Hok. destruct Hok as [Hn He].
  apply nodupb_NoDup in Hn. apply nodupb_NoDup in He.
  destruct (inc_entries m) as [en|] eqn:Een; [|discriminate].
  simpl in H. inversion H; subst I; clear H. simpl.
  split; [reflexivity|]. split; [reflexivity|].
  unfold inc_entries in Een.
  set (eids := map fst (elems_of (m_blocks m))) in *.
  set (f := fun e : elem =>
              match index_of (fst e) eids with
              | None => None
              | Some j => option_map (map (fun i => (i, j)))
                            (omap (fun nid => index_of nid (m_nodes m)) (snd e))
              end) in *.
  destruct (omap f (flat_map snd (items (m_blocks m)))) as [ls|] eqn:Els; [|discriminate].
  simpl in Een. inversion Een; subst en; clear Een.
  intros i j. rewrite entry_bmk. split.
  - intros H.
    destruct (Nat.ltb_spec i (length (m_nodes m))); [|discriminate].
    destruct (Nat.ltb_spec j (length (elems_of (m_blocks m)))); [|discriminate].
    simpl in H. apply pair_mem_In in H. apply in_concat in H.
    destruct H as [l [Hl Hij]].
    destruct (omap_In _ _ _ _ Els Hl) as [e [Hein Hfe]].
    unfold f in Hfe. destruct (index_of (fst e) eids) as [j'|] eqn:Ej; [|discriminate].
    destruct (omap (fun nid => index_of nid (m_nodes m)) (snd e)) as [is|] eqn:Eis; [|discriminate].
    simpl in Hfe. inversion Hfe; subst l; clear Hfe.
    apply in_map_iff in Hij. destruct Hij as [i' [Heq Hi']]. inversion Heq; subst i' j'; clear Heq.
    destruct (omap_In _ _ _ _ Eis Hi') as [nid [Hnid Hidx]].
    apply index_of_nth in Hidx. apply index_of_nth in Ej.
    unfold eids in Ej. rewrite nth_error_map in Ej.
    match type of Ej with option_map fst ?x = _ => destruct x as [e'|] eqn:Ee' end;
      simpl in Ej; [|discriminate].
    inversion Ej as [Hfst].
    assert (e' = e).
    { apply (NoDup_fst_eq (elems_of (m_blocks m))); auto.
      - eapply nth_error_In; eauto.
      - now apply elems_of_In. }
    subst e'. exists nid, e. auto.
  - intros (nid & e & Hni & Hej & Hin).
    assert (Hi : i < length (m_nodes m)) by (apply nth_error_Some; congruence).
    assert (Hj : j < length (elems_of (m_blocks m))) by (apply nth_error_Some; congruence).
    apply Nat.ltb_lt in Hi, Hj. rewrite Hi, Hj. simpl.
    apply pair_mem_In. apply in_concat.
    assert (Hein : In e (flat_map snd (items (m_blocks m)))).
    { apply elems_of_In. eapply nth_error_In; eauto. }
    destruct (omap_In_fwd _ _ _ _ Els Hein) as [l [Hfe Hl]].
    exists l. split; [exact Hl|].
    unfold f in Hfe. destruct (index_of (fst e) eids) as [j'|] eqn:Ej; [|discriminate].
    destruct (omap (fun nid => index_of nid (m_nodes m)) (snd e)) as [is|] eqn:Eis; [|discriminate].
    simpl in Hfe. inversion Hfe; subst l; clear Hfe.
    assert (j' = j).
    { assert (Hx : index_of (fst e) eids = Some j).
      { apply nth_index_of; [exact He|]. unfold eids. now apply map_nth_error. }
      congruence. }
    subst j'.
    destruct (omap_In_fwd _ _ _ _ Eis Hin) as [i' [Hidx Hi']].
    rewrite (nth_index_of _ _ _ Hn Hni) in Hidx. inversion Hidx; subst i'.
    apply in_map_iff. exists i. auto.
Qed.

(* the matrix exists exactly when every referenced node id is a node
   (pandas .loc raises KeyError otherwise) *)
Lemma incidence_of_defined m :
  (forall e nid, In e (elems_of (m_blocks m)) -> In nid (snd e) -> In nid (m_nodes m)) ->
  incidence_of m <> None.
Proof.
  intros H. unfold incidence_of, inc_entries.
  destruct (omap _ (flat_map snd (items (m_blocks m)))) eqn:E; [discriminate|].
  exfalso. revert E. apply omap_total. intros e He.
  assert (He' : In e (elems_of (m_blocks m))) by now apply elems_of_In.
  destruct (index_of_In (fst e) (map fst (elems_of (m_blocks m)))) as [j Hj]; [now apply in_map|].
  rewrite Hj.
  destruct (omap (fun nid => index_of nid (m_nodes m)) (snd e)) eqn:E2; [discriminate|].
  exfalso. revert E2. apply omap_total. intros nid Hnid.
  destruct (index_of_In nid (m_nodes m)) as [i Hi]; [eapply H; eauto|]. congruence.
Qed.

Lemma incidence_of_undefined m e nid :
  In e (elems_of (m_blocks m)) -> In nid (snd e) -> ~ In nid (m_nodes m) ->
  incidence_of m = None.
Proof.
  intros He Hn Hnot. unfold incidence_of, inc_entries.
  destruct (omap _ (flat_map snd (items (m_blocks m)))) as [ls|] eqn:E; [|reflexivity].
  exfalso. apply elems_of_In in He.
  destruct (omap_In_fwd _ _ _ _ E He) as [l [Hfe _]].
  destruct (index_of (fst e) _); [|discriminate].
  destruct (omap (fun nid => index_of nid (m_nodes m)) (snd e)) as [is|] eqn:Eis; [|discriminate].
  destruct (omap_In_fwd _ _ _ _ Eis Hn) as [i [Hi _]].
  apply index_of_nth in Hi. apply nth_error_In in Hi. contradiction.
Qed.

(* ------------------------------------------------ first-order restriction *)
Lemma effective_false m : effective m false = Some m.
Proof. reflexivity. Qed.

Lemma effective_first_order m :
  is_first_order (m_blocks m) = true -> effective m true = Some m.
Proof. unfold effective. now intros ->. Qed.

(* second-order mesh: rows = the corner nodes (in storage order) that some
   element uses, elements = rows truncated to their corner nodes *)
Lemma effective_second_order m m' :
  is_first_order (m_blocks m) = false -> effective m true = Some m' ->
  exists bs', omap first_order_block (items (m_blocks m)) = Some bs' /\
    m_blocks m' = bs' /\
    m_nodes m' = filter (fun n => zmem n (flat_map (fun b : block => flat_map snd (snd b)) bs'))
                        (m_nodes m).
Proof.
  unfold effective. intros ->.
  destruct (omap first_order_block (items (m_blocks m))) as [bs'|]; [|discriminate].
  intros H. inversion H; subst. exists bs'. auto.
Qed.

Lemma first_order_block_rows b b' :
  first_order_block b = Some b' ->
  fst b' = fst b /\
  forall e', In e' (snd b') <->
    exists e, In e (snd b) /\ fst e' = fst e /\ first_order_conn (fst b) (snd e) = Some (snd e').
Proof.
  unfold first_order_block. intros H.
  destruct (omap _ (snd b)) as [rows|] eqn:E; [|discriminate].
  simpl in H. inversion H; subst b'; clear H. simpl. split; [reflexivity|].
  intros e'. split.
  - intros Hin. destruct (omap_In _ _ _ _ E Hin) as [e [He Hf]].
    destruct (first_order_conn (fst b) (snd e)) eqn:Ec; [|discriminate].
    simpl in Hf. inversion Hf; subst e'. exists e. auto.
  - intros [e [He [Hfst Hc]]].
    destruct (omap_In_fwd _ _ _ _ E He) as [y [Hy Hiny]].
    rewrite Hc in Hy. simpl in Hy. inversion Hy; subst y.
    destruct e' as [a c]. simpl in *. now subst a.
Qed.

(* the truncation keeps the 4 / 8 corner nodes of tet2 / hex2 rows and whole
   rows of first-order types *)
Lemma first_order_conn_cases t c c' :
  first_order_conn t c = Some c' ->
  (has2 t = false /\ c' = c) \/ (t = "tet2"%string /\ c' = firstn 4 c)
  \/ (t = "hex2"%string /\ c' = firstn 8 c).
Proof.
  unfold first_order_conn. destruct (has2 t); [|intros H; inversion H; auto].
  destruct (String.eqb_spec t "tet2"); [intros H; inversion H; auto|].
  destruct (String.eqb_spec t "hex2"); [intros H; inversion H; auto|discriminate].
Qed.
