(* C13 — mesh graph matrices (femio/graph_processor.py): hand model (tie H).
   Definitions only; proofs are in Proofs*.v, the statements in Props.v.

   mesh      = node ids in STORAGE order + element blocks keyed by type name
               (each block: (element id, node ids) in storage order)
   matrices  = dense row lists with a functional view `entry M i j`
               (scipy.sparse matrices are compared as sorted COO triples of
               their non-zero entries: `bcoo`, `zcoo`). *)
From Coq Require Import ZArith String Ascii Bool Arith List.
Import ListNotations.
Open Scope string_scope.

(* ------------------------------------------------------------------ mesh *)
Definition elem := (Z * list Z)%type.           (* (element id, node ids) *)
Definition block := (string * list elem)%type.  (* (type name, rows in storage order) *)
Record mesh := mkmesh { m_nodes : list Z; m_blocks : list block }.

(* FEMElementalAttribute.ELEMENT_TYPES (checked equal to the implementation's
   list on every run): keys()/values()/items() iterate in THIS order, whatever
   the insertion order of the dict *)
Definition ELEMENT_TYPES : list string :=
  ["line"; "line2"; "spring"; "tri"; "tri2"; "quad"; "quad2"; "polygon"; "tet"; "tet2";
   "pyr"; "pyr2"; "prism"; "prism2"; "hex"; "hex2"; "hexprism"; "polyhedron"; "unknown"].

Fixpoint find_block (t : string) (bs : list block) : option (list elem) :=
  match bs with
  | [] => None
  | (k, b) :: r => if String.eqb k t then Some b else find_block t r
  end.

(* elements.items(): blocks in type order *)
Definition items (bs : list block) : list block :=
  flat_map (fun t => match find_block t bs with Some b => [(t, b)] | None => [] end)
           ELEMENT_TYPES.

(* np.argsort(ids) on distinct ids: insertion sort by element id *)
Fixpoint insert_elem (e : elem) (l : list elem) : list elem :=
  match l with
  | [] => [e]
  | x :: r => if (fst e <=? fst x)%Z then e :: l else x :: insert_elem e r
  end.
Fixpoint isort (l : list elem) : list elem :=
  match l with [] => [] | e :: r => insert_elem e (isort r) end.

(* FEMElementalAttribute._update_self: elements.ids / elements.data.
   one type: the block as stored; several types: all rows sorted by id *)
Definition elems_of (bs : list block) : list elem :=
  match items bs with
  | [(_, b)] => b
  | it => isort (flat_map snd it)
  end.

(* id2index.loc[x]: position of an id (None = KeyError) *)
Fixpoint index_of (x : Z) (l : list Z) : option nat :=
  match l with
  | [] => None
  | y :: r => if Z.eqb x y then Some 0 else option_map S (index_of x r)
  end.

Fixpoint omap {A B} (f : A -> option B) (l : list A) : option (list B) :=
  match l with
  | [] => Some []
  | x :: r => match f x, omap f r with
              | Some y, Some ys => Some (y :: ys)
              | _, _ => None
              end
  end.

(* ------------------------------------------------ first-order restriction *)
Fixpoint has2 (s : string) : bool :=           (* '2' in element_type *)
  match s with
  | EmptyString => false
  | String c r => Ascii.eqb c "2"%char || has2 r
  end.

(* FEMElementalAttribute._to_first_order *)
Definition first_order_conn (t : string) (conn : list Z) : option (list Z) :=
  if has2 t then
    if String.eqb t "tet2" then Some (firstn 4 conn)
    else if String.eqb t "hex2" then Some (firstn 8 conn)
    else None                                   (* ValueError: Unsupported type *)
  else Some conn.

Definition first_order_block (b : block) : option block :=
  option_map (fun rows => (fst b, rows))
    (omap (fun e : elem => option_map (fun c => (fst e, c)) (first_order_conn (fst b) (snd e)))
          (snd b)).

Definition is_first_order (bs : list block) : bool :=
  negb (existsb (fun b : block => has2 (fst b)) (items bs)).

Definition zmem (x : Z) (l : list Z) : bool := existsb (Z.eqb x) l.

(* the (nodes, elements) pair calculate_incidence_matrix works on *)
Definition effective (m : mesh) (order1_only : bool) : option mesh :=
  if order1_only then
    if is_first_order (m_blocks m) then Some m
    else
      match omap first_order_block (items (m_blocks m)) with
      | None => None
      | Some bs' =>
          let fo_ids := flat_map (fun b : block => flat_map snd (snd b)) bs' in
          Some (mkmesh (filter (fun n => zmem n fo_ids) (m_nodes m)) bs')
      end
  else Some m.

(* ------------------------------------------------------------- matrices *)
Record bmat := mkb { bnr : nat; bnc : nat; bdat : list (list bool) }.
Record zmat := mkz { znr : nat; znc : nat; zdat : list (list Z) }.

(* row i is computed by `f i` (evaluated once per row), column by column *)
Definition tab {A} (r c : nat) (f : nat -> nat -> A) : list (list A) :=
  map (fun i => let fi := f i in map fi (seq 0 c)) (seq 0 r).

Definition bmk (r c : nat) (f : nat -> nat -> bool) : bmat := mkb r c (tab r c f).
Definition zmk (r c : nat) (f : nat -> nat -> Z) : zmat := mkz r c (tab r c f).

Definition brow (M : bmat) (i : nat) : list bool := nth i (bdat M) [].
Definition zrow (M : zmat) (i : nat) : list Z := nth i (zdat M) [].
Definition entry (M : bmat) (i j : nat) : bool := nth j (brow M i) false.
Definition zentry (M : zmat) (i j : nat) : Z := nth j (zrow M i) 0%Z.

Definition b2z (b : bool) : Z := if b then 1%Z else 0%Z.
Definition delta (i j : nat) : Z := if Nat.eqb i j then 1%Z else 0%Z.

(* sorted COO triples of the non-zero entries (row-major) *)
Definition bcoo (M : bmat) : list (nat * nat) :=
  flat_map (fun i => flat_map (fun j => if entry M i j then [(i, j)] else []) (seq 0 (bnc M)))
           (seq 0 (bnr M)).
Definition zcoo (M : zmat) : list (nat * nat * Z) :=
  flat_map (fun i => flat_map (fun j => let v := zentry M i j in
                                        if Z.eqb v 0 then [] else [(i, j, v)]) (seq 0 (znc M)))
           (seq 0 (znr M)).

Definition b2zmat (M : bmat) : zmat := zmk (bnr M) (bnc M) (fun i => let r := brow M i in
                                                           fun j => b2z (nth j r false)).

(* boolean products (scipy bool csr: + is or, * is and) *)
(* A . B^T *)
Definition bmulT (A B : bmat) : bmat :=
  bmk (bnr A) (bnr B) (fun i => let ra := brow A i in
     fun k => let rb := brow B k in
       existsb (fun j => nth j ra false && nth j rb false) (seq 0 (bnc A))).
(* A^T . B *)
Definition bTmul (A B : bmat) : bmat :=
  bmk (bnc A) (bnc B) (fun i k =>
       existsb (fun j => entry A j i && entry B j k) (seq 0 (bnr A))).
(* A . B *)
Definition bmul (A B : bmat) : bmat :=
  bmk (bnr A) (bnc B) (fun i => let ra := brow A i in
     fun k => existsb (fun j => nth j ra false && entry B j k) (seq 0 (bnc A))).
Definition bor (A B : bmat) : bmat :=
  bmk (bnr A) (bnc A) (fun i => let ra := brow A i in let rb := brow B i in
     fun j => nth j ra false || nth j rb false).

(* ------------------------------------------------------------ incidence *)
(* the branch taken for a FEMElementalAttribute (always: it is a dict, so
   nodes.ids2indices returns one array per type): COO triplets
   (storage position of the node id, position of the element id in
   elements.ids), blocks in type order *)
Definition inc_entries (m : mesh) : option (list (nat * nat)) :=
  let eids := map fst (elems_of (m_blocks m)) in
  option_map (@List.concat _)
    (omap (fun e : elem =>
             match index_of (fst e) eids with
             | None => None
             | Some j => option_map (map (fun i => (i, j)))
                           (omap (fun nid => index_of nid (m_nodes m)) (snd e))
             end)
          (flat_map snd (items (m_blocks m)))).

Definition pair_mem (i j : nat) (l : list (nat * nat)) : bool :=
  existsb (fun p => Nat.eqb (fst p) i && Nat.eqb (snd p) j) l.

(* sp.csr_matrix(([True]*k, (rows, cols)), shape=(len(nodes), len(elements))):
   duplicates are or-ed *)
Definition incidence_of (m : mesh) : option bmat :=
  option_map (fun en => bmk (length (m_nodes m)) (length (elems_of (m_blocks m)))
                            (fun i j => pair_mem i j en))
             (inc_entries m).

(* the other branch of calculate_incidence_matrix (node_indices is a single
   array: column = row number of the array) — unreachable through FEMData,
   modelled for a single block *)
Definition inc_entries_uniform (nodes : list Z) (rows : list elem) : option (list (nat * nat)) :=
  option_map (@List.concat _)
    (omap (fun je : nat * elem =>
             option_map (map (fun i => (i, fst je)))
                        (omap (fun nid => index_of nid nodes) (snd (snd je))))
          (combine (seq 0 (length rows)) rows)).

Definition incidence (m : mesh) (order1_only : bool) : option bmat :=
  match effective m order1_only with
  | None => None
  | Some m' => incidence_of m'
  end.

(* --------------------------------------------------------------- graphs *)
Definition adj_node_of (I : bmat) : bmat := bmulT I I.       (* I . I^T *)
Definition adj_elem_of (I : bmat) : bmat := bTmul I I.       (* I^T . I *)

Definition adjacency (m : mesh) (nodal order1_only : bool) : option bmat :=
  option_map (if nodal then adj_node_of else adj_elem_of) (incidence m order1_only).

(* calculate_n_hop_adj: return_adj / power_adj accumulation *)
Fixpoint hop_loop (k : nat) (adj ret pow : bmat) : bmat :=
  match k with
  | O => ret
  | S k' => let pow' := bmul pow adj in hop_loop k' adj (bor ret pow') pow'
  end.
Definition n_hop_bool (adj : bmat) (n : nat) : bmat := hop_loop (n - 1) adj adj adj.

(* include_self_loop=False: return_adj - sp.eye(int) *)
Definition minus_eye (A : bmat) : zmat :=
  zmk (bnr A) (bnc A) (fun i => let r := brow A i in
                        fun j => (b2z (nth j r false) - delta i j)%Z).

(* the repaired form of include_self_loop=False: the diagonal is removed
   (setdiag(0) / masking), nothing is subtracted *)
Definition zero_diag (A : bmat) : zmat :=
  zmk (bnr A) (bnc A) (fun i => let r := brow A i in
                        fun j => if Nat.eqb i j then 0%Z else b2z (nth j r false)).

(* `zd`, `strict`, `total` below select between the behaviour of the unchanged
   tree (false) and the repaired behaviour (true) at the three places where the
   unchanged code violates the property (isolated vertices, edgeless graphs).
   Which one the implementation follows is decided by the correspondence on
   every run (harness/c13.py, by behaviour); both have their theorems. *)
Definition n_hop (m : mesh) (nodal : bool) (n : nat) (self_loop order1_only zd : bool)
  : option zmat :=
  (* mode='elemental' ignores order1_only *)
  option_map (fun adj => let h := n_hop_bool adj n in
                         if self_loop then b2zmat h
                         else if zd then zero_diag h else minus_eye h)
             (adjacency m nodal (if nodal then order1_only else false)).

Definition zsum (l : list Z) : Z := fold_right Z.add 0%Z l.

(* calculate_laplacian_matrix: (adj - I) - diag(rowsum(adj - I)) *)
Definition laplacian_of (adj : bmat) : zmat :=
  let awl := minus_eye adj in
  zmk (bnr adj) (bnc adj) (fun i => let r := zrow awl i in let d := zsum r in
                             fun j => (nth j r 0 - (if Nat.eqb i j then d else 0))%Z).
Definition laplacian (m : mesh) (nodal order1_only : bool) : option zmat :=
  option_map laplacian_of (adjacency m nodal order1_only).

(* calculate_edge_gradient_matrix: one row per stored entry (r, c) with c > r.
   Stored entries are taken in row-major sorted order (scipy's order inside a
   row of an unsorted CSR product is not modelled; the harness sorts rows). *)
Definition upper_edges (adj : bmat) : list (nat * nat) :=
  filter (fun p => Nat.ltb (fst p) (snd p)) (bcoo adj).
Definition edge_gradient_of (adj : bmat) : zmat :=
  let es := upper_edges adj in
  zmk (length es) (bnr adj) (fun k => match nth_error es k with
      | Some (r, c) => fun v => if Nat.eqb v r then 1%Z else if Nat.eqb v c then (-1)%Z else 0%Z
      | None => fun _ => 0%Z
      end).
(* a graph without any edge r < c: np.concatenate([]) raises ValueError *)
Definition edge_gradient (m : mesh) (nodal order1_only total : bool) : option zmat :=
  match adjacency m nodal order1_only with
  | None => None
  | Some adj => if total then Some (edge_gradient_of adj)
                else match upper_edges adj with [] => None | _ => Some (edge_gradient_of adj) end
  end.

(* calculate_e2v_matrix: one column per stored entry of `adj - I`
   (include_self_loop=False) or of adj (True; the unchanged implementation
   raises AttributeError there), in row-major order; entry (r_k, k) = 1 *)
Definition e2v_sources (adj : bmat) (self_loop strict : bool) : list nat :=
  if self_loop then map fst (bcoo adj)
  else if strict then map fst (filter (fun p => negb (Nat.eqb (fst p) (snd p))) (bcoo adj))
  else map (fun t => fst (fst t)) (zcoo (minus_eye adj)).
Definition e2v_of (adj : bmat) (self_loop strict : bool) : zmat :=
  let src := e2v_sources adj self_loop strict in
  zmk (bnr adj) (length src) (fun v k => match nth_error src k with
      | Some r => if Nat.eqb v r then 1%Z else 0%Z
      | None => 0%Z
      end).
Definition e2v (m : mesh) (nodal self_loop strict : bool) : option zmat :=
  option_map (fun a => e2v_of a self_loop strict) (adjacency m nodal false).

(* -------------------------------------------- queries (correspondence) *)
Inductive query :=
| QInc (order1 : bool)
| QAdj (nodal order1 : bool)
| QHop (nodal : bool) (n : nat) (self_loop order1 zd : bool)
| QLap (nodal order1 : bool)
| QGrad (nodal order1 total : bool)
| QE2V (nodal self_loop strict : bool).

Definition result := option (Z * Z * list (Z * Z * Z)).   (* shape, sorted triples *)

Definition res_of_z (M : zmat) : Z * Z * list (Z * Z * Z) :=
  (Z.of_nat (znr M), Z.of_nat (znc M),
   map (fun t => (Z.of_nat (fst (fst t)), Z.of_nat (snd (fst t)), snd t)) (zcoo M)).
Definition res_of_b (M : bmat) : Z * Z * list (Z * Z * Z) :=
  (Z.of_nat (bnr M), Z.of_nat (bnc M),
   map (fun p => (Z.of_nat (fst p), Z.of_nat (snd p), 1%Z)) (bcoo M)).

Definition run_query (m : mesh) (q : query) : result :=
  match q with
  | QInc o => option_map res_of_b (incidence m o)
  | QAdj nd o => option_map res_of_b (adjacency m nd o)
  | QHop nd n sl o zd => option_map res_of_z (n_hop m nd n sl o zd)
  | QLap nd o => option_map res_of_z (laplacian m nd o)
  | QGrad nd o tot => option_map res_of_z (edge_gradient m nd o tot)
  | QE2V nd sl st => option_map res_of_z (e2v m nd sl st)
  end.

Definition t3_eqb (a b : Z * Z * Z) : bool :=
  Z.eqb (fst (fst a)) (fst (fst b)) && Z.eqb (snd (fst a)) (snd (fst b)) && Z.eqb (snd a) (snd b).
Fixpoint list_eqb {A} (eq : A -> A -> bool) (a b : list A) : bool :=
  match a, b with
  | [], [] => true
  | x :: r, y :: s => eq x y && list_eqb eq r s
  | _, _ => false
  end.
Definition result_eqb (a b : result) : bool :=
  match a, b with
  | None, None => true
  | Some (r, c, l), Some (r', c', l') => Z.eqb r r' && Z.eqb c c' && list_eqb t3_eqb l l'
  | _, _ => false
  end.

(* indices of the queries on which the implementation's answer differs *)
Definition check_case (m : mesh) (qs : list (query * result)) : list nat :=
  map fst (filter (fun kq => negb (result_eqb (run_query m (fst (snd kq))) (snd (snd kq))))
                  (combine (seq 0 (length qs)) qs)).

(* well-formedness used by the theorems: distinct node ids, block keys are
   distinct known type names, element ids distinct over all blocks *)
Fixpoint nodupb (l : list Z) : bool :=
  match l with [] => true | x :: r => negb (zmem x r) && nodupb r end.
Fixpoint nodups (l : list string) : bool :=
  match l with [] => true | x :: r => negb (existsb (String.eqb x) r) && nodups r end.
Definition wf_mesh (m : mesh) : bool :=
  nodupb (m_nodes m)
  && nodups (map fst (m_blocks m))
  && forallb (fun b : block => existsb (String.eqb (fst b)) ELEMENT_TYPES) (m_blocks m)
  && nodupb (map fst (flat_map snd (m_blocks m))).

(* ------------------------------- graph-level (stage-wise) queries ---------
   The operators that FOLLOW the adjacency matrix (Laplacian, edge gradient,
   e2v, n-hop) applied to a GIVEN boolean matrix.  `run_query` factors through
   them (`C13_stagewise_factor`), so the second stage of the code can be held
   against the model on graphs that are too large for the in-Coq evaluation of
   the first stage (mesh -> incidence -> adjacency): hub vertices whose degree
   exceeds the width of the narrow integer dtypes. *)
Definition wf_bmat (A : bmat) : bool :=
  Nat.eqb (length (bdat A)) (bnr A)
  && forallb (fun r : list bool => Nat.eqb (length r) (bnc A)) (bdat A).
Definition squareb (A : bmat) : bool := Nat.eqb (bnr A) (bnc A).

Inductive gquery :=
| GLap
| GGrad (total : bool)
| GE2V (self_loop strict : bool)
| GHop (n : nat) (self_loop zd : bool).

Definition hop_of (A : bmat) (n : nat) (self_loop zd : bool) : zmat :=
  let h := n_hop_bool A n in
  if self_loop then b2zmat h else if zd then zero_diag h else minus_eye h.

Definition edge_gradient_opt (A : bmat) (total : bool) : option zmat :=
  if total then Some (edge_gradient_of A)
  else match upper_edges A with [] => None | _ => Some (edge_gradient_of A) end.

(* None = the code raises / the matrix is not a well-formed square one *)
Definition gq_mat (A : bmat) (q : gquery) : option zmat :=
  if wf_bmat A && squareb A then
    match q with
    | GLap => Some (laplacian_of A)
    | GGrad tot => edge_gradient_opt A tot
    | GE2V sl st => Some (e2v_of A sl st)
    | GHop n sl zd => Some (hop_of A n sl zd)
    end
  else None.

Definition run_gquery (A : bmat) (q : gquery) : result := option_map res_of_z (gq_mat A q).

(* comparison form of the stage-wise check: shape + the dense rows (lists of
   tens of thousands of COO triples overflow coqc's parser stack; the dense
   rows carry the same information) *)
Definition dresult := option (Z * Z * list (list Z)).
Definition dres_of_z (M : zmat) : Z * Z * list (list Z) :=
  (Z.of_nat (znr M), Z.of_nat (znc M), zdat M).
Definition run_gquery_dense (A : bmat) (q : gquery) : dresult := option_map dres_of_z (gq_mat A q).
Definition dresult_eqb (a b : dresult) : bool :=
  match a, b with
  | None, None => true
  | Some (r, c, l), Some (r', c', l') =>
      Z.eqb r r' && Z.eqb c c' && list_eqb (list_eqb Z.eqb) l l'
  | _, _ => false
  end.

(* the harness hands matrices over in row-sparse form (dense literals of this
   size cost tens of seconds of parsing): the adjacency as the list of column
   indices of every row, the implementation's answer as (column, value) pairs
   of every row; both are expanded to the dense form here *)
Definition zseq (n : nat) : list Z := map Z.of_nat (seq 0 n).
Definition bmat_of_rows (n : nat) (rows : list (list Z)) : bmat :=
  mkb n n (map (fun cols => map (fun j => existsb (Z.eqb j) cols) (zseq n)) rows).
Definition zlookup (j : Z) (row : list (Z * Z)) : Z :=
  match find (fun p => Z.eqb (fst p) j) row with Some p => snd p | None => 0%Z end.
Definition sresult := option (Z * Z * list (list (Z * Z))).
Definition densify (e : Z * Z * list (list (Z * Z))) : Z * Z * list (list Z) :=
  match e with
  | (r, c, rows) => (r, c, map (fun row => map (fun j => zlookup j row) (zseq (Z.to_nat c))) rows)
  end.

Definition check_graph (A : bmat) (qs : list (gquery * sresult)) : list nat :=
  map fst (filter (fun kq => negb (dresult_eqb (run_gquery_dense A (fst (snd kq)))
                                               (option_map densify (snd (snd kq)))))
                  (combine (seq 0 (length qs)) qs)).
