(* C13 — lemmas about the dense matrix representation of Model.v *)
From Coq Require Import ZArith Bool Arith List Lia ZifyBool.
Open Scope nat_scope.
Import ListNotations.
From FV.C13 Require Import Model.

(* ---------------------------------------------------------------- lists *)
Lemma nth_map_seq {A} (g : nat -> A) (d : A) n i :
  nth i (map g (seq 0 n)) d = if i <? n then g i else d.
Proof.
  destruct (Nat.ltb_spec i n) as [H|H].
  - rewrite nth_indep with (d' := g 0) by (rewrite map_length, seq_length; exact H).
    rewrite map_nth. rewrite seq_nth by exact H. reflexivity.
  - apply nth_overflow. rewrite map_length, seq_length. exact H.
Qed.

Lemma nth_tab {A} (r c : nat) (f : nat -> nat -> A) (d : A) i j :
  nth j (nth i (tab r c f) []) d = if (i <? r) && (j <? c) then f i j else d.
Proof.
  unfold tab. rewrite nth_map_seq.
  destruct (i <? r); simpl.
  - rewrite nth_map_seq. reflexivity.
  - destruct j; reflexivity.
Qed.

Lemma tab_length {A} r c (f : nat -> nat -> A) : length (tab r c f) = r.
Proof. unfold tab. now rewrite map_length, seq_length. Qed.

Lemma tab_row_length {A} r c (f : nat -> nat -> A) i : i < r -> length (nth i (tab r c f) []) = c.
Proof.
  intros H. unfold tab. rewrite nth_map_seq.
  apply Nat.ltb_lt in H. rewrite H. now rewrite map_length, seq_length.
Qed.

Lemma entry_bmk r c f i j :
  entry (bmk r c f) i j = if (i <? r) && (j <? c) then f i j else false.
Proof. unfold entry, brow, bmk; simpl. apply nth_tab. Qed.

Lemma zentry_zmk r c f i j :
  zentry (zmk r c f) i j = if (i <? r) && (j <? c) then f i j else 0%Z.
Proof. unfold zentry, zrow, zmk; simpl. apply nth_tab. Qed.

Lemma existsb_seq_exists (p : nat -> bool) n :
  existsb p (seq 0 n) = true <-> exists j, j < n /\ p j = true.
Proof.
  rewrite existsb_exists. split.
  - intros [j [Hin Hp]]. apply in_seq in Hin. exists j. split; [lia|exact Hp].
  - intros [j [Hj Hp]]. exists j. split; [apply in_seq; lia|exact Hp].
Qed.

(* every true entry lies inside the declared shape *)
Definition bounded (M : bmat) : Prop :=
  forall i j, entry M i j = true -> i < bnr M /\ j < bnc M.

Lemma bounded_bmk r c f : bounded (bmk r c f).
Proof.
  intros i j H. rewrite entry_bmk in H. simpl.
  destruct (Nat.ltb_spec i r); destruct (Nat.ltb_spec j c); simpl in H; try discriminate. lia.
Qed.

(* ------------------------------------------------------------- products *)
Lemma entry_bmulT A B i k :
  entry (bmulT A B) i k = true <->
  i < bnr A /\ k < bnr B /\ exists j, j < bnc A /\ entry A i j = true /\ entry B k j = true.
Proof.
  unfold bmulT. rewrite entry_bmk.
  destruct (Nat.ltb_spec i (bnr A)); destruct (Nat.ltb_spec k (bnr B)); simpl;
    try (split; [discriminate|intros (?&?&?); lia]).
  rewrite existsb_seq_exists. split.
  - intros [j [Hj Hp]]. apply andb_true_iff in Hp. split; [lia|]. split; [lia|].
    exists j. unfold entry. tauto.
  - intros (_&_&j&Hj&Ha&Hb). exists j. split; [exact Hj|]. unfold entry in *.
    now rewrite Ha, Hb.
Qed.

Lemma entry_bTmul A B i k :
  entry (bTmul A B) i k = true <->
  i < bnc A /\ k < bnc B /\ exists j, j < bnr A /\ entry A j i = true /\ entry B j k = true.
Proof.
  unfold bTmul. rewrite entry_bmk.
  destruct (Nat.ltb_spec i (bnc A)); destruct (Nat.ltb_spec k (bnc B)); simpl;
    try (split; [discriminate|intros (?&?&?); lia]).
  rewrite existsb_seq_exists. split.
  - intros [j [Hj Hp]]. apply andb_true_iff in Hp. split; [lia|]. split; [lia|].
    exists j. tauto.
  - intros (_&_&j&Hj&Ha&Hb). exists j. split; [exact Hj|]. now rewrite Ha, Hb.
Qed.

Lemma entry_bmul A B i k :
  entry (bmul A B) i k = true <->
  i < bnr A /\ k < bnc B /\ exists j, j < bnc A /\ entry A i j = true /\ entry B j k = true.
Proof.
  unfold bmul. rewrite entry_bmk.
  destruct (Nat.ltb_spec i (bnr A)); destruct (Nat.ltb_spec k (bnc B)); simpl;
    try (split; [discriminate|intros (?&?&?); lia]).
  rewrite existsb_seq_exists. split.
  - intros [j [Hj Hp]]. apply andb_true_iff in Hp. split; [lia|]. split; [lia|].
    exists j. unfold entry at 1. tauto.
  - intros (_&_&j&Hj&Ha&Hb). exists j. split; [exact Hj|]. unfold entry in Ha.
    now rewrite Ha, Hb.
Qed.

Lemma entry_bor A B i j :
  entry (bor A B) i j = true <->
  i < bnr A /\ j < bnc A /\ (entry A i j = true \/ entry B i j = true).
Proof.
  unfold bor. rewrite entry_bmk.
  destruct (Nat.ltb_spec i (bnr A)); destruct (Nat.ltb_spec j (bnc A)); simpl;
    try (split; [discriminate|intros (?&?&?); lia]).
  fold (entry A i j). fold (entry B i j). rewrite orb_true_iff. split; [intros; split; [lia|split;[lia|tauto]]|tauto].
Qed.

(* ------------------------------------------------------ COO extraction *)
Lemma in_bcoo M i j :
  In (i, j) (bcoo M) <-> i < bnr M /\ j < bnc M /\ entry M i j = true.
Proof.
  unfold bcoo. rewrite in_flat_map. split.
  - intros [a [Ha Hin]]. apply in_seq in Ha. apply in_flat_map in Hin.
    destruct Hin as [b [Hb Hin]]. apply in_seq in Hb.
    destruct (entry M a b) eqn:E; simpl in Hin; [|contradiction].
    destruct Hin as [Heq|[]]. inversion Heq; subst. split; [lia|]. split; [lia|exact E].
  - intros (Hi&Hj&E). exists i. split; [apply in_seq; lia|].
    apply in_flat_map. exists j. split; [apply in_seq; lia|]. rewrite E. now left.
Qed.

Lemma NoDup_app_intro {A} (l1 l2 : list A) :
  NoDup l1 -> NoDup l2 -> (forall x, In x l1 -> In x l2 -> False) -> NoDup (l1 ++ l2).
Proof.
  induction l1 as [|a l1 IH]; intros H1 H2 Hd; simpl; [exact H2|].
  inversion H1; subst. constructor.
  - rewrite in_app_iff. intros [H|H]; [contradiction|]. apply (Hd a); [now left|exact H].
  - apply IH; auto. intros x Hx; apply Hd; now right.
Qed.

Lemma NoDup_flat_map {A B} (f : A -> list B) (l : list A) :
  NoDup l -> (forall x, In x l -> NoDup (f x)) ->
  (forall x y b, In x l -> In y l -> In b (f x) -> In b (f y) -> x = y) ->
  NoDup (flat_map f l).
Proof.
  induction l as [|a l IH]; intros Hnd Hf Hdis; simpl; [constructor|].
  inversion Hnd; subst.
  apply NoDup_app_intro.
  - apply Hf; now left.
  - apply IH; auto.
    + intros; apply Hf; now right.
    + intros x y b Hx Hy; apply Hdis; now right.
  - intros b Hb1 Hb2. apply in_flat_map in Hb2. destruct Hb2 as [y [Hy Hby]].
    assert (a = y) by (apply (Hdis a y b); [now left|now right|exact Hb1|exact Hby]).
    subst. contradiction.
Qed.

Lemma NoDup_bcoo M : NoDup (bcoo M).
Proof.
  unfold bcoo. apply NoDup_flat_map.
  - apply seq_NoDup.
  - intros i _. apply NoDup_flat_map.
    + apply seq_NoDup.
    + intros j _. destruct (entry M i j); [constructor; [intros []|constructor]|constructor].
    + intros x y b _ _ Hx Hy.
      destruct (entry M i x); [|contradiction]. destruct (entry M i y); [|contradiction].
      destruct Hx as [Hx|[]]; destruct Hy as [Hy|[]]. subst b. now inversion Hy.
  - intros x y b _ _ Hx Hy.
    apply in_flat_map in Hx. destruct Hx as [j [_ Hx]].
    apply in_flat_map in Hy. destruct Hy as [k [_ Hy]].
    destruct (entry M x j); [|contradiction]. destruct (entry M y k); [|contradiction].
    destruct Hx as [Hx|[]]; destruct Hy as [Hy|[]]. subst b. now inversion Hy.
Qed.

Lemma in_zcoo M i j v :
  In (i, j, v) (zcoo M) <-> i < znr M /\ j < znc M /\ zentry M i j = v /\ v <> 0%Z.
Proof.
  unfold zcoo. rewrite in_flat_map. split.
  - intros [a [Ha Hin]]. apply in_seq in Ha. apply in_flat_map in Hin.
    destruct Hin as [b [Hb Hin]]. apply in_seq in Hb. cbv zeta in Hin.
    destruct (Z.eqb_spec (zentry M a b) 0); simpl in Hin; [contradiction|].
    destruct Hin as [Heq|[]]. inversion Heq; subst. repeat split; try lia; assumption.
  - intros (Hi&Hj&E&Hv). exists i. split; [apply in_seq; lia|].
    apply in_flat_map. exists j. split; [apply in_seq; lia|]. cbv zeta.
    destruct (Z.eqb_spec (zentry M i j) 0); [congruence|]. left. now rewrite E.
Qed.

Lemma NoDup_zcoo_pos M : NoDup (map fst (zcoo M)).
Proof.
  unfold zcoo. rewrite flat_map_concat_map, concat_map, map_map, <- flat_map_concat_map.
  apply NoDup_flat_map.
  - apply seq_NoDup.
  - intros i _. rewrite flat_map_concat_map, concat_map, map_map, <- flat_map_concat_map.
    apply NoDup_flat_map.
    + apply seq_NoDup.
    + intros j _. cbv zeta. destruct (Z.eqb (zentry M i j) 0); simpl; [constructor|constructor; [intros []|constructor]].
    + intros x y b _ _ Hx Hy. cbv zeta in Hx, Hy.
      destruct (Z.eqb (zentry M i x) 0); [contradiction|].
      destruct (Z.eqb (zentry M i y) 0); [contradiction|].
      simpl in Hx, Hy. destruct Hx as [Hx|[]]; destruct Hy as [Hy|[]]. subst b. now inversion Hy.
  - intros x y b _ _ Hx Hy.
    rewrite flat_map_concat_map, concat_map, map_map, <- flat_map_concat_map in Hx, Hy.
    apply in_flat_map in Hx. destruct Hx as [j [_ Hx]].
    apply in_flat_map in Hy. destruct Hy as [k [_ Hy]]. cbv zeta in Hx, Hy.
    destruct (Z.eqb (zentry M x j) 0); [contradiction|].
    destruct (Z.eqb (zentry M y k) 0); [contradiction|].
    simpl in Hx, Hy. destruct Hx as [Hx|[]]; destruct Hy as [Hy|[]]. subst b. now inversion Hy.
Qed.

(* ------------------------------------------------------------ Z helpers *)
Lemma zentry_minus_eye A i j :
  i < bnr A -> j < bnc A -> zentry (minus_eye A) i j = (b2z (entry A i j) - delta i j)%Z.
Proof.
  intros Hi Hj. unfold minus_eye. rewrite zentry_zmk.
  apply Nat.ltb_lt in Hi, Hj. rewrite Hi, Hj. reflexivity.
Qed.

Lemma zentry_b2zmat A i j :
  i < bnr A -> j < bnc A -> zentry (b2zmat A) i j = b2z (entry A i j).
Proof.
  intros Hi Hj. unfold b2zmat. rewrite zentry_zmk.
  apply Nat.ltb_lt in Hi, Hj. rewrite Hi, Hj. reflexivity.
Qed.

Lemma map_nth_seq {A} (l : list A) d : map (fun j => nth j l d) (seq 0 (length l)) = l.
Proof.
  apply nth_ext with (d := d) (d' := d).
  - now rewrite map_length, seq_length.
  - intros n Hn. rewrite map_length, seq_length in Hn.
    rewrite nth_map_seq. apply Nat.ltb_lt in Hn. now rewrite Hn.
Qed.

Lemma zsum_app a b : zsum (a ++ b) = (zsum a + zsum b)%Z.
Proof. induction a; simpl; lia. Qed.

Lemma zsum_map_add {A} (f g : A -> Z) l :
  zsum (map (fun x => (f x - g x)%Z) l) = (zsum (map f l) - zsum (map g l))%Z.
Proof. induction l; simpl; lia. Qed.

Lemma zsum_indicator i d n :
  zsum (map (fun j => if Nat.eqb i j then d else 0%Z) (seq 0 n)) = if i <? n then d else 0%Z.
Proof.
  induction n as [|n IH].
  - reflexivity.
  - rewrite seq_S, map_app, zsum_app, IH. simpl.
    destruct (Nat.eqb_spec i n); destruct (Nat.ltb_spec i n); destruct (Nat.ltb_spec i (S n)); lia.
Qed.
