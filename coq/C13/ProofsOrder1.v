(* C13 — order1_only on second-order meshes, stated on the ORIGINAL mesh:
   rows = corner nodes in storage order, column j = the element at position j
   of elements.ids truncated to its corner nodes. *)
From Coq Require Import String ZArith Bool Arith List Lia ZifyBool Permutation.
Import ListNotations.
From FV.C13 Require Import Model ProofsMat ProofsInc ProofsTop.
Open Scope nat_scope.

Lemma omap_Forall2 {A B} (f : A -> option B) l ys :
  omap f l = Some ys -> Forall2 (fun x y => f x = Some y) l ys.
Proof.
  revert ys. induction l as [|a l IH]; simpl; intros ys H.
  - inversion H. constructor.
  - destruct (f a) eqn:Ea; [|discriminate]. destruct (omap f l) eqn:El; [|discriminate].
    inversion H; subst. constructor; auto.
Qed.

Lemma Forall2_imp {A B} (P Q : A -> B -> Prop) l l' :
  (forall a b, In a l -> P a b -> Q a b) -> Forall2 P l l' -> Forall2 Q l l'.
Proof.
  intros H F. induction F; constructor.
  - apply H; [now left|assumption].
  - apply IHF. intros a b Ha. apply H. now right.
Qed.

Lemma Forall2_len {A B} (P : A -> B -> Prop) l l' : Forall2 P l l' -> length l = length l'.
Proof. intros F. induction F; simpl; auto. Qed.

Lemma Forall2_nth {A B} (P : A -> B -> Prop) l l' j a :
  Forall2 P l l' -> nth_error l j = Some a -> exists b, nth_error l' j = Some b /\ P a b.
Proof.
  intros F. revert j. induction F; intros j Hj; destruct j; simpl in *; try discriminate.
  - inversion Hj; subst. eauto.
  - eauto.
Qed.

Lemma Forall2_nth_r {A B} (P : A -> B -> Prop) l l' j b :
  Forall2 P l l' -> nth_error l' j = Some b -> exists a, nth_error l j = Some a /\ P a b.
Proof.
  intros F. revert j. induction F; intros j Hj; destruct j; simpl in *; try discriminate.
  - inversion Hj; subst. eauto.
  - eauto.
Qed.

(* ------------------------------------------- items of a type-ordered dict *)
Lemma find_block_notin t bs : ~ In t (map fst bs) -> find_block t bs = None.
Proof.
  induction bs as [|[k b] r IH]; simpl; intros H; [reflexivity|].
  destruct (String.eqb_spec k t); [exfalso; apply H; now left|]. apply IH. tauto.
Qed.

Lemma flat_map_ext_In {A B} (f g : A -> list B) l :
  (forall a, In a l -> f a = g a) -> flat_map f l = flat_map g l.
Proof. induction l; simpl; intros H; [reflexivity|]. rewrite H, IHl; auto. Qed.

Lemma items_gen_fixed (L : list string) (p : string -> bool) (bs : list block) :
  NoDup L -> map fst bs = filter p L ->
  flat_map (fun t => match find_block t bs with Some b => [(t, b)] | None => [] end) L = bs.
Proof.
  revert bs. induction L as [|t L IH]; intros bs Hnd Hk; simpl in *.
  - destruct bs; [reflexivity|discriminate].
  - apply NoDup_cons_iff in Hnd. destruct Hnd as [Hnot HndL]. destruct (p t) eqn:Ep.
    + destruct bs as [|[k b] r]; [discriminate|]. simpl in Hk. injection Hk as Hk1 Hk2. subst k.
      simpl. rewrite String.eqb_refl. simpl. f_equal.
      etransitivity; [|exact (IH r HndL Hk2)].
      apply flat_map_ext_In. intros t' Ht'. simpl.
      destruct (String.eqb_spec t t'); [subst; contradiction|reflexivity].
    + rewrite find_block_notin.
      * simpl. now apply IH.
      * rewrite Hk. intros Hin. apply filter_In in Hin. destruct Hin. contradiction.
Qed.

Lemma items_keys bs :
  map fst (items bs) =
  filter (fun t => match find_block t bs with Some _ => true | None => false end) ELEMENT_TYPES.
Proof.
  unfold items. induction ELEMENT_TYPES as [|t L IH]; simpl; [reflexivity|].
  destruct (find_block t bs); simpl; now rewrite IH.
Qed.

Lemma NoDup_ELEMENT_TYPES : NoDup ELEMENT_TYPES.
Proof.
  unfold ELEMENT_TYPES.
  repeat (constructor; [simpl; intros H; repeat (destruct H as [H|H]; [discriminate|]); exact H|]).
  constructor.
Qed.

(* a dict with the same keys as items bs (in that order) is its own items *)
Lemma items_same_keys bs bs' : map fst bs' = map fst (items bs) -> items bs' = bs'.
Proof.
  intros H. unfold items. eapply items_gen_fixed; [apply NoDup_ELEMENT_TYPES|].
  rewrite H. apply items_keys.
Qed.

(* ------------------------------------------------- sorting two lists alike *)
Section SortAlike.
Variable R : elem -> elem -> Prop.
Hypothesis Rfst : forall a b, R a b -> fst b = fst a.

Lemma insert_Forall2 e e' l l' :
  R e e' -> Forall2 R l l' -> Forall2 R (insert_elem e l) (insert_elem e' l').
Proof.
  intros He F. induction F as [|x y l l' Hxy F IH]; simpl.
  - constructor; [exact He|constructor].
  - rewrite (Rfst _ _ He), (Rfst _ _ Hxy).
    destruct (fst e <=? fst x)%Z; repeat (constructor; auto).
Qed.

Lemma isort_Forall2 l l' : Forall2 R l l' -> Forall2 R (isort l) (isort l').
Proof. intros F. induction F; simpl; [constructor|now apply insert_Forall2]. Qed.
End SortAlike.

Lemma Forall2_flat_map {A B C D} (P : A -> B -> Prop) (Q : C -> D -> Prop)
      (f : A -> list C) (g : B -> list D) l l' :
  (forall a b, In a l -> P a b -> Forall2 Q (f a) (g b)) ->
  Forall2 P l l' -> Forall2 Q (flat_map f l) (flat_map g l').
Proof.
  intros H F. induction F; simpl; [constructor|].
  apply Forall2_app.
  - apply H; [now left|assumption].
  - apply IHF. intros a b Ha. apply H. now right.
Qed.

(* ------------------------------------------------------- the truncation *)
(* e' is e truncated to its corner nodes, e being a row of block t *)
Definition trunc_of (bs : list block) (e e' : elem) : Prop :=
  fst e' = fst e /\
  exists t rows, In (t, rows) (items bs) /\ In e rows /\
                 first_order_conn t (snd e) = Some (snd e').

Lemma first_order_blocks_rel bs bs' :
  omap first_order_block (items bs) = Some bs' ->
  map fst bs' = map fst (items bs) /\
  Forall2 (fun b b' : block => fst b' = fst b /\ Forall2 (trunc_of bs) (snd b) (snd b'))
          (items bs) bs'.
Proof.
  intros H. apply omap_Forall2 in H.
  assert (F : Forall2 (fun b b' : block => fst b' = fst b /\ Forall2 (trunc_of bs) (snd b) (snd b'))
                      (items bs) bs').
  { eapply Forall2_imp; [|exact H]. intros [t rows] b' Hin Hb. simpl.
    unfold first_order_block in Hb. simpl in Hb.
    destruct (omap _ rows) as [rows'|] eqn:E; [|discriminate].
    simpl in Hb. inversion Hb; subst b'; clear Hb. simpl. split; [reflexivity|].
    apply omap_Forall2 in E. eapply Forall2_imp; [|exact E].
    intros e e' He Hc. simpl in Hc.
    destruct (first_order_conn t (snd e)) as [c'|] eqn:Ec; [|discriminate].
    simpl in Hc. inversion Hc; subst e'. split; [reflexivity|].
    exists t, rows. auto. }
  split; [|exact F].
  clear H. induction F as [|b b' l l' [Hk _] F IH]; simpl; [reflexivity|]. now rewrite Hk, IH.
Qed.

Lemma elems_of_first_order bs bs' :
  omap first_order_block (items bs) = Some bs' ->
  Forall2 (trunc_of bs) (elems_of bs) (elems_of bs').
Proof.
  intros H. destruct (first_order_blocks_rel _ _ H) as [Hk F].
  assert (Hit : items bs' = bs') by (apply (items_same_keys bs); exact Hk).
  assert (Hfl : Forall2 (trunc_of bs) (flat_map snd (items bs)) (flat_map snd bs')).
  { eapply Forall2_flat_map; [|exact F]. intros b b' _ [_ Hr]. exact Hr. }
  unfold elems_of. rewrite Hit.
  destruct F as [|[t b] [t' b'] l l' [Hk1 Hr1] F]; simpl in *.
  - constructor.
  - destruct F as [|p p' l l' Hp F]; simpl in *.
    + rewrite !app_nil_r in Hfl. exact Hfl.
    + apply isort_Forall2 with (R := trunc_of bs); [intros a b0 [Hf _]; exact Hf|exact Hfl].
Qed.

Lemma NoDup_nodupb l : NoDup l -> nodupb l = true.
Proof.
  induction l as [|x r IH]; simpl; intros H; [reflexivity|]. inversion H; subst.
  apply andb_true_iff. split; [|auto].
  destruct (zmem x r) eqn:E; [|reflexivity]. apply zmem_In in E. contradiction.
Qed.

Lemma Forall2_map_fst (bs : list block) l l' :
  Forall2 (trunc_of bs) l l' -> map fst l' = map fst l.
Proof. intros F. induction F as [|a b l l' [Hf _] F IH]; simpl; [reflexivity|]. now rewrite Hf, IH. Qed.

Lemma NoDup_app_r {A} (a b : list A) : NoDup (a ++ b) -> NoDup b.
Proof. induction a; simpl; intros H; [exact H|]. inversion H; auto. Qed.

Lemma NoDup_app_disjoint {A} (a b : list A) x : NoDup (a ++ b) -> In x a -> In x b -> False.
Proof.
  induction a as [|y a IH]; simpl; intros H Ha Hb; [contradiction|].
  apply NoDup_cons_iff in H. destruct H as [Hn H].
  destruct Ha as [->|Ha]; [apply Hn, in_app_iff; now right|eauto].
Qed.

(* distinct ids stay distinct *)
Lemma effective_ids_ok m o m' : ids_ok m = true -> effective m o = Some m' -> ids_ok m' = true.
Proof.
  unfold effective. intros Hok H. destruct o; [|now inversion H; subst].
  destruct (is_first_order (m_blocks m)); [now inversion H; subst|].
  destruct (omap first_order_block (items (m_blocks m))) as [bs'|] eqn:E; [|discriminate].
  inversion H; subst m'; clear H. unfold ids_ok in *. simpl.
  apply andb_true_iff in Hok. destruct Hok as [Hn He].
  apply andb_true_iff. split.
  - apply NoDup_nodupb. apply NoDup_filter. now apply nodupb_NoDup.
  - rewrite (Forall2_map_fst _ _ _ (elems_of_first_order _ _ E)). exact He.
Qed.

(* the incidence matrix with order1_only=True on a second-order mesh *)
Definition corner_ids (bs' : list block) : list Z :=
  flat_map (fun b : block => flat_map snd (snd b)) bs'.

Lemma incidence_order1_spec m Im :
  ids_ok m = true -> is_first_order (m_blocks m) = false -> incidence m true = Some Im ->
  exists bs', omap first_order_block (items (m_blocks m)) = Some bs' /\
    let rows := filter (fun n => zmem n (corner_ids bs')) (m_nodes m) in
    bnr Im = length rows /\ bnc Im = length (elems_of (m_blocks m)) /\
    forall i j, entry Im i j = true <->
      exists nid e e', nth_error rows i = Some nid /\
                       nth_error (elems_of (m_blocks m)) j = Some e /\
                       trunc_of (m_blocks m) e e' /\ In nid (snd e').
Proof.
  intros Hok Hfo HI.
  destruct (effective m true) as [m'|] eqn:Eeff; [|unfold incidence in HI; rewrite Eeff in HI; discriminate].
  destruct (effective_second_order _ _ Hfo Eeff) as [bs' [Ebs [Hb Hn]]].
  exists bs'. split; [exact Ebs|]. cbv zeta.
  assert (Hok' := effective_ids_ok _ _ _ Hok Eeff).
  destruct (incidence_spec _ _ _ _ Eeff Hok' HI) as (Hr & Hc & Hent).
  assert (F := elems_of_first_order _ _ Ebs).
  rewrite Hb in Hc. rewrite Hn in Hr. unfold corner_ids.
  split; [exact Hr|]. split; [rewrite Hc; symmetry; eapply Forall2_len; eauto|].
  intros i j. rewrite Hent. unfold belongs. rewrite Hn, Hb. split.
  - intros (nid & e' & H1 & H2 & H3).
    destruct (Forall2_nth_r _ _ _ _ _ F H2) as [e [He Ht]].
    exists nid, e, e'. auto.
  - intros (nid & e & e' & H1 & H2 & Ht & H3).
    destruct (Forall2_nth _ _ _ _ _ F H2) as [e'' [He'' Ht'']].
    assert (e'' = e').
    { destruct Ht as [Hf (t & rows & Hin & Hine & Hc1)].
      destruct Ht'' as [Hf' (t2 & rows2 & Hin2 & Hine2 & Hc2)].
      (* same element -> same block type -> same truncation *)
      assert (Hcases1 := first_order_conn_cases _ _ _ Hc1).
      assert (Hcases2 := first_order_conn_cases _ _ _ Hc2).
      destruct e' as [a c1], e'' as [a2 c2]. simpl in *. subst a a2. f_equal.
      (* t = t2: both blocks contain e and element ids are distinct over blocks *)
      assert (t = t2); [|subst t2; congruence].
      apply andb_true_iff in Hok. destruct Hok as [_ He].
      apply nodupb_NoDup in He.
      clear - Hin Hine Hin2 Hine2 He.
      assert (Hnd : NoDup (map fst (flat_map snd (items (m_blocks m))))).
      { assert (P : Permutation (elems_of (m_blocks m)) (flat_map snd (items (m_blocks m)))).
        { unfold elems_of. destruct (items (m_blocks m)) as [|[t0 b0] [|p r]]; simpl.
          - constructor. - rewrite app_nil_r. reflexivity. - apply isort_perm. }
        eapply Permutation_NoDup; [apply Permutation_map; exact P|exact He]. }
      revert Hin Hin2 Hnd. generalize (items (m_blocks m)) as its.
      induction its as [|[k b] r IH]; simpl; intros Hin Hin2 Hnd; [contradiction|].
      rewrite map_app in Hnd.
      destruct Hin as [Hin|Hin]; destruct Hin2 as [Hin2|Hin2].
      - congruence.
      - inversion Hin; subst k b. exfalso.
        assert (In (fst e) (map fst rows)) by now apply in_map.
        assert (In (fst e) (map fst (flat_map snd r))).
        { apply in_map. apply in_flat_map. exists (t2, rows2). auto. }
        eapply NoDup_app_disjoint; eauto.
      - inversion Hin2; subst k b. exfalso.
        assert (In (fst e) (map fst rows2)) by now apply in_map.
        assert (In (fst e) (map fst (flat_map snd r))).
        { apply in_map. apply in_flat_map. exists (t, rows). auto. }
        eapply NoDup_app_disjoint; eauto.
      - apply IH; auto. eapply NoDup_app_r; eauto. }
    subst e''. exists nid, e'. auto.
Qed.
