(* C13 — the mesh-level statements assembled from ProofsInc / ProofsGraph *)
From Coq Require Import String ZArith Bool Arith List Lia ZifyBool.
Import ListNotations.
From FV.C13 Require Import Model ProofsMat ProofsInc ProofsGraph.
Open Scope nat_scope.

Lemma incidence_bounded m o I : incidence m o = Some I -> bounded I.
Proof.
  unfold incidence. destruct (effective m o); [|discriminate].
  unfold incidence_of. destruct (inc_entries m0); [|discriminate].
  simpl. intros H. inversion H. apply bounded_bmk.
Qed.

Lemma incidence_spec m o m' I :
  effective m o = Some m' -> ids_ok m' = true -> incidence m o = Some I ->
  bnr I = length (m_nodes m') /\ bnc I = length (elems_of (m_blocks m')) /\
  forall i j, entry I i j = true <-> belongs m' i j.
Proof.
  unfold incidence. intros -> Hok H. now apply incidence_of_spec.
Qed.

Lemma incidence_defined m o m' :
  effective m o = Some m' ->
  (forall e nid, In e (elems_of (m_blocks m')) -> In nid (snd e) -> In nid (m_nodes m')) ->
  incidence m o <> None.
Proof. unfold incidence. intros -> H. now apply incidence_of_defined. Qed.

Lemma adjacency_inv m nodal o A :
  adjacency m nodal o = Some A ->
  exists I, incidence m o = Some I /\ A = (if nodal then adj_node_of I else adj_elem_of I).
Proof.
  unfold adjacency. destruct (incidence m o) as [I|]; [|discriminate].
  simpl. intros H. inversion H. exists I. destruct nodal; auto.
Qed.

Lemma adjacency_wf m nodal o A : adjacency m nodal o = Some A -> bounded A /\ square A.
Proof.
  intros H. apply adjacency_inv in H. destruct H as [I [_ ->]].
  destruct nodal; split; try apply bounded_bmk; reflexivity.
Qed.

Lemma adj_node_spec m o m' A :
  effective m o = Some m' -> ids_ok m' = true -> adjacency m true o = Some A ->
  bnr A = length (m_nodes m') /\ bnc A = length (m_nodes m') /\
  forall i k, entry A i k = true <-> exists j, belongs m' i j /\ belongs m' k j.
Proof.
  intros He Hok H. apply adjacency_inv in H. destruct H as [I [HI ->]].
  destruct (incidence_spec _ _ _ _ He Hok HI) as (Hr&Hc&Hent).
  split; [exact Hr|]. split; [exact Hr|].
  intros i k. rewrite adj_node_of_spec by (eapply incidence_bounded; eauto).
  split; intros [j [H1 H2]]; exists j; split; now apply Hent.
Qed.

Lemma adj_elem_spec m o m' A :
  effective m o = Some m' -> ids_ok m' = true -> adjacency m false o = Some A ->
  bnr A = length (elems_of (m_blocks m')) /\ bnc A = length (elems_of (m_blocks m')) /\
  forall j k, entry A j k = true <-> exists i, belongs m' i j /\ belongs m' i k.
Proof.
  intros He Hok H. apply adjacency_inv in H. destruct H as [I [HI ->]].
  destruct (incidence_spec _ _ _ _ He Hok HI) as (Hr&Hc&Hent).
  split; [exact Hc|]. split; [exact Hc|].
  intros j k. rewrite adj_elem_of_spec by (eapply incidence_bounded; eauto).
  split; intros [i [H1 H2]]; exists i; split; now apply Hent.
Qed.

(* ---- n-hop ---- *)
Definition reach (A : bmat) (n i j : nat) : Prop :=
  exists p, length p + 1 <= Nat.max n 1 /\ chain A i p j.

Lemma n_hop_inv m nodal n sl o zd H :
  n_hop m nodal n sl o zd = Some H ->
  exists A, adjacency m nodal (if nodal then o else false) = Some A /\
            H = (if sl then b2zmat (n_hop_bool A n)
                 else if zd then zero_diag (n_hop_bool A n) else minus_eye (n_hop_bool A n)).
Proof.
  unfold n_hop. destruct (adjacency m nodal _) as [A|]; [|discriminate].
  simpl. intros E. inversion E. exists A. destruct sl; auto.
Qed.

Lemma b2z_1 b : b2z b = 1%Z <-> b = true.
Proof. destruct b; simpl; split; intros; try reflexivity; try discriminate; lia. Qed.
Lemma b2z_0 b : b2z b = 0%Z <-> b = false.
Proof. destruct b; simpl; split; intros; try reflexivity; try discriminate; lia. Qed.

Lemma n_hop_self_loop_spec m nodal n o zd A H :
  adjacency m nodal (if nodal then o else false) = Some A ->
  n_hop m nodal n true o zd = Some H ->
  znr H = bnr A /\ znc H = bnr A /\
  forall i j, i < bnr A -> j < bnr A ->
    (zentry H i j = 1%Z <-> reach A n i j) /\ (zentry H i j = 0%Z <-> ~ reach A n i j).
Proof.
  intros HA HH. apply n_hop_inv in HH. destruct HH as [A' [HA' ->]].
  rewrite HA in HA'. inversion HA'; subst A'; clear HA'.
  destruct (adjacency_wf _ _ _ _ HA) as [Hb Hs].
  destruct (n_hop_bool_shape A n) as [S1 S2].
  split; [exact S1|]. split; [simpl; rewrite S2; symmetry; exact Hs|].
  intros i j Hi Hj. rewrite zentry_b2zmat by (rewrite ?S1, ?S2; unfold square in Hs; lia).
  unfold reach. rewrite <- n_hop_bool_reach by assumption.
  rewrite b2z_1, b2z_0. split; [tauto|]. destruct (entry (n_hop_bool A n) i j); split; congruence.
Qed.

Lemma n_hop_no_self_loop_spec m nodal n o A H :
  adjacency m nodal (if nodal then o else false) = Some A ->
  n_hop m nodal n false o false = Some H ->
  znr H = bnr A /\ znc H = bnr A /\
  (forall i j, i < bnr A -> j < bnr A -> i <> j ->
     (zentry H i j = 1%Z <-> reach A n i j) /\ (zentry H i j = 0%Z <-> ~ reach A n i j)) /\
  (forall i, i < bnr A -> entry A i i = true -> zentry H i i = 0%Z) /\
  (forall i, i < bnr A -> (forall j, entry A i j = false) -> zentry H i i = (-1)%Z).
Proof.
  intros HA HH. apply n_hop_inv in HH. destruct HH as [A' [HA' ->]].
  rewrite HA in HA'. inversion HA'; subst A'; clear HA'.
  destruct (adjacency_wf _ _ _ _ HA) as [Hb Hs].
  destruct (n_hop_bool_shape A n) as [S1 S2].
  split; [exact S1|]. split; [simpl; rewrite S2; symmetry; exact Hs|].
  assert (Hz : forall i j, i < bnr A -> j < bnr A ->
     zentry (minus_eye (n_hop_bool A n)) i j = (b2z (entry (n_hop_bool A n) i j) - delta i j)%Z).
  { intros i j Hi Hj. apply zentry_minus_eye; rewrite ?S1, ?S2; unfold square in Hs; lia. }
  split; [|split].
  - intros i j Hi Hj Hne. rewrite Hz by assumption. unfold delta.
    destruct (Nat.eqb_spec i j); [contradiction|].
    unfold reach. rewrite <- n_hop_bool_reach by assumption.
    replace (b2z (entry (n_hop_bool A n) i j) - 0)%Z with (b2z (entry (n_hop_bool A n) i j)) by lia.
    rewrite b2z_1, b2z_0. split; [tauto|]. destruct (entry (n_hop_bool A n) i j); split; congruence.
  - intros i Hi Hii. rewrite Hz by assumption. unfold delta. rewrite Nat.eqb_refl.
    assert (E : entry (n_hop_bool A n) i i = true).
    { apply n_hop_bool_reach; auto. exists []. simpl. split; [lia|exact Hii]. }
    rewrite E. reflexivity.
  - intros i Hi Hiso. rewrite Hz by assumption. unfold delta. rewrite Nat.eqb_refl.
    destruct (entry (n_hop_bool A n) i i) eqn:E; [|reflexivity].
    apply n_hop_bool_reach in E; auto. destruct E as [p [_ Hc]].
    destruct p as [|v p]; simpl in Hc; [|destruct Hc as [Hc _]]; rewrite Hiso in Hc; discriminate.
Qed.

(* the repaired variant: 0/1-valued reachability off the diagonal, 0 on it,
   for every mesh *)
Lemma n_hop_zero_diag_spec m nodal n o A H :
  adjacency m nodal (if nodal then o else false) = Some A ->
  n_hop m nodal n false o true = Some H ->
  znr H = bnr A /\ znc H = bnr A /\
  (forall i j, i < bnr A -> j < bnr A -> i <> j ->
     (zentry H i j = 1%Z <-> reach A n i j) /\ (zentry H i j = 0%Z <-> ~ reach A n i j)) /\
  (forall i, i < bnr A -> zentry H i i = 0%Z).
Proof.
  intros HA HH. apply n_hop_inv in HH. destruct HH as [A' [HA' ->]].
  rewrite HA in HA'. inversion HA'; subst A'; clear HA'.
  destruct (adjacency_wf _ _ _ _ HA) as [Hb Hs].
  destruct (n_hop_bool_shape A n) as [S1 S2].
  split; [exact S1|]. split; [simpl; rewrite S2; symmetry; exact Hs|].
  assert (Hz : forall i j, i < bnr A -> j < bnr A ->
     zentry (zero_diag (n_hop_bool A n)) i j =
       if Nat.eqb i j then 0%Z else b2z (entry (n_hop_bool A n) i j)).
  { intros i j Hi Hj. apply zentry_zero_diag; rewrite ?S1, ?S2; unfold square in Hs; lia. }
  split.
  - intros i j Hi Hj Hne. rewrite Hz by assumption.
    destruct (Nat.eqb_spec i j); [contradiction|].
    unfold reach. rewrite <- n_hop_bool_reach by assumption.
    rewrite b2z_1, b2z_0. split; [tauto|]. destruct (entry (n_hop_bool A n) i j); split; congruence.
  - intros i Hi. rewrite Hz by assumption. now rewrite Nat.eqb_refl.
Qed.

(* ---- Laplacian ---- *)
Lemma laplacian_spec m nodal o A L :
  adjacency m nodal o = Some A -> laplacian m nodal o = Some L ->
  znr L = bnr A /\ znc L = bnr A /\
  (forall i, i < bnr A -> zsum (zrow L i) = 0%Z) /\
  (forall i j, i < bnr A -> j < bnr A -> i <> j -> zentry L i j = b2z (entry A i j)) /\
  (forall i, i < bnr A -> zentry L i i = (- degree A i)%Z).
Proof.
  unfold laplacian. intros HA. rewrite HA. simpl. intros E. inversion E; subst L; clear E.
  destruct (adjacency_wf _ _ _ _ HA) as [Hb Hs]. unfold square in Hs.
  split; [reflexivity|]. split; [simpl; lia|]. split; [|split].
  - intros i Hi. now apply laplacian_rows_zero.
  - intros i j Hi Hj Hne. rewrite laplacian_entry; try assumption; try lia.
    destruct (Nat.eqb_spec i j); [contradiction|reflexivity].
  - intros i Hi. rewrite laplacian_entry; try assumption; try lia. now rewrite Nat.eqb_refl.
Qed.

(* ---- edge gradient ---- *)
Lemma edge_gradient_spec m nodal o tot A G :
  adjacency m nodal o = Some A -> edge_gradient m nodal o tot = Some G ->
  znr G = length (upper_edges A) /\ znc G = bnr A /\
  (forall k, k < znr G ->
     exists r c, nth_error (upper_edges A) k = Some (r, c) /\ r < c /\ entry A r c = true /\
       forall v, v < bnr A ->
         zentry G k v = if Nat.eqb v r then 1%Z else if Nat.eqb v c then (-1)%Z else 0%Z) /\
  (forall r c, entry A r c = true -> r < c ->
     exists k, nth_error (upper_edges A) k = Some (r, c) /\
       forall k', nth_error (upper_edges A) k' = Some (r, c) -> k' = k).
Proof.
  unfold edge_gradient. intros HA. rewrite HA.
  assert (X : Some (edge_gradient_of A) = Some G ->
    znr G = length (upper_edges A) /\ znc G = bnr A /\
    (forall k, k < znr G ->
       exists r c, nth_error (upper_edges A) k = Some (r, c) /\ r < c /\ entry A r c = true /\
         forall v, v < bnr A ->
           zentry G k v = if Nat.eqb v r then 1%Z else if Nat.eqb v c then (-1)%Z else 0%Z) /\
    (forall r c, entry A r c = true -> r < c ->
       exists k, nth_error (upper_edges A) k = Some (r, c) /\
         forall k', nth_error (upper_edges A) k' = Some (r, c) -> k' = k)).
  { intros E. inversion E; subst G; clear E.
    destruct (adjacency_wf _ _ _ _ HA) as [Hb Hs].
    split; [reflexivity|]. split; [reflexivity|]. split.
    - intros k Hk. now apply edge_gradient_row.
    - intros r c. now apply edge_gradient_edge. }
  destruct tot; [exact X|].
  intros E. apply X. destruct (upper_edges A); [discriminate|exact E].
Qed.

(* the repaired variant is defined on every graph *)
Lemma edge_gradient_total m nodal o A :
  adjacency m nodal o = Some A -> edge_gradient m nodal o true = Some (edge_gradient_of A).
Proof. unfold edge_gradient. now intros ->. Qed.

(* the graph has no edge r < c exactly when the code raises *)
Lemma edge_gradient_none m nodal o A :
  adjacency m nodal o = Some A ->
  (edge_gradient m nodal o false = None <-> forall r c, entry A r c = true -> ~ r < c).
Proof.
  unfold edge_gradient. intros HA. rewrite HA.
  destruct (adjacency_wf _ _ _ _ HA) as [Hb Hs]. split.
  - destruct (upper_edges A) eqn:Eu; [|discriminate]. intros _ r c He Hlt.
    destruct (Hb _ _ He). assert (In (r, c) (upper_edges A)) by (apply in_upper_edges; auto).
    rewrite Eu in H1. contradiction.
  - intros H. destruct (upper_edges A) as [|[r c] l] eqn:Eu; [reflexivity|].
    assert (Hin : In (r, c) (upper_edges A)) by (rewrite Eu; now left).
    apply in_upper_edges in Hin. destruct Hin as (_&_&He&Hlt). exfalso. eapply H; eauto.
Qed.

(* ---- e2v ---- *)
Lemma e2v_spec m nodal sl st A E :
  adjacency m nodal false = Some A -> e2v m nodal sl st = Some E ->
  znr E = bnr A /\ znc E = length (e2v_edges A sl st) /\
  NoDup (e2v_edges A sl st) /\
  (forall k, k < znc E ->
     exists r c, nth_error (e2v_edges A sl st) k = Some (r, c) /\
       forall v, v < bnr A -> zentry E v k = if Nat.eqb v r then 1%Z else 0%Z) /\
  (forall r c, In (r, c) (e2v_edges A sl st) <->
     r < bnr A /\ c < bnr A /\
     if sl then entry A r c = true
     else if st then r <> c /\ entry A r c = true
     else (r <> c /\ entry A r c = true) \/ (r = c /\ entry A r r = false)).
Proof.
  unfold e2v. intros HA. rewrite HA. simpl. intros X. inversion X; subst E; clear X.
  destruct (adjacency_wf _ _ _ _ HA) as [Hb Hs]. unfold square in Hs.
  destruct (e2v_shape A sl st) as [S1 S2].
  split; [exact S1|]. split; [exact S2|]. split; [apply NoDup_e2v_edges|]. split.
  - intros k Hk. rewrite S2 in Hk. now apply e2v_column.
  - intros r c. destruct sl; [|destruct st].
    + rewrite in_e2v_edges_loop. rewrite <- Hs. tauto.
    + rewrite in_e2v_edges_strict. rewrite <- Hs. tauto.
    + rewrite in_e2v_edges_noloop. rewrite <- Hs. tauto.
Qed.
