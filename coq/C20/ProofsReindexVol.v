(* C20 — when no vertices were merged (node_conv is still the identity),
   reindex + recalc_node_pos keep every cell's volume: the renumbered mesh
   with the recomputed node table has the same volume as the input. *)
From Coq Require Import List ZArith Bool Arith Lia Reals.
Import ListNotations.
From FV.C20 Require Import Model ModelReindex ProofsCanon ProofsCheck ProofsReindex ProofsVol.
Open Scope Z_scope.

(* --------------------------------------- volume under renaming of the nodes *)
Section Rename.
  Context {T : Type} (O : Ops T).
  Variables (pos pos' : Z -> V3 T) (phi : Z -> Z).

  Lemma fvol6_rename : forall f, (forall v, In v f -> pos' (phi v) = pos v) ->
    fvol6 O pos' (map phi f) = fvol6 O pos f.
  Proof.
    intros f H. unfold fvol6.
    assert (C : centroid O pos' (map phi f) = centroid O pos f).
    { unfold centroid. rewrite map_length, map_map. f_equal. f_equal.
      apply map_ext_in. exact H. }
    rewrite C, edges_map, map_map. f_equal. apply map_ext_in.
    intros [a b] Hin. simpl. apply in_edges_in in Hin. destruct Hin as [Ha Hb].
    rewrite (H a Ha), (H b Hb). reflexivity.
  Qed.

  Lemma vol_rename : forall p, (forall v, In v (pnodes p) -> pos' (phi v) = pos v) ->
    vol O pos' (map (map phi) p) = vol O pos p.
  Proof.
    intros p H. unfold vol, vol6. rewrite map_map. f_equal. f_equal.
    apply map_ext_in. intros f Hf. apply fvol6_rename.
    intros v Hv. apply H. unfold pnodes. apply in_concat. exists f. split; assumption.
  Qed.

  Lemma total_vol_rename : forall ps, (forall v, In v (all_nodes ps) -> pos' (phi v) = pos v) ->
    total_vol O pos' (rename phi ps) = total_vol O pos ps.
  Proof.
    intros ps H. unfold total_vol, rename. rewrite map_map. f_equal.
    apply map_ext_in. intros p Hp. apply vol_rename.
    intros v Hv. apply H. unfold all_nodes. apply in_concat. exists (pnodes p).
    split; [apply in_map; exact Hp | exact Hv].
  Qed.
End Rename.

(* ------------------------------------------------------------- list facts *)
Lemma filter_unique : forall (P : Z -> bool) l u, NoDup l -> In u l -> P u = true ->
  (forall v, In v l -> P v = true -> v = u) -> filter P l = [u].
Proof.
  induction l as [|a l IH]; intros u Hnd Hin Hu Huniq; [destruct Hin|].
  inversion Hnd as [|? ? Hn1 Hn2]; subst. simpl.
  destruct Hin as [E|Hin].
  - subst a. rewrite Hu. f_equal.
    assert (forall v, In v l -> P v = false).
    { intros v Hv. destruct (P v) eqn:Pv; [|reflexivity].
      assert (v = u) by (apply Huniq; [right; exact Hv | exact Pv]). subst. contradiction. }
    clear -H. induction l as [|b l IHl]; [reflexivity|]. simpl.
    rewrite (H b) by (left; reflexivity). apply IHl. intros v Hv. apply H. right. exact Hv.
  - destruct (P a) eqn:Pa.
    + assert (a = u) by (apply Huniq; [left; reflexivity | exact Pa]). subst. contradiction.
    + apply IH; auto. intros v Hv Pv. apply Huniq; [right; exact Hv | exact Pv].
Qed.

Lemma combine_map_self : forall (g : Z -> Z) l, combine l (map g l) = map (fun v => (v, g v)) l.
Proof. induction l as [|a l IH]; simpl; [reflexivity | rewrite IH; reflexivity]. Qed.

Lemma zrange_length : forall n, length (zrange (Z.of_nat n)) = n.
Proof. intros n. unfold zrange. rewrite map_length, seq_length. lia. Qed.

(* identity node_conv: every node is its own root *)
Lemma root_id : forall n fuel v, 0 <= v ->
  root (zrange (Z.of_nat n)) fuel v = v.
Proof.
  intros n fuel v Hv. destruct fuel as [|fuel]; [reflexivity|]. simpl.
  assert (E : nth (Z.to_nat v) (zrange (Z.of_nat n)) v = v).
  { unfold zrange. rewrite Nat2Z.id.
    destruct (Nat.lt_ge_cases (Z.to_nat v) n) as [L|G].
    - rewrite (nth_indep _ v 0) by (rewrite map_length, seq_length; exact L).
      change 0 with (Z.of_nat 0). rewrite map_nth, seq_nth by exact L. lia.
    - apply nth_overflow. rewrite map_length, seq_length. exact G. }
  rewrite E, Z.eqb_refl. reflexivity.
Qed.

Section ReindexVol.
  Variable ps : list poly.
  Variable n : nat.
  Let conv := zrange (Z.of_nat n).
  Let N := Z.of_nat n.
  Let t := assign (used_b ps) (zrange N) 0.
  Let phi := new_id t.
  Hypothesis Hrange : forall v, In v (all_nodes ps) -> 0 <= v < N.

  Lemma len_conv : Z.of_nat (length conv) = N.
  Proof. unfold conv. rewrite zrange_length. reflexivity. Qed.

  Lemma Hrange' : forall v, In v (all_nodes ps) -> 0 <= v < Z.of_nat (length conv).
  Proof. intros v Hv. rewrite len_conv. apply Hrange. exact Hv. Qed.

  Lemma r_faces_id : r_faces (reindex ps conv) = rename phi ps.
  Proof. unfold reindex. simpl. rewrite len_conv. reflexivity. Qed.

  Lemma r_conv_id : r_conv (reindex ps conv) =
    map (fun v => if used_b ps v then phi v else -1) (zrange N).
  Proof.
    unfold reindex. simpl. rewrite len_conv. fold t. apply map_ext_in.
    intros v Hv. apply zrange_iff in Hv. unfold conv. rewrite root_id by lia. reflexivity.
  Qed.

  Lemma members_id : forall u, In u (all_nodes ps) ->
    members (r_conv (reindex ps conv)) (phi u) = [u].
  Proof.
    intros u Hu. unfold members. rewrite r_conv_id, map_length. unfold N at 1.
    rewrite zrange_length. fold N. rewrite combine_map_self.
    set (g := fun v => if used_b ps v then phi v else -1).
    assert (F : forall l, map fst (filter (fun vc : Z * Z => snd vc =? phi u)
                                          (map (fun v => (v, g v)) l))
                          = filter (fun v => g v =? phi u) l).
    { induction l as [|a l IH]; [reflexivity|]. simpl.
      destruct (g a =? phi u); simpl; rewrite IH; reflexivity. }
    rewrite F.
    destruct (used_in_t ps conv Hrange' u Hu) as (k & _ & Ek & Hk).
    rewrite len_conv in Ek. fold t in Ek. fold phi in Ek.
    apply filter_unique.
    - apply zrange_nodup.
    - apply zrange_iff. apply Hrange. exact Hu.
    - unfold g. assert (U : used_b ps u = true) by (apply zmem_iff; exact Hu).
      rewrite U. apply Z.eqb_refl.
    - intros v Hv Pv. unfold g in Pv. destruct (used_b ps v) eqn:U.
      + apply Z.eqb_eq in Pv. apply zmem_iff in U.
        pose proof (reindex_injective ps conv Hrange' v u U Hu) as Inj.
        rewrite len_conv in Inj. apply Inj. exact Pv.
      + apply Z.eqb_eq in Pv. lia.
  Qed.

  Variable pos : Z -> V3 R.

  Lemma recalc_pos_id : forall u, In u (all_nodes ps) ->
    recalc_pos ROps pos (r_conv (reindex ps conv)) (phi u) = pos u.
  Proof.
    intros u Hu. unfold recalc_pos. rewrite (members_id u Hu). simpl.
    destruct (pos u) as [[a b] c]. simpl. unfold Rdiv. f_equal; [f_equal|]; field.
  Qed.

  Theorem reindex_volume_id :
    total_vol ROps (recalc_pos ROps pos (r_conv (reindex ps conv))) (r_faces (reindex ps conv))
    = total_vol ROps pos ps.
  Proof.
    rewrite r_faces_id. apply total_vol_rename. exact recalc_pos_id.
  Qed.
End ReindexVol.
