(* C20 — instances of the cancellation theorem: edge balance (Z) and
   enclosed volume (any commutative ring; used over R). *)
From Coq Require Import List ZArith Bool Arith Lia Permutation Ring Reals Lra.
Import ListNotations.
From FV.C20 Require Import Model ProofsCanon ProofsMerge.

(* ================================================================ balance *)
Open Scope Z_scope.

Definition wedge (a b : Z) (f : face) : Z :=
  Z.of_nat (ecount (a, b) (edges f)) - Z.of_nat (ecount (b, a) (edges f)).

Lemma ecount_perm : forall e l l', Permutation l l' -> ecount e l = ecount e l'.
Proof. intros e l l' H. unfold ecount. apply (Permutation_count_occ ZZ_eq_dec); exact H. Qed.

Lemma ecount_swap : forall a b l, ecount (a, b) (map swap l) = ecount (b, a) l.
Proof.
  intros a b l. unfold ecount. induction l as [|[x y] l IH]; [reflexivity|].
  simpl map. unfold swap at 1. simpl fst; simpl snd.
  destruct (ZZ_eq_dec (y, x) (a, b)) as [E|N].
  - inversion E; subst. rewrite !count_occ_cons_eq by reflexivity. rewrite IH. reflexivity.
  - rewrite count_occ_cons_neq by exact N. rewrite count_occ_cons_neq; [exact IH|].
    intros E'. inversion E'; subst. apply N. reflexivity.
Qed.

Lemma wedge_class : forall a b f g, canon f = canon g -> wedge a b f = wedge a b g.
Proof.
  intros a b f g E. unfold wedge.
  assert (P : Permutation (edges f) (edges g)).
  { eapply Permutation_trans; [apply Permutation_sym, canon_edges|]. rewrite E. apply canon_edges. }
  rewrite (ecount_perm _ _ _ P), (ecount_perm (b, a) _ _ P). reflexivity.
Qed.

Lemma wedge_odd : forall a b f, wedge a b (rev f) = - wedge a b f.
Proof.
  intros a b f. unfold wedge.
  rewrite (ecount_perm _ _ _ (edges_rev f)), (ecount_perm (b, a) _ _ (edges_rev f)).
  rewrite !ecount_swap. lia.
Qed.

Lemma sum_wedge : forall a b p,
  sumT ZOps (map (wedge a b) p) =
  Z.of_nat (ecount (a, b) (pedges p)) - Z.of_nat (ecount (b, a) (pedges p)).
Proof.
  intros a b p. induction p as [|f p IH]; [reflexivity|].
  simpl. unfold pedges in *. simpl flat_map. unfold ecount in *.
  rewrite !count_occ_app, IH. unfold wedge, ecount. lia.
Qed.

Lemma balanced_iff : forall p, balanced p <-> forall a b, sumT ZOps (map (wedge a b) p) = 0.
Proof.
  intros p. unfold balanced. split; intros H a b.
  - rewrite sum_wedge, (H a b). lia.
  - specialize (H a b). rewrite sum_wedge in H. lia.
Qed.

Lemma Z_tf : forall x : Z, x + x = 0 -> x = 0. Proof. intros; lia. Qed.

Lemma merge_faces_balanced : forall fs, Forall (@NoDup Z) fs ->
  balanced fs -> balanced (merge_faces fs).
Proof.
  intros fs Hnd Hb. apply balanced_iff. intros a b.
  pose proof (merge_sum Z ZOps InitialRing.Zth Z_tf (wedge a b)
                (wedge_class a b) (wedge_odd a b) fs Hnd) as E.
  unfold sumw in E. rewrite E. apply balanced_iff. exact Hb.
Qed.

Lemma pedges_concat : forall ps, pedges (concat ps) = flat_map pedges ps.
Proof.
  induction ps as [|p ps IH]; [reflexivity|].
  simpl. unfold pedges in *. rewrite flat_map_app, IH. reflexivity.
Qed.

Lemma balanced_concat : forall ps, Forall balanced ps -> balanced (concat ps).
Proof.
  intros ps H a b. rewrite pedges_concat.
  induction H as [|p ps Hp _ IH]; [reflexivity|].
  simpl. unfold ecount. rewrite !count_occ_app. f_equal; [apply Hp | apply IH].
Qed.

Lemma balanced_edge_closed : forall p, balanced p -> edge_closed p.
Proof.
  intros p H a b Hin. unfold balanced, ecount in H.
  apply (count_occ_In ZZ_eq_dec). rewrite <- (H a b). apply (count_occ_In ZZ_eq_dec). exact Hin.
Qed.

Lemma Forall_concat : forall (A : Type) (P : A -> Prop) (ls : list (list A)),
  Forall (Forall P) ls -> Forall P (concat ls).
Proof.
  intros A P ls H. induction H; simpl; [constructor|]. apply Forall_app. split; assumption.
Qed.

Theorem merge_wf : forall ps, Forall wf_poly ps -> wf_poly (merge ps).
Proof.
  intros ps H. unfold merge.
  assert (Hok : Forall face_ok (concat ps)).
  { apply Forall_concat. eapply Forall_impl; [|exact H]. intros p [Hp _]. exact Hp. }
  split.
  - rewrite Forall_forall in *. intros f Hf. apply Hok. apply merge_faces_incl. exact Hf.
  - apply merge_faces_balanced.
    + eapply Forall_impl; [|exact Hok]. intros f [Hf _]. exact Hf.
    + apply balanced_concat. eapply Forall_impl; [|exact H]. intros p [_ Hp]. exact Hp.
Qed.

Lemma wf_closed : forall p, wf_poly p -> closed p.
Proof. intros p [H1 H2]. split; [exact H1 | apply balanced_edge_closed; exact H2]. Qed.

Theorem merge_closed : forall ps, Forall wf_poly ps -> closed (merge ps).
Proof. intros ps H. apply wf_closed, merge_wf, H. Qed.

(* nodes of the merged cell are nodes of the inputs *)
Theorem merge_nodes : forall ps v, In v (pnodes (merge ps)) -> exists p, In p ps /\ In v (pnodes p).
Proof.
  intros ps v H. unfold pnodes, merge in *. apply in_concat in H.
  destruct H as (f & Hf & Hv). apply merge_faces_incl in Hf. apply in_concat in Hf.
  destruct Hf as (p & Hp & Hfp). exists p. split; [exact Hp|]. apply in_concat. exists f. tauto.
Qed.

(* ================================================================= volume *)
Close Scope Z_scope.

Section Vol.
  Variable T : Type.
  Variable Os : Ops T.
  Hypothesis rt : ring_theory (zero Os) (one Os) (add Os) (mul Os) (sub Os) (opp Os) eq.
  Add Ring Tring2 : rt.
  Variable pos : Z -> V3 T.

  Lemma vadd_comm : forall u v, vadd Os u v = vadd Os v u.
  Proof. intros [[a b] c] [[d e] f]. unfold vadd. f_equal; [f_equal|]; ring. Qed.
  Lemma vadd_assoc : forall u v x, vadd Os u (vadd Os v x) = vadd Os (vadd Os u v) x.
  Proof. intros [[a b] c] [[d e] f] [[g h] i]. unfold vadd. f_equal; [f_equal|]; ring. Qed.

  Lemma vsum_perm : forall l l', Permutation l l' -> vsum Os l = vsum Os l'.
  Proof.
    induction 1; simpl; try congruence.
    rewrite !vadd_assoc, (vadd_comm y x). reflexivity.
  Qed.

  Lemma centroid_perm : forall f g, Permutation f g -> centroid Os pos f = centroid Os pos g.
  Proof.
    intros f g P. unfold centroid.
    rewrite (vsum_perm _ _ (Permutation_map pos P)), (Permutation_length P). reflexivity.
  Qed.

  Lemma det3_swap : forall c a b, det3 Os c b a = opp Os (det3 Os c a b).
  Proof. intros [[c0 c1] c2] [[a0 a1] a2] [[b0 b1] b2]. unfold det3. ring. Qed.

  Lemma fvol6_perm : forall f g, Permutation f g -> Permutation (edges f) (edges g) ->
    fvol6 Os pos f = fvol6 Os pos g.
  Proof.
    intros f g P PE. unfold fvol6. rewrite (centroid_perm f g P).
    apply (sumT_perm T Os rt). apply Permutation_map. exact PE.
  Qed.

  Lemma fvol6_class : forall f g, canon f = canon g -> fvol6 Os pos f = fvol6 Os pos g.
  Proof.
    intros f g E. apply fvol6_perm.
    - eapply Permutation_trans; [apply Permutation_sym, canon_perm|]. rewrite E. apply canon_perm.
    - eapply Permutation_trans; [apply Permutation_sym, canon_edges|]. rewrite E. apply canon_edges.
  Qed.

  Lemma fvol6_odd : forall f, fvol6 Os pos (rev f) = opp Os (fvol6 Os pos f).
  Proof.
    intros f. unfold fvol6.
    rewrite (centroid_perm (rev f) f (Permutation_sym (Permutation_rev f))).
    rewrite (sumT_perm T Os rt _ _ (Permutation_map _ (edges_rev f))).
    rewrite map_map. rewrite <- (sumT_map_opp T Os rt).
    f_equal. apply map_ext. intros [a b]. unfold swap. simpl. apply det3_swap.
  Qed.

  Hypothesis tf : forall x, add Os x x = zero Os -> x = zero Os.

  Lemma vol6_concat : forall ps, vol6 Os pos (concat ps) = sumT Os (map (vol6 Os pos) ps).
  Proof.
    induction ps as [|p ps IH]; [reflexivity|].
    simpl. unfold vol6 in *. rewrite map_app, (sumT_app T Os rt), IH. reflexivity.
  Qed.

  Theorem merge_vol6 : forall ps, Forall (Forall (@NoDup Z)) ps ->
    vol6 Os pos (merge ps) = sumT Os (map (vol6 Os pos) ps).
  Proof.
    intros ps H. rewrite <- vol6_concat. unfold merge.
    exact (merge_sum T Os rt tf (fvol6 Os pos) fvol6_class fvol6_odd (concat ps)
             (Forall_concat _ _ _ H)).
  Qed.
End Vol.

(* ------------------------------------------------------------ over R *)
Open Scope R_scope.

Definition ROps : Ops R := mkOps R 0 1 Rplus Rmult Rminus Ropp Rdiv IZR.

Lemma R_tf : forall x : R, x + x = 0 -> x = 0. Proof. intros; lra. Qed.

Lemma sumT_div : forall (l : list R) d, sumT ROps (map (fun x => x / d) l) = sumT ROps l / d.
Proof.
  induction l as [|a l IH]; intros d; simpl.
  - unfold Rdiv. ring.
  - rewrite IH. unfold Rdiv. ring.
Qed.

Theorem merge_volume : forall (pos : Z -> V3 R) ps, Forall (Forall (@NoDup Z)) ps ->
  vol ROps pos (merge ps) = total_vol ROps pos ps.
Proof.
  intros pos ps H. unfold total_vol, vol.
  rewrite (merge_vol6 R ROps RTheory pos R_tf ps H).
  change (div ROps) with Rdiv. change (of_Z ROps 6) with 6.
  rewrite <- sumT_div, map_map. reflexivity.
Qed.
