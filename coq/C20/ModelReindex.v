(* C20 — model of reindex / recalc_node_pos (mesh_compressor.py:555-636) and of
   remove_one_edge_from_polyhedron (764-846).  Definitions only. *)
From Coq Require Import List ZArith Bool Arith Lia.
Import ListNotations.
From FV.C20 Require Import Model.
Open Scope Z_scope.

(* isin[v] *)
Definition used_b (ps : list poly) (v : Z) : bool := zmem v (all_nodes ps).

(* new_ids: nodes that occur in a face are numbered 0,1,2,.. in increasing
   node index; the loop `for v in range(N): if isin[v]: new_ids[v] = nxt_idx++` *)
Fixpoint assign (used : Z -> bool) (vs : list Z) (next : Z) : list (Z * Z) :=
  match vs with
  | [] => []
  | v :: r => if used v then (v, next) :: assign used r (next + 1) else assign used r next
  end.
Fixpoint lookup (v : Z) (t : list (Z * Z)) : option Z :=
  match t with
  | [] => None
  | (a, k) :: r => if a =? v then Some k else lookup v r
  end.
Definition new_id (t : list (Z * Z)) (v : Z) : Z :=
  match lookup v t with Some k => k | None => -1 end.

(* the `while True` pointer-jumping loop ends with node_conv[v] = root of v
   (node_conv[b] = a was set when b was merged into a; roots point to
   themselves) *)
Fixpoint root (conv : list Z) (fuel : nat) (v : Z) : Z :=
  match fuel with
  | O => v
  | S n => let p := nth (Z.to_nat v) conv v in if p =? v then v else root conv n p
  end.

Definition zmax_list (l : list Z) : Z := fold_right Z.max (-1) l.

Definition rename (phi : Z -> Z) (ps : list poly) : list poly := map (map (map phi)) ps.

Record reindexed := mkReindexed { r_faces : list poly; r_conv : list Z; r_K : Z }.

Definition reindex (ps : list poly) (conv : list Z) : reindexed :=
  let N := length conv in
  let t := assign (used_b ps) (zrange (Z.of_nat N)) 0 in
  let conv' := map (fun v => let r := root conv N v in
                             if used_b ps r then new_id t r else -1) (zrange (Z.of_nat N)) in
  mkReindexed (rename (new_id t) ps) conv' (zmax_list conv' + 1).

(* recalc_node_pos: K = node_conv.max() + 1 positions, each the mean of the
   original positions mapped to it *)
Section Pos.
  Context {T : Type} (O : Ops T).
  Definition members (conv' : list Z) (k : Z) : list Z :=
    map fst (filter (fun vc => snd vc =? k)
                    (combine (zrange (Z.of_nat (length conv'))) conv')).
  Definition recalc_pos (pos : Z -> V3 T) (conv' : list Z) (k : Z) : V3 T :=
    let ms := members conv' k in
    vdiv O (vsum O (map pos ms)) (of_Z O (Z.of_nat (length ms))).
End Pos.
