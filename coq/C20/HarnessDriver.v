(* C20 — executable model of one pass of remove_edges (before shrink) and its
   checks, evaluated by the harness on the merged cells of real runs. *)
From Coq Require Import List ZArith Bool QArith Qabs.
Import ListNotations.
From FV.C20 Require Import Model ModelReindex ModelEdge ModelDriver Harness.
Open Scope Z_scope.

(* state: current cells, and whether every accepted fusion so far was coplanar
   (planar_b on the faces fused in each cell = steps_planar of
   C20_remove_edges_total_volume, decided exactly) *)
Definition driver_step (tbl : list (V3 Q)) (thr : Q) (cells0 : list poly)
           (st : list poly * bool) (e : Z * Z) : list poly * bool :=
  let '(cur, pl) := st in
  let '(a, b) := e in
  if admitted_b tbl thr cells0 a b then
    let res := map2o (fun p0 p => if emem (a, b) (pedges p0) then remove_one_edge p a b else Some p)
                     cells0 cur in
    if forallb is_some res then
      (map oget res, pl && forallb (fun p => planar_b tbl (fused_nodes p a b)) cur)
    else st
  else st.

Definition driver_pass (tbl : list (V3 Q)) (thr : Q) (cells : list poly) : list poly * bool :=
  fold_left (driver_step tbl thr cells) (pass_edges cells) (cells, true).

(* shrink: cells with fewer than three faces vanish *)
Definition shrink_cells (cells : list poly) : list poly :=
  filter (fun p => (2 <? length p)%nat) cells.

(* the float comparison cos_val >= THRESH may differ from the exact one only
   if some tested cosine is within 1e-9 (relative, squared) of the threshold *)
Definition near_thr_b (tbl : list (V3 Q)) (thr : Q) (cells : list poly) : bool :=
  existsb (fun p => existsb (fun e =>
    match edge_normal tbl p e, edge_normal tbl p (swap e) with
    | Some u, Some v =>
        let d := dotv QOps u v in
        let r := (thr * thr * dotv QOps u u * dotv QOps v v)%Q in
        negb (Qle_bool d 0) && Qle_bool (Qabs (d * d - r)%Q) ((1 # 1000000000) * r)%Q
    | _, _ => false
    end) (pedges p)) cells.

Definition chk_driver (tbl : list (V3 Q)) (thr : Q) (cells out : list poly) : bool :=
  near_thr_b tbl thr cells || polys_eqb (shrink_cells (fst (driver_pass tbl thr cells))) out.
Definition driver_planar (tbl : list (V3 Q)) (thr : Q) (cells : list poly) : bool :=
  snd (driver_pass tbl thr cells).
