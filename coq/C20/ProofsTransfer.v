(* C20 — data transfer with boolean matrices: "mean" keeps constants,
   "sum" (as documented) keeps the grand total; the broadcast the code
   actually performs for (N,1) data does not. *)
From Coq Require Import List ZArith Bool Arith Lia Reals Lra Field.
Import ListNotations.
From FV.C20 Require Import Model ProofsVol.
Open Scope R_scope.

Definition n2R (n : nat) : R := nat2T ROps n.

Lemma n2R_IZR : forall n, n2R n = IZR (Z.of_nat n). Proof. reflexivity. Qed.

Lemma n2R_S : forall n, n2R (S n) = 1 + n2R n.
Proof. intros n. rewrite !n2R_IZR, Nat2Z.inj_succ, succ_IZR. ring. Qed.

Lemma n2R_0 : n2R 0 = 0. Proof. reflexivity. Qed.

Lemma n2R_pos : forall n, (0 < n)%nat -> n2R n <> 0.
Proof. intros n H. rewrite n2R_IZR. apply not_0_IZR. lia. Qed.

Lemma n2R_plus : forall a b, n2R (a + b) = n2R a + n2R b.
Proof. intros. rewrite !n2R_IZR, Nat2Z.inj_add, plus_IZR. reflexivity. Qed.

(* ------------------------------------------------------------------ mean *)
Lemma rowsum_cons : forall b r, rowsum (b :: r) = ((if b then 1 else 0) + rowsum r)%nat.
Proof. intros [|] r; unfold rowsum; simpl; reflexivity. Qed.

Lemma dot_const : forall r n c, length r = n ->
  dot ROps r (repeat c n) = n2R (rowsum r) * c.
Proof.
  induction r as [|b r IH]; intros n c H.
  - change (0 = n2R 0 * c). rewrite n2R_0. ring.
  - destruct n as [|n]; [discriminate|]. simpl in H. injection H as H.
    simpl repeat. simpl dot. rewrite (IH n c H), rowsum_cons.
    destruct b; simpl add; simpl zero.
    + change (1 + rowsum r)%nat with (S (rowsum r)). rewrite n2R_S. ring.
    + simpl plus. ring.
Qed.

Theorem mean_preserves_const : forall (A : bmat) (n : nat) (c : R),
  Forall (fun r => length r = n /\ (0 < rowsum r)%nat) A ->
  mean_tr ROps A (repeat c n) = repeat c (length A).
Proof.
  intros A n c H. induction H as [|r A [Hl Hr] _ IH]; [reflexivity|].
  simpl. f_equal; [|exact IH].
  rewrite (dot_const r n c Hl). change (div ROps) with Rdiv. rewrite <- ?n2R_IZR.
  field. apply n2R_pos. exact Hr.
Qed.

(* ------------------------------------------------------------------- sum *)
Fixpoint dotn (w : list nat) (z : list R) : R :=
  match w, z with
  | a :: w', b :: z' => n2R a * b + dotn w' z'
  | _, _ => 0
  end.

Lemma dot_row_nat : forall r z, dot ROps r z = dotn (row_nat r) z.
Proof.
  induction r as [|b r IH]; intros [|a z]; simpl; try reflexivity.
  rewrite IH. destruct b.
  - rewrite n2R_S, n2R_0. ring.
  - rewrite n2R_0. ring.
Qed.

Lemma dotn_vplus : forall u v z, length u = length z -> length v = length z ->
  dotn (vplus u v) z = dotn u z + dotn v z.
Proof.
  induction u as [|a u IH]; intros [|b v] [|c z] Hu Hv; simpl in *; try discriminate; try ring.
  rewrite IH by lia. rewrite n2R_plus. ring.
Qed.

Lemma dotn_zero : forall n z, dotn (repeat 0%nat n) z = 0.
Proof.
  induction n as [|n IH]; intros [|a z]; simpl; try reflexivity.
  rewrite IH, n2R_0. ring.
Qed.

Lemma vplus_length : forall u v, length u = length v -> length (vplus u v) = length u.
Proof. induction u as [|a u IH]; intros [|b v] H; simpl in *; try discriminate; auto. Qed.

Lemma row_nat_length : forall r, length (row_nat r) = length r.
Proof. intros; unfold row_nat; apply map_length. Qed.

Lemma colsums_length : forall n A, Forall (fun r => length r = n) A -> length (colsums n A) = n.
Proof.
  intros n A H. induction H as [|r A Hr _ IH]; simpl.
  - apply repeat_length.
  - rewrite vplus_length; rewrite row_nat_length; congruence.
Qed.

Lemma sum_rows_dot : forall A z, Forall (fun r => length r = length z) A ->
  sumT ROps (map (fun r => dot ROps r z) A) = dotn (colsums (length z) A) z.
Proof.
  intros A z H. induction H as [|r A Hr HA IH]; simpl.
  - rewrite dotn_zero. reflexivity.
  - rewrite IH, dot_row_nat, dotn_vplus; [reflexivity | rewrite row_nat_length; exact Hr|].
    apply colsums_length. exact HA.
Qed.

Lemma dotn_vdivn : forall w x, length w = length x -> Forall (fun k => (0 < k)%nat) w ->
  dotn w (vdivn ROps x w) = sumT ROps x.
Proof.
  induction w as [|k w IH]; intros [|a x] Hl Hw; simpl in *; try discriminate; try reflexivity.
  inversion Hw; subst. rewrite IH by (auto; lia).
  change (div ROps) with Rdiv. change (nat2T ROps k) with (n2R k). rewrite <- ?n2R_IZR.
  field. apply n2R_pos. assumption.
Qed.

Lemma vdivn_length : forall x w, length w = length x -> length (vdivn ROps x w) = length x.
Proof. induction x as [|a x IH]; intros [|k w] H; simpl in *; try discriminate; auto. Qed.

Theorem sum_conserves_total : forall (A : bmat) (x : list R),
  Forall (fun r => length r = length x) A ->
  Forall (fun k => (0 < k)%nat) (colsums (length x) A) ->
  sumT ROps (sum_tr ROps A x) = sumT ROps x.
Proof.
  intros A x Hl Hc. unfold sum_tr.
  pose proof (colsums_length _ _ Hl) as Lc.
  set (z := vdivn ROps x (colsums (length x) A)).
  assert (Lz : length z = length x) by (apply vdivn_length; exact Lc).
  rewrite <- Lz in Hl. rewrite (sum_rows_dot A z Hl). rewrite Lz.
  apply dotn_vdivn; assumption.
Qed.

(* --------------------------------------------- the broadcast of the code *)
Definition total2 (Y : list (list R)) : R := sumT ROps (map (sumT ROps) Y).

(* smallest witness: one compressed node fed by two original nodes *)
Theorem sum_broadcast_refuted :
  exists (A : bmat) (x : list R),
    Forall (fun r => length r = length x) A /\
    Forall (fun k => (0 < k)%nat) (colsums (length x) A) /\
    total2 (sum_tr_broadcast ROps A x) <> sumT ROps x.
Proof.
  exists [[true; true]], [1; 1]. repeat split.
  - repeat constructor.
  - simpl. repeat constructor.
  - unfold total2, sum_tr_broadcast. simpl. unfold nat2T. simpl. lra.
Qed.
