(* C20 — reindex: the renumbered mesh uses exactly the node numbers 0..K-1,
   the renumbering is injective on the nodes in use (so cells stay closed). *)
From Coq Require Import List ZArith Bool Arith Lia Permutation.
Import ListNotations.
From FV.C20 Require Import Model ModelReindex ProofsCanon ProofsCheck.
Open Scope Z_scope.

(* ----------------------------------------------------------------- assign *)
Lemma assign_fst : forall u vs n, map fst (assign u vs n) = filter u vs.
Proof.
  induction vs as [|v r IH]; intros n; simpl; [reflexivity|].
  destruct (u v); simpl; rewrite IH; reflexivity.
Qed.

Lemma assign_snd : forall u vs n,
  map snd (assign u vs n) = map (fun i => n + Z.of_nat i) (seq 0 (length (filter u vs))).
Proof.
  induction vs as [|v r IH]; intros n; simpl; [reflexivity|].
  destruct (u v); simpl; [|apply IH].
  rewrite IH. f_equal; [lia|].
  rewrite <- seq_shift, map_map. apply map_ext. intros; lia.
Qed.

Lemma assign_snd_range : forall u vs k,
  In k (map snd (assign u vs 0)) <-> 0 <= k < Z.of_nat (length (assign u vs 0)).
Proof.
  intros u vs k.
  assert (L : length (assign u vs 0) = length (filter u vs)).
  { rewrite <- (map_length fst), assign_fst. reflexivity. }
  rewrite assign_snd, L, in_map_iff. split.
  - intros (i & E & Hi). apply in_seq in Hi. lia.
  - intros H. exists (Z.to_nat k). split; [lia|]. apply in_seq. lia.
Qed.

Lemma assign_snd_nodup : forall u vs n, NoDup (map snd (assign u vs n)).
Proof.
  intros. rewrite assign_snd. apply FinFun.Injective_map_NoDup; [|apply seq_NoDup].
  intros a b H. lia.
Qed.

Lemma lookup_in : forall t v k, NoDup (map fst t) -> In (v, k) t -> lookup v t = Some k.
Proof.
  induction t as [|[a j] t IH]; intros v k Hnd Hin; [destruct Hin|].
  simpl in *. inversion Hnd as [|? ? Hn1 Hn2]; subst.
  destruct Hin as [E|Hin].
  - inversion E; subst. rewrite Z.eqb_refl. reflexivity.
  - destruct (Z.eqb_spec a v) as [E|N].
    + subst. exfalso. apply Hn1. apply in_map_iff. exists (v, k). split; [reflexivity | exact Hin].
    + apply IH; assumption.
Qed.

Lemma lookup_some : forall t v k, lookup v t = Some k -> In (v, k) t.
Proof.
  induction t as [|[a j] t IH]; intros v k H; [discriminate|].
  simpl in H. destruct (Z.eqb_spec a v) as [E|N].
  - inversion H; subst. left. reflexivity.
  - right. apply IH. exact H.
Qed.

Lemma snd_unique : forall (t : list (Z * Z)) a b k,
  NoDup (map snd t) -> In (a, k) t -> In (b, k) t -> a = b.
Proof.
  induction t as [|[x j] t IH]; intros a b k Hnd Ha Hb; [destruct Ha|].
  simpl in Hnd. inversion Hnd as [|? ? Hn1 Hn2]; subst.
  destruct Ha as [Ea|Ha], Hb as [Eb|Hb].
  - congruence.
  - inversion Ea; subst. exfalso. apply Hn1. apply in_map_iff. exists (b, k). split; auto.
  - inversion Eb; subst. exfalso. apply Hn1. apply in_map_iff. exists (a, k). split; auto.
  - eapply IH; eauto.
Qed.

Lemma zrange_nodup : forall K, NoDup (zrange K).
Proof.
  intros K. unfold zrange. apply FinFun.Injective_map_NoDup; [|apply seq_NoDup].
  intros a b H. lia.
Qed.

(* ---------------------------------------------------------------- renaming *)
Lemma all_nodes_rename : forall phi ps, all_nodes (rename phi ps) = map phi (all_nodes ps).
Proof.
  intros phi ps. unfold all_nodes, rename, pnodes.
  induction ps as [|p ps IH]; [reflexivity|].
  simpl. rewrite IH, map_app. f_equal.
  induction p as [|f p IHp]; [reflexivity|]. simpl. rewrite IHp, map_app. reflexivity.
Qed.

Section Reindex.
  Variable ps : list poly.
  Variable conv : list Z.
  Let N := Z.of_nat (length conv).
  Let t := assign (used_b ps) (zrange N) 0.
  Let phi := new_id t.
  Let K := Z.of_nat (length t).

  (* every node occurring in a face is a valid index *)
  Hypothesis Hrange : forall v, In v (all_nodes ps) -> 0 <= v < N.

  Lemma t_fst_nodup : NoDup (map fst t).
  Proof. unfold t. rewrite assign_fst. apply NoDup_filter, zrange_nodup. Qed.

  Lemma used_in_t : forall v, In v (all_nodes ps) -> exists k, In (v, k) t /\ phi v = k /\ 0 <= k < K.
  Proof.
    intros v Hv.
    assert (Hin : In v (map fst t)).
    { unfold t. rewrite assign_fst. apply filter_In. split.
      - apply zrange_iff. apply Hrange. exact Hv.
      - apply zmem_iff. exact Hv. }
    apply in_map_iff in Hin. destruct Hin as ([a k] & E & Hin). simpl in E. subst a.
    exists k. split; [exact Hin|]. split.
    - unfold phi, new_id. rewrite (lookup_in t v k t_fst_nodup Hin). reflexivity.
    - apply (assign_snd_range (used_b ps) (zrange N) k). apply in_map_iff. exists (v, k). auto.
  Qed.

  Lemma t_used : forall v k, In (v, k) t -> In v (all_nodes ps).
  Proof.
    intros v k H. assert (In v (map fst t)) by (apply in_map_iff; exists (v, k); auto).
    unfold t in H0. rewrite assign_fst in H0. apply filter_In in H0. apply zmem_iff. tauto.
  Qed.

  Theorem reindex_uses_exactly : uses_exactly K (rename phi ps).
  Proof.
    intros v'. rewrite all_nodes_rename, in_map_iff. split.
    - intros (v & E & Hv). destruct (used_in_t v Hv) as (k & _ & Ek & Hk). lia.
    - intros Hk. apply (assign_snd_range (used_b ps) (zrange N) v') in Hk.
      apply in_map_iff in Hk. destruct Hk as ([v k] & E & Hin). simpl in E. subst k.
      exists v. split; [|exact (t_used _ _ Hin)].
      unfold phi, new_id. rewrite (lookup_in t v v' t_fst_nodup Hin). reflexivity.
  Qed.

  Theorem reindex_injective : forall u v,
    In u (all_nodes ps) -> In v (all_nodes ps) -> phi u = phi v -> u = v.
  Proof.
    intros u v Hu Hv E.
    destruct (used_in_t u Hu) as (k & I1 & E1 & _), (used_in_t v Hv) as (j & I2 & E2 & _).
    assert (Ekj : k = j) by congruence. rewrite <- Ekj in I2.
    exact (snd_unique t u v k (assign_snd_nodup _ _ _) I1 I2).
  Qed.

  (* K = node_conv.max() + 1 when every node in use is its own representative *)
  Hypothesis Hroots : forall u, In u (all_nodes ps) -> nth (Z.to_nat u) conv u = u.

  Lemma zmax_spec : forall l b, (forall x, In x l -> x <= b) -> (b = -1 \/ In b l) -> -1 <= b ->
    zmax_list l = b.
  Proof.
    induction l as [|a l IH]; intros b Hle Hin Hb; simpl.
    - destruct Hin as [E|[]]. lia.
    - assert (Ha : a <= b) by (apply Hle; left; reflexivity).
      destruct Hin as [E|[E|Hin]].
      + subst b. assert (a = -1 \/ a < -1) by lia.
        assert (zmax_list l <= -1).
        { clear -Hle. induction l as [|c l IHl]; simpl; [lia|].
          assert (c <= -1) by (apply Hle; right; left; reflexivity).
          assert (zmax_list l <= -1) by (apply IHl; intros x Hx; apply Hle; destruct Hx; [left|right; right]; auto).
          lia. }
        assert (-1 <= zmax_list l) by (clear; induction l; simpl; lia). lia.
      + subst a.
        assert (zmax_list l <= b).
        { clear -Hle Hb. induction l as [|c l IHl]; simpl; [lia|].
          assert (c <= b) by (apply Hle; right; left; reflexivity).
          assert (zmax_list l <= b) by (apply IHl; intros x Hx; apply Hle; destruct Hx; [left|right; right]; auto).
          lia. }
        lia.
      + rewrite (IH b); [lia | intros x Hx; apply Hle; right; exact Hx | right; exact Hin | exact Hb].
  Qed.

  Theorem reindex_K : r_K (reindex ps conv) = K.
  Proof.
    unfold reindex. simpl r_K. fold N. fold t.
    rewrite (zmax_spec _ (K - 1)); [lia | | | lia].
    - intros x Hx. apply in_map_iff in Hx. destruct Hx as (v & E & Hv). subst x.
      destruct (used_b ps (root conv (length conv) v)) eqn:U; [|lia].
      apply zmem_iff in U. destruct (used_in_t _ U) as (k & _ & Ek & Hk). fold phi. lia.
    - destruct (Z.eq_dec K 0) as [E0|N0]; [left; lia|]. right.
      (* the node numbered K-1 *)
      assert (HK : 0 <= K - 1 < K) by lia.
      apply (assign_snd_range (used_b ps) (zrange N) (K - 1)) in HK.
      apply in_map_iff in HK. destruct HK as ([v k] & E & Hin). simpl in E. subst k.
      pose proof (t_used _ _ Hin) as Hu.
      apply in_map_iff. exists v. split; [|apply zrange_iff; apply Hrange; exact Hu].
      assert (R : root conv (length conv) v = v).
      { pose proof (Hrange v Hu) as Hr. unfold N in Hr.
        destruct (length conv) as [|n]; [simpl in Hr; lia|].
        simpl. rewrite (Hroots v Hu), Z.eqb_refl. reflexivity. }
      rewrite R. assert (U : used_b ps v = true) by (apply zmem_iff; exact Hu).
      rewrite U. unfold new_id. rewrite (lookup_in t v (K - 1) t_fst_nodup Hin). reflexivity.
  Qed.

  Theorem reindex_exact : uses_exactly (r_K (reindex ps conv)) (r_faces (reindex ps conv)).
  Proof. rewrite reindex_K. exact reindex_uses_exactly. Qed.
End Reindex.

(* --------------------------- closedness is invariant under injective renaming *)
Lemma chain_map : forall phi l, chain (map phi l) = map (fun e => (phi (fst e), phi (snd e))) (chain l).
Proof.
  induction l as [|a l IH]; [reflexivity|].
  destruct l as [|b l]; [reflexivity|].
  change (chain (a :: b :: l)) with ((a, b) :: chain (b :: l)).
  simpl map at 1. change (chain (phi a :: phi b :: map phi l)) with ((phi a, phi b) :: chain (map phi (b :: l))).
  rewrite IH. reflexivity.
Qed.

Lemma edges_map : forall phi f, edges (map phi f) = map (fun e => (phi (fst e), phi (snd e))) (edges f).
Proof.
  intros phi [|a r]; [reflexivity|].
  change (map phi (a :: r)) with (phi a :: map phi r). rewrite !edges_cons.
  rewrite <- (chain_map phi (a :: r ++ [a])).
  change (map phi (a :: r ++ [a])) with (phi a :: map phi (r ++ [a])). rewrite map_app. reflexivity.
Qed.

Lemma pedges_map : forall phi p,
  pedges (map (map phi) p) = map (fun e => (phi (fst e), phi (snd e))) (pedges p).
Proof.
  intros phi p. unfold pedges. induction p as [|f p IH]; [reflexivity|].
  simpl. rewrite IH, map_app, edges_map. reflexivity.
Qed.

Theorem closed_rename : forall phi p,
  (forall u v, In u (pnodes p) -> In v (pnodes p) -> phi u = phi v -> u = v) ->
  closed p -> closed (map (map phi) p).
Proof.
  intros phi p Hinj [Hok Hcl]. split.
  - rewrite Forall_forall in *. intros f' Hf'. apply in_map_iff in Hf'.
    destruct Hf' as (f & E & Hf). subst f'. destruct (Hok f Hf) as [Hnd Hlen].
    split; [|rewrite map_length; exact Hlen].
    assert (Hsub : forall x, In x f -> In x (pnodes p)).
    { intros x Hx. unfold pnodes. apply in_concat. exists f. split; assumption. }
    clear Hlen Hok Hf. induction f as [|a f IH]; simpl; [constructor|].
    inversion Hnd; subst. constructor.
    + intros X. apply in_map_iff in X. destruct X as (b & E & Hb).
      assert (b = a) by (apply Hinj; [apply Hsub; right; exact Hb | apply Hsub; left; reflexivity | exact E]).
      subst. contradiction.
    + apply IH; [assumption | intros x Hx; apply Hsub; right; exact Hx].
  - intros a' b' Hin. rewrite pedges_map in *. apply in_map_iff in Hin.
    destruct Hin as ([a b] & E & Hin). simpl in E. inversion E; subst.
    apply in_map_iff. exists (b, a). split; [reflexivity|]. apply Hcl. exact Hin.
Qed.
