(* C20 — lemmas about edges of vertex cycles and the canonical rotation *)
From Coq Require Import List ZArith Bool Arith Lia Permutation.
Import ListNotations.
From FV.C20 Require Import Model.
Open Scope Z_scope.

(* ------------------------------------------------------------------ chain *)
Lemma chain_app_mid : forall l1 x l2,
  chain (l1 ++ x :: l2) = chain (l1 ++ [x]) ++ chain (x :: l2).
Proof.
  induction l1 as [|a l1 IH]; intros x l2; simpl.
  - destruct l2; reflexivity.
  - specialize (IH x l2).
    destruct l1 as [|b l1]; simpl in *.
    + destruct l2; reflexivity.
    + rewrite IH. reflexivity.
Qed.

Lemma chain_rev : forall l, chain (rev l) = map swap (rev (chain l)).
Proof.
  induction l as [|a l IH]; [reflexivity|].
  destruct l as [|b l]; [reflexivity|].
  change (chain (a :: b :: l)) with ((a, b) :: chain (b :: l)).
  replace (rev (a :: b :: l)) with (rev l ++ b :: [a])
    by (simpl; rewrite <- app_assoc; reflexivity).
  rewrite chain_app_mid.
  change (rev l ++ [b]) with (rev (b :: l)). rewrite IH.
  simpl rev. rewrite map_app. reflexivity.
Qed.

(* ------------------------------------------------------------------ edges *)
Lemma edges_cons : forall a r, edges (a :: r) = chain (a :: r ++ [a]).
Proof. reflexivity. Qed.

Lemma edges_rot : forall p q, Permutation (edges (p ++ q)) (edges (q ++ p)).
Proof.
  intros [|a p] q.
  - rewrite app_nil_r. apply Permutation_refl.
  - destruct q as [|b q].
    + rewrite app_nil_r. apply Permutation_refl.
    + simpl app. rewrite !edges_cons.
      replace (a :: (p ++ b :: q) ++ [a]) with ((a :: p) ++ b :: (q ++ [a]))
        by (simpl; rewrite <- app_assoc; reflexivity).
      replace (b :: (q ++ a :: p) ++ [b]) with ((b :: q) ++ a :: (p ++ [b]))
        by (simpl; rewrite <- app_assoc; reflexivity).
      rewrite (chain_app_mid (a :: p) b (q ++ [a])), (chain_app_mid (b :: q) a (p ++ [b])).
      simpl app. apply Permutation_app_comm.
Qed.

Lemma edges_rev : forall f, Permutation (edges (rev f)) (map swap (edges f)).
Proof.
  intros [|a r]; [apply Permutation_refl|].
  simpl rev.
  eapply Permutation_trans; [apply edges_rot|].
  simpl app. rewrite !edges_cons.
  replace (a :: rev r ++ [a]) with (rev (a :: r ++ [a])).
  - rewrite chain_rev. apply Permutation_map. apply Permutation_sym, Permutation_rev.
  - simpl. rewrite rev_app_distr. reflexivity.
Qed.

Lemma in_chain_in : forall l a b, In (a, b) (chain l) -> In a l /\ In b l.
Proof.
  induction l as [|x l IH]; intros a b H; [destruct H|].
  destruct l as [|y l]; [destruct H|].
  change (chain (x :: y :: l)) with ((x, y) :: chain (y :: l)) in H.
  destruct H as [H|H].
  - inversion H; subst. split; [left; reflexivity | right; left; reflexivity].
  - apply IH in H. destruct H. split; right; assumption.
Qed.

Lemma in_edges_in : forall f a b, In (a, b) (edges f) -> In a f /\ In b f.
Proof.
  intros [|x r] a b H; [destruct H|].
  unfold edges in H. apply in_chain_in in H.
  destruct H as [Ha Hb].
  assert (E : forall z, In z ((x :: r) ++ [x]) -> In z (x :: r)).
  { intros z Hz. apply in_app_or in Hz. destruct Hz as [Hz|[Hz|[]]]; [assumption|left; assumption]. }
  split; apply E; assumption.
Qed.

Lemma in_chain_fst : forall l a, In a (removelast l) -> exists b, In (a, b) (chain l).
Proof.
  induction l as [|x l IH]; intros a H; [destruct H|].
  destruct l as [|y l]; [destruct H|].
  change (removelast (x :: y :: l)) with (x :: removelast (y :: l)) in H.
  change (chain (x :: y :: l)) with ((x, y) :: chain (y :: l)).
  destruct H as [H|H].
  - subst. exists y. left. reflexivity.
  - destruct (IH a H) as [b Hb]. exists b. right. exact Hb.
Qed.

Lemma in_face_edge : forall f a, In a f -> exists b, In (a, b) (edges f).
Proof.
  intros [|x r] a H; [destruct H|].
  unfold edges. apply in_chain_fst.
  rewrite removelast_app by discriminate. simpl. rewrite app_nil_r. exact H.
Qed.

(* ---------------------------------------------------------- lmin / split_at *)
Lemma lmin_le_acc : forall l a, lmin a l <= a.
Proof.
  induction l as [|b l IH]; intros a; simpl; [lia|].
  specialize (IH (Z.min a b)). lia.
Qed.

Lemma lmin_le : forall l a x, In x (a :: l) -> lmin a l <= x.
Proof.
  induction l as [|b l IH]; intros a x H; simpl.
  - destruct H as [H|[]]; subst; lia.
  - destruct H as [H|[H|H]].
    + subst. pose proof (lmin_le_acc l (Z.min x b)). lia.
    + subst. pose proof (lmin_le_acc l (Z.min a x)). lia.
    + apply IH. right. exact H.
Qed.

Lemma lmin_in : forall l a, In (lmin a l) (a :: l).
Proof.
  induction l as [|b l IH]; intros a; simpl; [left; reflexivity|].
  specialize (IH (Z.min a b)). simpl in IH.
  destruct IH as [H|H].
  - destruct (Z.min_spec a b) as [[_ E]|[_ E]]; [left|right; left]; rewrite <- H; symmetry; exact E.
  - right; right; exact H.
Qed.

Lemma fmin_in : forall f, f <> [] -> In (fmin f) f.
Proof. intros [|a r] H; [congruence|]. apply lmin_in. Qed.

Lemma fmin_le : forall f x, In x f -> fmin f <= x.
Proof. intros [|a r] x H; [destruct H|]. apply lmin_le; exact H. Qed.

Lemma fmin_ext : forall f g, f <> [] -> incl f g -> incl g f -> fmin f = fmin g.
Proof.
  intros f g Hf Hfg Hgf.
  assert (Hg : g <> []).
  { destruct f as [|a r]; [congruence|]. intros E. subst g. apply (Hfg a). left; reflexivity. }
  pose proof (fmin_in f Hf) as I1. pose proof (fmin_in g Hg) as I2.
  pose proof (fmin_le f _ (Hgf _ I2)). pose proof (fmin_le g _ (Hfg _ I1)). lia.
Qed.

Lemma split_at_spec : forall m l, In m l ->
  l = fst (split_at m l) ++ m :: snd (split_at m l) /\ ~ In m (fst (split_at m l)).
Proof.
  induction l as [|a l IH]; intros H; [destruct H|].
  simpl. destruct (Z.eqb_spec a m) as [E|E].
  - subst. simpl. split; [reflexivity | intros []].
  - destruct H as [H|H]; [congruence|].
    destruct (IH H) as [E1 E2]. simpl. split.
    + f_equal. exact E1.
    + intros [X|X]; [congruence | exact (E2 X)].
Qed.

Lemma split_at_app : forall m p q, ~ In m p -> split_at m (p ++ m :: q) = (p, q).
Proof.
  induction p as [|a p IH]; intros q H; simpl.
  - rewrite Z.eqb_refl. reflexivity.
  - destruct (Z.eqb_spec a m) as [E|E].
    + exfalso. apply H. left. exact E.
    + rewrite IH; [reflexivity|]. intros X. apply H. right. exact X.
Qed.

(* ------------------------------------------------------------------ canon *)
Lemma canon_nil : canon [] = []. Proof. reflexivity. Qed.

Lemma canon_unfold : forall f, f <> [] ->
  canon f = fmin f :: snd (split_at (fmin f) f) ++ fst (split_at (fmin f) f).
Proof. intros [|a r] H; [congruence | reflexivity]. Qed.

Lemma canon_split : forall f, f <> [] ->
  exists p q, f = p ++ fmin f :: q /\ ~ In (fmin f) p /\ canon f = fmin f :: q ++ p.
Proof.
  intros f Hf. pose proof (fmin_in f Hf) as Hin.
  destruct (split_at_spec _ _ Hin) as [E1 E2].
  exists (fst (split_at (fmin f) f)), (snd (split_at (fmin f) f)).
  split; [exact E1|]. split; [exact E2|].
  destruct f; [congruence|]. reflexivity.
Qed.

(* canon f is a rotation of f *)
Lemma canon_is_rot : forall f, exists a b, f = a ++ b /\ canon f = b ++ a.
Proof.
  intros f. destruct f as [|x r] eqn:E.
  - exists [], []. split; reflexivity.
  - rewrite <- E. assert (Hf : f <> []) by (rewrite E; discriminate).
    destruct (canon_split f Hf) as (p & q & E1 & _ & E3).
    exists p, (fmin f :: q). split; [exact E1|]. rewrite E3. reflexivity.
Qed.

Lemma canon_perm : forall f, Permutation (canon f) f.
Proof.
  intros f. destruct (canon_is_rot f) as (a & b & E1 & E2).
  rewrite E2, E1. apply Permutation_app_comm.
Qed.

Lemma canon_edges : forall f, Permutation (edges (canon f)) (edges f).
Proof.
  intros f. destruct (canon_is_rot f) as (a & b & E1 & E2).
  rewrite E2, E1. apply edges_rot.
Qed.

Lemma canon_length : forall f, length (canon f) = length f.
Proof. intros f. apply Permutation_length, canon_perm. Qed.

Lemma canon_NoDup : forall f, NoDup f -> NoDup (canon f).
Proof. intros f H. eapply Permutation_NoDup; [apply Permutation_sym, canon_perm | exact H]. Qed.

Lemma canon_of_split : forall m p q, ~ In m p -> (forall x, In x (p ++ m :: q) -> m <= x) ->
  canon (p ++ m :: q) = m :: q ++ p.
Proof.
  intros m p q Hn Hmin.
  assert (Hf : p ++ m :: q <> []) by (destruct p; discriminate).
  assert (Em : fmin (p ++ m :: q) = m).
  { pose proof (fmin_in _ Hf) as I. pose proof (Hmin _ I).
    pose proof (fmin_le (p ++ m :: q) m).
    assert (In m (p ++ m :: q)) by (apply in_or_app; right; left; reflexivity).
    specialize (H0 H1). lia. }
  rewrite canon_unfold by exact Hf.
  rewrite Em, split_at_app by exact Hn. reflexivity.
Qed.

Lemma canon_idem : forall f, canon (canon f) = canon f.
Proof.
  intros f. destruct f as [|x r] eqn:E; [reflexivity|]. rewrite <- E.
  assert (Hf : f <> []) by (rewrite E; discriminate).
  destruct (canon_split f Hf) as (p & q & E1 & E2 & E3).
  rewrite E3.
  change (fmin f :: q ++ p) with ([] ++ fmin f :: (q ++ p)).
  rewrite canon_of_split; [rewrite app_nil_r; reflexivity | intros [] |].
  intros y Hy. simpl in Hy. apply fmin_le.
  rewrite E1. destruct Hy as [Hy|Hy].
  - subst. apply in_or_app. right. left. reflexivity.
  - apply in_app_or in Hy. apply in_or_app. destruct Hy; [right; right|left]; assumption.
Qed.

(* completeness on faces with distinct nodes: rotations have the same key *)
Lemma canon_rot : forall a b, NoDup (a ++ b) -> canon (a ++ b) = canon (b ++ a).
Proof.
  intros a b Hnd.
  destruct a as [|a0 a']; [rewrite app_nil_r; reflexivity|].
  destruct b as [|b0 b']; [rewrite app_nil_r; reflexivity|].
  set (f := (a0 :: a') ++ b0 :: b') in *.
  assert (Hf : f <> []) by discriminate.
  assert (Hg : (b0 :: b') ++ a0 :: a' <> []) by discriminate.
  assert (Em : fmin ((b0 :: b') ++ a0 :: a') = fmin f).
  { apply fmin_ext; [exact Hg | |]; intros z Hz; unfold f in *;
      apply in_app_or in Hz; apply in_or_app; tauto. }
  destruct (canon_split f Hf) as (p & q & E1 & E2 & E3).
  set (m := fmin f) in *.
  assert (Hq : ~ In m q).
  { rewrite E1 in Hnd. apply NoDup_remove_2 in Hnd. intros X. apply Hnd. apply in_or_app. right; exact X. }
  assert (Hmin : forall l, (forall x, In x l -> In x f) -> forall x, In x l -> m <= x).
  { intros l Hl x Hx. apply fmin_le. apply Hl. exact Hx. }
  (* where is m: in a or in b *)
  assert (Hin : In m f) by (apply fmin_in; exact Hf).
  unfold f in Hin. apply in_app_or in Hin.
  rewrite E3.
  destruct Hin as [Hin|Hin].
  - (* m in a *)
    apply in_split in Hin. destruct Hin as (a1 & a2 & Ea).
    assert (Ep : p = a1 /\ q = a2 ++ b0 :: b').
    { unfold f in E1. rewrite Ea in E1. rewrite <- app_assoc in E1. simpl in E1.
      assert (S1 : split_at m (a1 ++ m :: a2 ++ b0 :: b') = (a1, a2 ++ b0 :: b')).
      { apply split_at_app. intros X.
        unfold f in Hnd. rewrite Ea in Hnd. rewrite <- app_assoc in Hnd. simpl in Hnd.
        apply NoDup_remove_2 in Hnd. apply Hnd. apply in_or_app. left; exact X. }
      rewrite E1 in S1. rewrite split_at_app in S1 by exact E2. inversion S1; auto. }
    destruct Ep as [-> ->].
    rewrite Ea.
    replace ((b0 :: b') ++ a1 ++ m :: a2) with (((b0 :: b') ++ a1) ++ m :: a2)
      by (rewrite <- app_assoc; reflexivity).
    rewrite canon_of_split.
    + rewrite <- !app_assoc. reflexivity.
    + intros X. apply in_app_or in X. destruct X as [X|X].
      * apply Hq. apply in_or_app. right. exact X.
      * exact (E2 X).
    + apply Hmin. intros x Hx. unfold f. rewrite Ea.
      apply in_app_or in Hx. destruct Hx as [Hx|Hx].
      * apply in_app_or in Hx. apply in_or_app. destruct Hx as [Hx|Hx]; [right; exact Hx|].
        left. apply in_or_app. left. exact Hx.
      * apply in_or_app. left. apply in_or_app. right. exact Hx.
  - (* m in b *)
    apply in_split in Hin. destruct Hin as (b1 & b2 & Eb).
    assert (Ep : p = (a0 :: a') ++ b1 /\ q = b2).
    { unfold f in E1. rewrite Eb in E1. rewrite app_assoc in E1.
      assert (S1 : split_at m (((a0 :: a') ++ b1) ++ m :: b2) = ((a0 :: a') ++ b1, b2)).
      { apply split_at_app. intros X.
        unfold f in Hnd. rewrite Eb in Hnd. rewrite app_assoc in Hnd.
        apply NoDup_remove_2 in Hnd. apply Hnd. apply in_or_app. left; exact X. }
      rewrite E1 in S1. rewrite split_at_app in S1 by exact E2. inversion S1; auto. }
    destruct Ep as [-> ->].
    rewrite Eb.
    replace ((b1 ++ m :: b2) ++ a0 :: a') with (b1 ++ m :: (b2 ++ a0 :: a'))
      by (rewrite <- app_assoc; reflexivity).
    rewrite canon_of_split.
    + rewrite <- !app_assoc. reflexivity.
    + intros X. apply E2. apply in_or_app. right. exact X.
    + apply Hmin. intros x Hx. unfold f. rewrite Eb.
      apply in_app_or in Hx. destruct Hx as [Hx|Hx].
      * apply in_or_app. right. apply in_or_app. left. exact Hx.
      * destruct Hx as [Hx|Hx].
        -- subst. apply in_or_app. right. apply in_or_app. right. left. reflexivity.
        -- apply in_app_or in Hx. apply in_or_app. destruct Hx as [Hx|Hx]; [right|left; exact Hx].
           apply in_or_app. right. right. exact Hx.
Qed.

(* reverse key depends on the key only (faces with distinct nodes) *)
Lemma rkey_canon : forall f, NoDup f -> rkey (canon f) = rkey f.
Proof.
  intros f Hnd. unfold rkey.
  destruct (canon_is_rot f) as (a & b & E1 & E2).
  rewrite E2, E1, !rev_app_distr.
  apply canon_rot. rewrite <- rev_app_distr. rewrite E1 in Hnd.
  apply NoDup_rev. eapply Permutation_NoDup; [apply Permutation_app_comm | exact Hnd].
Qed.

Lemma rkey_rkey : forall f, NoDup f -> rkey (rkey f) = canon f.
Proof.
  intros f Hnd. unfold rkey at 1.
  change (canon (rev (rkey f))) with (rkey (rkey f)).
  unfold rkey at 2. rewrite rkey_canon by (apply NoDup_rev; exact Hnd).
  unfold rkey. rewrite rev_involutive. reflexivity.
Qed.

Lemma rkey_NoDup : forall f, NoDup f -> NoDup (rkey f).
Proof. intros f H. apply canon_NoDup, NoDup_rev, H. Qed.

(* a face with >= 3 distinct nodes is never a rotation of its own reverse *)
Lemma rkey_neq : forall f, NoDup f -> (3 <= length f)%nat -> rkey f <> canon f.
Proof.
  intros f Hnd Hlen E.
  assert (Hf : f <> []) by (destruct f; [simpl in Hlen; lia | discriminate]).
  destruct (canon_split f Hf) as (p & q & E1 & E2 & E3).
  set (m := fmin f) in *.
  assert (Er : rev f = rev q ++ m :: rev p).
  { rewrite E1, rev_app_distr. simpl. rewrite <- app_assoc. reflexivity. }
  assert (Hq : ~ In m q).
  { rewrite E1 in Hnd. apply NoDup_remove_2 in Hnd. intros X. apply Hnd. apply in_or_app. right; exact X. }
  assert (Ec : rkey f = m :: rev p ++ rev q).
  { unfold rkey. rewrite Er. apply canon_of_split.
    - intros X. apply in_rev in X. exact (Hq X).
    - intros x Hx. apply fmin_le. rewrite <- Er in Hx. apply in_rev in Hx. exact Hx. }
  rewrite Ec, E3 in E. inversion E as [E'].
  rewrite <- rev_app_distr in E'.
  set (t := q ++ p) in *.
  assert (Lt : (2 <= length t)%nat).
  { unfold t. rewrite E1 in Hlen. rewrite app_length in *. simpl in Hlen. lia. }
  assert (Nt : NoDup t).
  { unfold t. rewrite E1 in Hnd. apply NoDup_remove_1 in Hnd.
    eapply Permutation_NoDup; [apply Permutation_app_comm | exact Hnd]. }
  destruct t as [|x [|y t']]; simpl in Lt; try lia.
  (* rev (x :: y :: t') = x :: y :: t' : its last element is x, so x occurs twice *)
  simpl in E'.
  assert (In x (y :: t')).
  { assert (H : In x (rev (x :: y :: t'))) by (apply -> in_rev; left; reflexivity).
    simpl in H. rewrite E' in H.
    assert (L : last ((rev t' ++ [y]) ++ [x]) 0 = x) by (apply last_last).
    rewrite E' in L. simpl in L.
    destruct t' as [|z t'']; simpl in L.
    - left. exact L.
    - right. rewrite <- L. clear. revert z. induction t'' as [|w t IH]; intros z; simpl.
      + left; reflexivity.
      + right. apply IH. }
  inversion Nt; contradiction.
Qed.
