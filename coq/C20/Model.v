(* C20 — mesh compression (femio/mesh_compressor.py): executable model.
   Definitions only; all proofs are in Proofs*.v.

   Data representation of the implementation: a polyhedron is the int array
   [m, k1, v.., k2, v.., ...] (m faces, each a cycle of node indices); the
   harness decodes it to `list (list Z)`.  Node indices are 0-based positions
   into the node array (ids = index + 1 in the output mesh). *)
From Coq Require Import List ZArith Bool Arith Lia QArith.
Import ListNotations.
Open Scope Z_scope.

Definition face := list Z.
Definition poly := list face.

(* ------------------------------------------------------------------ edges *)
(* consecutive pairs of a linear list *)
Fixpoint chain (l : list Z) : list (Z * Z) :=
  match l with
  | a :: ((b :: _) as r) => (a, b) :: chain r
  | _ => []
  end.

(* directed edges of a vertex cycle: (f0,f1) ... (f_{k-1},f0); the code
   enumerates (F[i-1],F[i]) for i = 0..k-1, the same multiset *)
Definition edges (f : face) : list (Z * Z) :=
  match f with [] => [] | a :: _ => chain (f ++ [a]) end.

Definition pedges (p : poly) : list (Z * Z) := flat_map edges p.

Definition swap (e : Z * Z) : Z * Z := (snd e, fst e).

Definition ZZ_eq_dec : forall x y : Z * Z, {x = y} + {x <> y}.
Proof. decide equality; apply Z.eq_dec. Defined.

Definition feq_dec : forall x y : face, {x = y} + {x <> y} := list_eq_dec Z.eq_dec.

Definition ecount (e : Z * Z) (l : list (Z * Z)) : nat := count_occ ZZ_eq_dec l e.

(* --------------------------------------------------- validity (S-definition)
   `closed` is what check_polyhedron (mesh_compressor.py:1080) tests plus the
   k >= 3 filter of `shrink`: every face has pairwise distinct nodes, at least
   three of them, and the SET of directed edges is closed under reversal. *)
Definition face_ok (f : face) : Prop := NoDup f /\ (3 <= length f)%nat.
Definition edge_closed (p : poly) : Prop :=
  forall a b, In (a, b) (pedges p) -> In (b, a) (pedges p).
Definition closed (p : poly) : Prop := Forall face_ok p /\ edge_closed p.

(* the stronger, multiplicity-respecting notion: every directed edge occurs
   exactly as often as its reverse (true of every cell produced by
   to_polyhedron: each directed edge once, its reverse once) *)
Definition balanced (p : poly) : Prop :=
  forall a b, ecount (a, b) (pedges p) = ecount (b, a) (pedges p).
Definition wf_poly (p : poly) : Prop := Forall face_ok p /\ balanced p.

Fixpoint nodup_b (l : list Z) : bool :=
  match l with
  | [] => true
  | a :: r => negb (existsb (Z.eqb a) r) && nodup_b r
  end.
Definition face_ok_b (f : face) : bool := nodup_b f && (3 <=? length f)%nat.
Definition emem (e : Z * Z) (l : list (Z * Z)) : bool :=
  existsb (fun x => (fst x =? fst e) && (snd x =? snd e)) l.
Definition edge_closed_b (p : poly) : bool :=
  forallb (fun e => emem (swap e) (pedges p)) (pedges p).
Definition closed_b (p : poly) : bool := forallb face_ok_b p && edge_closed_b p.
Definition balanced_b (p : poly) : bool :=
  forallb (fun e => (ecount e (pedges p) =? ecount (swap e) (pedges p))%nat) (pedges p).
Definition wf_poly_b (p : poly) : bool := forallb face_ok_b p && balanced_b p.

(* -------------------------------------------- canonical rotation of a face
   calc_face_hash (mesh_compressor.py:1272) hashes len(F) and the sequence
   F[idx], F[idx-1], ... where idx is the FIRST position of min(F).  That
   sequence is  m :: rev (post ++ pre)  for F = pre ++ m :: post; it is in
   bijection with  m :: post ++ pre, which is what `canon` returns.  The
   rolling hash (random base, modulus 2^61-1) is modelled as injective on
   these sequences (trusted: no collision). *)
Fixpoint lmin (a : Z) (l : list Z) : Z :=
  match l with [] => a | b :: r => lmin (Z.min a b) r end.
Definition fmin (f : face) : Z := match f with [] => 0 | a :: r => lmin a r end.
Fixpoint split_at (m : Z) (l : list Z) : list Z * list Z :=
  match l with
  | [] => ([], [])
  | a :: r => if a =? m then ([], r)
              else let pq := split_at m r in (a :: fst pq, snd pq)
  end.
Definition canon (f : face) : face :=
  match f with
  | [] => []
  | _ => let m := fmin f in let pq := split_at m f in m :: snd pq ++ fst pq
  end.

(* key of the reversed face: calc_face_hash(F[::-1]) *)
Definition rkey (f : face) : face := canon (rev f).

(* --------------------------------------------------------- merge_polyhedrons
   One connected group.  face_count[h] = number of faces of the group whose
   hash is h (function `add`).  The emission loop (lines 1390-1415) visits the
   faces in concatenation order; at a face F with hash x and reverse hash y it
   emits  face_count[x] - face_count[y]  copies of F when that is positive and
   lowers face_count[x] to face_count[y], so later faces of the same class emit
   nothing.  Net effect: the first face of each class is emitted
   (count(class) - count(reverse class)) times (truncated at 0). *)
Definition cntk (k : face) (fs : list face) : nat := count_occ feq_dec (map canon fs) k.

Definition same_key (f g : face) : bool := if feq_dec (canon g) (canon f) then true else false.

(* first face of every class, in order of first occurrence *)
Fixpoint reps (fs : list face) : list face :=
  match fs with
  | [] => []
  | f :: r => f :: filter (fun g => negb (same_key f g)) (reps r)
  end.

Definition mult (fs : list face) (f : face) : nat := (cntk (canon f) fs - cntk (rkey f) fs)%nat.

Definition merge_faces (fs : list face) : list face :=
  flat_map (fun r => repeat r (mult fs r)) (reps fs).

Definition merge (ps : list poly) : poly := merge_faces (concat ps).

(* nodes used by a polyhedron (collect_vertex = sorted unique; here as a set) *)
Definition pnodes (p : poly) : list Z := concat p.

(* ---------------------------------------------------------------- numbers *)
Record Ops (T : Type) := mkOps {
  zero : T; one : T;
  add : T -> T -> T; mul : T -> T -> T; sub : T -> T -> T; opp : T -> T;
  div : T -> T -> T;
  of_Z : Z -> T }.
Arguments zero {T}. Arguments one {T}. Arguments add {T}. Arguments mul {T}.
Arguments sub {T}. Arguments opp {T}. Arguments div {T}. Arguments of_Z {T}.

Definition V3 (T : Type) : Type := (T * T * T)%type.

Section Num.
  Context {T : Type} (O : Ops T).
  Let A := add O. Let M := mul O. Let S := sub O.

  Definition sumT (l : list T) : T := fold_right (add O) (zero O) l.

  Definition vadd (u v : V3 T) : V3 T :=
    let '(a, b, c) := u in let '(d, e, f) := v in (A a d, A b e, A c f).
  Definition vzero : V3 T := (zero O, zero O, zero O).
  Definition vsum (l : list (V3 T)) : V3 T := fold_right vadd vzero l.
  Definition vdiv (u : V3 T) (n : T) : V3 T :=
    let '(a, b, c) := u in (div O a n, div O b n, div O c n).

  (* dot(cross(c, a), b) *)
  Definition det3 (c a b : V3 T) : T :=
    let '(c0, c1, c2) := c in let '(a0, a1, a2) := a in let '(b0, b1, b2) := b in
    A (A (M (S (M c1 a2) (M c2 a1)) b0)
         (M (S (M c2 a0) (M c0 a2)) b1))
      (M (S (M c0 a1) (M c1 a0)) b2).

  Variable pos : Z -> V3 T.

  (* _calculate_element_volumes_polyhedron_centroid_core
     (geometry_processor.py:1101): per face, centroid c of its nodes, then
     sum_i dot(cross(c, F[i-1]), F[i]); the cell volume is the sum / 6 *)
  Definition centroid (f : face) : V3 T :=
    vdiv (vsum (map pos f)) (of_Z O (Z.of_nat (length f))).
  Definition fvol6 (f : face) : T :=
    sumT (map (fun e => det3 (centroid f) (pos (fst e)) (pos (snd e))) (edges f)).
  Definition vol6 (p : poly) : T := sumT (map fvol6 p).
  Definition vol (p : poly) : T := div O (vol6 p) (of_Z O 6).
  Definition total_vol (ps : list poly) : T := sumT (map vol ps).
End Num.

(* ------------------------------------------------ transfer matrices (bool)
   mat : M x N boolean matrix as list of rows.
   kind="mean":  y = (mat @ x) / mat.sum(axis=1)
   kind="sum" (as documented: "the sum of data of all nodes is preserved"):
                 y = mat @ (x / mat.sum(axis=0))                              *)
Definition bmat := list (list bool).

Section Transfer.
  Context {T : Type} (O : Ops T).

  Definition b2T (b : bool) : T := if b then one O else zero O.
  Fixpoint dot (r : list bool) (x : list T) : T :=
    match r, x with
    | b :: r', a :: x' => add O (if b then a else zero O) (dot r' x')
    | _, _ => zero O
    end.
  Definition nat2T (n : nat) : T := of_Z O (Z.of_nat n).
  Definition rowsum (r : list bool) : nat := count_occ bool_dec r true.
  Fixpoint vplus (u v : list nat) : list nat :=
    match u, v with
    | a :: u', b :: v' => (a + b)%nat :: vplus u' v'
    | _, _ => []
    end.
  Definition row_nat (r : list bool) : list nat := map (fun b : bool => if b then 1%nat else 0%nat) r.
  Definition colsums (n : nat) (A : bmat) : list nat :=
    fold_right (fun r acc => vplus (row_nat r) acc) (repeat 0%nat n) A.

  Definition mean_tr (A : bmat) (x : list T) : list T :=
    map (fun r => div O (dot r x) (nat2T (rowsum r))) A.

  Fixpoint vdivn (x : list T) (w : list nat) : list T :=
    match x, w with
    | a :: x', n :: w' => div O a (nat2T n) :: vdivn x' w'
    | _, _ => []
    end.
  Definition sum_tr (A : bmat) (x : list T) : list T :=
    let z := vdivn x (colsums (length x) A) in map (fun r => dot r z) A.

  (* what the code computed BEFORE femio commit b1450d5 for kind="sum" on
     (N,1) data (kept so that a regression is recognised):  wt = mat.sum(axis=0)
     is a (1,N) np.matrix, so  x / wt  broadcasts (N,1)/(1,N) to the N x N
     array X[i][j] = x_i / w_j and  mat @ X  is the M x N array
     Y[m][j] = (sum_i mat[m][i] x_i) / w_j *)
  Definition sum_tr_broadcast (A : bmat) (x : list T) : list (list T) :=
    map (fun r => map (fun w => div O (dot r x) (nat2T w)) (colsums (length x) A)) A.

  Fixpoint zipcons (r : list bool) (cols : bmat) : bmat :=
    match r, cols with
    | b :: r', c :: cols' => (b :: c) :: zipcons r' cols'
    | _, _ => []
    end.
  (* transpose of an (M x n) matrix: n rows of length M *)
  Fixpoint transpose (n : nat) (A : bmat) : bmat :=
    match A with
    | [] => repeat [] n
    | r :: A' => zipcons r (transpose n A')
    end.
End Transfer.

(* ----------------------------------------------------------- instances *)
(* execution instance: every result is reduced (Qred), otherwise sums over
   thousands of faces carry exponentially growing denominators *)
Definition QOps : Ops Q :=
  mkOps Q 0%Q 1%Q (fun a b => Qred (Qplus a b)) (fun a b => Qred (Qmult a b))
        (fun a b => Qred (Qminus a b)) Qopp (fun a b => Qred (Qdiv a b)) (fun z => inject_Z z).
Definition ZOps : Ops Z :=
  mkOps Z 0 1 Z.add Z.mul Z.sub Z.opp Z.div (fun z => z).

(* ------------------------------------------------- whole-mesh checker defs *)
(* the output mesh lists nodes with indices 0..K-1 (ids 1..K); it must use
   exactly those *)
Definition all_nodes (ps : list poly) : list Z := concat (map pnodes ps).
Definition uses_exactly (K : Z) (ps : list poly) : Prop :=
  forall v, In v (all_nodes ps) <-> 0 <= v < K.
Definition zmem (v : Z) (l : list Z) : bool := existsb (Z.eqb v) l.
Definition zrange (K : Z) : list Z := map Z.of_nat (seq 0 (Z.to_nat K)).
Definition uses_exactly_b (K : Z) (ps : list poly) : bool :=
  forallb (fun v => (0 <=? v) && (v <? K)) (all_nodes ps) &&
  forallb (fun k => zmem k (all_nodes ps)) (zrange K).

(* elements.data[p] = collect_vertex(p) + 1 : strictly increasing ids, the
   same set as the nodes of the faces *)
Fixpoint strict_sorted (l : list Z) : bool :=
  match l with
  | a :: ((b :: _) as r) => (a <? b) && strict_sorted r
  | _ => true
  end.
Definition conn_ok_b (conn : list Z) (p : poly) : bool :=
  strict_sorted conn &&
  forallb (fun i => zmem (i - 1) (pnodes p)) conn &&
  forallb (fun v => zmem (v + 1) conn) (pnodes p).

(* node table for execution over Q *)
Definition pos_of {T} (d : V3 T) (tbl : list (V3 T)) (v : Z) : V3 T :=
  if v <? 0 then d else nth (Z.to_nat v) tbl d.
Definition q0 : V3 Q := (0%Q, 0%Q, 0%Q).
Definition volQ (tbl : list (V3 Q)) (ps : list poly) : Q :=
  Qred (total_vol QOps (pos_of q0 tbl) ps).
