(* C20 — the angle test of remove_edges with cosine exactly 1 implies the
   coplanarity hypothesis of the volume theorem: two flat faces that share a
   node and whose normals are parallel and equally oriented lie in one plane. *)
From Coq Require Import List ZArith Bool Reals Lra Psatz.
Import ListNotations.
Set Default Timeout 120.
From FV.C20 Require Import Model ModelEdge ModelDriver ProofsVol ProofsEdgeVol.
Open Scope R_scope.

Notation dotR := (dotv ROps).
Notation crossR := (crossv ROps).

(* every node of the face lies in the plane through its first node that is
   orthogonal to calc_normal (true of every planar polygon) *)
Definition face_flat (pos : Z -> V3 R) (f : face) : Prop :=
  forall w, In w f -> dotR (normalv ROps pos f) (vsub ROps (pos w) (pos (hd 0%Z f))) = 0.

Lemma dot_sub : forall u x y z, dotR u (vsub ROps x z) = dotR u (vsub ROps x y) + dotR u (vsub ROps y z).
Proof. intros [[u0 u1] u2] [[x0 x1] x2] [[y0 y1] y2] [[z0 z1] z2]. cbv [dotv vsub ROps add mul sub]. ring. Qed.

Lemma dot_sub_self : forall u x, dotR u (vsub ROps x x) = 0.
Proof. intros [[u0 u1] u2] [[x0 x1] x2]. cbv [dotv vsub ROps add mul sub]. ring. Qed.

Lemma dot_anti : forall u x y, dotR u (vsub ROps x y) = - dotR u (vsub ROps y x).
Proof. intros [[u0 u1] u2] [[x0 x1] x2] [[y0 y1] y2]. cbv [dotv vsub ROps add mul sub]. ring. Qed.

(* Lagrange: |u x v|^2 = |u|^2 |v|^2 - (u.v)^2;  Binet-Cauchy:
   (u x v).(u x x) = (u.u)(v.x) - (u.x)(u.v) *)
Lemma parallel_transfer : forall u v x,
  dotR u v * dotR u v = dotR u u * dotR v v -> 0 < dotR u v -> dotR v x = 0 -> dotR u x = 0.
Proof.
  intros [[u0 u1] u2] [[v0 v1] v2] [[x0 x1] x2]. cbv [dotv ROps add mul]. intros E P H.
  set (c0 := u1 * v2 - u2 * v1). set (c1 := u2 * v0 - u0 * v2). set (c2 := u0 * v1 - u1 * v0).
  assert (L : c0 * c0 + c1 * c1 + c2 * c2 = 0) by (unfold c0, c1, c2; nra).
  assert (Z0 : c0 = 0) by nra. assert (Z1 : c1 = 0) by nra. assert (Z2 : c2 = 0) by nra.
  assert (B : (u0 * x0 + u1 * x1 + u2 * x2) * (u0 * v0 + u1 * v1 + u2 * v2) =
              (u0 * u0 + u1 * u1 + u2 * u2) * (v0 * x0 + v1 * x1 + v2 * x2)
              - (c0 * (u1 * x2 - u2 * x1) + c1 * (u2 * x0 - u0 * x2) + c2 * (u0 * x1 - u1 * x0)))
    by (unfold c0, c1, c2; ring).
  rewrite H, Z0, Z1, Z2 in B. nra.
Qed.

(* three vectors orthogonal to a non-zero vector are linearly dependent *)
Lemma orth_det0 : forall u x y z, 0 < dotR u u ->
  dotR u x = 0 -> dotR u y = 0 -> dotR u z = 0 -> det3 ROps x y z = 0.
Proof.
  intros [[u0 u1] u2] [[x0 x1] x2] [[y0 y1] y2] [[z0 z1] z2]. cbv [dotv det3 ROps add mul sub].
  intros P Hx Hy Hz.
  set (d := (x1 * y2 - x2 * y1) * z0 + (x2 * y0 - x0 * y2) * z1 + (x0 * y1 - x1 * y0) * z2).
  assert (I : d * (u0 * u0 + u1 * u1 + u2 * u2) =
    (u0 * x0 + u1 * x1 + u2 * x2) * (u0 * (y1 * z2 - y2 * z1) + u1 * (y2 * z0 - y0 * z2) + u2 * (y0 * z1 - y1 * z0)) +
    (u0 * y0 + u1 * y1 + u2 * y2) * (u0 * (z1 * x2 - z2 * x1) + u1 * (z2 * x0 - z0 * x2) + u2 * (z0 * x1 - z1 * x0)) +
    (u0 * z0 + u1 * z1 + u2 * z2) * (u0 * (x1 * y2 - x2 * y1) + u1 * (x2 * y0 - x0 * y2) + u2 * (x0 * y1 - x1 * y0)))
    by (unfold d; ring).
  rewrite Hx, Hy, Hz in I. nra.
Qed.

Theorem angle_test_planar : forall (pos : Z -> V3 R) f1 f2 a,
  In a f1 -> In a f2 -> face_flat pos f1 -> face_flat pos f2 ->
  let u := normalv ROps pos f1 in let v := normalv ROps pos f2 in
  0 < dotR u v -> dotR u v * dotR u v = dotR u u * dotR v v ->
  planar_at pos (pos a) (f1 ++ f2).
Proof.
  intros pos f1 f2 a Ha1 Ha2 F1 F2 u v P E. subst u v. unfold face_flat in F1, F2.
  set (u := normalv ROps pos f1) in *. set (v := normalv ROps pos f2) in *.
  assert (Puu : 0 < dotR u u).
  { destruct u as [[u0 u1] u2], v as [[v0 v1] v2]. cbv [dotv ROps add mul] in *. nra. }
  assert (K : forall w, In w (f1 ++ f2) -> dotR u (vsub ROps (pos w) (pos a)) = 0).
  { intros w Hw. apply in_app_or in Hw. destruct Hw as [Hw|Hw].
    - rewrite (dot_sub u _ (pos (hd 0%Z f1)) _), (dot_anti u (pos (hd 0%Z f1)) (pos a)).
      rewrite (F1 w Hw), (F1 a Ha1). ring.
    - apply (parallel_transfer u v _ E P).
      rewrite (dot_sub v _ (pos (hd 0%Z f2)) _), (dot_anti v (pos (hd 0%Z f2)) (pos a)).
      rewrite (F2 w Hw), (F2 a Ha2). ring. }
  intros x y z Hx Hy Hz. unfold planar_triple.
  apply (orth_det0 u _ _ _ Puu); apply K; assumption.
Qed.

(* remove_one_edge on a cell in which exactly two faces list A-B: if both are
   flat and the angle test sees a cosine of exactly 1, the volume is kept *)
Theorem remove_one_edge_cos1_volume : forall (pos : Z -> V3 R) p A B p' f1 f2,
  wf_poly p -> remove_one_edge p A B = Some p' ->
  filter (contains_ab A B) p = [f1; f2] -> In A f1 -> In A f2 ->
  face_flat pos f1 -> face_flat pos f2 ->
  0 < dotR (normalv ROps pos f1) (normalv ROps pos f2) ->
  dotR (normalv ROps pos f1) (normalv ROps pos f2) * dotR (normalv ROps pos f1) (normalv ROps pos f2) =
    dotR (normalv ROps pos f1) (normalv ROps pos f1) * dotR (normalv ROps pos f2) (normalv ROps pos f2) ->
  vol ROps pos p' = vol ROps pos p.
Proof.
  intros pos p A B p' f1 f2 Hwf H EC A1 A2 F1 F2 P E.
  apply (remove_one_edge_volume pos (pos A) p A B p' Hwf H).
  unfold fused_nodes. rewrite EC. simpl. rewrite app_nil_r.
  exact (angle_test_planar pos f1 f2 A A1 A2 F1 F2 P E).
Qed.
