(* C20 — model of remove_one_edge_from_polyhedron (mesh_compressor.py:764-846):
   merge the faces of one cell that contain the edge A-B (in either direction)
   into one face, if their remaining edges form a single simple cycle.
   Definitions only. *)
From Coq Require Import List ZArith Bool Arith Lia.
Import ListNotations.
From FV.C20 Require Import Model ModelReindex.
Open Scope Z_scope.

Definition is_ab (A B : Z) (e : Z * Z) : bool :=
  ((fst e =? A) && (snd e =? B)) || ((fst e =? B) && (snd e =? A)).

(* contain[f] *)
Definition contains_ab (A B : Z) (f : face) : bool := existsb (is_ab A B) (edges f).

(* nxt[ia] = ib, refusing a second successor for the same vertex
   (`if nxt[ia] != -1: return False, poly`) *)
Fixpoint build_nxt (es : list (Z * Z)) (acc : list (Z * Z)) : option (list (Z * Z)) :=
  match es with
  | [] => Some acc
  | (a, b) :: r => match lookup a acc with
                   | Some _ => None
                   | None => build_nxt r ((a, b) :: acc)
                   end
  end.

Fixpoint lmax (a : Z) (l : list Z) : Z :=
  match l with [] => a | b :: r => lmax (Z.max a b) r end.
Definition fmax (f : list Z) : Z := match f with [] => 0 | a :: r => lmax a r end.

(* cyc[i+1] = nxt[cyc[i]]; a missing successor is the index -1, which numpy
   reads as the LAST entry of the sorted vertex array V *)
Definition step (nxt : list (Z * Z)) (vlast : Z) (v : Z) : Z :=
  match lookup v nxt with Some b => b | None => vlast end.
Fixpoint walk (nxt : list (Z * Z)) (vlast : Z) (k : nat) (v : Z) : list Z :=
  match k with
  | O => []
  | S k' => v :: walk nxt vlast k' (step nxt vlast v)
  end.

Definition kept_edges (A B : Z) (C : list face) : list (Z * Z) :=
  filter (fun e => negb (is_ab A B e)) (flat_map edges C).

Definition remove_one_edge (p : poly) (A B : Z) : option poly :=
  let C := filter (contains_ab A B) p in
  let rest := filter (fun f => negb (contains_ab A B f)) p in
  match C with
  | [] => Some p
  | _ =>
    let vs := nodup Z.eq_dec (concat C) in          (* np.unique: as a set *)
    match build_nxt (kept_edges A B C) [] with
    | None => None
    | Some nxt =>
        let cyc := walk nxt (fmax vs) (length vs) (fmin vs) in
        if nodup_b cyc then Some (rest ++ [cyc]) else None
    end
  end.

(* ------------------------------------------------------------ coplanarity
   planar_triple = det (pos a - q, pos b - q, pos c - q): zero for all a b c of
   a node set iff the nodes lie in one plane through q.  Shared by the Prop
   `planar_at` (over R, ProofsEdgeVol.v) and the checker `planar_b` (over Q). *)
Section Planar.
  Context {T : Type} (O : Ops T).
  Definition vsub (u v : V3 T) : V3 T :=
    let '(a, b, c) := u in let '(d, e, f) := v in (sub O a d, sub O b e, sub O c f).
  Definition planar_triple (pos : Z -> V3 T) (q : V3 T) (a b c : Z) : T :=
    det3 O (vsub (pos a) q) (vsub (pos b) q) (vsub (pos c) q).
End Planar.

(* the nodes of the faces that remove_one_edge fuses *)
Definition fused_nodes (p : poly) (A B : Z) : list Z := concat (filter (contains_ab A B) p).
