(* C20 — model of the decision of remove_edges (mesh_compressor.py:872-995):
   calc_normal, the angle test can_rm (cosine of the normals of the two faces
   meeting in an edge >= THRESH) and the all-cells rule.  Definitions only;
   generic in the number type (R for the theorems, Q for execution). *)
From Coq Require Import List ZArith Bool Arith Lia QArith.
Import ListNotations.
From FV.C20 Require Import Model ModelReindex ModelEdge.
Open Scope Z_scope.

Section Driver.
  Context {T : Type} (O : Ops T).
  Definition crossv (u v : V3 T) : V3 T :=
    let '(a0, a1, a2) := u in let '(b0, b1, b2) := v in
    (sub O (mul O a1 b2) (mul O a2 b1), sub O (mul O a2 b0) (mul O a0 b2), sub O (mul O a0 b1) (mul O a1 b0)).
  Definition dotv (u v : V3 T) : T :=
    let '(a0, a1, a2) := u in let '(b0, b1, b2) := v in
    add O (add O (mul O a0 b0) (mul O a1 b1)) (mul O a2 b2).
  Variable pos : Z -> V3 T.
  (* calc_normal before normalisation: sum_{i>=2} (F1 - F0) x (Fi - F0) *)
  Definition normalv (f : face) : V3 T :=
    match f with
    | f0 :: f1 :: r =>
        vsum O (map (fun x => crossv (vsub O (pos f1) (pos f0)) (vsub O (pos x) (pos f0))) r)
    | _ => vzero O
    end.
End Driver.

(* ------------------------------------------------ execution over Q (exact) *)
Definition posQ (tbl : list (V3 Q)) : Z -> V3 Q := pos_of q0 tbl.
(* norms[e]: normal of the LAST face of the cell listing the directed edge e *)
Definition edge_normal (tbl : list (V3 Q)) (p : poly) (e : Z * Z) : option (V3 Q) :=
  match rev (filter (fun f => emem e (edges f)) p) with
  | f :: _ => Some (normalv QOps (posQ tbl) f)
  | [] => None
  end.
(* cos(u, v) >= thr for thr > 0, without square roots:
   u.v > 0  and  (u.v)^2 >= thr^2 |u|^2 |v|^2 *)
Definition cos_ge_b (u v : V3 Q) (thr : Q) : bool :=
  let d := dotv QOps u v in
  negb (Qle_bool d 0) && Qle_bool (thr * thr * dotv QOps u u * dotv QOps v v) (d * d).
(* can_rm of one cell for the edge {a,b} *)
Definition can_rm_b (tbl : list (V3 Q)) (thr : Q) (p : poly) (a b : Z) : bool :=
  match edge_normal tbl p (a, b), edge_normal tbl p (b, a) with
  | Some u, Some v => cos_ge_b u v thr
  | _, _ => false
  end.
Definition lists_edge (p : poly) (a b : Z) : bool := emem (a, b) (pedges p) || emem (b, a) (pedges p).
(* all-cells rule: np.min(edge_data[L:R, 2]) != 0 over the cells listing the edge *)
Definition admitted_b (tbl : list (V3 Q)) (thr : Q) (cells : list poly) (a b : Z) : bool :=
  forallb (fun p => negb (lists_edge p a b) || can_rm_b tbl thr p a b) cells.
(* the normals are exactly parallel and equally oriented (cosine exactly 1) *)
Definition cos_one_b (u v : V3 Q) : bool :=
  let d := dotv QOps u v in
  negb (Qle_bool d 0) && Qeq_bool (d * d) (dotv QOps u u * dotv QOps v v).

(* ------------------------------------------------ one pass of remove_edges
   E = np.unique of the keys a<<32|b with a < b over all cells (lexicographic
   order); can_rm and the list of cells of an edge are computed ONCE from the
   cells at the start of the pass; an admitted edge is removed from every cell
   that listed it if remove_one_edge accepts in all of them, otherwise from
   none. *)
Definition elt (e1 e2 : Z * Z) : bool :=
  (fst e1 <? fst e2) || ((fst e1 =? fst e2) && (snd e1 <? snd e2)).
Definition eeq (e1 e2 : Z * Z) : bool := (fst e1 =? fst e2) && (snd e1 =? snd e2).
Fixpoint insert_u (e : Z * Z) (l : list (Z * Z)) : list (Z * Z) :=
  match l with
  | [] => [e]
  | x :: r => if eeq e x then l else if elt e x then e :: l else x :: insert_u e r
  end.
Definition pass_edges (cells : list poly) : list (Z * Z) :=
  fold_right insert_u [] (filter (fun e => fst e <? snd e) (flat_map pedges cells)).

Fixpoint map2o (f : poly -> poly -> option poly) (l1 l2 : list poly) : list (option poly) :=
  match l1, l2 with
  | a :: r1, b :: r2 => f a b :: map2o f r1 r2
  | _, _ => []
  end.
Definition is_some (o : option poly) : bool := match o with Some _ => true | None => false end.
Definition oget (o : option poly) : poly := match o with Some p => p | None => [] end.

