(* C20 — executable comparison helpers used by the correspondence check and by
   the verified-oracle test of whole compressor runs (definitions only). *)
From Coq Require Import List ZArith Bool Arith QArith Qabs.
Import ListNotations.
From FV.C20 Require Import Model ModelReindex.
Open Scope Z_scope.

Definition face_eqb (f g : face) : bool := if feq_dec f g then true else false.
Definition fcount (k : face) (l : list face) : nat := count_occ feq_dec l k.
Definition perm_b (l1 l2 : list face) : bool :=
  forallb (fun k => Nat.eqb (fcount k l1) (fcount k l2)) (l1 ++ l2).

(* implementation output `out` for the group `cells` (order of cells and of
   emitted faces depends on the random hash base, so faces are compared as a
   multiset of canonical rotations; every emitted face must literally be a
   face of the group) *)
Definition merge_agree (cells : list poly) (out : poly) : bool :=
  perm_b (map canon out) (map canon (merge cells)) &&
  forallb (fun f => existsb (face_eqb f) (concat cells)) out.

Definition shares (p q : poly) : bool :=
  existsb (fun f => existsb (fun g => face_eqb (canon g) (canon f) || face_eqb (canon g) (rkey f)) q) p.

Fixpoint grow (fuel : nat) (reached rest : list poly) : list poly * list poly :=
  match fuel with
  | O => (reached, rest)
  | S n =>
      let '(yes, no) := partition (fun q => existsb (fun p => shares p q) reached) rest in
      match yes with
      | [] => (reached, rest)
      | _ => grow n (reached ++ yes) no
      end
  end.
Definition connected_b (cells : list poly) : bool :=
  match cells with
  | [] => true
  | c :: r => match snd (grow (length r) [c] r) with [] => true | _ => false end
  end.
Definition separate_b (g1 g2 : list poly) : bool :=
  negb (existsb (fun p => existsb (fun q => shares p q) g2) g1).

Definition znth {A} (d : A) (l : list A) (i : Z) : A := nth (Z.to_nat i) l d.
Definition pick {A} (d : A) (l : list A) (idx : list Z) : list A := map (znth d l) idx.
(* indices i with conv[i] = m *)
Definition group_of (conv : list Z) (m : Z) : list Z :=
  map fst (filter (fun ic => snd ic =? m) (combine (map Z.of_nat (seq 0 (length conv))) conv)).

(* ------------------------------------------------------------ rationals *)
Definition Qclose (tol a b : Q) : bool := Qle_bool (Qabs (a - b)) tol.
Fixpoint all2 {A B} (f : A -> B -> bool) (l1 : list A) (l2 : list B) : bool :=
  match l1, l2 with
  | [], [] => true
  | a :: r1, b :: r2 => f a b && all2 f r1 r2
  | _, _ => false
  end.
Definition sumQ (l : list Q) : Q := sumT QOps l.

Definition mat_ok (n : nat) (A : bmat) : bool := forallb (fun r => Nat.eqb (length r) n) A.
Definition rows_nonempty (A : bmat) : bool := forallb (fun r => Nat.ltb 0 (rowsum r)) A.
Definition cols_nonempty (n : nat) (A : bmat) : bool := forallb (Nat.ltb 0) (colsums n A).

(* correspondence of one column of transferred data *)
Definition chk_mean (tol : Q) (A : bmat) (x y : list Q) : bool :=
  mat_ok (length x) A && rows_nonempty A && all2 (Qclose tol) (mean_tr QOps A x) y.
Definition chk_sum (tol : Q) (A : bmat) (x y : list Q) : bool :=
  mat_ok (length x) A && cols_nonempty (length x) A && all2 (Qclose tol) (sum_tr QOps A x) y.
Definition chk_broadcast (tol : Q) (A : bmat) (x : list Q) (y : list (list Q)) : bool :=
  mat_ok (length x) A && all2 (all2 (Qclose tol)) (sum_tr_broadcast QOps A x) y.
(* property oracles on the implementation's output *)
Definition const_kept (c : Q) (y : list Q) : bool := forallb (Qeq_bool c) y.
Definition total_kept (tol : Q) (x y : list Q) : bool := Qclose tol (sumQ x) (sumQ y).

(* volume of the cells with the given indices *)
Definition cellsvol (tbl : list (V3 Q)) (cells : list poly) : Q := volQ tbl cells.

(* ---------------------------------------------------------------- reindex *)
Definition polys_eqb (a b : list poly) : bool :=
  if list_eq_dec (list_eq_dec feq_dec) a b then true else false.
Definition zlist_eqb (a b : list Z) : bool := if list_eq_dec Z.eq_dec a b then true else false.
Definition v3close (tol : Q) (u v : V3 Q) : bool :=
  let '(a, b, c) := u in let '(d, e, f) := v in Qclose tol a d && Qclose tol b e && Qclose tol c f.
Definition chk_reindex (tol : Q) (ps : list poly) (conv : list Z) (pos : list (V3 Q))
           (faces' : list poly) (conv' : list Z) (pos' : list (V3 Q)) : bool :=
  let r := reindex ps conv in
  polys_eqb (r_faces r) faces' && zlist_eqb (r_conv r) conv' &&
  (r_K r =? Z.of_nat (length pos')) &&
  forallb (fun k => v3close tol (recalc_pos QOps (pos_of q0 pos) (r_conv r) k) (znth q0 pos' k))
          (zrange (r_K r)).
(* hypotheses of C20_reindex_exact on this input *)
Definition reindex_hyps (ps : list poly) (conv : list Z) : bool :=
  forallb (fun v => (0 <=? v) && (v <? Z.of_nat (length conv)) && (znth v conv v =? v)) (all_nodes ps).

(* ------------------------------------------------ remove_one_edge (exact) *)
From FV.C20 Require Import ModelEdge.
Definition chk_remove_edge (p : poly) (A B : Z) (ok : bool) (p' : poly) : bool :=
  match remove_one_edge p A B with
  | Some q => ok && polys_eqb [q] [p']
  | None => negb ok && polys_eqb [p] [p']
  end.

(* ------------------------------- coplanarity / volume of one edge removal *)
(* all nodes of vs in one plane (through the first of them), exact rationals *)
Definition planar_b (tbl : list (V3 Q)) (vs : list Z) : bool :=
  match vs with
  | [] => true
  | v0 :: _ =>
      let pos := pos_of q0 tbl in
      forallb (fun a => forallb (fun b => forallb (fun c =>
        Qeq_bool (planar_triple QOps pos (pos v0) a b c) 0) vs) vs) vs
  end.
(* instance of C20_remove_one_edge_volume on a real step: if the step was
   accepted and the fused faces are coplanar the volume is unchanged *)
Definition chk_edge_vol (tbl : list (V3 Q)) (p : poly) (A B : Z) (ok : bool) (p' : poly) : bool :=
  if ok && planar_b tbl (fused_nodes p A B) then Qeq_bool (volQ tbl [p']) (volQ tbl [p]) else true.
