(* C20 — remove_one_edge_from_polyhedron: the directed edges of the new cell
   are exactly (as a multiset) the edges of the old one minus A-B / B-A, hence
   edge balance is preserved, and if the fused faces are coplanar the
   centroid-formula volume of the cell is unchanged. *)
From Coq Require Import List ZArith Bool Arith Lia Permutation.
Import ListNotations.
Set Default Timeout 120.
From FV.C20 Require Import Model ModelReindex ModelEdge ProofsCanon ProofsCheck ProofsReindex
  ProofsMerge ProofsVol ProofsEdge.
Open Scope Z_scope.

Definition notab (A B : Z) (e : Z * Z) : bool := negb (is_ab A B e).

(* ------------------------------------------------------------ list facts *)
Lemma build_nxt_rev : forall es acc nxt, build_nxt es acc = Some nxt -> nxt = rev es ++ acc.
Proof.
  induction es as [|[a b] es IH]; intros acc nxt H; simpl in H.
  - inversion H. reflexivity.
  - destruct (lookup a acc); [discriminate|]. rewrite (IH _ _ H). simpl.
    rewrite <- app_assoc. reflexivity.
Qed.

Lemma filter_split_perm : forall (X Y : Type) (g : X -> list Y) (h : Y -> bool) (c : X -> bool) (p : list X),
  Permutation (filter h (flat_map g p))
    (filter h (flat_map g (filter c p)) ++ filter h (flat_map g (filter (fun f => negb (c f)) p))).
Proof.
  intros X Y g h c. induction p as [|f p IH]; [constructor|].
  simpl. rewrite filter_app. destruct (c f); simpl.
  - rewrite filter_app, <- app_assoc. apply Permutation_app_head. exact IH.
  - rewrite filter_app.
    eapply Permutation_trans; [apply Permutation_app_head; exact IH|].
    rewrite !app_assoc. apply Permutation_app_tail. apply Permutation_app_comm.
Qed.

Lemma filter_all : forall (X : Type) (h : X -> bool) (l : list X),
  (forall x, In x l -> h x = true) -> filter h l = l.
Proof.
  intros X h. induction l as [|a l IH]; intros H; [reflexivity|].
  simpl. rewrite (H a (or_introl eq_refl)). f_equal. apply IH. intros x Hx. apply H. right. exact Hx.
Qed.

Lemma ecount_filter : forall (h : Z * Z -> bool) e l,
  ecount e (filter h l) = if h e then ecount e l else 0%nat.
Proof.
  intros h e. unfold ecount. destruct (h e) eqn:He; induction l as [|x l IH]; simpl; try reflexivity.
  - destruct (h x) eqn:Hx; simpl.
    + destruct (ZZ_eq_dec x e) as [E|N]; rewrite IH; reflexivity.
    + rewrite IH. destruct (ZZ_eq_dec x e) as [E|N]; [subst x; congruence | reflexivity].
  - destruct (h x) eqn:Hx; simpl.
    + destruct (ZZ_eq_dec x e) as [E|N]; [subst x; congruence | exact IH].
    + exact IH.
Qed.

(* faces that do not contain A-B have no A-B edge *)
Lemma rest_notab : forall A B (p : poly) e,
  In e (flat_map edges (filter (fun f => negb (contains_ab A B f)) p)) -> notab A B e = true.
Proof.
  intros A B p e H. apply in_flat_map in H. destruct H as (f & Hf & He).
  apply filter_In in Hf. destruct Hf as [_ Hc]. apply negb_true_iff in Hc.
  unfold notab. apply negb_true_iff. destruct (is_ab A B e) eqn:Hab; [|reflexivity].
  assert (contains_ab A B f = true) by (apply existsb_exists; exists e; tauto). congruence.
Qed.

(* ------------------------------------------- edges of the result: multiset *)
Section EdgesPerm.
  Variables (p : Model.poly) (A B : Z).
  Hypothesis Hcl : closed p.
  Let C := filter (contains_ab A B) p.
  Let rest := filter (fun f => negb (contains_ab A B f)) p.
  Let E := kept_edges A B C.
  Let V := nodup Z.eq_dec (concat C).
  Variable nxt : list (Z * Z).
  Hypothesis Hnxt : build_nxt E [] = Some nxt.
  Hypothesis HC : C <> [].
  Let cyc := walk nxt (fmax V) (length V) (fmin V).
  Hypothesis Hnd : NoDup cyc.

  Lemma E_fst_nodup : NoDup (map fst E).
  Proof.
    pose proof (nxt_nodup p A B nxt Hnxt) as H.
    rewrite (build_nxt_rev _ _ _ Hnxt), app_nil_r, map_rev in H.
    eapply Permutation_NoDup; [apply Permutation_sym, Permutation_rev | exact H].
  Qed.

  Lemma cyc_edges_perm : Permutation (edges cyc) E.
  Proof.
    apply NoDup_Permutation.
    - apply (NoDup_map_inv fst). rewrite edges_fst. exact Hnd.
    - apply (NoDup_map_inv fst). exact E_fst_nodup.
    - intros e. exact (edges_cyc_iff p A B Hcl nxt Hnxt HC Hnd e).
  Qed.

  Lemma result_edges_perm :
    Permutation (pedges (rest ++ [cyc])) (filter (notab A B) (pedges p)).
  Proof.
    unfold pedges. rewrite flat_map_app. simpl. rewrite app_nil_r.
    eapply Permutation_trans; [|apply Permutation_sym, (filter_split_perm _ _ edges (notab A B) (contains_ab A B) p)].
    fold C. fold rest.
    rewrite (filter_all _ (notab A B) (flat_map edges rest)) by (intros e He; exact (rest_notab A B p e He)).
    eapply Permutation_trans; [apply Permutation_app_comm|].
    apply Permutation_app_tail. exact cyc_edges_perm.
  Qed.

  (* the edge to remove is a proper edge *)
  Lemma A_neq_B : A <> B.
  Proof.
    intros EAB. destruct (nonempty_in _ C HC) as [f HfC].
    apply (C_iff p A B) in HfC. destruct HfC as [Hfp (e & He & Hab)].
    apply is_ab_iff in Hab. destruct (face_ok_p p Hcl f Hfp) as [Hn Hl].
    apply (no_loop_edge f A Hn); [lia|].
    destruct Hab as [-> | ->]; rewrite <- EAB in He; exact He.
  Qed.
End EdgesPerm.

(* the statement for the function itself *)
Theorem remove_one_edge_edges : forall p A B p',
  closed p -> remove_one_edge p A B = Some p' ->
  Permutation (pedges p') (filter (notab A B) (pedges p)).
Proof.
  intros p A B p' Hcl H. unfold remove_one_edge in H.
  destruct (filter (contains_ab A B) p) as [|f0 C'] eqn:EC.
  - inversion H; subst p'. rewrite filter_all; [apply Permutation_refl|].
    intros e He. unfold pedges in He. apply in_flat_map in He. destruct He as (f & Hf & He).
    unfold notab. apply negb_true_iff. destruct (is_ab A B e) eqn:Hab; [|reflexivity].
    assert (In f (filter (contains_ab A B) p)).
    { apply filter_In. split; [exact Hf|]. apply existsb_exists. exists e. tauto. }
    rewrite EC in H0. destruct H0.
  - rewrite <- EC in H.
    destruct (build_nxt (kept_edges A B (filter (contains_ab A B) p)) []) as [nxt|] eqn:Hn;
      [|destruct (filter (contains_ab A B) p); discriminate].
    assert (HC : filter (contains_ab A B) p <> []) by (rewrite EC; discriminate).
    destruct (filter (contains_ab A B) p) as [|g G] eqn:EG; [congruence|]. rewrite <- EG in *.
    match type of H with (if nodup_b ?c then _ else _) = _ => destruct (nodup_b c) eqn:Hd end;
      [|discriminate].
    inversion H; subst p'. apply nodup_b_iff in Hd.
    exact (result_edges_perm p A B Hcl nxt Hn HC Hd).
Qed.

(* edge balance (every directed edge as often as its reverse) is preserved, so
   the theorem composes over sequences of edge removals *)
Theorem remove_one_edge_wf : forall p A B p',
  wf_poly p -> remove_one_edge p A B = Some p' -> wf_poly p'.
Proof.
  intros p A B p' Hwf H.
  pose proof (wf_closed p Hwf) as Hcl.
  split; [exact (proj1 (remove_one_edge_closed p A B p' Hcl H))|].
  intros a b. pose proof (remove_one_edge_edges p A B p' Hcl H) as P.
  rewrite (ecount_perm _ _ _ P), (ecount_perm _ _ _ P), !ecount_filter.
  unfold notab. rewrite (is_ab_swap A B a b).
  destruct (negb (is_ab A B (b, a))); [apply (proj2 Hwf) | reflexivity].
Qed.

(* ================================================================ volume *)
From Coq Require Import Reals Lra RealField.
Open Scope R_scope.

Notation D := (det3 ROps).
Notation vsubR := (vsub ROps).

(* the faces over the node set vs lie in one plane through q *)
Definition planar_at (pos : Z -> V3 R) (q : V3 R) (vs : list Z) : Prop :=
  forall a b c, In a vs -> In b vs -> In c vs ->
    planar_triple ROps pos q a b c = 0.

Lemma D_sub1 : forall u q x y, D (vsubR u q) x y = D u x y - D q x y.
Proof. intros [[u0 u1] u2] [[q0 q1] q2] [[x0 x1] x2] [[y0 y1] y2]. cbv [det3 vsub ROps add mul sub]. ring. Qed.

Lemma D_trans : forall w q a b,
  D w (vsubR a q) (vsubR b q) = D w a b - (D w q b - D w q a).
Proof. intros [[w0 w1] w2] [[q0 q1] q2] [[a0 a1] a2] [[b0 b1] b2]. cbv [det3 vsub ROps add mul sub]. ring. Qed.

Lemma D_vadd : forall u v x y, D (vadd ROps u v) x y = D u x y + D v x y.
Proof. intros [[u0 u1] u2] [[v0 v1] v2] [[x0 x1] x2] [[y0 y1] y2]. cbv [det3 vadd ROps add mul sub]. ring. Qed.

Lemma D_vzero : forall x y, D (vzero ROps) x y = 0.
Proof. intros [[x0 x1] x2] [[y0 y1] y2]. cbv [det3 vzero ROps add mul sub zero]. ring. Qed.

Lemma D_vdiv : forall u k x y, k <> 0 -> D (vdiv ROps u k) x y = D u x y / k.
Proof.
  intros [[u0 u1] u2] k [[x0 x1] x2] [[y0 y1] y2] Hk. cbv [det3 vdiv ROps add mul sub div]. field. exact Hk.
Qed.

Lemma D_vsum : forall l x y, D (vsum ROps l) x y = sumT ROps (map (fun v => D v x y) l).
Proof.
  induction l as [|v l IH]; intros x y; simpl.
  - apply D_vzero.
  - rewrite D_vadd, IH. reflexivity.
Qed.

Lemma sumT_const : forall (X : Type) (c : R) (l : list X),
  sumT ROps (map (fun _ => c) l) = IZR (Z.of_nat (length l)) * c.
Proof.
  intros X c. induction l as [|a l IH].
  - simpl. ring.
  - cbn [map length sumT fold_right]. fold (sumT ROps (map (fun _ : X => c) l)). rewrite IH.
    rewrite Nat2Z.inj_succ, succ_IZR. cbv [ROps add]. ring.
Qed.

Lemma sumT_sub : forall (X : Type) (F G : X -> R) l,
  sumT ROps (map (fun e => F e - G e) l) = sumT ROps (map F l) - sumT ROps (map G l).
Proof.
  intros X F G. induction l as [|a l IH]; simpl.
  - ring.
  - rewrite IH. ring.
Qed.

Lemma sumT_zero : forall (X : Type) (F : X -> R) l,
  (forall e, In e l -> F e = 0) -> sumT ROps (map F l) = 0.
Proof.
  intros X F. induction l as [|a l IH]; intros H; simpl; [reflexivity|].
  rewrite (H a (or_introl eq_refl)), IH; [ring|]. intros e He. apply H. right. exact He.
Qed.

Lemma sumT_scale : forall (X : Type) (F : X -> R) k l,
  sumT ROps (map (fun e => F e / k) l) = sumT ROps (map F l) / k.
Proof.
  intros X F k. induction l as [|a l IH]; simpl.
  - unfold Rdiv. ring.
  - rewrite IH. unfold Rdiv. ring.
Qed.

(* a sum of differences h(head) - h(tail) over the edges of a cycle vanishes *)
Lemma cycle_sum : forall (h : Z -> R) f,
  sumT ROps (map (fun e => h (snd e) - h (fst e)) (edges f)) = 0.
Proof.
  intros h f. rewrite sumT_sub.
  assert (E1 : map (fun e : Z * Z => h (fst e)) (edges f) = map h f).
  { rewrite <- (map_map fst h), edges_fst. reflexivity. }
  assert (E2 : Permutation (map (fun e : Z * Z => h (snd e)) (edges f)) (map h f)).
  { rewrite <- (map_map snd h). apply Permutation_map.
    destruct f as [|a r]; [constructor|]. rewrite edges_cons, chain_snd.
    apply Permutation_sym, Permutation_cons_append. }
  rewrite E1, (sumT_perm R ROps RTheory _ _ E2). ring.
Qed.

Section PlanarFace.
  Variable pos : Z -> V3 R.
  Variable q : V3 R.
  Definition gq (e : Z * Z) : R := D q (pos (fst e)) (pos (snd e)).

  Lemma gq_swap : forall a b, gq (b, a) = - gq (a, b).
  Proof. intros a b. unfold gq. simpl. apply (det3_swap R ROps RTheory). Qed.

  (* linearity of the centroid *)
  Lemma centroid_lin : forall f x y, f <> [] ->
    D (vsubR (centroid ROps pos f) q) x y =
    sumT ROps (map (fun v => D (vsubR (pos v) q) x y) f) / IZR (Z.of_nat (length f)).
  Proof.
    intros f x y Hf.
    assert (Hk : IZR (Z.of_nat (length f)) <> 0).
    { apply not_0_IZR. destruct f; [congruence | simpl; lia]. }
    rewrite D_sub1. unfold centroid. change (of_Z ROps) with IZR.
    rewrite D_vdiv by exact Hk. rewrite D_vsum, map_map.
    rewrite (map_ext (fun v => D (vsubR (pos v) q) x y) (fun v => D (pos v) x y - D q x y))
      by (intros v; apply D_sub1).
    rewrite sumT_sub, sumT_const. field. exact Hk.
  Qed.

  (* for a planar face the centroid in the volume formula may be replaced by
     any point q of its plane *)
  Lemma fvol6_planar : forall f vs, f <> [] -> incl f vs -> planar_at pos q vs ->
    fvol6 ROps pos f = sumT ROps (map gq (edges f)).
  Proof.
    intros f vs Hf Hin Hpl. unfold fvol6.
    set (c := centroid ROps pos f).
    apply Rminus_diag_uniq. rewrite <- sumT_sub.
    rewrite (map_ext_in _ (fun e => D (vsubR c q) (vsubR (pos (fst e)) q) (vsubR (pos (snd e)) q)
                                      + ((fun v => D (vsubR c q) q (pos v)) (snd e)
                                         - (fun v => D (vsubR c q) q (pos v)) (fst e)))).
    2:{ intros e _. unfold gq. rewrite <- D_sub1, D_trans. ring. }
    rewrite (sumT_map_add R ROps RTheory).
    rewrite (cycle_sum (fun v => D (vsubR c q) q (pos v)) f).
    rewrite sumT_zero; [cbv [ROps add]; ring|].
    intros [a b] He. simpl. destruct (in_edges_in _ _ _ He) as [Ha Hb].
    unfold c. rewrite centroid_lin by exact Hf.
    rewrite sumT_zero; [unfold Rdiv; ring|].
    intros v Hv. apply Hpl; apply Hin; assumption.
  Qed.
End PlanarFace.

(* sum of an antisymmetric edge function over the A-B / B-A edges *)
Lemma sum_ab : forall (g : Z * Z -> R) A B l, A <> B ->
  sumT ROps (map g (filter (is_ab A B) l)) =
  INR (ecount (A, B) l) * g (A, B) + INR (ecount (B, A) l) * g (B, A).
Proof.
  intros g A B l Hne. unfold ecount. induction l as [|e l IH].
  - simpl. ring.
  - cbn [filter]. destruct (is_ab A B e) eqn:Hab.
    + cbn [map sumT fold_right]. fold (sumT ROps (map g (filter (is_ab A B) l))). rewrite IH.
      apply is_ab_iff in Hab. destruct Hab as [-> | ->]; cbn [count_occ].
      * destruct (ZZ_eq_dec (A, B) (A, B)) as [_|N]; [|congruence].
        destruct (ZZ_eq_dec (A, B) (B, A)) as [X|_]; [inversion X; congruence|].
        rewrite S_INR. cbv [ROps add]. ring.
      * destruct (ZZ_eq_dec (B, A) (B, A)) as [_|N]; [|congruence].
        destruct (ZZ_eq_dec (B, A) (A, B)) as [X|_]; [inversion X; congruence|].
        rewrite S_INR. cbv [ROps add]. ring.
    + rewrite IH. cbn [count_occ].
      destruct (ZZ_eq_dec e (A, B)) as [X|_].
      { subst e. assert (is_ab A B (A, B) = true) by (apply is_ab_iff; auto). congruence. }
      destruct (ZZ_eq_dec e (B, A)) as [X|_].
      { subst e. assert (is_ab A B (B, A) = true) by (apply is_ab_iff; auto). congruence. }
      reflexivity.
Qed.

Lemma sumT_filter_split : forall (X : Type) (g : X -> R) (h : X -> bool) l,
  sumT ROps (map g l) = sumT ROps (map g (filter h l)) + sumT ROps (map g (filter (fun e => negb (h e)) l)).
Proof.
  intros X g h. induction l as [|a l IH]; simpl; [ring|].
  destruct (h a); simpl; rewrite IH; ring.
Qed.

Lemma sumT_flat_map : forall (X Y : Type) (g : Y -> R) (k : X -> list Y) l,
  sumT ROps (map g (flat_map k l)) = sumT ROps (map (fun x => sumT ROps (map g (k x))) l).
Proof.
  intros X Y g k. induction l as [|a l IH]; simpl; [reflexivity|].
  rewrite map_app, (sumT_app R ROps RTheory), IH. reflexivity.
Qed.

Lemma vol6_split : forall pos (c : face -> bool) (p : Model.poly),
  vol6 ROps pos p = vol6 ROps pos (filter c p) + vol6 ROps pos (filter (fun f => negb (c f)) p).
Proof. intros pos c p. unfold vol6. apply sumT_filter_split. Qed.

Section RemoveEdgeVol.
  Variable pos : Z -> V3 R.
  Variable q : V3 R.
  Variables (p : Model.poly) (A B : Z).
  Hypothesis Hwf : wf_poly p.
  Let C := filter (contains_ab A B) p.
  Let rest := filter (fun f => negb (contains_ab A B f)) p.
  Let E := kept_edges A B C.
  Let V := nodup Z.eq_dec (concat C).
  Variable nxt : list (Z * Z).
  Hypothesis Hnxt : build_nxt E [] = Some nxt.
  Hypothesis HC : C <> [].
  Let cyc := walk nxt (fmax V) (length V) (fmin V).
  Hypothesis Hnd : NoDup cyc.
  Hypothesis Hpl : planar_at pos q (concat C).

  Let Hcl : closed p := wf_closed p Hwf.

  Lemma C_faces_planar : forall f, In f C -> fvol6 ROps pos f = sumT ROps (map (gq pos q) (edges f)).
  Proof.
    intros f Hf. apply (fvol6_planar pos q f (concat C)).
    - apply (C_iff p A B) in Hf. destruct Hf as [Hfp _].
      destruct (face_ok_p p Hcl f Hfp) as [_ Hl]. destruct f; [simpl in Hl; lia | discriminate].
    - intros v Hv. apply in_concat. exists f. tauto.
    - exact Hpl.
  Qed.

  Lemma cyc_planar : fvol6 ROps pos cyc = sumT ROps (map (gq pos q) (edges cyc)).
  Proof.
    apply (fvol6_planar pos q cyc (concat C)).
    - pose proof (cyc_face_ok p A B Hcl nxt HC Hnd) as [_ Hl].
      fold C V cyc in Hl. destruct cyc; [simpl in Hl; lia | discriminate].
    - intros v Hv. apply (cyc_incl_V p A B Hcl nxt Hnxt HC) in Hv.
      unfold V in Hv. apply nodup_In in Hv. exact Hv.
    - exact Hpl.
  Qed.

  (* A-B occurs in the faces to merge as often as B-A *)
  Lemma ab_counts : ecount (A, B) (flat_map edges C) = ecount (B, A) (flat_map edges C).
  Proof.
    assert (X : forall e, is_ab A B e = true -> ecount e (flat_map edges C) = ecount e (pedges p)).
    { intros e Hab.
      pose proof (filter_split_perm _ _ edges (fun _ : Z * Z => true) (contains_ab A B) p) as P.
      rewrite !(filter_all _ (fun _ : Z * Z => true)) in P by reflexivity. fold C rest in P.
      unfold pedges. rewrite (ecount_perm _ _ _ P). unfold ecount. rewrite count_occ_app.
      rewrite (proj1 (count_occ_not_In ZZ_eq_dec (flat_map edges rest) e)); [lia|].
      intros Hin. apply (rest_notab A B p) in Hin. unfold notab in Hin. rewrite Hab in Hin. discriminate. }
    rewrite (X (A, B)) by (apply is_ab_iff; auto).
    rewrite (X (B, A)) by (apply is_ab_iff; auto).
    apply (proj2 Hwf).
  Qed.

  Theorem merged_vol6 : vol6 ROps pos (rest ++ [cyc]) = vol6 ROps pos p.
  Proof.
    rewrite (vol6_split pos (contains_ab A B) p). fold C rest.
    unfold vol6 at 1. rewrite map_app, (sumT_app R ROps RTheory). fold (vol6 ROps pos rest).
    cbn [map sumT fold_right]. rewrite cyc_planar.
    assert (Hc : sumT ROps (map (gq pos q) (edges cyc)) = sumT ROps (map (gq pos q) E)).
    { apply (sumT_perm R ROps RTheory), Permutation_map.
      exact (cyc_edges_perm p A B Hcl nxt Hnxt HC Hnd). }
    rewrite Hc.
    assert (HCv : vol6 ROps pos C = sumT ROps (map (gq pos q) (flat_map edges C))).
    { unfold vol6. rewrite sumT_flat_map. f_equal. apply map_ext_in. intros f Hf. apply C_faces_planar. exact Hf. }
    rewrite HCv, (sumT_filter_split _ (gq pos q) (is_ab A B) (flat_map edges C)).
    rewrite (sum_ab (gq pos q) A B _ (A_neq_B p A B Hcl HC)), ab_counts, gq_swap.
    unfold E, kept_edges. cbv [ROps add zero]. ring.
  Qed.
End RemoveEdgeVol.

(* whenever remove_one_edge accepts and the faces it fuses (those containing
   A-B in either direction) are coplanar, the volume of the cell is unchanged *)
Theorem remove_one_edge_volume : forall (pos : Z -> V3 R) (q : V3 R) p A B p',
  wf_poly p -> remove_one_edge p A B = Some p' ->
  planar_at pos q (fused_nodes p A B) ->
  vol ROps pos p' = vol ROps pos p.
Proof.
  intros pos q p A B p' Hwf H Hpl. unfold fused_nodes in Hpl. unfold vol. f_equal. unfold remove_one_edge in H.
  destruct (filter (contains_ab A B) p) as [|f0 C'] eqn:EC.
  - inversion H; subst. reflexivity.
  - rewrite <- EC in H, Hpl.
    destruct (build_nxt (kept_edges A B (filter (contains_ab A B) p)) []) as [nxt|] eqn:Hn;
      [|destruct (filter (contains_ab A B) p); discriminate].
    assert (HC : filter (contains_ab A B) p <> []) by (rewrite EC; discriminate).
    destruct (filter (contains_ab A B) p) as [|g G] eqn:EG; [congruence|]. rewrite <- EG in *.
    match type of H with (if nodup_b ?c then _ else _) = _ => destruct (nodup_b c) eqn:Hd end;
      [|discriminate].
    inversion H; subst p'. apply nodup_b_iff in Hd.
    exact (merged_vol6 pos q p A B Hwf nxt Hn HC Hd Hpl).
Qed.

(* a sufficient condition used for the non-vacuity example: all nodes at the
   height of q *)
Lemma planar_flat : forall (pos : Z -> V3 R) q vs,
  (forall v, In v vs -> snd (pos v) = snd q) -> planar_at pos q vs.
Proof.
  intros pos q vs H a b c Ha Hb Hc. unfold planar_triple.
  pose proof (H a Ha) as E1. pose proof (H b Hb) as E2. pose proof (H c Hc) as E3.
  destruct (pos a) as [[a0 a1] a2], (pos b) as [[b0 b1] b2], (pos c) as [[c0 c1] c2], q as [[q0 q1] q2].
  simpl in E1, E2, E3. subst a2 b2 c2. cbv [det3 vsub ROps add mul sub]. ring.
Qed.
