(* C20 — the cancellation theorem for merge_polyhedrons.
   For every "odd class function" w (w depends on a face only through its
   canonical rotation, and w (rev f) = - w f) with values in a torsion-free
   commutative ring, the sum of w over the merged face list equals the sum over
   all input faces.  Volume (w = face volume) and edge balance (w = signed
   count of a directed edge) are both instances. *)
From Coq Require Import List ZArith Bool Arith Lia Permutation Ring.
Import ListNotations.
From FV.C20 Require Import Model ProofsCanon.

(* ------------------------------------------------------ reps / cntk facts *)
Lemma same_key_true : forall f g, same_key f g = true <-> canon g = canon f.
Proof. intros f g. unfold same_key. destruct (feq_dec (canon g) (canon f)); split; congruence. Qed.

Lemma reps_incl : forall fs, incl (reps fs) fs.
Proof.
  induction fs as [|f r IH]; intros x H; [destruct H|].
  simpl in H. destruct H as [H|H]; [left; exact H|].
  apply filter_In in H. right. apply IH. tauto.
Qed.

Lemma reps_keys_complete : forall fs f, In f fs -> In (canon f) (map canon (reps fs)).
Proof.
  induction fs as [|g r IH]; intros f H; [destruct H|].
  simpl. destruct (feq_dec (canon f) (canon g)) as [E|E].
  - left. symmetry. exact E.
  - right. destruct H as [H|H]; [subst; congruence|].
    specialize (IH f H). apply in_map_iff in IH. destruct IH as (x & Ex & Hx).
    apply in_map_iff. exists x. split; [exact Ex|].
    apply filter_In. split; [exact Hx|].
    apply negb_true_iff. apply not_true_iff_false. rewrite same_key_true. congruence.
Qed.

Lemma reps_keys_nodup : forall fs, NoDup (map canon (reps fs)).
Proof.
  induction fs as [|g r IH]; simpl; [constructor|].
  constructor.
  - intros H. apply in_map_iff in H. destruct H as (x & Ex & Hx).
    apply filter_In in Hx. destruct Hx as [_ Hx].
    apply negb_true_iff in Hx. apply not_true_iff_false in Hx.
    apply Hx. apply same_key_true. exact Ex.
  - clear -IH. induction (reps r) as [|x l IHl]; simpl; [constructor|].
    simpl in IH. inversion IH; subst.
    destruct (negb (same_key g x)); simpl; auto.
    constructor; auto.
    intros H. apply H1. apply in_map_iff in H. destruct H as (y & Ey & Hy).
    apply filter_In in Hy. apply in_map_iff. exists y. tauto.
Qed.

Lemma cntk_app : forall k l1 l2, cntk k (l1 ++ l2) = (cntk k l1 + cntk k l2)%nat.
Proof. intros. unfold cntk. rewrite map_app, count_occ_app. reflexivity. Qed.

Lemma cntk_repeat : forall k r n,
  cntk k (repeat r n) = if feq_dec (canon r) k then n else 0%nat.
Proof.
  intros k r n. unfold cntk. induction n as [|n IH]; simpl.
  - destruct (feq_dec (canon r) k); reflexivity.
  - destruct (feq_dec (canon r) k); simpl; lia.
Qed.

Lemma cntk_notin : forall k l, ~ In k (map canon l) -> cntk k l = 0%nat.
Proof. intros k l H. unfold cntk. apply count_occ_not_In. exact H. Qed.

Lemma cntk_flat_notin : forall (m : face -> nat) k rs, ~ In k (map canon rs) ->
  cntk k (flat_map (fun r => repeat r (m r)) rs) = 0%nat.
Proof.
  intros m k rs H. apply cntk_notin. intros X. apply H.
  apply in_map_iff in X. destruct X as (x & Ex & Hx).
  apply in_flat_map in Hx. destruct Hx as (r & Hr & Hx).
  apply repeat_spec in Hx. subst x. apply in_map_iff. exists r. tauto.
Qed.

Lemma cntk_flat_in : forall (m : face -> nat) rs r0, NoDup (map canon rs) -> In r0 rs ->
  cntk (canon r0) (flat_map (fun r => repeat r (m r)) rs) = m r0.
Proof.
  intros m rs r0. induction rs as [|r rs IH]; intros Hnd Hin; [destruct Hin|].
  simpl in *. inversion Hnd as [|? ? Hn1 Hn2]; subst.
  rewrite cntk_app, cntk_repeat.
  destruct Hin as [Hin|Hin].
  - subst r0. destruct (feq_dec (canon r) (canon r)) as [_|N]; [|congruence].
    rewrite cntk_flat_notin by exact Hn1. lia.
  - destruct (feq_dec (canon r) (canon r0)) as [E|N].
    + exfalso. apply Hn1. rewrite E. apply in_map. exact Hin.
    + rewrite IH by assumption. reflexivity.
Qed.

(* multiplicity of every class in the merged list *)
Lemma cntk_merge : forall fs k, Forall (@NoDup Z) fs -> NoDup k -> canon k = k ->
  cntk k (merge_faces fs) = (cntk k fs - cntk (rkey k) fs)%nat.
Proof.
  intros fs k Hfs Hk Ek. unfold merge_faces.
  destruct (in_dec feq_dec k (map canon (reps fs))) as [Hin|Hout].
  - apply in_map_iff in Hin. destruct Hin as (r & Er & Hr).
    rewrite <- Er. rewrite cntk_flat_in by (auto using reps_keys_nodup).
    unfold mult. rewrite rkey_canon; [reflexivity|].
    rewrite Forall_forall in Hfs. apply Hfs. apply reps_incl. exact Hr.
  - rewrite cntk_flat_notin by exact Hout.
    rewrite (cntk_notin k fs); [reflexivity|].
    intros X. apply Hout. apply in_map_iff in X. destruct X as (f & Ef & Hf).
    rewrite <- Ef. apply reps_keys_complete. exact Hf.
Qed.

Lemma merge_faces_incl : forall fs, incl (merge_faces fs) fs.
Proof.
  intros fs x H. unfold merge_faces in H. apply in_flat_map in H.
  destruct H as (r & Hr & Hx). apply repeat_spec in Hx. subst. apply reps_incl. exact Hr.
Qed.

(* ------------------------------------------------------------ generic sums *)
Section Cancel.
  Variable T : Type.
  Variable Os : Ops T.
  Hypothesis rt : ring_theory (zero Os) (one Os) (add Os) (mul Os) (sub Os) (opp Os) eq.
  Hypothesis tf : forall x, add Os x x = zero Os -> x = zero Os.
  Add Ring Tring : rt.

  Notation "0" := (zero Os).
  Infix "+" := (add Os).
  Notation "- x" := (opp Os x).

  Fixpoint nmul (n : nat) (x : T) : T :=
    match n with 0%nat => 0 | S n' => x + nmul n' x end.

  Lemma nmul_add : forall a b x, nmul (a + b) x = nmul a x + nmul b x.
  Proof. induction a as [|a IH]; intros; simpl; [ring | rewrite IH; ring]. Qed.

  Lemma nmul_opp : forall n x, nmul n (- x) = - nmul n x.
  Proof. induction n as [|n IH]; intros; simpl; [ring | rewrite IH; ring]. Qed.

  Lemma sumT_app : forall l1 l2, sumT Os (l1 ++ l2) = sumT Os l1 + sumT Os l2.
  Proof. induction l1 as [|a l IH]; intros; simpl; [ring | rewrite IH; ring]. Qed.

  Lemma sumT_perm : forall l l', Permutation l l' -> sumT Os l = sumT Os l'.
  Proof.
    induction 1; simpl; try congruence; try ring.
  Qed.

  Lemma sumT_map_add : forall (A : Type) (f g : A -> T) l,
    sumT Os (map (fun k => f k + g k) l) = sumT Os (map f l) + sumT Os (map g l).
  Proof. induction l as [|a l IH]; simpl; [ring | rewrite IH; ring]. Qed.

  Lemma sumT_map_opp : forall (A : Type) (f : A -> T) l,
    sumT Os (map (fun k => - f k) l) = - sumT Os (map f l).
  Proof. induction l as [|a l IH]; simpl; [ring | rewrite IH; ring]. Qed.

  Lemma sumT_map_zero : forall (A : Type) (l : list A), sumT Os (map (fun _ => 0) l) = 0.
  Proof. induction l as [|a l IH]; simpl; [reflexivity | rewrite IH; ring]. Qed.

  Lemma sumT_repeat : forall x n, sumT Os (repeat x n) = nmul n x.
  Proof. induction n as [|n IH]; simpl; [reflexivity | rewrite IH; reflexivity]. Qed.

  (* sum of phi over a key list = sum over a duplicate-free universe of
     multiplicity * phi *)
  Lemma sum_bump : forall (g g' : face -> T) (k0 : face) (x : T) U,
    NoDup U -> In k0 U ->
    (forall k, g' k = if feq_dec k0 k then x + g k else g k) ->
    sumT Os (map g' U) = x + sumT Os (map g U).
  Proof.
    intros g g' k0 x U. induction U as [|u U IH]; intros Hnd Hin Hg; [destruct Hin|].
    inversion Hnd as [|? ? Hn1 Hn2]; subst. simpl. rewrite (Hg u).
    destruct (feq_dec k0 u) as [E|N].
    - subst u.
      assert (Eq : map g' U = map g U).
      { apply map_ext_in. intros k Hk. rewrite Hg.
        destruct (feq_dec k0 k); [subst; contradiction | reflexivity]. }
      rewrite Eq. ring.
    - destruct Hin as [Hin|Hin]; [congruence|].
      rewrite (IH Hn2 Hin Hg). ring.
  Qed.

  Lemma sum_by_count : forall (phi : face -> T) U ks, NoDup U -> incl ks U ->
    sumT Os (map phi ks) = sumT Os (map (fun k => nmul (count_occ feq_dec ks k) (phi k)) U).
  Proof.
    intros phi U ks Hnd. induction ks as [|k0 ks IH]; intros Hincl.
    - simpl. symmetry. apply sumT_map_zero.
    - simpl map at 1. simpl sumT at 1.
      rewrite IH by (intros z Hz; apply Hincl; right; exact Hz).
      symmetry. apply (sum_bump _ _ k0); [exact Hnd | apply Hincl; left; reflexivity|].
      intros k. simpl. destruct (feq_dec k0 k) as [E|N]; [subst; reflexivity | reflexivity].
  Qed.

  (* ---------------------------------------------------------------- main *)
  Variable w : face -> T.
  Hypothesis w_class : forall f g, canon f = canon g -> w f = w g.
  Hypothesis w_odd : forall f, w (rev f) = - w f.

  Definition sumw (l : list face) : T := sumT Os (map w l).

  Lemma w_canon : forall f, w (canon f) = w f.
  Proof. intros f. apply w_class. apply canon_idem. Qed.

  Lemma sumw_keys : forall l, sumT Os (map w (map canon l)) = sumw l.
  Proof.
    intros l. unfold sumw. rewrite map_map. f_equal. apply map_ext. intros; apply w_canon.
  Qed.

  Lemma w_rkey : forall f, w (rkey f) = - w f.
  Proof. intros f. unfold rkey. rewrite w_canon. apply w_odd. Qed.

  Section WithFaces.
    Variable fs : list face.
    Hypothesis Hfs : Forall (@NoDup Z) fs.

    Let U := nodup feq_dec (map canon fs ++ map rkey fs).
    Let c (k : face) := cntk k fs.

    Lemma U_nodup : NoDup U. Proof. apply NoDup_nodup. Qed.

    Lemma U_spec : forall k, In k U ->
      exists f, NoDup f /\ k = canon f /\ In (rkey f) U.
    Proof.
      intros k Hk. unfold U in *. rewrite nodup_In in Hk.
      rewrite Forall_forall in Hfs.
      apply in_app_or in Hk. destruct Hk as [Hk|Hk]; apply in_map_iff in Hk;
        destruct Hk as (f & Ef & Hf).
      - exists f. split; [apply Hfs; exact Hf|]. split; [symmetry; exact Ef|].
        rewrite nodup_In. apply in_or_app. right. apply in_map. exact Hf.
      - exists (rev f). split; [apply NoDup_rev, Hfs; exact Hf|].
        split; [symmetry; exact Ef|].
        rewrite nodup_In. apply in_or_app. left.
        unfold rkey. rewrite rev_involutive. apply in_map. exact Hf.
    Qed.

    Lemma U_rho_in : forall k, In k U -> In (rkey k) U.
    Proof.
      intros k Hk. destruct (U_spec k Hk) as (f & Hn & Ek & Hin).
      rewrite Ek, rkey_canon by exact Hn. exact Hin.
    Qed.

    Lemma U_rho_inv : forall k, In k U -> rkey (rkey k) = k.
    Proof.
      intros k Hk. destruct (U_spec k Hk) as (f & Hn & Ek & Hin).
      rewrite Ek. rewrite (rkey_canon f Hn). apply rkey_rkey. exact Hn.
    Qed.

    Lemma U_key : forall k, In k U -> NoDup k /\ canon k = k.
    Proof.
      intros k Hk. destruct (U_spec k Hk) as (f & Hn & Ek & Hin).
      rewrite Ek. split; [apply canon_NoDup; exact Hn | apply canon_idem].
    Qed.

    Lemma U_perm : Permutation (map rkey U) U.
    Proof.
      apply NoDup_Permutation_bis.
      - (* injective on U *)
        pose proof U_nodup as Hnd. pose proof U_rho_inv as Hinv.
        induction U as [|u V IH]; simpl; [constructor|].
        inversion Hnd as [|? ? Hn1 Hn2]; subst.
        constructor.
        + intros X. apply in_map_iff in X. destruct X as (v & Ev & Hv).
          apply Hn1.
          assert (v = u).
          { rewrite <- (Hinv v) by (right; exact Hv).
            rewrite <- (Hinv u) by (left; reflexivity). rewrite Ev. reflexivity. }
          subst. exact Hv.
        + apply IH; [exact Hn2|]. intros k Hk. apply Hinv. right. exact Hk.
      - rewrite map_length. apply le_n.
      - intros x Hx. apply in_map_iff in Hx. destruct Hx as (k & Ek & Hk).
        subst x. apply U_rho_in. exact Hk.
    Qed.

    Let g (k : face) : T := nmul (Nat.min (c k) (c (rkey k))) (w k).

    Lemma cancelled_sum_zero : sumT Os (map g U) = 0.
    Proof.
      apply tf.
      assert (E : sumT Os (map g U) = - sumT Os (map g U)).
      { rewrite <- sumT_map_opp.
        rewrite <- (sumT_perm _ _ (Permutation_map g U_perm)).
        rewrite map_map. f_equal. apply map_ext_in. intros k Hk.
        unfold g. rewrite (U_rho_inv k Hk), w_rkey, nmul_opp, Nat.min_comm. reflexivity. }
      rewrite E at 1. ring.
    Qed.

    Lemma keys_in_U : forall l, incl l fs -> incl (map canon l) U.
    Proof.
      intros l Hl k Hk. apply in_map_iff in Hk. destruct Hk as (f & Ef & Hf).
      unfold U. rewrite nodup_In. apply in_or_app. left. rewrite <- Ef.
      apply in_map. apply Hl. exact Hf.
    Qed.

    Theorem merge_sum : sumw (merge_faces fs) = sumw fs.
    Proof.
      rewrite <- (sumw_keys (merge_faces fs)), <- (sumw_keys fs).
      rewrite (sum_by_count w U (map canon (merge_faces fs)) U_nodup
                 (keys_in_U _ (merge_faces_incl fs))).
      rewrite (sum_by_count w U (map canon fs) U_nodup (keys_in_U _ (incl_refl fs))).
      assert (E : sumT Os (map (fun k => nmul (count_occ feq_dec (map canon fs) k) (w k)) U)
                = sumT Os (map (fun k => nmul (count_occ feq_dec (map canon (merge_faces fs)) k) (w k)
                                         + g k) U)).
      { f_equal. apply map_ext_in. intros k Hk.
        destruct (U_key k Hk) as [Hn Ec].
        change (count_occ feq_dec (map canon (merge_faces fs)) k) with (cntk k (merge_faces fs)).
        rewrite (cntk_merge fs k Hfs Hn Ec).
        change (count_occ feq_dec (map canon fs) k) with (c k).
        unfold g. fold (c k) (c (rkey k)). rewrite <- nmul_add. f_equal. lia. }
      rewrite E, sumT_map_add, cancelled_sum_zero. ring.
    Qed.
  End WithFaces.
End Cancel.
