(* C20 — sequences of edge removals on one cell and on all cells of a mesh
   (what remove_edges does between two `shrink`s): balance and, when every
   accepted step fuses coplanar faces, the volume are kept. *)
From Coq Require Import List ZArith Bool Reals.
Import ListNotations.
Set Default Timeout 120.
From FV.C20 Require Import Model ModelEdge ProofsVol ProofsEdgeVol.

(* remove_edges replaces the cell by the result when the step is accepted and
   leaves it unchanged otherwise *)
Definition apply_step (p : Model.poly) (e : Z * Z) : Model.poly :=
  match remove_one_edge p (fst e) (snd e) with Some p' => p' | None => p end.
Definition apply_steps (p : Model.poly) (steps : list (Z * Z)) : Model.poly :=
  fold_left apply_step steps p.

(* every ACCEPTED step fuses coplanar faces (the reference point may differ
   from step to step) *)
Fixpoint steps_planar (pos : Z -> V3 R) (p : Model.poly) (steps : list (Z * Z)) : Prop :=
  match steps with
  | [] => True
  | e :: r =>
      (remove_one_edge p (fst e) (snd e) <> None ->
       exists q, planar_at pos q (fused_nodes p (fst e) (snd e))) /\
      steps_planar pos (apply_step p e) r
  end.

Lemma apply_step_wf : forall p e, wf_poly p -> wf_poly (apply_step p e).
Proof.
  intros p [A B] H. unfold apply_step. simpl.
  destruct (remove_one_edge p A B) as [p'|] eqn:E; [|exact H].
  exact (remove_one_edge_wf p A B p' H E).
Qed.

Theorem remove_edge_sequence : forall pos steps p,
  wf_poly p -> steps_planar pos p steps ->
  wf_poly (apply_steps p steps) /\ vol ROps pos (apply_steps p steps) = vol ROps pos p.
Proof.
  intros pos. induction steps as [|e r IH]; intros p Hwf Hpl; [split; [exact Hwf | reflexivity]|].
  destruct Hpl as [H1 H2].
  destruct (IH (apply_step p e) (apply_step_wf p e Hwf) H2) as [W V].
  split; [exact W|].
  change (apply_steps p (e :: r)) with (apply_steps (apply_step p e) r). rewrite V.
  unfold apply_step. destruct e as [A B]. simpl in *.
  destruct (remove_one_edge p A B) as [p'|] eqn:E; [|reflexivity].
  destruct H1 as [q Hq]; [discriminate|].
  exact (remove_one_edge_volume pos q p A B p' Hwf E Hq).
Qed.

(* all cells of a mesh, each with its own sequence of steps *)
Theorem remove_edges_total_volume : forall pos (cs : list (Model.poly * list (Z * Z))),
  Forall (fun c => wf_poly (fst c) /\ steps_planar pos (fst c) (snd c)) cs ->
  total_vol ROps pos (map (fun c => apply_steps (fst c) (snd c)) cs) = total_vol ROps pos (map fst cs) /\
  Forall wf_poly (map (fun c => apply_steps (fst c) (snd c)) cs).
Proof.
  intros pos. induction cs as [|[p st] cs IH]; intros H; [split; [reflexivity | constructor]|].
  inversion H as [|? ? [Hw Hs] Hr]; subst. simpl in Hw, Hs.
  destruct (IH Hr) as [V W]. destruct (remove_edge_sequence pos st p Hw Hs) as [W1 V1].
  split.
  - unfold total_vol in *. cbn [map sumT fold_right fst snd]. rewrite V1.
    change (fold_right (add ROps) (zero ROps)) with (sumT ROps). rewrite V. reflexivity.
  - simpl. constructor; assumption.
Qed.
