(* C20 — (a) the set-based `closed` alone is not preserved by merging;
   (b) the transfer theorems stated explicitly for the transposed matrix
   (decompression direction). *)
From Coq Require Import List ZArith Bool Arith Lia Reals.
Import ListNotations.
From FV.C20 Require Import Model ProofsVol ProofsTransfer ProofsCheck.

(* ---------------------------------------------------------------- (a) *)
Definition cex_ps : list poly :=
  [ [[1;2;3]; [2;1;5]; [3;2;5]; [1;3;5]; [2;3;1]];      (* a tetrahedron + one face listed twice *)
    [[3;2;1]; [5;1;2]; [5;2;3]; [5;3;1]] ]%Z.            (* its mirror image *)

Theorem merge_closed_needs_balance :
  exists ps, Forall closed ps /\ ~ closed (merge ps).
Proof.
  exists cex_ps. split.
  - constructor; [|constructor; [|constructor]]; apply closed_b_iff; vm_compute; reflexivity.
  - intros H. apply closed_b_iff in H. vm_compute in H. discriminate.
Qed.

(* ---------------------------------------------------------------- (b) *)
Lemma zipcons_length : forall r cols, length r = length cols -> length (zipcons r cols) = length r.
Proof. induction r as [|b r IH]; intros [|c cols] H; simpl in *; try discriminate; auto. Qed.

Lemma transpose_length : forall n A, Forall (fun r => length r = n) A -> length (transpose n A) = n.
Proof.
  intros n A H. induction H as [|r A Hr _ IH]; simpl; [apply repeat_length|].
  rewrite zipcons_length; congruence.
Qed.

Lemma zipcons_rows : forall m r cols, length r = length cols ->
  Forall (fun c => length c = m) cols -> Forall (fun c => length c = S m) (zipcons r cols).
Proof.
  induction r as [|b r IH]; intros [|c cols] Hl Hc; simpl in *; try discriminate; constructor.
  - inversion Hc; subst. simpl. reflexivity.
  - apply IH; [lia | inversion Hc; assumption].
Qed.

Lemma transpose_rows : forall n A, Forall (fun r => length r = n) A ->
  Forall (fun c => length c = length A) (transpose n A).
Proof.
  intros n A H. induction H as [|r A Hr HA IH]; simpl.
  - clear. induction n; simpl; constructor; auto.
  - apply zipcons_rows; [rewrite transpose_length by exact HA; exact Hr | exact IH].
Qed.

Lemma zipcons_rowsum : forall r cols, length r = length cols ->
  map rowsum (zipcons r cols) = vplus (row_nat r) (map rowsum cols).
Proof.
  induction r as [|b r IH]; intros [|c cols] H; simpl in *; try discriminate; [reflexivity|].
  rewrite rowsum_cons, IH by lia. reflexivity.
Qed.

Lemma transpose_rowsums : forall n A, Forall (fun r => length r = n) A ->
  map rowsum (transpose n A) = colsums n A.
Proof.
  intros n A H. induction H as [|r A Hr HA IH]; simpl.
  - clear. induction n; simpl; [reflexivity|]. rewrite IHn. reflexivity.
  - rewrite zipcons_rowsum by (rewrite transpose_length by exact HA; exact Hr).
    rewrite IH. reflexivity.
Qed.

Lemma zipcons_colsums : forall m r cols, length r = length cols ->
  Forall (fun c => length c = m) cols ->
  colsums (S m) (zipcons r cols) = rowsum r :: colsums m cols.
Proof.
  induction r as [|b r IH]; intros [|c cols] Hl Hc; simpl in *; try discriminate.
  - reflexivity.
  - inversion Hc; subst. rewrite IH by (auto; lia). rewrite rowsum_cons. simpl.
    destruct b; reflexivity.
Qed.

Lemma transpose_colsums : forall n A, Forall (fun r => length r = n) A ->
  colsums (length A) (transpose n A) = map rowsum A.
Proof.
  intros n A H. induction H as [|r A Hr HA IH]; simpl.
  - clear. destruct n; reflexivity.
  - rewrite zipcons_colsums; [rewrite IH; reflexivity | | apply transpose_rows; exact HA].
    rewrite transpose_length by exact HA. exact Hr.
Qed.

(* decompression with kind="mean": every COLUMN of the M x n matrix non-empty *)
Theorem mean_preserves_const_T : forall (A : bmat) (n : nat) (c : R),
  Forall (fun r => length r = n) A ->
  Forall (fun k => (0 < k)%nat) (colsums n A) ->
  mean_tr ROps (transpose n A) (repeat c (length A)) = repeat c n.
Proof.
  intros A n c Hl Hc.
  rewrite <- (transpose_length n A Hl) at 2.
  apply mean_preserves_const.
  pose proof (transpose_rows n A Hl) as Hr.
  pose proof (transpose_rowsums n A Hl) as Hs.
  rewrite <- Hs in Hc. rewrite Forall_forall in *.
  intros row Hrow. split; [apply Hr; exact Hrow|].
  apply Hc. apply in_map. exact Hrow.
Qed.

(* decompression with kind="sum": every ROW of the M x n matrix non-empty *)
Theorem sum_conserves_total_T : forall (A : bmat) (n : nat) (x : list R),
  Forall (fun r => length r = n) A -> length x = length A ->
  Forall (fun r => (0 < rowsum r)%nat) A ->
  sumT ROps (sum_tr ROps (transpose n A) x) = sumT ROps x.
Proof.
  intros A n x Hl Hx Hr.
  apply sum_conserves_total.
  - rewrite Hx. apply transpose_rows. exact Hl.
  - rewrite Hx, (transpose_colsums n A Hl). rewrite Forall_forall in *.
    intros k Hk. apply in_map_iff in Hk. destruct Hk as (r & E & Hin). subst k. apply Hr. exact Hin.
Qed.
