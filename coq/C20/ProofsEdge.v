(* C20 — remove_one_edge_from_polyhedron keeps a closed cell closed. *)
From Coq Require Import List ZArith Bool Arith Lia Permutation.
Import ListNotations.
From FV.C20 Require Import Model ModelReindex ModelEdge ProofsCanon ProofsCheck ProofsReindex.
Open Scope Z_scope.

(* ------------------------------------------------ structure of a cycle *)
Lemma chain_fst : forall l x, map fst (chain (l ++ [x])) = l.
Proof.
  induction l as [|a l IH]; intros x; [reflexivity|].
  destruct l as [|b l].
  - reflexivity.
  - change (chain ((a :: b :: l) ++ [x])) with ((a, b) :: chain ((b :: l) ++ [x])).
    rewrite map_cons, IH. reflexivity.
Qed.

Lemma chain_snd : forall a l, map snd (chain (a :: l)) = l.
Proof.
  intros a l. revert a. induction l as [|b l IH]; intros a; [reflexivity|].
  change (chain (a :: b :: l)) with ((a, b) :: chain (b :: l)). rewrite map_cons, IH. reflexivity.
Qed.

Lemma edges_fst : forall f, map fst (edges f) = f.
Proof. intros [|a r]; [reflexivity|]. rewrite edges_cons. apply (chain_fst (a :: r) a). Qed.

Lemma fst_unique : forall (t : list (Z * Z)) a b c,
  NoDup (map fst t) -> In (a, b) t -> In (a, c) t -> b = c.
Proof.
  induction t as [|[x j] t IH]; intros a b c Hnd Hb Hc; [destruct Hb|].
  simpl in Hnd. inversion Hnd as [|? ? Hn1 Hn2]; subst.
  destruct Hb as [Eb|Hb], Hc as [Ec|Hc].
  - congruence.
  - inversion Eb; subst. exfalso. apply Hn1. apply in_map_iff. exists (a, c). split; auto.
  - inversion Ec; subst. exfalso. apply Hn1. apply in_map_iff. exists (a, b). split; auto.
  - eapply IH; eauto.
Qed.

Lemma edge_succ_unique : forall f a b c, NoDup f ->
  In (a, b) (edges f) -> In (a, c) (edges f) -> b = c.
Proof. intros f a b c H. apply fst_unique. rewrite edges_fst. exact H. Qed.

Lemma in_face_pred : forall f v, In v f -> exists q, In (q, v) (edges f).
Proof.
  intros f v H. apply in_rev in H. destruct (in_face_edge _ _ H) as [b Hb].
  apply (Permutation_in _ (edges_rev f)) in Hb. apply in_map_iff in Hb.
  destruct Hb as ([x y] & E & Hin). unfold swap in E. simpl in E. inversion E; subst.
  exists b. exact Hin.
Qed.

(* a face with >= 3 distinct nodes never contains an edge and its reverse *)
Lemma no_two_cycle : forall f a b, NoDup f -> (3 <= length f)%nat ->
  In (a, b) (edges f) -> In (b, a) (edges f) -> False.
Proof.
  intros f a b Hnd Hlen Hab Hba.
  destruct (in_edges_in _ _ _ Hab) as [Ha _].
  apply in_split in Ha. destruct Ha as (l1 & l2 & E). subst f.
  pose proof (edges_rot l1 (a :: l2)) as P.
  apply (Permutation_in _ P) in Hab. apply (Permutation_in _ P) in Hba.
  assert (Hnd' : NoDup ((a :: l2) ++ l1)).
  { eapply Permutation_NoDup; [apply Permutation_app_comm | exact Hnd]. }
  assert (Hlen' : (3 <= length ((a :: l2) ++ l1))%nat).
  { rewrite app_length in *. simpl in *. lia. }
  clear P Hnd Hlen. simpl app in *. set (r := l2 ++ l1) in *.
  destruct r as [|b0 [|c r'']]; simpl in Hlen'; try lia.
  inversion Hnd' as [|? ? Ha1 Hr]; subst. inversion Hr as [|? ? Hb1 Hr']; subst.
  rewrite edges_cons in Hab, Hba.
  change (chain (a :: (b0 :: c :: r'') ++ [a]))
    with ((a, b0) :: (b0, c) :: chain ((c :: r'') ++ [a])) in Hab, Hba.
  assert (Eb : b = b0).
  { destruct Hab as [E|[E|Hin]].
    - congruence.
    - inversion E; subst. exfalso. apply Ha1. left. reflexivity.
    - exfalso. apply Ha1. right.
      assert (In a (map fst (chain ((c :: r'') ++ [a])))) by (apply in_map_iff; exists (a, b); auto).
      rewrite chain_fst in H. exact H. }
  subst b0.
  destruct Hba as [E|[E|Hin]].
  - inversion E; subst. apply Ha1. left. reflexivity.
  - inversion E; subst. apply Ha1. right. left. reflexivity.
  - apply Hb1.
    assert (In b (map fst (chain ((c :: r'') ++ [a])))) by (apply in_map_iff; exists (b, a); auto).
    rewrite chain_fst in H. exact H.
Qed.

Lemma no_loop_edge : forall f a, NoDup f -> (2 <= length f)%nat -> ~ In (a, a) (edges f).
Proof.
  intros f a Hnd Hlen Haa.
  destruct (in_edges_in _ _ _ Haa) as [Ha _].
  apply in_split in Ha. destruct Ha as (l1 & l2 & E). subst f.
  apply (Permutation_in _ (edges_rot l1 (a :: l2))) in Haa.
  assert (Hnd' : NoDup ((a :: l2) ++ l1)).
  { eapply Permutation_NoDup; [apply Permutation_app_comm | exact Hnd]. }
  assert (Hlen' : (2 <= length ((a :: l2) ++ l1))%nat).
  { rewrite app_length in *. simpl in *. lia. }
  simpl app in *. set (r := l2 ++ l1) in *.
  destruct r as [|b0 r']; simpl in Hlen'; try lia.
  inversion Hnd' as [|? ? Ha1 Hr]; subst.
  rewrite edges_cons in Haa.
  change (chain (a :: (b0 :: r') ++ [a])) with ((a, b0) :: chain ((b0 :: r') ++ [a])) in Haa.
  destruct Haa as [E|Hin].
  - inversion E; subst. apply Ha1. left. reflexivity.
  - apply Ha1.
    assert (In a (map fst (chain ((b0 :: r') ++ [a])))) by (apply in_map_iff; exists (a, a); auto).
    rewrite chain_fst in H. exact H.
Qed.

(* ----------------------------------------------------------- build_nxt *)
Lemma lookup_none_notin : forall t v, lookup v t = None -> ~ In v (map fst t).
Proof.
  induction t as [|[a k] t IH]; intros v H; [intros []|].
  simpl in H. destruct (Z.eqb_spec a v) as [E|N]; [discriminate|].
  intros [X|X]; [exact (N X) | exact (IH v H X)].
Qed.

Lemma build_nxt_spec : forall es acc nxt, build_nxt es acc = Some nxt -> NoDup (map fst acc) ->
  NoDup (map fst nxt) /\ (forall e, In e nxt <-> In e es \/ In e acc).
Proof.
  induction es as [|[a b] es IH]; intros acc nxt H Hnd; simpl in H.
  - inversion H; subst. split; [exact Hnd|]. intros e. simpl. tauto.
  - destruct (lookup a acc) eqn:L; [discriminate|].
    assert (Hnd' : NoDup (map fst ((a, b) :: acc))).
    { simpl. constructor; [apply lookup_none_notin; exact L | exact Hnd]. }
    destruct (IH _ _ H Hnd') as [N1 N2]. split; [exact N1|].
    intros e. specialize (N2 e). simpl in N2. simpl. tauto.
Qed.

(* ---------------------------------------------------------------- walk *)
Fixpoint iter_step (nxt : list (Z * Z)) (vl : Z) (k : nat) (v : Z) : Z :=
  match k with O => v | S k' => iter_step nxt vl k' (step nxt vl v) end.

Lemma iter_step_S : forall nxt vl k v,
  iter_step nxt vl (S k) v = step nxt vl (iter_step nxt vl k v).
Proof. induction k as [|k IH]; intros v; [reflexivity|]. simpl in *. rewrite <- IH. reflexivity. Qed.

Lemma walk_length : forall nxt vl k v, length (walk nxt vl k v) = k.
Proof. induction k as [|k IH]; intros v; simpl; [reflexivity | rewrite IH; reflexivity]. Qed.

Lemma walk_nth : forall nxt vl k v i, (i < k)%nat ->
  nth i (walk nxt vl k v) 0 = iter_step nxt vl i v.
Proof.
  induction k as [|k IH]; intros v i Hi; [lia|].
  destruct i as [|i]; [reflexivity|]. simpl. apply IH. lia.
Qed.

Lemma walk_in : forall nxt vl k v x, In x (walk nxt vl k v) ->
  exists i, (i < k)%nat /\ x = iter_step nxt vl i v.
Proof.
  intros nxt vl k v x H. apply (In_nth _ _ 0) in H. destruct H as (i & Hi & E).
  rewrite walk_length in Hi. exists i. split; [exact Hi|]. rewrite <- E. apply walk_nth. exact Hi.
Qed.

(* edges of the walked cycle, provided the walk closes up *)
Lemma chain_walk : forall nxt vl k v,
  chain (walk nxt vl k v ++ [iter_step nxt vl k v]) =
  map (fun u => (u, step nxt vl u)) (walk nxt vl k v).
Proof.
  induction k as [|k IH]; intros v; [reflexivity|].
  simpl walk. simpl iter_step. simpl map. rewrite <- IH.
  destruct k as [|k]; reflexivity.
Qed.

Lemma edges_walk : forall nxt vl k v, (0 < k)%nat -> iter_step nxt vl k v = v ->
  edges (walk nxt vl k v) = map (fun u => (u, step nxt vl u)) (walk nxt vl k v).
Proof.
  intros nxt vl k v Hk Hclose. rewrite <- chain_walk. rewrite Hclose.
  destruct k as [|k]; [lia|]. reflexivity.
Qed.

(* ------------------------------------------------------------ is_ab facts *)
Lemma is_ab_iff : forall A B e, is_ab A B e = true <-> e = (A, B) \/ e = (B, A).
Proof.
  intros A B [x y]. unfold is_ab. simpl.
  rewrite orb_true_iff, !andb_true_iff, !Z.eqb_eq. split.
  - intros [[-> ->]|[-> ->]]; auto.
  - intros [E|E]; inversion E; auto.
Qed.

Lemma is_ab_swap : forall A B x y, is_ab A B (x, y) = is_ab A B (y, x).
Proof.
  intros. destruct (is_ab A B (x, y)) eqn:E1, (is_ab A B (y, x)) eqn:E2; try reflexivity.
  - apply is_ab_iff in E1. assert (is_ab A B (y, x) = true).
    { apply is_ab_iff. destruct E1 as [E|E]; inversion E; subst; auto. } congruence.
  - apply is_ab_iff in E2. assert (is_ab A B (x, y) = true).
    { apply is_ab_iff. destruct E2 as [E|E]; inversion E; subst; auto. } congruence.
Qed.

(* two "A-B" edges meeting at X (X <> Y) have the same other end *)
Lemma is_ab_other : forall A B X Y x, X <> Y ->
  is_ab A B (Y, X) = true -> is_ab A B (X, x) = true -> x = Y.
Proof.
  intros A B X Y x Hne H1 H2. apply is_ab_iff in H1, H2.
  destruct H1 as [E1|E1], H2 as [E2|E2]; inversion E1; inversion E2; subst; congruence.
Qed.

Lemma nonempty_in : forall (X : Type) (l : list X), l <> [] -> exists x, In x l.
Proof. intros X [|x l] H; [congruence|]. exists x. left. reflexivity. Qed.

Section RemoveEdge.
  Variables (p : poly) (A B : Z).
  Hypothesis Hcl : closed p.
  Let C := filter (contains_ab A B) p.
  Let rest := filter (fun f => negb (contains_ab A B f)) p.
  Let E := kept_edges A B C.
  Let V := nodup Z.eq_dec (concat C).
  Variable nxt : list (Z * Z).
  Hypothesis Hnxt : build_nxt E [] = Some nxt.
  Hypothesis HC : C <> [].
  Let vl := fmax V.
  Let m := length V.
  Let v0 := fmin V.
  Let cyc := walk nxt vl m v0.
  Hypothesis Hnd : NoDup cyc.

  Lemma face_ok_p : forall f, In f p -> NoDup f /\ (3 <= length f)%nat.
  Proof. intros f Hf. destruct Hcl as [H _]. rewrite Forall_forall in H. apply H. exact Hf. Qed.

  Lemma C_iff : forall f, In f C <-> In f p /\ exists e, In e (edges f) /\ is_ab A B e = true.
  Proof.
    intros f. unfold C. rewrite filter_In. unfold contains_ab. rewrite existsb_exists. tauto.
  Qed.

  Lemma E_iff : forall e, In e E <-> (exists f, In f C /\ In e (edges f)) /\ is_ab A B e = false.
  Proof.
    intros e. unfold E, kept_edges. rewrite filter_In, in_flat_map, negb_true_iff. tauto.
  Qed.

  Lemma V_iff : forall v, In v V <-> exists f, In f C /\ In v f.
  Proof.
    intros v. unfold V. rewrite nodup_In, in_concat. split; intros (f & H1 & H2); exists f; tauto.
  Qed.

  Lemma nxt_nodup : NoDup (map fst nxt).
  Proof. apply (build_nxt_spec E [] nxt Hnxt). constructor. Qed.

  Lemma nxt_iff : forall e, In e nxt <-> In e E.
  Proof.
    intros e. destruct (build_nxt_spec E [] nxt Hnxt) as [_ H]; [constructor|].
    rewrite H. simpl. tauto.
  Qed.

  Lemma pedges_in : forall f e, In f p -> In e (edges f) -> In e (pedges p).
  Proof. intros f e Hf He. unfold pedges. apply in_flat_map. exists f. tauto. Qed.

  Lemma pedges_inv : forall e, In e (pedges p) -> exists f, In f p /\ In e (edges f).
  Proof. intros e H. unfold pedges in H. apply in_flat_map in H. exact H. Qed.

  (* every vertex of the faces to merge keeps an outgoing and an incoming edge *)
  Lemma out_edge : forall v, In v V -> exists b, In (v, b) E.
  Proof.
    intros v Hv. apply V_iff in Hv. destruct Hv as (f & HfC & Hvf).
    pose proof HfC as HfC'. apply C_iff in HfC'. destruct HfC' as [Hfp _].
    destruct (in_face_edge f v Hvf) as [b Hb].
    destruct (is_ab A B (v, b)) eqn:Hab.
    - (* (v,b) is the removed edge: its reverse lies in another face to merge *)
      destruct (face_ok_p f Hfp) as [Hnf Hlf].
      assert (Hne : v <> b).
      { intros ->. apply (no_loop_edge f b Hnf); [lia | exact Hb]. }
      destruct Hcl as [_ Hec]. pose proof (Hec v b (pedges_in f _ Hfp Hb)) as Hrev.
      destruct (pedges_inv _ Hrev) as (f2 & Hf2p & Hrev2).
      assert (Hab' : is_ab A B (b, v) = true) by (rewrite is_ab_swap; exact Hab).
      assert (Hf2C : In f2 C) by (apply C_iff; split; [exact Hf2p | exists (b, v); tauto]).
      destruct (in_edges_in _ _ _ Hrev2) as [_ Hv2].
      destruct (in_face_edge f2 v Hv2) as [x Hx].
      exists x. apply E_iff. split; [exists f2; tauto|].
      destruct (is_ab A B (v, x)) eqn:Hax; [|reflexivity]. exfalso.
      assert (x = b) by (apply (is_ab_other A B v b x Hne Hab' Hax)). subst x.
      destruct (face_ok_p f2 Hf2p) as [Hn2 Hl2].
      exact (no_two_cycle f2 v b Hn2 Hl2 Hx Hrev2).
    - exists b. apply E_iff. split; [exists f; tauto | exact Hab].
  Qed.

  Lemma in_edge : forall v, In v V -> exists q, In (q, v) E.
  Proof.
    intros v Hv. apply V_iff in Hv. destruct Hv as (f & HfC & Hvf).
    pose proof HfC as HfC'. apply C_iff in HfC'. destruct HfC' as [Hfp _].
    destruct (in_face_pred f v Hvf) as [q Hq].
    destruct (is_ab A B (q, v)) eqn:Hab.
    - destruct (face_ok_p f Hfp) as [Hnf Hlf].
      assert (Hne : v <> q).
      { intros ->. apply (no_loop_edge f q Hnf); [lia | exact Hq]. }
      destruct Hcl as [_ Hec]. pose proof (Hec q v (pedges_in f _ Hfp Hq)) as Hrev.
      destruct (pedges_inv _ Hrev) as (f2 & Hf2p & Hrev2).
      assert (Hab' : is_ab A B (v, q) = true) by (rewrite is_ab_swap; exact Hab).
      assert (Hf2C : In f2 C) by (apply C_iff; split; [exact Hf2p | exists (v, q); tauto]).
      destruct (in_edges_in _ _ _ Hrev2) as [Hv2 _].
      destruct (in_face_pred f2 v Hv2) as [x Hx].
      exists x. apply E_iff. split; [exists f2; tauto|].
      destruct (is_ab A B (x, v)) eqn:Hax; [|reflexivity]. exfalso.
      rewrite is_ab_swap in Hax.
      assert (x = q) by (apply (is_ab_other A B v q x Hne Hab Hax)). subst x.
      destruct (face_ok_p f2 Hf2p) as [Hn2 Hl2].
      exact (no_two_cycle f2 v q Hn2 Hl2 Hrev2 Hx).
    - exists q. apply E_iff. split; [exists f; tauto | exact Hab].
  Qed.

  Lemma E_ends_in_V : forall a b, In (a, b) E -> In a V /\ In b V.
  Proof.
    intros a b H. apply E_iff in H. destruct H as [(f & HfC & He) _].
    destruct (in_edges_in _ _ _ He). split; apply V_iff; exists f; tauto.
  Qed.

  Notation stepf := (step nxt vl).

  Lemma step_spec : forall v, In v V -> In (v, stepf v) nxt.
  Proof.
    intros v Hv. destruct (out_edge v Hv) as [b Hb]. apply nxt_iff in Hb.
    unfold step. rewrite (lookup_in nxt v b nxt_nodup Hb). exact Hb.
  Qed.

  Lemma step_in_V : forall v, In v V -> In (stepf v) V.
  Proof.
    intros v Hv. pose proof (step_spec v Hv) as H. apply nxt_iff in H.
    apply E_ends_in_V in H. tauto.
  Qed.

  Lemma V_nodup : NoDup V. Proof. apply NoDup_nodup. Qed.

  Lemma fst_nxt_V : forall a, In a (map fst nxt) <-> In a V.
  Proof.
    intros a. split.
    - intros H. apply in_map_iff in H. destruct H as ([x y] & Ex & Hin). simpl in Ex. subst x.
      apply nxt_iff in Hin. apply E_ends_in_V in Hin. tauto.
    - intros H. apply in_map_iff. exists (a, stepf a). split; [reflexivity | apply step_spec; exact H].
  Qed.

  Lemma nxt_length : length nxt = length V.
  Proof.
    rewrite <- (map_length fst). apply Nat.le_antisymm.
    - apply NoDup_incl_length; [exact nxt_nodup | intros a Ha; apply fst_nxt_V; exact Ha].
    - apply NoDup_incl_length; [exact V_nodup | intros a Ha; apply fst_nxt_V; exact Ha].
  Qed.

  Lemma snd_nxt_nodup : NoDup (map snd nxt).
  Proof.
    apply NoDup_incl_NoDup with (l := V).
    - exact V_nodup.
    - rewrite map_length, nxt_length. apply le_n.
    - intros v Hv. destruct (in_edge v Hv) as [q Hq]. apply nxt_iff in Hq.
      apply in_map_iff. exists (q, v). split; [reflexivity | exact Hq].
  Qed.

  Lemma step_inj : forall u v, In u V -> In v V -> stepf u = stepf v -> u = v.
  Proof.
    intros u v Hu Hv Heq. pose proof (step_spec u Hu) as H1. pose proof (step_spec v Hv) as H2.
    rewrite Heq in H1. exact (snd_unique nxt u v _ snd_nxt_nodup H1 H2).
  Qed.

  Lemma V_nonempty : V <> [].
  Proof.
    destruct (nonempty_in _ C HC) as [f HfC].
    pose proof HfC as H. apply C_iff in H. destruct H as [Hfp _].
    destruct (face_ok_p f Hfp) as [_ Hl]. destruct f as [|a f']; [simpl in Hl; lia|].
    intros EV. assert (In a V) by (apply V_iff; exists (a :: f'); split; [exact HfC | left; reflexivity]).
    rewrite EV in H. destruct H.
  Qed.

  Lemma v0_in_V : In v0 V.
  Proof. apply fmin_in. exact V_nonempty. Qed.

  Lemma iter_in_V : forall k, In (iter_step nxt vl k v0) V.
  Proof.
    induction k as [|k IH]; [exact v0_in_V|]. rewrite iter_step_S. apply step_in_V. exact IH.
  Qed.

  Lemma cyc_incl_V : incl cyc V.
  Proof.
    intros x Hx. apply walk_in in Hx. destruct Hx as (i & _ & ->). apply iter_in_V.
  Qed.

  Lemma V_incl_cyc : incl V cyc.
  Proof.
    apply NoDup_length_incl; [exact Hnd | | exact cyc_incl_V].
    unfold cyc. rewrite walk_length. apply le_n.
  Qed.

  Lemma m_pos : (0 < m)%nat.
  Proof.
    assert (length V <> 0%nat) by (intros E0; apply length_zero_iff_nil in E0; exact (V_nonempty E0)).
    unfold m. lia.
  Qed.

  (* the walk closes up: following nxt from the last vertex returns to the first *)
  Lemma walk_closes : iter_step nxt vl m v0 = v0.
  Proof.
    pose proof m_pos as Hm.
    assert (Hw : In (iter_step nxt vl m v0) cyc) by (apply V_incl_cyc, iter_in_V).
    apply walk_in in Hw. destruct Hw as (j & Hj & Ej).
    destruct j as [|j]; [exact Ej|]. exfalso.
    assert (Hm' : exists m', m = S m') by (destruct m as [|m'']; [lia | exists m''; reflexivity]).
    destruct Hm' as [m' Em].
    rewrite Em in Ej. rewrite !iter_step_S in Ej.
    apply step_inj in Ej; [| apply iter_in_V | apply iter_in_V].
    (* positions m' and j of the duplicate-free walk hold the same vertex *)
    assert (Hnth : nth m' cyc 0 = nth j cyc 0).
    { unfold cyc. rewrite !walk_nth by lia. exact Ej. }
    apply (NoDup_nth cyc 0) in Hnth; [lia | exact Hnd | |];
      unfold cyc; rewrite walk_length; lia.
  Qed.

  Lemma edges_cyc : edges cyc = map (fun u => (u, stepf u)) cyc.
  Proof. apply edges_walk; [exact m_pos | exact walk_closes]. Qed.

  Lemma edges_cyc_iff : forall e, In e (edges cyc) <-> In e E.
  Proof.
    intros e. rewrite edges_cyc, in_map_iff. split.
    - intros (u & Eu & Hu). subst e. apply nxt_iff. apply step_spec. apply cyc_incl_V. exact Hu.
    - intros He. destruct e as [a b]. pose proof He as He'. apply E_ends_in_V in He'. destruct He' as [Ha _].
      exists a. split; [|apply V_incl_cyc; exact Ha].
      f_equal. apply nxt_iff in He.
      exact (fst_unique nxt a _ _ nxt_nodup (step_spec a Ha) He).
  Qed.

  Lemma cyc_face_ok : face_ok cyc.
  Proof.
    split; [exact Hnd|]. unfold cyc. rewrite walk_length. unfold m.
    destruct (nonempty_in _ C HC) as [f HfC].
    pose proof HfC as H. apply C_iff in H. destruct H as [Hfp _].
    destruct (face_ok_p f Hfp) as [Hn Hl].
    apply (Nat.le_trans _ (length f)); [exact Hl|].
    apply NoDup_incl_length; [exact Hn|]. intros v Hv. apply V_iff. exists f. tauto.
  Qed.

  Lemma rest_iff : forall f, In f rest <-> In f p /\ contains_ab A B f = false.
  Proof. intros f. unfold rest. rewrite filter_In, negb_true_iff. tauto. Qed.

  Theorem merged_closed : closed (rest ++ [cyc]).
  Proof.
    split.
    - apply Forall_app. split.
      + rewrite Forall_forall. intros f Hf. apply rest_iff in Hf. apply face_ok_p. tauto.
      + constructor; [exact cyc_face_ok | constructor].
    - (* every edge of the new cell is an edge of p other than A-B, and conversely *)
      assert (Y : forall e, In e (pedges (rest ++ [cyc])) -> In e (pedges p) /\ is_ab A B e = false).
      { intros e He. unfold pedges in He. rewrite flat_map_app in He. apply in_app_or in He.
        destruct He as [He|He].
        - apply in_flat_map in He. destruct He as (f & Hf & He). apply rest_iff in Hf.
          destruct Hf as [Hfp Hc]. split; [exact (pedges_in f e Hfp He)|].
          unfold contains_ab in Hc. destruct (is_ab A B e) eqn:Hab; [|reflexivity].
          assert (existsb (is_ab A B) (edges f) = true) by (apply existsb_exists; exists e; tauto).
          congruence.
        - simpl in He. rewrite app_nil_r in He. apply edges_cyc_iff in He. apply E_iff in He.
          destruct He as [(f & HfC & He) Hab]. split; [|exact Hab].
          apply C_iff in HfC. exact (pedges_in f e (proj1 HfC) He). }
      assert (X : forall e, In e (pedges p) -> is_ab A B e = false -> In e (pedges (rest ++ [cyc]))).
      { intros e He Hab. destruct (pedges_inv e He) as (f & Hfp & Hef).
        unfold pedges. rewrite flat_map_app. apply in_or_app.
        destruct (contains_ab A B f) eqn:Hc.
        - right. simpl. rewrite app_nil_r. apply edges_cyc_iff. apply E_iff.
          split; [|exact Hab]. exists f. split; [|exact Hef].
          unfold C. apply filter_In. tauto.
        - left. apply in_flat_map. exists f. split; [apply rest_iff; tauto | exact Hef]. }
      intros a b Hin. destruct (Y _ Hin) as [Hp Hab].
      apply X.
      + destruct Hcl as [_ Hec]. apply Hec. exact Hp.
      + rewrite is_ab_swap. exact Hab.
  Qed.
End RemoveEdge.

(* the result of remove_one_edge on a closed cell is a closed cell *)
Theorem remove_one_edge_closed : forall p A B p',
  closed p -> remove_one_edge p A B = Some p' -> closed p'.
Proof.
  intros p A B p' Hcl H. unfold remove_one_edge in H.
  destruct (filter (contains_ab A B) p) as [|f0 C'] eqn:EC.
  - inversion H; subst. exact Hcl.
  - rewrite <- EC in H.
    destruct (build_nxt (kept_edges A B (filter (contains_ab A B) p)) []) as [nxt|] eqn:Hn;
      [|destruct (filter (contains_ab A B) p); discriminate].
    assert (HC : filter (contains_ab A B) p <> []) by (rewrite EC; discriminate).
    destruct (filter (contains_ab A B) p) as [|g G] eqn:EG; [congruence|]. rewrite <- EG in *.
    match type of H with (if nodup_b ?c then _ else _) = _ => destruct (nodup_b c) eqn:Hd end;
      [|discriminate].
    inversion H; subst p'. apply nodup_b_iff in Hd.
    exact (merged_closed p A B Hcl nxt Hn HC Hd).
Qed.
