(* C20 — the boolean checkers run on the compressor's actual output are
   equivalent to the Prop definitions of the specification. *)
From Coq Require Import List ZArith Bool Arith Lia.
Import ListNotations.
From FV.C20 Require Import Model.
Open Scope Z_scope.

Lemma zmem_iff : forall v l, zmem v l = true <-> In v l.
Proof.
  intros v l. unfold zmem. rewrite existsb_exists. split.
  - intros (x & Hx & E). apply Z.eqb_eq in E. subst. exact Hx.
  - intros H. exists v. split; [exact H | apply Z.eqb_refl].
Qed.

Lemma nodup_b_iff : forall l, nodup_b l = true <-> NoDup l.
Proof.
  induction l as [|a l IH]; simpl.
  - split; [constructor | reflexivity].
  - rewrite andb_true_iff, negb_true_iff, IH. fold (zmem a l). split.
    + intros [H1 H2]. constructor; [|exact H2]. intros X. apply zmem_iff in X. congruence.
    + intros H. inversion H; subst. split; [|assumption].
      apply not_true_iff_false. rewrite zmem_iff. assumption.
Qed.

Lemma face_ok_b_iff : forall f, face_ok_b f = true <-> face_ok f.
Proof.
  intros f. unfold face_ok_b, face_ok. rewrite andb_true_iff, nodup_b_iff, Nat.leb_le. tauto.
Qed.

Lemma emem_iff : forall e l, emem e l = true <-> In e l.
Proof.
  intros [a b] l. unfold emem. rewrite existsb_exists. simpl. split.
  - intros ([x y] & Hx & E). simpl in E. apply andb_true_iff in E. destruct E as [E1 E2].
    apply Z.eqb_eq in E1, E2. subst. exact Hx.
  - intros H. exists (a, b). split; [exact H|]. simpl. rewrite !Z.eqb_refl. reflexivity.
Qed.

Lemma edge_closed_b_iff : forall p, edge_closed_b p = true <-> edge_closed p.
Proof.
  intros p. unfold edge_closed_b, edge_closed. rewrite forallb_forall. split.
  - intros H a b Hin. specialize (H (a, b) Hin). apply emem_iff in H. exact H.
  - intros H [a b] Hin. apply emem_iff. apply H. exact Hin.
Qed.

Theorem closed_b_iff : forall p, closed_b p = true <-> closed p.
Proof.
  intros p. unfold closed_b, closed.
  rewrite andb_true_iff, edge_closed_b_iff, forallb_forall, Forall_forall.
  split; intros [H1 H2]; split; try assumption; intros f Hf; apply face_ok_b_iff; auto.
Qed.

Theorem balanced_b_iff : forall p, balanced_b p = true <-> balanced p.
Proof.
  intros p. unfold balanced_b, balanced. rewrite forallb_forall. split.
  - intros H a b.
    destruct (in_dec ZZ_eq_dec (a, b) (pedges p)) as [I|I].
    + specialize (H _ I). apply Nat.eqb_eq in H. exact H.
    + destruct (in_dec ZZ_eq_dec (b, a) (pedges p)) as [J|J].
      * specialize (H _ J). apply Nat.eqb_eq in H. symmetry. exact H.
      * unfold ecount. apply (count_occ_not_In ZZ_eq_dec) in I, J. congruence.
  - intros H [a b] _. apply Nat.eqb_eq. apply H.
Qed.

Theorem wf_poly_b_iff : forall p, wf_poly_b p = true <-> wf_poly p.
Proof.
  intros p. unfold wf_poly_b, wf_poly.
  rewrite andb_true_iff, balanced_b_iff, forallb_forall, Forall_forall.
  split; intros [H1 H2]; split; try assumption; intros f Hf; apply face_ok_b_iff; auto.
Qed.

Lemma zrange_iff : forall K k, In k (zrange K) <-> 0 <= k < K.
Proof.
  intros K k. unfold zrange. rewrite in_map_iff. split.
  - intros (n & E & Hn). apply in_seq in Hn. lia.
  - intros H. exists (Z.to_nat k). split; [lia|]. apply in_seq. lia.
Qed.

Theorem uses_exactly_b_iff : forall K ps, uses_exactly_b K ps = true <-> uses_exactly K ps.
Proof.
  intros K ps. unfold uses_exactly_b, uses_exactly.
  rewrite andb_true_iff, !forallb_forall. split.
  - intros [H1 H2] v. split.
    + intros Hv. specialize (H1 v Hv). apply andb_true_iff in H1. lia.
    + intros Hv. apply zmem_iff. apply H2. apply zrange_iff. exact Hv.
  - intros H. split.
    + intros v Hv. apply H in Hv. apply andb_true_iff. lia.
    + intros k Hk. apply zmem_iff. apply H. apply zrange_iff. exact Hk.
Qed.
