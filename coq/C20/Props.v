(* C20 — mesh compression conserves volume, validity and transferred totals.
   Statements only; proofs are in Proofs*.v. *)
From Coq Require Import List ZArith Bool Reals Permutation QArith Lra.
Set Default Timeout 120.
Import ListNotations.
From FV.C20 Require Import Model ModelReindex ModelEdge ProofsCanon ProofsMerge ProofsVol ProofsTransfer
  ProofsCheck ProofsReindex ProofsExtra ProofsReindexVol ProofsEdge ProofsEdgeVol ProofsEdgeSeq ModelDriver ProofsAngle Harness.

(* ---- merge step (merge_polyhedrons on one connected group) -------------
   hypothesis wf_poly: faces have >= 3 pairwise distinct nodes and every
   directed edge of the cell occurs as often as its reverse (true for every
   cell that to_polyhedron produces and, by C20_merge_wf, for every merged
   cell, so the theorem composes over repeated merging). *)
Theorem C20_merge_wf : forall ps, Forall wf_poly ps -> wf_poly (merge ps).
Proof. exact merge_wf. Qed.

Theorem C20_merge_closed : forall ps, Forall wf_poly ps -> closed (merge ps).
Proof. exact merge_closed. Qed.

(* the hypothesis cannot be weakened to the set-based `closed` that
   check_polyhedron tests: edge multiplicities matter *)
Theorem C20_merge_closed_needs_balance : exists ps, Forall closed ps /\ ~ closed (merge ps).
Proof. exact merge_closed_needs_balance. Qed.

(* for EVERY node placement (no planarity or convexity assumption) the
   centroid-formula volume of the merged cell is the sum of the volumes of the
   cells it was merged from *)
Theorem C20_merge_volume : forall (pos : Z -> V3 R) ps, Forall (Forall (@NoDup Z)) ps ->
  vol ROps pos (merge ps) = total_vol ROps pos ps.
Proof. exact merge_volume. Qed.

Theorem C20_merge_nodes : forall ps v,
  In v (pnodes (merge ps)) -> exists p, In p ps /\ In v (pnodes p).
Proof. exact merge_nodes. Qed.

(* non-vacuity: two tetrahedra sharing the face {1,2,3} (as to_polyhedron
   emits them) satisfy the hypothesis; the merge is a 6-face closed cell *)
Definition ex_t1 : poly := [[0;2;1]; [3;0;1]; [3;2;0]; [3;1;2]]%Z.
Definition ex_t2 : poly := [[1;3;2]; [4;1;2]; [4;3;1]; [4;2;3]]%Z.
Example C20_example_wf : forallb wf_poly_b [ex_t1; ex_t2] = true /\
  merge [ex_t1; ex_t2] = [[0;2;1]; [3;0;1]; [3;2;0]; [4;1;2]; [4;3;1]; [4;2;3]]%Z /\
  closed_b (merge [ex_t1; ex_t2]) = true.
Proof. vm_compute. repeat split; reflexivity. Qed.

(* ---- data transfer ------------------------------------------------------
   A is any boolean matrix (rows of length n): the compression direction uses
   the M x N matrix, the decompression direction its transpose, so one
   statement covers both directions. *)
Theorem C20_mean_preserves_const : forall (A : bmat) (n : nat) (c : R),
  Forall (fun r => length r = n /\ (0 < rowsum r)%nat) A ->
  mean_tr ROps A (repeat c n) = repeat c (length A).
Proof. exact mean_preserves_const. Qed.

Theorem C20_sum_conserves_total : forall (A : bmat) (x : list R),
  Forall (fun r => length r = length x) A ->
  Forall (fun k => (0 < k)%nat) (colsums (length x) A) ->
  sumT ROps (sum_tr ROps A x) = sumT ROps x.
Proof. exact sum_conserves_total. Qed.

(* the decompression direction, stated for the transpose of the M x n matrix *)
Theorem C20_mean_preserves_const_T : forall (A : bmat) (n : nat) (c : R),
  Forall (fun r => length r = n) A ->
  Forall (fun k => (0 < k)%nat) (colsums n A) ->
  mean_tr ROps (transpose n A) (repeat c (length A)) = repeat c n.
Proof. exact mean_preserves_const_T. Qed.

Theorem C20_sum_conserves_total_T : forall (A : bmat) (n : nat) (x : list R),
  Forall (fun r => length r = n) A -> length x = length A ->
  Forall (fun r => (0 < rowsum r)%nat) A ->
  sumT ROps (sum_tr ROps (transpose n A) x) = sumT ROps x.
Proof. exact sum_conserves_total_T. Qed.

(* the expression the code evaluated for kind="sum" on (N,1) data before femio
   commit b1450d5 (x / wt with wt of shape (1,N)) does NOT conserve the total:
   finding, fixed; see known_findings.d/C20.json *)
Theorem C20_sum_broadcast_refuted :
  exists (A : bmat) (x : list R),
    Forall (fun r => length r = length x) A /\
    Forall (fun k => (0 < k)%nat) (colsums (length x) A) /\
    total2 (sum_tr_broadcast ROps A x) <> sumT ROps x.
Proof. exact sum_broadcast_refuted. Qed.

(* ---- verified checkers run on the compressor's actual output ------------ *)
Theorem C20_closed_b_iff : forall p, closed_b p = true <-> closed p.
Proof. exact closed_b_iff. Qed.

Theorem C20_wf_poly_b_iff : forall p, wf_poly_b p = true <-> wf_poly p.
Proof. exact wf_poly_b_iff. Qed.

Theorem C20_uses_exactly_b_iff : forall K ps, uses_exactly_b K ps = true <-> uses_exactly K ps.
Proof. exact uses_exactly_b_iff. Qed.

(* ---- reindex (mesh_compressor.py:572): hypotheses: every face node is a
   valid index and every node still in use is its own representative *)
Theorem C20_reindex_exact : forall (ps : list poly) (conv : list Z),
  (forall v, In v (all_nodes ps) -> (0 <= v < Z.of_nat (length conv))%Z) ->
  (forall u, In u (all_nodes ps) -> nth (Z.to_nat u) conv u = u) ->
  uses_exactly (r_K (reindex ps conv)) (r_faces (reindex ps conv)).
Proof. exact reindex_exact. Qed.

Theorem C20_reindex_injective : forall (ps : list poly) (conv : list Z),
  (forall v, In v (all_nodes ps) -> (0 <= v < Z.of_nat (length conv))%Z) ->
  forall u v, In u (all_nodes ps) -> In v (all_nodes ps) ->
  new_id (assign (used_b ps) (zrange (Z.of_nat (length conv))) 0) u =
  new_id (assign (used_b ps) (zrange (Z.of_nat (length conv))) 0) v -> u = v.
Proof. exact reindex_injective. Qed.

(* no vertices merged (node_conv is still the identity 0..n-1): the renumbered
   faces with the node table recomputed by recalc_node_pos have the volume of
   the input, for every node placement *)
Theorem C20_reindex_volume_id : forall (ps : list poly) (n : nat) (pos : Z -> V3 R),
  (forall v, In v (all_nodes ps) -> (0 <= v < Z.of_nat n)%Z) ->
  let r := reindex ps (zrange (Z.of_nat n)) in
  total_vol ROps (recalc_pos ROps pos (r_conv r)) (r_faces r) = total_vol ROps pos ps.
Proof. intros ps n pos H. exact (reindex_volume_id ps n H pos). Qed.

Theorem C20_closed_rename : forall phi p,
  (forall u v, In u (pnodes p) -> In v (pnodes p) -> phi u = phi v -> u = v) ->
  closed p -> closed (map (map phi) p).
Proof. exact closed_rename. Qed.

Example C20_example_reindex :
  let ps := [[[5;2;7]; [9;5;7]; [9;2;5]; [9;7;2]]]%Z in
  let conv := [0;1;2;2;4;5;5;7;8;9]%Z in
  reindex ps conv = mkReindexed [[[1;0;2]; [3;1;2]; [3;0;1]; [3;2;0]]]%Z
                                [-1;-1;0;0;-1;1;1;2;-1;3]%Z 4%Z.
Proof. vm_compute. reflexivity. Qed.

(* ---- remove_one_edge_from_polyhedron (mesh_compressor.py:764): whenever the
   function accepts (returns True), a closed cell stays closed; no geometric
   assumption (coplanarity only matters for the volume) *)
Theorem C20_remove_one_edge_closed : forall p A B p',
  closed p -> remove_one_edge p A B = Some p' -> closed p'.
Proof. exact remove_one_edge_closed. Qed.

(* non-vacuity: a cube whose top is split into two triangles along 4-6 *)
Example C20_example_remove_edge :
  let p := [[4;5;6]; [4;6;7]; [5;4;0;1]; [6;5;1;2]; [7;6;2;3]; [4;7;3;0]; [3;2;1;0]]%Z in
  closed_b p = true /\
  remove_one_edge p 4 6 = Some [[5;4;0;1]; [6;5;1;2]; [7;6;2;3]; [4;7;3;0]; [3;2;1;0]; [4;5;6;7]]%Z /\
  remove_one_edge p 0 1 =
    Some [[4;5;6]; [4;6;7]; [6;5;1;2]; [7;6;2;3]; [4;7;3;0]; [0;3;2;1;5;4]]%Z.
Proof. vm_compute. repeat split; reflexivity. Qed.

(* ---- remove_one_edge_from_polyhedron: edges, balance and volume --------
   The directed edges of the result are, as a multiset, those of the input
   without A-B / B-A; hence edge balance (wf_poly) is preserved and the
   statements compose over the sequences of removals remove_edges performs. *)
Theorem C20_remove_one_edge_edges : forall p A B p',
  closed p -> remove_one_edge p A B = Some p' ->
  Permutation (pedges p') (filter (fun e => negb (is_ab A B e)) (pedges p)).
Proof. exact remove_one_edge_edges. Qed.

Theorem C20_remove_one_edge_wf : forall p A B p',
  wf_poly p -> remove_one_edge p A B = Some p' -> wf_poly p'.
Proof. exact remove_one_edge_wf. Qed.

(* THE PRECONDITION OF THE VOLUME CLAUSE.  Whenever the function accepts and
   the faces it fuses (those listing A-B in either direction) lie in one plane
   (through any point q), the centroid-formula volume of the cell is unchanged,
   for every node placement otherwise.  Fusing faces across a non-flat edge
   cannot conserve the volume (C20_example_nonplanar_fusion_changes_volume),
   which is why the volume clause of the property is asserted exactly for the
   runs whose cos_thresh admits only coplanar fusions. *)
Theorem C20_remove_one_edge_volume : forall (pos : Z -> V3 R) (q : V3 R) p A B p',
  wf_poly p -> remove_one_edge p A B = Some p' ->
  planar_at pos q (fused_nodes p A B) ->
  vol ROps pos p' = vol ROps pos p.
Proof. exact remove_one_edge_volume. Qed.

(* non-vacuity: the unit cube with its top split along 4-6; the two triangles
   lie in the plane z = 1 *)
Definition ex_cube_pos (v : Z) : V3 R :=
  (match v with
   | 0 => (0, 0, 0) | 1 => (1, 0, 0) | 2 => (1, 1, 0) | 3 => (0, 1, 0)
   | 4 => (0, 0, 1) | 5 => (1, 0, 1) | 6 => (1, 1, 1) | 7 => (0, 1, 1)
   | _ => (0, 0, 0)
   end)%R.
Example C20_example_remove_edge_volume :
  let p := [[4;5;6]; [4;6;7]; [5;4;0;1]; [6;5;1;2]; [7;6;2;3]; [4;7;3;0]; [3;2;1;0]]%Z in
  wf_poly_b p = true /\ fused_nodes p 4 6 = [4;5;6;4;6;7]%Z /\
  planar_at ex_cube_pos (0, 0, 1)%R (fused_nodes p 4 6) /\
  vol ROps ex_cube_pos [[5;4;0;1]; [6;5;1;2]; [7;6;2;3]; [4;7;3;0]; [3;2;1;0]; [4;5;6;7]]%Z
    = vol ROps ex_cube_pos p.
Proof.
  intros p.
  assert (Hpl : planar_at ex_cube_pos (0, 0, 1)%R (fused_nodes p 4 6)).
  { apply planar_flat. intros v Hv. vm_compute in Hv.
    repeat (destruct Hv as [<- | Hv]; [reflexivity|]). destruct Hv. }
  split; [vm_compute; reflexivity|]. split; [vm_compute; reflexivity|]. split; [exact Hpl|].
  apply (C20_remove_one_edge_volume ex_cube_pos (0, 0, 1)%R p 4 6).
  - apply C20_wf_poly_b_iff. vm_compute. reflexivity.
  - vm_compute. reflexivity.
  - exact Hpl.
Qed.

(* the planarity hypothesis is needed: lift node 5 of the cube to z = 2; the
   fused quadrilateral 4-5-6-7 is not planar and the volume (exact rationals)
   changes from 7/6 to 5/4 *)
Example C20_example_nonplanar_fusion_changes_volume :
  let tbl := [(0, 0, 0); (1, 0, 0); (1, 1, 0); (0, 1, 0); (0, 0, 1); (1, 0, 2); (1, 1, 1); (0, 1, 1)]%Q in
  let p := [[4;5;6]; [4;6;7]; [5;4;0;1]; [6;5;1;2]; [7;6;2;3]; [4;7;3;0]; [3;2;1;0]]%Z in
  exists p', remove_one_edge p 4 6 = Some p' /\ wf_poly_b p = true /\
    planar_b tbl (fused_nodes p 4 6) = false /\
    volQ tbl [p] = (7 # 6)%Q /\ volQ tbl [p'] = (5 # 4)%Q.
Proof.
  exists [[5;4;0;1]; [6;5;1;2]; [7;6;2;3]; [4;7;3;0]; [3;2;1;0]; [4;5;6;7]]%Z.
  vm_compute. repeat split; reflexivity.
Qed.

(* ---- sequences of edge removals (remove_edges between two shrinks) ------
   a cell is replaced by the result of an accepted step and left unchanged by a
   refused one; if every ACCEPTED step fuses coplanar faces, the cell keeps its
   balance and its volume, and so does the whole mesh *)
Theorem C20_remove_edge_sequence : forall (pos : Z -> V3 R) steps p,
  wf_poly p -> steps_planar pos p steps ->
  wf_poly (apply_steps p steps) /\ vol ROps pos (apply_steps p steps) = vol ROps pos p.
Proof. exact remove_edge_sequence. Qed.

Theorem C20_remove_edges_total_volume : forall (pos : Z -> V3 R) (cs : list (poly * list (Z * Z))),
  Forall (fun c => wf_poly (fst c) /\ steps_planar pos (fst c) (snd c)) cs ->
  total_vol ROps pos (map (fun c => apply_steps (fst c) (snd c)) cs) = total_vol ROps pos (map fst cs) /\
  Forall wf_poly (map (fun c => apply_steps (fst c) (snd c)) cs).
Proof. exact remove_edges_total_volume. Qed.

(* non-vacuity: on the split-top cube the sequence [4-6 (accepted, coplanar);
   4-6 again (no such edge any more: accepted, cell unchanged)] satisfies the
   hypothesis and ends in the 6-face cube *)
Example C20_example_sequence :
  let p := [[4;5;6]; [4;6;7]; [5;4;0;1]; [6;5;1;2]; [7;6;2;3]; [4;7;3;0]; [3;2;1;0]]%Z in
  steps_planar ex_cube_pos p [(4, 6); (4, 6)]%Z /\
  apply_steps p [(4, 6); (4, 6)]%Z = [[5;4;0;1]; [6;5;1;2]; [7;6;2;3]; [4;7;3;0]; [3;2;1;0]; [4;5;6;7]]%Z.
Proof.
  intros p. split; [|vm_compute; reflexivity].
  split; [intros _; exists (0, 0, 1)%R; apply planar_flat; intros v Hv; vm_compute in Hv;
          repeat (destruct Hv as [<- | Hv]; [reflexivity|]); destruct Hv|].
  split; [|exact I].
  intros _. exists (0, 0, 1)%R. apply planar_flat. intros v Hv. vm_compute in Hv. destruct Hv.
Qed.

(* ---- the decision of remove_edges (ModelDriver.v): calc_normal and the angle
   test.  If the test sees a cosine of EXACTLY 1 between two flat faces that
   share a node (normals parallel and equally oriented; stated without square
   roots), the two faces are coplanar: the hypothesis planar_at of the volume
   theorem.  In the coplanar-only domain (cos_thresh above every non-flat
   dihedral cosine) every edge the test admits is of this kind. *)
Theorem C20_angle_test_planar : forall (pos : Z -> V3 R) f1 f2 a,
  In a f1 -> In a f2 -> face_flat pos f1 -> face_flat pos f2 ->
  let u := normalv ROps pos f1 in let v := normalv ROps pos f2 in
  (0 < dotv ROps u v)%R -> (dotv ROps u v * dotv ROps u v = dotv ROps u u * dotv ROps v v)%R ->
  planar_at pos (pos a) (f1 ++ f2).
Proof. exact angle_test_planar. Qed.

Theorem C20_remove_one_edge_cos1_volume : forall (pos : Z -> V3 R) p A B p' f1 f2,
  wf_poly p -> remove_one_edge p A B = Some p' ->
  filter (contains_ab A B) p = [f1; f2] -> In A f1 -> In A f2 ->
  face_flat pos f1 -> face_flat pos f2 ->
  (0 < dotv ROps (normalv ROps pos f1) (normalv ROps pos f2))%R ->
  (dotv ROps (normalv ROps pos f1) (normalv ROps pos f2) * dotv ROps (normalv ROps pos f1) (normalv ROps pos f2) =
   dotv ROps (normalv ROps pos f1) (normalv ROps pos f1) * dotv ROps (normalv ROps pos f2) (normalv ROps pos f2))%R ->
  vol ROps pos p' = vol ROps pos p.
Proof. exact remove_one_edge_cos1_volume. Qed.

(* non-vacuity: the two top triangles of the split cube *)
Example C20_example_angle_test :
  let p := [[4;5;6]; [4;6;7]; [5;4;0;1]; [6;5;1;2]; [7;6;2;3]; [4;7;3;0]; [3;2;1;0]]%Z in
  filter (contains_ab 4 6) p = [[4;5;6]; [4;6;7]]%Z /\
  face_flat ex_cube_pos [4;5;6]%Z /\ face_flat ex_cube_pos [4;6;7]%Z /\
  normalv ROps ex_cube_pos [4;5;6]%Z = (0 - 0, 0 - 0, 1 - 0)%R /\
  (0 < dotv ROps (normalv ROps ex_cube_pos [4;5;6]%Z) (normalv ROps ex_cube_pos [4;6;7]%Z))%R.
Proof.
  intros p. split; [vm_compute; reflexivity|].
  split; [intros w Hw; simpl in Hw; repeat (destruct Hw as [<- | Hw]; [cbv [normalv ex_cube_pos dotv crossv vsub vsum vadd vzero map fold_right hd ROps add mul sub zero]; ring|]); destruct Hw|].
  split; [intros w Hw; simpl in Hw; repeat (destruct Hw as [<- | Hw]; [cbv [normalv ex_cube_pos dotv crossv vsub vsum vadd vzero map fold_right hd ROps add mul sub zero]; ring|]); destruct Hw|].
  split.
  - cbv [normalv ex_cube_pos crossv vsub vsum vadd vzero map fold_right ROps add mul sub zero].
    f_equal; [f_equal|]; ring.
  - cbv [normalv ex_cube_pos dotv crossv vsub vsum vadd vzero map fold_right ROps add mul sub zero]. lra.
Qed.

Print Assumptions C20_merge_closed.
Print Assumptions C20_merge_volume.
Print Assumptions C20_sum_conserves_total.
Print Assumptions C20_remove_one_edge_edges.
Print Assumptions C20_remove_one_edge_wf.
Print Assumptions C20_remove_one_edge_volume.
Print Assumptions C20_remove_edge_sequence.
Print Assumptions C20_remove_edges_total_volume.
Print Assumptions C20_angle_test_planar.
Print Assumptions C20_remove_one_edge_cos1_volume.
