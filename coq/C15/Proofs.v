(* C15 — proofs about the gradient-operator model, over the reals. *)
From Coq Require Import List ZArith Bool Arith Reals Lia Lra.
Import ListNotations.
From FV.C15 Require Import Model.

Local Open Scope R_scope.

Ltac rops := cbv [ROps o0 o1 oadd omul osub oopp oinv].

Notation RV3 := (V3 R).

(* ------------------------------------------------------------------ *)
(* list helpers *)

Lemma nth_error_mapi_from {A B} (f : nat -> A -> B) (l : list A) :
  forall k i, nth_error (mapi_from k f l) i = option_map (f (k + i)%nat) (nth_error l i).
Proof.
  induction l as [|x r IH]; intros k i; simpl.
  - destruct i; reflexivity.
  - destruct i; simpl.
    + now rewrite Nat.add_0_r.
    + rewrite IH. now replace (S k + i)%nat with (k + S i)%nat by lia.
Qed.

Lemma nth_error_mapi {A B} (f : nat -> A -> B) (l : list A) i :
  nth_error (mapi f l) i = option_map (f i) (nth_error l i).
Proof. unfold mapi. now rewrite nth_error_mapi_from. Qed.

Lemma length_mapi_from {A B} (f : nat -> A -> B) (l : list A) :
  forall k, length (mapi_from k f l) = length l.
Proof. induction l; intros; simpl; auto. Qed.

(* ------------------------------------------------------------------ *)
(* spmv of the assembled triples = per-row formula *)

(* sum_c value_c * f(col_c) over the stored entries of one row *)
Fixpoint rowdot (a : nat) (r : list (nat * RV3)) (f : nat -> R) : R :=
  match r with
  | [] => 0
  | c :: r' => comp a (snd c) * f (fst c) + rowdot a r' f
  end.

Lemma spmv_app (A B : list (nat * nat * R)) f i :
  spmv ROps (A ++ B) f i = spmv ROps A f i + spmv ROps B f i.
Proof.
  induction A as [|[[r c] x] A IH]; simpl.
  - rops. ring.
  - destruct (Nat.eqb r i); rewrite IH; rops; ring.
Qed.

Lemma axis_app a (A B : list (nat * nat * RV3)) : axis a (A ++ B) = axis a A ++ axis a B.
Proof. unfold axis. apply map_app. Qed.

Lemma spmv_axis_row a k (r : list (nat * RV3)) f i :
  spmv ROps (axis a (map (fun c => (k, fst c, snd c)) r)) f i =
  if Nat.eqb k i then rowdot a r f else 0.
Proof.
  induction r as [|c r IH]; simpl.
  - destruct (Nat.eqb k i); reflexivity.
  - rewrite IH. destruct (Nat.eqb k i); rops; reflexivity.
Qed.

Lemma spmv_triples_from a (Rw : list (list (nat * RV3))) f i :
  forall k,
  spmv ROps (axis a (concat (mapi_from k (fun i r => map (fun c => (i, fst c, snd c)) r) Rw))) f i =
  if Nat.leb k i then
    match nth_error Rw (i - k) with Some r => rowdot a r f | None => 0 end
  else 0.
Proof.
  induction Rw as [|r Rw IH]; intros k; simpl.
  - destruct (Nat.leb k i); [destruct (i - k)%nat|]; reflexivity.
  - rewrite axis_app, spmv_app, spmv_axis_row, IH.
    destruct (Nat.eqb_spec k i) as [->|Hne].
    + rewrite Nat.leb_refl, Nat.sub_diag.
      destruct (Nat.leb_spec (S i) i); [lia|]. cbn [nth_error]. ring.
    + destruct (Nat.leb_spec k i) as [Hle|Hgt].
      * destruct (Nat.leb_spec (S k) i); [|lia].
        replace (i - k)%nat with (S (i - S k)) by lia. cbn [nth_error]. ring.
      * destruct (Nat.leb_spec (S k) i); [lia|]. ring.
Qed.

Lemma spmv_triples a (Rw : list (list (nat * RV3))) f i :
  spmv ROps (axis a (triples_of_rows Rw)) f i =
  match nth_error Rw i with Some r => rowdot a r f | None => 0 end.
Proof.
  unfold triples_of_rows, mapi. rewrite spmv_triples_from. simpl.
  now rewrite Nat.sub_0_r.
Qed.

(* sum_c value_c * (f(col_c) - f(i)) over the off-diagonal coefficients *)
Fixpoint rowdiff (a : nat) (cs : list (nat * RV3)) (f : nat -> R) (i : nat) : R :=
  match cs with
  | [] => 0
  | c :: r => comp a (snd c) * (f (fst c) - f i) + rowdiff a r f i
  end.

Lemma comp_vadd a (u v : RV3) : comp a (vadd ROps u v) = comp a u + comp a v.
Proof. destruct u as [[? ?] ?], v as [[? ?] ?]. destruct a as [|[|a]]; reflexivity. Qed.

Lemma comp_vopp a (u : RV3) : comp a (vopp ROps u) = - comp a u.
Proof. destruct u as [[? ?] ?]. destruct a as [|[|a]]; reflexivity. Qed.

Lemma comp_vzero a : comp a (vzero ROps) = 0.
Proof. destruct a as [|[|a]]; reflexivity. Qed.

Lemma rowdot_app a r1 r2 f : rowdot a (r1 ++ r2) f = rowdot a r1 f + rowdot a r2 f.
Proof. induction r1; simpl; [ring|rewrite IHr1; ring]. Qed.

(* the diagonal is minus the row sum, hence the row acts on differences *)
Lemma rowdot_assemble a i (cs : list (nat * RV3)) f :
  rowdot a (assemble_row ROps i cs) f = rowdiff a cs f i.
Proof.
  unfold assemble_row. rewrite rowdot_app. simpl.
  rewrite comp_vopp.
  induction cs as [|c cs IH]; simpl.
  - rewrite comp_vzero. ring.
  - rewrite comp_vadd. lra.
Qed.

(* the explicit matrix applied by hand = the per-vertex difference formula *)
Lemma spmv_grad_triples a mm (rows : list (list (nbr R))) f i :
  spmv ROps (axis a (grad_triples ROps mm rows)) f i =
  match nth_error rows i with
  | Some ns => rowdiff a (row_coefs ROps mm ns) f i
  | None => 0
  end.
Proof.
  unfold grad_triples. rewrite spmv_triples. unfold grad_rows.
  rewrite nth_error_mapi. destruct (nth_error rows i); simpl; [|reflexivity].
  apply rowdot_assemble.
Qed.

(* ------------------------------------------------------------------ *)
(* constants are mapped to zero: every option combination *)

Lemma rowdiff_const a cs c i : rowdiff a cs (fun _ => c) i = 0.
Proof. induction cs; simpl; [reflexivity|rewrite IHcs; ring]. Qed.

Lemma grad_const_zero_rows a mm (rows : list (list (nbr R))) (c : R) i :
  spmv ROps (axis a (grad_triples ROps mm rows)) (fun _ => c) i = 0.
Proof.
  rewrite spmv_grad_triples. destruct (nth_error rows i); [apply rowdiff_const|reflexivity].
Qed.

(* row sums of the stored entries are zero *)
Fixpoint rowsum (a : nat) (r : list (nat * RV3)) : R :=
  match r with [] => 0 | c :: r' => comp a (snd c) + rowsum a r' end.

Lemma rowsum_rowdot a r : rowsum a r = rowdot a r (fun _ => 1).
Proof. induction r; simpl; [reflexivity|rewrite IHr; ring]. Qed.

Lemma row_sum_zero a i (cs : list (nat * RV3)) : rowsum a (assemble_row ROps i cs) = 0.
Proof. rewrite rowsum_rowdot, rowdot_assemble. apply rowdiff_const. Qed.

(* ------------------------------------------------------------------ *)
(* moment-matrix correction: exact on affine fields *)

Lemma inv33_left (M : M33 (T:=R)) (g : RV3) :
  det33 ROps M <> 0 -> mvec ROps (inv33 ROps M) (mvec ROps M g) = g.
Proof.
  destruct M as [[[[a b] c] [[d e] f]] [[p q] r]]. destruct g as [[g1 g2] g3].
  cbv [det33 inv33 mvec dot vx vy vz fst snd]. rops. intros Hd.
  f_equal; [f_equal|]; field; exact Hd.
Qed.

(* sum_e (g . v_e) * wbs_e * v_e = M g *)
Fixpoint affine_rhs (g : RV3) (ns : list (nbr R)) : RV3 :=
  match ns with
  | [] => vzero ROps
  | e :: r => vadd ROps (vscale ROps (dot ROps g (nb_off e)) (vscale ROps (wbs ROps e) (nb_off e)))
                   (affine_rhs g r)
  end.

Lemma affine_rhs_moment g ns : affine_rhs g ns = mvec ROps (moment ROps ns) g.
Proof.
  induction ns as [|e r IH]; simpl.
  - destruct g as [[g1 g2] g3]. cbv [mvec mzero vzero dot vx vy vz fst snd]. rops.
    f_equal; [f_equal|]; ring.
  - rewrite IH. destruct (moment ROps r) as [[[[a b] c] [[d e'] f]] [[p q] s]].
    destruct e as [[j [[v1 v2] v3]] w]. destruct g as [[g1 g2] g3].
    cbv [mvec madd outer vadd vscale dot vx vy vz wbs nb_off nb_w norm2 fst snd]. rops.
    f_equal; [f_equal|]; ring.
Qed.

(* linearity of x |-> comp a (Mi x) over the neighbour list *)
Lemma rowdiff_moment_linear a (Mi : M33 (T:=R)) (g : RV3) f i (ns : list (nbr R)) :
  (forall e, In e ns -> f (nb_col e) - f i = dot ROps g (nb_off e)) ->
  rowdiff a (map (fun e => (nb_col e, mvec ROps Mi (vscale ROps (wbs ROps e) (nb_off e)))) ns) f i
  = comp a (mvec ROps Mi (affine_rhs g ns)).
Proof.
  induction ns as [|e r IH]; intros H; cbn [map rowdiff affine_rhs fst snd].
  - destruct Mi as [[[[a1 b] c] [[d e'] f']] [[p q] s]].
    destruct a as [|[|a]]; cbv [comp mvec vzero dot vx vy vz fst snd]; rops; ring.
  - rewrite IH by (intros; apply H; now right).
    rewrite (H e) by now left.
    destruct Mi as [[[[a1 b] c] [[d e'] f']] [[p q] s]].
    destruct (affine_rhs g r) as [[r1 r2] r3].
    set (dg := dot ROps g (nb_off e)). set (ws := wbs ROps e).
    destruct (nb_off e) as [[v1 v2] v3].
    destruct a as [|[|a]]; cbv [comp mvec vadd vscale dot vx vy vz fst snd]; rops; ring.
Qed.

Lemma moment_row_exact a (g : RV3) f i (ns : list (nbr R)) :
  det33 ROps (moment ROps ns) <> 0 ->
  (forall e, In e ns -> f (nb_col e) - f i = dot ROps g (nb_off e)) ->
  rowdiff a (coef_moment ROps ns) f i = comp a g.
Proof.
  intros Hd H. unfold coef_moment.
  rewrite (rowdiff_moment_linear a _ g f i ns H).
  rewrite affine_rhs_moment, inv33_left by exact Hd. reflexivity.
Qed.

(* ------------------------------------------------------------------ *)
(* offsets in the rows built from a mesh are position differences *)

Lemma make_rows_nth kern (P : list RV3) vol A i ns :
  nth_error (make_rows ROps kern P vol A) i = Some ns ->
  forall e, In e ns ->
    nb_off e = vsub ROps (nth (nb_col e) P (vzero ROps)) (nth i P (vzero ROps)).
Proof.
  unfold make_rows. rewrite nth_error_mapi.
  destruct (nth_error A i) as [row|]; simpl; [|discriminate].
  intros [= <-] e He. apply in_map_iff in He. destruct He as [j [<- _]]. reflexivity.
Qed.

Definition affine (g : RV3) (c : R) (P : list RV3) (j : nat) : R :=
  dot ROps g (nth j P (vzero ROps)) + c.

Lemma affine_diff g c P j i :
  affine g c P j - affine g c P i =
  dot ROps g (vsub ROps (nth j P (vzero ROps)) (nth i P (vzero ROps))).
Proof.
  unfold affine. destruct (nth j P (vzero ROps)) as [[a1 a2] a3].
  destruct (nth i P (vzero ROps)) as [[b1 b2] b3]. destruct g as [[g1 g2] g3].
  cbv [dot vsub vx vy vz fst snd]. rops. ring.
Qed.

Lemma moment_exact_make_rows a kern (P : list RV3) vol A (g : RV3) (c : R) i ns :
  nth_error (make_rows ROps kern P vol A) i = Some ns ->
  det33 ROps (moment ROps ns) <> 0 ->
  spmv ROps (axis a (grad_triples ROps true (make_rows ROps kern P vol A))) (affine g c P) i
  = comp a g.
Proof.
  intros Hn Hd. rewrite spmv_grad_triples, Hn. simpl.
  apply moment_row_exact; [exact Hd|].
  intros e He. rewrite affine_diff. now rewrite (make_rows_nth _ _ _ _ _ _ Hn e He).
Qed.

(* ------------------------------------------------------------------ *)
(* convenience functions = the explicit matrices applied by hand *)

Definition entry3 {X} (G : list (list (list X))) (i a k : nat) : option X :=
  match nth_error G i with
  | Some Gi => match nth_error Gi a with
               | Some Gia => nth_error Gia k
               | None => None
               end
  | None => None
  end.

Lemma nth_error_map_seq {X} (f : nat -> X) n i :
  (i < n)%nat -> nth_error (map f (seq 0 n)) i = Some (f i).
Proof.
  intros H. rewrite nth_error_map, nth_error_nth' with (d := O) by now rewrite seq_length.
  now rewrite seq_nth.
Qed.

Lemma spmm_nth n nfeat A data i :
  (i < n)%nat ->
  nth_error (spmm ROps n nfeat A data) i =
  Some (map (fun k => spmv ROps A (data_col ROps data k) i) (seq 0 nfeat)).
Proof. intros. unfold spmm. now rewrite nth_error_map_seq. Qed.

Lemma stacked_entry (A0 A1 A2 : list (nat * nat * R)) n nfeat data i a k :
  (i < n)%nat -> (a < 3)%nat -> (k < nfeat)%nat ->
  entry3 (stack_axis1 n (map (fun A => spmm ROps n nfeat A data) [A0; A1; A2])) i a k =
  Some (spmv ROps (nth a [A0; A1; A2] []) (data_col ROps data k) i).
Proof.
  intros Hi Ha Hk. unfold entry3, stack_axis1.
  rewrite nth_error_map_seq by exact Hi. simpl.
  rewrite !spmm_nth by exact Hi. simpl.
  destruct a as [|[|[|a]]]; simpl; try lia; now rewrite nth_error_map_seq.
Qed.

(* ------------------------------------------------------------------ *)
(* mesh-level glue *)

Lemma sgam_inv o kern (m : mesh R) evol As :
  spatial_gradient_adjacency_matrices ROps o kern m evol = Some As ->
  exists rows, mesh_rows ROps o kern m evol = Some rows /\
               As = grad_adjs ROps (o_moment o) rows.
Proof.
  unfold spatial_gradient_adjacency_matrices.
  destruct (mesh_rows ROps o kern m evol) as [rows|]; [|discriminate].
  intros [= <-]. now exists rows.
Qed.

Lemma grad_adjs_nth mm (rows : list (list (nbr R))) a :
  (a < 3)%nat ->
  nth a (grad_adjs ROps mm rows) [] = axis a (grad_triples ROps mm rows).
Proof. intros H. destruct a as [|[|[|a]]]; try lia; reflexivity. Qed.

Lemma grad_adjs_In mm (rows : list (list (nbr R))) A :
  In A (grad_adjs ROps mm rows) -> exists a, A = axis a (grad_triples ROps mm rows).
Proof.
  unfold grad_adjs. intros H. apply in_map_iff in H. destruct H as [a [<- _]]. now exists a.
Qed.

(* shapes of the boolean matrices: n rows of n columns *)
Definition bm_ok (n : nat) (A : bmat) : Prop :=
  length A = n /\ Forall (fun r => length r = n) A.

Lemma map2_length {A B C} (f : A -> B -> C) (a : list A) (b : list B) :
  length (map2 f a b) = Nat.min (length a) (length b).
Proof. revert b; induction a; intros [|y b]; simpl; auto. Qed.

Lemma orow_length a b n : length a = n -> length b = n -> length (orow a b) = n.
Proof. intros. unfold orow. rewrite map2_length. lia. Qed.

Lemma brow_mul_length n r B :
  Forall (fun x => length x = n) B -> length (brow_mul n r B) = n.
Proof.
  revert B; induction r as [|x r IH]; intros [|row B] HB; simpl; try apply repeat_length.
  inversion HB; subst. destruct x; [apply orow_length|]; auto.
Qed.

Lemma bmul_ok n A B : bm_ok n A -> bm_ok n B -> bm_ok n (bmul n A B).
Proof.
  intros [HA _] [_ HB]. split; unfold bmul.
  - now rewrite map_length.
  - apply Forall_map, Forall_forall. intros r _. now apply brow_mul_length.
Qed.

Lemma bor_ok n A B : bm_ok n A -> bm_ok n B -> bm_ok n (bor A B).
Proof.
  intros [HA1 HA2] [HB1 HB2]. split; unfold bor.
  - rewrite map2_length. lia.
  - clear HA1 HB1. revert B HB2. induction HA2 as [|r A Hr HA IH]; intros [|r' B] HB; simpl;
      try constructor.
    + inversion HB; subst. now apply orow_length.
    + inversion HB; subst. now apply IH.
Qed.

Lemma hop_iter_ok n k adj : bm_ok n adj ->
  forall pw ret, bm_ok n pw -> bm_ok n ret -> bm_ok n (hop_iter n k adj pw ret).
Proof.
  intros Hadj. induction k as [|k IH]; intros pw ret Hpw Hret; simpl; [exact Hret|].
  apply IH; [apply bmul_ok|apply bor_ok; [|apply bmul_ok]]; assumption.
Qed.

Lemma Forall_mapi_from {X Y} (Q : Y -> Prop) (f : nat -> X -> Y) l :
  (forall k x, In x l -> Q (f k x)) -> forall k, Forall Q (mapi_from k f l).
Proof.
  induction l as [|x l IH]; intros H k; simpl; constructor.
  - apply H. now left.
  - apply IH. intros. apply H. now right.
Qed.

Lemma remove_diag_ok n A : bm_ok n A -> bm_ok n (remove_diag A).
Proof.
  intros [H1 H2]. unfold remove_diag. split.
  - unfold mapi. now rewrite length_mapi_from.
  - apply Forall_mapi_from. intros k r Hr. unfold mapi. rewrite length_mapi_from.
    rewrite Forall_forall in H2. now apply H2.
Qed.

Lemma n_hop_adj_ok n h adj : bm_ok n adj -> bm_ok n (n_hop_adj n h adj).
Proof. intros H. apply remove_diag_ok, hop_iter_ok; assumption. Qed.

Lemma adj_nodal_ok n inc : bm_ok n (adj_nodal n inc).
Proof.
  unfold adj_nodal. split.
  - now rewrite map_length, seq_length.
  - apply Forall_map, Forall_forall. intros i _. now rewrite map_length, seq_length.
Qed.

Lemma adj_elemental_ok inc : bm_ok (length inc) (adj_elemental inc).
Proof.
  unfold adj_elemental. split.
  - now rewrite map_length.
  - apply Forall_map, Forall_forall. intros i _. now rewrite map_length.
Qed.

Lemma true_positions_bound row : forall k j,
  In j (true_positions_from k row) -> (j < k + length row)%nat.
Proof.
  induction row as [|b r IH]; intros k j; simpl; [tauto|].
  destruct b; simpl; intros H.
  - destruct H as [<-|H]; [lia|]. apply IH in H. lia.
  - apply IH in H. lia.
Qed.

(* stored columns are valid vertex indices *)
Lemma make_rows_cols kern (P : list RV3) vol A n i ns :
  bm_ok n A ->
  nth_error (make_rows ROps kern P vol A) i = Some ns ->
  (i < n)%nat /\ forall e, In e ns -> (nb_col e < n)%nat.
Proof.
  intros [H1 H2]. unfold make_rows. rewrite nth_error_mapi.
  destruct (nth_error A i) as [row|] eqn:E; simpl; [|discriminate].
  intros [= <-]. split.
  - rewrite <- H1. apply nth_error_Some. now rewrite E.
  - intros e He. apply in_map_iff in He. destruct He as [j [<- Hj]].
    apply true_positions_bound in Hj. simpl in *.
    rewrite Forall_forall in H2. rewrite (H2 row) in Hj; [exact Hj|].
    eapply nth_error_In; eassumption.
Qed.

Lemma mesh_rows_inv o kern (m : mesh R) evol rows :
  mesh_rows ROps o kern m evol = Some rows ->
  exists inc vol A, incidence m = Some inc /\
    rows = make_rows ROps kern (vertex_positions ROps (o_mode o) m inc) vol A /\
    bm_ok (length (vertex_positions ROps (o_mode o) m inc)) A.
Proof.
  unfold mesh_rows. destruct (incidence m) as [inc|]; [|discriminate].
  intros [= <-]. eexists inc, _, _. split; [reflexivity|split; [reflexivity|]].
  destruct (o_mode o); simpl; rewrite map_length; apply n_hop_adj_ok.
  - apply adj_nodal_ok.
  - apply adj_elemental_ok.
Qed.

Lemma data_col_affine g c (P : list RV3) j :
  (j < length P)%nat ->
  data_col ROps (map (fun x => [dot ROps g x + c]) P) 0 j = affine g c P j.
Proof.
  unfold data_col, affine. revert j.
  induction P as [|x P IH]; intros [|j] Hj; simpl in *; try lia.
  - reflexivity.
  - apply IH. lia.
Qed.
