(* C15 — the operator is covariant under a change of the unit of length and
   of the unit of the weights: multiplying every offset by s <> 0 and every
   weight by t <> 0 (volumes scale like s^3, kernels by anything) divides
   every coefficient by s, with or without moment matrix.  Hence constants
   still map to 0 and the gradient of g.x + c is still g at every scale; any
   absolute threshold in the code (on tensor components, on determinants)
   breaks this. *)
From Coq Require Import List Reals Lra.
Import ListNotations.
From FV.C15 Require Import Model Proofs.
Local Open Scope R_scope.

Ltac tup := repeat match goal with |- (_, _) = (_, _) => apply f_equal2 end.

Definition scale_nbr (s t : R) (e : nbr R) : nbr R :=
  (nb_col e, vscale ROps s (nb_off e), t * nb_w e).

Definition scale_coef (s : R) (c : nat * V3 R) : nat * V3 R :=
  (fst c, vscale ROps (/ s) (snd c)).

Lemma sum_w_scale s t ns : sum_w ROps (map (scale_nbr s t) ns) = t * sum_w ROps ns.
Proof.
  unfold sum_w. induction ns as [|e r IH]; simpl.
  - rops. ring.
  - revert IH. rops. intros ->. unfold nb_w; simpl. ring.
Qed.

Lemma norm2_scale s (v : V3 R) : norm2 ROps (vscale ROps s v) = (s * s) * norm2 ROps v.
Proof. destruct v as [[a b] c]. cbv [norm2 dot vscale vx vy vz fst snd]. rops. ring. Qed.

Lemma coef_plain_scale s t ns : s <> 0 -> t <> 0 ->
  coef_plain ROps (map (scale_nbr s t) ns) = map (scale_coef s) (coef_plain ROps ns).
Proof.
  intros Hs Ht. unfold coef_plain. rewrite sum_w_scale, !map_map.
  apply map_ext. intros e. unfold scale_coef, scale_nbr, nb_col, nb_off, nb_w. cbn [fst snd].
  f_equal. rewrite norm2_scale.
  set (n := norm2 ROps (snd (fst e))). set (sw := sum_w ROps ns).
  destruct (snd (fst e)) as [[a b] c]. cbv [vscale three vx vy vz fst snd]. rops.
  rewrite !Rinv_mult. generalize (/ n) (/ sw). intros in' isw.
  tup; field; auto.
Qed.

Definition mscale (t : R) (M : M33 (T:=R)) : M33 (T:=R) :=
  let '(r1, r2, r3) := M in (vscale ROps t r1, vscale ROps t r2, vscale ROps t r3).

Lemma wbs_scale s t e : s <> 0 ->
  wbs ROps (scale_nbr s t e) = / (s * s) * (t * wbs ROps e).
Proof.
  intros Hs. unfold wbs, scale_nbr, nb_off, nb_w. cbn [fst snd]. rewrite norm2_scale.
  rops. rewrite Rinv_mult. ring.
Qed.

Lemma moment_scale s t ns : s <> 0 ->
  moment ROps (map (scale_nbr s t) ns) = mscale t (moment ROps ns).
Proof.
  intros Hs. induction ns as [|e r IH]; cbn [map moment].
  - cbv [mscale mzero vzero vscale vx vy vz fst snd]. rops.
    tup; ring.
  - rewrite IH, wbs_scale by exact Hs.
    destruct (moment ROps r) as [[[[a b] c] [[d e'] f]] [[p q] u]].
    set (w := wbs ROps e). unfold scale_nbr, nb_off. cbn [fst snd].
    destruct (snd (fst e)) as [[v1 v2] v3].
    cbv [mscale madd outer vadd vscale vx vy vz fst snd]. rops.
    rewrite Rinv_mult.
    tup; field; exact Hs.
Qed.

Lemma inv33_scale t (M : M33 (T:=R)) : t <> 0 ->
  inv33 ROps (mscale t M) = mscale (/ t) (inv33 ROps M).
Proof.
  intros Ht. destruct M as [[[[a b] c] [[d e] f]] [[g h] i]].
  cbv [inv33 det33 mscale vscale vx vy vz fst snd]. rops.
  replace (t * a * (t * e * (t * i) - t * f * (t * h)) - t * b * (t * d * (t * i) - t * f * (t * g)) +
           t * c * (t * d * (t * h) - t * e * (t * g)))
    with ((t * t * t) * (a * (e * i - f * h) - b * (d * i - f * g) + c * (d * h - e * g))) by ring.
  rewrite !Rinv_mult.
  generalize (/ (a * (e * i - f * h) - b * (d * i - f * g) + c * (d * h - e * g))). intros k.
  tup; field; exact Ht.
Qed.

Lemma coef_moment_scale s t ns : s <> 0 -> t <> 0 ->
  coef_moment ROps (map (scale_nbr s t) ns) = map (scale_coef s) (coef_moment ROps ns).
Proof.
  intros Hs Ht. unfold coef_moment.
  rewrite moment_scale, inv33_scale, !map_map by assumption.
  apply map_ext. intros e. unfold scale_coef. cbn [fst snd].
  change (nb_col (scale_nbr s t e)) with (nb_col e). f_equal.
  rewrite wbs_scale by exact Hs.
  destruct (inv33 ROps (moment ROps ns)) as [[[[a b] c] [[d e'] f]] [[p q] u]].
  set (w := wbs ROps e). unfold scale_nbr, nb_off. cbn [fst snd].
  destruct (snd (fst e)) as [[v1 v2] v3].
  cbv [mscale mvec dot vscale vx vy vz fst snd]. rops.
  rewrite Rinv_mult.
  tup; field; auto.
Qed.

Theorem row_coefs_scale mm s t ns : s <> 0 -> t <> 0 ->
  row_coefs ROps mm (map (scale_nbr s t) ns) = map (scale_coef s) (row_coefs ROps mm ns).
Proof.
  intros. destruct mm; [now apply coef_moment_scale|now apply coef_plain_scale].
Qed.
