(* C15 — the weights femio uses are positive: a positive kernel (None = 1,
   exp, gauss) times the neighbour's volume, where nodal volumes (effective or
   mean) are positive as soon as the element volumes are and every node
   belongs to an element.  With Span.v this turns the premise of the
   exactness theorem into the property's own precondition. *)
From Coq Require Import List Reals Lra Lia Bool Arith.
Import ListNotations.
From FV.C15 Require Import Model Proofs.
Local Open Scope R_scope.

Lemma of_nat_nonneg k : 0 <= of_nat ROps k.
Proof. induction k; simpl; rops; [lra|]. revert IHk. rops. lra. Qed.

Lemma of_nat_pos k : (0 < k)%nat -> 0 < of_nat ROps k.
Proof.
  destruct k; [lia|]. intros _. simpl. pose proof (of_nat_nonneg k) as H. revert H. rops. lra.
Qed.

(* sum over the elements of g(element, volume): nonnegative terms, and a
   positive term for an element that contains j *)
Lemma tsum_map2_pos (g : list nat -> R -> R) (j : nat) :
  (forall e v, 0 < v -> 0 <= g e v) ->
  (forall e v, 0 < v -> mem_nat j e = true -> 0 < g e v) ->
  forall inc evol,
    length inc = length evol -> Forall (fun v => 0 < v) evol ->
    0 <= tsum ROps (map2 g inc evol) /\
    (Exists (fun e => mem_nat j e = true) inc -> 0 < tsum ROps (map2 g inc evol)).
Proof.
  intros G0 G1. induction inc as [|e inc IH]; intros [|v evol] Hl Hv; simpl in *; try discriminate.
  - split; [rops; lra|]. intros H. inversion H.
  - inversion Hv as [|? ? Hv0 Hvr]; subst.
    destruct (IH evol) as [I0 I1]; [lia|assumption|].
    pose proof (G0 e v Hv0) as T0. revert I0 I1 T0. rops. intros I0 I1 T0. split; [lra|].
    intros H. inversion H as [? ? Hm|? ? Hr]; subst.
    + pose proof (G1 e v Hv0 Hm). lra.
    + pose proof (I1 Hr). lra.
Qed.

Lemma mem_nat_nonempty j e : mem_nat j e = true -> e <> [].
Proof. intros H ->. discriminate. Qed.

Lemma effective_pos j inc evol :
  length inc = length evol -> Forall (fun v => 0 < v) evol ->
  Exists (fun e => mem_nat j e = true) inc ->
  0 < tsum ROps (map2 (fun e v => if mem_nat j e then oinv ROps (of_nat ROps (length e)) * v
                                  else 0) inc evol).
Proof.
  intros Hl Hv He.
  refine (proj2 (tsum_map2_pos _ j _ _ inc evol Hl Hv) He).
  - intros e v Hp. destruct (mem_nat j e) eqn:E; [|lra].
    assert (0 < of_nat ROps (length e)).
    { apply of_nat_pos. destruct e; [discriminate|simpl; lia]. }
    rops. apply Rlt_le, Rmult_lt_0_compat; [apply Rinv_0_lt_compat|]; assumption.
  - intros e v Hp E. rewrite E.
    assert (0 < of_nat ROps (length e)).
    { apply of_nat_pos. destruct e; [discriminate|simpl; lia]. }
    rops. apply Rmult_lt_0_compat; [apply Rinv_0_lt_compat|]; assumption.
Qed.

Lemma mean_pos j inc evol :
  length inc = length evol -> Forall (fun v => 0 < v) evol ->
  Exists (fun e => mem_nat j e = true) inc ->
  let s := tsum ROps (map2 (fun e v => if mem_nat j e then v else 0) inc evol) in
  0 < tsum ROps (map2 (fun e v => if mem_nat j e then (v * oinv ROps s) * v else 0) inc evol).
Proof.
  intros Hl Hv He s.
  assert (Hs : 0 < s).
  { refine (proj2 (tsum_map2_pos _ j _ _ inc evol Hl Hv) He).
    - intros e v Hp. destruct (mem_nat j e); lra.
    - intros e v Hp E. now rewrite E. }
  refine (proj2 (tsum_map2_pos _ j _ _ inc evol Hl Hv) He).
  - intros e v Hp. destruct (mem_nat j e); [|lra]. rops.
    apply Rlt_le, Rmult_lt_0_compat; [apply Rmult_lt_0_compat; [|apply Rinv_0_lt_compat]|]; assumption.
  - intros e v Hp E. rewrite E. rops.
    apply Rmult_lt_0_compat; [apply Rmult_lt_0_compat; [|apply Rinv_0_lt_compat]|]; assumption.
Qed.

Lemma nth_map_seq (f : nat -> R) n j : (j < n)%nat -> nth j (map f (seq 0 n)) 0 = f j.
Proof.
  intros H. rewrite nth_indep with (d' := f 0%nat) by now rewrite map_length, seq_length.
  change (f 0%nat) with (f 0%nat). rewrite map_nth. now rewrite seq_nth.
Qed.

(* every vertex volume is positive *)
Lemma vertex_volumes_pos o (m : mesh R) inc evol vs :
  length evol = length inc -> Forall (fun v => 0 < v) evol ->
  (forall j, (j < length (m_nodes m))%nat -> Exists (fun e => mem_nat j e = true) inc) ->
  vertex_volumes ROps o (length (m_nodes m)) inc evol = Some vs ->
  let n := match o_mode o with Nodal => length (m_nodes m) | Elemental => length inc end in
  forall j, (j < n)%nat -> 0 < nth j vs 0.
Proof.
  intros Hl Hv Hcov EV n j Hj. unfold vertex_volumes in EV. subst n.
  destruct (o_consider_volume o); [|discriminate].
  destruct (o_mode o); injection EV as <-.
  - destruct (o_use_effective_volume o).
    + unfold nodal_effective. rewrite nth_map_seq by exact Hj.
      apply effective_pos; auto.
    + unfold nodal_mean. rewrite nth_map_seq by exact Hj.
      apply (mean_pos j inc evol); auto.
  - rewrite <- Hl in Hj. rewrite Forall_forall in Hv. apply Hv, nth_In, Hj.
Qed.

(* every weight stored in the rows of a mesh is positive *)
Lemma mesh_weights_pos o kern (m : mesh R) evol rows inc :
  mesh_rows ROps o kern m evol = Some rows ->
  incidence m = Some inc ->
  (forall v, 0 < kern v) ->
  length evol = length inc -> Forall (fun v => 0 < v) evol ->
  (forall j, (j < length (m_nodes m))%nat -> Exists (fun e => mem_nat j e = true) inc) ->
  forall i ns, nth_error rows i = Some ns -> forall e, In e ns -> 0 < nb_w e.
Proof.
  intros Hrows Hinc Hk Hl Hv Hcov i ns Hns e He.
  unfold mesh_rows in Hrows. rewrite Hinc in Hrows. injection Hrows as <-.
  set (n := match o_mode o with Nodal => length (m_nodes m) | Elemental => length inc end) in *.
  assert (Hok : bm_ok n (n_hop_adj n (o_hop o) (vertex_adj (o_mode o) n inc))).
  { apply n_hop_adj_ok. subst n. destruct (o_mode o); simpl;
      [apply adj_nodal_ok|apply adj_elemental_ok]. }
  destruct (make_rows_cols _ _ _ _ _ _ _ Hok Hns) as [_ Hcols].
  pose proof (Hcols e He) as Hc.
  unfold make_rows in Hns. rewrite nth_error_mapi in Hns.
  destruct (nth_error _ i) as [row|]; simpl in Hns; [|discriminate].
  injection Hns as <-. apply in_map_iff in He. destruct He as [j [<- Hj]].
  cbn [nb_w snd nb_col fst] in *.
  destruct (vertex_volumes ROps o (length (m_nodes m)) inc evol) as [vs|] eqn:EV.
  - pose proof (vertex_volumes_pos o m inc evol vs Hl Hv Hcov EV j Hc) as Hp.
    rops. apply Rmult_lt_0_compat; [apply Hk|exact Hp].
  - rops. pose proof (Hk (vsub ROps (nth j (vertex_positions ROps (o_mode o) m inc) (vzero ROps))
                               (nth i (vertex_positions ROps (o_mode o) m inc) (vzero ROps)))).
    revert H. rops. lra.
Qed.
