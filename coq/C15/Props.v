(* C15 — spatial gradient operators are exact on affine fields.
   Statements only; the model is Model.v, the proofs are in Proofs.v.

   Reading guide.  [spatial_gradient_adjacency_matrices o kern m evol] is the
   model of FEMData.calculate_spatial_gradient_adjacency_matrices: the list of
   the three returned sparse matrices as COO triples over storage positions.
     o     : mode (nodal / elemental), n_hop, consider_volume,
             use_effective_volume, moment_matrix
     kern  : ARBITRARY function of the offset x_j - x_i (kernel=None, 'exp',
             'gauss', any alpha, are instances)
     m     : arbitrary mesh (ids, storage order, positions, connectivity)
     evol  : arbitrary element volumes
   [spmv A f i] is "the matrix applied by hand": (A f)_i.
   Neumann-normal terms (normals=...) are outside the property and the model. *)
From Coq Require Import List ZArith Bool Arith Reals Lia Lra.
Import ListNotations.
From FV.C15 Require Import Model Proofs Span Positive Scale.
Local Open Scope R_scope.

(* 1a. Constants are mapped to zero by every returned matrix: every mesh,
   nodal/elemental, every hop count, every kernel, volume weighting on/off
   (effective or mean), with or without moment matrix. *)
Theorem C15_grad_const_zero :
  forall (o : opts) (kern : V3 R -> R) (m : mesh R) (evol : list R) As,
    spatial_gradient_adjacency_matrices ROps o kern m evol = Some As ->
    forall A, In A As ->
    forall (c : R) (i : nat), spmv ROps A (fun _ => c) i = 0.
Proof.
  intros o kern m evol As H A HA c i.
  destruct (sgam_inv _ _ _ _ _ H) as [rows [_ ->]].
  destruct (grad_adjs_In _ _ _ HA) as [a ->].
  apply grad_const_zero_rows.
Qed.

(* 1b. The same for ANY neighbour structure and ANY weights (so it does not
   depend on how adjacency and weights were obtained): the stored entries of
   every assembled row sum to zero, the diagonal being minus the sum of the
   others. *)
Theorem C15_row_sums_zero :
  forall (mm : bool) (rows : list (list (nbr R))) (a i : nat) r,
    nth_error (grad_rows ROps mm rows) i = Some r -> rowsum a r = 0.
Proof.
  intros mm rows a i r. unfold grad_rows. rewrite nth_error_mapi.
  destruct (nth_error rows i); simpl; [|discriminate].
  intros [= <-]. apply row_sum_zero.
Qed.

(* 2. With the moment-matrix correction the gradient of every affine field
   f(x) = g.x + c is exact at every vertex i whose moment matrix is regular
   (interior or boundary, any hop count, any kernel, any volume weighting, any
   ids / storage order).  P is the list of vertex positions (node positions or
   element centroids). *)
Theorem C15_moment_exact :
  forall (o : opts) (kern : V3 R -> R) (m : mesh R) (evol : list R) As rows inc,
    o_moment o = true ->
    spatial_gradient_adjacency_matrices ROps o kern m evol = Some As ->
    mesh_rows ROps o kern m evol = Some rows ->
    incidence m = Some inc ->
    let P := vertex_positions ROps (o_mode o) m inc in
    forall i ns, nth_error rows i = Some ns ->
    det33 ROps (moment ROps ns) <> 0 ->
    forall (g : V3 R) (c : R) (a : nat), (a < 3)%nat ->
      spmv ROps (nth a As []) (affine g c P) i = comp a g.
Proof.
  intros o kern m evol As rows inc Hmm HA Hrows Hinc P i ns Hns Hdet g c a Ha.
  destruct (sgam_inv _ _ _ _ _ HA) as [rows' [Hr' ->]].
  rewrite Hrows in Hr'. injection Hr' as <-.
  rewrite Hmm, grad_adjs_nth by exact Ha.
  destruct (mesh_rows_inv _ _ _ _ _ Hrows) as [inc' [vol [A [Hinc' [Heq _]]]]].
  rewrite Hinc in Hinc'. injection Hinc' as <-.
  subst rows. apply moment_exact_make_rows with (ns := ns); assumption.
Qed.

(* 2b. The row-level fact behind it, for ANY neighbour list with ANY weights:
   if the field differences along the stored offsets are g . v_j then the
   moment-corrected row returns g. *)
Theorem C15_moment_exact_any_row :
  forall (rows : list (list (nbr R))) (f : nat -> R) (g : V3 R) (i : nat) ns,
    nth_error rows i = Some ns ->
    det33 ROps (moment ROps ns) <> 0 ->
    (forall e, In e ns -> f (nb_col e) - f i = dot ROps g (nb_off e)) ->
    forall a, spmv ROps (axis a (grad_triples ROps true rows)) f i = comp a g.
Proof.
  intros rows f g i ns Hn Hd H a. rewrite spmv_grad_triples, Hn. simpl.
  now apply moment_row_exact.
Qed.

(* 2c. The premise [det M_i <> 0] follows from the property's precondition
   "the vertex neighbourhood spans space": positive weights (every kernel and
   every positive volume family) and three stored offsets with non-zero
   determinant make the moment matrix regular. *)
Theorem C15_moment_regular_if_spanning :
  forall ns : list (nbr R),
    (forall e, In e ns -> 0 < nb_w e) ->
    (exists e1 e2 e3, In e1 ns /\ In e2 ns /\ In e3 ns /\
                      det33 ROps (nb_off e1, nb_off e2, nb_off e3) <> 0) ->
    det33 ROps (moment ROps ns) <> 0.
Proof. exact moment_regular_if_spanning. Qed.

(* 2d. Exactness stated with the property's own precondition. *)
Theorem C15_moment_exact_spanning :
  forall (o : opts) (kern : V3 R -> R) (m : mesh R) (evol : list R) As rows inc,
    o_moment o = true ->
    spatial_gradient_adjacency_matrices ROps o kern m evol = Some As ->
    mesh_rows ROps o kern m evol = Some rows ->
    incidence m = Some inc ->
    let P := vertex_positions ROps (o_mode o) m inc in
    forall i ns, nth_error rows i = Some ns ->
    (forall e, In e ns -> 0 < nb_w e) ->
    (exists e1 e2 e3, In e1 ns /\ In e2 ns /\ In e3 ns /\
                      det33 ROps (nb_off e1, nb_off e2, nb_off e3) <> 0) ->
    forall (g : V3 R) (c : R) (a : nat), (a < 3)%nat ->
      spmv ROps (nth a As []) (affine g c P) i = comp a g.
Proof.
  intros o kern m evol As rows inc Hmm HA Hrows Hinc P i ns Hns Hw Hspan.
  apply (C15_moment_exact o kern m evol As rows inc Hmm HA Hrows Hinc i ns Hns).
  now apply moment_regular_if_spanning.
Qed.

(* 2e. The same with mesh-level hypotheses only: a positive kernel (None = 1,
   exp, gauss), positive element volumes, every node belongs to an element,
   and the neighbourhood of vertex i contains three offsets that span space.
   Then the moment-corrected operator is exact at i for every affine field. *)
Theorem C15_exact_on_spanning_neighbourhoods :
  forall (o : opts) (kern : V3 R -> R) (m : mesh R) (evol : list R) As rows inc,
    o_moment o = true ->
    spatial_gradient_adjacency_matrices ROps o kern m evol = Some As ->
    mesh_rows ROps o kern m evol = Some rows ->
    incidence m = Some inc ->
    (forall v, 0 < kern v) ->
    length evol = length inc -> Forall (fun v => 0 < v) evol ->
    (forall j, (j < length (m_nodes m))%nat -> Exists (fun e => mem_nat j e = true) inc) ->
    let P := vertex_positions ROps (o_mode o) m inc in
    forall i ns, nth_error rows i = Some ns ->
    (exists e1 e2 e3, In e1 ns /\ In e2 ns /\ In e3 ns /\
                      det33 ROps (nb_off e1, nb_off e2, nb_off e3) <> 0) ->
    forall (g : V3 R) (c : R) (a : nat), (a < 3)%nat ->
      spmv ROps (nth a As []) (affine g c P) i = comp a g.
Proof.
  intros o kern m evol As rows inc Hmm HA Hrows Hinc Hk Hl Hv Hcov P i ns Hns Hspan.
  apply (C15_moment_exact_spanning o kern m evol As rows inc Hmm HA Hrows Hinc i ns Hns);
    [|exact Hspan].
  exact (mesh_weights_pos o kern m evol rows inc Hrows Hinc Hk Hl Hv Hcov i ns Hns).
Qed.

(* 3. The convenience functions calculate_{nodal,elemental}_spatial_gradients
   (np.stack([A.dot(data) for A in grad_adjs], axis=1)) return, at
   [vertex i][axis a][feature k], the a-th explicit matrix applied by hand to
   column k of the data. *)
Theorem C15_convenience_equals_matrices :
  forall (o : opts) (kern : V3 R -> R) (m : mesh R) (evol : list R) As
         (nfeat : nat) (data : list (list R)),
    spatial_gradient_adjacency_matrices ROps o kern m evol = Some As ->
    exists G, spatial_gradients ROps o kern m evol nfeat data = Some G /\
      forall i a k, (i < length data)%nat -> (a < 3)%nat -> (k < nfeat)%nat ->
        entry3 G i a k = Some (spmv ROps (nth a As []) (data_col ROps data k) i).
Proof.
  intros o kern m evol As nfeat data H.
  unfold spatial_gradients. rewrite H. eexists. split; [reflexivity|].
  intros i a k Hi Ha Hk.
  destruct (sgam_inv _ _ _ _ _ H) as [rows [_ ->]].
  unfold grad_adjs. cbn [map]. now apply stacked_entry.
Qed.

(* 2 + 3: what the user sees.  The convenience function applied to the column
   of values of an affine field returns its gradient g at every vertex with a
   regular moment matrix. *)
Theorem C15_convenience_affine_exact :
  forall (o : opts) (kern : V3 R -> R) (m : mesh R) (evol : list R) rows inc,
    o_moment o = true ->
    mesh_rows ROps o kern m evol = Some rows ->
    incidence m = Some inc ->
    let P := vertex_positions ROps (o_mode o) m inc in
    forall (g : V3 R) (c : R),
    let data := map (fun x => [dot ROps g x + c]) P in
    exists G, spatial_gradients ROps o kern m evol 1 data = Some G /\
      forall i ns, nth_error rows i = Some ns ->
        det33 ROps (moment ROps ns) <> 0 ->
        forall a, (a < 3)%nat -> entry3 G i a 0 = Some (comp a g).
Proof.
  intros o kern m evol rows inc Hmm Hrows Hinc P g c data.
  assert (HA : spatial_gradient_adjacency_matrices ROps o kern m evol =
               Some (grad_adjs ROps (o_moment o) rows)).
  { unfold spatial_gradient_adjacency_matrices. now rewrite Hrows. }
  destruct (C15_convenience_equals_matrices o kern m evol _ 1%nat data HA) as [G [HG HE]].
  exists G. split; [exact HG|].
  intros i ns Hns Hdet a Ha.
  destruct (mesh_rows_inv _ _ _ _ _ Hrows) as [inc' [vol [A [Hinc' [Heq Hok]]]]].
  rewrite Hinc in Hinc'. injection Hinc' as <-. fold P in Heq, Hok.
  assert (Hns' := Hns). rewrite Heq in Hns'.
  destruct (make_rows_cols _ _ _ _ _ _ _ Hok Hns') as [Hi Hcols].
  rewrite HE; [|unfold data; now rewrite map_length|exact Ha|lia].
  f_equal. rewrite Hmm, grad_adjs_nth by exact Ha.
  apply C15_moment_exact_any_row with (ns := ns); [exact Hns|exact Hdet|].
  intros e He. unfold data.
  rewrite !data_col_affine by (auto using Hcols).
  rewrite affine_diff. now rewrite (make_rows_nth _ _ _ _ _ _ Hns' e He).
Qed.

(* 4. order1_only=True on second-order elements: in nodal mode femio builds the
   operator on the mesh reduced to first-order nodes ([mesh_view]); the
   theorems above quantify over every mesh, so they hold for that view.  Two
   instances, stated for reference. *)
Theorem C15_order1_grad_const_zero :
  forall (order1 : bool) (k1 : nat) (o : opts) (kern : V3 R -> R) (m : mesh R) (evol : list R) As,
    spatial_gradient_adjacency_matrices_x ROps order1 k1 o kern m evol = Some As ->
    forall A, In A As -> forall (c : R) (i : nat), spmv ROps A (fun _ => c) i = 0.
Proof.
  intros order1 k1 o kern m evol As H. exact (C15_grad_const_zero o kern _ evol As H).
Qed.

Theorem C15_order1_exact_on_spanning_neighbourhoods :
  forall (order1 : bool) (k1 : nat) (o : opts) (kern : V3 R -> R) (m : mesh R) (evol : list R)
         As rows inc,
    let mv := mesh_view order1 k1 o m in
    o_moment o = true ->
    spatial_gradient_adjacency_matrices_x ROps order1 k1 o kern m evol = Some As ->
    mesh_rows ROps o kern mv evol = Some rows ->
    incidence mv = Some inc ->
    (forall v, 0 < kern v) ->
    length evol = length inc -> Forall (fun v => 0 < v) evol ->
    (forall j, (j < length (m_nodes mv))%nat -> Exists (fun e => mem_nat j e = true) inc) ->
    let P := vertex_positions ROps (o_mode o) mv inc in
    forall i ns, nth_error rows i = Some ns ->
    (exists e1 e2 e3, In e1 ns /\ In e2 ns /\ In e3 ns /\
                      det33 ROps (nb_off e1, nb_off e2, nb_off e3) <> 0) ->
    forall (g : V3 R) (c : R) (a : nat), (a < 3)%nat ->
      spmv ROps (nth a As []) (affine g c P) i = comp a g.
Proof.
  intros order1 k1 o kern m evol As rows inc mv Hmm HA.
  exact (C15_exact_on_spanning_neighbourhoods o kern mv evol As rows inc Hmm HA).
Qed.

(* 5. Covariance under a change of units: multiplying every stored offset by
   s <> 0 (unit of length) and every weight by t <> 0 (volumes scale like s^3,
   a kernel by anything) divides every coefficient of the row by s, with or
   without moment matrix.  So the operator of the same mesh given in mm, m or
   km is the same operator up to the unit; there is no privileged scale. *)
Theorem C15_scale_covariant :
  forall (mm : bool) (s t : R) (ns : list (nbr R)), s <> 0 -> t <> 0 ->
    row_coefs ROps mm (map (scale_nbr s t) ns) = map (scale_coef s) (row_coefs ROps mm ns).
Proof. exact row_coefs_scale. Qed.

(* ------------------------------------------------------------------ *)
(* non-vacuity: a tetrahedron with sparse, unsorted ids; at the vertex with
   id 10 (storage position 1) the three neighbours span space, the moment
   matrix of the model is regular and all hypotheses of the theorems hold *)
Definition ex_mesh : mesh R := mkMesh
  [(7%Z, (1, 0, 0)); (10%Z, (0, 0, 0)); (3%Z, (0, 0, 3)); (22%Z, (0, 2, 0))]
  [(5%Z, [10; 7; 22; 3]%Z)].
Definition ex_opts := mkOpts Nodal 1 false true true.

Example C15_hypotheses_satisfiable :
  exists rows inc ns,
    mesh_rows ROps ex_opts (fun _ => 1) ex_mesh [1] = Some rows /\
    incidence ex_mesh = Some inc /\
    nth_error rows 1 = Some ns /\ length ns = 3%nat /\
    det33 ROps (moment ROps ns) <> 0.
Proof.
  eexists _, _, _.
  repeat (split; [cbv - [Rplus Rmult Rminus Ropp Rinv IZR]; reflexivity|]).
  cbv - [Rplus Rmult Rminus Ropp Rinv IZR].
  assert (H : forall x, x = 1 -> x <> 0) by (intros; lra). apply H.
  field.
Qed.


Example C15_spanning_hypotheses_satisfiable :
  exists rows inc ns,
    mesh_rows ROps ex_opts (fun _ => 1) ex_mesh [1] = Some rows /\
    incidence ex_mesh = Some inc /\
    nth_error rows 1 = Some ns /\
    length [1] = length inc /\ Forall (fun v => 0 < v) [1] /\
    (forall j, (j < length (m_nodes ex_mesh))%nat -> Exists (fun e => mem_nat j e = true) inc) /\
    (exists e1 e2 e3, In e1 ns /\ In e2 ns /\ In e3 ns /\
                      det33 ROps (nb_off e1, nb_off e2, nb_off e3) <> 0).
Proof.
  eexists _, _, _.
  repeat (split; [cbv - [Rplus Rmult Rminus Ropp Rinv IZR]; reflexivity|]).
  split; [repeat constructor; lra|].
  split.
  - intros j Hj. apply Exists_cons_hd.
    destruct j as [|[|[|[|j]]]]; try reflexivity. simpl in Hj. lia.
  - eexists _, _, _. split; [left; reflexivity|].
    split; [right; left; reflexivity|]. split; [right; right; left; reflexivity|].
    cbv - [Rplus Rmult Rminus Ropp Rinv IZR]. lra.
Qed.

Print Assumptions C15_grad_const_zero.
Print Assumptions C15_exact_on_spanning_neighbourhoods.
Print Assumptions C15_moment_exact.
Print Assumptions C15_convenience_affine_exact.
