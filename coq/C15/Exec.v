(* C15 — executable side of the correspondence check: the model evaluated on
   rationals (QOps) and compared with the implementation's output inside Coq.
   Implementation floats arrive exactly, as primitive-integer pairs
   (mantissa, code) with value = (-1)^(code mod 2) * mantissa / 2^(code / 2)
   (primitive 63-bit literals elaborate ~10x faster than decimal Z literals;
   they are used for data transport only, no theorem depends on them). *)
From Coq Require Import List ZArith QArith Qabs Qreduction Bool Arith Uint63.
Import ListNotations.
From FV.C15 Require Import Model.

Definition dq (mant code : int) : Q :=
  let m := Uint63.to_Z mant in
  let c := Uint63.to_Z code in
  let e := Z.to_N (Z.div c 2) in
  Qmake (if Z.odd c then Z.opp m else m) (Pos.shiftl 1%positive e).
Definition dnat (i : int) : nat := Z.to_nat (Uint63.to_Z i).
Definition drow (r : list (int * int * int)) : list (nat * Q) :=
  map (fun t => (dnat (fst (fst t)), dq (snd (fst t)) (snd t))) r.

(* ---------- executable comparison on rationals (correspondence) ---------- *)
Definition qabs_max (l : list Q) : Q :=
  fold_right (fun x m => if Qle_bool m (Qabs x) then Qabs x else m) 0%Q l.

(* insert the diagonal entry (last of an assembled row) at its sorted place *)
Fixpoint insert_col (e : nat * Q) (l : list (nat * Q)) : list (nat * Q) :=
  match l with
  | [] => [e]
  | x :: r => if Nat.leb (fst e) (fst x) then e :: l else x :: insert_col e r
  end.
Definition sort_cols (l : list (nat * Q)) : list (nat * Q) := fold_right insert_col [] l.

(* both rows sorted by column; entries missing on one side count as 0 *)
Fixpoint row_agree_fuel (fuel : nat) (bound : Q) (a b : list (nat * Q)) : bool :=
  match fuel with
  | O => false
  | S fuel' =>
      match a, b with
      | [], [] => true
      | (j, x) :: a', [] => Qle_bool (Qabs x) bound && row_agree_fuel fuel' bound a' []
      | [], (k, y) :: b' => Qle_bool (Qabs y) bound && row_agree_fuel fuel' bound [] b'
      | (j, x) :: a', (k, y) :: b' =>
          if Nat.eqb j k then Qle_bool (Qabs (x - y)) bound && row_agree_fuel fuel' bound a' b'
          else if Nat.ltb j k then Qle_bool (Qabs x) bound && row_agree_fuel fuel' bound a' b
          else Qle_bool (Qabs y) bound && row_agree_fuel fuel' bound a b'
      end
  end.
Definition row_agree (bound : Q) (a b : list (nat * Q)) : bool :=
  row_agree_fuel (S (length a + length b)) bound a b.

(* model rows (column, 3-vector) against the implementation's three matrices
   given row-wise and column-sorted; the bound of a row is
   tol * max(floor, largest |model entry| of that row); floor = 1 / (length
   scale of the mesh): entries of a gradient operator scale like 1/length *)
Definition rows_agree (tol floor : Q) (mrows : list (list (nat * V3 Q)))
           (irows : list (list (list (nat * Q)))) : list (nat * nat) :=
  (* returns the failing (axis, row) pairs *)
  flat_map (fun a =>
    let ir := nth a irows [] in
    flat_map (fun p : nat * bool => if snd p then [] else [(a, fst p)])
      (mapi (fun i (mr : list (nat * V3 Q)) =>
               let mrow := sort_cols (map (fun c => (fst c, comp a (snd c))) mr) in
               let sc := qabs_max (map snd mrow) in
               let bound := Qred (tol * (if Qle_bool floor sc then sc else floor)) in
               (i, row_agree bound mrow (nth i ir [])))
            mrows))
    [0; 1; 2]%nat
  ++ (if forallb (fun ir => Nat.eqb (length ir) (length mrows)) irows
         && Nat.eqb (length irows) 3 then [] else [(99, 99)]%nat).

Definition kern_none : V3 Q -> Q := fun _ => 1%Q.

Definition model_grad_rows (o : opts) (m : mesh Q) (evol : list Q)
  : option (list (list (nat * V3 Q))) :=
  match mesh_rows QOps o kern_none m evol with
  | None => None
  | Some rows => Some (grad_rows QOps (o_moment o) rows)
  end.

Definition corr_matrices (tol floor : Q) (o : opts) (m : mesh Q) (evol : list Q)
           (impl : list (list (list (int * int * int)))) : option (list (nat * nat)) :=
  match model_grad_rows o m evol with
  | None => None
  | Some mr => Some (rows_agree tol floor mr (map (map drow) impl))
  end.

(* convenience function output: n x 3 x nfeat *)
Definition conv_agree (tol floor : Q) (o : opts) (m : mesh Q) (evol : list Q) (nfeat : nat)
           (data : list (list Q)) (impl_i : list (list (list (int * int))))
  : option (list nat) :=
  let impl := map (map (map (fun p => dq (fst p) (snd p)))) impl_i in
  match spatial_gradients QOps o kern_none m evol nfeat data with
  | None => None
  | Some g =>
      let sc := qabs_max (concat (concat g)) in
      let bound := Qred (tol * (if Qle_bool floor sc then sc else floor)) in
      Some (flat_map (fun p : nat * bool => if snd p then [] else [fst p])
        (mapi (fun i gi =>
           (i, let ii := nth i impl [] in
               Nat.eqb (length ii) (length gi) &&
               forallb (fun ab => Nat.eqb (length (fst ab)) (length (snd ab)) &&
                                  forallb (fun xy => Qle_bool (Qabs (fst xy - snd xy)) bound)
                                          (combine (fst ab) (snd ab)))
                       (combine gi ii))) g)
        ++ (if Nat.eqb (length impl) (length g) then [] else [999%nat]))
  end.

(* the same with the order1_only option (second-order elements) *)
Definition corr_matrices_x (tol floor : Q) (order1 : bool) (k1 : nat) (o : opts) (m : mesh Q)
           (evol : list Q) (impl : list (list (list (int * int * int)))) :=
  corr_matrices tol floor o (mesh_view order1 k1 o m) evol impl.

Definition conv_agree_x (tol floor : Q) (order1 : bool) (k1 : nat) (o : opts) (m : mesh Q)
           (evol : list Q) (nfeat : nat) (data : list (list Q))
           (impl_i : list (list (list (int * int)))) :=
  conv_agree tol floor o (mesh_view order1 k1 o m) evol nfeat
    (if order1 then match o_mode o with
                    | Nodal => select (order1_mask k1 m) data
                    | Elemental => data
                    end
     else data) impl_i.
