(* C15 — spatial gradient operators (femio/signal_processor.py
   calculate_spatial_gradient_adjacency_matrices and the two convenience
   functions calculate_{nodal,elemental}_spatial_gradients; graph_processor.py
   calculate_n_hop_adj).  Definitions only; proofs in Proofs.v, statements in
   Props.v.

   Numbers: every definition is polymorphic in a record [Ops T]; theorems are
   stated for [ROps] (classical reals), the correspondence check evaluates the
   same definitions with [QOps] (rationals, reduced after every operation).
   Floating-point rounding is outside the model.

   Index convention: a vertex is a storage position (row of nodes.data in
   nodal mode, row of elements.data in elemental mode), exactly as in the
   sparse matrices femio returns; ids only enter through [pos_of]
   (= ids2indices). *)
From Coq Require Import List ZArith QArith Qabs Qreduction Bool Arith Reals.
Import ListNotations.

Record Ops (T : Type) := mkOps {
  o0 : T; o1 : T;
  oadd : T -> T -> T; omul : T -> T -> T; osub : T -> T -> T;
  oopp : T -> T; oinv : T -> T }.
Arguments o0 {T}. Arguments o1 {T}. Arguments oadd {T}. Arguments omul {T}.
Arguments osub {T}. Arguments oopp {T}. Arguments oinv {T}.

Definition ROps : Ops R := mkOps R 0%R 1%R Rplus Rmult Rminus Ropp Rinv.
Definition QOps : Ops Q :=
  mkOps Q 0%Q 1%Q (fun a b => Qred (a + b)) (fun a b => Qred (a * b))
        (fun a b => Qred (a - b)) Qopp Qinv.

(* ---------- generic list helpers ---------- *)
Fixpoint mapi_from {A B} (k : nat) (f : nat -> A -> B) (l : list A) : list B :=
  match l with
  | [] => []
  | x :: r => f k x :: mapi_from (S k) f r
  end.
Definition mapi {A B} (f : nat -> A -> B) (l : list A) : list B := mapi_from 0 f l.

Fixpoint mapM {A B} (f : A -> option B) (l : list A) : option (list B) :=
  match l with
  | [] => Some []
  | x :: r => match f x, mapM f r with
              | Some y, Some ys => Some (y :: ys)
              | _, _ => None
              end
  end.

Fixpoint map2 {A B C} (f : A -> B -> C) (a : list A) (b : list B) : list C :=
  match a, b with
  | x :: a', y :: b' => f x y :: map2 f a' b'
  | _, _ => []
  end.

Definition mem_nat (k : nat) (l : list nat) : bool := existsb (Nat.eqb k) l.

(* ids2indices: storage position of an id *)
Fixpoint pos_of (id : Z) (ids : list Z) : option nat :=
  match ids with
  | [] => None
  | x :: r => if Z.eqb id x then Some 0%nat
              else match pos_of id r with Some k => Some (S k) | None => None end
  end.

(* ---------- boolean (adjacency) matrices, dense rows ---------- *)
Definition bmat := list (list bool).

Definition orow (a b : list bool) : list bool := map2 orb a b.

(* row vector times matrix over the boolean semiring:
   (r . B)_j = exists k, r_k && B_kj *)
Fixpoint brow_mul (n : nat) (r : list bool) (B : bmat) : list bool :=
  match r, B with
  | x :: r', row :: B' => if x then orow row (brow_mul n r' B') else brow_mul n r' B'
  | _, _ => repeat false n
  end.

Definition bmul (n : nat) (A B : bmat) : bmat := map (fun r => brow_mul n r B) A.
Definition bor (A B : bmat) : bmat := map2 orow A B.

(* calculate_n_hop_adj: return_adj = adj; power_adj = adj;
   for i in range(1, n_hop): power_adj = power_adj.dot(adj);
                             return_adj = return_adj + power_adj *)
Fixpoint hop_iter (n k : nat) (adj pw ret : bmat) : bmat :=
  match k with
  | O => ret
  | S k' => let pw' := bmul n pw adj in hop_iter n k' adj pw' (bor ret pw')
  end.

(* include_self_loop=False: the diagonal that is present is removed
   (return_adj - diags(return_adj.diagonal())) *)
Definition remove_diag (A : bmat) : bmat :=
  mapi (fun i row => mapi (fun j b => b && negb (Nat.eqb i j)) row) A.

Definition n_hop_adj (n n_hop : nat) (adj : bmat) : bmat :=
  remove_diag (hop_iter n (n_hop - 1) adj adj adj).

(* column indices of the stored entries of a row, ascending *)
Fixpoint true_positions_from (k : nat) (row : list bool) : list nat :=
  match row with
  | [] => []
  | b :: r => if b then k :: true_positions_from (S k) r else true_positions_from (S k) r
  end.
Definition neighbours (row : list bool) : list nat := true_positions_from 0 row.

(* incidence: per element the storage positions of its nodes *)
(* calculate_adjacency_matrix_node = incidence . incidence^T (bool) *)
Definition adj_nodal (n : nat) (inc : list (list nat)) : bmat :=
  map (fun i => map (fun j => existsb (fun e => mem_nat i e && mem_nat j e) inc) (seq 0 n))
      (seq 0 n).
(* calculate_adjacency_matrix_element = incidence^T . incidence (bool) *)
Definition adj_elemental (inc : list (list nat)) : bmat :=
  map (fun e => map (fun f => existsb (fun k => mem_nat k f) e) inc) inc.

Section Model.
Context {T : Type} (K : Ops T).

Local Notation "0" := (o0 K).
Local Notation "1" := (o1 K).
Local Infix "+" := (oadd K).
Local Infix "*" := (omul K).
Local Infix "-" := (osub K).
Local Notation "- x" := (oopp K x).
Local Notation "/ x" := (oinv K x).

Fixpoint of_nat (k : nat) : T :=
  match k with O => 0 | S k' => of_nat k' + 1 end.
Definition three : T := 1 + 1 + 1.          (* dim = 3 *)

Fixpoint tsum (l : list T) : T :=
  match l with [] => 0 | x :: r => x + tsum r end.

(* ---------- vectors and 3x3 matrices ---------- *)
Definition V3 := (T * T * T)%type.
Definition vx (v : V3) : T := fst (fst v).
Definition vy (v : V3) : T := snd (fst v).
Definition vz (v : V3) : T := snd v.
Definition vzero : V3 := (0, 0, 0).
Definition vadd (u v : V3) : V3 := (vx u + vx v, vy u + vy v, vz u + vz v).
Definition vsub (u v : V3) : V3 := (vx u - vx v, vy u - vy v, vz u - vz v).
Definition vopp (v : V3) : V3 := (- vx v, - vy v, - vz v).
Definition vscale (s : T) (v : V3) : V3 := (s * vx v, s * vy v, s * vz v).
Definition dot (u v : V3) : T := vx u * vx v + vy u * vy v + vz u * vz v.
Definition norm2 (v : V3) : T := dot v v.
Definition comp (a : nat) (v : V3) : T :=
  match a with O => vx v | S O => vy v | _ => vz v end.
Fixpoint vsum (l : list V3) : V3 :=
  match l with [] => vzero | v :: r => vadd v (vsum r) end.

Definition M33 := (V3 * V3 * V3)%type.      (* rows *)
Definition mzero : M33 := (vzero, vzero, vzero).
Definition madd (A B : M33) : M33 :=
  let '(a1, a2, a3) := A in let '(b1, b2, b3) := B in (vadd a1 b1, vadd a2 b2, vadd a3 b3).
(* s * v v^T *)
Definition outer (s : T) (v : V3) : M33 :=
  (vscale (s * vx v) v, vscale (s * vy v) v, vscale (s * vz v) v).
Definition mvec (A : M33) (v : V3) : V3 :=
  let '(a1, a2, a3) := A in (dot a1 v, dot a2 v, dot a3 v).
Definition det33 (A : M33) : T :=
  let '((a, b, c), (d, e, f), (g, h, i)) := A in
  a * (e * i - f * h) - b * (d * i - f * g) + c * (d * h - e * g).
(* numpy.linalg.inv of a 3x3 matrix, modelled exactly: adjugate / det *)
Definition inv33 (A : M33) : M33 :=
  let '((a, b, c), (d, e, f), (g, h, i)) := A in
  let k := / (det33 A) in
  ((k * (e * i - f * h), k * (c * h - b * i), k * (b * f - c * e)),
   (k * (f * g - d * i), k * (a * i - c * g), k * (c * d - a * f)),
   (k * (d * h - e * g), k * (b * g - a * h), k * (a * e - b * d))).

(* ---------- one row of the operator ----------
   a neighbour entry of row i: (column j, offset v = x_j - x_i, weight w_ij) *)
Definition nbr := (nat * V3 * T)%type.
Definition nb_col (e : nbr) : nat := fst (fst e).
Definition nb_off (e : nbr) : V3 := snd (fst e).
Definition nb_w (e : nbr) : T := snd e.

(* weight_adj.sum(axis=1) *)
Definition sum_w (ns : list nbr) : T := tsum (map nb_w ns).

(* moment_matrix=False:
   dim * distance_adj.power(-2) * diff_position_adj * weight_adj * summed_weight**-1 *)
Definition coef_plain (ns : list nbr) : list (nat * V3) :=
  let isw := / (sum_w ns) in
  map (fun e => (nb_col e,
                 vscale isw (vscale (nb_w e) (vscale (three * / (norm2 (nb_off e))) (nb_off e)))))
      ns.

(* weight_by_squarenorm_adj = distance_adj.power(-2).multiply(weight_adj) *)
Definition wbs (e : nbr) : T := / (norm2 (nb_off e)) * nb_w e.

(* moment_tensors[i] = sum_j (v v^T)_ij * weight_by_squarenorm_ij *)
Fixpoint moment (ns : list nbr) : M33 :=
  match ns with
  | [] => mzero
  | e :: r => madd (outer (wbs e) (nb_off e)) (moment r)
  end.

(* moment_matrix=True: _dot_ndarray_sparse(inv(moment_tensors),
                          [diff_a.multiply(weight_by_squarenorm) for a]) *)
Definition coef_moment (ns : list nbr) : list (nat * V3) :=
  let Mi := inv33 (moment ns) in
  map (fun e => (nb_col e, mvec Mi (vscale (wbs e) (nb_off e)))) ns.

Definition row_coefs (mm : bool) (ns : list nbr) : list (nat * V3) :=
  if mm then coef_moment ns else coef_plain ns.

(* grad_adj_wo_self - eye.multiply(grad_adj_wo_self.sum(axis=1)):
   the stored entries of row i, (column, 3-vector over the three matrices) *)
Definition assemble_row (i : nat) (cs : list (nat * V3)) : list (nat * V3) :=
  cs ++ [(i, vopp (vsum (map snd cs)))].

Definition grad_rows (mm : bool) (rows : list (list nbr)) : list (list (nat * V3)) :=
  mapi (fun i ns => assemble_row i (row_coefs mm ns)) rows.

(* COO triples (row, col, value-vector) of the three returned matrices *)
Definition triples_of_rows (R : list (list (nat * V3))) : list (nat * nat * V3) :=
  concat (mapi (fun i r => map (fun c => (i, fst c, snd c)) r) R).

Definition grad_triples (mm : bool) (rows : list (list nbr)) : list (nat * nat * V3) :=
  triples_of_rows (grad_rows mm rows).

(* the a-th returned sparse matrix *)
Definition axis (a : nat) (A : list (nat * nat * V3)) : list (nat * nat * T) :=
  map (fun t => (fst (fst t), snd (fst t), comp a (snd t))) A.

Definition grad_adjs (mm : bool) (rows : list (list nbr)) : list (list (nat * nat * T)) :=
  map (fun a => axis a (grad_triples mm rows)) [0; 1; 2]%nat.

(* (A . f)_i for a COO matrix: "the explicit matrix applied by hand" *)
Fixpoint spmv (A : list (nat * nat * T)) (f : nat -> T) (i : nat) : T :=
  match A with
  | [] => 0
  | (r, c, x) :: A' => if Nat.eqb r i then x * f c + spmv A' f i else spmv A' f i
  end.

(* ---------- from a mesh and the options to the rows ---------- *)
Record mesh := mkMesh {
  m_nodes : list (Z * V3);           (* storage order; (id, position) *)
  m_elems : list (Z * list Z) }.     (* storage order; (id, node ids); one element type *)

Definition incidence (m : mesh) : option (list (list nat)) :=
  mapM (fun e => mapM (fun id => pos_of id (map fst (m_nodes m))) (snd e)) (m_elems m).

Inductive gmode := Nodal | Elemental.

Record opts := mkOpts {
  o_mode : gmode;
  o_hop : nat;
  o_consider_volume : bool;
  o_use_effective_volume : bool;
  o_moment : bool }.

(* convert_nodal2elemental('NODE', calc_average=True) *)
Definition centroid (P : list V3) (e : list nat) : V3 :=
  vscale (/ (of_nat (length e))) (vsum (map (fun k => nth k P vzero) e)).

Definition vertex_positions (md : gmode) (m : mesh) (inc : list (list nat)) : list V3 :=
  match md with
  | Nodal => map snd (m_nodes m)
  | Elemental => map (centroid (map snd (m_nodes m))) inc
  end.

(* convert_elemental2nodal(volumes, mode='effective'):
   incidence.multiply(1 / incidence.sum(axis=0)).dot(volumes) *)
Definition nodal_effective (n : nat) (inc : list (list nat)) (evol : list T) : list T :=
  map (fun i => tsum (map2 (fun e v => if mem_nat i e then / (of_nat (length e)) * v else 0)
                           inc evol))
      (seq 0 n).

(* convert_elemental2nodal(volumes, mode='mean'), metrics = the volumes:
   W = incidence.multiply(metrics.T); W.multiply(1 / W.sum(axis=1)).dot(volumes) *)
Definition nodal_mean (n : nat) (inc : list (list nat)) (evol : list T) : list T :=
  map (fun i =>
         let s := tsum (map2 (fun e v => if mem_nat i e then v else 0) inc evol) in
         tsum (map2 (fun e v => if mem_nat i e then (v * / s) * v else 0) inc evol))
      (seq 0 n).

Definition vertex_volumes (o : opts) (n : nat) (inc : list (list nat)) (evol : list T)
  : option (list T) :=
  if o_consider_volume o then
    match o_mode o with
    | Elemental => Some evol
    | Nodal => Some (if o_use_effective_volume o then nodal_effective n inc evol
                     else nodal_mean n inc evol)
    end
  else None.

Definition vertex_adj (md : gmode) (n : nat) (inc : list (list nat)) : bmat :=
  match md with
  | Nodal => adj_nodal n inc
  | Elemental => adj_elemental inc
  end.

(* diff_position_adjs (offsets x_j - x_i on the stored entries of adj),
   volume_adj = adj.multiply(volumes) (w_ij = volume of the NEIGHBOUR j) or
   adj.astype(float), weight_adj = kernel(distance).multiply(volume_adj).
   [kern] is an arbitrary function of the offset: kernel=None is the constant
   1, 'exp' is exp(-alpha |v|), 'gauss' is exp(-alpha |v|^2 / 2). *)
Definition make_rows (kern : V3 -> T) (P : list V3) (vol : option (list T)) (A : bmat)
  : list (list nbr) :=
  mapi (fun i row =>
          map (fun j =>
                 let v := vsub (nth j P vzero) (nth i P vzero) in
                 (j, v, kern v * match vol with Some vs => nth j vs 0 | None => 1 end))
              (neighbours row))
       A.

Definition mesh_rows (o : opts) (kern : V3 -> T) (m : mesh) (evol : list T)
  : option (list (list nbr)) :=
  match incidence m with
  | None => None
  | Some inc =>
      let n := match o_mode o with Nodal => length (m_nodes m) | Elemental => length inc end in
      let P := vertex_positions (o_mode o) m inc in
      let A := n_hop_adj n (o_hop o) (vertex_adj (o_mode o) n inc) in
      Some (make_rows kern P (vertex_volumes o (length (m_nodes m)) inc evol) A)
  end.

(* order1_only=True on second-order elements (tet2: k1 = 4, hex2: k1 = 8):
   elements.to_first_order() keeps the first k1 node ids of every element;
   filter_first_order_nodes() keeps, in storage order, the nodes whose id
   occurs there (ORDER1_NODE).  In nodal mode positions, ids, adjacency and
   nodal volumes are all taken from this reduced mesh; elemental mode ignores
   the option (centroids over all nodes, element adjacency over all nodes). *)
Definition order1_mask (k1 : nat) (m : mesh) : list bool :=
  let used := flat_map (fun e => firstn k1 (snd e)) (m_elems m) in
  map (fun nd => existsb (Z.eqb (fst nd)) used) (m_nodes m).

Fixpoint select {X} (mask : list bool) (l : list X) : list X :=
  match mask, l with
  | b :: mask', x :: l' => if b then x :: select mask' l' else select mask' l'
  | _, _ => []
  end.

Definition first_order_mesh (k1 : nat) (m : mesh) : mesh :=
  mkMesh (select (order1_mask k1 m) (m_nodes m))
         (map (fun e => (fst e, firstn k1 (snd e))) (m_elems m)).

Definition mesh_view (order1 : bool) (k1 : nat) (o : opts) (m : mesh) : mesh :=
  if order1 then match o_mode o with Nodal => first_order_mesh k1 m | Elemental => m end
  else m.

(* calculate_spatial_gradient_adjacency_matrices *)
Definition spatial_gradient_adjacency_matrices (o : opts) (kern : V3 -> T) (m : mesh)
           (evol : list T) : option (list (list (nat * nat * T))) :=
  match mesh_rows o kern m evol with
  | None => None
  | Some rows => Some (grad_adjs (o_moment o) rows)
  end.

(* ---------- the convenience functions ----------
   np.stack([grad_adj.dot(data) for grad_adj in grad_adjs], axis=1)
   data : n x n_feature (list of rows) *)
Definition data_col (data : list (list T)) (k : nat) (j : nat) : T := nth k (nth j data []) 0.

(* sparse (n x n) . dense (n x n_feature) -> n x n_feature *)
Definition spmm (n nfeat : nat) (A : list (nat * nat * T)) (data : list (list T))
  : list (list T) :=
  map (fun i => map (fun k => spmv A (data_col data k) i) (seq 0 nfeat)) (seq 0 n).

(* np.stack(arrays, axis=1): result[i][a] = arrays[a][i] *)
Definition stack_axis1 {X} (n : nat) (arrays : list (list X)) : list (list X) :=
  map (fun i => flat_map (fun arr => match nth_error arr i with Some x => [x] | None => [] end)
                         arrays)
      (seq 0 n).

Definition spatial_gradients (o : opts) (kern : V3 -> T) (m : mesh) (evol : list T)
           (nfeat : nat) (data : list (list T)) : option (list (list (list T))) :=
  match spatial_gradient_adjacency_matrices o kern m evol with
  | None => None
  | Some As =>
      let n := length data in
      Some (stack_axis1 n (map (fun A => spmm n nfeat A data) As))
  end.

(* the same two entry points with the order1_only option;
   nodal convenience function: grad_adj.dot(nodal_data[filter_]) *)
Definition spatial_gradient_adjacency_matrices_x (order1 : bool) (k1 : nat) (o : opts)
           (kern : V3 -> T) (m : mesh) (evol : list T) :=
  spatial_gradient_adjacency_matrices o kern (mesh_view order1 k1 o m) evol.

Definition spatial_gradients_x (order1 : bool) (k1 : nat) (o : opts) (kern : V3 -> T)
           (m : mesh) (evol : list T) (nfeat : nat) (data : list (list T)) :=
  spatial_gradients o kern (mesh_view order1 k1 o m) evol nfeat
    (if order1 then match o_mode o with
                    | Nodal => select (order1_mask k1 m) data
                    | Elemental => data
                    end
     else data).

End Model.

Arguments V3 T : clear implicits.
Arguments nbr T : clear implicits.
Arguments mesh T : clear implicits.

