(* C15 — the premise [det M_i <> 0] of the exactness theorem follows from the
   property's own precondition: positive weights and a vertex neighbourhood
   that spans space (three stored offsets with non-zero determinant). *)
From Coq Require Import List Reals Lra Lia.
Import ListNotations.
From FV.C15 Require Import Model Proofs.
Local Open Scope R_scope.

(* ------------------------------------------------------------------ *)
(* a real 3x3 matrix with trivial kernel has non-zero determinant
   (no case analysis: if det = 0 every column of the adjugate is in the
   kernel, so all 2x2 minors vanish; then every cross(row_k, e_m) is in the
   kernel, so M = 0; then e_1 is in the kernel) *)
Lemma kernel_trivial_det (a b c d e f g h i : R) :
  (forall u1 u2 u3,
      a * u1 + b * u2 + c * u3 = 0 ->
      d * u1 + e * u2 + f * u3 = 0 ->
      g * u1 + h * u2 + i * u3 = 0 -> u1 = 0 /\ u2 = 0 /\ u3 = 0) ->
  a * (e * i - f * h) - b * (d * i - f * g) + c * (d * h - e * g) <> 0.
Proof.
  intros H Hdet.
  (* columns of the adjugate *)
  destruct (H (e * i - f * h) (f * g - d * i) (d * h - e * g)) as [C11 [C12 C13]];
    [rewrite <- Hdet; ring | ring | ring |].
  destruct (H (c * h - b * i) (a * i - c * g) (b * g - a * h)) as [C21 [C22 C23]];
    [ring | |ring |].
  { replace (d * (c * h - b * i) + e * (a * i - c * g) + f * (b * g - a * h))
      with (a * (e * i - f * h) - b * (d * i - f * g) + c * (d * h - e * g)) by ring.
    exact Hdet. }
  destruct (H (b * f - c * e) (c * d - a * f) (a * e - b * d)) as [C31 [C32 C33]];
    [ring | ring | |].
  { replace (g * (b * f - c * e) + h * (c * d - a * f) + i * (a * e - b * d))
      with (a * (e * i - f * h) - b * (d * i - f * g) + c * (d * h - e * g)) by ring.
    exact Hdet. }
  (* cross(row1, e1) = (0, c, -b), cross(row1, e2) = (-c, 0, a) *)
  destruct (H 0 c (- b)) as [_ [Hc Hb]]; [ring | lra | lra |].
  destruct (H (- c) 0 a) as [_ [_ Ha]]; [ring | lra | lra |].
  (* row 2 *)
  destruct (H 0 f (- e)) as [_ [Hf He]]; [lra | ring | lra |].
  destruct (H (- f) 0 d) as [_ [_ Hd]]; [lra | ring | lra |].
  (* row 3 *)
  destruct (H 0 i (- h)) as [_ [Hi Hh]]; [lra | lra | ring |].
  destruct (H (- i) 0 g) as [_ [_ Hg]]; [lra | lra | ring |].
  subst.
  destruct (H 1 0 0) as [H1 _]; lra.
Qed.

(* ------------------------------------------------------------------ *)
(* the quadratic form of the moment matrix *)
Fixpoint qform (u : V3 R) (ns : list (nbr R)) : R :=
  match ns with
  | [] => 0
  | e :: r => wbs ROps e * (dot ROps (nb_off e) u * dot ROps (nb_off e) u) + qform u r
  end.

Lemma qform_moment u ns : dot ROps u (mvec ROps (moment ROps ns) u) = qform u ns.
Proof.
  induction ns as [|e r IH]; simpl.
  - destruct u as [[u1 u2] u3]. cbv [mvec mzero vzero dot vx vy vz fst snd]. rops. ring.
  - rewrite <- IH. destruct (moment ROps r) as [[[[a b] c] [[d e'] f]] [[p q] s]].
    set (ws := wbs ROps e). destruct (nb_off e) as [[v1 v2] v3]. destruct u as [[u1 u2] u3].
    cbv [mvec madd outer vadd vscale dot vx vy vz fst snd]. rops. ring.
Qed.

Lemma norm2_nonneg (v : V3 R) : 0 <= norm2 ROps v.
Proof.
  destruct v as [[a b] c]. cbv [norm2 dot vx vy vz fst snd]. rops.
  pose proof (Rle_0_sqr a). pose proof (Rle_0_sqr b). pose proof (Rle_0_sqr c).
  unfold Rsqr in *. lra.
Qed.

Lemma wbs_nonneg (e : nbr R) : 0 < nb_w e -> 0 <= wbs ROps e.
Proof.
  intros Hw. unfold wbs. pose proof (norm2_nonneg (nb_off e)) as Hn.
  set (n := norm2 ROps (nb_off e)) in *. rops.
  destruct (Req_dec n 0) as [E|E].
  - rewrite E, Rinv_0. lra.
  - assert (0 < n) by lra.
    apply Rlt_le, Rmult_lt_0_compat; [apply Rinv_0_lt_compat|]; assumption.
Qed.

Lemma wbs_pos (e : nbr R) : 0 < nb_w e -> norm2 ROps (nb_off e) <> 0 -> 0 < wbs ROps e.
Proof.
  intros Hw E. unfold wbs. pose proof (norm2_nonneg (nb_off e)) as Hn.
  set (n := norm2 ROps (nb_off e)) in *. rops.
  assert (0 < n) by lra.
  apply Rmult_lt_0_compat; [apply Rinv_0_lt_compat|]; assumption.
Qed.

Lemma qform_nonneg u ns : (forall e, In e ns -> 0 < nb_w e) -> 0 <= qform u ns.
Proof.
  induction ns as [|e r IH]; intros H; cbn [qform]; [lra|].
  assert (Hw : 0 <= wbs ROps e) by (apply wbs_nonneg, H; now left).
  assert (Hr : 0 <= qform u r) by (apply IH; intros; apply H; now right).
  set (w := wbs ROps e) in *. set (t := dot ROps (nb_off e) u). set (q := qform u r) in *.
  pose proof (Rle_0_sqr t) as Ht. unfold Rsqr in Ht.
  pose proof (Rmult_le_pos _ _ Hw Ht). lra.
Qed.

Lemma qform_zero_term u ns :
  (forall e, In e ns -> 0 < nb_w e) -> qform u ns = 0 ->
  forall e, In e ns -> wbs ROps e * (dot ROps (nb_off e) u * dot ROps (nb_off e) u) = 0.
Proof.
  induction ns as [|e0 r IH]; intros H Hq e He; [contradiction|].
  cbn [qform] in Hq.
  assert (Hw : 0 <= wbs ROps e0) by (apply wbs_nonneg, H; now left).
  assert (Hr : 0 <= qform u r) by (apply qform_nonneg; intros; apply H; now right).
  destruct He as [<-|He].
  - set (w := wbs ROps e0) in *. set (t := dot ROps (nb_off e0) u) in *.
    set (q := qform u r) in *.
    pose proof (Rle_0_sqr t) as Ht. unfold Rsqr in Ht.
    pose proof (Rmult_le_pos _ _ Hw Ht). lra.
  - apply IH; [intros; apply H; now right| |exact He].
    set (w := wbs ROps e0) in *. set (t := dot ROps (nb_off e0) u) in *.
    set (q := qform u r) in *.
    pose proof (Rle_0_sqr t) as Ht. unfold Rsqr in Ht.
    pose proof (Rmult_le_pos _ _ Hw Ht). lra.
Qed.

Lemma det_rows_nonzero_norm (v1 v2 v3 : V3 R) :
  det33 ROps (v1, v2, v3) <> 0 ->
  norm2 ROps v1 <> 0 /\ norm2 ROps v2 <> 0 /\ norm2 ROps v3 <> 0.
Proof.
  destruct v1 as [[a b] c], v2 as [[d e] f], v3 as [[g h] i].
  cbv [det33 norm2 dot vx vy vz fst snd]. rops. intros Hd.
  repeat split; intros E.
  - assert (a = 0 /\ b = 0 /\ c = 0) as [-> [-> ->]] by (repeat split; nra). apply Hd; ring.
  - assert (d = 0 /\ e = 0 /\ f = 0) as [-> [-> ->]] by (repeat split; nra). apply Hd; ring.
  - assert (g = 0 /\ h = 0 /\ i = 0) as [-> [-> ->]] by (repeat split; nra). apply Hd; ring.
Qed.

(* positive weights + three stored offsets that span space => M regular *)
Theorem moment_regular_if_spanning (ns : list (nbr R)) :
  (forall e, In e ns -> 0 < nb_w e) ->
  (exists e1 e2 e3, In e1 ns /\ In e2 ns /\ In e3 ns /\
                    det33 ROps (nb_off e1, nb_off e2, nb_off e3) <> 0) ->
  det33 ROps (moment ROps ns) <> 0.
Proof.
  intros Hw [e1 [e2 [e3 [I1 [I2 [I3 Hspan]]]]]].
  pose proof (qform_moment) as Q.
  destruct (moment ROps ns) as [[[[a b] c] [[d e] f]] [[g h] i]] eqn:EM.
  cbv [det33]. rops.
  apply kernel_trivial_det. intros u1 u2 u3 K1 K2 K3.
  specialize (Q (u1, u2, u3) ns). rewrite EM in Q.
  assert (Hq : qform (u1, u2, u3) ns = 0).
  { rewrite <- Q. cbv [mvec dot vx vy vz fst snd]. rops. rewrite K1, K2, K3. ring. }
  destruct (det_rows_nonzero_norm _ _ _ Hspan) as [N1 [N2 N3]].
  assert (D : forall e0, In e0 ns -> norm2 ROps (nb_off e0) <> 0 ->
                         dot ROps (nb_off e0) (u1, u2, u3) = 0).
  { intros e0 I0 N0. pose proof (qform_zero_term _ _ Hw Hq e0 I0) as Z.
    pose proof (wbs_pos e0 (Hw e0 I0) N0) as Hp.
    apply Rmult_integral in Z. destruct Z as [Z|Z]; [lra|].
    apply Rmult_integral in Z. destruct Z; assumption. }
  pose proof (D e1 I1 N1) as D1. pose proof (D e2 I2 N2) as D2. pose proof (D e3 I3 N3) as D3.
  pose proof (inv33_left (nb_off e1, nb_off e2, nb_off e3) (u1, u2, u3) Hspan) as L.
  assert (Z : mvec ROps (nb_off e1, nb_off e2, nb_off e3) (u1, u2, u3) = (0, 0, 0)).
  { cbv [mvec]. now rewrite D1, D2, D3. }
  rewrite Z in L.
  destruct (inv33 ROps (nb_off e1, nb_off e2, nb_off e3)) as [[[[m1 m2] m3] [[m4 m5] m6]] [[m7 m8] m9]].
  cbv [mvec dot vx vy vz fst snd] in L. revert L. rops. intros L.
  injection L as L1 L2 L3. repeat split; lra.
Qed.
