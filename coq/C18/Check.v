(* C18 — executable comparisons used by the generated case files. Definitions only. *)
From Coq Require Import ZArith QArith List String Bool.
Import ListNotations.
From FV.C11 Require Import Model Check.
From FV.C11.gen Require Import Kernels.
From FV.C18 Require Import Model SlotBase SlotModel.
From FV.C18.gen Require Import Tables Slots.

Fixpoint list_eqb {A} (eqb : A -> A -> bool) (a b : list A) : bool :=
  match a, b with
  | [], [] => true
  | x :: a', y :: b' => eqb x y && list_eqb eqb a' b'
  | _, _ => false
  end.
Definition opt_eqb {A} (eqb : A -> A -> bool) (a b : option A) : bool :=
  match a, b with
  | None, None => true
  | Some x, Some y => eqb x y
  | _, _ => false
  end.
Definition row_eqb (a b : Z * list Z) : bool := Z.eqb (fst a) (fst b) && list_eqb Z.eqb (snd a) (snd b).
Definition rows_eqb := list_eqb row_eqb.

(* to_polyhedron: every element's face data, exactly *)
Definition poly_mesh_ok (tbl : list (string * (bool * (nat * list (list nat)))))
           (casts : list (string * bool)) (nids : list Z)
           (elems : list ((string * list Z) * list nat)) : bool :=
  forallb (fun e => opt_eqb (list_eqb Nat.eqb)
                      (elem_to_polyhedron tbl casts nids (fst (fst e)) (snd (fst e)))
                      (Some (snd e))) elems.
(* polyhedron volumes from the face data the implementation produced *)
Definition poly_vol_ok (eabs erel : Q) (local_origin centroid : bool) (coords : list (v3 Q))
           (elems : list (list nat * Q)) : bool :=
  forallb (fun e => match poly_volume QOps local_origin centroid coords (fst e) with
                    | Some v => close eabs erel v (snd e)
                    | None => false
                    end) elems.

Definition degen_ok (pats : list pattern) (hexes prisms : list (Z * list Z))
           (impl : outcome (list (Z * list Z) * list (Z * list Z))) : bool :=
  match resolve_degeneracy pats hexes prisms, impl with
  | Ok (h, p), Ok (h', p') => rows_eqb h h' && rows_eqb p p'
  | UnknownPattern, UnknownPattern => true
  | _, _ => false
  end.
Definition positive_ok (perm : list nat) (rows : list ((Z * list Z) * Q)) (impl : list (Z * list Z)) : bool :=
  opt_eqb rows_eqb (make_positive QOps perm rows) (Some impl).

Fixpoint blocks_eqb (a b : list (string * list (Z * list Z))) : bool :=
  match a, b with
  | [], [] => true
  | (t, r) :: a', (t', r') :: b' => String.eqb t t' && rows_eqb r r' && blocks_eqb a' b'
  | _, _ => false
  end.
Definition others_ok (src impl : list (string * list (Z * list Z))) : bool :=
  blocks_eqb (resolve_degeneracy_others src) impl.

(* ---- histories on one object (SlotModel): the signed volume of a tet row is the
   translated tet kernel on the coordinates of its nodes, looked up by id *)
Definition q_sv (nids : list Z) (coords : list (v3 Q)) (c : list Z) : Q :=
  match mapMo (fun x => match index_of x nids with
                        | Some k => nth_error coords k
                        | None => None
                        end) c with
  | Some [p0; p1; p2; p3] => k_element_volumes_tet_like QOps p0 p1 p2 p3
  | _ => 0
  end.
(* what the implementation did at one step *)
Inductive iresult := IValues (l : list Q) | IRaised | IDone (rs : list (Z * list Z)).
Fixpoint vals_close (erel : Q) (m i : list Q) : bool :=
  match m, i with
  | [], [] => true
  | a :: m', b :: i' => close 0 erel a b && vals_close erel m' i'
  | _, _ => false
  end.
Fixpoint history_ok (erel : Q) (sv : list Z -> Q) (o : @obj Q) (h : list (op * iresult)) : bool :=
  match h with
  | [] => true
  | (a, i) :: h' =>
      let '(r, o1) := step QOps sv o a in
      match r, i with
      | Values l, IValues l' => vals_close erel l l'
      | Raised, IRaised => true
      | Done, IDone rs => rows_eqb (rows o1) rs
      | _, _ => false
      end && history_ok erel sv o1 h'
  end.
