(* C18 — executable comparisons used by the generated case files. Definitions only. *)
From Coq Require Import ZArith QArith List String Bool.
Import ListNotations.
From FV.C11 Require Import Model Check.
From FV.C18 Require Import Model.

Fixpoint list_eqb {A} (eqb : A -> A -> bool) (a b : list A) : bool :=
  match a, b with
  | [], [] => true
  | x :: a', y :: b' => eqb x y && list_eqb eqb a' b'
  | _, _ => false
  end.
Definition opt_eqb {A} (eqb : A -> A -> bool) (a b : option A) : bool :=
  match a, b with
  | None, None => true
  | Some x, Some y => eqb x y
  | _, _ => false
  end.
Definition row_eqb (a b : Z * list Z) : bool := Z.eqb (fst a) (fst b) && list_eqb Z.eqb (snd a) (snd b).
Definition rows_eqb := list_eqb row_eqb.

(* to_polyhedron: every element's face data, exactly *)
Definition poly_mesh_ok (tbl : list (string * (bool * (nat * list (list nat)))))
           (casts : list (string * bool)) (nids : list Z)
           (elems : list ((string * list Z) * list nat)) : bool :=
  forallb (fun e => opt_eqb (list_eqb Nat.eqb)
                      (elem_to_polyhedron tbl casts nids (fst (fst e)) (snd (fst e)))
                      (Some (snd e))) elems.
(* polyhedron volumes from the face data the implementation produced *)
Definition poly_vol_ok (eabs erel : Q) (local_origin centroid : bool) (coords : list (v3 Q))
           (elems : list (list nat * Q)) : bool :=
  forallb (fun e => match poly_volume QOps local_origin centroid coords (fst e) with
                    | Some v => close eabs erel v (snd e)
                    | None => false
                    end) elems.

Definition degen_ok (pats : list pattern) (hexes prisms : list (Z * list Z))
           (impl : outcome (list (Z * list Z) * list (Z * list Z))) : bool :=
  match resolve_degeneracy pats hexes prisms, impl with
  | Ok (h, p), Ok (h', p') => rows_eqb h h' && rows_eqb p p'
  | UnknownPattern, UnknownPattern => true
  | _, _ => false
  end.
Definition positive_ok (perm : list nat) (rows : list ((Z * list Z) * Q)) (impl : list (Z * list Z)) : bool :=
  opt_eqb rows_eqb (make_positive QOps perm rows) (Some impl).

Fixpoint blocks_eqb (a b : list (string * list (Z * list Z))) : bool :=
  match a, b with
  | [], [] => true
  | (t, r) :: a', (t', r') :: b' => String.eqb t t' && rows_eqb r r' && blocks_eqb a' b'
  | _, _ => false
  end.
Definition others_ok (src impl : list (string * list (Z * list Z))) : bool :=
  blocks_eqb (resolve_degeneracy_others src) impl.
