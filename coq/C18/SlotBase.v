(* C18 — option tuples of the memo slots ('metric' / 'volume' entries of
   elemental_data that make_elements_positive relies on).  Definitions only:
   the vocabulary in which translate/c18_tables.py writes the decision of
   GeometryProcessorMixin._slot_answers into gen/Slots.v. *)
From Coq Require Import List String Bool.
Import ListNotations.

(* one entry of an options tuple: a flag or the mode string *)
Inductive oval := OB (b : bool) | OS (s : string).
Definition oval_eqb (a b : oval) : bool :=
  match a, b with
  | OB x, OB y => Bool.eqb x y
  | OS x, OS y => String.eqb x y
  | _, _ => false
  end.
Fixpoint opts_eqb (a b : list oval) : bool :=
  match a, b with
  | [], [] => true
  | x :: a', y :: b' => oval_eqb x y && opts_eqb a' b'
  | _, _ => false
  end.
(* Python truth value of an entry *)
Definition truthy (v : oval) : bool :=
  match v with OB b => b | OS s => negb (String.eqb s "") end.
(* t[:-n], t[-n:], t[:n], t[n:] *)
Definition py_until_neg (n : nat) (l : list oval) : list oval := firstn (List.length l - n) l.
Definition py_from_neg (n : nat) (l : list oval) : list oval := skipn (List.length l - n) l.
Definition py_until (n : nat) (l : list oval) : list oval := firstn n l.
Definition py_from (n : nat) (l : list oval) : list oval := skipn n l.
(* t[-n] (n >= 1) and t[n]; the translator only accepts indices that exist in
   every options tuple (n <= 2), so the default is never reached on a
   well-formed tuple (see SlotModel.wf_opts) *)
Definition py_neg_index (n : nat) (l : list oval) : oval := nth (n - 1) (rev l) (OB false).
Definition py_index (n : nat) (l : list oval) : oval := nth n l (OB false).
