(* C18 — proofs about the translated tables (gen/Tables.v) and the translated
   geometry kernels of C11 (FV.C11.gen.Kernels), over R. *)
From Coq Require Import ZArith Reals List String Lra Lia Permutation Bool.
From FV.C11 Require Import Model Entry Proofs ProofsVol ProofsGauss.
From FV.C11.gen Require Import Kernels.
From FV.C18 Require Import Model.
From FV.C18.gen Require Import Tables.
Import ListNotations.
Open Scope R_scope.
(* no sentence of this file may hold the shared Coq build lock for long *)
Set Default Timeout 240.

Ltac unfold_poly := cbv [select_faces select mapMo nth_error
   poly_faces_tet poly_faces_hex poly_faces_prism poly_faces_pyr permute_tet
   polyhedron_vol_fan polyhedron_vol_centroid face_vol_fan face_fan face_vol_centroid tsum vmean
   vsum cyc_pairs pairs_from last fold_left map fst snd vzero of_nat_T List.length Z.of_nat
   Pos.of_succ_nat Pos.succ option_map shift_faces_if faces_origin].
Ltac poly_tac := intros; destruct_pts; unfold_poly; f_equal; unfold_all; field.

(* ---- centroid mode: the face list of to_polyhedron has, for ALL coordinates,
        exactly the volume the element's own centroid kernel computes *)
Lemma poly_centroid_tet p0 p1 p2 p3 :
  option_map (polyhedron_vol_centroid ROps) (select_faces [p0;p1;p2;p3] poly_faces_tet)
  = Some (k_element_volumes_tet_like ROps p0 p1 p2 p3).
Proof. poly_tac. Qed.
Lemma poly_fan_tet p0 p1 p2 p3 :
  option_map (polyhedron_vol_fan ROps) (select_faces [p0;p1;p2;p3] poly_faces_tet)
  = Some (k_element_volumes_tet_like ROps p0 p1 p2 p3).
Proof. poly_tac. Qed.
Lemma poly_centroid_pyr p0 p1 p2 p3 p4 :
  option_map (polyhedron_vol_centroid ROps) (select_faces [p0;p1;p2;p3;p4] poly_faces_pyr)
  = Some (k_element_volumes_pyr_centroid ROps p0 p1 p2 p3 p4).
Proof. poly_tac. Qed.
Lemma poly_centroid_prism p0 p1 p2 p3 p4 p5 :
  option_map (polyhedron_vol_centroid ROps) (select_faces [p0;p1;p2;p3;p4;p5] poly_faces_prism)
  = Some (k_element_volumes_prism_centroid ROps p0 p1 p2 p3 p4 p5).
Proof. poly_tac. Qed.
Lemma poly_centroid_hex p0 p1 p2 p3 p4 p5 p6 p7 :
  option_map (polyhedron_vol_centroid ROps) (select_faces [p0;p1;p2;p3;p4;p5;p6;p7] poly_faces_hex)
  = Some (k_element_volumes_hex_centroid ROps p0 p1 p2 p3 p4 p5 p6 p7).
Proof. poly_tac. Qed.

(* ---- fan ("linear") mode of the face list: affine law for all coordinates
        (closed face list => translation cancels), and closed form on affine
        images of the reference element, where it equals the element's linear
        kernel (on non-planar faces the fan of the face list and the element's
        tet decomposition use different face diagonals and differ) *)
Local Notation A M t := (aff ROps M t).
Lemma poly_fan_affine_pyr M t p0 p1 p2 p3 p4 :
  option_map (polyhedron_vol_fan ROps) (select_faces [A M t p0; A M t p1; A M t p2; A M t p3; A M t p4] poly_faces_pyr)
  = option_map (fun v => mdet ROps M * v)
      (option_map (polyhedron_vol_fan ROps) (select_faces [p0;p1;p2;p3;p4] poly_faces_pyr)).
Proof. poly_tac. Qed.
Lemma poly_fan_affine_prism M t p0 p1 p2 p3 p4 p5 :
  option_map (polyhedron_vol_fan ROps)
    (select_faces [A M t p0; A M t p1; A M t p2; A M t p3; A M t p4; A M t p5] poly_faces_prism)
  = option_map (fun v => mdet ROps M * v)
      (option_map (polyhedron_vol_fan ROps) (select_faces [p0;p1;p2;p3;p4;p5] poly_faces_prism)).
Proof. poly_tac. Qed.
Lemma poly_fan_affine_hex M t p0 p1 p2 p3 p4 p5 p6 p7 :
  option_map (polyhedron_vol_fan ROps)
    (select_faces [A M t p0; A M t p1; A M t p2; A M t p3; A M t p4; A M t p5; A M t p6; A M t p7] poly_faces_hex)
  = option_map (fun v => mdet ROps M * v)
      (option_map (polyhedron_vol_fan ROps) (select_faces [p0;p1;p2;p3;p4;p5;p6;p7] poly_faces_hex)).
Proof. poly_tac. Qed.
Lemma poly_fan_ref_pyr :
  option_map (polyhedron_vol_fan ROps)
    (select_faces [(0,0,0); (1,0,0); (1,1,0); (0,1,0); (0,0,1)] poly_faces_pyr) = Some (1 / 3).
Proof. unfold_poly; f_equal; unfold_all; field. Qed.
Lemma poly_fan_ref_prism :
  option_map (polyhedron_vol_fan ROps)
    (select_faces [(0,0,0); (0,1,0); (1,0,0); (0,0,1); (0,1,1); (1,0,1)] poly_faces_prism) = Some (1 / 2).
Proof. unfold_poly; f_equal; unfold_all; field. Qed.
Lemma poly_fan_ref_hex :
  option_map (polyhedron_vol_fan ROps)
    (select_faces [(0,0,0); (1,0,0); (1,1,0); (0,1,0); (0,0,1); (1,0,1); (1,1,1); (0,1,1)] poly_faces_hex)
  = Some 1.
Proof. unfold_poly; f_equal; unfold_all; field. Qed.

(* ---- the face lists are closed, so both polyhedron volumes are independent of
        the origin of the fans: subtracting the first node of the first face (what
        the repaired numba cores do) changes nothing, for ALL coordinates *)
Ltac shift_tac := cbv zeta; intros; destruct_pts; unfold_poly; split; f_equal; unfold_all; field.
Lemma poly_shift_tet p0 p1 p2 p3 :
  let fs := select_faces [p0;p1;p2;p3] poly_faces_tet in
  option_map (fun f => polyhedron_vol_fan ROps (shift_faces_if ROps true f)) fs
    = option_map (polyhedron_vol_fan ROps) fs /\
  option_map (fun f => polyhedron_vol_centroid ROps (shift_faces_if ROps true f)) fs
    = option_map (polyhedron_vol_centroid ROps) fs.
Proof. shift_tac. Qed.
Lemma poly_shift_pyr p0 p1 p2 p3 p4 :
  let fs := select_faces [p0;p1;p2;p3;p4] poly_faces_pyr in
  option_map (fun f => polyhedron_vol_fan ROps (shift_faces_if ROps true f)) fs
    = option_map (polyhedron_vol_fan ROps) fs /\
  option_map (fun f => polyhedron_vol_centroid ROps (shift_faces_if ROps true f)) fs
    = option_map (polyhedron_vol_centroid ROps) fs.
Proof. shift_tac. Qed.
Lemma poly_shift_prism p0 p1 p2 p3 p4 p5 :
  let fs := select_faces [p0;p1;p2;p3;p4;p5] poly_faces_prism in
  option_map (fun f => polyhedron_vol_fan ROps (shift_faces_if ROps true f)) fs
    = option_map (polyhedron_vol_fan ROps) fs /\
  option_map (fun f => polyhedron_vol_centroid ROps (shift_faces_if ROps true f)) fs
    = option_map (polyhedron_vol_centroid ROps) fs.
Proof. shift_tac. Qed.
Lemma poly_shift_hex p0 p1 p2 p3 p4 p5 p6 p7 :
  let fs := select_faces [p0;p1;p2;p3;p4;p5;p6;p7] poly_faces_hex in
  option_map (fun f => polyhedron_vol_fan ROps (shift_faces_if ROps true f)) fs
    = option_map (polyhedron_vol_fan ROps) fs /\
  option_map (fun f => polyhedron_vol_centroid ROps (shift_faces_if ROps true f)) fs
    = option_map (polyhedron_vol_centroid ROps) fs.
Proof. shift_tac. Qed.

(* ---- tables: closed, over the element's own nodes *)
Lemma poly_tables_closed :
  forallb (fun k => closed_faces (snd (snd (snd k)))
                    && faces_over_own_nodes (fst (snd (snd k))) (snd (snd (snd k)))) poly_kernels = true.
Proof. vm_compute. reflexivity. Qed.

(* ---- _permute (tet) flips the sign of the volume *)
Lemma permute_flips p0 p1 p2 p3 :
  option_map (fun q => match q with
                       | [q0; q1; q2; q3] => Some (k_element_volumes_tet_like ROps q0 q1 q2 q3)
                       | _ => None end) (select [p0;p1;p2;p3] permute_tet)
  = Some (Some (- k_element_volumes_tet_like ROps p0 p1 p2 p3)).
Proof. intros; destruct_pts; unfold_poly; do 2 f_equal; unfold_all; field. Qed.
Lemma permute_is_permutation (c0 c1 c2 c3 : Z) :
  exists c', select [c0;c1;c2;c3] permute_tet = Some c' /\ Permutation [c0;c1;c2;c3] c'.
Proof.
  eexists; split; [reflexivity |].
  (* robust to any permutation table: compare occurrence counts *)
  apply (Permutation_count_occ Z.eq_dec). intros x. simpl.
  repeat destruct (Z.eq_dec _ _); congruence || reflexivity || lia.
Qed.

(* ---- resolve_degeneracy: for each of the four translated collapse patterns and
        ALL coordinates, the prism it produces has the centroid-mode volume of the
        degenerate hex (centroid is the default mode) *)
Definition prism6 (f : v3 R -> v3 R -> v3 R -> v3 R -> v3 R -> v3 R -> R) (q : list (v3 R)) : option R :=
  match q with [q0; q1; q2; q3; q4; q5] => Some (f q0 q1 q2 q3 q4 q5) | _ => None end.
Lemma degenerate_hex_is_prism_centroid pat : In pat degeneracy_patterns ->
  forall p0 p1 p2 p3 p4 p5 p6 p7, collapsed pat [p0;p1;p2;p3;p4;p5;p6;p7] ->
  option_map (prism6 (k_element_volumes_prism_centroid ROps)) (select [p0;p1;p2;p3;p4;p5;p6;p7] (snd (snd pat)))
  = Some (Some (k_element_volumes_hex_centroid ROps p0 p1 p2 p3 p4 p5 p6 p7)).
Proof.
  intros Hin. cbv [degeneracy_patterns] in Hin. simpl in Hin.
  destruct Hin as [<- | [<- | [<- | [<- | []]]]];
    intros p0 p1 p2 p3 p4 p5 p6 p7 [E1 E2]; cbv [fst snd nth_error] in E1, E2;
    injection E1; injection E2; intros; subst; destruct_pts; unfold_poly; cbv [prism6];
    do 2 f_equal; unfold_all; field.
Qed.
(* same node set: under the collapse equations the six prism nodes are exactly the
   distinct nodes of the hex *)
Lemma degenerate_same_nodes pat : In pat degeneracy_patterns ->
  forall c0 c1 c2 c3 c4 c5 c6 c7 : Z, collapsed pat [c0;c1;c2;c3;c4;c5;c6;c7] ->
  exists c', select [c0;c1;c2;c3;c4;c5;c6;c7] (snd (snd pat)) = Some c' /\
             forall x, In x c' <-> In x [c0;c1;c2;c3;c4;c5;c6;c7].
Proof.
  intros Hin. cbv [degeneracy_patterns] in Hin. simpl in Hin.
  destruct Hin as [<- | [<- | [<- | [<- | []]]]];
    intros c0 c1 c2 c3 c4 c5 c6 c7 [E1 E2]; cbv [fst snd nth_error] in E1, E2;
    injection E1; injection E2; intros; subst;
    (eexists; split; [reflexivity |]); intros x; simpl; tauto.
Qed.
(* on affine wedges (planar faces) every hex mode and every prism mode give det M / 2 *)
Ltac wedge_tac :=
  intros e; subst e; cbv beta; rewrite hex_affine, hex_gaussian_affine, hex_centroid_affine;
  repeat split; unfold_all; field.
Lemma degenerate_affine_01 M t :
  let e (k : v3 R -> v3 R -> v3 R -> v3 R -> v3 R -> v3 R -> v3 R -> v3 R -> R) :=
    k (A M t (0,0,0)) (A M t (0,0,0)) (A M t (1,0,0)) (A M t (0,1,0)) (A M t (0,0,1)) (A M t (0,0,1)) (A M t (1,0,1)) (A M t (0,1,1)) in
  e (k_element_volumes_hex ROps) = mdet ROps M / 2 /\
  e (k_element_volumes_hex_gaussian ROps) = mdet ROps M / 2 /\
  e (k_element_volumes_hex_centroid ROps) = mdet ROps M / 2.
Proof. wedge_tac. Qed.
Lemma degenerate_affine_12 M t :
  let e (k : v3 R -> v3 R -> v3 R -> v3 R -> v3 R -> v3 R -> v3 R -> v3 R -> R) :=
    k (A M t (0,0,0)) (A M t (1,0,0)) (A M t (1,0,0)) (A M t (0,1,0)) (A M t (0,0,1)) (A M t (1,0,1)) (A M t (1,0,1)) (A M t (0,1,1)) in
  e (k_element_volumes_hex ROps) = mdet ROps M / 2 /\
  e (k_element_volumes_hex_gaussian ROps) = mdet ROps M / 2 /\
  e (k_element_volumes_hex_centroid ROps) = mdet ROps M / 2.
Proof. wedge_tac. Qed.
Lemma degenerate_affine_23 M t :
  let e (k : v3 R -> v3 R -> v3 R -> v3 R -> v3 R -> v3 R -> v3 R -> v3 R -> R) :=
    k (A M t (0,0,0)) (A M t (1,0,0)) (A M t (0,1,0)) (A M t (0,1,0)) (A M t (0,0,1)) (A M t (1,0,1)) (A M t (0,1,1)) (A M t (0,1,1)) in
  e (k_element_volumes_hex ROps) = mdet ROps M / 2 /\
  e (k_element_volumes_hex_gaussian ROps) = mdet ROps M / 2 /\
  e (k_element_volumes_hex_centroid ROps) = mdet ROps M / 2.
Proof. wedge_tac. Qed.
Lemma degenerate_affine_30 M t :
  let e (k : v3 R -> v3 R -> v3 R -> v3 R -> v3 R -> v3 R -> v3 R -> v3 R -> R) :=
    k (A M t (0,0,0)) (A M t (1,0,0)) (A M t (0,1,0)) (A M t (0,0,0)) (A M t (0,0,1)) (A M t (1,0,1)) (A M t (0,1,1)) (A M t (0,0,1)) in
  e (k_element_volumes_hex ROps) = mdet ROps M / 2 /\
  e (k_element_volumes_hex_gaussian ROps) = mdet ROps M / 2 /\
  e (k_element_volumes_hex_centroid ROps) = mdet ROps M / 2.
Proof. wedge_tac. Qed.
