(* C18 — resolve_degeneracy, global bookkeeping (hand model Model.resolve_degeneracy,
   tied to the code by the exact block correspondence of every run; the patterns are
   translated): which hexes stay, which rows each collapse pattern appends to the
   prism block and with which id, the order of the resulting prism block, and that
   no element id is lost or duplicated. *)
From Coq Require Import ZArith List Bool Lia Permutation Sorting.Sorted.
Import ListNotations.
From FV.C11 Require Import Model.
From FV.C18 Require Import Model ProofsIndex DegenSpec.
From FV.C18.gen Require Import Tables.
Set Default Timeout 120.

Definition conv_row (p : pattern) (r : Z * list Z) : list (Z * list Z) :=
  match matches p (snd r), reorder (snd (snd p)) (snd r) with
  | Some true, Some c' => [(fst r, c')]
  | _, _ => []
  end.
Lemma converted_by_eq p hexes : converted_by p hexes = flat_map (conv_row p) hexes.
Proof. reflexivity. Qed.

(* ---- structure of a successful run *)
Lemma resolve_ok_structure pats hexes prisms kept prisms' :
  resolve_degeneracy pats hexes prisms = Ok (kept, prisms') ->
  kept = filter (fun r => nondegenerate pats (snd r)) hexes /\
  Permutation prisms' (prisms ++ flat_map (fun p => converted_by p hexes) pats) /\
  StronglySorted (le_fst (list Z)) prisms'.
Proof.
  unfold resolve_degeneracy.
  destruct (all_true _) as [[|] |]; try discriminate.
  intros H. injection H as <- <-. split; [reflexivity |]. split.
  - apply sort_perm.
  - apply sort_sorted.
Qed.
(* the error outcome: some hex has a collapsed pair without its companion *)
Lemma resolve_unknown_pattern pats hexes prisms :
  resolve_degeneracy pats hexes prisms = UnknownPattern ->
  exists p r, In p pats /\ In r hexes /\ companion_ok p (snd r) = Some false.
Proof.
  unfold resolve_degeneracy.
  destruct (all_true _) as [[|] |] eqn:E; try discriminate. intros _.
  set (l := flat_map (fun p => map (fun r => companion_ok p (snd r)) hexes) pats) in E.
  assert (In (Some false) l).
  { clearbody l. induction l as [| x l IH]; simpl in E; [discriminate |].
    destruct x as [[|] |]; destruct (all_true l) as [[|] |] eqn:El; simpl in E; try discriminate;
      try (left; reflexivity); right; apply IH; reflexivity. }
  unfold l in H. apply in_flat_map in H. destruct H as [p [Hp H]].
  apply in_map_iff in H. destruct H as [r [Hr Hin]]. exists p, r. auto.
Qed.

(* ---- ids are paired with rows pattern by pattern *)
Lemma converted_by_spec p hexes i c' :
  In (i, c') (converted_by p hexes) <->
  exists c, In (i, c) hexes /\ matches p c = Some true /\ reorder (snd (snd p)) c = Some c'.
Proof.
  rewrite converted_by_eq, in_flat_map. unfold conv_row. split.
  - intros [[j c] [Hin H]]. simpl in H.
    destruct (matches p c) as [[|] |] eqn:M; try contradiction.
    destruct (reorder (snd (snd p)) c) as [c2 |] eqn:R; try contradiction.
    destruct H as [H | []]. injection H as <- <-. exists c. auto.
  - intros [c [Hin [M R]]]. exists (i, c). split; [exact Hin |]. simpl. rewrite M, R. left. reflexivity.
Qed.

(* ---- totality on well-formed rows and patterns *)
Lemma nth_error_lt {A} (l : list A) k : (k < List.length l)%nat -> exists x, nth_error l k = Some x.
Proof.
  intros H. destruct (nth_error l k) eqn:E; [eauto |]. apply nth_error_None in E. lia.
Qed.
Lemma cols_equal_total c ab :
  List.length c = 8%nat -> Nat.ltb (fst ab) 8 = true -> Nat.ltb (snd ab) 8 = true ->
  exists b, cols_equal c ab = Some b.
Proof.
  intros L Ha Hb. apply Nat.ltb_lt in Ha, Hb. unfold cols_equal, nth_Z.
  destruct (nth_error_lt c (fst ab)) as [x ->]; [lia |].
  destruct (nth_error_lt c (snd ab)) as [y ->]; [lia |]. eauto.
Qed.
Lemma select_total (c : list Z) perm :
  List.length c = 8%nat -> forallb (fun k => Nat.ltb k 8) perm = true -> exists c', select c perm = Some c'.
Proof.
  intros L. induction perm as [| k perm IH]; simpl; intros H; [exists []; reflexivity |].
  apply andb_prop in H. destruct H as [Hk Hp]. apply Nat.ltb_lt in Hk.
  destruct (nth_error_lt c k) as [x Hx]; [lia |]. destruct (IH Hp) as [c' Hc].
  unfold select in *. simpl. rewrite Hx, Hc. eauto.
Qed.
Lemma wf_pattern_parts p : wf_pattern p = true ->
  Nat.ltb (fst (fst p)) 8 = true /\ Nat.ltb (snd (fst p)) 8 = true /\
  forallb (fun k => Nat.ltb k 8) (snd (snd p)) = true.
Proof.
  unfold wf_pattern. intros H. repeat (apply andb_prop in H; destruct H as [H ?]). auto.
Qed.
Lemma conv_row_fst p r :
  wf_pattern p = true -> List.length (snd r) = 8%nat ->
  map fst (conv_row p r) = if matches_b p (snd r) then [fst r] else [].
Proof.
  intros W L. destruct (wf_pattern_parts p W) as [Ha [Hb Hp]].
  unfold conv_row, matches_b, matches.
  destruct (cols_equal_total (snd r) (fst p) L Ha Hb) as [b ->].
  destruct (select_total (snd r) (snd (snd p)) L Hp) as [c' Hc]. unfold reorder. rewrite Hc.
  destruct b; reflexivity.
Qed.
Lemma any_true_total pats c :
  forallb wf_pattern pats = true -> List.length c = 8%nat ->
  any_true (map (fun p => matches p c) pats) = Some (existsb (fun p => matches_b p c) pats).
Proof.
  intros W L. induction pats as [| p pats IH]; simpl; [reflexivity |].
  simpl in W. apply andb_prop in W. destruct W as [Wp Wt]. rewrite (IH Wt).
  destruct (wf_pattern_parts p Wp) as [Ha [Hb _]].
  unfold matches_b, matches. destruct (cols_equal_total c (fst p) L Ha Hb) as [b ->].
  destruct b; reflexivity.
Qed.
Lemma nondegenerate_count pats c :
  forallb wf_pattern pats = true -> List.length c = 8%nat ->
  nondegenerate pats c = Nat.eqb (count_matching pats c) 0.
Proof.
  intros W L. unfold nondegenerate, count_matching. rewrite (any_true_total pats c W L). clear W.
  induction pats as [| p pats IH]; simpl; [reflexivity |].
  destruct (matches_b p c); simpl; [reflexivity | exact IH].
Qed.
Lemma conv_rows_fst pats r :
  forallb wf_pattern pats = true -> List.length (snd r) = 8%nat ->
  map fst (flat_map (fun p => conv_row p r) pats) = repeat (fst r) (count_matching pats (snd r)).
Proof.
  intros W L. unfold count_matching. induction pats as [| p pats IH]; simpl; [reflexivity |].
  simpl in W. apply andb_prop in W. destruct W as [Wp Wt].
  rewrite map_app, (conv_row_fst p r Wp L), (IH Wt). destruct (matches_b p (snd r)); reflexivity.
Qed.

(* ---- exchanging the two loops (patterns outside in the code, hexes outside in the statement) *)
Lemma flat_map_app_perm {A B} (g h : A -> list B) l :
  Permutation (flat_map g l ++ flat_map h l) (flat_map (fun x => g x ++ h x) l).
Proof.
  induction l as [| a l IH]; simpl; [constructor |].
  rewrite <- IH, <- !app_assoc. apply Permutation_app_head.
  rewrite !app_assoc. apply Permutation_app_tail. apply Permutation_app_comm.
Qed.
Lemma flat_map_nil {A B} (l : list A) : flat_map (fun _ : A => @nil B) l = [].
Proof. induction l; simpl; auto. Qed.
Lemma flat_map_swap {A B C} (f : A -> B -> list C) la lb :
  Permutation (flat_map (fun a => flat_map (f a) lb) la) (flat_map (fun b => flat_map (fun a => f a b) la) lb).
Proof.
  induction la as [| a la IH]; simpl.
  - rewrite flat_map_nil. constructor.
  - rewrite IH. apply flat_map_app_perm.
Qed.

Lemma ids_split pats hexes :
  forallb wf_pattern pats = true -> wf_hex_rows hexes = true -> single_pattern pats hexes = true ->
  Permutation (map fst hexes)
    (map fst (filter (fun r => nondegenerate pats (snd r)) hexes)
     ++ map fst (flat_map (fun r => flat_map (fun p => conv_row p r) pats) hexes)).
Proof.
  intros W. induction hexes as [| r tl IH]; simpl; intros Wh S; [constructor |].
  apply andb_prop in Wh. destruct Wh as [L Wt]. apply Nat.eqb_eq in L.
  apply andb_prop in S. destruct S as [S1 St]. apply Nat.leb_le in S1.
  specialize (IH Wt St). rewrite (nondegenerate_count pats (snd r) W L), map_app, (conv_rows_fst pats r W L).
  destruct (count_matching pats (snd r)) as [| [| n]]; simpl; [| | lia].
  - apply perm_skip. exact IH.
  - rewrite IH. apply Permutation_middle.
Qed.

(* no element id is lost or duplicated *)
Lemma resolve_ids_conserved pats hexes prisms kept prisms' :
  forallb wf_pattern pats = true -> wf_hex_rows hexes = true -> single_pattern pats hexes = true ->
  resolve_degeneracy pats hexes prisms = Ok (kept, prisms') ->
  Permutation (map fst hexes ++ map fst prisms) (map fst kept ++ map fst prisms').
Proof.
  intros W Wh S H. destruct (resolve_ok_structure _ _ _ _ _ H) as [-> [P _]].
  rewrite (Permutation_map fst P), map_app.
  rewrite (ids_split pats hexes W Wh S).
  assert (Q : Permutation (flat_map (fun p => converted_by p hexes) pats)
                          (flat_map (fun r => flat_map (fun p => conv_row p r) pats) hexes)).
  { apply (flat_map_swap conv_row pats hexes). }
  rewrite (Permutation_map fst Q).
  rewrite <- !app_assoc. apply Permutation_app_head. apply Permutation_app_comm.
Qed.
(* a well-formed input without a broken companion never fails otherwise *)
Lemma resolve_never_malformed pats hexes prisms :
  forallb wf_pattern pats = true -> wf_hex_rows hexes = true ->
  resolve_degeneracy pats hexes prisms <> Malformed.
Proof.
  intros W Wh. unfold resolve_degeneracy.
  set (l := flat_map (fun p => map (fun r => companion_ok p (snd r)) hexes) pats).
  assert (T : Forall (fun x => x <> None) l).
  { apply Forall_forall. intros x Hx. unfold l in Hx. apply in_flat_map in Hx. destruct Hx as [p [Hp Hx]].
    apply in_map_iff in Hx. destruct Hx as [r [<- Hr]].
    unfold wf_hex_rows in Wh. rewrite forallb_forall in W, Wh. specialize (W p Hp). specialize (Wh r Hr). apply Nat.eqb_eq in Wh.
    unfold wf_pattern in W. repeat (apply andb_prop in W; destruct W as [W ?]).
    unfold companion_ok.
    destruct (cols_equal_total (snd r) (fst p) Wh) as [b ->]; trivial.
    destruct (cols_equal_total (snd r) (fst (snd p)) Wh) as [b' ->]; trivial.
    destruct b; discriminate. }
  assert (E : exists b, all_true l = Some b).
  { clearbody l. induction T as [| x l Hx _ IH]; simpl; [eauto |].
    destruct IH as [b ->]. destruct x; [eauto | congruence]. }
  destruct E as [b ->]. destruct b; discriminate.
Qed.

(* the translated patterns are well-formed *)
Lemma translated_patterns_wf : forallb wf_pattern degeneracy_patterns = true.
Proof. vm_compute. reflexivity. Qed.

(* ---- non-vacuity: three hexes stored with descending ids, one collapsed along the first
   translated pattern's edge and one along the last one's, and an existing prism *)
Example degeneracy_bookkeeping_example :
  let hexes := [(30, [1;1;3;4;5;5;7;8]); (20, [1;2;3;4;5;6;7;8]); (10, [4;2;3;4;8;6;7;8])]%Z in
  let prisms := [(25, [1;2;3;4;5;6])]%Z in
  wf_hex_rows hexes = true /\ single_pattern degeneracy_patterns hexes = true /\
  exists kept prisms', resolve_degeneracy degeneracy_patterns hexes prisms = Ok (kept, prisms') /\
    map fst kept = [20]%Z /\ map fst prisms' = [10; 25; 30]%Z.
Proof. vm_compute. repeat split. eexists. eexists. repeat split. Qed.
