(* C18 — resolve_degeneracy: the vocabulary of the bookkeeping statement
   (which hexes are kept, which rows are appended to the prism block for each
   collapse pattern, well-formedness).  Definitions only. *)
From Coq Require Import ZArith List Bool.
Import ListNotations.
From FV.C11 Require Import Model.
From FV.C18 Require Import Model.

Definition matches_b (p : pattern) (c : list Z) : bool :=
  match matches p c with Some true => true | _ => false end.
(* no collapse pattern applies: the hex stays a hex *)
Definition nondegenerate (pats : list pattern) (c : list Z) : bool :=
  match any_true (map (fun p => matches p c) pats) with Some false => true | _ => false end.
(* the rows one pattern contributes to the prism block: (id of the hex, its
   connectivity reordered by the pattern's prism node order), in hex storage order *)
Definition converted_by (p : pattern) (hexes : list (Z * list Z)) : list (Z * list Z) :=
  flat_map (fun r => match matches p (snd r), reorder (snd (snd p)) (snd r) with
                     | Some true, Some c' => [(fst r, c')]
                     | _, _ => []
                     end) hexes.
Definition count_matching (pats : list pattern) (c : list Z) : nat :=
  List.length (filter (fun p => matches_b p c) pats).

Definition wf_hex_rows (hexes : list (Z * list Z)) : bool :=
  forallb (fun r => Nat.eqb (List.length (snd r)) 8) hexes.
Definition wf_pattern (p : pattern) : bool :=
  Nat.ltb (fst (fst p)) 8 && Nat.ltb (snd (fst p)) 8
  && Nat.ltb (fst (fst (snd p))) 8 && Nat.ltb (snd (fst (snd p))) 8
  && forallb (fun k => Nat.ltb k 8) (snd (snd p)).
(* every hex shows at most one of the collapse patterns (the quantifier of the
   property: one edge collapse per hexahedron) *)
Definition single_pattern (pats : list pattern) (hexes : list (Z * list Z)) : bool :=
  forallb (fun r => Nat.leb (count_matching pats (snd r)) 1) hexes.
