(* C18 — re-typing elements (polyhedron, prism, reorientation) keeps shape.
   Statements only.  gen/Tables.v (face lists, argsort flags, collapse patterns,
   tet permutation) and FV.C11.gen.Kernels (element volume kernels) are
   regenerated from /repo on every run. *)
From Coq Require Import ZArith Reals List String Permutation.
Import ListNotations.
From FV.C11 Require Import Model Entry.
From FV.C11.gen Require Import Kernels.
From FV.C18 Require Import Model Proofs ProofsIndex.
From FV.C18.gen Require Import Tables.
Open Scope R_scope.
(* no sentence of this file may hold the shared Coq build lock for long *)
Set Default Timeout 240.
Local Notation A M t := (aff ROps M t).

(* ---- to_polyhedron: every translated face list is closed (each directed edge
   once, its reverse once, in another face), uses only the element's own local
   nodes, every local node, faces of >= 3 nodes *)
Theorem C18_poly_tables_closed_over_own_nodes :
  forallb (fun k => (closed_faces (snd (snd (snd k)))
                    && faces_over_own_nodes (fst (snd (snd k))) (snd (snd (snd k))))%bool) poly_kernels = true.
Proof. exact poly_tables_closed. Qed.
Theorem C18_poly_types_covered : map fst poly_kernels = ["tet"; "hex"; "prism"; "pyr"]%string.
Proof. vm_compute. reflexivity. Qed.

(* ---- outward + same volume, ALL coordinates: the volume of the face list in
   centroid mode (the default mode) is the element's own centroid-mode volume
   (sign included: outward orientation for positively oriented elements) *)
Theorem C18_poly_volume_tet : forall p0 p1 p2 p3,
  option_map (polyhedron_vol_centroid ROps) (select_faces [p0;p1;p2;p3] poly_faces_tet)
    = Some (k_element_volumes_tet_like ROps p0 p1 p2 p3) /\
  option_map (polyhedron_vol_fan ROps) (select_faces [p0;p1;p2;p3] poly_faces_tet)
    = Some (k_element_volumes_tet_like ROps p0 p1 p2 p3).
Proof. intros; split; [apply poly_centroid_tet | apply poly_fan_tet]. Qed.
Theorem C18_poly_volume_pyr : forall p0 p1 p2 p3 p4,
  option_map (polyhedron_vol_centroid ROps) (select_faces [p0;p1;p2;p3;p4] poly_faces_pyr)
  = Some (k_element_volumes_pyr_centroid ROps p0 p1 p2 p3 p4).
Proof. exact poly_centroid_pyr. Qed.
Theorem C18_poly_volume_prism : forall p0 p1 p2 p3 p4 p5,
  option_map (polyhedron_vol_centroid ROps) (select_faces [p0;p1;p2;p3;p4;p5] poly_faces_prism)
  = Some (k_element_volumes_prism_centroid ROps p0 p1 p2 p3 p4 p5).
Proof. exact poly_centroid_prism. Qed.
Theorem C18_poly_volume_hex : forall p0 p1 p2 p3 p4 p5 p6 p7,
  option_map (polyhedron_vol_centroid ROps) (select_faces [p0;p1;p2;p3;p4;p5;p6;p7] poly_faces_hex)
  = Some (k_element_volumes_hex_centroid ROps p0 p1 p2 p3 p4 p5 p6 p7).
Proof. exact poly_centroid_hex. Qed.
(* fan ("linear"/"gaussian") mode of the face list: affine law for all coordinates
   and the closed form det M * {1/3, 1/2, 1} on affine elements (= the element's
   linear kernel there by the C11_modes_agree theorems).
   PARTIAL: on elements with non-planar faces the fan of the face list and the
   element's own tet decomposition use different face diagonals; the full
   statement "fan volume = linear kernel for all coordinates" is false for
   pyr / prism / hex (it holds for tet, above). *)
Theorem C18_poly_fan_affine_partial : forall M t,
  (forall p0 p1 p2 p3 p4,
     option_map (polyhedron_vol_fan ROps)
       (select_faces [A M t p0; A M t p1; A M t p2; A M t p3; A M t p4] poly_faces_pyr)
     = option_map (fun v => mdet ROps M * v)
         (option_map (polyhedron_vol_fan ROps) (select_faces [p0;p1;p2;p3;p4] poly_faces_pyr))) /\
  (forall p0 p1 p2 p3 p4 p5,
     option_map (polyhedron_vol_fan ROps)
       (select_faces [A M t p0; A M t p1; A M t p2; A M t p3; A M t p4; A M t p5] poly_faces_prism)
     = option_map (fun v => mdet ROps M * v)
         (option_map (polyhedron_vol_fan ROps) (select_faces [p0;p1;p2;p3;p4;p5] poly_faces_prism))) /\
  (forall p0 p1 p2 p3 p4 p5 p6 p7,
     option_map (polyhedron_vol_fan ROps)
       (select_faces [A M t p0; A M t p1; A M t p2; A M t p3; A M t p4; A M t p5; A M t p6; A M t p7]
                     poly_faces_hex)
     = option_map (fun v => mdet ROps M * v)
         (option_map (polyhedron_vol_fan ROps) (select_faces [p0;p1;p2;p3;p4;p5;p6;p7] poly_faces_hex))).
Proof.
  intros M t. repeat split; intros;
  [apply poly_fan_affine_pyr | apply poly_fan_affine_prism | apply poly_fan_affine_hex].
Qed.
Theorem C18_poly_fan_reference :
  option_map (polyhedron_vol_fan ROps)
    (select_faces [(0,0,0); (1,0,0); (1,1,0); (0,1,0); (0,0,1)] poly_faces_pyr) = Some (1 / 3) /\
  option_map (polyhedron_vol_fan ROps)
    (select_faces [(0,0,0); (0,1,0); (1,0,0); (0,0,1); (0,1,1); (1,0,1)] poly_faces_prism) = Some (1 / 2) /\
  option_map (polyhedron_vol_fan ROps)
    (select_faces [(0,0,0); (1,0,0); (1,1,0); (0,1,0); (0,0,1); (1,0,1); (1,1,1); (0,1,1)] poly_faces_hex)
    = Some 1.
Proof. repeat split; [apply poly_fan_ref_pyr | apply poly_fan_ref_prism | apply poly_fan_ref_hex]. Qed.

(* ---- origin of the fans: the translated face lists are closed, so the polyhedron
   volume (both modes) does not change when the first node of the first face is
   subtracted from every point (gen Kernels.polyhedron_local_origin records whether
   the numba cores do so); all coordinates *)
Theorem C18_poly_volume_origin_independent :
  (forall p0 p1 p2 p3, let fs := select_faces [p0;p1;p2;p3] poly_faces_tet in
     option_map (fun f => polyhedron_vol_fan ROps (shift_faces_if ROps true f)) fs
       = option_map (polyhedron_vol_fan ROps) fs /\
     option_map (fun f => polyhedron_vol_centroid ROps (shift_faces_if ROps true f)) fs
       = option_map (polyhedron_vol_centroid ROps) fs) /\
  (forall p0 p1 p2 p3 p4, let fs := select_faces [p0;p1;p2;p3;p4] poly_faces_pyr in
     option_map (fun f => polyhedron_vol_fan ROps (shift_faces_if ROps true f)) fs
       = option_map (polyhedron_vol_fan ROps) fs /\
     option_map (fun f => polyhedron_vol_centroid ROps (shift_faces_if ROps true f)) fs
       = option_map (polyhedron_vol_centroid ROps) fs) /\
  (forall p0 p1 p2 p3 p4 p5, let fs := select_faces [p0;p1;p2;p3;p4;p5] poly_faces_prism in
     option_map (fun f => polyhedron_vol_fan ROps (shift_faces_if ROps true f)) fs
       = option_map (polyhedron_vol_fan ROps) fs /\
     option_map (fun f => polyhedron_vol_centroid ROps (shift_faces_if ROps true f)) fs
       = option_map (polyhedron_vol_centroid ROps) fs) /\
  (forall p0 p1 p2 p3 p4 p5 p6 p7, let fs := select_faces [p0;p1;p2;p3;p4;p5;p6;p7] poly_faces_hex in
     option_map (fun f => polyhedron_vol_fan ROps (shift_faces_if ROps true f)) fs
       = option_map (polyhedron_vol_fan ROps) fs /\
     option_map (fun f => polyhedron_vol_centroid ROps (shift_faces_if ROps true f)) fs
       = option_map (polyhedron_vol_centroid ROps) fs).
Proof.
  split; [exact poly_shift_tet |]. split; [exact poly_shift_pyr |].
  split; [exact poly_shift_prism | exact poly_shift_hex].
Qed.

(* ---- id -> storage position inside the kernels.  For every list of distinct
   node ids in any storage order, argsort[searchsorted(sorted ids, x)] is the
   storage position of x; the sorted rank alone is not (two-node witness).
   Which kernels apply argsort[...] is translated: poly_uses_argsort_*. *)
Theorem C18_poly_index_translation : forall (ids : list Z) (x : Z),
  NoDup ids -> In x ids -> position true ids x = index_of x ids.
Proof. exact poly_index_translation. Qed.
Theorem C18_rank_without_argsort_refuted :
  exists (ids : list Z) (x : Z), NoDup ids /\ In x ids /\ position false ids x <> index_of x ids.
Proof. exact rank_is_not_position. Qed.
(* per kernel: either it translates back (and then is right for all distinct ids),
   or it is refuted *)
Theorem C18_poly_positions : forall ty ua ar fs, In (ty, (ua, (ar, fs))) poly_kernels ->
  (ua = true -> forall ids x, NoDup ids -> In x ids -> position ua ids x = index_of x ids) /\
  (ua = false -> exists ids x, NoDup ids /\ In x ids /\ position ua ids x <> index_of x ids).
Proof.
  intros ty ua ar fs _. split; intros ->;
  [exact poly_index_translation | exact rank_is_not_position].
Qed.

(* ---- resolve_degeneracy: each of the four translated collapse patterns, ALL
   coordinates: the prism has the hex's (centroid-mode) volume and node set *)
Theorem C18_degenerate_hex_is_prism : forall pat, In pat degeneracy_patterns ->
  forall p0 p1 p2 p3 p4 p5 p6 p7, collapsed pat [p0;p1;p2;p3;p4;p5;p6;p7] ->
  option_map (prism6 (k_element_volumes_prism_centroid ROps))
             (select [p0;p1;p2;p3;p4;p5;p6;p7] (snd (snd pat)))
  = Some (Some (k_element_volumes_hex_centroid ROps p0 p1 p2 p3 p4 p5 p6 p7)).
Proof. exact degenerate_hex_is_prism_centroid. Qed.
Theorem C18_degenerate_same_nodes : forall pat, In pat degeneracy_patterns ->
  forall c0 c1 c2 c3 c4 c5 c6 c7 : Z, collapsed pat [c0;c1;c2;c3;c4;c5;c6;c7] ->
  exists c', select [c0;c1;c2;c3;c4;c5;c6;c7] (snd (snd pat)) = Some c' /\
             forall x, In x c' <-> In x [c0;c1;c2;c3;c4;c5;c6;c7].
Proof. exact degenerate_same_nodes. Qed.
Theorem C18_four_patterns : List.length degeneracy_patterns = 4%nat.
Proof. reflexivity. Qed.
(* on affine wedges (planar faces) the linear and Gauss modes of the degenerate
   hex also equal det M / 2, the closed form of the prism (C11_modes_agree_prism).
   PARTIAL for those two modes: for non-planar faces hex-linear(collapsed) and
   prism-linear differ (different face diagonals). *)
Theorem C18_degenerate_affine_modes_partial : forall M t,
  k_element_volumes_hex ROps (A M t (0,0,0)) (A M t (0,0,0)) (A M t (1,0,0)) (A M t (0,1,0))
     (A M t (0,0,1)) (A M t (0,0,1)) (A M t (1,0,1)) (A M t (0,1,1)) = mdet ROps M / 2 /\
  k_element_volumes_hex_gaussian ROps (A M t (0,0,0)) (A M t (0,0,0)) (A M t (1,0,0)) (A M t (0,1,0))
     (A M t (0,0,1)) (A M t (0,0,1)) (A M t (1,0,1)) (A M t (0,1,1)) = mdet ROps M / 2 /\
  k_element_volumes_hex_centroid ROps (A M t (0,0,0)) (A M t (0,0,0)) (A M t (1,0,0)) (A M t (0,1,0))
     (A M t (0,0,1)) (A M t (0,0,1)) (A M t (1,0,1)) (A M t (0,1,1)) = mdet ROps M / 2.
Proof. intros M t. exact (degenerate_affine_01 M t). Qed.

(* ---- the mesh returned by resolve_degeneracy is id-sorted; an id -> index
   dictionary taken from the source storage order does not give positions in it.
   (Finding: FEMData.resolve_degeneracy keeps the stale dict_element_id2index, so
   volumes queried on the returned object land on the wrong ids when the source
   hex ids are not ascending in storage; witness ids [30; 10; 20].) *)
Theorem C18_stale_id_index_refuted :
  exists (old new : list Z) (e : Z),
    NoDup old /\ Permutation old new /\ In e new /\ index_of e old <> index_of e new.
Proof. exact stale_id_index_refuted. Qed.

(* ---- make_elements_positive: _permute flips the sign and keeps the nodes *)
Theorem C18_permute_flips : forall p0 p1 p2 p3,
  option_map (fun q => match q with
                       | [q0; q1; q2; q3] => Some (k_element_volumes_tet_like ROps q0 q1 q2 q3)
                       | _ => None end) (select [p0;p1;p2;p3] permute_tet)
  = Some (Some (- k_element_volumes_tet_like ROps p0 p1 p2 p3)).
Proof. exact permute_flips. Qed.
Theorem C18_permute_same_nodes : forall c0 c1 c2 c3 : Z,
  exists c', select [c0;c1;c2;c3] permute_tet = Some c' /\ Permutation [c0;c1;c2;c3] c'.
Proof. exact permute_is_permutation. Qed.
(* make_elements_positive on one object after any history: PropsSlots.v;
   global bookkeeping of resolve_degeneracy: PropsDegen.v (separate files, so that a
   change to one region of the code leaves the obligations about the others standing) *)
