(* C18 — make_elements_positive on ONE object with a history of queries:
   the 'metric' / 'volume' entries of elemental_data that
   calculate_element_metrics / calculate_element_volumes store together with
   the options they were computed with (_store_slot), the decision whether a
   stored entry answers a request (_slot_answers, TRANSLATED: gen/Slots.v),
   _validate_metric, and make_elements_positive, which asks for signed
   metrics through that machinery, permutes the rows with a negative metric
   and removes the stored entries.  Single-type tet mesh (the only type
   _permute supports).  Definitions only. *)
From Coq Require Import ZArith List String Bool.
Import ListNotations.
From FV.C11 Require Import Model.
From FV.C18 Require Import Model SlotBase.
From FV.C18.gen Require Import Tables Slots.
Open Scope string_scope.

Section Slots.
  Context {T : Type}.
  Variable O : Ops T.
  (* signed volume of a connectivity row (node coordinates fixed) *)
  Variable sv : list Z -> T.

  Definition neg (v : T) : bool := ltb_ O v (zero O).
  Definition absT (v : T) : T := if neg v then opp O v else v.

  (* _validate_metric: raise ValueError if asked to and a negative entry exists,
     then take absolute values if asked to; None = ValueError *)
  Definition validate (raise_negative return_abs : bool) (vals : list T) : option (list T) :=
    if raise_negative && existsb neg vals then None
    else Some (if return_abs then map absT vals else vals).

  Record obj := mkObj {
    rows : list (Z * list Z);                    (* elements: (id, connectivity), storage order *)
    mslot : option (list oval * list T);         (* elemental_data['metric'] + .options *)
    vslot : option (list oval * list T) }.       (* elemental_data['volume'] + .options *)
  Definition fresh (r : list (Z * list Z)) : obj := mkObj r None None.

  Inductive op :=
  | QMetric (raise_negative return_abs : bool)
  | QVolume (mode : string) (raise_negative return_abs : bool)
  | MakePositive.
  Inductive result := Values (l : list T) | Raised | Done | Broken.

  Definition signed (o : obj) : list T := map (fun r => sv (snd r)) (rows o).

  (* calculate_element_volumes(elements=None ...) *)
  Definition q_volume (o : obj) (mode : string) (rz ab : bool) : result * obj :=
    let req := volume_opts mode rz ab in
    let compute :=
      match validate rz ab (signed o) with
      | None => (Raised, o)
      | Some v => (Values v, mkObj (rows o) (mslot o) (Some (req, v)))
      end in
    match vslot o with
    | Some (stored, vals) =>
        if slot_answers stored req then
          (match validate rz ab vals with Some v => Values v | None => Raised end, o)
        else compute
    | None => compute
    end.

  (* calculate_element_metrics(elements=None ...): tet -> calculate_element_volumes(
     raise_negative_volume=rz, return_abs_volume=ab, elements=self.elements, update=True)
     (no slot lookup there because elements is given; it stores the 'volume' entry with
     the default mode), validated again, stored as 'metric' *)
  Definition q_metric (o : obj) (rz ab : bool) : result * obj :=
    let req := metric_opts rz ab in
    let compute :=
      match validate rz ab (signed o) with
      | None => (Raised, o)
      | Some v =>
          let o1 := mkObj (rows o) (mslot o) (Some (volume_opts volume_default_mode rz ab, v)) in
          match validate rz ab v with
          | None => (Raised, o1)
          | Some m => (Values m, mkObj (rows o1) (Some (req, m)) (vslot o1))
          end
      end in
    match mslot o with
    | Some (stored, vals) =>
        if slot_answers stored req then
          (match validate rz ab vals with Some v => Values v | None => Raised end, o)
        else compute
    | None => compute
    end.

  Definition permute_row (perm : list nat) (r : Z * list Z) (flip : bool) : option (Z * list Z) :=
    if flip then option_map (pair (fst r)) (select (snd r) perm) else Some r.
  Fixpoint permute_rows (perm : list nat) (rs : list (Z * list Z)) (cond : list bool)
    : option (list (Z * list Z)) :=
    match rs, cond with
    | [], [] => Some []
    | r :: rs', c :: cond' =>
        match permute_row perm r c, permute_rows perm rs' cond' with
        | Some r', Some l => Some (r' :: l)
        | _, _ => None
        end
    | _, _ => None          (* boolean index of the wrong length: IndexError *)
    end.
  Definition cleared (key : string) : bool := existsb (String.eqb key) positive_clears.

  Definition make_positive_obj (o : obj) : result * obj :=
    match q_metric o (fst positive_query) (snd positive_query) with
    | (Values metric, o1) =>
        let cond := map neg metric in
        if negb (existsb (fun b => b) cond) then (Done, o1)
        else match permute_rows permute_tet (rows o1) cond with
             | Some rows' =>
                 (Done, mkObj rows'
                              (if cleared "metric" then None else mslot o1)
                              (if cleared "volume" then None else vslot o1))
             | None => (Broken, o1)
             end
    | (r, o1) => (r, o1)
    end.

  Definition step (o : obj) (a : op) : result * obj :=
    match a with
    | QMetric rz ab => q_metric o rz ab
    | QVolume mode rz ab => q_volume o mode rz ab
    | MakePositive => make_positive_obj o
    end.
  Fixpoint run (o : obj) (h : list op) : obj :=
    match h with
    | [] => o
    | a :: h' => run (snd (step o a)) h'
    end.
  (* all results of a history, for the correspondence *)
  Fixpoint trace (o : obj) (h : list op) : list result * obj :=
    match h with
    | [] => ([], o)
    | a :: h' => let '(r, o1) := step o a in
                 let '(rs, o2) := trace o1 h' in (r :: rs, o2)
    end.

  (* what an object without any stored entry answers (the specification of a query) *)
  Definition answer_fresh (rs : list (Z * list Z)) (rz ab : bool) : result :=
    match validate rz ab (map (fun r => sv (snd r)) rs) with
    | Some v => Values v
    | None => Raised
    end.
End Slots.

Definition known_modes : list string := ["centroid"; "linear"; "gaussian"].
Definition wf_op (a : op) : bool :=
  match a with
  | QVolume mode _ _ => existsb (String.eqb mode) known_modes
  | _ => true
  end.
Definition wf_rows (rs : list (Z * list Z)) : bool :=
  forallb (fun r => Nat.eqb (List.length (snd r)) 4) rs.

(* the request pairs (stored options, requested options) a history can produce *)
Definition bools : list bool := [false; true].
Definition metric_pairs : list ((bool * bool) * (bool * bool)) :=
  list_prod (list_prod bools bools) (list_prod bools bools).
Definition volume_pairs : list ((string * (bool * bool)) * (string * (bool * bool))) :=
  let one := list_prod known_modes (list_prod bools bools) in list_prod one one.
(* a stored entry computed with (sr, sa) may answer a request (rr, ra) for every
   list of signed values iff this holds (SlotProofs.sound_pair_correct) *)
Definition sound_pair (s r : bool * bool) : bool :=
  negb (snd s) || fst s || (negb (fst r) && snd r).
Definition slot_answers_sound : bool :=
  forallb (fun p => implb (slot_answers (metric_opts (fst (fst p)) (snd (fst p)))
                                        (metric_opts (fst (snd p)) (snd (snd p))))
                          (sound_pair (fst p) (snd p))) metric_pairs
  && forallb (fun p => implb (slot_answers
                                (volume_opts (fst (fst p)) (fst (snd (fst p))) (snd (snd (fst p))))
                                (volume_opts (fst (snd p)) (fst (snd (snd p))) (snd (snd (snd p)))))
                             (sound_pair (snd (fst p)) (snd (snd p)))) volume_pairs.
