(* C18 — re-typing elements: to_polyhedron, resolve_degeneracy,
   make_elements_positive.  Definitions only.  The face tables, the collapse
   patterns and the tet permutation are NOT here: they are regenerated from
   /repo into gen/Tables.v on every run.  Geometry (Ops, v3, polyhedron volumes,
   kernels) comes from C11. *)
From Coq Require Import ZArith List String Bool.
Import ListNotations.
From FV.C11 Require Import Model.

(* ---------------------------------------------------------- generic helpers *)
Fixpoint mapMo {A B} (f : A -> option B) (l : list A) : option (list B) :=
  match l with
  | [] => Some []
  | a :: tl => match f a, mapMo f tl with
               | Some b, Some bs => Some (b :: bs)
               | _, _ => None
               end
  end.
Definition select {P} (pts : list P) (idx : list nat) : option (list P) :=
  mapMo (nth_error pts) idx.
Definition select_faces {P} (pts : list P) (faces : list (list nat)) : option (list (list P)) :=
  mapMo (select pts) faces.

(* ------------------------------------- id -> storage position in to_polyhedron
   node_ids = self.nodes.ids; argsort = node_ids.argsort(); node_ids = node_ids[argsort];
   kernel:  argsort[np.searchsorted(node_ids, dat)]   (or without argsort[...]),
   dat = elements[i].astype(np.int32). *)
Definition int32 (x : Z) : Z := ((x + 2147483648) mod 4294967296 - 2147483648)%Z.
Definition indexed (ids : list Z) : list (Z * nat) := combine ids (seq 0 (List.length ids)).
Definition sorted_ids (ids : list Z) : list Z := map fst (sort_by_id (indexed ids)).
Definition argsort (ids : list Z) : list nat := map snd (sort_by_id (indexed ids)).
(* numpy.searchsorted(a, x) (side='left') on ascending a: number of entries < x *)
Definition searchsorted (a : list Z) (x : Z) : nat := List.length (filter (fun y => Z.ltb y x) a).
Definition position (uses_argsort : bool) (ids : list Z) (x : Z) : option nat :=
  let r := searchsorted (sorted_ids ids) x in
  if uses_argsort then nth_error (argsort ids) r else Some r.
(* the storage position of an id (specification) *)
Fixpoint index_of (x : Z) (ids : list Z) : option nat :=
  match ids with
  | [] => None
  | y :: tl => if Z.eqb x y then Some 0%nat else option_map S (index_of x tl)
  end.

(* face_dat = [n_faces, k_1, i_11 .. i_1k1, k_2, ...] over the positions of the
   element's own nodes *)
Definition face_dat (faces : list (list nat)) (pos : list nat) : option (list nat) :=
  match select_faces pos faces with
  | Some fs => Some (List.length faces :: flat_map (fun f => List.length f :: f) fs)
  | None => None
  end.
Fixpoint assoc_kernel (tbl : list (string * (bool * (nat * list (list nat))))) (ty : string) :=
  match tbl with
  | [] => None
  | (t, k) :: tl => if String.eqb t ty then Some k else assoc_kernel tl ty
  end.
(* one element of to_polyhedron; None = NotImplementedError / out-of-range *)
Fixpoint assoc_bool (tbl : list (string * bool)) (ty : string) : bool :=
  match tbl with
  | [] => false
  | (t, b) :: tl => if String.eqb t ty then b else assoc_bool tl ty
  end.
Definition elem_to_polyhedron (tbl : list (string * (bool * (nat * list (list nat)))))
           (casts : list (string * bool))
           (node_ids : list Z) (ty : string) (conn : list Z) : option (list nat) :=
  match assoc_kernel tbl ty with
  | Some (uses_argsort, (arity, faces)) =>
      if Nat.eqb (List.length conn) arity then
        match mapMo (fun x => position uses_argsort node_ids
                                (if assoc_bool casts ty then int32 x else x)) conn with
        | Some pos => face_dat faces pos
        | None => None
        end
      else None
  | None => None
  end.

(* reading face_dat back (polyhedron volume kernels of geometry_processor) *)
Fixpoint take_faces (n : nat) (l : list nat) : option (list (list nat)) :=
  match n with
  | O => Some []
  | S n' => match l with
            | [] => None
            | k :: tl => if Nat.ltb (List.length tl) k then None
                         else match take_faces n' (skipn k tl) with
                              | Some r => Some (firstn k tl :: r)
                              | None => None
                              end
            end
  end.
Definition parse_faces (dat : list nat) : option (list (list nat)) :=
  match dat with n :: tl => take_faces n tl | [] => None end.
(* volume of a polyhedron cell: faces index nodes.data by STORAGE position *)
Definition poly_volume {T} (O : Ops T) (local_origin centroid : bool) (coords : list (v3 T))
           (dat : list nat) : option T :=
  match parse_faces dat with
  | Some faces =>
      match select_faces coords faces with
      | Some fs0 =>
          let fs := shift_faces_if O local_origin fs0 in
          Some (if centroid then polyhedron_vol_centroid O fs else polyhedron_vol_fan O fs)
      | None => None
      end
  | None => None
  end.

(* closedness of a face table: every directed edge of a face occurs exactly once,
   and its reverse occurs exactly once (in another face) *)
Fixpoint edges_from (first prev : nat) (l : list nat) : list (nat * nat) :=
  match l with
  | [] => [(prev, first)]
  | a :: tl => (prev, a) :: edges_from first a tl
  end.
Definition face_edges (f : list nat) : list (nat * nat) :=
  match f with [] => [] | a :: tl => edges_from a a tl end.
Definition edge_eqb (e1 e2 : nat * nat) : bool := Nat.eqb (fst e1) (fst e2) && Nat.eqb (snd e1) (snd e2).
Definition count_edge (e : nat * nat) (l : list (nat * nat)) : nat :=
  List.length (filter (edge_eqb e) l).
Definition closed_faces (faces : list (list nat)) : bool :=
  let es := flat_map face_edges faces in
  forallb (fun e => Nat.eqb (count_edge e es) 1 && Nat.eqb (count_edge (snd e, fst e) es) 1
                    && negb (Nat.eqb (fst e) (snd e))) es.
(* every face index is a local node, every local node is used, faces have >= 3 nodes *)
Definition faces_over_own_nodes (arity : nat) (faces : list (list nat)) : bool :=
  forallb (fun f => Nat.leb 3 (List.length f) && forallb (fun i => Nat.ltb i arity) f) faces
  && forallb (fun i => existsb (fun f => existsb (Nat.eqb i) f) faces) (seq 0 arity).

(* ---------------------------------------------------------- resolve_degeneracy
   rows = (element id, connectivity) in storage order *)
Definition nth_Z (c : list Z) (k : nat) : option Z := nth_error c k.
Definition cols_equal (c : list Z) (ab : nat * nat) : option bool :=
  match nth_Z c (fst ab), nth_Z c (snd ab) with
  | Some x, Some y => Some (Z.eqb x y)
  | _, _ => None
  end.
Definition pattern := ((nat * nat) * ((nat * nat) * list nat))%type.
Definition matches (p : pattern) (c : list Z) : option bool := cols_equal c (fst p).
(* the check "Unknown degeneracy pattern": collapsed pair must come with its companion *)
Definition companion_ok (p : pattern) (c : list Z) : option bool :=
  match cols_equal c (fst p), cols_equal c (fst (snd p)) with
  | Some true, Some b => Some b
  | Some false, Some _ => Some true
  | _, _ => None
  end.
Definition reorder (perm : list nat) (c : list Z) : option (list Z) := select c perm.
Inductive outcome (A : Type) := Ok (a : A) | UnknownPattern | Malformed.
Arguments Ok {A} a. Arguments UnknownPattern {A}. Arguments Malformed {A}.

Definition all_true (l : list (option bool)) : option bool :=
  fold_right (fun x acc => match x, acc with Some a, Some b => Some (a && b) | _, _ => None end)
             (Some true) l.
Definition any_true (l : list (option bool)) : option bool :=
  fold_right (fun x acc => match x, acc with Some a, Some b => Some (a || b) | _, _ => None end)
             (Some false) l.
Definition resolve_degeneracy (pats : list pattern)
           (hexes prisms : list (Z * list Z)) : outcome (list (Z * list Z) * list (Z * list Z)) :=
  match all_true (flat_map (fun p => map (fun r => companion_ok p (snd r)) hexes) pats) with
  | None => Malformed
  | Some false => UnknownPattern
  | Some true =>
      let converted :=
        flat_map (fun p => flat_map (fun r =>
                    match matches p (snd r), reorder (snd (snd p)) (snd r) with
                    | Some true, Some c' => [(fst r, c')]
                    | _, _ => []
                    end) hexes) pats in
      let kept := filter (fun r => match any_true (map (fun p => matches p (snd r)) pats) with
                                   | Some false => true | _ => false end) hexes in
      Ok (kept, sort_by_id (prisms ++ converted))
  end.

(* ------------------------------------------------------ make_elements_positive
   (single-type tet mesh): rows whose metric is negative get their connectivity permuted *)
Definition make_positive {T} (O : Ops T) (perm : list nat)
           (rows : list ((Z * list Z) * T)) : option (list (Z * list Z)) :=
  mapMo (fun r => let '((i, c), v) := r in
                  if ltb_ O v (zero O) then option_map (pair i) (select c perm) else Some (i, c)) rows.

(* a hex whose columns (a, b) coincide and whose companion columns (c, d) coincide *)
Definition collapsed {P} (pat : pattern) (pts : list P) : Prop :=
  nth_error pts (fst (fst pat)) = nth_error pts (snd (fst pat)) /\
  nth_error pts (fst (fst (snd pat))) = nth_error pts (snd (fst (snd pat))).

(* specification of to_polyhedron's positions: translate back with argsort, no int32 cast *)
Definition spec_kernels (tbl : list (string * (bool * (nat * list (list nat))))) :=
  map (fun k => (fst k, (true, snd (snd k)))) tbl.

(* resolve_degeneracy only replaces the 'hex' and 'prism' entries of the element
   table: every other type block is carried over unchanged *)
Definition resolve_degeneracy_others (others : list (string * list (Z * list Z)))
  : list (string * list (Z * list Z)) := others.
