(* C18 — proofs about make_elements_positive on one object after any history of
   queries (SlotModel.v): the stored 'metric' / 'volume' entries always equal
   what a fresh evaluation would give for the options they were stored with,
   the TRANSLATED decision _slot_answers only lets an entry answer requests for
   which that is sound, hence make_elements_positive sees the signed volumes
   and repairs every inverted row. *)
From Coq Require Import ZArith QArith Reals List String Bool Permutation Lra Lia.
Import ListNotations.
From FV.C11 Require Import Model.
From FV.C11.gen Require Import Kernels.
From FV.C18 Require Import Model SlotBase SlotModel Proofs.
From FV.C18.gen Require Import Tables Slots.
Open Scope R_scope.

(* ---- facts read off the translated definitions (re-checked on every run) *)
Lemma answers_sound : slot_answers_sound = true.
Proof. vm_compute. reflexivity. Qed.
Lemma positive_query_signed : positive_query = (false, false).
Proof. reflexivity. Qed.
Lemma positive_clears_slots : (cleared "metric" && cleared "volume")%bool = true.
Proof. vm_compute. reflexivity. Qed.
Lemma default_mode_known : existsb (String.eqb volume_default_mode) known_modes = true.
Proof. vm_compute. reflexivity. Qed.

Lemma metric_answers_sound sr sa rr ra :
  slot_answers (metric_opts sr sa) (metric_opts rr ra) = true -> sound_pair (sr, sa) (rr, ra) = true.
Proof.
  intros H. pose proof answers_sound as S. unfold slot_answers_sound in S.
  apply andb_prop in S. destruct S as [S _]. rewrite forallb_forall in S.
  specialize (S ((sr, sa), (rr, ra))). simpl fst in S; simpl snd in S. rewrite H in S.
  apply S. unfold metric_pairs, bools. destruct sr, sa, rr, ra; simpl; tauto.
Qed.
Lemma in_known m : existsb (String.eqb m) known_modes = true -> In m known_modes.
Proof.
  intros H. apply existsb_exists in H. destruct H as [x [Hin He]].
  apply String.eqb_eq in He. subst. exact Hin.
Qed.
Lemma volume_answers_sound ms sr sa mr rr ra :
  In ms known_modes -> In mr known_modes ->
  slot_answers (volume_opts ms sr sa) (volume_opts mr rr ra) = true -> sound_pair (sr, sa) (rr, ra) = true.
Proof.
  intros Hs Hr H. pose proof answers_sound as S. unfold slot_answers_sound in S.
  apply andb_prop in S. destruct S as [_ S]. rewrite forallb_forall in S.
  specialize (S ((ms, (sr, sa)), (mr, (rr, ra)))). simpl fst in S; simpl snd in S. rewrite H in S.
  apply S. unfold volume_pairs. apply in_prod; apply in_prod; trivial;
  unfold bools; apply in_prod; destruct sr, sa, rr, ra; simpl; tauto.
Qed.

(* ---- numbers *)
Lemma neg_iff v : neg ROps v = true <-> v < 0.
Proof. unfold neg, ltb_, ROps, Rltb, zero. destruct (Rlt_dec v 0); split; intros; try lra; congruence. Qed.
Lemma absT_Rabs v : absT ROps v = Rabs v.
Proof.
  unfold absT. destruct (neg ROps v) eqn:E.
  - apply neg_iff in E. simpl. rewrite Rabs_left; lra.
  - assert (~ v < 0) by (intro H; apply neg_iff in H; congruence). rewrite Rabs_right; lra.
Qed.
Lemma neg_abs_false v : neg ROps (absT ROps v) = false.
Proof.
  destruct (neg ROps (absT ROps v)) eqn:E; trivial. apply neg_iff in E.
  rewrite absT_Rabs in E. pose proof (Rabs_pos v). lra.
Qed.
Lemma no_neg_abs x : existsb (neg ROps) (map (absT ROps) x) = false.
Proof. induction x; cbn [map existsb]; trivial. rewrite neg_abs_false, IHx. reflexivity. Qed.
Lemma abs_id_when_no_neg x : existsb (neg ROps) x = false -> map (absT ROps) x = x.
Proof.
  induction x; cbn [map existsb]; trivial. intros H. apply orb_false_elim in H. destruct H as [Ha Hx].
  rewrite IHx by exact Hx. unfold absT. rewrite Ha. reflexivity.
Qed.
Lemma abs_abs x : map (absT ROps) (map (absT ROps) x) = map (absT ROps) x.
Proof. apply abs_id_when_no_neg, no_neg_abs. Qed.

(* ---- the meaning of sound_pair: for EVERY list of signed values *)
Lemma sound_pair_correct sr sa rr ra (x v : list R) :
  sound_pair (sr, sa) (rr, ra) = true ->
  validate ROps sr sa x = Some v -> validate ROps rr ra v = validate ROps rr ra x.
Proof.
  unfold sound_pair, validate. simpl fst; simpl snd. intros S V.
  destruct sa.
  - destruct sr.
    + simpl in V. destruct (existsb (neg ROps) x) eqn:E; [discriminate |].
      injection V as <-. rewrite !(abs_id_when_no_neg x E), ?E. reflexivity.
    + simpl in S. apply andb_prop in S. destruct S as [Hr Ha]. destruct rr; [discriminate |].
      subst ra. simpl in V. injection V as <-. simpl. rewrite abs_abs. reflexivity.
  - destruct (sr && existsb (neg ROps) x)%bool; [discriminate |]. injection V as <-. reflexivity.
Qed.
(* the converse: where sound_pair fails there is a list on which the answer differs *)
Lemma sound_pair_complete sr sa rr ra :
  sound_pair (sr, sa) (rr, ra) = false ->
  exists x v, validate ROps sr sa x = Some v /\ validate ROps rr ra v <> validate ROps rr ra x.
Proof.
  unfold sound_pair. simpl fst; simpl snd. intros S.
  destruct sa; [| discriminate]. destruct sr; [discriminate |]. simpl in S.
  exists [-1], [1]. unfold validate. simpl.
  assert (N : neg ROps (-1) = true) by (apply neg_iff; lra).
  assert (P : neg ROps 1 = false) by (destruct (neg ROps 1) eqn:E; trivial; apply neg_iff in E; lra).
  unfold absT. rewrite N, P. simpl. split; [f_equal; f_equal; lra |].
  destruct rr, ra; simpl in *; try discriminate; rewrite ?N, ?P; simpl; try discriminate.
  intros H. injection H. lra.
Qed.
Lemma validate_idem rz ab x v :
  validate ROps rz ab x = Some v -> validate ROps rz ab v = Some v.
Proof.
  intros V. rewrite (sound_pair_correct rz ab rz ab x v); trivial.
  unfold sound_pair; simpl. destruct rz, ab; reflexivity.
Qed.

Section History.
  Variable sv : list Z -> R.
  (* what _permute does to one tet row (discharged for the tet kernel in Props.v) *)
  Hypothesis Hrow : forall c, List.length c = 4%nat ->
    exists c', select c permute_tet = Some c' /\ Permutation c c' /\ sv c' = - sv c.

  Local Notation signed := (signed sv).
  Local Notation obj := (@obj R).

  Definition slot_inv (o : obj) : Prop :=
    match mslot o with
    | None => True
    | Some (so, vals) => exists sr sa, so = metric_opts sr sa /\ validate ROps sr sa (signed o) = Some vals
    end /\
    match vslot o with
    | None => True
    | Some (so, vals) => exists m sr sa, In m known_modes /\ so = volume_opts m sr sa /\
                                         validate ROps sr sa (signed o) = Some vals
    end.
  Definition Inv (o : obj) : Prop := wf_rows (rows o) = true /\ slot_inv o.

  Lemma fresh_inv rs : wf_rows rs = true -> Inv (fresh rs).
  Proof. intros H. split; [exact H |]. split; exact I. Qed.

  Lemma answer_of_validate rs rz ab :
    answer_fresh ROps sv rs rz ab =
    match validate ROps rz ab (map (fun r => sv (snd r)) rs) with Some v => Values v | None => Raised end.
  Proof. reflexivity. Qed.

  Lemma q_metric_spec o rz ab :
    Inv o ->
    fst (q_metric ROps sv o rz ab) = answer_fresh ROps sv (rows o) rz ab /\
    Inv (snd (q_metric ROps sv o rz ab)) /\ rows (snd (q_metric ROps sv o rz ab)) = rows o.
  Proof.
    intros [W [IM IV]]. unfold q_metric.
    assert (C : let c := match validate ROps rz ab (signed o) with
                         | None => (Raised, o)
                         | Some v =>
                             let o1 := mkObj (rows o) (mslot o)
                                             (Some (volume_opts volume_default_mode rz ab, v)) in
                             match validate ROps rz ab v with
                             | None => (Raised, o1)
                             | Some m => (Values m, mkObj (rows o1) (Some (metric_opts rz ab, m)) (vslot o1))
                             end
                         end in
                fst c = answer_fresh ROps sv (rows o) rz ab /\ Inv (snd c) /\ rows (snd c) = rows o).
    { cbv zeta. rewrite answer_of_validate. fold (signed o).
      destruct (validate ROps rz ab (signed o)) as [v |] eqn:V.
      - rewrite (validate_idem _ _ _ _ V). simpl. split; [reflexivity |]. split; [| reflexivity].
        split; [exact W |]. split; simpl.
        + exists rz, ab. split; [reflexivity | exact V].
        + exists volume_default_mode, rz, ab. split; [apply in_known, default_mode_known |].
          split; [reflexivity | exact V].
      - simpl. split; [reflexivity |]. split; [| reflexivity]. split; [exact W | split; assumption]. }
    destruct (mslot o) as [[so vals] |] eqn:M; [| exact C].
    destruct (slot_answers so (metric_opts rz ab)) eqn:A; [| exact C].
    destruct IM as [sr [sa [-> V]]]. apply metric_answers_sound in A.
    simpl. rewrite answer_of_validate. fold (signed o).
    rewrite (sound_pair_correct _ _ _ _ _ _ A V).
    split; [reflexivity |]. split; [| reflexivity]. split; [exact W |]. split.
    - rewrite M. exists sr, sa. split; [reflexivity | exact V].
    - exact IV.
  Qed.

  Lemma q_volume_spec o mode rz ab :
    Inv o -> In mode known_modes ->
    fst (q_volume ROps sv o mode rz ab) = answer_fresh ROps sv (rows o) rz ab /\
    Inv (snd (q_volume ROps sv o mode rz ab)) /\ rows (snd (q_volume ROps sv o mode rz ab)) = rows o.
  Proof.
    intros [W [IM IV]] Hm. unfold q_volume.
    assert (C : let c := match validate ROps rz ab (signed o) with
                         | None => (Raised, o)
                         | Some v => (Values v, mkObj (rows o) (mslot o) (Some (volume_opts mode rz ab, v)))
                         end in
                fst c = answer_fresh ROps sv (rows o) rz ab /\ Inv (snd c) /\ rows (snd c) = rows o).
    { cbv zeta. rewrite answer_of_validate. fold (signed o).
      destruct (validate ROps rz ab (signed o)) as [v |] eqn:V; simpl.
      - split; [reflexivity |]. split; [| reflexivity]. split; [exact W |]. split; simpl.
        + exact IM.
        + exists mode, rz, ab. split; [exact Hm |]. split; [reflexivity | exact V].
      - split; [reflexivity |]. split; [| reflexivity]. split; [exact W | split; assumption]. }
    destruct (vslot o) as [[so vals] |] eqn:M; [| exact C].
    destruct (slot_answers so (volume_opts mode rz ab)) eqn:A; [| exact C].
    destruct IV as [ms [sr [sa [Hms [-> V]]]]]. apply (volume_answers_sound _ _ _ _ _ _ Hms Hm) in A.
    simpl. rewrite answer_of_validate. fold (signed o).
    rewrite (sound_pair_correct _ _ _ _ _ _ A V).
    split; [reflexivity |]. split; [| reflexivity]. split; [exact W |]. split.
    - exact IM.
    - rewrite M. exists ms, sr, sa. split; [exact Hms |]. split; [reflexivity | exact V].
  Qed.

  (* one row after make_elements_positive *)
  Definition repaired (a b : Z * list Z) : Prop :=
    fst b = fst a /\ Permutation (snd a) (snd b) /\ sv (snd b) = Rabs (sv (snd a)).

  Lemma permute_rows_spec rs :
    wf_rows rs = true ->
    exists rs', permute_rows permute_tet rs (map (neg ROps) (map (fun r => sv (snd r)) rs)) = Some rs' /\
                Forall2 repaired rs rs' /\ wf_rows rs' = true.
  Proof.
    induction rs as [| [i c] rs IH]; intros W.
    - exists []. simpl. repeat split; constructor.
    - simpl in W. apply andb_prop in W. destruct W as [Wc Wr]. apply Nat.eqb_eq in Wc.
      destruct (IH Wr) as [rs' [P [F W']]]. cbn [permute_rows map snd fst]. rewrite P. unfold permute_row. cbn [snd fst].
      destruct (neg ROps (sv c)) eqn:N.
      + destruct (Hrow c Wc) as [c' [S [Pm Fl]]]. rewrite S. cbn [option_map].
        exists ((i, c') :: rs'). split; [reflexivity |]. split.
        * constructor; [| exact F]. split; [reflexivity |]. split; [exact Pm |]. simpl.
          apply neg_iff in N. rewrite Fl, Rabs_left; lra.
        * simpl. rewrite W'. rewrite <- (Permutation_length Pm), Wc. reflexivity.
      + exists ((i, c) :: rs'). split; [reflexivity |]. split.
        * constructor; [| exact F]. split; [reflexivity |]. split; [apply Permutation_refl |]. simpl.
          assert (~ sv c < 0) by (intro H; apply neg_iff in H; congruence). rewrite Rabs_right; lra.
        * simpl. rewrite W', Wc. reflexivity.
  Qed.

  Lemma repaired_refl_when_nonneg rs :
    existsb (fun b : bool => b) (map (neg ROps) (map (fun r => sv (snd r)) rs)) = false ->
    Forall2 repaired rs rs.
  Proof.
    induction rs as [| [i c] rs IH]; cbn [map existsb snd]; intros H; constructor.
    - apply orb_false_elim in H. destruct H as [N _]. split; [reflexivity |].
      split; [apply Permutation_refl |]. simpl.
      assert (~ sv c < 0) by (intro H; apply neg_iff in H; congruence). rewrite Rabs_right; lra.
    - apply IH. apply orb_false_elim in H. tauto.
  Qed.

  Lemma make_positive_spec o :
    Inv o ->
    fst (make_positive_obj ROps sv o) = Done /\
    Inv (snd (make_positive_obj ROps sv o)) /\
    Forall2 repaired (rows o) (rows (snd (make_positive_obj ROps sv o))).
  Proof.
    intros I. unfold make_positive_obj. rewrite positive_query_signed. simpl fst; simpl snd.
    destruct (q_metric_spec o false false I) as [A [I1 R1]].
    destruct (q_metric ROps sv o false false) as [r o1]. simpl in A, I1, R1. subst r.
    rewrite answer_of_validate. unfold validate. simpl andb. cbv iota.
    destruct (existsb (fun b : bool => b) (map (neg ROps) (map (fun r => sv (snd r)) (rows o)))) eqn:E; simpl negb; cbv iota.
    - destruct I1 as [W1 _]. rewrite R1 in *.
      destruct (permute_rows_spec (rows o) W1) as [rs' [P [F W']]]. rewrite P.
      pose proof positive_clears_slots as Cl. apply andb_prop in Cl. destruct Cl as [Cm Cv].
      rewrite ?Cm, ?Cv. simpl. split; [reflexivity |]. split; [| exact F].
      split; [exact W' | split; exact Logic.I].
    - simpl. split; [reflexivity |]. split; [exact I1 |]. rewrite R1.
      apply repaired_refl_when_nonneg. exact E.
  Qed.

  Lemma step_inv o a : Inv o -> wf_op a = true -> Inv (snd (step ROps sv o a)).
  Proof.
    intros I W. destruct a as [rz ab | mode rz ab |]; simpl.
    - apply (q_metric_spec o rz ab I).
    - apply (q_volume_spec o mode rz ab I). apply in_known. exact W.
    - apply (make_positive_spec o I).
  Qed.
  Lemma run_inv h : forall o, Inv o -> forallb wf_op h = true -> Inv (run ROps sv o h).
  Proof.
    induction h as [| a h IH]; intros o I W; simpl; [exact I |].
    simpl in W. apply andb_prop in W. destruct W as [Wa Wh].
    apply IH; [apply step_inv; assumption | exact Wh].
  Qed.

  Lemma repaired_nonneg rs rs' : Forall2 repaired rs rs' -> Forall (fun r => 0 <= sv (snd r)) rs'.
  Proof.
    induction 1; constructor; trivial. destruct H as [_ [_ ->]]. apply Rabs_pos.
  Qed.

  (* make_elements_positive after ANY history of queries / repairs on the same object *)
  Theorem positive_after_history rows0 h :
    wf_rows rows0 = true -> forallb wf_op h = true ->
    let o := run ROps sv (fresh rows0) h in
    let o' := snd (make_positive_obj ROps sv o) in
    fst (make_positive_obj ROps sv o) = Done /\
    Forall2 repaired (rows o) (rows o') /\
    Forall (fun r => 0 <= sv (snd r)) (rows o') /\
    (forall rz ab, fst (q_metric ROps sv o' rz ab) = answer_fresh ROps sv (rows o') rz ab) /\
    (forall mode rz ab, In mode known_modes ->
       fst (q_volume ROps sv o' mode rz ab) = answer_fresh ROps sv (rows o') rz ab).
  Proof.
    intros W Wh o o'. pose proof (run_inv h _ (fresh_inv _ W) Wh) as I. fold o in I.
    destruct (make_positive_spec o I) as [D [I' F]]. fold o' in I', F.
    split; [exact D |]. split; [exact F |]. split; [exact (repaired_nonneg _ _ F) |]. split.
    - intros rz ab. apply (q_metric_spec o' rz ab I').
    - intros mode rz ab Hm. apply (q_volume_spec o' mode rz ab I' Hm).
  Qed.

  (* every query of a history is answered like a fresh object with the current rows would *)
  Theorem queries_answer_fresh rows0 h a :
    wf_rows rows0 = true -> forallb wf_op h = true -> wf_op a = true ->
    let o := run ROps sv (fresh rows0) h in
    match a with
    | QMetric rz ab | QVolume _ rz ab => fst (step ROps sv o a) = answer_fresh ROps sv (rows o) rz ab
    | MakePositive => fst (step ROps sv o a) = Done
    end.
  Proof.
    intros W Wh Wa o. pose proof (run_inv h _ (fresh_inv _ W) Wh) as I. fold o in I.
    destruct a as [rz ab | mode rz ab |]; simpl.
    - apply (q_metric_spec o rz ab I).
    - apply (q_volume_spec o mode rz ab I). apply in_known. exact Wa.
    - apply (make_positive_spec o I).
  Qed.
End History.

(* ---- the signed volume of a tet row: the translated tet kernel on the coordinates of its nodes *)
Definition tet_sv (pt : Z -> v3 R) (c : list Z) : R :=
  match map pt c with
  | [p0; p1; p2; p3] => k_element_volumes_tet_like ROps p0 p1 p2 p3
  | _ => 0
  end.
Lemma tet_sv_row pt c : List.length c = 4%nat ->
  exists c', select c permute_tet = Some c' /\ Permutation c c' /\ tet_sv pt c' = - tet_sv pt c.
Proof.
  intros L. destruct c as [| c0 [| c1 [| c2 [| c3 [|]]]]]; try discriminate.
  destruct (permute_is_permutation c0 c1 c2 c3) as [c' [S P]]. exists c'.
  split; [exact S |]. split; [exact P |].
  pose proof (permute_flips (pt c0) (pt c1) (pt c2) (pt c3)) as F.
  vm_compute in S. injection S as <-. unfold tet_sv. cbn [map].
  cbv [select mapMo permute_tet nth_error option_map] in F. injection F as F. exact F.
Qed.

(* ---- non-vacuity and a look at the machine: a toy signed volume with the flip law,
   two rows (one inverted), the history "absolute metrics, repair, strict volumes" *)
Definition toy_sv (c : list Z) : Q :=
  match c with [_; b; c'; _] => inject_Z (b - c') | _ => 0%Q end.
Example slot_machine_runs :
  let rs := [(5%Z, [1;2;3;4]%Z); (3%Z, [1;3;2;4]%Z)] in
  wf_rows rs = true /\
  forallb wf_op [QMetric false true; MakePositive; QVolume "linear" true false] = true /\
  fst (trace QOps toy_sv (fresh rs) [QMetric false true; MakePositive; QVolume "linear" true false])
  = [Values [1%Q; 1%Q]; Done; Values [1%Q; 1%Q]] /\
  rows (snd (trace QOps toy_sv (fresh rs) [QMetric false true; MakePositive]))
  = [(5%Z, [1;3;2;4]%Z); (3%Z, [1;3;2;4]%Z)].
Proof. vm_compute. repeat split; reflexivity. Qed.
