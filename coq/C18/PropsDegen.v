(* C18 — resolve_degeneracy, global bookkeeping.  Statements only.  The collapse
   patterns (gen/Tables.v: collapsed columns, companion columns, prism node order,
   in the order in which the code appends the converted rows) are regenerated from
   /repo on every run; Model.resolve_degeneracy is the hand model of the control
   flow, compared exactly with the implementation's blocks on every run. *)
From Coq Require Import ZArith Reals List Bool Permutation Sorting.Sorted.
Import ListNotations.
From FV.C11 Require Import Model.
From FV.C18 Require Import Model ProofsIndex DegenSpec DegenProofs DegenMesh.
From FV.C18.gen Require Import Tables.
Set Default Timeout 240.

(* (a) a successful run, any hex / prism rows in any storage order:
   the hex block keeps exactly the rows no pattern applies to, in storage order
   and untouched; the prism block is the old prism rows plus, pattern by pattern,
   the rows that pattern converts, sorted by element id *)
Theorem C18_degeneracy_blocks : forall hexes prisms kept prisms',
  resolve_degeneracy degeneracy_patterns hexes prisms = Ok (kept, prisms') ->
  kept = filter (fun r => nondegenerate degeneracy_patterns (snd r)) hexes /\
  Permutation prisms' (prisms ++ flat_map (fun p => converted_by p hexes) degeneracy_patterns) /\
  StronglySorted (fun a b => (fst a <= fst b)%Z) prisms'.
Proof. intros hexes prisms kept prisms'. exact (resolve_ok_structure _ hexes prisms kept prisms'). Qed.
(* (b) ids are paired with rows pattern by pattern: a row (i, c') is contributed by
   pattern p exactly when the hex with id i shows p's collapsed pair and c' is its
   connectivity in p's prism node order (with C18_degenerate_hex_is_prism /
   C18_degenerate_same_nodes: same node set, same volume) *)
Theorem C18_degeneracy_id_row_pairing : forall p hexes i c',
  In (i, c') (converted_by p hexes) <->
  exists c, In (i, c) hexes /\ matches p c = Some true /\ reorder (snd (snd p)) c = Some c'.
Proof. exact converted_by_spec. Qed.
(* (c) no element id is lost or duplicated: for 8-node hex rows each showing at most one
   of the translated patterns, the ids of the result are a permutation of the ids of
   the source (hex + prism blocks) *)
Theorem C18_degeneracy_ids_conserved : forall hexes prisms kept prisms',
  wf_hex_rows hexes = true -> single_pattern degeneracy_patterns hexes = true ->
  resolve_degeneracy degeneracy_patterns hexes prisms = Ok (kept, prisms') ->
  Permutation (map fst hexes ++ map fst prisms) (map fst kept ++ map fst prisms').
Proof.
  intros hexes prisms kept prisms'.
  exact (resolve_ids_conserved _ hexes prisms kept prisms' translated_patterns_wf).
Qed.
(* (d) the only failure on 8-node rows is "Unknown degeneracy pattern", and it names a hex
   whose collapsed pair comes without its companion pair *)
Theorem C18_degeneracy_failure : forall hexes prisms,
  wf_hex_rows hexes = true ->
  resolve_degeneracy degeneracy_patterns hexes prisms <> Malformed /\
  (resolve_degeneracy degeneracy_patterns hexes prisms = UnknownPattern ->
   exists p r, In p degeneracy_patterns /\ In r hexes /\ companion_ok p (snd r) = Some false).
Proof.
  intros hexes prisms W. split.
  - exact (resolve_never_malformed _ hexes prisms translated_patterns_wf W).
  - exact (resolve_unknown_pattern _ hexes prisms).
Qed.
(* (e) the whole operation, all node coordinates (pt), 8-node hex rows and prism rows in any
   storage order with any ids: the hex block keeps exactly the hexes without a collapsed
   edge, untouched; every old prism row is still there; every other row of the prism block
   is the prism of a degenerate hex of the source: same id, same node set, six nodes, same
   centroid-mode volume (translated hex / prism kernels); every degenerate hex got one.
   Non-vacuity: DegenProofs.degeneracy_bookkeeping_example. *)
Theorem C18_degeneracy_mesh : forall (pt : Z -> v3 R) hexes prisms kept prisms',
  wf_hex_rows hexes = true ->
  resolve_degeneracy degeneracy_patterns hexes prisms = Ok (kept, prisms') ->
  kept = filter (fun r => nondegenerate degeneracy_patterns (snd r)) hexes /\
  (forall r, In r prisms -> In r prisms') /\
  (forall i c', In (i, c') prisms' ->
     In (i, c') prisms \/
     exists c, In (i, c) hexes /\ nondegenerate degeneracy_patterns c = false /\
               (forall x, In x c' <-> In x c) /\ List.length c' = 6%nat /\
               exists v, hex_row_volume pt c = Some v /\ prism_row_volume pt c' = Some v) /\
  (forall i c, In (i, c) hexes -> nondegenerate degeneracy_patterns c = false ->
     exists c', In (i, c') prisms').
Proof. exact resolve_degeneracy_mesh. Qed.
