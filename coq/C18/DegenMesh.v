(* C18 — resolve_degeneracy at the level of the mesh: every element of the result is
   either an element of the source, untouched, or the prism of a degenerate hex of the
   source with that hex's id, node set and (centroid-mode) volume, for all node
   coordinates.  Combines the bookkeeping (DegenProofs.v) with the per-pattern
   geometry (Proofs.v). *)
From Coq Require Import ZArith Reals List Bool Lia Permutation.
Import ListNotations.
From FV.C11 Require Import Model.
From FV.C11.gen Require Import Kernels.
From FV.C18 Require Import Model Proofs ProofsIndex DegenSpec DegenProofs.
From FV.C18.gen Require Import Tables.
Set Default Timeout 120.

(* centroid-mode volume of a hex / prism row under the coordinates pt *)
Definition hex_row_volume (pt : Z -> v3 R) (c : list Z) : option R :=
  match map pt c with
  | [p0; p1; p2; p3; p4; p5; p6; p7] => Some (k_element_volumes_hex_centroid ROps p0 p1 p2 p3 p4 p5 p6 p7)
  | _ => None
  end.
Definition prism_row_volume (pt : Z -> v3 R) (c : list Z) : option R :=
  prism6 (k_element_volumes_prism_centroid ROps) (map pt c).

Lemma all_true_forall l : all_true l = Some true -> forall x, In x l -> x = Some true.
Proof.
  induction l as [| y l IH]; simpl; intros H x Hx; [contradiction |].
  destruct y as [[|] |]; destruct (all_true l) as [[|] |]; simpl in H; try discriminate.
  destruct Hx as [<- | Hx]; [reflexivity | apply IH; trivial].
Qed.
Lemma resolve_ok_companions pats hexes prisms res :
  resolve_degeneracy pats hexes prisms = Ok res ->
  forall p r, In p pats -> In r hexes -> companion_ok p (snd r) = Some true.
Proof.
  unfold resolve_degeneracy. destruct (all_true _) as [[|] |] eqn:E; try discriminate.
  intros _ p r Hp Hr. apply (all_true_forall _ E). apply in_flat_map. exists p. split; [exact Hp |].
  apply in_map_iff. exists r. auto.
Qed.
Lemma cols_equal_true c ab : cols_equal c ab = Some true -> nth_error c (fst ab) = nth_error c (snd ab).
Proof.
  unfold cols_equal, nth_Z. destruct (nth_error c (fst ab)) as [x |]; [| discriminate].
  destruct (nth_error c (snd ab)) as [y |]; [| discriminate].
  intros H. injection H as H. apply Z.eqb_eq in H. congruence.
Qed.
Lemma matched_is_collapsed (p : pattern) (c : list Z) :
  matches p c = Some true -> companion_ok p c = Some true -> collapsed p c.
Proof.
  unfold matches, companion_ok. intros M. rewrite M.
  destruct (cols_equal c (fst (snd p))) as [[|] |] eqn:C; try discriminate. intros _.
  split; apply cols_equal_true; assumption.
Qed.
Lemma collapsed_map {A B} (f : A -> B) (p : pattern) (c : list A) : collapsed p c -> collapsed p (map f c).
Proof. unfold collapsed. rewrite !nth_error_map. intros [-> ->]. auto. Qed.
Lemma select_map {A B} (f : A -> B) (c : list A) idx :
  select (map f c) idx = option_map (map f) (select c idx).
Proof.
  unfold select. induction idx as [| k idx IH]; simpl; [reflexivity |].
  rewrite nth_error_map, IH. destruct (nth_error c k); simpl; [| reflexivity].
  destruct (mapMo (nth_error c) idx); reflexivity.
Qed.

(* one converted row *)
Lemma converted_row_is_its_hex (pt : Z -> v3 R) p c c' :
  In p degeneracy_patterns -> List.length c = 8%nat -> collapsed p c -> reorder (snd (snd p)) c = Some c' ->
  (forall x, In x c' <-> In x c) /\ List.length c' = 6%nat /\
  exists v, hex_row_volume pt c = Some v /\ prism_row_volume pt c' = Some v.
Proof.
  intros Hp L Hc R.
  destruct c as [| c0 [| c1 [| c2 [| c3 [| c4 [| c5 [| c6 [| c7 [|]]]]]]]]]; try discriminate.
  destruct (degenerate_same_nodes p Hp c0 c1 c2 c3 c4 c5 c6 c7 Hc) as [c'' [S N]].
  unfold reorder in R. rewrite S in R. injection R as ->. split; [exact N |].
  pose proof (degenerate_hex_is_prism_centroid p Hp (pt c0) (pt c1) (pt c2) (pt c3) (pt c4) (pt c5) (pt c6) (pt c7)
                (collapsed_map pt p _ Hc)) as V.
  change [pt c0; pt c1; pt c2; pt c3; pt c4; pt c5; pt c6; pt c7]
    with (map pt [c0; c1; c2; c3; c4; c5; c6; c7]) in V.
  rewrite select_map, S in V. simpl option_map in V. injection V as V.
  split.
  - unfold prism6 in V. remember (map pt c') as q eqn:Q.
    destruct q as [| q0 [| q1 [| q2 [| q3 [| q4 [| q5 [|]]]]]]]; try discriminate.
    apply (f_equal (@List.length _)) in Q. rewrite map_length in Q. simpl in Q. congruence.
  - eexists. split; [reflexivity | exact V].
Qed.

(* the whole operation *)
Theorem resolve_degeneracy_mesh (pt : Z -> v3 R) hexes prisms kept prisms' :
  wf_hex_rows hexes = true ->
  resolve_degeneracy degeneracy_patterns hexes prisms = Ok (kept, prisms') ->
  (* hex block: exactly the hexes without a collapsed edge, untouched, in storage order *)
  kept = filter (fun r => nondegenerate degeneracy_patterns (snd r)) hexes /\
  (* prism block: old prism rows, untouched, and the prisms of the degenerate hexes *)
  (forall r, In r prisms -> In r prisms') /\
  (forall i c', In (i, c') prisms' ->
     In (i, c') prisms \/
     exists c, In (i, c) hexes /\ nondegenerate degeneracy_patterns c = false /\
               (forall x, In x c' <-> In x c) /\ List.length c' = 6%nat /\
               exists v, hex_row_volume pt c = Some v /\ prism_row_volume pt c' = Some v) /\
  (* every degenerate hex becomes a prism row with its id *)
  (forall i c, In (i, c) hexes -> nondegenerate degeneracy_patterns c = false ->
     exists c', In (i, c') prisms').
Proof.
  intros W H. destruct (resolve_ok_structure _ _ _ _ _ H) as [K [P _]].
  pose proof (resolve_ok_companions _ _ _ _ H) as Comp.
  pose proof translated_patterns_wf as WP.
  unfold wf_hex_rows in W. rewrite forallb_forall in W.
  split; [exact K |]. split; [| split].
  - intros r Hr. apply (Permutation_in _ (Permutation_sym P)). apply in_or_app. left. exact Hr.
  - intros i c' Hin. apply (Permutation_in _ P) in Hin. apply in_app_or in Hin.
    destruct Hin as [Hin | Hin]; [left; exact Hin | right].
    apply in_flat_map in Hin. destruct Hin as [p [Hp Hin]].
    apply converted_by_spec in Hin. destruct Hin as [c [Hc [M R]]].
    pose proof (W _ Hc) as L. apply Nat.eqb_eq in L. simpl in L.
    exists c. split; [exact Hc |]. split.
    + rewrite (nondegenerate_count _ c WP L). unfold count_matching.
      assert (In p (filter (fun q => matches_b q c) degeneracy_patterns)).
      { apply filter_In. split; [exact Hp |]. unfold matches_b. rewrite M. reflexivity. }
      destruct (filter (fun q => matches_b q c) degeneracy_patterns); [contradiction | reflexivity].
    + apply (converted_row_is_its_hex pt p c c' Hp L); [| exact R].
      apply matched_is_collapsed; [exact M | exact (Comp p (i, c) Hp Hc)].
  - intros i c Hc ND. pose proof (W _ Hc) as L. apply Nat.eqb_eq in L. simpl in L.
    rewrite (nondegenerate_count _ c WP L) in ND. unfold count_matching in ND.
    destruct (filter (fun q => matches_b q c) degeneracy_patterns) as [| p fl] eqn:F; [discriminate |].
    assert (Hp : In p (filter (fun q => matches_b q c) degeneracy_patterns)) by (rewrite F; left; reflexivity).
    apply filter_In in Hp. destruct Hp as [Hp Mb]. unfold matches_b in Mb.
    destruct (matches p c) as [[|] |] eqn:M; try discriminate.
    rewrite forallb_forall in WP. destruct (wf_pattern_parts p (WP p Hp)) as [_ [_ Wperm]].
    destruct (select_total c (snd (snd p)) L Wperm) as [c' S].
    exists c'. apply (Permutation_in _ (Permutation_sym P)). apply in_or_app. right.
    apply in_flat_map. exists p. split; [exact Hp |]. apply converted_by_spec. exists c. auto.
Qed.
