(* C18 — argsort[searchsorted(sort ids, x)] is the storage position of x
   (for distinct ids); the sorted rank alone is not. *)
From Coq Require Import ZArith List Lia Permutation Sorting.Sorted Bool.
From FV.C11 Require Import Model.
From FV.C18 Require Import Model.
Import ListNotations.
(* no sentence of this file may hold the shared Coq build lock for long *)
Set Default Timeout 240.

Lemma filter_lt_nil (x : Z) (l : list Z) :
  Forall (fun y => (x <= y)%Z) l -> filter (fun y => Z.ltb y x) l = [].
Proof.
  induction 1 as [| y tl Hy _ IH]; simpl; [reflexivity |].
  destruct (Z.ltb_spec y x); [lia | exact IH].
Qed.

Section Sort.
  Variable A : Type.
  Implicit Types (l : list (Z * A)).
  Definition le_fst (a b : Z * A) : Prop := (fst a <= fst b)%Z.

  Lemma insert_perm x l : Permutation (insert_by_id x l) (x :: l).
  Proof.
    induction l as [| y tl IH]; simpl; [reflexivity |].
    destruct (Z.leb (fst y) (fst x)); [| reflexivity].
    rewrite IH. apply perm_swap.
  Qed.
  Lemma sort_perm l : Permutation (sort_by_id l) l.
  Proof.
    induction l as [| x tl IH]; simpl; [reflexivity |].
    unfold sort_by_id in *. simpl. rewrite insert_perm. now apply perm_skip.
  Qed.
  Lemma insert_sorted x l : StronglySorted le_fst l -> StronglySorted le_fst (insert_by_id x l).
  Proof.
    induction l as [| y tl IH]; simpl; intros Hs.
    - constructor; [constructor | constructor].
    - inversion Hs as [| ? ? Hs' Hall]; subst.
      destruct (Z.leb_spec (fst y) (fst x)) as [Hle | Hgt].
      + constructor; [now apply IH |].
        apply Forall_forall. intros z Hz.
        apply (Permutation_in _ (insert_perm x tl)) in Hz. destruct Hz as [<- | Hz].
        * exact Hle.
        * rewrite Forall_forall in Hall. now apply Hall.
      + constructor; [exact Hs |].
        constructor; [unfold le_fst; lia |].
        rewrite Forall_forall in *. intros z Hz. specialize (Hall z Hz). unfold le_fst in *. lia.
  Qed.
  Lemma sort_sorted l : StronglySorted le_fst (sort_by_id l).
  Proof.
    induction l as [| x tl IH]; unfold sort_by_id in *; simpl; [constructor |].
    now apply insert_sorted.
  Qed.

  (* rank of x in a list sorted by distinct keys selects the entry with key x *)
  Lemma rank_selects (s : list (Z * A)) x k :
    StronglySorted le_fst s -> NoDup (map fst s) -> In (x, k) s ->
    nth_error (map snd s) (searchsorted (map fst s) x) = Some k.
  Proof.
    induction s as [| [a ka] tl IH]; simpl; intros Hs Hnd Hin; [contradiction |].
    inversion Hs as [| ? ? Hs' Hall]; subst. inversion Hnd as [| ? ? Hnotin Hnd']; subst.
    unfold searchsorted. simpl.
    destruct Hin as [E | Hin].
    - inversion E; subst. rewrite Z.ltb_irrefl.
      assert (H0 : filter (fun y => Z.ltb y x) (map fst tl) = []).
      { apply filter_lt_nil. rewrite Forall_forall in *. intros y Hy.
        apply in_map_iff in Hy. destruct Hy as [z [<- Hz]]. apply (Hall z Hz). }
      rewrite H0. reflexivity.
    - assert (Hlt : (a < x)%Z).
      { rewrite Forall_forall in Hall. specialize (Hall _ Hin). unfold le_fst in Hall. simpl in Hall.
        assert (a <> x). { intros ->. apply Hnotin. change x with (fst (x, k)). now apply in_map. }
        lia. }
      apply Z.ltb_lt in Hlt. rewrite Hlt. simpl.
      apply (IH Hs' Hnd' Hin).
  Qed.
End Sort.

Lemma combine_seq_fst (ids : list Z) off : map fst (combine ids (seq off (length ids))) = ids.
Proof.
  revert off. induction ids as [| y tl IH]; intros off; simpl; [reflexivity |]. now rewrite IH.
Qed.
Lemma index_of_combine (ids : list Z) x k off :
  index_of x ids = Some k -> In (x, (off + k)%nat) (combine ids (seq off (length ids))).
Proof.
  revert k off. induction ids as [| y tl IH]; intros k off; simpl; [discriminate |].
  destruct (Z.eqb_spec x y) as [-> | Hne].
  - intros [= <-]. left. f_equal. lia.
  - destruct (index_of x tl) as [k' |] eqn:E; simpl; [| discriminate].
    intros [= <-]. right. replace (off + S k')%nat with (S off + k')%nat by lia. now apply IH.
Qed.
Lemma index_of_In (ids : list Z) x : In x ids -> exists k, index_of x ids = Some k.
Proof.
  induction ids as [| y tl IH]; simpl; [contradiction |].
  destruct (Z.eqb_spec x y) as [-> | Hne]; [eexists; reflexivity |].
  intros [E | H]; [congruence |]. destruct (IH H) as [k ->]. eexists; reflexivity.
Qed.

(* the translation used by tet/hex/prism_to_polyhedron is the storage position *)
Theorem poly_index_translation (ids : list Z) (x : Z) :
  NoDup ids -> In x ids -> position true ids x = index_of x ids.
Proof.
  intros Hnd Hin. destruct (index_of_In ids x Hin) as [k Hk]. rewrite Hk.
  unfold position, argsort, sorted_ids.
  apply (rank_selects nat (sort_by_id (indexed ids)) x k).
  - apply sort_sorted.
  - eapply Permutation_NoDup; [apply Permutation_map, Permutation_sym, sort_perm |].
    unfold indexed. now rewrite combine_seq_fst.
  - eapply Permutation_in; [apply Permutation_sym, sort_perm |].
    unfold indexed. apply (index_of_combine ids x k 0). exact Hk.
Qed.
(* the sorted rank alone (pyr_to_polyhedron on the unchanged tree) is NOT *)
Theorem rank_is_not_position :
  exists (ids : list Z) (x : Z), NoDup ids /\ In x ids /\ position false ids x <> index_of x ids.
Proof.
  exists [2%Z; 1%Z], 2%Z. split; [| split].
  - repeat constructor; simpl; intuition discriminate.
  - now left.
  - vm_compute. discriminate.
Qed.
(* ... and it is when the ids are stored in ascending order *)

(* an id -> index dictionary built from one storage order is not the position in
   another order of the same ids (resolve_degeneracy re-sorts the element table by
   id after FEMData.__init__ built dict_element_id2index) *)
Theorem stale_id_index_refuted :
  exists (old new : list Z) (e : Z),
    NoDup old /\ Permutation old new /\ In e new /\ index_of e old <> index_of e new.
Proof.
  exists [30%Z; 10%Z; 20%Z], [10%Z; 20%Z; 30%Z], 10%Z. repeat split.
  - repeat constructor; simpl; intuition discriminate.
  - apply perm_trans with (l' := [10%Z; 30%Z; 20%Z]); [apply perm_swap | apply perm_skip, perm_swap].
  - now left.
  - vm_compute. discriminate.
Qed.
