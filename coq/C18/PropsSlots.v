(* C18 — statements about make_elements_positive on one object with a history of
   queries (memo slots).  Statements only.  gen/Slots.v (the decision of
   _slot_answers, option tuples, what make_elements_positive asks and removes),
   gen/Tables.v (tet permutation) and FV.C11.gen.Kernels (tet volume kernel) are
   regenerated from /repo on every run. *)
From Coq Require Import ZArith Reals List String Permutation.
Import ListNotations.
From FV.C11 Require Import Model Entry.
From FV.C11.gen Require Import Kernels.
From FV.C18 Require Import Model SlotBase SlotModel SlotProofs.
From FV.C18.gen Require Import Tables Slots.
Open Scope R_scope.
Set Default Timeout 240.

(* ---- make_elements_positive on ONE object after ANY history (SlotModel.v).
   The object stores 'metric' / 'volume' entries with the options they were
   computed with; _slot_answers (translated: gen/Slots.v) decides whether a
   stored entry answers a request.
   (a) the translated decision lets a stored entry answer exactly requests for
       which that is sound for every list of signed values (finite domain of
       option tuples, vm_compute), and `sound_pair` is the exact criterion; *)
Theorem C18_slot_answers_sound :
  slot_answers_sound = true /\
  (forall sr sa rr ra (x v : list R), sound_pair (sr, sa) (rr, ra) = true ->
     validate ROps sr sa x = Some v -> validate ROps rr ra v = validate ROps rr ra x) /\
  (forall sr sa rr ra, sound_pair (sr, sa) (rr, ra) = false ->
     exists x v : list R, validate ROps sr sa x = Some v /\
                          validate ROps rr ra v <> validate ROps rr ra x).
Proof.
  split; [exact answers_sound |]. split; [exact sound_pair_correct | exact sound_pair_complete].
Qed.
(* (b) for all node coordinates (pt), all tet rows, all histories of metric /
       volume queries (any options; modes among known_modes) and earlier
       repairs on the same object: make_elements_positive returns normally,
       every row keeps its id and node set (a permutation of its nodes), its
       volume becomes the absolute value of what it was, hence non-negative,
       and whatever is asked of the object afterwards is answered as a fresh
       evaluation of the repaired rows would be *)
Theorem C18_positive_after_any_history : forall (pt : Z -> v3 R) rows0 h,
  wf_rows rows0 = true -> forallb wf_op h = true ->
  let sv := tet_sv pt in
  let o := run ROps sv (fresh rows0) h in
  let o' := snd (make_positive_obj ROps sv o) in
  fst (make_positive_obj ROps sv o) = Done /\
  Forall2 (fun a b => fst b = fst a /\ Permutation (snd a) (snd b) /\ sv (snd b) = Rabs (sv (snd a)))
          (rows o) (rows o') /\
  Forall (fun r => 0 <= sv (snd r)) (rows o') /\
  (forall rz ab, fst (q_metric ROps sv o' rz ab) = answer_fresh ROps sv (rows o') rz ab) /\
  (forall mode rz ab, In mode known_modes ->
     fst (q_volume ROps sv o' mode rz ab) = answer_fresh ROps sv (rows o') rz ab).
Proof. intros pt rows0 h W Wh. exact (positive_after_history (tet_sv pt) (tet_sv_row pt) rows0 h W Wh). Qed.
(* (c) every query in a history is answered as an object without stored entries would *)
Theorem C18_queries_answer_fresh : forall (pt : Z -> v3 R) rows0 h a,
  wf_rows rows0 = true -> forallb wf_op h = true -> wf_op a = true ->
  let sv := tet_sv pt in
  let o := run ROps sv (fresh rows0) h in
  match a with
  | QMetric rz ab | QVolume _ rz ab => fst (step ROps sv o a) = answer_fresh ROps sv (rows o) rz ab
  | MakePositive => fst (step ROps sv o a) = Done
  end.
Proof. intros pt rows0 h a. exact (queries_answer_fresh (tet_sv pt) (tet_sv_row pt) rows0 h a). Qed.
