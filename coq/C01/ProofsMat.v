(* C01 proofs: the material table of the .msh (!MATERIAL / !ITEM blocks written
   by write_material) survives the text round trip, and its blocks are
   invisible to the readers of nodes / elements / groups / sections / initial
   conditions. *)
From Coq Require Import String Ascii List Bool ZArith Lia.
From FV.C01 Require Import Str Dec Model ProofsLines ProofsHeaders ProofsText ProofsFmt ProofsSplit Materials.
From FV.C01.gen Require Import Tables.
Import ListNotations.
Local Open Scope string_scope.

(* a material the writer can emit and the reader recovers: a \w+ name, at least one value, every
   value a decimal datum (any number of fractional digits) *)
Definition wf_material (x : material) : bool :=
  wordy (fst x) && negb (is_nil (snd x)) && forallb wf_dec_free (snd x).

Definition mat_header (x : material) : string := "!MATERIAL,NAME=" ++ fst x ++ ",ITEM=1".
Definition item_header : string := "!ITEM=1,SUBITEM=2".
Definition mat_row (x : material) : string := join "," (map print_dec (snd x)).

Definition mat_blocks (ms : list material) : list block :=
  flat_map (fun x => [(mat_header x, []); (item_header, [mat_row x])]) ms.

Lemma mat_lines_flatten ms : mat_lines ms = flatten (mat_blocks ms).
Proof.
  unfold flatten. induction ms as [|x ms IH]; [reflexivity|].
  cbn [mat_lines flat_map mat_blocks app map concat fst snd] in *.
  unfold mat_lines in IH. rewrite IH. reflexivity.
Qed.

Lemma flatten_app a b : flatten (a ++ b) = (flatten a ++ flatten b)%list.
Proof. unfold flatten. now rewrite map_app, concat_app. Qed.

(* ------------------------------------------------------------------ *)
(* where the material lines are inserted                              *)
Definition stop_line (l : string) : bool := starts "!INITIAL" l || String.eqb l "!END".

Lemma insert_app ml a b :
  (forall l, In l a -> stop_line l = false) ->
  match b with l :: _ => stop_line l = true | [] => True end ->
  insert_materials ml (a ++ b) = (a ++ ml ++ b)%list.
Proof.
  intros Ha Hb. induction a as [|l a IH]; cbn [app].
  - destruct b as [|l r]; cbn [insert_materials]; [now rewrite app_nil_r|].
    unfold stop_line in Hb. now rewrite Hb.
  - cbn [insert_materials]. pose proof (Ha l (or_introl eq_refl)) as Hl. unfold stop_line in Hl.
    rewrite Hl, IH by (intros; apply Ha; now right). reflexivity.
Qed.

Lemma row_not_stop r : is_header r = false -> stop_line r = false.
Proof.
  unfold is_header, stop_line. destruct r as [|a r]; [reflexivity|].
  cbn [starts]. destruct (Ascii.eqb_spec "!" a) as [<-|Hn]; [discriminate|]. intros _.
  cbn [andb orb]. destruct (String.eqb_spec (String a r) "!END") as [E|]; [|reflexivity].
  injection E as -> _. congruence.
Qed.

Definition early_kind (k : hkind) : bool :=
  match k with KInit | KEnd => false | _ => true end.

Lemma early_not_stop k : early_kind k = true -> stop_line (header k) = false.
Proof.
  rewrite header_htail. destruct k as [| | c | [|] n | ty g m | |]; try discriminate; reflexivity.
Qed.

Lemma flatten_no_stop kbs :
  (forall kb, In kb kbs -> early_kind (fst kb) = true /\ kb_good kb) ->
  forall l, In l (flatten (map block_of kbs)) -> stop_line l = false.
Proof.
  intros H l Hl. apply In_flatten in Hl as (b & Hb & Hl).
  apply in_map_iff in Hb as (kb & <- & Hkb). destruct (H kb Hkb) as [He [_ Hr]].
  unfold block_of in Hl. cbn [fst snd] in Hl. destruct Hl as [->|Hl].
  - now apply early_not_stop.
  - apply row_not_stop. now apply Hr.
Qed.

(* ------------------------------------------------------------------ *)
(* the material blocks are good blocks                                *)
Lemma wordy_nobang s : wordy s = true -> has_char "!" s = false.
Proof. intros H. eapply hchars_no; [apply hchar_not_bang|now apply wordy_hchars]. Qed.

Lemma mat_header_tail (x : material) :
  mat_header x = String "!" ("MATERIAL,NAME=" ++ fst x ++ ",ITEM=1").
Proof. reflexivity. Qed.

Lemma mat_tail_hchars (x : material) :
  wordy (fst x) = true -> all_chars hchar ("MATERIAL,NAME=" ++ fst x ++ ",ITEM=1") = true.
Proof. intros H. rewrite !all_chars_app, (wordy_hchars _ H). reflexivity. Qed.

Lemma mat_header_safe (x : material) : wordy (fst x) = true -> safe_line (mat_header x) = true.
Proof.
  intros H. rewrite mat_header_tail. unfold safe_line.
  pose proof (hchars_no "!" _ hchar_not_bang (mat_tail_hchars x H)) as Nb.
  pose proof (hchars_no "#" _ hchar_not_hash (mat_tail_hchars x H)) as Nh.
  cbn [has_char]. rewrite Nh. rewrite contains_bang by assumption. reflexivity.
Qed.

Lemma mat_row_good (x : material) :
  wf_material x = true -> is_header (mat_row x) = false /\ safe_line (mat_row x) = true.
Proof.
  unfold wf_material. rewrite !andb_true_iff. intros [[_ Hn] _]. unfold mat_row.
  destruct (snd x) as [|d ds]; [discriminate|]. cbn [map].
  apply row_good; [apply print_dec_nonempty|].
  intros y [<-|Hy]; [apply print_dec_clean|].
  apply in_map_iff in Hy as (d' & <- & _). apply print_dec_clean.
Qed.

Lemma mat_blocks_good ms :
  forallb wf_material ms = true -> forall b, In b (mat_blocks ms) -> good_block b.
Proof.
  intros H b Hb. unfold mat_blocks in Hb. apply in_flat_map in Hb as (x & Hx & Hb).
  rewrite forallb_forall in H. pose proof (H x Hx) as Wx.
  assert (Hw : wordy (fst x) = true).
  { unfold wf_material in Wx. rewrite !andb_true_iff in Wx. tauto. }
  destruct Hb as [<-|[<-|[]]]; unfold good_block; cbn [fst snd].
  - split; [reflexivity|]. split; [now apply mat_header_safe|intros r []].
  - split; [reflexivity|]. split; [reflexivity|]. intros r [<-|[]]. now apply mat_row_good.
Qed.

(* ------------------------------------------------------------------ *)
(* parsed blocks                                                      *)
Definition pbk (b : block) : pblock := (fst b, map fields (snd b)).

Lemma pb_pbk kbs : map pb kbs = map pbk (map block_of kbs).
Proof. now rewrite map_map. Qed.

(* no reader key selects a material block *)
Lemma key_not_material r (x : material) :
  wordy (fst x) = true -> contains (key_str r) (mat_header x) = false.
Proof.
  intros H. rewrite mat_header_tail. unfold key_str.
  rewrite contains_bang by (eapply hchars_no; [apply hchar_not_bang|now apply mat_tail_hchars]).
  destruct r; reflexivity.
Qed.

Lemma key_not_item r : contains (key_str r) item_header = false.
Proof. destruct r; reflexivity. Qed.

Lemma selected_mat r ms :
  forallb wf_material ms = true -> selected (key_str r) (map pbk (mat_blocks ms)) = [].
Proof.
  intros H. apply selected_none. intros b Hb.
  apply in_map_iff in Hb as (b0 & <- & Hb0). unfold mat_blocks in Hb0.
  apply in_flat_map in Hb0 as (x & Hx & Hb0).
  rewrite forallb_forall in H. pose proof (H x Hx) as Wx.
  assert (Hw : wordy (fst x) = true).
  { unfold wf_material in Wx. rewrite !andb_true_iff in Wx. tauto. }
  destruct Hb0 as [<-|[<-|[]]]; cbn [pbk fst].
  - now apply key_not_material.
  - apply key_not_item.
Qed.

(* the reader of the mesh depends on the blocks only through the five selections *)
Lemma read_blocks_ext bs bs' :
  (forall r, selected (key_str r) bs = selected (key_str r) bs') ->
  read_blocks bs = read_blocks bs'.
Proof.
  intros H.
  pose proof (H RNode) as HN. pose proof (H RElem) as HE. pose proof (H RGroup) as HG.
  pose proof (H RSect) as HS. pose proof (H RInit) as HI.
  unfold key_str, ktail in HN, HE, HG, HS, HI.
  unfold read_blocks, read_nodes, read_elements, read_egroups, read_sections, read_initial,
    extract_data, extract_blocks, extract_headers.
  rewrite HN, HE, HG, HS, HI. reflexivity.
Qed.

(* ------------------------------------------------------------------ *)
(* the reader of the materials                                        *)
Lemma starts_kind_material k : starts "MATERIAL" (htail k) = false.
Proof. destruct k as [| | c | [|] n | ty g m | |]; reflexivity. Qed.

Lemma material_not_kind k : kind_ok k = true -> contains "!MATERIAL" (header k) = false.
Proof.
  intros H. rewrite header_htail. rewrite contains_bang by now apply htail_nobang.
  apply starts_kind_material.
Qed.

Lemma selected_material_kbs kbs :
  (forall kb, In kb kbs -> kind_ok (fst kb) = true) -> selected "!MATERIAL" (map pb kbs) = [].
Proof.
  intros H. apply selected_none. intros b Hb. apply in_map_iff in Hb as (kb & <- & Hkb).
  cbn [pb fst]. apply material_not_kind, H, Hkb.
Qed.

Lemma selected_material_mat ms :
  selected "!MATERIAL" (map pbk (mat_blocks ms)) = map (fun x => (mat_header x, [])) ms.
Proof.
  induction ms as [|x ms IH]; [reflexivity|].
  cbn [mat_blocks flat_map app map]. unfold selected in *. cbn [filter pbk fst snd map].
  assert (E1 : contains "!MATERIAL" (mat_header x) = true) by (apply starts_contains; reflexivity).
  assert (E2 : contains "!MATERIAL" item_header = false) by reflexivity.
  rewrite E1, E2. f_equal. apply IH.
Qed.

Lemma capture_name (x : material) : wordy (fst x) = true -> capture "NAME=" (mat_header x) = Some (fst x).
Proof.
  intros H. change (mat_header x) with ("!MATERIAL," ++ "NAME=" ++ fst x ++ ",ITEM=1").
  rewrite capture_skip_concrete by reflexivity. now apply capture_hit.
Qed.

Lemma capture_item (x : material) : wordy (fst x) = true -> capture "ITEM=" (mat_header x) = Some "1".
Proof.
  intros H. change (mat_header x) with ("!MATERIAL,NAME=" ++ fst x ++ String "," "ITEM=1").
  change "ITEM=" with ("ITEM" ++ String "=" "").
  rewrite capture_skip_word; try reflexivity. now apply wordy_words.
Qed.

(* the regex !ITEM\s*=\s*1 needs a '!' *)
Lemma has_item1_nobang s : has_char "!" s = false -> has_item1 s = false.
Proof.
  induction s as [|a s IH]; [reflexivity|]. cbn [has_char]. rewrite orb_false_iff. intros [Ha Hs].
  cbn [has_item1]. rewrite (IH Hs), orb_false_r. unfold item1_here. cbn [strip_prefix].
  rewrite Ascii.eqb_sym, Ha. reflexivity.
Qed.

Lemma has_item1_bang t :
  has_char "!" t = false -> has_item1 (String "!" t) = item1_here (String "!" t).
Proof. intros H. cbn [has_item1]. now rewrite (has_item1_nobang _ H), orb_false_r. Qed.

Lemma item1_kind k : kind_ok k = true -> has_item1 (header k) = false.
Proof.
  intros H. rewrite header_htail. rewrite has_item1_bang by now apply htail_nobang.
  destruct k as [| | c | [|] n | ty g m | |]; reflexivity.
Qed.

Lemma item1_mat_header (x : material) : wordy (fst x) = true -> has_item1 (mat_header x) = false.
Proof.
  intros H. rewrite mat_header_tail.
  rewrite has_item1_bang by (eapply hchars_no; [apply hchar_not_bang|now apply mat_tail_hchars]).
  reflexivity.
Qed.

Lemma item_blocks_kbs kbs :
  (forall kb, In kb kbs -> kind_ok (fst kb) = true) ->
  filter (fun b : pblock => has_item1 (fst b)) (map pb kbs) = [].
Proof.
  intros H. apply filter_none. intros b Hb. apply in_map_iff in Hb as (kb & <- & Hkb).
  cbn [pb fst]. apply item1_kind, H, Hkb.
Qed.

Lemma item_blocks_mat ms :
  forallb wf_material ms = true ->
  filter (fun b : pblock => has_item1 (fst b)) (map pbk (mat_blocks ms))
  = map (fun x => (item_header, [fields (mat_row x)])) ms.
Proof.
  induction ms as [|x ms IH]; [reflexivity|]. cbn [forallb]. rewrite andb_true_iff. intros [Wx Wm].
  assert (Hw : wordy (fst x) = true).
  { unfold wf_material in Wx. rewrite !andb_true_iff in Wx. tauto. }
  cbn [mat_blocks flat_map app map filter pbk fst snd].
  rewrite (item1_mat_header x Hw).
  assert (E : has_item1 item_header = true) by reflexivity. rewrite E.
  f_equal. now apply IH.
Qed.

Lemma fields_mat_row (x : material) :
  wf_material x = true -> fields (mat_row x) = map print_dec (snd x).
Proof.
  unfold wf_material. rewrite !andb_true_iff. intros [[_ Hn] _]. unfold mat_row.
  apply fields_join.
  - destruct (snd x); [discriminate|discriminate].
  - intros y Hy. apply in_map_iff in Hy as (d & <- & _). apply print_dec_clean.
Qed.

Lemma parse_mat_values ds :
  forallb wf_dec_free ds = true ->
  mapM (fun f => of_option "real" (parse_dec_free f)) (map print_dec ds) = Ok ds.
Proof.
  intros H. apply mapM_id. intros d Hd. rewrite forallb_forall in H.
  now rewrite parse_print_dec_free by now apply H.
Qed.

Lemma combine_fst_snd {A B} (l : list (A * B)) : combine (map fst l) (map snd l) = l.
Proof. induction l as [|[a b] l IH]; [reflexivity|]. cbn. now rewrite IH. Qed.

Lemma captures_names ms :
  forallb wf_material ms = true -> captures "NAME=" (map mat_header ms) = map fst ms.
Proof.
  induction ms as [|x ms IH]; [reflexivity|]. cbn [forallb]. rewrite andb_true_iff. intros [Wx Wm].
  assert (Hw : wordy (fst x) = true).
  { unfold wf_material in Wx. rewrite !andb_true_iff in Wx. tauto. }
  unfold captures in *. cbn [map flat_map]. rewrite (capture_name x Hw). cbn [app].
  f_equal. now apply IH.
Qed.

Lemma read_materials_ok P1 P2 ms :
  selected "!MATERIAL" P1 = [] -> selected "!MATERIAL" P2 = [] ->
  filter (fun b : pblock => has_item1 (fst b)) P1 = [] ->
  filter (fun b : pblock => has_item1 (fst b)) P2 = [] ->
  forallb wf_material ms = true ->
  read_materials (P1 ++ map pbk (mat_blocks ms) ++ P2) = Ok ms.
Proof.
  intros S1 S2 F1 F2 W. unfold read_materials, extract_headers.
  rewrite !selected_app, S1, S2, selected_material_mat, app_nil_r. cbn [app].
  rewrite map_map. cbn [fst]. change (map (fun x : material => mat_header x) ms) with (map mat_header ms).
  rewrite (captures_names ms W).
  destruct ms as [|x ms]; [reflexivity|].
  cbn [map]. cbn [forallb] in W. apply andb_true_iff in W as [Wx Wm].
  assert (Hw : wordy (fst x) = true).
  { unfold wf_material in Wx. rewrite !andb_true_iff in Wx. tauto. }
  rewrite (capture_item x Hw).
  assert (W : forallb wf_material (x :: ms) = true) by (cbn [forallb]; now rewrite Wx, Wm).
  pose proof (item_blocks_mat (x :: ms) W) as FM.
  unfold pblock in *.
  rewrite !filter_app, F1, F2, FM, app_nil_r. cbn [app].
  rewrite map_map. cbn [snd].
  rewrite (mapM_map_map _ _ (@snd string (list dec))).
  - cbn [bind]. change (fst x :: map fst ms) with (map fst (x :: ms)).
    rewrite !map_length, Nat.eqb_refl.
    now rewrite combine_fst_snd.
  - intros y Hy. rewrite forallb_forall in W. pose proof (W y Hy) as Wy.
    rewrite (fields_mat_row y Wy). apply parse_mat_values.
    unfold wf_material in Wy. rewrite !andb_true_iff in Wy. tauto.
Qed.

(* ------------------------------------------------------------------ *)
(* the text round trip with a material table                          *)
Definition pre_blocks (m : mesh) (f : bool) : list kblock :=
  ([(KHeader, ["Data written by femio"]); (KNode, map node_row (m_nodes m))]
   ++ ebs_of (m_elems m) ++ gbs_of f (m_egroups m) ++ sbs_of (m_sections m))%list.
Definition post_blocks (m : mesh) : list kblock := (initial_blocks m ++ [(KEnd, [])])%list.

Lemma assemble_split m f :
  assemble (map node_row (m_nodes m)) (ebs_of (m_elems m)) (gbs_of f (m_egroups m))
           (sbs_of (m_sections m)) (initial_blocks m)
  = (pre_blocks m f ++ post_blocks m)%list.
Proof. unfold assemble, pre_blocks, post_blocks. now rewrite <- !app_assoc. Qed.

Lemma pre_early m f kb : In kb (pre_blocks m f) -> early_kind (fst kb) = true.
Proof.
  unfold pre_blocks. intros H.
  apply in_app_or in H as [H|H]; [destruct H as [<-|[<-|[]]]; reflexivity|].
  apply in_app_or in H as [H|H]; [destruct (kinds_ebs _ kb H) as (? & ->); reflexivity|].
  apply in_app_or in H as [H|H]; [destruct (kinds_gbs _ _ kb H) as (? & ? & ->); reflexivity|].
  destruct (kinds_sbs _ kb H) as (? & ? & ? & ->); reflexivity.
Qed.

Lemma post_first_stops m :
  match flatten (map block_of (post_blocks m)) with l :: _ => stop_line l = true | [] => True end.
Proof.
  unfold post_blocks, initial_blocks. destruct (lookup "TEMPERATURE" (m_initial m)); reflexivity.
Qed.

Theorem text_roundtrip_materials pats m ms :
  wf_text m = true -> forallb wf_material ms = true ->
  exists ls, write_msh_mat m ms = Ok ls
             /\ read_msh_with pats ls = finish (raw m)
             /\ read_materials (parse_blocks pats ls) = Ok ms.
Proof.
  intros Wt Wm. pose proof (wf_text_facts m Wt) as W.
  destruct (msh_kblocks_ok m W) as [f Hk].
  destruct (text_roundtrip pats m Wt) as (ls0 & Hw0 & Hr0).
  assert (E0 : ls0 = flatten (map block_of (pre_blocks m f ++ post_blocks m))).
  { unfold write_msh in Hw0. rewrite Hk in Hw0. cbn [bind] in Hw0. rewrite assemble_split in Hw0.
    now injection Hw0 as <-. }
  assert (Good : forall kb, In kb (pre_blocks m f ++ post_blocks m) -> kb_good kb).
  { intros kb Hkb. rewrite <- assemble_split in Hkb. eapply assemble_good; eauto. }
  assert (Kind : forall kb, In kb (pre_blocks m f ++ post_blocks m) -> kind_ok (fst kb) = true).
  { intros kb Hkb. now destruct (Good kb Hkb). }
  set (A := flatten (map block_of (pre_blocks m f))).
  set (B := flatten (map block_of (post_blocks m))).
  assert (Ew : write_msh_mat m ms = Ok (A ++ flatten (mat_blocks ms) ++ B)%list).
  { unfold write_msh_mat. rewrite Hw0. cbn [bind]. f_equal. rewrite E0, map_app, flatten_app.
    rewrite mat_lines_flatten. apply insert_app.
    - apply flatten_no_stop. intros kb Hkb. split; [eapply pre_early; eauto|].
      apply Good. apply in_or_app. now left.
    - apply post_first_stops. }
  assert (Ep : parse_blocks pats (A ++ flatten (mat_blocks ms) ++ B)
               = (map pb (pre_blocks m f) ++ map pbk (mat_blocks ms) ++ map pb (post_blocks m))%list).
  { unfold A, B. rewrite <- !flatten_app. rewrite parse_flatten.
    - rewrite !map_app. fold pbk. now rewrite <- !pb_pbk.
    - intros b Hb. apply in_app_or in Hb as [Hb|Hb]; [|apply in_app_or in Hb as [Hb|Hb]].
      + apply in_map_iff in Hb as (kb & <- & Hkb).
        destruct (Good kb (in_or_app _ _ _ (or_introl Hkb))) as [Hk1 Hr1].
        unfold good_block, block_of. cbn [fst snd].
        split; [apply header_is_header|]. split; [now apply header_safe|assumption].
      + now apply (mat_blocks_good ms Wm).
      + apply in_map_iff in Hb as (kb & <- & Hkb).
        destruct (Good kb (in_or_app _ _ _ (or_intror Hkb))) as [Hk1 Hr1].
        unfold good_block, block_of. cbn [fst snd].
        split; [apply header_is_header|]. split; [now apply header_safe|assumption]. }
  exists (A ++ flatten (mat_blocks ms) ++ B)%list. split; [exact Ew|]. split.
  - unfold read_msh_with. rewrite Ep. rewrite <- Hr0. unfold read_msh_with. rewrite E0.
    rewrite parse_written by exact Good. rewrite map_app.
    apply read_blocks_ext. intros r. rewrite !selected_app, (selected_mat r ms Wm). reflexivity.
  - rewrite Ep. apply read_materials_ok; try assumption.
    + apply selected_material_kbs. intros kb Hkb. apply Kind. apply in_or_app. now left.
    + apply selected_material_kbs. intros kb Hkb. apply Kind. apply in_or_app. now right.
    + apply item_blocks_kbs. intros kb Hkb. apply Kind. apply in_or_app. now left.
    + apply item_blocks_kbs. intros kb Hkb. apply Kind. apply in_or_app. now right.
Qed.

(* ------------------------------------------------------------------ *)
(* insignificant formatting and the material table: ignored lines anywhere and
   blank-padded rows leave the parsed blocks — hence everything any reader
   (mesh, materials) computes from them — unchanged *)
Inductive fmt_step0 (pats : list ipat) : list string -> list string -> Prop :=
| f0_ins a l b : ignored pats l = true -> fmt_step0 pats (a ++ b) (a ++ l :: b)
| f0_pad ls ls' : Forall2 (line_equiv pats) ls ls' -> fmt_step0 pats ls ls'.

Inductive fmt_equiv0 (pats : list ipat) : list string -> list string -> Prop :=
| f0_step ls ls' : fmt_step0 pats ls ls' -> fmt_equiv0 pats ls ls'
| f0_refl ls : fmt_equiv0 pats ls ls
| f0_sym ls ls' : fmt_equiv0 pats ls ls' -> fmt_equiv0 pats ls' ls
| f0_trans l1 l2 l3 : fmt_equiv0 pats l1 l2 -> fmt_equiv0 pats l2 l3 -> fmt_equiv0 pats l1 l3.

Lemma fmt_equiv0_equiv pats ls ls' : fmt_equiv0 pats ls ls' -> fmt_equiv pats ls ls'.
Proof.
  induction 1 as [ls ls' S| | |].
  - apply fe_step. destruct S; [now apply fs_ins|now apply fs_pad].
  - apply fe_refl.
  - now apply fe_sym.
  - eapply fe_trans; eauto.
Qed.

Theorem parse_blocks_insensitive pats ls ls' :
  fmt_equiv0 pats ls ls' -> parse_blocks pats ls = parse_blocks pats ls'.
Proof.
  induction 1 as [ls ls' S| | |]; try congruence.
  destruct S as [a l b H|ls ls' H].
  - assert (K : keep pats l = false) by (unfold keep; now rewrite H).
    unfold parse_blocks. rewrite !filter_app. cbn [filter]. rewrite K. reflexivity.
  - unfold parse_blocks. apply (split_blocks_equiv pats). now apply filter_equiv.
Qed.

Theorem materials_format_insensitive pats ls ls' :
  fmt_equiv0 pats ls ls' ->
  read_materials (parse_blocks pats ls) = read_materials (parse_blocks pats ls').
Proof. intros H. now rewrite (parse_blocks_insensitive pats ls ls' H). Qed.
