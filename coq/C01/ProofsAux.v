(* C01 proofs, part 3: generic list / dictionary lemmas used by the round trip. *)
From Coq Require Import String Ascii List Bool ZArith Lia.
From FV.C01 Require Import Str Dec Model.
From FV.C01.gen Require Import Tables.
Import ListNotations.
Local Open Scope string_scope.

(* ------------------------------------------------------------------ *)
(* keys in ELEMENT_TYPES order                                        *)
Fixpoint subseq (l T : list string) : bool :=
  match l, T with
  | [], _ => true
  | _ :: _, [] => false
  | a :: l', t :: T' => if String.eqb a t then subseq l' T' else subseq l T'
  end.

Fixpoint nodup_str (l : list string) : bool :=
  match l with
  | [] => true
  | a :: t => negb (mem_str a t) && nodup_str t
  end.

Lemma mem_str_In k l : mem_str k l = true <-> In k l.
Proof.
  unfold mem_str. rewrite existsb_exists. split.
  - intros (x & Hx & E). apply String.eqb_eq in E. now subst.
  - intros H. exists k. split; [assumption|apply String.eqb_refl].
Qed.

Lemma mem_str_false k l : mem_str k l = false <-> ~ In k l.
Proof.
  rewrite <- mem_str_In. destruct (mem_str k l); split; congruence.
Qed.

Lemma nodup_str_NoDup l : nodup_str l = true -> NoDup l.
Proof.
  induction l; simpl; intros H; [constructor|].
  apply andb_true_iff in H as [H1 H2]. constructor; [|auto].
  apply negb_true_iff in H1. now apply mem_str_false.
Qed.

Lemma subseq_incl l T : subseq l T = true -> incl l T.
Proof.
  revert l. induction T as [|t T IH]; intros l H.
  - destruct l; [intros x []|discriminate].
  - destruct l as [|a l]; [intros x []|]. simpl in H.
    destruct (String.eqb_spec a t).
    + subst. intros x [<-|Hx]; [now left|right; now apply (IH l H)].
    + intros x Hx. right. now apply (IH (a :: l) H).
Qed.

Lemma subseq_NoDup l T : NoDup T -> subseq l T = true -> NoDup l.
Proof.
  revert l. induction T as [|t T IH]; intros l HT H.
  - destruct l; [constructor|discriminate].
  - destruct l as [|a l]; [constructor|]. simpl in H. inversion HT; subst.
    destruct (String.eqb_spec a t).
    + subst. constructor; [|now apply IH].
      intros Hin. apply (subseq_incl _ _ H) in Hin. contradiction.
    + now apply IH.
Qed.

Lemma lookup_app {A} k (a b : list (string * A)) :
  lookup k (a ++ b) = match lookup k a with Some v => Some v | None => lookup k b end.
Proof.
  induction a as [|[k' v] a IH]; simpl; [reflexivity|].
  destruct (String.eqb k k'); [reflexivity|apply IH].
Qed.

Lemma lookup_notin {A} k (d : list (string * A)) :
  ~ In k (map fst d) -> lookup k d = None.
Proof.
  induction d as [|[k' v] d IH]; simpl; intros H; [reflexivity|].
  destruct (String.eqb_spec k k'); [subst; tauto|]. apply IH. tauto.
Qed.

Lemma lookup_last_cons_eq {A} k v (d : list (string * A)) :
  ~ In k (map fst d) -> lookup_last k ((k, v) :: d) = Some v.
Proof.
  intros H. unfold lookup_last. simpl. rewrite lookup_app.
  rewrite lookup_notin by (rewrite map_rev, <- in_rev; assumption).
  simpl. now rewrite String.eqb_refl.
Qed.

Lemma lookup_last_cons_neq {A} k k' v (d : list (string * A)) :
  k <> k' -> lookup_last k ((k', v) :: d) = lookup_last k d.
Proof.
  intros H. unfold lookup_last. simpl. rewrite lookup_app.
  destruct (lookup k (rev d)); [reflexivity|]. simpl.
  destruct (String.eqb_spec k k'); [contradiction|reflexivity].
Qed.

Lemma lookup_last_notin {A} k (d : list (string * A)) :
  ~ In k (map fst d) -> lookup_last k d = None.
Proof.
  intros H. unfold lookup_last. apply lookup_notin. now rewrite map_rev, <- in_rev.
Qed.

Definition pick {A} (d : list (string * A)) (t : string) : list (string * A) :=
  match lookup_last t d with Some v => [(t, v)] | None => [] end.

Lemma flat_pick_ext {A} (d d' : list (string * A)) T :
  (forall t, In t T -> lookup_last t d = lookup_last t d') ->
  flat_map (pick d) T = flat_map (pick d') T.
Proof.
  induction T as [|t T IH]; intros H; [reflexivity|]. simpl.
  unfold pick at 1 3. rewrite (H t) by now left.
  rewrite IH by (intros; apply H; now right). reflexivity.
Qed.

Lemma in_order_gen {A} (d : list (string * A)) T :
  NoDup T -> subseq (map fst d) T = true -> flat_map (pick d) T = d.
Proof.
  revert d. induction T as [|t T IH]; intros d HT H.
  - destruct d; [reflexivity|discriminate].
  - inversion HT as [|? ? Hnt HT']; subst. destruct d as [|[a v] d].
    + change (flat_map (pick []) (t :: T)) with (flat_map (@pick A []) T).
      apply (IH [] HT'). destruct T; reflexivity.
    + simpl in H. destruct (String.eqb_spec a t).
      * subst a. pose proof (subseq_incl _ _ H) as Hi.
        simpl. unfold pick at 1.
        rewrite lookup_last_cons_eq by (intros Hin; apply Hnt, Hi, Hin).
        simpl. f_equal.
        rewrite (flat_pick_ext ((t, v) :: d) d).
        -- now apply IH.
        -- intros t' Ht'. apply lookup_last_cons_neq. intros ->. contradiction.
      * pose proof (subseq_incl _ _ H) as Hi.
        simpl. unfold pick at 1.
        rewrite lookup_last_notin.
        -- simpl. now apply IH.
        -- intros Hin. apply Hnt. apply Hi. exact Hin.
Qed.

Lemma element_types_NoDup : NoDup element_types.
Proof. apply nodup_str_NoDup. vm_compute. reflexivity. Qed.

Lemma in_type_order_id {A} (d : list (string * A)) :
  subseq (map fst d) element_types = true -> in_type_order d = d.
Proof. intros H. apply in_order_gen; [apply element_types_NoDup|assumption]. Qed.

(* ------------------------------------------------------------------ *)
(* dictionaries built by successive assignments                       *)
Lemma dict_append_fresh {A} k (v : list A) (d : list (string * list A)) :
  ~ In k (map fst d) -> dict_append k v d = (d ++ [(k, v)])%list.
Proof.
  induction d as [|[k' v'] d IH]; simpl; intros H; [reflexivity|].
  destruct (String.eqb_spec k k'); [subst; tauto|]. rewrite IH by tauto. reflexivity.
Qed.

Lemma fold_dict_append {A} (l : list (string * list A)) (acc : list (string * list A)) :
  NoDup (map fst acc ++ map fst l) ->
  fold_left (fun acc tc => dict_append (fst tc) (snd tc) acc) l acc = (acc ++ l)%list.
Proof.
  revert acc. induction l as [|[k v] l IH]; intros acc H; simpl.
  - now rewrite app_nil_r.
  - rewrite dict_append_fresh.
    + rewrite IH.
      * now rewrite <- app_assoc.
      * rewrite map_app. simpl. rewrite <- app_assoc. exact H.
    + simpl in H. apply NoDup_remove_2 in H. intros Hin. apply H.
      apply in_or_app. now left.
Qed.

Lemma dict_set_fresh {A} k (v : A) (d : list (string * A)) :
  ~ In k (map fst d) -> dict_set k v d = (d ++ [(k, v)])%list.
Proof.
  induction d as [|[k' v'] d IH]; simpl; intros H; [reflexivity|].
  destruct (String.eqb_spec k k'); [subst; tauto|]. rewrite IH by tauto. reflexivity.
Qed.

Lemma fold_dict_set {A} (l : list (string * A)) (acc : list (string * A)) :
  NoDup (map fst acc ++ map fst l) ->
  fold_left (fun d kv => dict_set (fst kv) (snd kv) d) l acc = (acc ++ l)%list.
Proof.
  revert acc. induction l as [|[k v] l IH]; intros acc H; simpl.
  - now rewrite app_nil_r.
  - rewrite dict_set_fresh.
    + rewrite IH.
      * now rewrite <- app_assoc.
      * rewrite map_app. simpl. rewrite <- app_assoc. exact H.
    + simpl in H. apply NoDup_remove_2 in H. intros Hin. apply H.
      apply in_or_app. now left.
Qed.

(* ------------------------------------------------------------------ *)
Lemma captures_map {A} key (f : A -> string) (g : A -> string) l :
  (forall x, In x l -> capture key (f x) = Some (g x)) ->
  captures key (map f l) = map g l.
Proof.
  induction l; simpl; intros H; [reflexivity|]. unfold captures in *. simpl.
  rewrite (H a) by now left. simpl. f_equal. apply IHl. intros; apply H; now right.
Qed.

Lemma captures_none {A} key (f : A -> string) l :
  (forall x, In x l -> capture key (f x) = None) -> captures key (map f l) = [].
Proof.
  induction l; simpl; intros H; [reflexivity|]. unfold captures in *. simpl.
  rewrite (H a) by now left. simpl. apply IHl. intros; apply H; now right.
Qed.

Lemma combine_map {A B C} (f : A -> B) (g : A -> C) l :
  combine (map f l) (map g l) = map (fun x => (f x, g x)) l.
Proof. induction l; simpl; [reflexivity|now rewrite IHl]. Qed.

Lemma concat_singletons {A} (l : list A) : concat (map (fun z => [z]) l) = l.
Proof. induction l; simpl; [reflexivity|now rewrite IHl]. Qed.

Lemma length_concat_ge {A} (l : list (list A)) :
  (forall x, In x l -> x <> []) -> (length l <= length (concat l))%nat.
Proof.
  induction l as [|x l IH]; simpl; intros H; [lia|].
  rewrite app_length. assert (x <> []) by (apply H; now left).
  assert (length l <= length (concat l))%nat by (apply IH; intros; apply H; now right).
  destruct x; [congruence|simpl; lia].
Qed.

(* non-empty lists whose total length is their number: all singletons *)
Lemma all_singletons {A} (l : list (list A)) :
  (forall x, In x l -> x <> []) -> length (concat l) = length l ->
  l = map (fun z => [z]) (concat l).
Proof.
  induction l as [|x l IH]; simpl; intros H E; [reflexivity|].
  assert (Hx : x <> []) by (apply H; now left).
  assert (Hl : (length l <= length (concat l))%nat)
    by (apply length_concat_ge; intros; apply H; now right).
  rewrite app_length in E.
  destruct x as [|a [|b x]]; [congruence| |simpl in E; lia].
  simpl in *. f_equal. apply IH; [intros; apply H; now right|lia].
Qed.

Lemma mapO_map {A B} (f : A -> option B) (g : A -> B) l :
  (forall a, In a l -> f a = Some (g a)) -> mapO f l = Some (map g l).
Proof.
  induction l as [|a t IH]; simpl; intros H; [reflexivity|].
  rewrite (H a (or_introl eq_refl)), IH by (intros; apply H; now right). reflexivity.
Qed.
