(* The "%.12E" number layer: a written real is the decimal
      [-]d.dddddddddddd E[+-]dd+
   (one leading digit, 12 fractional digits, exponent of at least two digits),
   i.e. 13 significant decimal digits.  [dec] is exactly that datum; two
   floats agree "to the 13 significant digits the format carries" iff their
   [dec]s are equal.  The conversion binary64 <-> this decimal (C printf /
   strtod) is trusted; the harness computes it with Python's exact [decimal].
   Proved here: printing then parsing (also after padding with blanks, see
   Str.trim) gives the datum back. *)
From Coq Require Import String Ascii List Bool Arith Lia.
From Coq Require Import Decimal DecimalString.
From FV.C01 Require Import Str.
Import ListNotations.
Local Open Scope string_scope.

Record dec : Type := mkdec {
  d_neg : bool;      (* sign of the mantissa (also distinguishes -0.0) *)
  d_lead : uint;     (* the digit before the point *)
  d_frac : uint;     (* the 12 digits after the point *)
  d_eneg : bool;     (* sign of the exponent *)
  d_exp : uint       (* exponent digits, at least two *)
}.

Definition sou := NilEmpty.string_of_uint.
Definition uos := NilEmpty.uint_of_string.

(* [chk] constrains the number of fractional digits: = 12 for %.12E *)
Definition wf_dec_p (chk : nat -> bool) (d : dec) : bool :=
  (nb_digits (d_lead d) =? 1)%nat && chk (nb_digits (d_frac d))
  && (2 <=? nb_digits (d_exp d))%nat.
Definition wf_dec_n (n : nat) : dec -> bool := wf_dec_p (fun k => (k =? n)%nat).

Definition print_dec (d : dec) : string :=
  (if d_neg d then "-" else "") ++ sou (d_lead d) ++ "." ++ sou (d_frac d)
  ++ "E" ++ (if d_eneg d then "-" else "+") ++ sou (d_exp d).

Fixpoint split_at (c : ascii) (s : string) : option (string * string) :=
  match s with
  | "" => None
  | String a s' =>
    if Ascii.eqb a c then Some ("", s')
    else match split_at c s' with
         | Some (x, y) => Some (String a x, y)
         | None => None
         end
  end.

Definition parse_dec_p (chk : nat -> bool) (s : string) : option dec :=
  let '(neg, s1) := match s with
                    | String a r => if Ascii.eqb a "-" then (true, r) else (false, s)
                    | "" => (false, s)
                    end in
  match split_at "." s1 with
  | None => None
  | Some (a, s2) =>
    match split_at "E" s2 with
    | None => None
    | Some (b, s3) =>
      match s3 with
      | "" => None
      | String sg e =>
        if Ascii.eqb sg "+" || Ascii.eqb sg "-" then
          match uos a, uos b, uos e with
          | Some ua, Some ub, Some ue =>
            let d := mkdec neg ua ub (Ascii.eqb sg "-") ue in
            if wf_dec_p chk d then Some d else None
          | _, _, _ => None
          end
        else None
      end
    end
  end.

Definition parse_dec_n (n : nat) : string -> option dec := parse_dec_p (fun k => (k =? n)%nat).
Definition wf_dec := wf_dec_n 12.
Definition parse_dec := parse_dec_n 12.
(* any number of fractional digits (the reader's float() does not care) *)
Definition wf_dec_free : dec -> bool := wf_dec_p (fun _ => true).
Definition parse_dec_free : string -> option dec := parse_dec_p (fun _ => true).

(* ------------------------------------------------------------------ *)
Lemma split_at_app c x r :
  has_char c x = false -> split_at c (x ++ String c r) = Some (x, r).
Proof.
  induction x; simpl.
  - intros _. now rewrite Ascii.eqb_refl.
  - rewrite orb_false_iff. intros [Ha Hx]. rewrite Ha, (IHx Hx). reflexivity.
Qed.

Lemma sou_digits d : all_chars is_digit (sou d) = true.
Proof. apply uint_digits. Qed.

Lemma digits_no_char c s :
  is_digit c = false -> all_chars is_digit s = true -> has_char c s = false.
Proof.
  intros Hc. induction s; simpl; [reflexivity|].
  rewrite andb_true_iff. intros [Ha Hs]. rewrite (IHs Hs), orb_false_r.
  destruct (Ascii.eqb_spec a c); [subst; congruence|reflexivity].
Qed.

Lemma sou_head d : nb_digits d <> 0%nat ->
  exists a s, sou d = String a s /\ is_digit a = true.
Proof.
  destruct d; simpl; try congruence; intros _; eexists; eexists; split;
    try reflexivity; reflexivity.
Qed.

Lemma parse_print_dec_p chk d :
  wf_dec_p chk d = true -> parse_dec_p chk (print_dec d) = Some d.
Proof.
  intros W. pose proof W as W'. unfold wf_dec_p in W'.
  apply andb_true_iff in W' as [W' We]. apply andb_true_iff in W' as [Wl Wf].
  apply Nat.eqb_eq in Wl.
  destruct (sou_head (d_lead d)) as (a & s & Ea & Da); [lia|].
  assert (Hneg : forall r, (match (if d_neg d then "-" else "") ++ sou (d_lead d) ++ r with
            | String a0 r0 => if Ascii.eqb a0 "-" then (true, r0)
                            else (false, (if d_neg d then "-" else "") ++ sou (d_lead d) ++ r)
            | "" => (false, (if d_neg d then "-" else "") ++ sou (d_lead d) ++ r)
            end) = (d_neg d, sou (d_lead d) ++ r)).
  { intros r. destruct (d_neg d); simpl.
    - reflexivity.
    - rewrite Ea. simpl.
      destruct (Ascii.eqb_spec a "-"); [subst; discriminate|reflexivity]. }
  unfold parse_dec_p, print_dec. rewrite Hneg. cbn [append].
  rewrite split_at_app by (apply digits_no_char; [reflexivity|apply sou_digits]).
  rewrite split_at_app by (apply digits_no_char; [reflexivity|apply sou_digits]).
  assert (Es : (if d_eneg d then "-" else "+") ++ sou (d_exp d)
               = String (if d_eneg d then "-" else "+")%char (sou (d_exp d))).
  { destruct (d_eneg d); reflexivity. }
  rewrite Es.
  assert (Esg : (Ascii.eqb (if d_eneg d then "-" else "+") "+"
                 || Ascii.eqb (if d_eneg d then "-" else "+") "-")%char = true).
  { destruct (d_eneg d); reflexivity. }
  rewrite Esg. unfold uos, sou. rewrite !NilEmpty.usu.
  assert (Eb : Ascii.eqb (if d_eneg d then "-" else "+")%char "-" = d_eneg d).
  { destruct (d_eneg d); reflexivity. }
  rewrite Eb. destruct d; simpl in *. rewrite W. reflexivity.
Qed.

Lemma parse_print_dec_n n d :
  wf_dec_n n d = true -> parse_dec_n n (print_dec d) = Some d.
Proof. apply parse_print_dec_p. Qed.

Lemma parse_print_dec d : wf_dec d = true -> parse_dec (print_dec d) = Some d.
Proof. apply parse_print_dec_p. Qed.

Lemma parse_print_dec_free d :
  wf_dec_free d = true -> parse_dec_free (print_dec d) = Some d.
Proof. apply parse_print_dec_p. Qed.

Lemma print_dec_clean d : clean (print_dec d) = true.
Proof.
  unfold print_dec. rewrite !clean_app.
  assert (H : forall u, clean (sou u) = true).
  { intros u. eapply all_chars_impl; [apply digit_clean|apply sou_digits]. }
  rewrite !H. destruct (d_neg d), (d_eneg d); reflexivity.
Qed.

Lemma print_dec_nonempty d : print_dec d <> "".
Proof.
  unfold print_dec. destruct (d_neg d); simpl; [discriminate|].
  destruct (sou (d_lead d)); simpl; discriminate.
Qed.

Definition parse_decf (f : string) : result dec := of_option "real" (parse_dec f).

Lemma parse_decf_print d : wf_dec d = true -> parse_decf (print_dec d) = Ok d.
Proof. intros H. unfold parse_decf. now rewrite parse_print_dec. Qed.

(* the zero that numpy pads missing initial temperatures with *)
Definition dec_zero : dec :=
  mkdec false (D0 Nil) (D0 (D0 (D0 (D0 (D0 (D0 (D0 (D0 (D0 (D0 (D0 (D0 Nil))))))))))))
        false (D0 (D0 Nil)).

Example dec_example :
  let d := mkdec true (D1 Nil) (D4 (D2 (D8 (D5 (D7 (D1 (D4 (D2 (D8 (D5 (D7 (D1 Nil))))))))))))
                 true (D0 (D1 Nil)) in
  wf_dec d = true /\ print_dec d = "-1.428571428571E-01"
  /\ parse_dec " -1.428571428571E-01" = None
  /\ parse_dec (trim "  -1.428571428571E-01	") = Some d.
Proof. vm_compute. repeat split. Qed.
