(* C01 — orientation clause: the connectivity written to the .msh follows
   FrontISTR's node-ordering convention, so that an element that femio counts
   as positively oriented is positively oriented for FrontISTR too.

   S-definitions (FrontISTR / HEC-MW conventions, stated here, not checkable
   against femio):
     341  nodes a b c d :  det (b-a, c-a, d-a) > 0
     351  nodes 1..6    :  1-2-3 counter-clockwise seen from 4-5-6, i.e. the
                           normal (q2-q1) x (q3-q1) points to the 4-5-6 face
     361  nodes 1..8    :  1-2-3-4 counter-clockwise seen from 5-6-7-8, i.e. the
                           normal (q3-q1) x (q4-q2) points to the 5-6-7-8 face
   femio's signed volumes (hand models of geometry_processor.py, mode='linear':
   _calculate_element_volumes_tet_like_core, _prism, _hex_with_nodes; tied by a
   correspondence on integer coordinates) are given as 6 x volume so that no
   division occurs. *)
From Coq Require Import List ZArith QArith Reals Lra String.
From FV.C01 Require Import Str Model ProofsText.
From FV.C01.gen Require Import Tables.
Import ListNotations.

Section Kernels.
Variable T : Type.
Variables (add sub mul : T -> T -> T).
Local Notation "a + b" := (add a b).
Local Notation "a - b" := (sub a b).
Local Notation "a * b" := (mul a b).

Definition V3 : Type := (T * T * T)%type.
Definition vsub (a b : V3) : V3 :=
  let '(ax, ay, az) := a in let '(bx, by_, bz) := b in (ax - bx, ay - by_, az - bz).
Definition vadd (a b : V3) : V3 :=
  let '(ax, ay, az) := a in let '(bx, by_, bz) := b in (ax + bx, ay + by_, az + bz).

(* determinant of the matrix with rows a, b, c *)
Definition det3 (a b c : V3) : T :=
  let '(ax, ay, az) := a in let '(bx, by_, bz) := b in let '(cx, cy, cz) := c in
  ax * (by_ * cz - bz * cy) - ay * (bx * cz - bz * cx) + az * (bx * cy - by_ * cx).

(* femio: _calculate_element_volumes_tet_like_core, times 6 *)
Definition femio6_tet (p0 p1 p2 p3 : V3) : T :=
  det3 (vsub p1 p0) (vsub p2 p0) (vsub p3 p0).

(* femio: _calculate_element_volumes_prism, times 6 *)
Definition femio6_prism (p0 p1 p2 p3 p4 p5 : V3) : T :=
  femio6_tet p0 p2 p1 p3 + femio6_tet p1 p3 p2 p4 + femio6_tet p2 p4 p3 p5.

(* femio: _calculate_element_volumes_hex_with_nodes, times 6 *)
Definition femio6_hex (p0 p1 p2 p3 p4 p5 p6 p7 : V3) : T :=
  det3 (vsub p1 p4) (vsub p0 p4) (vsub p3 p4)
  + det3 (vsub p2 p6) (vsub p1 p6) (vsub p3 p6)
  + det3 (vsub p1 p6) (vsub p4 p6) (vsub p3 p6)
  + det3 (vsub p7 p3) (vsub p4 p3) (vsub p6 p3)
  + det3 (vsub p1 p5) (vsub p4 p5) (vsub p6 p5).

(* S: FrontISTR's orientation measures (positive = correctly oriented) *)
Definition fistr341 (a b c d : V3) : T := det3 (vsub b a) (vsub c a) (vsub d a).
Definition fistr351 (q1 q2 q3 q4 q5 q6 : V3) : T :=
  det3 (vsub q2 q1) (vsub q3 q1) (vsub (vadd (vadd q4 q5) q6) (vadd (vadd q1 q2) q3)).
Definition fistr361 (q1 q2 q3 q4 q5 q6 q7 q8 : V3) : T :=
  det3 (vsub q3 q1) (vsub q4 q2)
       (vsub (vadd (vadd (vadd q5 q6) q7) q8) (vadd (vadd (vadd q1 q2) q3) q4)).
End Kernels.

(* the node order written for an element of femio type ty (any payload) *)
Definition to_fistr {A} (ty : string) (row : list A) : list A :=
  if mem_str (code_of ty) prism_write_codes
  then match permute prism_perm_write row with Some r => r | None => row end
  else row.

(* execution over Q (correspondence with femio's kernels) *)
Definition q6_tet := femio6_tet Q Qplus Qminus Qmult.
Definition q6_prism := femio6_prism Q Qplus Qminus Qmult.
Definition q6_hex := femio6_hex Q Qplus Qminus Qmult.

Definition q6_of (ty : string) (ps : list (Q * Q * Q)) : option Q :=
  match ps with
  | [a; b; c; d] => if String.eqb ty "tet" then Some (q6_tet a b c d) else None
  | [a; b; c; d; e; f] => if String.eqb ty "prism" then Some (q6_prism a b c d e f) else None
  | [a; b; c; d; e; f; g; h] => if String.eqb ty "hex" then Some (q6_hex a b c d e f g h) else None
  | _ => None
  end.

(* FrontISTR's orientation measure of the *written* connectivity *)
Definition qfistr_of (ty : string) (ps : list (Q * Q * Q)) : option Q :=
  match to_fistr ty ps with
  | [a; b; c; d] => if String.eqb ty "tet" then Some (fistr341 Q Qplus Qminus Qmult a b c d) else None
  | [a; b; c; d; e; f] =>
    if String.eqb ty "prism" then Some (fistr351 Q Qplus Qminus Qmult a b c d e f) else None
  | [a; b; c; d; e; f; g; h] =>
    if String.eqb ty "hex" then Some (fistr361 Q Qplus Qminus Qmult a b c d e f g h) else None
  | _ => None
  end.

(* ------------------------------------------------------------------ *)
(* theorems over the reals                                            *)
Local Open Scope R_scope.
Notation RV := (R * R * R)%type.
Definition r6_tet := femio6_tet R Rplus Rminus Rmult.
Definition r6_prism := femio6_prism R Rplus Rminus Rmult.
Definition r6_hex := femio6_hex R Rplus Rminus Rmult.
Definition rf341 := fistr341 R Rplus Rminus Rmult.
Definition rf351 := fistr351 R Rplus Rminus Rmult.
Definition rf361 := fistr361 R Rplus Rminus Rmult.
Definition radd := vadd R Rplus.

Ltac kernels :=
  cbv [r6_tet r6_prism r6_hex rf341 rf351 rf361 radd femio6_tet femio6_prism femio6_hex
       fistr341 fistr351 fistr361 det3 vsub vadd].

(* what is written for a tet / prism / hex row (computed from the translated
   tables; points are arbitrary) *)
Lemma written_tet (a b c d : RV) : to_fistr "tet" [a; b; c; d] = [a; b; c; d].
Proof. reflexivity. Qed.
Lemma written_hex (a b c d e f g h : RV) :
  to_fistr "hex" [a; b; c; d; e; f; g; h] = [a; b; c; d; e; f; g; h].
Proof. reflexivity. Qed.

(* every tetrahedron, every coordinate value: femio's signed volume (x 6) is
   FrontISTR's orientation determinant of the written node order *)
Theorem orient_tet (a b c d : RV) :
  match to_fistr "tet" [a; b; c; d] with
  | [q1; q2; q3; q4] => r6_tet a b c d = rf341 q1 q2 q3 q4
  | _ => False
  end.
Proof. rewrite written_tet. reflexivity. Qed.

(* every prism whose top face is a translate of its bottom face (every affine
   image of the reference prism), every coordinate value *)
Theorem orient_prism (p0 p1 p2 w : RV) :
  match to_fistr "prism" [p0; p1; p2; radd p0 w; radd p1 w; radd p2 w] with
  | [q1; q2; q3; q4; q5; q6] =>
    r6_prism p0 p1 p2 (radd p0 w) (radd p1 w) (radd p2 w) = rf351 q1 q2 q3 q4 q5 q6
  | _ => False
  end.
Proof.
  destruct p0 as [[x0 y0] z0], p1 as [[x1 y1] z1], p2 as [[x2 y2] z2], w as [[wx wy] wz].
  cbv [to_fistr mem_str existsb code_of lookup detect_table prism_write_codes String.eqb
       Ascii.eqb Bool.eqb orb permute mapO nth_error prism_perm_write].
  kernels. ring.
Qed.

(* every parallelepiped (affine image of the reference hexahedron) *)
Theorem orient_hex (p0 u v w : RV) :
  let p1 := radd p0 u in let p3 := radd p0 v in let p2 := radd (radd p0 u) v in
  let p4 := radd p0 w in let p5 := radd p1 w in let p6 := radd p2 w in let p7 := radd p3 w in
  match to_fistr "hex" [p0; p1; p2; p3; p4; p5; p6; p7] with
  | [q1; q2; q3; q4; q5; q6; q7; q8] =>
    8 * r6_hex p0 p1 p2 p3 p4 p5 p6 p7 = 6 * rf361 q1 q2 q3 q4 q5 q6 q7 q8
  | _ => False
  end.
Proof.
  intros. subst p1 p2 p3 p4 p5 p6 p7. rewrite written_hex.
  destruct p0 as [[x0 y0] z0], u as [[ux uy] uz], v as [[vx vy] vz], w as [[wx wy] wz].
  kernels. ring.
Qed.

(* hence the signs agree *)
Corollary orient_hex_sign (a b : R) : 8 * a = 6 * b -> (0 < a <-> 0 < b).
Proof. intros H. split; intros; lra. Qed.
