(* C01/C03 shared string library: character classes, trimming, splitting at a
   separator, substring / regex-capture helpers, decimal printing of integers
   (Coq's DecimalString) — definitions and their lemmas.
   Everything is executable (vm_compute) and axiom free. *)
From Coq Require Import String Ascii List Bool ZArith Lia.
From Coq Require Import Decimal DecimalString DecimalZ DecimalPos.
Import ListNotations.
Local Open Scope string_scope.
Global Arguments Ascii.eqb : simpl never.

(* ------------------------------------------------------------------ *)
(* result type of the readers                                         *)
Inductive result (A : Type) : Type :=
| Ok (a : A)
| Err (e : string).
Arguments Ok {A} a.
Arguments Err {A} e.

Definition bind {A B} (r : result A) (f : A -> result B) : result B :=
  match r with Ok a => f a | Err e => Err e end.
Notation "x <- r ;; k" := (bind r (fun x => k))
  (at level 61, r at next level, right associativity).

Fixpoint mapM {A B} (f : A -> result B) (l : list A) : result (list B) :=
  match l with
  | [] => Ok []
  | a :: t => b <- f a ;; bs <- mapM f t ;; Ok (b :: bs)
  end.

Definition of_option {A} (e : string) (o : option A) : result A :=
  match o with Some a => Ok a | None => Err e end.

Lemma mapM_map {A B} (f : A -> result B) (g : A -> B) l :
  (forall a, In a l -> f a = Ok (g a)) -> mapM f l = Ok (map g l).
Proof.
  induction l as [|a t IH]; simpl; intros H; [reflexivity|].
  rewrite (H a (or_introl eq_refl)). simpl. rewrite IH by (intros; apply H; now right).
  reflexivity.
Qed.

Lemma mapM_id {A B} (f : B -> result A) (g : A -> B) l :
  (forall a, In a l -> f (g a) = Ok a) -> mapM f (map g l) = Ok l.
Proof.
  induction l as [|a t IH]; simpl; intros H; [reflexivity|].
  rewrite (H a (or_introl eq_refl)). simpl. rewrite IH by (intros; apply H; now right).
  reflexivity.
Qed.

Lemma mapM_ext {A B} (f g : A -> result B) l :
  (forall a, In a l -> f a = g a) -> mapM f l = mapM g l.
Proof.
  induction l as [|a t IH]; simpl; intros H; [reflexivity|].
  rewrite (H a (or_introl eq_refl)), IH by (intros; apply H; now right). reflexivity.
Qed.

(* ------------------------------------------------------------------ *)
(* character classes                                                  *)
Definition ch (n : nat) : ascii := ascii_of_nat n.

(* Python's str.strip() / regex \s on ASCII: space, \t \n \v \f \r *)
Definition is_ws (c : ascii) : bool :=
  let n := nat_of_ascii c in
  (n =? 32)%nat || ((9 <=? n)%nat && (n <=? 13)%nat).

Definition is_digit (c : ascii) : bool :=
  let n := nat_of_ascii c in (48 <=? n)%nat && (n <=? 57)%nat.

Definition is_alpha (c : ascii) : bool :=
  let n := nat_of_ascii c in
  ((65 <=? n)%nat && (n <=? 90)%nat) || ((97 <=? n)%nat && (n <=? 122)%nat).

(* regex \w restricted to ASCII *)
Definition is_word (c : ascii) : bool :=
  is_alpha c || is_digit c || (nat_of_ascii c =? 95)%nat.

(* characters that may occur inside a data field written by femio:
   no blank, no separator, no comment / header marker *)
Definition is_clean (c : ascii) : bool :=
  negb (is_ws c) && negb (Ascii.eqb c ",") && negb (Ascii.eqb c "#")
  && negb (Ascii.eqb c "!").

Lemma ascii_all (P : ascii -> bool) :
  (forall b0 b1 b2 b3 b4 b5 b6 b7, P (Ascii b0 b1 b2 b3 b4 b5 b6 b7) = true) ->
  forall c, P c = true.
Proof. intros H [b0 b1 b2 b3 b4 b5 b6 b7]. apply H. Qed.

Ltac ascii_cases :=
  let c := fresh "c" in
  intros c; destruct c as [[|] [|] [|] [|] [|] [|] [|] [|]]; vm_compute;
  try reflexivity; try discriminate; auto.

Lemma word_clean : forall c, is_word c = true -> is_clean c = true.
Proof. ascii_cases. Qed.

Lemma digit_word : forall c, is_digit c = true -> is_word c = true.
Proof. ascii_cases. Qed.

Lemma digit_clean c : is_digit c = true -> is_clean c = true.
Proof. intros. now apply word_clean, digit_word. Qed.

Lemma clean_not_ws c : is_clean c = true -> is_ws c = false.
Proof.
  unfold is_clean. destruct (is_ws c); simpl; [discriminate|reflexivity].
Qed.

Lemma clean_not_comma c : is_clean c = true -> Ascii.eqb c "," = false.
Proof.
  unfold is_clean. destruct (Ascii.eqb c ","); rewrite ?andb_false_r; simpl;
    [discriminate|reflexivity].
Qed.

Lemma clean_not_hash c : is_clean c = true -> Ascii.eqb c "#" = false.
Proof.
  unfold is_clean. destruct (Ascii.eqb c "#"); rewrite ?andb_false_r; simpl;
    [discriminate|reflexivity].
Qed.

Lemma clean_not_bang c : is_clean c = true -> Ascii.eqb c "!" = false.
Proof.
  unfold is_clean. destruct (Ascii.eqb c "!"); rewrite ?andb_false_r; simpl;
    [discriminate|reflexivity].
Qed.

(* ------------------------------------------------------------------ *)
(* basic string functions                                             *)
Fixpoint all_chars (f : ascii -> bool) (s : string) : bool :=
  match s with "" => true | String a s' => f a && all_chars f s' end.

Fixpoint has_char (c : ascii) (s : string) : bool :=
  match s with "" => false | String a s' => Ascii.eqb a c || has_char c s' end.

Definition all_ws (s : string) : bool := all_chars is_ws s.
Definition clean (s : string) : bool := all_chars is_clean s.
Definition wordy (s : string) : bool :=
  match s with "" => false | _ => all_chars is_word s end.

Fixpoint starts (p s : string) : bool :=
  match p with
  | "" => true
  | String a p' =>
    match s with
    | "" => false
    | String b s' => Ascii.eqb a b && starts p' s'
    end
  end.

(* substring test = pandas str.contains with a pattern free of regex
   metacharacters *)
Fixpoint contains (k s : string) : bool :=
  starts k s || match s with "" => false | String _ s' => contains k s' end.

Fixpoint strip_prefix (p s : string) : option string :=
  match p with
  | "" => Some s
  | String a p' =>
    match s with
    | "" => None
    | String b s' => if Ascii.eqb a b then strip_prefix p' s' else None
    end
  end.

Fixpoint ltrim (s : string) : string :=
  match s with
  | "" => ""
  | String a s' => if is_ws a then ltrim s' else s
  end.

Fixpoint rtrim (s : string) : string :=
  match s with
  | "" => ""
  | String a s' =>
    match rtrim s' with
    | "" => if is_ws a then "" else String a ""
    | r => String a r
    end
  end.

Definition trim (s : string) : string := rtrim (ltrim s).

(* split at every occurrence of c; always at least one field *)
Fixpoint split_on (c : ascii) (s : string) : list string :=
  match s with
  | "" => [""]
  | String a s' =>
    if Ascii.eqb a c then "" :: split_on c s'
    else match split_on c s' with
         | x :: t => String a x :: t
         | [] => [String a ""]
         end
  end.

Fixpoint join (c : ascii) (l : list string) : string :=
  match l with
  | [] => ""
  | [x] => x
  | x :: t => x ++ String c (join c t)
  end.

(* fields of a data row: split at ',' and strip blanks (float()/int() of
   Python accept surrounding white space) *)
Definition fields (row : string) : list string := map trim (split_on "," row).

(* regex  key(\w+)  searched from the left: the captured group *)
Fixpoint take_word (s : string) : string :=
  match s with
  | "" => ""
  | String a s' => if is_word a then String a (take_word s') else ""
  end.

Definition capture_here (key s : string) : option string :=
  match strip_prefix key s with
  | Some r => match take_word r with "" => None | w => Some w end
  | None => None
  end.

Fixpoint capture (key s : string) : option string :=
  match capture_here key s with
  | Some w => Some w
  | None => match s with "" => None | String _ s' => capture key s' end
  end.

(* pandas: Series.str.extract(...) followed by dropping the NaN entries *)
Definition captures (key : string) (hs : list string) : list string :=
  flat_map (fun h => match capture key h with Some w => [w] | None => [] end) hs.

(* ------------------------------------------------------------------ *)
(* lemmas: all_chars / append                                          *)
Lemma all_chars_app f a b :
  all_chars f (a ++ b) = all_chars f a && all_chars f b.
Proof. induction a; simpl; [reflexivity|]. now rewrite IHa, andb_assoc. Qed.

Lemma all_chars_impl (f g : ascii -> bool) s :
  (forall c, f c = true -> g c = true) -> all_chars f s = true -> all_chars g s = true.
Proof.
  intros H. induction s; simpl; [auto|]. rewrite !andb_true_iff. intuition.
Qed.

Lemma has_char_app c a b : has_char c (a ++ b) = has_char c a || has_char c b.
Proof. induction a; simpl; [reflexivity|]. now rewrite IHa, orb_assoc. Qed.

Lemma clean_no_char c s :
  is_clean c = false -> clean s = true -> has_char c s = false.
Proof.
  intros Hc. induction s; simpl; [reflexivity|].
  unfold clean in *. simpl. rewrite andb_true_iff. intros [Ha Hs].
  rewrite IHs by assumption. rewrite orb_false_r.
  destruct (Ascii.eqb_spec a c); [subst; congruence|reflexivity].
Qed.

Lemma clean_no_comma s : clean s = true -> has_char "," s = false.
Proof. apply clean_no_char. reflexivity. Qed.
Lemma clean_no_hash s : clean s = true -> has_char "#" s = false.
Proof. apply clean_no_char. reflexivity. Qed.
Lemma clean_no_bang s : clean s = true -> has_char "!" s = false.
Proof. apply clean_no_char. reflexivity. Qed.

Lemma wordy_clean s : wordy s = true -> clean s = true.
Proof.
  destruct s; [discriminate|]. unfold wordy, clean.
  apply all_chars_impl, word_clean.
Qed.

Lemma wordy_nonempty s : wordy s = true -> s <> "".
Proof. destruct s; [discriminate|discriminate]. Qed.

Lemma clean_app a b : clean (a ++ b) = clean a && clean b.
Proof. apply all_chars_app. Qed.

(* ------------------------------------------------------------------ *)
(* trim                                                               *)
Lemma ltrim_clean s : clean s = true -> ltrim s = s.
Proof.
  destruct s; simpl; [reflexivity|]. unfold clean; simpl.
  rewrite andb_true_iff. intros [H _]. now rewrite (clean_not_ws _ H).
Qed.

Lemma rtrim_clean s : clean s = true -> rtrim s = s.
Proof.
  induction s; simpl; [reflexivity|]. unfold clean in *; simpl.
  rewrite andb_true_iff. intros [Ha Hs]. rewrite (IHs Hs).
  destruct s; [now rewrite (clean_not_ws _ Ha)|reflexivity].
Qed.

Lemma trim_clean s : clean s = true -> trim s = s.
Proof. intros H. unfold trim. rewrite (ltrim_clean _ H). now apply rtrim_clean. Qed.

(* ------------------------------------------------------------------ *)
(* split / join                                                       *)
Lemma split_on_nonnil c s : split_on c s <> [].
Proof.
  induction s; simpl; [discriminate|].
  destruct (Ascii.eqb a c); [discriminate|].
  destruct (split_on c s); [contradiction|discriminate].
Qed.

Lemma split_on_nochar c s : has_char c s = false -> split_on c s = [s].
Proof.
  induction s; simpl; [reflexivity|].
  rewrite orb_false_iff. intros [Ha Hs]. rewrite Ha, (IHs Hs). reflexivity.
Qed.

Lemma split_on_app c x r :
  has_char c x = false ->
  split_on c (x ++ String c r) = x :: split_on c r.
Proof.
  induction x; simpl.
  - intros _. now rewrite Ascii.eqb_refl.
  - rewrite orb_false_iff. intros [Ha Hx]. rewrite Ha, (IHx Hx). reflexivity.
Qed.

Lemma split_join c l :
  l <> [] -> (forall x, In x l -> has_char c x = false) ->
  split_on c (join c l) = l.
Proof.
  induction l as [|x t IH]; [congruence|]. intros _ H.
  destruct t as [|y t'].
  - simpl. apply split_on_nochar, H. now left.
  - change (join c (x :: y :: t')) with (x ++ String c (join c (y :: t'))).
    rewrite split_on_app by (apply H; now left).
    rewrite IH; [reflexivity|discriminate|intros; apply H; now right].
Qed.

Lemma fields_join l :
  l <> [] -> (forall x, In x l -> clean x = true) -> fields (join "," l) = l.
Proof.
  intros Hn H. unfold fields.
  rewrite split_join by (auto; intros; now apply clean_no_comma, H).
  rewrite <- (map_id l) at 2. apply map_ext_in. intros; now apply trim_clean, H.
Qed.

Lemma join_clean_chars (f : ascii -> bool) c l :
  f c = true -> (forall x, In x l -> all_chars f x = true) ->
  all_chars f (join c l) = true.
Proof.
  intros Hc. induction l as [|x t IH]; intros H; [reflexivity|].
  destruct t as [|y t'].
  - simpl. apply H. now left.
  - change (join c (x :: y :: t')) with (x ++ String c (join c (y :: t'))).
    rewrite all_chars_app. cbn [all_chars]. rewrite Hc, IH by (intros; apply H; now right).
    rewrite (H x) by now left. reflexivity.
Qed.

Lemma has_char_join c d l :
  Ascii.eqb d c = false -> (forall x, In x l -> has_char c x = false) ->
  has_char c (join d l) = false.
Proof.
  intros Hd. induction l as [|x t IH]; intros H; [reflexivity|].
  destruct t as [|y t'].
  - simpl. apply H. now left.
  - change (join d (x :: y :: t')) with (x ++ String d (join d (y :: t'))).
    rewrite has_char_app. cbn [has_char]. rewrite Hd, IH by (intros; apply H; now right).
    rewrite (H x) by now left. reflexivity.
Qed.

(* first character of a joined row = first character of its first field *)
Lemma starts_join_first p c x t :
  x <> "" -> starts (String p "") (join c (x :: t)) = starts (String p "") x.
Proof.
  intros Hx. destruct x as [|a x']; [congruence|].
  destruct t; simpl; destruct (Ascii.eqb p a); reflexivity.
Qed.

(* ------------------------------------------------------------------ *)
(* starts / contains                                                  *)
Lemma starts_app p r : starts p (p ++ r) = true.
Proof. induction p; simpl; [reflexivity|]. now rewrite Ascii.eqb_refl. Qed.

Lemma strip_prefix_app p r : strip_prefix p (p ++ r) = Some r.
Proof. induction p; simpl; [reflexivity|]. now rewrite Ascii.eqb_refl. Qed.

Lemma contains_nochar c k s :
  has_char c s = false -> contains (String c k) s = false.
Proof.
  induction s; simpl; [reflexivity|].
  rewrite orb_false_iff. intros [Ha Hs]. rewrite (IHs Hs), orb_false_r.
  rewrite Ascii.eqb_sym, Ha. reflexivity.
Qed.

(* a header "!…" with a single '!' contains a key "!…" iff it starts with it *)
Lemma contains_bang k t :
  has_char "!" t = false ->
  contains (String "!" k) (String "!" t) = starts k t.
Proof.
  intros H. simpl. rewrite (contains_nochar _ _ _ H), orb_false_r. reflexivity.
Qed.

(* ------------------------------------------------------------------ *)
(* capture                                                            *)
Fixpoint mismatch (k t : string) : bool :=
  match k, t with
  | String a k', String b t' => negb (Ascii.eqb a b) || mismatch k' t'
  | _, _ => false
  end.

Fixpoint all_suffix_mismatch (k pre : string) : bool :=
  match pre with
  | "" => true
  | String _ p' => mismatch k pre && all_suffix_mismatch k p'
  end.

Lemma mismatch_app k t r : mismatch k t = true -> mismatch k (t ++ r) = true.
Proof.
  revert t. induction k; intros t; destruct t; simpl; try discriminate.
  rewrite !orb_true_iff. intros [H|H]; [now left|right; now apply IHk].
Qed.

Lemma mismatch_strip k t : mismatch k t = true -> strip_prefix k t = None.
Proof.
  revert t. induction k; intros t; destruct t; simpl; try discriminate.
  destruct (Ascii.eqb a a0); simpl; [apply IHk|reflexivity].
Qed.

Lemma capture_skip k pre r :
  (forall i t, pre = i ++ t -> t <> "" -> mismatch k (t ++ r) = true) ->
  capture k (pre ++ r) = capture k r.
Proof.
  induction pre as [|a p IH]; intros H; [reflexivity|].
  change ((String a p) ++ r) with (String a (p ++ r)).
  assert (Hm : mismatch k (String a (p ++ r)) = true).
  { apply (H "" (String a p)); [reflexivity|discriminate]. }
  cbn [capture]. unfold capture_here at 1. rewrite (mismatch_strip _ _ Hm).
  apply IH. intros i t E Ht. apply (H (String a i) t); [simpl; now rewrite E|assumption].
Qed.

Lemma capture_skip_concrete k pre r :
  all_suffix_mismatch k pre = true -> capture k (pre ++ r) = capture k r.
Proof.
  intros H. apply capture_skip. revert H. induction pre as [|a p IH]; intros H i t E Ht.
  - destruct i; destruct t; simpl in E; congruence.
  - simpl in H. apply andb_true_iff in H as [H1 H2].
    destruct i as [|b i].
    + simpl in E. subst t. now apply mismatch_app.
    + simpl in E. injection E as _ E. now apply (IH H2 i t).
Qed.

(* a "word" w in front of a separator c that does not occur in the key, the
   key containing a character ('=') that is not a word character *)
Lemma mismatch_word k0 k1 g c r :
  all_chars is_word g = true -> has_char c k0 = false -> Ascii.eqb c "=" = false ->
  mismatch (k0 ++ String "=" k1) (g ++ String c r) = true.
Proof.
  revert g. induction k0 as [|b k0 IH]; intros g Hg Hc Hce.
  - destruct g as [|a g]; simpl.
    + rewrite Ascii.eqb_sym, Hce. reflexivity.
    + simpl in Hg. apply andb_true_iff in Hg as [Ha _].
      destruct (Ascii.eqb_spec "=" a); [subst; discriminate|reflexivity].
  - simpl in Hc. apply orb_false_iff in Hc as [Hb Hc].
    destruct g as [|a g]; simpl.
    + rewrite Hb. reflexivity.
    + simpl in Hg. apply andb_true_iff in Hg as [_ Hg].
      rewrite (IH g Hg Hc Hce). apply orb_true_r.
Qed.

Lemma all_chars_suffix f i t : all_chars f (i ++ t) = true -> all_chars f t = true.
Proof. rewrite all_chars_app, andb_true_iff. tauto. Qed.

Lemma sapp_assoc (a b c : string) : (a ++ b) ++ c = a ++ (b ++ c).
Proof. induction a; simpl; [reflexivity|now rewrite IHa]. Qed.

(* skipping  <concrete prefix> ++ <word> ++ <sep>  in front of the key *)
Lemma capture_skip_word k0 k1 pre g c r :
  all_suffix_mismatch (k0 ++ String "=" k1) pre = true ->
  all_chars is_word g = true -> has_char c k0 = false -> Ascii.eqb c "=" = false ->
  mismatch (k0 ++ String "=" k1) (String c "") = true ->
  capture (k0 ++ String "=" k1) (pre ++ g ++ String c r)
  = capture (k0 ++ String "=" k1) r.
Proof.
  intros Hp Hg Hc Hce Hm.
  rewrite capture_skip_concrete by assumption.
  replace (g ++ String c r) with ((g ++ String c "") ++ r)
    by (rewrite sapp_assoc; reflexivity).
  apply capture_skip. intros i t E Ht.
  (* t is a non-empty suffix of g ++ [c] *)
  revert i E. induction g as [|a g IH]; intros i E.
  - simpl in E. destruct i as [|b i].
    + simpl in E. subst t. simpl. apply (mismatch_app _ (String c "") r Hm).
    + simpl in E. injection E as _ E. destruct i; destruct t; simpl in E; congruence.
  - destruct i as [|b i].
    + simpl in E. subst t.
      change (String a (g ++ String c "") ++ r) with ((String a g ++ String c "") ++ r).
      rewrite sapp_assoc. change (String c "" ++ r) with (String c r).
      now apply mismatch_word.
    + simpl in E. injection E as _ E. simpl in Hg. apply andb_true_iff in Hg as [_ Hg].
      now apply (IH Hg i).
Qed.

Lemma take_word_app w r :
  all_chars is_word w = true ->
  (match r with "" => true | String a _ => negb (is_word a) end) = true ->
  take_word (w ++ r) = w.
Proof.
  induction w; simpl.
  - intros _. destruct r; [reflexivity|]. intros H. simpl.
    destruct (is_word a); [discriminate|reflexivity].
  - rewrite andb_true_iff. intros [Ha Hw] Hr. rewrite Ha, IHw by assumption. reflexivity.
Qed.

Lemma capture_hit k w r :
  wordy w = true ->
  (match r with "" => true | String a _ => negb (is_word a) end) = true ->
  capture k (k ++ w ++ r) = Some w.
Proof.
  intros Hw Hr. destruct w as [|a w]; [discriminate|].
  assert (E : capture_here k (k ++ String a w ++ r) = Some (String a w)).
  { unfold capture_here. rewrite strip_prefix_app.
    rewrite take_word_app by assumption. reflexivity. }
  destruct (k ++ String a w ++ r) eqn:Es; simpl; unfold capture_here in *; rewrite E;
    reflexivity.
Qed.

(* ------------------------------------------------------------------ *)
(* integers: printing / parsing (Coq's DecimalString)                 *)
Definition print_Z (z : Z) : string := NilZero.string_of_int (Z.to_int z).
Definition parse_Z (s : string) : option Z :=
  option_map Z.of_int (NilZero.int_of_string s).

Lemma parse_print_Z z : parse_Z (print_Z z) = Some z.
Proof.
  unfold parse_Z, print_Z. rewrite NilZero.isi.
  - simpl. now rewrite DecimalZ.of_to.
  - destruct z; simpl; try discriminate.
    intros [= H]. now apply (Unsigned.to_uint_nonnil p).
  - destruct z; simpl; try discriminate.
    intros [= H]. now apply (Unsigned.to_uint_nonnil p).
Qed.

Lemma uint_digits d : all_chars is_digit (NilEmpty.string_of_uint d) = true.
Proof. induction d; simpl; auto. Qed.

Lemma uint0_digits d : all_chars is_digit (NilZero.string_of_uint d) = true.
Proof. destruct d; try apply (uint_digits (_ _)); reflexivity. Qed.

Lemma uint0_nonempty d : NilZero.string_of_uint d <> "".
Proof. destruct d; simpl; discriminate. Qed.

Lemma print_Z_clean z : clean (print_Z z) = true.
Proof.
  unfold print_Z, clean. destruct (Z.to_int z); simpl.
  - eapply all_chars_impl; [apply digit_clean|apply uint0_digits].
  - eapply all_chars_impl; [apply digit_clean|apply uint0_digits].
Qed.

Lemma print_Z_nonempty z : print_Z z <> "".
Proof.
  unfold print_Z. destruct (Z.to_int z); simpl; [apply uint0_nonempty|discriminate].
Qed.

(* a printed integer field does not start a header ('!') *)
Lemma print_Z_not_bang z r : starts "!" (print_Z z ++ r) = false.
Proof.
  pose proof (print_Z_clean z) as H. pose proof (print_Z_nonempty z) as N.
  destruct (print_Z z); [congruence|]. simpl.
  unfold clean in H; simpl in H. apply andb_true_iff in H as [H _].
  rewrite Ascii.eqb_sym, (clean_not_bang _ H). reflexivity.
Qed.

(* parse an integer field after stripping blanks (Python int(' 12 ')) *)
Definition parse_Zf (f : string) : result Z := of_option "int" (parse_Z f).

Lemma parse_Zf_print z : parse_Zf (print_Z z) = Ok z.
Proof. unfold parse_Zf. now rewrite parse_print_Z. Qed.

(* ------------------------------------------------------------------ *)
(* the alternatives of femio's line-ignore regex (fem_data._read_files,
   pattern_ignore); which of them are present is translated from the source *)
Inductive ipat : Type :=
| IHash      (* #        : the line contains '#'                  *)
| IBlank     (* ^\s*$    : the line is blank                      *)
| IBang      (* ^!!      : the line starts with "!!"              *)
| IBangWs    (* ^\s*!!   : blanks, then "!!"                      *)
| IBangAny.  (* !!       : the line contains "!!"                 *)

Definition match_ipat (p : ipat) (l : string) : bool :=
  match p with
  | IHash => has_char "#" l
  | IBlank => all_ws l
  | IBang => starts "!!" l
  | IBangWs => starts "!!" (ltrim l)
  | IBangAny => contains "!!" l
  end.

Definition ignored (pats : list ipat) (l : string) : bool :=
  existsb (fun p => match_ipat p l) pats.

(* generic helpers on association lists keyed by strings *)
Fixpoint lookup {A} (k : string) (t : list (string * A)) : option A :=
  match t with
  | [] => None
  | (k', v) :: r => if String.eqb k k' then Some v else lookup k r
  end.

(* Python dict assignment d[k] = v : replace in place or append *)
Fixpoint dict_set {A} (k : string) (v : A) (t : list (string * A)) : list (string * A) :=
  match t with
  | [] => [(k, v)]
  | (k', v') :: r => if String.eqb k k' then (k, v) :: r else (k', v') :: dict_set k v r
  end.

Definition mem_str (k : string) (l : list string) : bool := existsb (String.eqb k) l.

(* ------------------------------------------------------------------ *)
(* more capture lemmas                                                *)
Lemma sapp_nil (s : string) : s ++ "" = s.
Proof. induction s; simpl; [reflexivity|now rewrite IHs]. Qed.

Lemma capture_hit_end k w : wordy w = true -> capture k (k ++ w) = Some w.
Proof.
  intros H. rewrite <- (sapp_nil w) at 1. now apply capture_hit.
Qed.

Lemma strip_word_none k0 k1 g :
  all_chars is_word g = true -> strip_prefix (k0 ++ String "=" k1) g = None.
Proof.
  revert g. induction k0 as [|b k0 IH]; intros g Hg.
  - destruct g as [|a g]; simpl; [reflexivity|].
    simpl in Hg. apply andb_true_iff in Hg as [Ha _].
    destruct (Ascii.eqb_spec "=" a); [subst; discriminate|reflexivity].
  - destruct g as [|a g]; simpl; [reflexivity|].
    simpl in Hg. apply andb_true_iff in Hg as [_ Hg].
    destruct (Ascii.eqb b a); [now apply IH|reflexivity].
Qed.

(* a word (no '=') contains no match of a key that contains '=' *)
Lemma capture_word_none k0 k1 g :
  all_chars is_word g = true -> capture (k0 ++ String "=" k1) g = None.
Proof.
  induction g as [|a g IH]; intros Hg.
  - cbn [capture]. unfold capture_here. now rewrite strip_word_none.
  - cbn [capture]. unfold capture_here. rewrite strip_word_none by assumption.
    apply IH. simpl in Hg. now apply andb_true_iff in Hg as [_ Hg].
Qed.

(* ------------------------------------------------------------------ *)
(* padding with blanks is undone by trim                              *)
Lemma ltrim_ws_app l s : all_ws l = true -> ltrim (l ++ s) = ltrim s.
Proof.
  induction l; simpl; [reflexivity|]. unfold all_ws in *. simpl.
  rewrite andb_true_iff. intros [Ha Hl]. rewrite Ha. now apply IHl.
Qed.

Lemma rtrim_ws r : all_ws r = true -> rtrim r = "".
Proof.
  induction r; simpl; [reflexivity|]. unfold all_ws in *. simpl.
  rewrite andb_true_iff. intros [Ha Hr]. rewrite (IHr Hr), Ha. reflexivity.
Qed.

Lemma rtrim_app_ws s r :
  clean s = true -> s <> "" -> all_ws r = true -> rtrim (s ++ r) = s.
Proof.
  induction s as [|a s IH]; [congruence|]. intros Hc _ Hr.
  unfold clean in Hc. simpl in Hc. apply andb_true_iff in Hc as [Ha Hs].
  change (String a s ++ r) with (String a (s ++ r)). cbn [rtrim].
  destruct s as [|b s'].
  - simpl. rewrite (rtrim_ws _ Hr), (clean_not_ws _ Ha). reflexivity.
  - rewrite IH by (auto; discriminate). reflexivity.
Qed.

Lemma trim_padded l s r :
  all_ws l = true -> all_ws r = true -> clean s = true -> s <> "" ->
  trim (l ++ s ++ r) = s.
Proof.
  intros Hl Hr Hc Hn. unfold trim. rewrite ltrim_ws_app by assumption.
  destruct s as [|a s']; [congruence|].
  assert (Ha : is_ws a = false).
  { unfold clean in Hc. simpl in Hc. apply andb_true_iff in Hc as [Ha _].
    now apply clean_not_ws. }
  change (String a s' ++ r) with (String a (s' ++ r)). cbn [ltrim]. rewrite Ha.
  change (String a (s' ++ r)) with (String a s' ++ r). now apply rtrim_app_ws.
Qed.
