(* C01 proofs, part 7: the reader does not depend on a block being split into
   two adjacent blocks with the same header line (!NODE, !ELEMENT always;
   !EGROUP / !INITIAL CONDITION when femio merges blocks of the same name, as
   translated; never !SECTION, where every header line is one section). *)
From Coq Require Import String Ascii List Bool ZArith Lia.
From FV.C01 Require Import Str Dec Model ProofsLines ProofsAux ProofsFmt.
From FV.C01.gen Require Import Tables.
Import ListNotations.
Local Open Scope string_scope.

(* ------------------------------------------------------------------ *)
(* lines -> blocks                                                    *)
Lemma take_rows_app_header x h z :
  is_header h = true -> take_rows (x ++ h :: z) = take_rows x.
Proof.
  intros H. induction x as [|l x IH]; simpl; [now rewrite H|].
  destruct (is_header l); [reflexivity|now rewrite IH].
Qed.

Lemma split_blocks_app_header x h z :
  is_header h = true ->
  split_blocks (x ++ h :: z) = (split_blocks x ++ split_blocks (h :: z))%list.
Proof.
  intros H. induction x as [|l x IH]; [reflexivity|].
  change ((l :: x) ++ h :: z)%list with (l :: (x ++ h :: z))%list. cbn [split_blocks].
  rewrite IH, (take_rows_app_header x h z H).
  destruct (is_header l); reflexivity.
Qed.

Definition pbf (b : block) : pblock := (fst b, map fields (snd b)).

Lemma parse_blocks_split pats a h r1 c :
  is_header h = true -> keep pats h = true ->
  (forall r, In r r1 -> is_header r = false /\ keep pats r = true) ->
  exists PA PB,
    parse_blocks pats (a ++ h :: r1 ++ c)
    = (PA ++ (h, map fields r1 ++ map fields (take_rows (filter (keep pats) c))) :: PB)%list /\
    parse_blocks pats (a ++ h :: r1 ++ h :: c)
    = (PA ++ (h, map fields r1) :: (h, map fields (take_rows (filter (keep pats) c))) :: PB)%list.
Proof.
  intros Hh Hk Hr.
  assert (Fr : filter (keep pats) r1 = r1) by (apply filter_all; intros r Hin; now apply Hr).
  assert (Nr : forall r, In r r1 -> is_header r = false) by (intros r Hin; now apply Hr).
  exists (map pbf (split_blocks (filter (keep pats) a))),
         (map pbf (split_blocks (filter (keep pats) c))).
  unfold parse_blocks. fold pbf.
  split.
  - rewrite filter_app. cbn [filter]. rewrite Hk, filter_app, Fr.
    rewrite split_blocks_app_header by assumption. cbn [split_blocks]. rewrite Hh.
    rewrite take_rows_app, split_blocks_rows by assumption.
    rewrite map_app. cbn [map]. unfold pbf. cbn [fst snd]. now rewrite map_app.
  - rewrite filter_app. cbn [filter]. rewrite Hk, filter_app, Fr. cbn [filter]. rewrite Hk.
    rewrite split_blocks_app_header by assumption. cbn [split_blocks]. rewrite Hh.
    rewrite take_rows_app by assumption.
    change (take_rows (h :: filter (keep pats) c)) with
      (if is_header h then [] else h :: take_rows (filter (keep pats) c)).
    rewrite Hh, app_nil_r.
    rewrite split_blocks_rows by assumption. cbn [split_blocks]. rewrite Hh.
    rewrite map_app. cbn [map]. unfold pbf. cbn [fst snd]. reflexivity.
Qed.

(* ------------------------------------------------------------------ *)
(* the blocks a key selects, before and after the split               *)
Inductive split_of : list pblock -> list pblock -> Prop :=
| so_same S : split_of S S
| so_split SA SB h X Y :
    split_of (SA ++ (h, (X ++ Y)%list) :: SB)%list (SA ++ (h, X) :: (h, Y) :: SB)%list.

Lemma selected_split key PA PB h X Y :
  split_of (selected key (PA ++ (h, (X ++ Y)%list) :: PB)) (selected key (PA ++ (h, X) :: (h, Y) :: PB)).
Proof.
  unfold selected. rewrite !filter_app. cbn [filter fst].
  destruct (contains key h); constructor.
Qed.

Lemma selected_split_not key PA PB h X Y :
  contains key h = false ->
  selected key (PA ++ (h, X) :: (h, Y) :: PB) = selected key (PA ++ (h, (X ++ Y)%list) :: PB).
Proof.
  intros H. unfold selected. rewrite !filter_app. cbn [filter fst]. now rewrite H.
Qed.

(* concatenated data are the same *)
Lemma data_split S S' : split_of S S' -> concat (map snd S') = concat (map snd S).
Proof.
  destruct 1; [reflexivity|]. rewrite !map_app, !concat_app. cbn [map concat snd].
  f_equal. apply app_assoc.
Qed.

(* ------------------------------------------------------------------ *)
(* merging by name                                                    *)
Lemma dict_append_twice {A} k (a b : list A) d :
  dict_append k b (dict_append k a d) = dict_append k (a ++ b)%list d.
Proof.
  induction d as [|[k' v] d IH]; simpl.
  - now rewrite String.eqb_refl.
  - destruct (String.eqb k k') eqn:E; simpl; rewrite E; [now rewrite app_assoc|now rewrite IH].
Qed.

Local Notation dapp := (fun acc tc => dict_append (fst tc) (snd tc) acc).

Lemma fold_split {A} (l1 l2 : list (string * list A)) k a b acc :
  fold_left dapp (l1 ++ (k, a) :: (k, b) :: l2)%list acc
  = fold_left dapp (l1 ++ (k, (a ++ b)%list) :: l2)%list acc.
Proof.
  rewrite !fold_left_app. cbn [fold_left fst snd].
  now rewrite dict_append_twice.
Qed.

Definition cap (key h : string) : string :=
  match capture key h with Some w => w | None => "" end.

Definition aligned (key : string) (S : list pblock) : bool :=
  forallb (fun b => match capture key (fst b) with Some _ => true | None => false end) S.

Lemma captures_aligned key S :
  aligned key S = true -> captures key (map fst S) = map (fun b => cap key (fst b)) S.
Proof.
  unfold aligned, captures, cap. induction S as [|b S IH]; simpl; [reflexivity|].
  rewrite andb_true_iff. intros [Hb HS]. destruct (capture key (fst b)); [|discriminate].
  simpl. now rewrite IH.
Qed.

Lemma aligned_split key SA SB h X Y :
  aligned key (SA ++ (h, (X ++ Y)%list) :: SB) = aligned key (SA ++ (h, X) :: (h, Y) :: SB).
Proof.
  unfold aligned. rewrite !forallb_app. cbn [forallb fst].
  destruct (capture key h); cbn; [reflexivity|now rewrite !andb_false_r].
Qed.

Lemma mapM_app {A B} (f : A -> result B) a b :
  mapM f (a ++ b) = (xa <- mapM f a ;; xb <- mapM f b ;; Ok (xa ++ xb)%list).
Proof.
  induction a as [|x a IH]; simpl.
  - destruct (mapM f b); reflexivity.
  - destruct (f x); simpl; [|reflexivity]. rewrite IH.
    destruct (mapM f a); simpl; [|reflexivity]. destruct (mapM f b); reflexivity.
Qed.

Lemma mapM_length {A B} (f : A -> result B) l r : mapM f l = Ok r -> length r = length l.
Proof.
  revert r. induction l as [|a l IH]; simpl; intros r H; [now injection H as <-|].
  destruct (f a); simpl in H; [|discriminate]. destruct (mapM f l) eqn:E; simpl in H; [|discriminate].
  injection H as <-. simpl. now rewrite (IH _ eq_refl).
Qed.

Lemma combine_app {A B} (a1 a2 : list A) (b1 b2 : list B) :
  length a1 = length b1 -> combine (a1 ++ a2) (b1 ++ b2) = (combine a1 b1 ++ combine a2 b2)%list.
Proof.
  revert b1. induction a1; intros [|y b1] H; simpl in *; try discriminate; [reflexivity|].
  now rewrite IHa1 by lia.
Qed.

(* parse each block, then merge by name: the same before and after the split *)
Lemma parsed_merge_split {R T} (g : list (list string) -> result (list R)) key
      (K : list (string * list R) -> result T) SA SB h (X Y : list (list string)) :
  g (X ++ Y)%list = (px <- g X ;; py <- g Y ;; Ok (px ++ py)%list) ->
  let F := fun S : list pblock =>
             parsed <- mapM g (map snd S) ;;
             K (fold_left dapp (combine (map (fun b => cap key (fst b)) S) parsed) []) in
  F (SA ++ (h, X) :: (h, Y) :: SB)%list = F (SA ++ (h, (X ++ Y)%list) :: SB)%list.
Proof.
  intros Hg F. unfold F. rewrite !map_app. cbn [map fst snd]. rewrite !mapM_app. cbn [mapM].
  rewrite Hg.
  destruct (mapM g (map snd SA)) as [pa|e] eqn:Ea; cbn [bind]; [|reflexivity].
  destruct (g X) as [px|e]; cbn [bind]; [|reflexivity].
  destruct (g Y) as [py|e]; cbn [bind]; [|reflexivity].
  destruct (mapM g (map snd SB)) as [pb|e]; cbn [bind]; [|reflexivity].
  pose proof (mapM_length _ _ _ Ea) as L. rewrite map_length in L.
  rewrite !combine_app by (now rewrite map_length). cbn [combine].
  now rewrite fold_split.
Qed.

Lemma selected_yes key PA PB h Z :
  contains key h = true ->
  selected key (PA ++ (h, Z) :: PB) = (selected key PA ++ (h, Z) :: selected key PB)%list.
Proof. intros H. unfold selected. rewrite filter_app. cbn [filter fst]. now rewrite H. Qed.

Lemma selected_yes2 key PA PB h Z1 Z2 :
  contains key h = true ->
  selected key (PA ++ (h, Z1) :: (h, Z2) :: PB)
  = (selected key PA ++ (h, Z1) :: (h, Z2) :: selected key PB)%list.
Proof. intros H. unfold selected. rewrite filter_app. cbn [filter fst]. now rewrite H. Qed.

(* rewriting modulo the abbreviation [pblock] in implicit type arguments *)
Ltac rwp L := let D := fresh "D" in pose proof L as D; cbv [pblock] in D; rewrite D; clear D.

(* ------------------------------------------------------------------ *)
(* the readers of the individual sections                             *)
Section Split.
Variables (PA PB : list pblock) (h : string) (X Y : list (list string)).
Let bs := (PA ++ (h, (X ++ Y)%list) :: PB)%list.
Let bs' := (PA ++ (h, X) :: (h, Y) :: PB)%list.

Lemma read_nodes_split : read_nodes bs' = read_nodes bs.
Proof.
  unfold read_nodes, extract_data, extract_blocks. subst bs bs'. cbv [pblock] in *.
  now rwp (data_split _ _ (selected_split "!NODE" PA PB h X Y)).
Qed.

Lemma parse_elem_rows_app :
  X <> [] -> Y <> [] ->
  parse_elem_rows (X ++ Y)%list
  = (px <- parse_elem_rows X ;; py <- parse_elem_rows Y ;; Ok (px ++ py)%list).
Proof.
  intros HX HY. unfold parse_elem_rows.
  destruct X as [|x X']; [congruence|]. destruct Y as [|y Y']; [congruence|].
  change ((x :: X') ++ y :: Y')%list with (x :: (X' ++ y :: Y'))%list.
  change (x :: (X' ++ y :: Y'))%list with ((x :: X') ++ y :: Y')%list at 2.
  cbv iota. apply mapM_app.
Qed.

Lemma forallb_dup {A} (f : A -> bool) a l1 l2 :
  forallb f (l1 ++ a :: a :: l2) = forallb f (l1 ++ a :: l2).
Proof. rewrite !forallb_app. cbn [forallb]. destruct (f a); reflexivity. Qed.

Lemma read_elements_split :
  (contains "!ELEMENT" h = true ->
   X <> [] /\ Y <> [] /\ aligned "TYPE=" (selected "!ELEMENT" bs) = true) ->
  read_elements bs' = read_elements bs.
Proof.
  intros H. unfold read_elements, extract_headers, extract_data, extract_blocks.
  destruct (contains "!ELEMENT" h) eqn:E.
  2:{ subst bs bs'. cbv [pblock] in *. now rwp (selected_split_not "!ELEMENT" PA PB h X Y E). }
  destruct (H eq_refl) as (HX & HY & HA). subst bs bs'. cbv [pblock] in *.
  pose proof (selected_yes "!ELEMENT" PA PB h (X ++ Y)%list E) as D1. cbv [pblock] in D1.
  rewrite D1 in *. clear D1.
  rwp (selected_yes2 "!ELEMENT" PA PB h X Y E).
  set (SA := selected "!ELEMENT" PA) in *. set (SB := selected "!ELEMENT" PB) in *.
  pose proof HA as HA'. rewrite aligned_split in HA'.
  rewrite (captures_aligned _ _ HA), (captures_aligned _ _ HA').
  rwp (data_split _ _ (so_split SA SB h X Y)).
  pose proof (fun SA0 => parsed_merge_split parse_elem_rows "TYPE="
                (fun d => d2 <- mapM (fun kv => ty <- convert_type (fst kv) ;; Ok (ty, snd kv)) d ;;
                          Ok (in_type_order d2))
                SA0 SB h X Y (parse_elem_rows_app HX HY)) as PM.
  cbv zeta in PM. cbv [pblock] in PM.
  destruct SA as [|b0 SA'].
  - specialize (PM []). cbn [map app fst snd] in *.
    cbn [forallb]. rewrite !String.eqb_refl. cbn [andb].
    destruct (forallb (String.eqb (cap "TYPE=" h)) (map (fun b : string * list (list string) => cap "TYPE=" (fst b)) SB));
      [reflexivity|]. f_equal. exact PM.
  - specialize (PM (b0 :: SA')). rewrite !map_app in *. cbn [map app fst snd] in *.
    cbn [forallb]. rewrite forallb_dup.
    destruct (String.eqb (cap "TYPE=" (fst b0)) (cap "TYPE=" (fst b0))
              && forallb (String.eqb (cap "TYPE=" (fst b0)))
                   (map (fun b : string * list (list string) => cap "TYPE=" (fst b)) SA' ++
                    cap "TYPE=" h :: map (fun b : string * list (list string) => cap "TYPE=" (fst b)) SB)%list);
      [reflexivity|]. f_equal. exact PM.
Qed.

Lemma match_nil_iff {A B} (l1 l2 : list A) (k e : B) :
  (l1 = [] <-> l2 = []) ->
  match l1 with _ :: _ => e | [] => k end = match l2 with _ :: _ => e | [] => k end.
Proof.
  destruct l1, l2; intros [H1 H2]; try reflexivity;
    [specialize (H1 eq_refl)|specialize (H2 eq_refl)]; discriminate.
Qed.

Lemma captures_nil_split key SA SB :
  (captures key (map fst (SA ++ (h, X) :: (h, Y) :: SB)) = [])
  <-> (captures key (map fst (SA ++ (h, (X ++ Y)%list) :: SB)) = []).
Proof.
  unfold captures. rewrite !map_app, !flat_map_app. cbn [map flat_map fst].
  destruct (capture key h); cbn [app]; [|tauto].
  split; intros H; apply app_eq_nil in H as [_ H]; discriminate.
Qed.

Lemma parse_ints_rank1_app :
  X <> [] -> Y <> [] ->
  parse_ints_rank1 (X ++ Y)%list
  = (px <- parse_ints_rank1 X ;; py <- parse_ints_rank1 Y ;; Ok (px ++ py)%list).
Proof.
  intros HX HY. unfold parse_ints_rank1.
  destruct X as [|x X']; [congruence|]. destruct Y as [|y Y']; [congruence|].
  change ((x :: X') ++ y :: Y')%list with (x :: (X' ++ y :: Y'))%list.
  change (x :: (X' ++ y :: Y'))%list with ((x :: X') ++ y :: Y')%list at 2.
  cbv iota. rewrite mapM_app.
  destruct (mapM (mapM parse_Zf) (x :: X')); cbn [bind]; [|reflexivity].
  destruct (mapM (mapM parse_Zf) (y :: Y')); cbn [bind]; [|reflexivity].
  now rewrite concat_app.
Qed.

Lemma read_egroups_split ids :
  (contains "!EGROUP" h = true ->
   merge_egroups = true /\ X <> [] /\ Y <> [] /\
   aligned "EGRP=" (selected "!EGROUP" bs) = true) ->
  read_egroups bs' ids = read_egroups bs ids.
Proof.
  intros H. unfold read_egroups, extract_headers, extract_blocks. subst bs bs'. cbv [pblock] in *.
  (* EGRP= in !ELEMENT headers: present in both or in neither *)
  assert (E0 : forall (A : Type) (k : A) (e : A),
            match captures "EGRP=" (map fst (selected "!ELEMENT" (PA ++ (h, X) :: (h, Y) :: PB))) with
            | _ :: _ => e | [] => k end
            = match captures "EGRP=" (map fst (selected "!ELEMENT" (PA ++ (h, (X ++ Y)%list) :: PB))) with
              | _ :: _ => e | [] => k end).
  { intros A k e. destruct (contains "!ELEMENT" h) eqn:E.
    - pose proof (selected_yes "!ELEMENT" PA PB h (X ++ Y)%list E) as D1.
      pose proof (selected_yes2 "!ELEMENT" PA PB h X Y E) as D2. cbv [pblock] in D1, D2.
      rewrite D1, D2.
      pose proof (captures_nil_split "EGRP=" (selected "!ELEMENT" PA) (selected "!ELEMENT" PB)) as N.
      cbv [pblock] in N.
      apply match_nil_iff. exact N.
    - now rwp (selected_split_not "!ELEMENT" PA PB h X Y E). }
  rewrite E0. clear E0.
  destruct (captures "EGRP=" (map fst (selected "!ELEMENT" (PA ++ (h, (X ++ Y)%list) :: PB))));
    [|reflexivity].
  destruct (contains "!EGROUP" h) eqn:E.
  2:{ now rwp (selected_split_not "!EGROUP" PA PB h X Y E). }
  destruct (H eq_refl) as (Hm & HX & HY & HA). rewrite Hm.
  pose proof (selected_yes "!EGROUP" PA PB h (X ++ Y)%list E) as D1. cbv [pblock] in D1.
  rewrite D1 in *. clear D1.
  rwp (selected_yes2 "!EGROUP" PA PB h X Y E).
  set (SA := selected "!EGROUP" PA) in *. set (SB := selected "!EGROUP" PB) in *.
  pose proof HA as HA'. rewrite aligned_split in HA'.
  rewrite (captures_aligned _ _ HA), (captures_aligned _ _ HA').
  pose proof (parsed_merge_split parse_ints_rank1 "EGRP="
                (fun pairs => Ok (fold_left (fun d kv => dict_set (fst kv) (snd kv) d) pairs
                                            [("ALL", ids)]))
                SA SB h X Y (parse_ints_rank1_app HX HY)) as PM.
  cbv zeta in PM. cbv [pblock] in PM. exact PM.
Qed.

Lemma read_sections_split :
  contains "!SECTION" h = false -> read_sections bs' = read_sections bs.
Proof.
  intros E. unfold read_sections, extract_headers. subst bs bs'. cbv [pblock] in *.
  now rwp (selected_split_not "!SECTION" PA PB h X Y E).
Qed.

Lemma read_initial_split nodes :
  (contains "!INITIAL CONDITION" h = true ->
   merge_initial = true /\ aligned "TYPE=" (selected "!INITIAL CONDITION" bs) = true) ->
  read_initial bs' nodes = read_initial bs nodes.
Proof.
  intros H. unfold read_initial, extract_headers, extract_blocks. subst bs bs'. cbv [pblock] in *.
  destruct (contains "!INITIAL CONDITION" h) eqn:E.
  2:{ now rwp (selected_split_not "!INITIAL CONDITION" PA PB h X Y E). }
  destruct (H eq_refl) as (Hm & HA). rewrite Hm.
  pose proof (selected_yes "!INITIAL CONDITION" PA PB h (X ++ Y)%list E) as D1. cbv [pblock] in D1.
  rewrite D1 in *. clear D1.
  rwp (selected_yes2 "!INITIAL CONDITION" PA PB h X Y E).
  set (SA := selected "!INITIAL CONDITION" PA) in *.
  set (SB := selected "!INITIAL CONDITION" PB) in *.
  pose proof HA as HA'. rewrite aligned_split in HA'.
  rewrite (captures_aligned _ _ HA), (captures_aligned _ _ HA').
  assert (EM : fold_left dapp
                 (combine (map (fun b : string * list (list string) => cap "TYPE=" (fst b))
                               (SA ++ (h, X) :: (h, Y) :: SB))
                          (map snd (SA ++ (h, X) :: (h, Y) :: SB))) []
               = fold_left dapp
                   (combine (map (fun b : string * list (list string) => cap "TYPE=" (fst b))
                                 (SA ++ (h, (X ++ Y)%list) :: SB))
                            (map snd (SA ++ (h, (X ++ Y)%list) :: SB))) []).
  { rewrite !map_app. cbn [map fst snd].
    rewrite !combine_app by (now rewrite !map_length). cbn [combine]. apply fold_split. }
  cbv [pblock] in *. rewrite EM. reflexivity.
Qed.

(* the whole reader *)
Theorem read_blocks_split :
  contains "!SECTION" h = false ->
  (contains "!ELEMENT" h = true ->
   X <> [] /\ Y <> [] /\ aligned "TYPE=" (selected "!ELEMENT" bs) = true) ->
  (contains "!EGROUP" h = true ->
   merge_egroups = true /\ X <> [] /\ Y <> [] /\
   aligned "EGRP=" (selected "!EGROUP" bs) = true) ->
  (contains "!INITIAL CONDITION" h = true ->
   merge_initial = true /\ aligned "TYPE=" (selected "!INITIAL CONDITION" bs) = true) ->
  read_blocks bs' = read_blocks bs.
Proof.
  intros Hs He Hg Hi. unfold read_blocks.
  rewrite read_nodes_split, (read_elements_split He), (read_sections_split Hs).
  destruct (read_nodes bs) as [nodes|]; cbn [bind]; [|reflexivity].
  destruct (read_elements bs) as [elems|]; cbn [bind]; [|reflexivity].
  destruct (element_ids elems) as [ids|]; cbn [bind]; [|reflexivity].
  rewrite (read_egroups_split ids Hg).
  destruct (read_egroups bs ids); cbn [bind]; [|reflexivity].
  destruct (read_sections bs); cbn [bind]; [|reflexivity].
  now rewrite (read_initial_split nodes Hi).
Qed.
End Split.

(* ------------------------------------------------------------------ *)
(* lines                                                              *)
(* side conditions of splitting the block that starts at header line h (rows
   r1, then whatever rows follow in c) into two blocks with header h *)
Definition split_ok (pats : list ipat) (a : list string) (h : string) (r1 c : list string) : Prop :=
  let bs := parse_blocks pats (a ++ h :: r1 ++ c) in
  let rest := take_rows (filter (keep pats) c) in
  is_header h = true /\ keep pats h = true /\
  (forall r, In r r1 -> is_header r = false /\ keep pats r = true) /\
  contains "!SECTION" h = false /\
  (contains "!ELEMENT" h = true ->
   r1 <> [] /\ rest <> [] /\ aligned "TYPE=" (selected "!ELEMENT" bs) = true) /\
  (contains "!EGROUP" h = true ->
   merge_egroups = true /\ r1 <> [] /\ rest <> [] /\
   aligned "EGRP=" (selected "!EGROUP" bs) = true) /\
  (contains "!INITIAL CONDITION" h = true ->
   merge_initial = true /\ aligned "TYPE=" (selected "!INITIAL CONDITION" bs) = true).

Lemma map_nonnil {A B} (f : A -> B) l : l <> [] -> map f l <> [].
Proof. destruct l; [congruence|discriminate]. Qed.

Theorem read_split pats a h r1 c :
  split_ok pats a h r1 c ->
  read_msh_with pats (a ++ h :: r1 ++ h :: c) = read_msh_with pats (a ++ h :: r1 ++ c).
Proof.
  unfold split_ok. intros (Hh & Hk & Hr & Hs & He & Hg & Hi).
  destruct (parse_blocks_split pats a h r1 c Hh Hk Hr) as (PA & PB & E1 & E2).
  unfold read_msh_with. rewrite E1 in *. rewrite E2.
  apply read_blocks_split; [assumption| | |assumption].
  - intros E. destruct (He E) as (A1 & A2 & A3). repeat split; auto using map_nonnil.
  - intros E. destruct (Hg E) as (A0 & A1 & A2 & A3). repeat split; auto using map_nonnil.
Qed.

(* formatting-equivalent files *)
Inductive fmt_step (pats : list ipat) : list string -> list string -> Prop :=
| fs_ins a l b : ignored pats l = true -> fmt_step pats (a ++ b) (a ++ l :: b)
| fs_pad ls ls' : Forall2 (line_equiv pats) ls ls' -> fmt_step pats ls ls'
| fs_split a h r1 c :
    split_ok pats a h r1 c -> fmt_step pats (a ++ h :: r1 ++ c) (a ++ h :: r1 ++ h :: c).

Inductive fmt_equiv (pats : list ipat) : list string -> list string -> Prop :=
| fe_step ls ls' : fmt_step pats ls ls' -> fmt_equiv pats ls ls'
| fe_refl ls : fmt_equiv pats ls ls
| fe_sym ls ls' : fmt_equiv pats ls ls' -> fmt_equiv pats ls' ls
| fe_trans l1 l2 l3 : fmt_equiv pats l1 l2 -> fmt_equiv pats l2 l3 -> fmt_equiv pats l1 l3.

Theorem read_format_insensitive pats ls ls' :
  fmt_equiv pats ls ls' -> read_msh_with pats ls = read_msh_with pats ls'.
Proof.
  induction 1 as [ls ls' S| | |]; try congruence.
  destruct S.
  - symmetry. now apply read_insert_ignored.
  - now apply read_equiv.
  - symmetry. now apply read_split.
Qed.
