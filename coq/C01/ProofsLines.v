(* C01 proofs, part 1: lines <-> blocks (filter of ignored lines,
   to_header_data, extract_data) — generic in the block contents. *)
From Coq Require Import String Ascii List Bool ZArith Lia.
From FV.C01 Require Import Str Dec Model.
Import ListNotations.
Local Open Scope string_scope.

(* a line the reader keeps whatever alternatives the ignore pattern has:
   no '#', not blank, no "!!" *)
Definition safe_line (l : string) : bool :=
  negb (has_char "#" l) && negb (all_ws l) && negb (contains "!!" l).

Lemma starts_contains k s : starts k s = true -> contains k s = true.
Proof. destruct s; simpl; intros ->; reflexivity. Qed.

Lemma contains_ltrim k s : contains k (ltrim s) = true -> contains k s = true.
Proof.
  induction s; simpl; [auto|]. destruct (is_ws a).
  - intros H. rewrite (IHs H). apply orb_true_r.
  - simpl. auto.
Qed.

Lemma safe_kept pats l : safe_line l = true -> keep pats l = true.
Proof.
  unfold safe_line, keep, ignored. rewrite !andb_true_iff, !negb_true_iff.
  intros [[Hh Hw] Hb].
  induction pats as [|p ps IH]; [reflexivity|]. cbn [existsb]. rewrite IH, orb_false_r.
  destruct p; cbn [match_ipat]; auto.
  - destruct (starts "!!" l) eqn:E; [|reflexivity].
    apply starts_contains in E. congruence.
  - destruct (starts "!!" (ltrim l)) eqn:E; [|reflexivity].
    apply starts_contains, contains_ltrim in E. congruence.
Qed.

Lemma filter_all {A} (f : A -> bool) l :
  (forall x, In x l -> f x = true) -> filter f l = l.
Proof.
  induction l; simpl; intros H; [reflexivity|].
  rewrite (H a) by now left. rewrite IHl by (intros; apply H; now right). reflexivity.
Qed.

Lemma filter_none {A} (f : A -> bool) l :
  (forall x, In x l -> f x = false) -> filter f l = [].
Proof.
  induction l; simpl; intros H; [reflexivity|].
  rewrite (H a) by now left. apply IHl. intros; apply H; now right.
Qed.

(* ------------------------------------------------------------------ *)
Definition good_block (b : block) : Prop :=
  is_header (fst b) = true /\ safe_line (fst b) = true /\
  forall r, In r (snd b) -> is_header r = false /\ safe_line r = true.

Lemma take_rows_app rows rest :
  (forall r, In r rows -> is_header r = false) ->
  take_rows (rows ++ rest) = (rows ++ take_rows rest)%list.
Proof.
  induction rows; simpl; intros H; [reflexivity|].
  rewrite (H a) by now left. rewrite IHrows by (intros; apply H; now right). reflexivity.
Qed.

Lemma split_blocks_rows rows rest :
  (forall r, In r rows -> is_header r = false) ->
  split_blocks (rows ++ rest) = split_blocks rest.
Proof.
  induction rows; simpl; intros H; [reflexivity|].
  rewrite (H a) by now left. apply IHrows. intros; apply H; now right.
Qed.

Lemma take_rows_flatten bs :
  (forall b, In b bs -> is_header (fst b) = true) -> take_rows (flatten bs) = [].
Proof.
  destruct bs as [|b bs]; [reflexivity|]. intros H. unfold flatten. simpl.
  rewrite (H b) by now left. reflexivity.
Qed.

Lemma split_flatten bs :
  (forall b, In b bs -> good_block b) -> split_blocks (flatten bs) = bs.
Proof.
  induction bs as [|b bs IH]; intros H; [reflexivity|].
  destruct (H b (or_introl eq_refl)) as (Hh & _ & Hr).
  unfold flatten. simpl. fold (flatten bs). rewrite Hh.
  rewrite take_rows_app by (intros; now apply Hr).
  rewrite take_rows_flatten by (intros b' Hb'; apply (H b'); now right).
  rewrite app_nil_r.
  rewrite split_blocks_rows by (intros; now apply Hr).
  rewrite IH by (intros; apply H; now right). now destruct b.
Qed.

Lemma In_flatten l bs :
  In l (flatten bs) -> exists b, In b bs /\ (l = fst b \/ In l (snd b)).
Proof.
  unfold flatten. intros H. apply in_concat in H as (x & Hx & Hl).
  apply in_map_iff in Hx as (b & <- & Hb). exists b. split; [assumption|].
  destruct Hl as [<-|Hl]; [now left|now right].
Qed.

Lemma parse_flatten pats bs :
  (forall b, In b bs -> good_block b) ->
  parse_blocks pats (flatten bs) = map (fun b => (fst b, map fields (snd b))) bs.
Proof.
  intros H. unfold parse_blocks. rewrite filter_all.
  - now rewrite split_flatten.
  - intros l Hl. apply In_flatten in Hl as (b & Hb & Hl).
    destruct (H b Hb) as (_ & Hs & Hr). apply safe_kept.
    destruct Hl as [->|Hl]; [assumption|now apply Hr].
Qed.

(* ------------------------------------------------------------------ *)
(* selection of blocks by key                                         *)
Lemma selected_app key a b :
  selected key (a ++ b) = (selected key a ++ selected key b)%list.
Proof. unfold selected. apply filter_app. Qed.

Lemma selected_all key bs :
  (forall b, In b bs -> contains key (fst b) = true) -> selected key bs = bs.
Proof. intros. now apply filter_all. Qed.

Lemma selected_none key bs :
  (forall b, In b bs -> contains key (fst b) = false) -> selected key bs = [].
Proof. intros. now apply filter_none. Qed.
