(* C01 proofs, part 6: what the reader does after parsing —
   remove_useless_nodes and the section check ([finish]) keep the mesh:
   elements, groups, sections untouched; the nodes kept are exactly the
   referenced ones, each with its own coordinates; initial values stay bound
   to their node ids (when nodal data are re-attached by id, as translated). *)
From Coq Require Import String Ascii List Bool ZArith Lia Permutation Sorted.
From Coq Require Import Sorting.Mergesort Orders RelationClasses.
From FV.C01 Require Import Str Dec Model ProofsAux ProofsText.
From FV.C01.gen Require Import Tables.
Import ListNotations.
Local Open Scope string_scope.

(* ------------------------------------------------------------------ *)
(* sorted lists                                                       *)
Definition zle (a b : Z) : Prop := is_true (Z.leb a b).
Definition pzle (a b : Z * nat) : Prop := is_true (Z.leb (fst a) (fst b)).

Lemma zle_trans : Transitive (fun a b => is_true (ZOrder.leb a b)).
Proof. intros a b c. unfold is_true, ZOrder.leb. rewrite !Z.leb_le. lia. Qed.
Lemma pzle_trans : Transitive (fun a b => is_true (ZNOrder.leb a b)).
Proof. intros a b c. unfold is_true, ZNOrder.leb. rewrite !Z.leb_le. lia. Qed.

Lemma zsort_sorted l : StronglySorted Z.le (ZSort.sort l).
Proof.
  pose proof (ZSort.StronglySorted_sort l zle_trans) as H.
  induction H; constructor; [assumption|].
  eapply Forall_impl; [|eassumption]. intros x Hx. now apply Z.leb_le.
Qed.

Lemma znsort_sorted l :
  StronglySorted (fun a b => (fst a <= fst b)%Z) (ZNSort.sort l).
Proof.
  pose proof (ZNSort.StronglySorted_sort l pzle_trans) as H.
  induction H; constructor; [assumption|].
  eapply Forall_impl; [|eassumption]. intros x Hx. now apply Z.leb_le.
Qed.

Lemma uniq_In x l : In x (uniq l) <-> In x l.
Proof.
  induction l as [|a [|b t] IH]; [tauto|simpl; tauto|].
  change (uniq (a :: b :: t)) with (if Z.eqb a b then uniq (b :: t) else a :: uniq (b :: t)).
  destruct (Z.eqb_spec a b).
  - subst. rewrite IH. simpl. tauto.
  - simpl In at 1. rewrite IH. simpl. tauto.
Qed.

Lemma uniq_sorted l : StronglySorted Z.le l -> StronglySorted Z.lt (uniq l).
Proof.
  induction l as [|a [|b t] IH]; intros H; [constructor|repeat constructor|].
  change (uniq (a :: b :: t)) with (if Z.eqb a b then uniq (b :: t) else a :: uniq (b :: t)).
  inversion H as [|? ? Hs Hf]; subst. specialize (IH Hs).
  destruct (Z.eqb_spec a b); [assumption|].
  constructor; [assumption|]. apply Forall_forall. intros x Hx. apply (proj1 (uniq_In x (b :: t))) in Hx.
  rewrite Forall_forall in Hf. pose proof (Hf b (or_introl eq_refl)).
  inversion Hs as [|? ? _ Hfb]; subst. rewrite Forall_forall in Hfb.
  simpl in Hx. destruct Hx as [<-|Hx]; [lia|]. specialize (Hfb x Hx). lia.
Qed.

Lemma referenced_spec es i :
  In i (referenced es) <-> In i (concat (map (fun b => concat (map snd (snd b))) es)).
Proof.
  unfold referenced. rewrite uniq_In. split; intros H.
  - eapply Permutation_in; [symmetry; apply ZSort.Permuted_sort|exact H].
  - eapply Permutation_in; [apply ZSort.Permuted_sort|exact H].
Qed.

Lemma referenced_sorted es : StronglySorted Z.lt (referenced es).
Proof. apply uniq_sorted, zsort_sorted. Qed.

(* ------------------------------------------------------------------ *)
(* the two-pointer walk                                               *)
Inductive sublist {A} : list A -> list A -> Prop :=
| sub_nil : sublist [] []
| sub_skip x l l' : sublist l l' -> sublist l (x :: l')
| sub_keep x l l' : sublist l l' -> sublist (x :: l) (x :: l').

Lemma sublist_nil_l {A} (l : list A) : sublist [] l.
Proof. induction l; constructor; assumption. Qed.

Lemma sublist_length {A} (a b : list A) : sublist a b -> (length a <= length b)%nat.
Proof. induction 1; simpl; lia. Qed.

Lemma sublist_length_eq {A} (a b : list A) :
  sublist a b -> length a = length b -> a = b.
Proof.
  induction 1; simpl; intros E; [reflexivity| |f_equal; apply IHsublist; lia].
  apply sublist_length in H. lia.
Qed.

Lemma sublist_incl {A} (a b : list A) : sublist a b -> incl a b.
Proof.
  induction 1; intros y Hy; [assumption|right; now apply IHsublist|].
  destruct Hy as [<-|Hy]; [now left|right; now apply IHsublist].
Qed.

Lemma walk_sublist S U kept :
  walk S U = Some kept -> sublist kept S /\ map fst kept = U.
Proof.
  revert U kept. induction S as [|o os IH]; intros U kept H.
  - destruct U; simpl in H; [injection H as <-; split; [constructor|reflexivity]|discriminate].
  - destruct U as [|u us]; simpl in H.
    + injection H as <-. split; [apply sublist_nil_l|reflexivity].
    + destruct (Z.eqb_spec (fst o) u).
      * destruct (walk os us) as [k|] eqn:E; [|discriminate]. injection H as <-.
        destruct (IH us k E) as [H1 H2]. split; [now constructor|]. simpl. now rewrite e, H2.
      * destruct (IH (u :: us) kept H) as [H1 H2]. split; [now constructor|assumption].
Qed.

Lemma walk_ok S U :
  StronglySorted (fun a b : Z * nat => (fst a <= fst b)%Z) S -> StronglySorted Z.lt U ->
  (forall u, In u U -> In u (map fst S)) -> exists kept, walk S U = Some kept.
Proof.
  revert U. induction S as [|o os IH]; intros U HS HU Hin.
  - destruct U as [|u us]; [now exists []|]. destruct (Hin u (or_introl eq_refl)).
  - destruct U as [|u us]; [now exists []|].
    inversion HS as [|? ? HSs HSf]; subst. inversion HU as [|? ? HUs HUf]; subst.
    rewrite Forall_forall in HSf, HUf. simpl.
    destruct (Z.eqb_spec (fst o) u).
    + destruct (IH us HSs HUs) as [k Hk].
      * intros x Hx. pose proof (HUf x Hx). destruct (Hin x (or_intror Hx)) as [E|E]; [lia|exact E].
      * exists (o :: k). now rewrite Hk.
    + apply (IH (u :: us) HSs HU).
      intros x Hx.
      assert (Hu : In u (map fst os)).
      { destruct (Hin u (or_introl eq_refl)) as [E|E]; [congruence|exact E]. }
      apply in_map_iff in Hu as (ou & Eu & Hou). pose proof (HSf ou Hou).
      destruct Hx as [<-|Hx].
      * destruct (Hin u (or_introl eq_refl)) as [E|E]; [congruence|exact E].
      * pose proof (HUf x Hx). destruct (Hin x (or_intror Hx)) as [E|E]; [lia|exact E].
Qed.

(* ------------------------------------------------------------------ *)
(* positions                                                          *)
Lemma combine_seq_nth {A} (l : list A) (f : A -> Z) k i p :
  In (i, p) (combine (map f l) (seq k (length l))) ->
  exists a, nth_error l (p - k) = Some a /\ f a = i /\ (k <= p)%nat.
Proof.
  revert k. induction l as [|a l IH]; intros k H; [destruct H|].
  simpl in H. destruct H as [E|H].
  - injection E as <- <-. exists a. rewrite Nat.sub_diag. auto.
  - destruct (IH (S k) H) as (b & Hb & Hf & Hk). exists b.
    replace (p - k)%nat with (S (p - S k)) by lia. simpl. repeat split; auto; lia.
Qed.

Lemma lookupZ_In {A} i (t : list (Z * A)) v : lookupZ i t = Some v -> In (i, v) t.
Proof.
  induction t as [|[j w] t IH]; simpl; [discriminate|].
  destruct (Z.eqb_spec i j); [intros [= <-]; subst; now left|intros H; right; auto].
Qed.

Lemma lookupZ_some {A} i (t : list (Z * A)) :
  In i (map fst t) -> exists v, lookupZ i t = Some v.
Proof.
  induction t as [|[j w] t IH]; simpl; [intros []|].
  destruct (Z.eqb_spec i j); [eauto|]. intros [E|H]; [congruence|auto].
Qed.

Lemma mapO_some {A B} (f : A -> option B) l :
  (forall a, In a l -> exists b, f a = Some b) -> exists bs, mapO f l = Some bs.
Proof.
  induction l as [|a l IH]; intros H; [now exists []|].
  destruct (H a (or_introl eq_refl)) as [b Hb].
  destruct IH as [bs Hbs]; [intros; apply H; now right|].
  exists (b :: bs). simpl. now rewrite Hb, Hbs.
Qed.

Lemma mapO_spec {A B} (f : A -> option B) l bs :
  mapO f l = Some bs -> Forall2 (fun a b => f a = Some b) l bs.
Proof.
  revert bs. induction l as [|a l IH]; intros bs H; simpl in H.
  - injection H as <-. constructor.
  - destruct (f a) eqn:E; [|discriminate]. destruct (mapO f l) eqn:E2; [|discriminate].
    injection H as <-. constructor; auto.
Qed.

(* ------------------------------------------------------------------ *)
Definition node_ids (m : mesh) : list Z := map fst (m_nodes m).

Definition wf_mesh (m : mesh) : bool :=
  nodupb (node_ids m)
  && forallb (fun i => existsb (Z.eqb i) (node_ids m)) (referenced (m_elems m))
  && forallb (fun s => match lookup (snd (snd s)) (m_egroups m) with Some _ => true | None => false end)
             (m_sections m)
  && forallb (fun kv => forallb (fun i => existsb (Z.eqb i) (map fst (snd kv))) (node_ids m))
             (m_initial m).

Lemma existsb_In i l : existsb (Z.eqb i) l = true <-> In i l.
Proof.
  rewrite existsb_exists. split.
  - intros (x & Hx & E). apply Z.eqb_eq in E. now subst.
  - intros H. exists i. split; [assumption|apply Z.eqb_refl].
Qed.

Lemma nodupb_NoDup l : nodupb l = true -> NoDup l.
Proof.
  induction l; simpl; intros H; [constructor|].
  apply andb_true_iff in H as [H1 H2]. constructor; [|auto].
  apply negb_true_iff in H1. intros Hin. apply existsb_In in Hin. congruence.
Qed.

Lemma rebuild {A} (nodes : list (Z * A)) (kept : list (Z * nat)) :
  (forall ip, In ip kept -> exists a, nth_error nodes (snd ip) = Some a /\ fst a = fst ip) ->
  exists nodes', mapO (nth_error nodes) (map snd kept) = Some nodes' /\
                 map fst nodes' = map fst kept /\ (forall n, In n nodes' -> In n nodes).
Proof.
  induction kept as [|ip kept IH]; intros H.
  - exists []. repeat split; auto. intros n [].
  - destruct (H ip (or_introl eq_refl)) as (a & Ha & Fa).
    destruct IH as (ns & E1 & E2 & E3); [intros; apply H; now right|].
    exists (a :: ns). simpl. rewrite Ha, E1. repeat split.
    + now rewrite Fa, E2.
    + intros n [<-|Hn]; [eapply nth_error_In; eassumption|now apply E3].
Qed.

Lemma rebind_rows {A} (ids : list Z) (rows : list (Z * A)) :
  (forall i, In i ids -> In i (map fst rows)) ->
  exists vals, mapO (fun i => lookupZ i rows) ids = Some vals /\
               forall i v, In (i, v) (combine ids vals) -> In (i, v) rows.
Proof.
  induction ids as [|i ids IH]; intros H.
  - exists []. split; [reflexivity|intros ? ? []].
  - destruct (lookupZ_some i rows (H i (or_introl eq_refl))) as [v Hv].
    destruct IH as (vals & E1 & E2); [intros; apply H; now right|].
    exists (v :: vals). simpl. rewrite Hv, E1. split; [reflexivity|].
    intros j w [E|Hin]; [injection E as <- <-; now apply lookupZ_In|now apply E2].
Qed.

Lemma mapM_forall2 {A B} (f : A -> result B) (Q : A -> B -> Prop) l :
  (forall a, In a l -> exists b, f a = Ok b /\ Q a b) ->
  exists bs, mapM f l = Ok bs /\ Forall2 Q l bs.
Proof.
  induction l as [|a l IH]; intros H; [exists []; split; [reflexivity|constructor]|].
  destruct (H a (or_introl eq_refl)) as (b & Hb & Qb).
  destruct IH as (bs & E & F); [intros; apply H; now right|].
  exists (b :: bs). simpl. rewrite Hb. simpl. rewrite E. split; [reflexivity|now constructor].
Qed.

(* what [finish] guarantees *)
Record kept_mesh (m m' : mesh) : Prop := {
  km_elems : m_elems m' = m_elems m;
  km_groups : m_egroups m' = m_egroups m;
  km_sections : m_sections m' = m_sections m;
  km_ids : forall i, In i (node_ids m') <-> In i (referenced (m_elems m));
  km_nodes : forall n, In n (m_nodes m') -> In n (m_nodes m);
  km_init : Forall2 (fun kv kv' => fst kv' = fst kv /\
                                   forall i v, In (i, v) (snd kv') -> In (i, v) (snd kv))
                    (m_initial m) (m_initial m')
}.

Theorem finish_spec m :
  rebind_by_id = true -> wf_mesh m = true -> exists m', finish m = Ok m' /\ kept_mesh m m'.
Proof.
  intros RB W. unfold wf_mesh in W. rewrite !andb_true_iff in W.
  destruct W as [[[Wn Wr] Ws] Wi].
  assert (Hsec : forall m0, m_egroups m0 = m_egroups m -> m_sections m0 = m_sections m ->
                            check_sections m0 = Ok m0).
  { intros m0 E1 E2. unfold check_sections. rewrite E1, E2, Ws. reflexivity. }
  rewrite forallb_forall in Wr.
  assert (Hsub : forall u, In u (referenced (m_elems m)) -> In u (node_ids m)).
  { intros u Hu. apply existsb_In. now apply Wr. }
  unfold finish, remove_useless. fold (node_ids m).
  set (S := ZNSort.sort (combine (node_ids m) (seq 0 (length (node_ids m))))).
  set (U := referenced (m_elems m)).
  assert (PS : Permutation (combine (node_ids m) (seq 0 (length (node_ids m)))) S)
    by apply ZNSort.Permuted_sort.
  assert (Hfst : forall i, In i (map fst S) <-> In i (node_ids m)).
  { intros i. split; intros H.
    - apply in_map_iff in H as ([j p] & <- & Hin). apply (Permutation_in _ (Permutation_sym PS)) in Hin.
      now apply in_combine_l in Hin.
    - assert (exists p, In (i, p) (combine (node_ids m) (seq 0 (length (node_ids m))))) as [p Hp].
      { clear -H. generalize 0%nat. induction (node_ids m) as [|a l IH]; intros k; [destruct H|].
        simpl. destruct H as [<-|H]; [exists k; now left|].
        destruct (IH H (Datatypes.S k)) as [p Hp]. exists p. now right. }
      apply (Permutation_in _ PS) in Hp. apply in_map_iff. now exists (i, p). }
  destruct (walk_ok S U (znsort_sorted _) (referenced_sorted _)) as [kept Hk].
  { intros u Hu. apply Hfst. now apply Hsub. }
  destruct (walk_sublist _ _ _ Hk) as [Hsl Hku].
  destruct (Nat.eqb_spec (length S) (length U)) as [EL|NL].
  - (* every node is referenced: nothing changes *)
    assert (kept = S).
    { apply sublist_length_eq; [assumption|]. rewrite <- (map_length fst kept), Hku. now symmetry. }
    subst kept. rewrite Hku.
    assert (EQ : list_eqb Z.eqb U U = true).
    { clear. induction U; simpl; [reflexivity|]. now rewrite Z.eqb_refl. }
    rewrite EQ. cbn [bind]. exists m. split; [now apply Hsec|].
    constructor; try reflexivity.
    + intros i. fold U. rewrite <- Hku. now rewrite Hfst.
    + auto.
    + clear. induction (m_initial m); constructor; auto.
  - rewrite Hk. cbn [of_option bind].
    destruct (rebuild (m_nodes m) kept) as (nodes' & En & Ef & Ein).
    { intros [i p] Hip. apply (sublist_incl _ _ Hsl) in Hip.
      apply (Permutation_in _ (Permutation_sym PS)) in Hip. unfold node_ids in Hip.
      rewrite map_length in Hip.
      destruct (combine_seq_nth (m_nodes m) fst 0 i p Hip) as (a & Ha & Fa & _).
      rewrite Nat.sub_0_r in Ha. exists a. now split. }
    rewrite En. cbn [of_option bind]. rewrite RB.
    rewrite forallb_forall in Wi.
    destruct (mapM_forall2
      (fun kv : string * list (Z * list dec) =>
         vals <- of_option "KeyError" (mapO (fun i => lookupZ i (snd kv)) (map fst nodes')) ;;
         Ok (fst kv, combine (map fst nodes') vals))
      (fun kv kv' => fst kv' = fst kv /\
                     forall i v, In (i, v) (snd kv') -> In (i, v) (snd kv))
      (m_initial m)) as (init' & Ei & Fi).
    { intros kv Hkv. specialize (Wi kv Hkv). rewrite forallb_forall in Wi.
      destruct (rebind_rows (map fst nodes') (snd kv)) as (vals & Ev & Hv).
      { intros i Hi. rewrite Ef, Hku in Hi. apply existsb_In. apply Wi. now apply Hsub. }
      rewrite Ev. cbn [of_option bind]. eexists. split; [reflexivity|]. split; [reflexivity|].
      exact Hv. }
    rewrite Ei. cbn [bind]. eexists. split; [now apply Hsec|].
    constructor; cbn; try reflexivity.
    + intros i. unfold node_ids. cbn. rewrite Ef, Hku. reflexivity.
    + exact Ein.
    + exact Fi.
Qed.
