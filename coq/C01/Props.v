(* C01 — FrontISTR .msh write -> read is the identity on the mesh.
   Statements only (proofs in Proofs*.v).  gen/Tables.v is regenerated from the
   tree under test on every run; everything below is re-checked against it. *)
From Coq Require Import String Ascii List Bool ZArith.
From Coq Require Import Reals.
From FV.C01 Require Import Str Dec Model ProofsText Orient.
From FV.C01.gen Require Import Tables.
Import ListNotations.
Local Open Scope string_scope.

(* --- the code tables ------------------------------------------------- *)
(* on each of the eight element types the writer supports: the writer's code
   is a \w+ word, the reader's table maps it back to the same femio type, and
   writer and reader agree on whether the node order is permuted *)
Theorem C01_fistr_codes_inverse :
  forallb type_ok ["line"; "tri"; "quad"; "tet"; "tet2"; "prism"; "hex"; "hex2"] = true.
Proof. vm_compute. reflexivity. Qed.

(* the prism permutation of the writer is defined on every 6-node row and the
   reader's permutation undoes it *)
Theorem C01_prism_perm_inverse :
  forall row : list Z, length row = 6%nat ->
    permute prism_perm_write row = Some (perm6 prism_perm_write row) /\
    match prism_read with
    | Some (_, pr) => permute pr (perm6 prism_perm_write row) = Some row
    | None => True
    end.
Proof. intros row H. split; [now apply perm_write_ok|now apply perm_inverse]. Qed.

(* the real format carries 13 significant digits *)
Theorem C01_thirteen_digits : frac_digits = 12%nat.
Proof. vm_compute. reflexivity. Qed.

(* --- orientation ----------------------------------------------------- *)
(* femio's signed volume (x 6, mode 'linear') of an element equals / is a
   positive multiple of FrontISTR's orientation measure (S-definitions in
   Orient.v) of the node order that is written, for every coordinate value:
   all tetrahedra; all prisms whose top is a translate of the bottom (affine
   images of the reference prism); all parallelepipeds. *)
Theorem C01_orientation_tet :
  forall a b c d : R * R * R,
  match to_fistr "tet" [a; b; c; d] with
  | [q1; q2; q3; q4] => r6_tet a b c d = rf341 q1 q2 q3 q4
  | _ => False
  end.
Proof. exact orient_tet. Qed.

Theorem C01_orientation_prism :
  forall p0 p1 p2 w : R * R * R,
  match to_fistr "prism" [p0; p1; p2; radd p0 w; radd p1 w; radd p2 w] with
  | [q1; q2; q3; q4; q5; q6] =>
    r6_prism p0 p1 p2 (radd p0 w) (radd p1 w) (radd p2 w) = rf351 q1 q2 q3 q4 q5 q6
  | _ => False
  end.
Proof. exact orient_prism. Qed.

Theorem C01_orientation_hex :
  forall p0 u v w : R * R * R,
  let p1 := radd p0 u in let p3 := radd p0 v in let p2 := radd (radd p0 u) v in
  let p4 := radd p0 w in let p5 := radd p1 w in let p6 := radd p2 w in let p7 := radd p3 w in
  match to_fistr "hex" [p0; p1; p2; p3; p4; p5; p6; p7] with
  | [q1; q2; q3; q4; q5; q6; q7; q8] =>
    (8 * r6_hex p0 p1 p2 p3 p4 p5 p6 p7 = 6 * rf361 q1 q2 q3 q4 q5 q6 q7 q8)%R
  | _ => False
  end.
Proof. exact orient_hex. Qed.

(* --- numeric layer ---------------------------------------------------- *)
Theorem C01_int_field_roundtrip :
  forall (z : Z) (l r : string), all_ws l = true -> all_ws r = true ->
    parse_Zf (trim (l ++ print_Z z ++ r)) = Ok z.
Proof.
  intros. rewrite trim_padded; auto using print_Z_clean, print_Z_nonempty.
  apply parse_Zf_print.
Qed.

Theorem C01_real_field_roundtrip :
  forall (d : dec) (l r : string), wf_dec d = true -> all_ws l = true -> all_ws r = true ->
    parse_decf (trim (l ++ print_dec d ++ r)) = Ok d.
Proof.
  intros. rewrite trim_padded; auto using print_dec_clean, print_dec_nonempty.
  now apply parse_decf_print.
Qed.

(* --- the text round trip ----------------------------------------------- *)
(* For every well-formed mesh (arbitrary integer ids in arbitrary storage
   order, any mix of admissible element types in ELEMENT_TYPES order, prism
   rows of six nodes, named non-empty element groups, SOLID/SHELL sections,
   optional initial temperatures on all nodes) the writer succeeds and the
   reader — whatever alternatives its line-ignore pattern has — recovers from
   the written lines exactly the written nodes, element blocks (type, ids,
   ordered node ids), groups (plus ALL), sections and initial temperatures,
   and then applies remove_useless_nodes and the section check to them. *)
Theorem C01_text_roundtrip :
  forall (pats : list ipat) (m : mesh), wf_text m = true ->
    exists ls, write_msh m = Ok ls /\ read_msh_with pats ls = finish (raw m).
Proof. exact text_roundtrip. Qed.

(* non-vacuity: a mixed mesh with shuffled sparse ids, a prism, an unreferenced
   node, groups, sections and temperatures satisfies the hypothesis *)
Definition dq (s : string) : dec := match parse_dec s with Some d => d | None => dec_zero end.
Definition example_mesh : mesh :=
  mkmesh
    [(50%Z, [dq "0.000000000000E+00"; dq "0.000000000000E+00"; dq "0.000000000000E+00"]);
     (3%Z, [dq "1.000000000000E+00"; dq "0.000000000000E+00"; dq "0.000000000000E+00"]);
     (7000000000%Z, [dq "0.000000000000E+00"; dq "1.000000000000E+00"; dq "0.000000000000E+00"]);
     (12%Z, [dq "0.000000000000E+00"; dq "0.000000000000E+00"; dq "1.000000000000E+00"]);
     (9%Z, [dq "1.000000000000E+00"; dq "1.000000000000E+00"; dq "1.000000000000E+00"]);
     (4%Z, [dq "2.000000000000E+00"; dq "-0.000000000000E+00"; dq "1.000000000000E-01"]);
     (99%Z, [dq "3.333333333333E-01"; dq "6.666666666667E-01"; dq "-1.428571428571E-01"])]
    [("tet", [(10%Z, [50%Z; 3%Z; 7000000000%Z; 12%Z]); (2%Z, [3%Z; 7000000000%Z; 12%Z; 9%Z])]);
     ("prism", [(5%Z, [50%Z; 3%Z; 12%Z; 9%Z; 4%Z; 7000000000%Z])])]
    [("G1", [10%Z; 5%Z]); ("ALL", [2%Z; 5%Z; 10%Z]); ("G2", [2%Z])]
    [("M1", ("SOLID", "G1")); ("M2", ("SHELL", "G2"))]
    [("TEMPERATURE", [(3%Z, [dq "4.500000000000E+00"]); (50%Z, [dq "7.500000000000E+01"]);
                      (12%Z, [dq "1.800000000000E+01"]); (9%Z, [dq "1.350000000000E+01"]);
                      (4%Z, [dq "6.000000000000E+00"]); (99%Z, [dq "1.485000000000E+02"]);
                      (7000000000%Z, [dq "0.000000000000E+00"])])].

Example C01_example_wf : wf_text example_mesh = true.
Proof. vm_compute. reflexivity. Qed.

Example C01_example_text :
  show_lines (write_msh example_mesh) =
  ["!HEADER"; "Data written by femio"; "!NODE";
   "50,0.000000000000E+00,0.000000000000E+00,0.000000000000E+00";
   "3,1.000000000000E+00,0.000000000000E+00,0.000000000000E+00";
   "7000000000,0.000000000000E+00,1.000000000000E+00,0.000000000000E+00";
   "12,0.000000000000E+00,0.000000000000E+00,1.000000000000E+00";
   "9,1.000000000000E+00,1.000000000000E+00,1.000000000000E+00";
   "4,2.000000000000E+00,-0.000000000000E+00,1.000000000000E-01";
   "99,3.333333333333E-01,6.666666666667E-01,-1.428571428571E-01";
   "!ELEMENT,TYPE=341"; "10,50,3,7000000000,12"; "2,3,7000000000,12,9";
   "!ELEMENT,TYPE=351"; "5,50,12,3,9,7000000000,4";
   "!EGROUP, EGRP=G1"; "10"; "5"; "!EGROUP, EGRP=G2"; "2";
   "!SECTION,TYPE=SOLID,EGRP=G1,MATERIAL=M1"; "!SECTION,TYPE=SHELL,EGRP=G2,MATERIAL=M2"; "1.0,1";
   "!INITIAL CONDITION, TYPE=TEMPERATURE";
   "3,4.500000000000E+00"; "50,7.500000000000E+01"; "12,1.800000000000E+01";
   "9,1.350000000000E+01"; "4,6.000000000000E+00"; "99,1.485000000000E+02";
   "7000000000,0.000000000000E+00"; "!END"].
Proof. vm_compute. reflexivity. Qed.

Print Assumptions C01_text_roundtrip.
