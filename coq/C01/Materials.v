(* C01 — materials of a FrontISTR .msh and the per-element material
   assignment ("material/section assignment" clause).

   Writer: FistrWriter.write_material, STATIC with the two items Young_modulus,
   Poisson_ratio (generate_formatted_string: blanks removed, values with the
   default float format of StringSeries.read_array, %.8E).
   Reader: _read_materials / _parse_materials (one !ITEM=1 block of one row
   per material), _resolve_assignments_materials =
   _extract_ids_from_sections + _extract_material_values (each section's
   material is looked up BY NAME) + generate_elemental_attribute (per element
   type, ids sorted).
   Definitions, plus the characterisation of the assignment. *)
From Coq Require Import String Ascii List Bool ZArith Lia.
From FV.C01 Require Import Str Dec Model.
From FV.C01.gen Require Import Tables.
Import ListNotations.
Local Open Scope string_scope.

Definition material : Type := (string * list dec)%type.      (* name, [E; nu] *)

(* ------------------------------------------------------------------ *)
(* writer                                                             *)
Definition mat_lines (ms : list material) : list string :=
  flat_map (fun m => [("!MATERIAL,NAME=" ++ fst m ++ ",ITEM=1")%string; "!ITEM=1,SUBITEM=2";
                      join "," (map print_dec (snd m))]) ms.

(* materials come after the sections, before !INITIAL CONDITION / !END *)
Fixpoint insert_materials (ml ls : list string) : list string :=
  match ls with
  | [] => ml
  | l :: r => if starts "!INITIAL" l || String.eqb l "!END" then (ml ++ ls)%list
              else l :: insert_materials ml r
  end.

Definition write_msh_mat (m : mesh) (ms : list material) : result (list string) :=
  ls <- write_msh m ;; Ok (insert_materials (mat_lines ms) ls).

(* ------------------------------------------------------------------ *)
(* reader                                                             *)
(* regex  !ITEM\s*=\s*(?:1)  searched in a header *)
Fixpoint skip_ws (s : string) : string :=
  match s with String a r => if is_ws a then skip_ws r else s | "" => "" end.

Definition item1_here (s : string) : bool :=
  match strip_prefix "!ITEM" s with
  | Some r => match strip_prefix "=" (skip_ws r) with
              | Some r' => starts "1" (skip_ws r')
              | None => false
              end
  | None => false
  end.

Fixpoint has_item1 (s : string) : bool :=
  item1_here s || match s with String _ r => has_item1 r | "" => false end.

Definition read_materials (bs : list pblock) : result (list material) :=
  let hs := extract_headers "!MATERIAL" bs in
  match captures "NAME=" hs with
  | [] => Ok []
  | names =>
    match hs with
    | h0 :: _ =>
      if match capture "ITEM=" h0 with Some "1" => true | _ => false end then
        let blocks := map snd (filter (fun b => has_item1 (fst b)) bs) in
        vals <- mapM (fun rows => match rows with
                                  | [fs] => mapM (fun f => of_option "real" (parse_dec_free f)) fs
                                  | _ => Err "material block with several rows: outside the model"
                                  end) blocks ;;
        if (length vals =? length names)%nat then Ok (combine names vals)
        else Err "ValueError: materials and items differ in number"
      else Err "ITEM <> 1: outside the model"
    | [] => Ok []
    end
  end.

Fixpoint lookupZ1 {A} (i : Z) (t : list (Z * A)) : option A :=
  match t with
  | [] => None
  | (j, v) :: r => if Z.eqb i j then Some v else lookupZ1 i r
  end.

(* _extract_ids_from_sections + _extract_material_values: section by section,
   every member of the section's element group gets the values of the
   section's material, looked up by name *)
Definition assign_by_section (ss : list (string * (string * string)))
           (gs : list (string * list Z)) (ms : list material)
  : result (list (Z * list dec)) :=
  rows <- mapM (fun s =>
                  members <- of_option "KeyError: element group" (lookup (snd (snd s)) gs) ;;
                  vals <- of_option "KeyError: material" (lookup (fst s) ms) ;;
                  Ok (map (fun e => (e, vals)) members)) ss ;;
  Ok (concat rows).

(* generate_elemental_attribute: per element type (ELEMENT_TYPES order) the
   assigned ids of that type, sorted; an element assigned twice is outside
   the model *)
Definition per_type (es : list (string * list (Z * list Z))) (asg : list (Z * list dec))
  : result (list (string * list (Z * list dec))) :=
  if negb (nodupb (map fst asg)) then Err "element in two sections: outside the model"
  else
    Ok (flat_map (fun b =>
          let ids := ZSort.sort (filter (fun i => existsb (Z.eqb i) (map fst asg))
                                        (map fst (snd b))) in
          match ids with
          | [] => []
          | _ => [(fst b, flat_map (fun i => match lookupZ1 i asg with
                                            | Some v => [(i, v)] | None => [] end) ids)]
          end) es).

Definition resolve_materials (m : mesh) (ms : list material)
  : result (list (string * list (Z * list dec))) :=
  match ms with
  | [] => Ok []
  | _ =>
    match m_sections m with
    | [] => Err "ValueError: materials without sections"
    | ss => asg <- assign_by_section ss (m_egroups m) ms ;; per_type (m_elems m) asg
    end
  end.

Definition show_full (ls : list string) : list string :=
  match read_msh ls with
  | Err _ => ["ERROR"]
  | Ok m =>
    match read_materials (parse_blocks ignore_pats ls) with
    | Err _ => ["ERROR"]
    | Ok ms =>
      match resolve_materials m ms with
      | Err _ => ["ERROR"]
      | Ok asg =>
        (show_mesh m
         ++ flat_map (fun x => [("MATERIAL " ++ fst x)%string; join "," (map print_dec (snd x))]) ms
         ++ flat_map (fun b => ("ASSIGNED " ++ fst b)%string
                               :: map (fun r => join "," (print_Z (fst r) :: map print_dec (snd r)))
                                      (snd b)) asg)%list
      end
    end
  end.

(* ------------------------------------------------------------------ *)
(* the assignment is by material NAME: every assigned (element, values) comes
   from a section whose group contains the element and whose material has
   these values; and every such triple is assigned *)
Lemma mapM_ok_inv {A B} (f : A -> result B) l r :
  mapM f l = Ok r -> Forall2 (fun a b => f a = Ok b) l r.
Proof.
  revert r. induction l as [|a l IH]; simpl; intros r H; [injection H as <-; constructor|].
  destruct (f a) eqn:E; simpl in H; [|discriminate].
  destruct (mapM f l) eqn:E2; simpl in H; [|discriminate]. injection H as <-. constructor; auto.
Qed.

Theorem assign_by_name ss gs ms asg :
  assign_by_section ss gs ms = Ok asg ->
  forall e v, In (e, v) asg <->
    exists mat ty grp members,
      In (mat, (ty, grp)) ss /\ lookup grp gs = Some members /\ In e members /\
      lookup mat ms = Some v.
Proof.
  unfold assign_by_section. destruct (mapM _ ss) as [rows|] eqn:E; simpl; [|discriminate].
  intros [= <-] e v. apply mapM_ok_inv in E.
  induction E as [|s r ss rows Hs _ IH]; simpl.
  - split; [intros []|intros (? & ? & ? & ? & [] & _)].
  - rewrite in_app_iff, IH. clear IH.
    destruct s as [mat [ty grp]]. cbn [fst snd] in Hs.
    destruct (lookup grp gs) as [members|] eqn:Eg; simpl in Hs; [|discriminate].
    destruct (lookup mat ms) as [vals|] eqn:Em; simpl in Hs; [|discriminate].
    injection Hs as <-. split.
    + intros [H|H].
      * apply in_map_iff in H as (e0 & [= <- <-] & He). exists mat, ty, grp, members. auto.
      * destruct H as (m1 & t1 & g1 & mem1 & Hin & H'). exists m1, t1, g1, mem1. auto.
    + intros (m1 & t1 & g1 & mem1 & [Heq|Hin] & Hg & He & Hm).
      * injection Heq as <- <- <-. left. rewrite Eg in Hg. injection Hg as <-.
        rewrite Em in Hm. injection Hm as <-. apply in_map_iff. now exists e.
      * right. exists m1, t1, g1, mem1. auto.
Qed.
