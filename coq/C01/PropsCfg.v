(* C01 — per-run obligation on the translated line-ignore pattern: it covers
   FrontISTR's comment lines ("#...", "!!...", blank).  With it,
   C01_read_format_insensitive_partial (a') applies to the reader of the tree
   under test.  Kept in its own file: when it fails the other theorems still
   stand, and the check reports the finding (a `!!` line inside a block). *)
From Coq Require Import String List Bool.
From FV.C01 Require Import Str Model ProofsFmt.
From FV.C01.gen Require Import Tables.

Theorem C01_bang_comments_ignored : bang_ok ignore_pats = true.
Proof. vm_compute. reflexivity. Qed.

(* remove_useless_nodes re-attaches nodal variables by node id (premise of
   C01_msh_roundtrip) *)
Theorem C01_rebind_by_id : rebind_by_id = true.
Proof. vm_compute. reflexivity. Qed.

(* blocks of the same group name / initial-condition type are merged by the
   reader: with it, C01_read_format_insensitive (c) covers !EGROUP and
   !INITIAL CONDITION blocks too *)
Theorem C01_same_name_blocks_merged :
  merge_egroups = true /\ merge_initial = true /\ merge_ngroups = true.
Proof. vm_compute. repeat split. Qed.

(* the written lines are the whole file: on every path of FEMData.write('fistr')
   the first write to <name>.msh truncates it (effect program of c07_effects) *)
Theorem C01_msh_file_truncated : msh_truncated = true.
Proof. vm_compute. reflexivity. Qed.
