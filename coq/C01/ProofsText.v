(* C01 proofs, part 4: the text round trip
     wf_text m -> exists ls, write_msh m = Ok ls /\
                  read_msh_with pats ls = finish (raw m)      (for every ignore pattern)
   i.e. the reader recovers from the written lines exactly the written nodes,
   element blocks, groups (plus ALL), sections and initial temperatures, and
   then runs remove_useless_nodes / the section check on them. *)
From Coq Require Import String Ascii List Bool ZArith Lia.
From Coq Require Decimal DecimalString.
From FV.C01 Require Import Str Dec Model ProofsLines ProofsHeaders ProofsAux.
From FV.C01.gen Require Import Tables.
Import ListNotations.
Local Open Scope string_scope.

Definition is_nil {A} (l : list A) : bool := match l with [] => true | _ => false end.

(* the reader un-permutes exactly the blocks of this femio type *)
Definition permuted (ty : string) : bool :=
  match prism_read with Some (t, _) => String.eqb ty t | None => false end.

(* a femio element type the writer knows, whose code the reader maps back to
   it, and on which writer and reader agree whether rows are permuted *)
Definition type_ok (ty : string) : bool :=
  match lookup ty detect_table with
  | Some c =>
    wordy c
    && (match lookup c fistr_elements with Some t => String.eqb t ty | None => false end)
    && Bool.eqb (mem_str c prism_write_codes) (permuted ty)
  | None => false
  end.

Definition code_of (ty : string) : string :=
  match lookup ty detect_table with Some c => c | None => "" end.

Definition wf_node (n : Z * list dec) : bool :=
  (length (snd n) =? 3)%nat && forallb wf_dec (snd n).

Definition wf_block (b : string * list (Z * list Z)) : bool :=
  type_ok (fst b) && negb (is_nil (snd b))
  && (if permuted (fst b) then forallb (fun e => (length (snd e) =? 6)%nat) (snd b) else true).

Definition wf_group (g : string * list Z) : bool := wordy (fst g) && negb (is_nil (snd g)).

Definition wf_section (s : string * (string * string)) : bool :=
  kind_ok (KSect (fst (snd s)) (snd (snd s)) (fst s)).

Definition wf_initial (m : mesh) : bool :=
  match m_initial m with
  | [] => true
  | [(k, rows)] =>
    String.eqb k "TEMPERATURE" && negb (is_nil rows)
    && (length rows =? length (m_nodes m))%nat
    && forallb (fun r => forallb wf_dec (snd r)) rows
  | _ => false
  end.

Definition all_elem_ids (es : list (string * list (Z * list Z))) : list Z :=
  concat (map (fun b => map fst (snd b)) es).

Definition wf_text (m : mesh) : bool :=
  negb (is_nil (m_nodes m)) && forallb wf_node (m_nodes m)
  && negb (is_nil (m_elems m)) && forallb wf_block (m_elems m)
  && subseq (map fst (m_elems m)) element_types
  && nodupb (all_elem_ids (m_elems m))
  && forallb wf_group (m_egroups m) && nodup_str (map fst (m_egroups m))
  && forallb wf_section (m_sections m)
  && wf_initial m.

(* ------------------------------------------------------------------ *)
(* prism permutation                                                  *)
Definition perm6 (p : list nat) (row : list Z) : list Z :=
  match permute p row with Some r => r | None => row end.

Lemma perm_write_ok row :
  length row = 6%nat -> permute prism_perm_write row = Some (perm6 prism_perm_write row).
Proof.
  intros H. do 7 (destruct row as [|? row]; try discriminate). reflexivity.
Qed.

(* the reader's permutation undoes the writer's *)
Lemma perm_inverse row :
  length row = 6%nat ->
  match prism_read with
  | Some (_, pr) => permute pr (perm6 prism_perm_write row) = Some row
  | None => True
  end.
Proof.
  intros H. do 7 (destruct row as [|? row]; try discriminate).
  vm_compute. first [reflexivity | exact I].
Qed.

Definition wrows (b : string * list (Z * list Z)) : list (Z * list Z) :=
  if permuted (fst b)
  then map (fun e => (fst e, perm6 prism_perm_write (snd e))) (snd b)
  else snd b.

Lemma wf_block_parts b :
  wf_block b = true ->
  type_ok (fst b) = true /\ snd b <> [] /\
  (permuted (fst b) = true -> forall e, In e (snd b) -> length (snd e) = 6%nat).
Proof.
  unfold wf_block. rewrite !andb_true_iff. intros [[Ht Hn] Hp]. split; [assumption|]. split.
  - destruct (snd b); [discriminate|discriminate].
  - intros Hperm e He. rewrite Hperm in Hp. rewrite forallb_forall in Hp.
    apply Nat.eqb_eq. now apply Hp.
Qed.

Lemma type_ok_parts ty :
  type_ok ty = true ->
  lookup ty detect_table = Some (code_of ty) /\ wordy (code_of ty) = true /\
  lookup (code_of ty) fistr_elements = Some ty /\
  mem_str (code_of ty) prism_write_codes = permuted ty.
Proof.
  unfold type_ok, code_of. destruct (lookup ty detect_table) as [c|]; [|discriminate].
  rewrite !andb_true_iff. intros [[Hw Hl] Hp]. split; [reflexivity|]. split; [assumption|].
  split.
  - destruct (lookup c fistr_elements) as [t|]; [|discriminate].
    apply String.eqb_eq in Hl. now subst.
  - now apply Bool.eqb_prop.
Qed.

Lemma permute_rows_write rows :
  (forall e, In e rows -> length (snd e) = 6%nat) ->
  permute_rows prism_perm_write rows
  = Ok (map (fun e => (fst e, perm6 prism_perm_write (snd e))) rows).
Proof.
  intros H. unfold permute_rows. apply mapM_map. intros e He.
  rewrite perm_write_ok by now apply H. reflexivity.
Qed.

Lemma elem_block_ok b :
  wf_block b = true ->
  elem_block b = Ok (KElem (code_of (fst b)), map elem_row (wrows b)).
Proof.
  intros W. destruct (wf_block_parts _ W) as (Ht & Hn & Hp).
  destruct (type_ok_parts _ Ht) as (Hl & Hw & Hb & Hm).
  unfold elem_block. rewrite Hl. cbn [of_option bind]. rewrite Hm. unfold wrows.
  destruct (permuted (fst b)) eqn:E.
  - rewrite permute_rows_write by now apply Hp. reflexivity.
  - reflexivity.
Qed.

Lemma reorder_prism_ok es :
  (forall b, In b es -> wf_block b = true) ->
  reorder_prism (map (fun b => (fst b, wrows b)) es) = Ok es.
Proof.
  intros H. unfold reorder_prism. unfold wrows, permuted in *.
  pose proof perm_inverse as PI. unfold wf_block, permuted in H.
  destruct prism_read as [[ty pr]|].
  - apply mapM_id. intros b Hb. cbn [fst snd].
    specialize (H b Hb). rewrite !andb_true_iff in H. destruct H as [[_ _] H6].
    destruct (String.eqb (fst b) ty) eqn:E.
    + rewrite forallb_forall in H6. unfold permute_rows. rewrite mapM_id.
      * destruct b; reflexivity.
      * intros e He. cbn [fst snd].
        specialize (PI (snd e) (proj1 (Nat.eqb_eq _ _) (H6 _ He))).
        rewrite PI. destruct e; reflexivity.
    + destruct b; reflexivity.
  - f_equal. rewrite map_ext with (g := fun b => b) by (intros []; reflexivity).
    apply map_id.
Qed.

(* ------------------------------------------------------------------ *)
(* the written blocks                                                 *)
Definition pb (kb : kblock) : pblock := (header (fst kb), map fields (snd kb)).

Definition kb_good (kb : kblock) : Prop :=
  kind_ok (fst kb) = true /\
  forall r, In r (snd kb) -> is_header r = false /\ safe_line r = true.

Lemma parse_written pats kbs :
  (forall kb, In kb kbs -> kb_good kb) ->
  parse_blocks pats (flatten (map block_of kbs)) = map pb kbs.
Proof.
  intros H. rewrite parse_flatten.
  - rewrite map_map. reflexivity.
  - intros b Hb. apply in_map_iff in Hb as (kb & <- & Hkb).
    destruct (H kb Hkb) as [Hk Hr]. unfold good_block, block_of. cbn [fst snd].
    split; [apply header_is_header|]. split; [now apply header_safe|assumption].
Qed.

Definition selk (r : rkey) : kblock -> bool := fun kb => sel r (fst kb).

Lemma selected_kbs r kbs :
  (forall kb, In kb kbs -> kind_ok (fst kb) = true) ->
  selected (key_str r) (map pb kbs) = map pb (filter (selk r) kbs).
Proof.
  induction kbs as [|kb kbs IH]; intros H; [reflexivity|].
  unfold selected in *. cbn [map filter]. unfold pb at 1. cbn [fst].
  rewrite contains_header by (apply H; now left).
  rewrite IH by (intros; apply H; now right).
  unfold selk. destruct (sel r (fst kb)); reflexivity.
Qed.

Definition ebs_of (es : list (string * list (Z * list Z))) : list kblock :=
  map (fun b => (KElem (code_of (fst b)), map elem_row (wrows b))) es.
Definition nonall (gs : list (string * list Z)) := filter (fun g => negb (is_all g)) gs.
Definition gbs_of (f : bool) (gs : list (string * list Z)) : list kblock :=
  map (fun g => (KGroup f (fst g), map print_Z (snd g))) (nonall gs).
Definition sparams (ty : string) : list string :=
  if String.eqb ty "SOLID" then [] else ["1.0,1"].
Definition sbs_of (ss : list (string * (string * string))) : list kblock :=
  map (fun s => (KSect (fst (snd s)) (snd (snd s)) (fst s), sparams (fst (snd s)))) ss.
Definition assemble (nrows : list string) (ebs gbs sbs ibs : list kblock) : list kblock :=
  ([(KHeader, ["Data written by femio"]); (KNode, nrows)]
   ++ ebs ++ gbs ++ sbs ++ ibs ++ [(KEnd, [])])%list.

Definition kinds_are (P : hkind -> Prop) (l : list kblock) : Prop :=
  forall kb, In kb l -> P (fst kb).
Definition isE k := exists c, k = KElem c.
Definition isG k := exists f n, k = KGroup f n.
Definition isS k := exists a b c, k = KSect a b c.
Definition isI k := k = KInit.

Lemma filter_kind r (P : hkind -> Prop) (b : bool) l :
  kinds_are P l -> (forall k, P k -> sel r k = b) ->
  filter (selk r) l = if b then l else [].
Proof.
  intros H1 H2. unfold selk. destruct b.
  - apply filter_all. intros x Hx. apply H2, H1, Hx.
  - apply filter_none. intros x Hx. apply H2, H1, Hx.
Qed.

Lemma fE r l : kinds_are isE l ->
  filter (selk r) l = if (match r with RElem => true | _ => false end) then l else [].
Proof. intros H. apply (filter_kind r isE); [assumption|]. intros k (? & ->). now destruct r. Qed.
Lemma fG r l : kinds_are isG l ->
  filter (selk r) l = if (match r with RGroup => true | _ => false end) then l else [].
Proof. intros H. apply (filter_kind r isG); [assumption|]. intros k (? & ? & ->). now destruct r. Qed.
Lemma fS r l : kinds_are isS l ->
  filter (selk r) l = if (match r with RSect => true | _ => false end) then l else [].
Proof. intros H. apply (filter_kind r isS); [assumption|]. intros k (? & ? & ? & ->). now destruct r. Qed.
Lemma fI r l : kinds_are isI l ->
  filter (selk r) l = if (match r with RInit => true | _ => false end) then l else [].
Proof. intros H. apply (filter_kind r isI); [assumption|]. intros k ->. now destruct r. Qed.

Lemma filter_assemble r nrows ebs gbs sbs ibs :
  kinds_are isE ebs -> kinds_are isG gbs -> kinds_are isS sbs -> kinds_are isI ibs ->
  filter (selk r) (assemble nrows ebs gbs sbs ibs)
  = match r with
    | RNode => [(KNode, nrows)] | RElem => ebs | RGroup => gbs | RSect => sbs | RInit => ibs
    end.
Proof.
  intros HE HG HS HI. unfold assemble.
  rewrite !filter_app, (fE r ebs HE), (fG r gbs HG), (fS r sbs HS), (fI r ibs HI).
  destruct r; cbn; rewrite ?app_nil_r; reflexivity.
Qed.

(* ------------------------------------------------------------------ *)
(* what the writer emits for a well-formed mesh                        *)
Record wf_facts (m : mesh) : Prop := {
  wn_ne : m_nodes m <> [];
  wn_ok : forall n, In n (m_nodes m) -> wf_node n = true;
  we_ne : m_elems m <> [];
  we_ok : forall b, In b (m_elems m) -> wf_block b = true;
  we_ord : subseq (map fst (m_elems m)) element_types = true;
  we_ids : nodupb (all_elem_ids (m_elems m)) = true;
  wg_ok : forall g, In g (m_egroups m) -> wf_group g = true;
  wg_nd : nodup_str (map fst (m_egroups m)) = true;
  ws_ok : forall s, In s (m_sections m) -> wf_section s = true;
  wi_ok : wf_initial m = true
}.

Lemma is_nil_false {A} (l : list A) : negb (is_nil l) = true -> l <> [].
Proof. destruct l; [discriminate|discriminate]. Qed.

Lemma wf_text_facts m : wf_text m = true -> wf_facts m.
Proof.
  unfold wf_text. rewrite !andb_true_iff.
  intros [[[[[[[[[A B] C] D] E] F] G] H] I] J].
  constructor; try assumption.
  - now apply is_nil_false.
  - now apply forallb_forall.
  - now apply is_nil_false.
  - now apply forallb_forall.
  - now apply forallb_forall.
  - now apply forallb_forall.
Qed.

Lemma nonall_length gs :
  NoDup (map fst gs) -> (length gs - 1 <= length (nonall gs))%nat.
Proof.
  induction gs as [|g gs IH]; simpl; intros H; [lia|].
  inversion H as [|? ? Hn Hd]; subst. unfold nonall in *. simpl.
  destruct (is_all g) eqn:E; simpl.
  - rewrite filter_all; [lia|]. intros x Hx. unfold is_all in *.
    apply String.eqb_eq in E. apply negb_true_iff.
    destruct (String.eqb_spec (fst x) "ALL") as [Ex|]; [|reflexivity].
    exfalso. apply Hn. rewrite E, <- Ex. now apply in_map.
  - specialize (IH Hd). lia.
Qed.

Lemma formatted_eq (l : list (string * list Z)) :
  (forall g, In g l -> exists z, snd g = [z]) ->
  map (fun kv => (KGroup true (fst kv), [print_Z (snd kv)]))
      (combine (map fst l) (concat (map snd l)))
  = map (fun g => (KGroup true (fst g), map print_Z (snd g))) l.
Proof.
  induction l as [|g l IH]; intros H; [reflexivity|].
  destruct (H g (or_introl eq_refl)) as [z Hz]. simpl. rewrite Hz. simpl.
  f_equal. apply IH. intros; apply H; now right.
Qed.

Lemma egroup_blocks_ok m :
  wf_facts m -> exists f, egroup_blocks m = Ok (gbs_of f (m_egroups m)).
Proof.
  intros W. unfold egroup_blocks.
  assert (Hne : forall g, In g (m_egroups m) -> snd g <> []).
  { intros g Hg. pose proof (wg_ok m W g Hg) as Hw. unfold wf_group in Hw.
    apply andb_true_iff in Hw as [_ Hw]. now apply is_nil_false. }
  assert (E : existsb (fun g : string * list Z => match snd g with [] => true | _ => false end)
                      (m_egroups m) = false).
  { apply not_true_is_false. intros Hex. apply existsb_exists in Hex as (g & Hg & Hs).
    apply (Hne g Hg). destruct (snd g); [reflexivity|discriminate]. }
  rewrite E. fold (nonall (m_egroups m)).
  destruct ((length (concat (map snd (nonall (m_egroups m)))) =? n_elements m)%nat
            && (length (concat (map snd (nonall (m_egroups m)))) =? length (m_egroups m) - 1)%nat)
    eqn:C.
  - exists true. unfold gbs_of. apply andb_true_iff in C as [_ C].
    apply Nat.eqb_eq in C.
    assert (Hn : forall x, In x (map snd (nonall (m_egroups m))) -> x <> []).
    { intros x Hx. apply in_map_iff in Hx as (g & <- & Hg). apply Hne.
      unfold nonall in Hg. now apply filter_In in Hg as [Hg _]. }
    pose proof (length_concat_ge _ Hn) as L1. rewrite map_length in L1.
    pose proof (nonall_length (m_egroups m) (nodup_str_NoDup _ (wg_nd m W))) as L2.
    assert (L : length (concat (map snd (nonall (m_egroups m))))
                = length (map snd (nonall (m_egroups m)))) by (rewrite map_length; lia).
    pose proof (all_singletons _ Hn L) as S.
    apply (f_equal (@Ok (list kblock))). apply formatted_eq. intros g Hg.
    assert (Hin : In (snd g) (map snd (nonall (m_egroups m)))) by now apply in_map.
    rewrite S in Hin. apply in_map_iff in Hin as (z & Hz & _). now exists z.
  - exists false. reflexivity.
Qed.

Lemma section_block_ok s :
  wf_section s = true ->
  section_block s = Ok (KSect (fst (snd s)) (snd (snd s)) (fst s), sparams (fst (snd s))).
Proof.
  destruct s as [mat [ty grp]]. unfold wf_section, section_block, sparams. cbn [fst snd kind_ok].
  rewrite !andb_true_iff. intros [[Ht _] _].
  destruct (String.eqb ty "SOLID") eqn:E1; [reflexivity|].
  simpl in Ht. rewrite Ht. reflexivity.
Qed.

Lemma msh_kblocks_ok m :
  wf_facts m ->
  exists f, msh_kblocks m
            = Ok (assemble (map node_row (m_nodes m)) (ebs_of (m_elems m))
                           (gbs_of f (m_egroups m)) (sbs_of (m_sections m)) (initial_blocks m)).
Proof.
  intros W. destruct (egroup_blocks_ok m W) as [f Hf]. exists f.
  unfold msh_kblocks. rewrite (in_type_order_id _ (we_ord m W)).
  rewrite (mapM_map elem_block
             (fun b => (KElem (code_of (fst b)), map elem_row (wrows b))))
    by (intros b Hb; apply elem_block_ok, (we_ok m W b Hb)).
  cbn [bind]. rewrite Hf. cbn [bind].
  rewrite (mapM_map section_block
             (fun s => (KSect (fst (snd s)) (snd (snd s)) (fst s), sparams (fst (snd s)))))
    by (intros s Hs; apply section_block_ok, (ws_ok m W s Hs)).
  reflexivity.
Qed.

(* every written block is well-formed for the reader *)
Lemma wf_group_in m g :
  wf_facts m -> In g (nonall (m_egroups m)) -> wordy (fst g) = true /\ snd g <> [].
Proof.
  intros W Hg. unfold nonall in Hg. apply filter_In in Hg as [Hg _].
  pose proof (wg_ok m W g Hg) as Hw. unfold wf_group in Hw.
  apply andb_true_iff in Hw as [H1 H2]. split; [assumption|now apply is_nil_false].
Qed.

Lemma initial_blocks_rows m kb :
  In kb (initial_blocks m) ->
  fst kb = KInit /\ exists rows, snd kb = map node_row rows.
Proof.
  unfold initial_blocks. destruct (lookup "TEMPERATURE" (m_initial m)); [|intros []].
  intros [<-|[]]. split; [reflexivity|]. eexists; reflexivity.
Qed.

Lemma assemble_good m f kb :
  wf_facts m ->
  In kb (assemble (map node_row (m_nodes m)) (ebs_of (m_elems m)) (gbs_of f (m_egroups m))
                  (sbs_of (m_sections m)) (initial_blocks m)) ->
  kb_good kb.
Proof.
  intros W Hin. unfold assemble in Hin.
  apply in_app_or in Hin as [Hin|Hin].
  { destruct Hin as [<-|[<-|[]]]; split; try reflexivity; cbn [snd].
    - intros r [<-|[]]. split; reflexivity.
    - intros r Hr. apply in_map_iff in Hr as (n & <- & _). now apply node_row_good. }
  apply in_app_or in Hin as [Hin|Hin].
  { unfold ebs_of in Hin. apply in_map_iff in Hin as (b & <- & Hb). split; cbn [fst snd].
    - cbn [kind_ok]. pose proof (we_ok m W b Hb) as Wb.
      destruct (wf_block_parts _ Wb) as (Ht & _ & _).
      now destruct (type_ok_parts _ Ht) as (_ & Hw & _).
    - intros r Hr. apply in_map_iff in Hr as (e & <- & _). apply elem_row_good. }
  apply in_app_or in Hin as [Hin|Hin].
  { unfold gbs_of in Hin. apply in_map_iff in Hin as (g & <- & Hg). split; cbn [fst snd].
    - cbn [kind_ok]. now destruct (wf_group_in m g W Hg).
    - intros r Hr. apply in_map_iff in Hr as (z & <- & _). apply print_Z_row_good. }
  apply in_app_or in Hin as [Hin|Hin].
  { unfold sbs_of in Hin. apply in_map_iff in Hin as (s & <- & Hs). split; cbn [fst snd].
    - apply (ws_ok m W s Hs).
    - unfold sparams. destruct (String.eqb (fst (snd s)) "SOLID"); [intros r []|].
      intros r [<-|[]]. split; reflexivity. }
  apply in_app_or in Hin as [Hin|Hin].
  { destruct (initial_blocks_rows m kb Hin) as (Hk & rows & Hr). split.
    - now rewrite Hk.
    - rewrite Hr. intros r Hin'. apply in_map_iff in Hin' as (n & <- & _). now apply node_row_good. }
  destruct Hin as [<-|[]]. split; [reflexivity|intros r []].
Qed.

Lemma kinds_ebs es : kinds_are isE (ebs_of es).
Proof. intros kb H. apply in_map_iff in H as (b & <- & _). eexists; reflexivity. Qed.
Lemma kinds_gbs f gs : kinds_are isG (gbs_of f gs).
Proof. intros kb H. apply in_map_iff in H as (b & <- & _). eexists; eexists; reflexivity. Qed.
Lemma kinds_sbs ss : kinds_are isS (sbs_of ss).
Proof. intros kb H. apply in_map_iff in H as (b & <- & _). do 3 eexists; reflexivity. Qed.
Lemma kinds_ibs m : kinds_are isI (initial_blocks m).
Proof. intros kb H. now destruct (initial_blocks_rows m kb H). Qed.

(* the reader's view of the written file, by key *)
Lemma selected_written r m f :
  wf_facts m ->
  selected (key_str r)
    (map pb (assemble (map node_row (m_nodes m)) (ebs_of (m_elems m)) (gbs_of f (m_egroups m))
                      (sbs_of (m_sections m)) (initial_blocks m)))
  = map pb (match r with
            | RNode => [(KNode, map node_row (m_nodes m))]
            | RElem => ebs_of (m_elems m)
            | RGroup => gbs_of f (m_egroups m)
            | RSect => sbs_of (m_sections m)
            | RInit => initial_blocks m
            end).
Proof.
  intros W. rewrite selected_kbs.
  - rewrite filter_assemble; [reflexivity|apply kinds_ebs|apply kinds_gbs|apply kinds_sbs|apply kinds_ibs].
  - intros kb Hkb. now destruct (assemble_good m f kb W Hkb).
Qed.

(* ------------------------------------------------------------------ *)
(* parsing the rows back                                              *)
Lemma mapM_map_map {A B C} (f : B -> result C) (g : A -> B) (h : A -> C) l :
  (forall a, In a l -> f (g a) = Ok (h a)) -> mapM f (map g l) = Ok (map h l).
Proof.
  induction l as [|a t IH]; simpl; intros H; [reflexivity|].
  rewrite (H a (or_introl eq_refl)). simpl. rewrite IH by (intros; apply H; now right).
  reflexivity.
Qed.

Lemma parse_decs_ok cs :
  forallb wf_dec cs = true -> mapM parse_decf (map print_dec cs) = Ok cs.
Proof.
  intros H. apply mapM_id. intros d Hd. apply parse_decf_print.
  rewrite forallb_forall in H. now apply H.
Qed.

Lemma parse_node_row_ok n :
  wf_node n = true -> parse_node_row (fields (node_row n)) = Ok n.
Proof.
  unfold wf_node. rewrite andb_true_iff. intros [L W]. apply Nat.eqb_eq in L.
  rewrite fields_node_row. unfold parse_node_row. rewrite parse_Zf_print. cbn [bind].
  rewrite firstn_all2 by (rewrite map_length; lia).
  rewrite parse_decs_ok by assumption. now destruct n.
Qed.

Lemma parse_value_row_ok r :
  forallb wf_dec (snd r) = true -> parse_value_row (fields (node_row r)) = Ok r.
Proof.
  intros W. rewrite fields_node_row. unfold parse_value_row. rewrite parse_Zf_print. cbn [bind].
  rewrite parse_decs_ok by assumption. now destruct r.
Qed.

Lemma parse_Zs_ok zs : mapM parse_Zf (map print_Z zs) = Ok zs.
Proof. apply mapM_id. intros; apply parse_Zf_print. Qed.

Lemma parse_elem_row_ok e : parse_elem_row (fields (elem_row e)) = Ok e.
Proof.
  rewrite fields_elem_row. cbn [map]. unfold parse_elem_row. rewrite parse_Zf_print. cbn [bind].
  rewrite parse_Zs_ok. now destruct e.
Qed.

Lemma parse_elem_rows_ok rows :
  rows <> [] -> parse_elem_rows (map fields (map elem_row rows)) = Ok rows.
Proof.
  intros H. unfold parse_elem_rows. destruct rows as [|e rows]; [congruence|].
  cbn [map]. change (fields (elem_row e) :: map fields (map elem_row rows))
    with (map fields (map elem_row (e :: rows))).
  rewrite map_map. apply mapM_id. intros; apply parse_elem_row_ok.
Qed.

Lemma parse_ints_rank1_ok ids :
  ids <> [] -> parse_ints_rank1 (map fields (map print_Z ids)) = Ok ids.
Proof.
  intros H. unfold parse_ints_rank1. destruct ids as [|z ids]; [congruence|].
  change (map fields (map print_Z (z :: ids))) with (map fields (map print_Z (z :: ids))).
  cbn [map]. change (fields (print_Z z) :: map fields (map print_Z ids))
    with (map fields (map print_Z (z :: ids))).
  rewrite map_map.
  rewrite (mapM_map_map (mapM parse_Zf) (fun x => fields (print_Z x)) (fun x => [x])).
  - cbn [bind]. now rewrite concat_singletons.
  - intros a _. rewrite fields_print_Z. cbn [mapM]. rewrite parse_Zf_print. reflexivity.
Qed.

Lemma wrows_nonnil b : snd b <> [] -> wrows b <> [].
Proof.
  unfold wrows. destruct (permuted (fst b)); [|auto].
  destruct (snd b); [congruence|discriminate].
Qed.

(* ------------------------------------------------------------------ *)
Section Reading.
Variable m : mesh.
Variable f : bool.
Hypothesis W : wf_facts m.

Let P := map pb (assemble (map node_row (m_nodes m)) (ebs_of (m_elems m))
                          (gbs_of f (m_egroups m)) (sbs_of (m_sections m)) (initial_blocks m)).

Lemma sel_node : selected "!NODE" P = map pb [(KNode, map node_row (m_nodes m))].
Proof. apply (selected_written RNode m f W). Qed.
Lemma sel_elem : selected "!ELEMENT" P = map pb (ebs_of (m_elems m)).
Proof. apply (selected_written RElem m f W). Qed.
Lemma sel_group : selected "!EGROUP" P = map pb (gbs_of f (m_egroups m)).
Proof. apply (selected_written RGroup m f W). Qed.
Lemma sel_sect : selected "!SECTION" P = map pb (sbs_of (m_sections m)).
Proof. apply (selected_written RSect m f W). Qed.
Lemma sel_init : selected "!INITIAL CONDITION" P = map pb (initial_blocks m).
Proof. apply (selected_written RInit m f W). Qed.

Lemma read_nodes_ok : read_nodes P = Ok (m_nodes m).
Proof.
  unfold read_nodes, extract_data, extract_blocks. rewrite sel_node.
  cbn [map pb fst snd concat]. rewrite app_nil_r.
  pose proof (wn_ne m W) as Hne. destruct (m_nodes m) as [|n ns] eqn:E; [congruence|].
  cbn [map]. change (fields (node_row n) :: map fields (map node_row ns))
    with (map fields (map node_row (n :: ns))).
  rewrite map_map. apply mapM_id. intros a Ha. apply parse_node_row_ok.
  apply (wn_ok m W). now rewrite E.
Qed.

Lemma elem_types :
  captures "TYPE=" (extract_headers "!ELEMENT" P) = map (fun b => code_of (fst b)) (m_elems m).
Proof.
  unfold extract_headers. rewrite sel_elem. unfold ebs_of. rewrite !map_map. cbn [pb fst].
  apply captures_map. intros b Hb. apply capture_elem_type.
  destruct (wf_block_parts _ (we_ok m W b Hb)) as (Ht & _ & _).
  now destruct (type_ok_parts _ Ht) as (_ & Hw & _).
Qed.

Lemma elem_blocks :
  extract_blocks "!ELEMENT" P
  = map (fun b => map fields (map elem_row (wrows b))) (m_elems m).
Proof.
  unfold extract_blocks. rewrite sel_elem. unfold ebs_of. rewrite !map_map. reflexivity.
Qed.

Lemma types_NoDup : NoDup (map fst (m_elems m)).
Proof. eapply subseq_NoDup; [apply element_types_NoDup|apply (we_ord m W)]. Qed.

Lemma code_inj b1 b2 :
  In b1 (m_elems m) -> In b2 (m_elems m) ->
  code_of (fst b1) = code_of (fst b2) -> fst b1 = fst b2.
Proof.
  intros H1 H2 E.
  destruct (wf_block_parts _ (we_ok m W b1 H1)) as (T1 & _ & _).
  destruct (wf_block_parts _ (we_ok m W b2 H2)) as (T2 & _ & _).
  destruct (type_ok_parts _ T1) as (_ & _ & L1 & _).
  destruct (type_ok_parts _ T2) as (_ & _ & L2 & _).
  rewrite E in L1. congruence.
Qed.

Lemma codes_NoDup_gen (es : list (string * list (Z * list Z))) :
  (forall b1 b2, In b1 es -> In b2 es -> code_of (fst b1) = code_of (fst b2) -> fst b1 = fst b2) ->
  NoDup (map fst es) -> NoDup (map (fun b => code_of (fst b)) es).
Proof.
  induction es as [|b es IH]; simpl; intros Hinj Hnd; [constructor|].
  inversion Hnd as [|? ? Hn Hd]; subst. constructor.
  - intros Hin. apply in_map_iff in Hin as (b' & E & Hb'). apply Hn.
    rewrite <- (Hinj b' b (or_intror Hb') (or_introl eq_refl) E). now apply in_map.
  - apply IH; [|assumption]. intros; apply Hinj; auto.
Qed.

Lemma convert_code b : In b (m_elems m) -> convert_type (code_of (fst b)) = Ok (fst b).
Proof.
  intros Hb. destruct (wf_block_parts _ (we_ok m W b Hb)) as (T & _ & _).
  destruct (type_ok_parts _ T) as (_ & _ & L & _). unfold convert_type. now rewrite L.
Qed.

Lemma read_elements_ok : read_elements P = Ok (m_elems m).
Proof.
  unfold read_elements. rewrite elem_types.
  pose proof (we_ne m W) as Hne. pose proof (we_ok m W) as Hok.
  pose proof (we_ord m W) as Hord. pose proof types_NoDup as Hnd.
  pose proof code_inj as Hinj. pose proof convert_code as Hcv.
  assert (Phase1 :
    (if forallb (String.eqb (code_of (fst (hd ("", []) (m_elems m)))))
                (map (fun b => code_of (fst b)) (m_elems m))
     then ty <- convert_type (code_of (fst (hd ("", []) (m_elems m)))) ;;
          rows <- parse_elem_rows (extract_data "!ELEMENT" P) ;;
          Ok (in_type_order [(ty, rows)])
     else parsed <- mapM parse_elem_rows (extract_blocks "!ELEMENT" P) ;;
          (let d := fold_left (fun acc tc => dict_append (fst tc) (snd tc) acc)
                              (combine (map (fun b => code_of (fst b)) (m_elems m)) parsed) [] in
           d2 <- mapM (fun kv => ty <- convert_type (fst kv) ;; Ok (ty, snd kv)) d ;;
           Ok (in_type_order d2)))
    = Ok (map (fun b => (fst b, wrows b)) (m_elems m))).
  { unfold extract_data. rewrite elem_blocks.
    destruct (m_elems m) as [|b1 [|b2 rest]] eqn:E; [congruence| |].
    - (* uniform *)
      cbn [map hd forallb]. rewrite String.eqb_refl. cbn [andb].
      rewrite (Hcv b1) by now left. cbn [bind concat]. rewrite app_nil_r.
      destruct (wf_block_parts _ (Hok b1 (or_introl eq_refl))) as (_ & Hn1 & _).
      rewrite parse_elem_rows_ok by now apply wrows_nonnil. cbn [bind].
      rewrite in_type_order_id; [reflexivity|exact Hord].
    - (* mixed *)
      assert (Hne12 : String.eqb (code_of (fst b1)) (code_of (fst b2)) = false).
      { apply String.eqb_neq. intros Ec.
        apply (Hinj b1 b2 (or_introl eq_refl) (or_intror (or_introl eq_refl))) in Ec.
        simpl in Hnd. inversion Hnd as [|? ? Hn _]; subst. apply Hn. left. now symmetry. }
      cbn [map hd forallb]. rewrite String.eqb_refl, Hne12. cbn [andb].
      change (map fields (map elem_row (wrows b1)) :: map fields (map elem_row (wrows b2))
              :: map (fun b => map fields (map elem_row (wrows b))) rest)
        with (map (fun b => map fields (map elem_row (wrows b))) (b1 :: b2 :: rest)).
      change (code_of (fst b1) :: code_of (fst b2) :: map (fun b => code_of (fst b)) rest)
        with (map (fun b => code_of (fst b)) (b1 :: b2 :: rest)).
      rewrite (mapM_map_map parse_elem_rows _ wrows).
      2:{ intros b Hb. destruct (wf_block_parts _ (Hok b Hb)) as (_ & Hn & _).
          apply parse_elem_rows_ok. now apply wrows_nonnil. }
      cbn [bind]. rewrite combine_map.
      rewrite fold_dict_append.
      2:{ rewrite map_map. cbn [fst]. exact (codes_NoDup_gen (b1 :: b2 :: rest) Hinj Hnd). }
      cbn [app].
      rewrite (mapM_map_map _ _ (fun b => (fst b, wrows b))).
      2:{ intros b Hb. cbn [fst snd]. rewrite (Hcv b Hb). reflexivity. }
      cbn [bind]. rewrite in_type_order_id; [reflexivity|].
      rewrite map_map. cbn [fst]. exact Hord. }
  destruct (m_elems m) as [|b1 rest] eqn:E; [congruence|].
  cbn [map hd] in Phase1. cbn [map]. rewrite Phase1. cbn [bind].
  change ((fst b1, wrows b1) :: map (fun b => (fst b, wrows b)) rest)
    with (map (fun b => (fst b, wrows b)) (b1 :: rest)).
  apply reorder_prism_ok. exact Hok.
Qed.
End Reading.

(* ------------------------------------------------------------------ *)
Definition all_ids (es : list (string * list (Z * list Z))) : list Z :=
  match es with
  | [b] => map fst (snd b)
  | _ => ZSort.sort (all_elem_ids es)
  end.

Lemma element_ids_ok es :
  nodupb (all_elem_ids es) = true -> element_ids es = Ok (all_ids es).
Proof.
  intros H. unfold element_ids, all_ids. destruct es as [|b [|b2 r]]; try reflexivity.
  - fold (all_elem_ids (b :: b2 :: r)). now rewrite H.
Qed.

Lemma is_digit_not_alpha c : is_digit c = true -> is_alpha c = false.
Proof. revert c. ascii_cases. Qed.

Lemma starts_alpha_print_Z z : starts_alpha (print_Z z) = false.
Proof.
  unfold print_Z. destruct (Z.to_int z) as [u|u]; cbn [DecimalString.NilZero.string_of_int].
  - pose proof (uint0_digits u) as D. pose proof (uint0_nonempty u) as N.
    destruct (DecimalString.NilZero.string_of_uint u) as [|a s]; [congruence|].
    simpl in D. apply andb_true_iff in D as [D _]. simpl. now apply is_digit_not_alpha.
  - reflexivity.
Qed.

Lemma NoDup_filter {A} (p : A -> bool) l : NoDup l -> NoDup (filter p l).
Proof.
  induction 1; simpl; [constructor|]. destruct (p x); [|assumption].
  constructor; [|assumption]. intros Hin. apply filter_In in Hin. tauto.
Qed.

Lemma map_fst_filter {A B} (p : A * B -> bool) (q : A -> bool) l :
  (forall x, p x = q (fst x)) -> map fst (filter p l) = filter q (map fst l).
Proof.
  intros H. induction l; simpl; [reflexivity|]. rewrite H.
  destruct (q (fst a)); simpl; now rewrite IHl.
Qed.

Section Reading2.
Variable m : mesh.
Variable f : bool.
Hypothesis W : wf_facts m.

Let P := map pb (assemble (map node_row (m_nodes m)) (ebs_of (m_elems m))
                          (gbs_of f (m_egroups m)) (sbs_of (m_sections m)) (initial_blocks m)).

Lemma read_egroups_ok ids :
  read_egroups P ids = Ok (("ALL", ids) :: nonall (m_egroups m)).
Proof.
  unfold read_egroups, extract_headers, extract_blocks.
  subst P. rewrite (sel_elem m f W), (sel_group m f W).
  assert (E1 : captures "EGRP=" (map fst (map pb (ebs_of (m_elems m)))) = []).
  { unfold ebs_of. rewrite !map_map. cbn [pb fst].
    apply captures_none. intros b Hb. apply capture_elem_egrp.
    destruct (wf_block_parts _ (we_ok m W b Hb)) as (Ht & _ & _).
    now destruct (type_ok_parts _ Ht) as (_ & Hw & _). }
  rewrite E1.
  assert (E2 : captures "EGRP=" (map fst (map pb (gbs_of f (m_egroups m))))
               = map fst (nonall (m_egroups m))).
  { unfold gbs_of. rewrite !map_map. cbn [pb fst].
    apply captures_map. intros g Hg. apply capture_group. now destruct (wf_group_in m g W Hg). }
  rewrite E2.
  assert (E3 : mapM parse_ints_rank1 (map snd (map pb (gbs_of f (m_egroups m))))
               = Ok (map snd (nonall (m_egroups m)))).
  { unfold gbs_of. rewrite !map_map. cbn [pb snd].
    apply mapM_map_map. intros g Hg. apply parse_ints_rank1_ok. now destruct (wf_group_in m g W Hg). }
  rewrite E3. cbn [bind]. rewrite combine_map.
  rewrite map_ext with (g := fun x => x) by (intros []; reflexivity). rewrite map_id.
  assert (ND : NoDup (map fst (nonall (m_egroups m)))).
  { unfold nonall.
    rewrite (map_fst_filter _ (fun k => negb (String.eqb k "ALL"))) by (intros []; reflexivity).
    apply NoDup_filter, nodup_str_NoDup, (wg_nd m W). }
  assert (EM : (if merge_egroups
                then fold_left (fun acc kv => dict_append (fst kv) (snd kv) acc)
                               (nonall (m_egroups m)) []
                else nonall (m_egroups m)) = nonall (m_egroups m)).
  { destruct merge_egroups; [|reflexivity]. now rewrite fold_dict_append. }
  rewrite EM.
  rewrite fold_dict_set; [reflexivity|].
  cbn [map fst app]. constructor; [|exact ND].
  intros Hin. apply in_map_iff in Hin as (g & Eg & Hg). unfold nonall in Hg.
  apply filter_In in Hg as [_ Hg]. unfold is_all in Hg. rewrite Eg in Hg. discriminate.
Qed.

Lemma read_sections_ok : read_sections P = Ok (m_sections m).
Proof.
  unfold read_sections, extract_headers. subst P. rewrite (sel_sect m f W).
  unfold sbs_of. rewrite !map_map. cbn [pb fst].
  assert (C : forall s, In s (m_sections m) ->
    capture "TYPE=" (header (KSect (fst (snd s)) (snd (snd s)) (fst s))) = Some (fst (snd s)) /\
    capture "EGRP=" (header (KSect (fst (snd s)) (snd (snd s)) (fst s))) = Some (snd (snd s)) /\
    capture "MATERIAL=" (header (KSect (fst (snd s)) (snd (snd s)) (fst s))) = Some (fst s)).
  { intros s Hs. apply capture_sect. apply (ws_ok m W s Hs). }
  rewrite (captures_map "TYPE=" _ (fun s => fst (snd s))) by (intros s Hs; apply (C s Hs)).
  rewrite (captures_map "EGRP=" _ (fun s => snd (snd s))) by (intros s Hs; apply (C s Hs)).
  rewrite (captures_map "MATERIAL=" _ (fun s : string * (string * string) => fst s))
    by (intros s Hs; apply (C s Hs)).
  rewrite !map_length, !Nat.eqb_refl. cbn [andb]. rewrite !combine_map. f_equal.
  rewrite map_ext with (g := fun x => x) by (intros [? [? ?]]; reflexivity). apply map_id.
Qed.

Lemma read_initial_ok : read_initial P (m_nodes m) = Ok (m_initial m).
Proof.
  unfold read_initial, extract_headers, extract_blocks. subst P. rewrite (sel_init m f W).
  pose proof (wi_ok m W) as Wi. unfold wf_initial in Wi. unfold initial_blocks.
  destruct (m_initial m) as [|[k rows] [|x y]]; [reflexivity| |discriminate].
  rewrite !andb_true_iff in Wi. destruct Wi as [[[Hk Hn] Hl] Hw].
  apply String.eqb_eq in Hk. subst k. apply is_nil_false in Hn.
  cbn [lookup]. rewrite String.eqb_refl. cbn [map pb fst snd].
  change (captures "TYPE=" [header KInit]) with ["TEMPERATURE"].
  assert (EM : forall B : list (list string),
             (if merge_initial
              then fold_left (fun acc kv => dict_append (fst kv) (snd kv) acc)
                             (combine ["TEMPERATURE"] [B]) []
              else combine ["TEMPERATURE"] [B]) = [("TEMPERATURE", B)])
    by (intros; destruct merge_initial; reflexivity).
  rewrite EM. cbn [map fst snd].
  assert (Ex : existsb (existsb (fun fs : list string =>
                                   match fs with f0 :: _ => starts_alpha f0 | [] => false end))
                       [map fields (map node_row rows)] = false).
  { cbn [existsb]. rewrite orb_false_r. apply not_true_is_false. intros Hex.
    apply existsb_exists in Hex as (fs & Hfs & Ha).
    apply in_map_iff in Hfs as (r & <- & Hr). apply in_map_iff in Hr as (n & <- & _).
    rewrite fields_node_row in Ha. rewrite starts_alpha_print_Z in Ha. discriminate. }
  rewrite Ex. cbn [mapM].
  assert (Er : (match map fields (map node_row rows) with
                | [] => Err "empty initial condition"
                | _ :: _ => mapM parse_value_row (map fields (map node_row rows))
                end) = Ok rows).
  { destruct rows as [|r rows']; [congruence|]. cbn [map].
    change (fields (node_row r) :: map fields (map node_row rows'))
      with (map fields (map node_row (r :: rows'))).
    rewrite map_map. apply mapM_id. intros a Ha. apply parse_value_row_ok.
    rewrite forallb_forall in Hw. now apply Hw. }
  rewrite Er. cbn [bind combine fold_left fst snd dict_set lookup].
  rewrite String.eqb_refl, Hl. reflexivity.
Qed.
End Reading2.

(* ------------------------------------------------------------------ *)
(* the text round trip                                                *)
Definition raw (m : mesh) : mesh :=
  mkmesh (m_nodes m) (m_elems m)
         (("ALL", all_ids (m_elems m)) :: nonall (m_egroups m))
         (m_sections m) (m_initial m).

Definition finish (m : mesh) : result mesh :=
  m' <- remove_useless m ;; check_sections m'.

Theorem text_roundtrip pats m :
  wf_text m = true ->
  exists ls, write_msh m = Ok ls /\ read_msh_with pats ls = finish (raw m).
Proof.
  intros Wt. pose proof (wf_text_facts m Wt) as W.
  destruct (msh_kblocks_ok m W) as [f Hk].
  eexists. split.
  - unfold write_msh. rewrite Hk. reflexivity.
  - unfold read_msh_with. rewrite parse_written by (intros kb Hkb; eapply assemble_good; eauto).
    unfold read_blocks.
    rewrite (read_nodes_ok m f W). cbn [bind].
    rewrite (read_elements_ok m f W). cbn [bind].
    rewrite (element_ids_ok _ (we_ids m W)). cbn [bind].
    rewrite (read_egroups_ok m f W). cbn [bind].
    rewrite (read_sections_ok m f W). cbn [bind].
    rewrite (read_initial_ok m f W). cbn [bind].
    reflexivity.
Qed.
