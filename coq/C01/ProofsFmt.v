(* C01 proofs, part 5: the reader does not depend on insignificant formatting —
   ignored (blank / comment) lines anywhere, blanks around the separators of
   data rows.  (Splitting a block into several blocks with the same header is
   covered by the correspondence and the oracle only: see notes/C01.md.) *)
From Coq Require Import String Ascii List Bool ZArith Lia.
From FV.C01 Require Import Str Dec Model ProofsLines ProofsHeaders.
Import ListNotations.
Local Open Scope string_scope.

(* ------------------------------------------------------------------ *)
(* ignored lines                                                      *)
Theorem read_insert_ignored pats a l b :
  ignored pats l = true ->
  read_msh_with pats (a ++ l :: b) = read_msh_with pats (a ++ b).
Proof.
  intros H. unfold read_msh_with, parse_blocks. rewrite !filter_app. cbn [filter].
  unfold keep at 2. rewrite H. reflexivity.
Qed.

(* S: comment lines of a HEC-MW / FrontISTR mesh file start with "!!" or "#";
   blank lines carry no data *)
Definition fistr_comment (l : string) : bool :=
  starts "#" l || starts "!!" l || all_ws l.

Definition has_pat (p : ipat) (pats : list ipat) : bool :=
  existsb (fun q => match p, q with
                    | IHash, IHash | IBlank, IBlank | IBang, IBang | IBangWs, IBangWs
                    | IBangAny, IBangAny => true
                    | _, _ => false
                    end) pats.

(* the translated ignore pattern covers FrontISTR's comment lines *)
Definition bang_ok (pats : list ipat) : bool :=
  has_pat IHash pats && has_pat IBlank pats
  && (has_pat IBang pats || has_pat IBangWs pats || has_pat IBangAny pats).

Lemma has_pat_ignored p pats l :
  has_pat p pats = true -> match_ipat p l = true -> ignored pats l = true.
Proof.
  unfold has_pat, ignored. rewrite !existsb_exists. intros (q & Hq & E) Hm.
  exists q. split; [assumption|]. destruct p, q; try discriminate; assumption.
Qed.

Lemma starts_has_char c s : starts (String c "") s = true -> has_char c s = true.
Proof.
  destruct s; simpl; [discriminate|]. rewrite andb_true_r. intros H.
  now rewrite Ascii.eqb_sym, H.
Qed.

Lemma ltrim_id_starts k s : starts (String "!" k) s = true -> ltrim s = s.
Proof.
  destruct s; simpl; [reflexivity|]. rewrite andb_true_iff. intros [H _].
  apply Ascii.eqb_eq in H. subst a. reflexivity.
Qed.

Theorem comment_ignored pats l :
  bang_ok pats = true -> fistr_comment l = true -> ignored pats l = true.
Proof.
  unfold bang_ok, fistr_comment. rewrite !andb_true_iff, !orb_true_iff.
  intros [[Hh Hb] Hbang] [[Hc|Hc]|Hc].
  - apply (has_pat_ignored IHash); [assumption|]. now apply starts_has_char.
  - destruct Hbang as [[Hp|Hp]|Hp].
    + now apply (has_pat_ignored IBang).
    + apply (has_pat_ignored IBangWs); [assumption|]. cbn [match_ipat].
      now rewrite (ltrim_id_starts _ _ Hc).
    + apply (has_pat_ignored IBangAny); [assumption|]. now apply starts_contains.
  - now apply (has_pat_ignored IBlank).
Qed.

Corollary read_insert_comment pats a l b :
  bang_ok pats = true -> fistr_comment l = true ->
  read_msh_with pats (a ++ l :: b) = read_msh_with pats (a ++ b).
Proof. intros. apply read_insert_ignored. now apply comment_ignored. Qed.

(* ------------------------------------------------------------------ *)
(* blanks around separators                                           *)
Definition line_equiv (pats : list ipat) (l l' : string) : Prop :=
  keep pats l = keep pats l' /\ is_header l = is_header l' /\
  (is_header l = true -> l = l') /\ (is_header l = false -> fields l = fields l').

Lemma filter_equiv pats ls ls' :
  Forall2 (line_equiv pats) ls ls' ->
  Forall2 (line_equiv pats) (filter (keep pats) ls) (filter (keep pats) ls').
Proof.
  induction 1 as [|l l' ls ls' H _ IH]; simpl; [constructor|].
  destruct H as (Hk & H'). rewrite <- Hk. destruct (keep pats l) eqn:E; [|assumption].
  constructor; [|assumption]. split; [congruence|assumption].
Qed.

Definition frows (b : block) : pblock := (fst b, map fields (snd b)).

Lemma take_rows_equiv pats ls ls' :
  Forall2 (line_equiv pats) ls ls' ->
  map fields (take_rows ls) = map fields (take_rows ls').
Proof.
  induction 1 as [|l l' ls ls' H _ IH]; simpl; [reflexivity|].
  destruct H as (_ & Hh & _ & Hf). rewrite <- Hh. destruct (is_header l) eqn:E; [reflexivity|].
  simpl. now rewrite IH, (Hf eq_refl).
Qed.

Lemma split_blocks_equiv pats ls ls' :
  Forall2 (line_equiv pats) ls ls' ->
  map frows (split_blocks ls) = map frows (split_blocks ls').
Proof.
  induction 1 as [|l l' ls ls' H H2 IH]; simpl; [reflexivity|].
  destruct H as (_ & Hh & He & _). rewrite <- Hh. destruct (is_header l) eqn:E; [|assumption].
  simpl. rewrite IH. unfold frows at 1 3. cbn [fst snd].
  rewrite (He eq_refl), (take_rows_equiv pats ls ls' H2). reflexivity.
Qed.

(* the reader's result depends only on the header lines and on the trimmed
   fields of the kept data lines *)
Theorem read_equiv pats ls ls' :
  Forall2 (line_equiv pats) ls ls' -> read_msh_with pats ls = read_msh_with pats ls'.
Proof.
  intros H. unfold read_msh_with, parse_blocks. f_equal.
  apply (split_blocks_equiv pats). now apply filter_equiv.
Qed.

Lemma line_equiv_refl pats l : line_equiv pats l l.
Proof. repeat split; auto. Qed.

(* a data row whose fields are padded with blanks *)
Fixpoint padded (fs : list string) (pads : list (string * string)) : list string :=
  match fs, pads with
  | f :: fs', (l, r) :: ps => (l ++ f ++ r) :: padded fs' ps
  | _, _ => fs
  end.

Definition pchar (c : ascii) : bool := is_clean c || Ascii.eqb c "," || is_ws c.

Lemma pchar_not_bang c : pchar c = true -> Ascii.eqb c "!" = false.
Proof. revert c. ascii_cases. Qed.
Lemma pchar_not_hash c : pchar c = true -> Ascii.eqb c "#" = false.
Proof. revert c. ascii_cases. Qed.
Lemma ws_not_comma c : is_ws c = true -> Ascii.eqb c "," = false.
Proof. revert c. ascii_cases. Qed.

Lemma pchars_no c s :
  (forall a, pchar a = true -> Ascii.eqb a c = false) ->
  all_chars pchar s = true -> has_char c s = false.
Proof.
  intros Hc. induction s; simpl; [reflexivity|].
  rewrite andb_true_iff. intros [Ha Hs]. now rewrite (Hc _ Ha), IHs.
Qed.

Lemma ws_no_comma s : all_ws s = true -> has_char "," s = false.
Proof.
  induction s; simpl; [reflexivity|]. unfold all_ws in *. simpl.
  rewrite andb_true_iff. intros [Ha Hs]. now rewrite (ws_not_comma _ Ha), IHs.
Qed.

Definition pads_ok (fs : list string) (pads : list (string * string)) : Prop :=
  length pads = length fs /\
  (forall f, In f fs -> clean f = true /\ f <> "") /\
  (forall p, In p pads -> all_ws (fst p) = true /\ all_ws (snd p) = true).

Lemma padded_spec fs pads :
  pads_ok fs pads ->
  map trim (padded fs pads) = fs /\
  (forall x, In x (padded fs pads) -> has_char "," x = false /\ all_chars pchar x = true).
Proof.
  revert pads. induction fs as [|f fs IH]; intros pads (Hl & Hf & Hp).
  - destruct pads; [|discriminate]. split; [reflexivity|intros x []].
  - destruct pads as [|[l r] ps]; [discriminate|]. simpl in Hl. injection Hl as Hl.
    destruct (Hf f (or_introl eq_refl)) as [Hc Hn].
    destruct (Hp (l, r) (or_introl eq_refl)) as [Wl Wr]. cbn [fst snd] in *.
    destruct (IH ps) as [E1 E2].
    { split; [assumption|]. split; [intros; apply Hf; now right|intros; apply Hp; now right]. }
    split.
    + cbn [padded map]. rewrite trim_padded by assumption. now rewrite E1.
    + intros x [<-|Hx]; [|now apply E2]. split.
      * rewrite !has_char_app, (ws_no_comma _ Wl), (ws_no_comma _ Wr), (clean_no_comma _ Hc).
        reflexivity.
      * rewrite !all_chars_app.
        assert (A : forall s, all_ws s = true -> all_chars pchar s = true).
        { intros s. apply all_chars_impl. intros c H. unfold pchar. rewrite H. apply orb_true_r. }
        assert (B : all_chars pchar f = true).
        { revert Hc. apply all_chars_impl. intros c H. unfold pchar. now rewrite H. }
        now rewrite (A _ Wl), (A _ Wr), B.
Qed.

Lemma all_ws_app a b : all_ws (a ++ b) = all_ws a && all_ws b.
Proof. apply all_chars_app. Qed.

Lemma clean_not_all_ws f : clean f = true -> f <> "" -> all_ws f = false.
Proof.
  destruct f; [congruence|]. unfold clean, all_ws. simpl. rewrite andb_true_iff.
  intros [H _] _. now rewrite (clean_not_ws _ H).
Qed.

(* a row and its padded spelling are the same line for the reader *)
Theorem padded_row_equiv pats f fs p ps :
  pads_ok (f :: fs) (p :: ps) ->
  line_equiv pats (join "," (f :: fs)) (join "," (padded (f :: fs) (p :: ps))).
Proof.
  intros Hok. pose proof Hok as (Hl & Hf & Hp).
  destruct (padded_spec _ _ Hok) as [E1 E2].
  destruct (Hf f (or_introl eq_refl)) as [Hc Hn].
  destruct (row_good f fs Hn (fun x Hx => proj1 (Hf x Hx))) as [Hh Hs].
  assert (Ne : padded (f :: fs) (p :: ps) <> []) by (destruct p; discriminate).
  assert (Hpc : all_chars pchar (join "," (padded (f :: fs) (p :: ps))) = true).
  { apply join_clean_chars; [reflexivity|]. intros x Hx. now apply E2. }
  pose proof (pchars_no "!" _ pchar_not_bang Hpc) as Nb.
  pose proof (pchars_no "#" _ pchar_not_hash Hpc) as Nh.
  assert (Hh' : is_header (join "," (padded (f :: fs) (p :: ps))) = false).
  { unfold is_header. destruct (starts "!" _) eqn:E; [|reflexivity].
    apply starts_has in E. congruence. }
  assert (Hws : all_ws (join "," (padded (f :: fs) (p :: ps))) = false).
  { destruct p as [l r]. cbn [padded].
    destruct (padded fs ps) as [|y t].
    - cbn [join]. rewrite !all_ws_app, (clean_not_all_ws f Hc Hn).
      destruct (all_ws l); cbn [andb]; reflexivity.
    - change (join "," ((l ++ f ++ r) :: y :: t)) with ((l ++ f ++ r) ++ String "," (join "," (y :: t))).
      rewrite !all_ws_app, (clean_not_all_ws f Hc Hn).
      destruct (all_ws l); cbn [andb]; reflexivity. }
  assert (Hs' : safe_line (join "," (padded (f :: fs) (p :: ps))) = true).
  { unfold safe_line. now rewrite Nh, Hws, (contains_nochar "!" "!" _ Nb). }
  split; [now rewrite !safe_kept|]. split; [now rewrite Hh, Hh'|]. split; [congruence|].
  intros _. rewrite fields_join by (try discriminate; intros x Hx; now apply Hf).
  unfold fields. rewrite split_join by (auto; intros x Hx; now apply E2). now rewrite E1.
Qed.
