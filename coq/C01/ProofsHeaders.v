(* C01 proofs, part 2: the header lines femio writes — which reader key
   selects which header, what the regex captures return, and that header and
   data lines survive the line filter. *)
From Coq Require Import String Ascii List Bool ZArith Lia.
From FV.C01 Require Import Str Dec Model ProofsLines.
From FV.C01.gen Require Import Tables.
Import ListNotations.
Local Open Scope string_scope.

(* the keys the reader selects blocks with *)
Inductive rkey : Type := RNode | RElem | RGroup | RSect | RInit.

Definition ktail (r : rkey) : string :=
  match r with
  | RNode => "NODE" | RElem => "ELEMENT" | RGroup => "EGROUP" | RSect => "SECTION"
  | RInit => "INITIAL CONDITION"
  end.
Definition key_str (r : rkey) : string := String "!" (ktail r).

(* which kind of written header a key selects *)
Definition sel (r : rkey) (k : hkind) : bool :=
  match r, k with
  | RNode, KNode => true
  | RElem, KElem _ => true
  | RGroup, KGroup _ _ => true
  | RSect, KSect _ _ _ => true
  | RInit, KInit => true
  | _, _ => false
  end.

Definition kind_ok (k : hkind) : bool :=
  match k with
  | KElem c => wordy c
  | KGroup _ n => wordy n
  | KSect ty g m => (String.eqb ty "SOLID" || String.eqb ty "SHELL") && wordy g && wordy m
  | _ => true
  end.

Definition htail (k : hkind) : string :=
  match k with
  | KHeader => "HEADER"
  | KNode => "NODE"
  | KElem c => "ELEMENT,TYPE=" ++ c
  | KGroup true n => "EGROUP,EGRP=" ++ n
  | KGroup false n => "EGROUP, EGRP=" ++ n
  | KSect ty g m => "SECTION,TYPE=" ++ ty ++ ",EGRP=" ++ g ++ ",MATERIAL=" ++ m
  | KInit => "INITIAL CONDITION, TYPE=TEMPERATURE"
  | KEnd => "END"
  end.

(* the only fact about the translated element header prefix that is used *)
Lemma header_htail k : header k = String "!" (htail k).
Proof. destruct k as [| | c | [|] n | ty g m | |]; reflexivity. Qed.

(* characters of a header after the leading '!' *)
Definition hchar (c : ascii) : bool :=
  is_clean c || Ascii.eqb c "," || Ascii.eqb c " ".

Lemma hchar_not_bang c : hchar c = true -> Ascii.eqb c "!" = false.
Proof. revert c. ascii_cases. Qed.
Lemma hchar_not_hash c : hchar c = true -> Ascii.eqb c "#" = false.
Proof. revert c. ascii_cases. Qed.

Lemma hchars_no c s :
  (forall a, hchar a = true -> Ascii.eqb a c = false) ->
  all_chars hchar s = true -> has_char c s = false.
Proof.
  intros Hc. induction s; simpl; [reflexivity|].
  rewrite andb_true_iff. intros [Ha Hs]. now rewrite (Hc _ Ha), IHs.
Qed.

Lemma clean_hchars s : clean s = true -> all_chars hchar s = true.
Proof.
  apply all_chars_impl. intros c H. unfold hchar. now rewrite H.
Qed.

Lemma wordy_hchars s : wordy s = true -> all_chars hchar s = true.
Proof. intros. now apply clean_hchars, wordy_clean. Qed.

Lemma htail_hchars k : kind_ok k = true -> all_chars hchar (htail k) = true.
Proof.
  destruct k as [| | c | [|] n | ty g m | |]; simpl kind_ok; intros H;
    try reflexivity; unfold htail.
  - rewrite all_chars_app, (wordy_hchars _ H). reflexivity.
  - rewrite all_chars_app, (wordy_hchars _ H). reflexivity.
  - rewrite all_chars_app, (wordy_hchars _ H). reflexivity.
  - apply andb_true_iff in H as [H Hm]. apply andb_true_iff in H as [Ht Hg].
    rewrite !all_chars_app, (wordy_hchars _ Hg), (wordy_hchars _ Hm).
    apply orb_true_iff in Ht as [Ht|Ht]; apply String.eqb_eq in Ht; subst; reflexivity.
Qed.

Lemma htail_nobang k : kind_ok k = true -> has_char "!" (htail k) = false.
Proof. intros H. eapply hchars_no; [apply hchar_not_bang|now apply htail_hchars]. Qed.

Lemma htail_nohash k : kind_ok k = true -> has_char "#" (htail k) = false.
Proof. intros H. eapply hchars_no; [apply hchar_not_hash|now apply htail_hchars]. Qed.

Lemma header_is_header k : is_header (header k) = true.
Proof. rewrite header_htail. reflexivity. Qed.

Lemma starts_has c k s : starts (String c k) s = true -> has_char c s = true.
Proof.
  destruct s; simpl; [discriminate|]. rewrite andb_true_iff. intros [H _].
  rewrite Ascii.eqb_sym, H. reflexivity.
Qed.

Lemma header_safe k : kind_ok k = true -> safe_line (header k) = true.
Proof.
  intros H. rewrite header_htail. unfold safe_line.
  assert (E1 : has_char "#" (String "!" (htail k)) = false).
  { cbn [has_char]. rewrite (htail_nohash _ H). reflexivity. }
  assert (E3 : contains "!!" (String "!" (htail k)) = false).
  { rewrite contains_bang by now apply htail_nobang.
    destruct (starts "!" (htail k)) eqn:E; [|reflexivity].
    apply starts_has in E. rewrite (htail_nobang _ H) in E. discriminate. }
  rewrite E1, E3. reflexivity.
Qed.

(* which key selects which header *)
Lemma contains_header r k :
  kind_ok k = true -> contains (key_str r) (header k) = sel r k.
Proof.
  intros H. rewrite header_htail. unfold key_str.
  rewrite contains_bang by now apply htail_nobang.
  destruct r; destruct k as [| | c | [|] n | ty g m | |]; try reflexivity.
Qed.

(* ------------------------------------------------------------------ *)
(* captures                                                           *)
Lemma capture_elem_type c :
  wordy c = true -> capture "TYPE=" (header (KElem c)) = Some c.
Proof.
  intros H. rewrite header_htail.
  change (String "!" (htail (KElem c))) with ("!ELEMENT," ++ "TYPE=" ++ c).
  rewrite capture_skip_concrete by reflexivity. now apply capture_hit_end.
Qed.

Lemma wordy_words s : wordy s = true -> all_chars is_word s = true.
Proof. destruct s; [discriminate|auto]. Qed.

Lemma capture_elem_egrp c :
  wordy c = true -> capture "EGRP=" (header (KElem c)) = None.
Proof.
  intros H. rewrite header_htail.
  change (String "!" (htail (KElem c))) with ("!ELEMENT,TYPE=" ++ c).
  rewrite capture_skip_concrete by reflexivity.
  apply (capture_word_none "EGRP" ""). now apply wordy_words.
Qed.

Lemma capture_group f n :
  wordy n = true -> capture "EGRP=" (header (KGroup f n)) = Some n.
Proof.
  intros H. rewrite header_htail. destruct f.
  - change (String "!" (htail (KGroup true n))) with ("!EGROUP," ++ "EGRP=" ++ n).
    rewrite capture_skip_concrete by reflexivity. now apply capture_hit_end.
  - change (String "!" (htail (KGroup false n))) with ("!EGROUP, " ++ "EGRP=" ++ n).
    rewrite capture_skip_concrete by reflexivity. now apply capture_hit_end.
Qed.

Lemma capture_sect ty g m :
  kind_ok (KSect ty g m) = true ->
  capture "TYPE=" (header (KSect ty g m)) = Some ty /\
  capture "EGRP=" (header (KSect ty g m)) = Some g /\
  capture "MATERIAL=" (header (KSect ty g m)) = Some m.
Proof.
  intros H. cbn [kind_ok] in H.
  apply andb_true_iff in H as [H Hm]. apply andb_true_iff in H as [Ht Hg].
  rewrite header_htail.
  assert (Wt : wordy ty = true).
  { apply orb_true_iff in Ht as [Ht|Ht]; apply String.eqb_eq in Ht; subst; reflexivity. }
  split; [|split].
  - change (String "!" (htail (KSect ty g m)))
      with ("!SECTION," ++ "TYPE=" ++ ty ++ (",EGRP=" ++ g ++ ",MATERIAL=" ++ m)).
    rewrite capture_skip_concrete by reflexivity. now apply capture_hit.
  - apply orb_true_iff in Ht as [Ht|Ht]; apply String.eqb_eq in Ht; subst.
    + change (String "!" (htail (KSect "SOLID" g m)))
        with ("!SECTION,TYPE=SOLID," ++ "EGRP=" ++ g ++ (",MATERIAL=" ++ m)).
      rewrite capture_skip_concrete by reflexivity. now apply capture_hit.
    + change (String "!" (htail (KSect "SHELL" g m)))
        with ("!SECTION,TYPE=SHELL," ++ "EGRP=" ++ g ++ (",MATERIAL=" ++ m)).
      rewrite capture_skip_concrete by reflexivity. now apply capture_hit.
  - apply orb_true_iff in Ht as [Ht|Ht]; apply String.eqb_eq in Ht; subst.
    + change (String "!" (htail (KSect "SOLID" g m)))
        with ("!SECTION,TYPE=SOLID,EGRP=" ++ g ++ String "," ("MATERIAL=" ++ m)).
      change "MATERIAL=" with ("MATERIAL" ++ String "=" "").
      rewrite capture_skip_word; try reflexivity; [|now apply wordy_words].
      change ("MATERIAL" ++ String "=" "") with "MATERIAL=". now apply capture_hit_end.
    + change (String "!" (htail (KSect "SHELL" g m)))
        with ("!SECTION,TYPE=SHELL,EGRP=" ++ g ++ String "," ("MATERIAL=" ++ m)).
      change "MATERIAL=" with ("MATERIAL" ++ String "=" "").
      rewrite capture_skip_word; try reflexivity; [|now apply wordy_words].
      change ("MATERIAL" ++ String "=" "") with "MATERIAL=". now apply capture_hit_end.
Qed.

Lemma capture_init : capture "TYPE=" (header KInit) = Some "TEMPERATURE".
Proof. reflexivity. Qed.

(* ------------------------------------------------------------------ *)
(* data rows                                                          *)
Definition rchar (c : ascii) : bool := is_clean c || Ascii.eqb c ",".

Lemma rchar_not_bang c : rchar c = true -> Ascii.eqb c "!" = false.
Proof. revert c. ascii_cases. Qed.
Lemma rchar_not_hash c : rchar c = true -> Ascii.eqb c "#" = false.
Proof. revert c. ascii_cases. Qed.

Lemma rchars_no c s :
  (forall a, rchar a = true -> Ascii.eqb a c = false) ->
  all_chars rchar s = true -> has_char c s = false.
Proof.
  intros Hc. induction s; simpl; [reflexivity|].
  rewrite andb_true_iff. intros [Ha Hs]. now rewrite (Hc _ Ha), IHs.
Qed.

Lemma row_good f t :
  f <> "" -> (forall x, In x (f :: t) -> clean x = true) ->
  is_header (join "," (f :: t)) = false /\ safe_line (join "," (f :: t)) = true.
Proof.
  intros Hf Hc.
  assert (Hr : all_chars rchar (join "," (f :: t)) = true).
  { apply join_clean_chars; [reflexivity|]. intros x Hx.
    eapply all_chars_impl; [|apply (Hc x Hx)]. intros c H. unfold rchar. now rewrite H. }
  pose proof (rchars_no "!" _ rchar_not_bang Hr) as Nb.
  pose proof (rchars_no "#" _ rchar_not_hash Hr) as Nh.
  assert (Hhd : exists a s, join "," (f :: t) = String a s /\ is_clean a = true).
  { destruct f as [|a f']; [congruence|].
    pose proof (Hc (String a f') (or_introl eq_refl)) as Hcf.
    unfold clean in Hcf. simpl in Hcf. apply andb_true_iff in Hcf as [Ha _].
    destruct t; simpl; eauto. }
  destruct Hhd as (a & s & E & Ha). split.
  - unfold is_header. destruct (starts "!" (join "," (f :: t))) eqn:Es; [|reflexivity].
    apply starts_has in Es. congruence.
  - unfold safe_line. rewrite Nh.
    rewrite (contains_nochar "!" "!" _ Nb). rewrite E. unfold all_ws. simpl.
    rewrite (clean_not_ws _ Ha). reflexivity.
Qed.

Lemma node_row_good n :
  (forall d, In d (snd n) -> True) ->
  is_header (node_row n) = false /\ safe_line (node_row n) = true.
Proof.
  intros _. unfold node_row. apply row_good; [apply print_Z_nonempty|].
  intros x [<-|Hx]; [apply print_Z_clean|].
  apply in_map_iff in Hx as (d & <- & _). apply print_dec_clean.
Qed.

Lemma elem_row_good e :
  is_header (elem_row e) = false /\ safe_line (elem_row e) = true.
Proof.
  unfold elem_row. simpl map. apply row_good; [apply print_Z_nonempty|].
  intros x [<-|Hx]; [apply print_Z_clean|].
  apply in_map_iff in Hx as (d & <- & _). apply print_Z_clean.
Qed.

Lemma print_Z_row_good z :
  is_header (print_Z z) = false /\ safe_line (print_Z z) = true.
Proof.
  change (print_Z z) with (join "," [print_Z z]). apply row_good; [apply print_Z_nonempty|].
  intros x [<-|[]]. apply print_Z_clean.
Qed.

(* fields of the rows *)
Lemma fields_node_row n : fields (node_row n) = print_Z (fst n) :: map print_dec (snd n).
Proof.
  unfold node_row. apply fields_join; [discriminate|].
  intros x [<-|Hx]; [apply print_Z_clean|].
  apply in_map_iff in Hx as (d & <- & _). apply print_dec_clean.
Qed.

Lemma fields_elem_row e : fields (elem_row e) = map print_Z (fst e :: snd e).
Proof.
  unfold elem_row. apply fields_join; [discriminate|].
  intros x Hx. apply in_map_iff in Hx as (d & <- & _). apply print_Z_clean.
Qed.

Lemma fields_print_Z z : fields (print_Z z) = [print_Z z].
Proof.
  change (print_Z z) with (join "," [print_Z z]) at 1. apply fields_join; [discriminate|].
  intros x [<-|[]]. apply print_Z_clean.
Qed.
