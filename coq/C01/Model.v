(* C01 — model of femio's FrontISTR .msh writer and reader (definitions only).

   Writer: femio/formats/fistr/write_fistr.py  FistrWriter.write_msh / write_data
   Reader: femio/fem_data.py _read_files (line filter),
           femio/util/string_parser.py to_header_data / HeaderData.extract_data /
             extract_headers / extract_captures / to_fem_attribute / to_values,
           femio/formats/fistr/fistr.py _read_msh, _read_nodes, _read_elements,
             _reorder_prism, _read_element_groups, _read_sections,
             _read_initial_condisions, _extract_ids_from_sections,
           femio/fem_data.py remove_useless_nodes,
           femio/fem_elemental_attribute.py (ids of a mixed collection are sorted,
             items() iterates in ELEMENT_TYPES order).
   Tables (type codes, prism permutations, block order, ignore pattern, number of
   digits) come from gen/Tables.v, regenerated from the tree under test.

   A file is a list of lines.  The reader model is *partial*: [Err] means
   either "femio raises" or "outside the modelled fragment" (node groups,
   materials, EGRP= inside !ELEMENT headers, group names in !INITIAL CONDITION
   rows, numbers not in the writer's spelling); the theorems are about the
   writer's output and its formatting variants, where the model answers [Ok]. *)
From Coq Require Import String Ascii List Bool ZArith Lia.
From Coq Require Import Sorting.Mergesort Orders.
From FV.C01 Require Import Str Dec.
From FV.C01.gen Require Import Tables.
Import ListNotations.
Local Open Scope string_scope.

(* ------------------------------------------------------------------ *)
Record mesh : Type := mkmesh {
  m_nodes : list (Z * list dec);                 (* id, coordinates; storage order *)
  m_elems : list (string * list (Z * list Z));   (* femio type, (id, node ids); one block per type *)
  m_egroups : list (string * list Z);            (* element groups, dict order *)
  m_sections : list (string * (string * string));(* material, (TYPE, EGRP) *)
  m_initial : list (string * list (Z * list dec))(* INITIAL_<type> nodal data: (id, values) *)
}.

Definition block : Type := (string * list string)%type.   (* header line, data lines *)

Definition flatten (bs : list block) : list string :=
  concat (map (fun b => fst b :: snd b) bs).

(* ------------------------------------------------------------------ *)
(* writer                                                             *)
Definition node_row (n : Z * list dec) : string :=
  join "," (print_Z (fst n) :: map print_dec (snd n)).

Definition elem_row (e : Z * list Z) : string :=
  join "," (map print_Z (fst e :: snd e)).

Fixpoint mapO {A B} (f : A -> option B) (l : list A) : option (list B) :=
  match l with
  | [] => Some []
  | a :: t => match f a, mapO f t with
              | Some b, Some bs => Some (b :: bs)
              | _, _ => None
              end
  end.

(* numpy: np.stack([d[:, i] for i in p], axis=-1) on one row *)
Definition permute {A} (p : list nat) (row : list A) : option (list A) :=
  mapO (nth_error row) p.

Definition permute_rows (p : list nat) (rows : list (Z * list Z))
  : result (list (Z * list Z)) :=
  mapM (fun e => c <- of_option "IndexError" (permute p (snd e)) ;; Ok (fst e, c)) rows.

(* the header lines femio writes, by kind *)
Inductive hkind : Type :=
| KHeader | KNode
| KElem (code : string)
| KGroup (formatted : bool) (name : string)
| KSect (ty grp mat : string)
| KInit | KEnd.

Definition header (k : hkind) : string :=
  match k with
  | KHeader => "!HEADER"
  | KNode => "!NODE"
  | KElem c => element_header ++ c
  | KGroup true n => "!EGROUP,EGRP=" ++ n     (* generate_formatted_string removes blanks *)
  | KGroup false n => "!EGROUP, EGRP=" ++ n
  | KSect ty g m => "!SECTION,TYPE=" ++ ty ++ ",EGRP=" ++ g ++ ",MATERIAL=" ++ m
  | KInit => "!INITIAL CONDITION, TYPE=TEMPERATURE"
  | KEnd => "!END"
  end.

Definition kblock : Type := (hkind * list string)%type.
Definition block_of (kb : kblock) : block := (header (fst kb), snd kb).

(* FEMElementalAttribute.items(): iteration in ELEMENT_TYPES order *)
Definition lookup_last {A} (k : string) (t : list (string * A)) : option A :=
  lookup k (rev t).
Definition in_type_order {A} (d : list (string * A)) : list (string * A) :=
  flat_map (fun t => match lookup_last t d with Some v => [(t, v)] | None => [] end)
           element_types.

Definition elem_block (b : string * list (Z * list Z)) : result kblock :=
  code <- of_option "Unknown element type" (lookup (fst b) detect_table) ;;
  rows <- (if mem_str code prism_write_codes
           then permute_rows prism_perm_write (snd b) else Ok (snd b)) ;;
  Ok (KElem code, map elem_row rows).

Definition is_all (g : string * list Z) : bool := String.eqb (fst g) "ALL".

Definition n_elements (m : mesh) : nat :=
  length (concat (map snd (m_elems m))).

Definition egroup_blocks (m : mesh) : result (list kblock) :=
  let gs := m_egroups m in
  let nonall := filter (fun g => negb (is_all g)) gs in
  if existsb (fun g => match snd g with [] => true | _ => false end) gs
  then Err "empty element group: outside the model"
  else
    let values := concat (map snd nonall) in
    if ((length values =? n_elements m)%nat && (length values =? length gs - 1)%nat)
    then (* generate_formatted_string: one value per key, blanks removed *)
      Ok (map (fun kv => (KGroup true (fst kv), [print_Z (snd kv)]))
              (combine (map fst nonall) values))
    else
      Ok (map (fun g => (KGroup false (fst g), map print_Z (snd g))) nonall).

Definition section_block (s : string * (string * string)) : result kblock :=
  let '(mat, (ty, grp)) := s in
  params <- (if String.eqb ty "SOLID" then Ok []
             else if String.eqb ty "SHELL" then Ok ["1.0,1"]
             else Err "KeyError") ;;
  Ok (KSect ty grp mat, params).

Definition initial_blocks (m : mesh) : list kblock :=
  match lookup "TEMPERATURE" (m_initial m) with
  | Some rows => [(KInit, map node_row rows)]
  | None => []
  end.

Definition msh_kblocks (m : mesh) : result (list kblock) :=
  ebs <- mapM elem_block (in_type_order (m_elems m)) ;;
  gbs <- egroup_blocks m ;;
  sbs <- mapM section_block (m_sections m) ;;
  Ok ([(KHeader, ["Data written by femio"]); (KNode, map node_row (m_nodes m))]
      ++ ebs ++ gbs ++ sbs ++ initial_blocks m ++ [(KEnd, [])])%list.

Definition write_msh (m : mesh) : result (list string) :=
  kbs <- msh_kblocks m ;; Ok (flatten (map block_of kbs)).

(* ------------------------------------------------------------------ *)
(* reader: lines -> blocks                                            *)
Definition keep (pats : list ipat) (l : string) : bool := negb (ignored pats l).
Definition is_header (l : string) : bool := starts "!" l.

Fixpoint take_rows (ls : list string) : list string :=
  match ls with
  | [] => []
  | l :: r => if is_header l then [] else l :: take_rows r
  end.

(* StringSeries.to_header_data('!') : every line starting with '!' opens a
   block that extends to the next such line; lines before the first header
   belong to no block *)
Fixpoint split_blocks (ls : list string) : list block :=
  match ls with
  | [] => []
  | l :: r => if is_header l then (l, take_rows r) :: split_blocks r
              else split_blocks r
  end.

(* parsed block: header and the trimmed fields of every data row *)
Definition pblock : Type := (string * list (list string))%type.

Definition parse_blocks (pats : list ipat) (ls : list string) : list pblock :=
  map (fun b => (fst b, map fields (snd b))) (split_blocks (filter (keep pats) ls)).

Definition selected (key : string) (bs : list pblock) : list pblock :=
  filter (fun b => contains key (fst b)) bs.

(* HeaderData.extract_headers / extract_data(concatenate=True|False) *)
Definition extract_headers (key : string) (bs : list pblock) : list string :=
  map fst (selected key bs).
Definition extract_blocks (key : string) (bs : list pblock) : list (list (list string)) :=
  map snd (selected key bs).
Definition extract_data (key : string) (bs : list pblock) : list (list string) :=
  concat (extract_blocks key bs).

(* ------------------------------------------------------------------ *)
(* reader: rows -> values                                             *)
Definition parse_node_row (fs : list string) : result (Z * list dec) :=
  match fs with
  | [] => Err "empty row"
  | f :: rest => i <- parse_Zf f ;; cs <- mapM parse_decf (firstn 3 rest) ;; Ok (i, cs)
  end.

(* to_fem_attribute(id_column=0, slice(1, None)) *)
Definition parse_value_row (fs : list string) : result (Z * list dec) :=
  match fs with
  | [] => Err "empty row"
  | f :: rest => i <- parse_Zf f ;; cs <- mapM parse_decf rest ;; Ok (i, cs)
  end.

Definition parse_elem_row (fs : list string) : result (Z * list Z) :=
  match fs with
  | [] => Err "empty row"
  | f :: rest => i <- parse_Zf f ;; cs <- mapM parse_Zf rest ;; Ok (i, cs)
  end.

(* an empty block makes pandas / numpy raise (no column to take the ids from) *)
Definition parse_elem_rows (rows : list (list string)) : result (list (Z * list Z)) :=
  match rows with
  | [] => Err "IndexError: empty element block"
  | _ => mapM parse_elem_row rows
  end.

Definition read_nodes (bs : list pblock) : result (list (Z * list dec)) :=
  match extract_data "!NODE" bs with
  | [] => Err "no node"
  | rows => mapM parse_node_row rows
  end.

Definition convert_type (code : string) : result string :=
  of_option "Unknown FrontISTR element type" (lookup code fistr_elements).

(* dict_id / dict_data of the mixed branch: append the rows of a block to the
   entry of its code (entries in order of first appearance) *)
Fixpoint dict_append {A} (k : string) (v : list A) (t : list (string * list A))
  : list (string * list A) :=
  match t with
  | [] => [(k, v)]
  | (k', v') :: r => if String.eqb k k' then (k', (v' ++ v)%list) :: r
                     else (k', v') :: dict_append k v r
  end.

Definition reorder_prism (es : list (string * list (Z * list Z)))
  : result (list (string * list (Z * list Z))) :=
  match prism_read with
  | None => Ok es
  | Some (ty, p) =>
    mapM (fun b => if String.eqb (fst b) ty
                   then rows <- permute_rows p (snd b) ;; Ok (fst b, rows)
                   else Ok b) es
  end.

Definition read_elements (bs : list pblock)
  : result (list (string * list (Z * list Z))) :=
  let types := captures "TYPE=" (extract_headers "!ELEMENT" bs) in
  match types with
  | [] => Err "IndexError: no element"
  | t0 :: _ =>
    es <- (if forallb (String.eqb t0) types then
             (* uniform *)
             ty <- convert_type t0 ;;
             rows <- parse_elem_rows (extract_data "!ELEMENT" bs) ;;
             Ok (in_type_order [(ty, rows)])
           else
             (* mixed *)
             parsed <- mapM parse_elem_rows (extract_blocks "!ELEMENT" bs) ;;
             let d := fold_left (fun acc tc => dict_append (fst tc) (snd tc) acc)
                                (combine types parsed) [] in
             d2 <- mapM (fun kv => ty <- convert_type (fst kv) ;; Ok (ty, snd kv)) d ;;
             Ok (in_type_order d2)) ;;
    reorder_prism es
  end.

(* ------------------------------------------------------------------ *)
(* sorting (numpy argsort / unique on distinct integers)              *)
Module ZOrder <: TotalLeBool.
  Definition t := Z.
  Definition leb := Z.leb.
  Theorem leb_total : forall a b, leb a b = true \/ leb b a = true.
  Proof. intros a b. unfold leb. destruct (Z.leb_spec a b); [now left|right; apply Z.leb_le; lia]. Qed.
End ZOrder.
Module ZSort := Sort ZOrder.

Module ZNOrder <: TotalLeBool.
  Definition t := (Z * nat)%type.
  Definition leb (a b : t) := Z.leb (fst a) (fst b).
  Theorem leb_total : forall a b, leb a b = true \/ leb b a = true.
  Proof. intros a b. unfold leb. destruct (Z.leb_spec (fst a) (fst b)); [now left|right; apply Z.leb_le; lia]. Qed.
End ZNOrder.
Module ZNSort := Sort ZNOrder.

Fixpoint uniq (l : list Z) : list Z :=
  match l with
  | [] => []
  | a :: t => match t with
              | [] => [a]
              | b :: _ => if Z.eqb a b then uniq t else a :: uniq t
              end
  end.

Fixpoint nodupb (l : list Z) : bool :=
  match l with
  | [] => true
  | a :: t => negb (existsb (Z.eqb a) t) && nodupb t
  end.

Fixpoint list_eqb {A} (eq : A -> A -> bool) (a b : list A) : bool :=
  match a, b with
  | [], [] => true
  | x :: a', y :: b' => eq x y && list_eqb eq a' b'
  | _, _ => false
  end.

(* FEMElementalAttribute.ids : storage order for one type, sorted by id for a
   mixed collection (duplicate ids would be renumbered: outside the model) *)
Definition element_ids (es : list (string * list (Z * list Z))) : result (list Z) :=
  match es with
  | [b] => Ok (map fst (snd b))
  | _ => let ids := concat (map (fun b => map fst (snd b)) es) in
         if nodupb ids then Ok (ZSort.sort ids)
         else Err "duplicate element ids: outside the model"
  end.

(* to_values(data_type=int, to_rank1=True) *)
Definition parse_ints_rank1 (rows : list (list string)) : result (list Z) :=
  match rows with
  | [] => Err "ValueError: need at least one array to concatenate"
  | _ => vs <- mapM (mapM parse_Zf) rows ;; Ok (concat vs)
  end.

Definition read_egroups (bs : list pblock) (all_ids : list Z)
  : result (list (string * list Z)) :=
  match captures "EGRP=" (extract_headers "!ELEMENT" bs) with
  | _ :: _ => Err "EGRP= in !ELEMENT headers: outside the model"
  | [] =>
    let names := captures "EGRP=" (extract_headers "!EGROUP" bs) in
    vals <- mapM parse_ints_rank1 (extract_blocks "!EGROUP" bs) ;;
    (* _merge_groups (when present): blocks of the same name are appended *)
    let pairs := if merge_egroups
                 then fold_left (fun acc kv => dict_append (fst kv) (snd kv) acc)
                                (combine names vals) []
                 else combine names vals in
    Ok (fold_left (fun d kv => dict_set (fst kv) (snd kv) d) pairs [("ALL", all_ids)])
  end.

(* _read_node_groups: ALL = the node ids as read (before remove_useless_nodes),
   then one group per !NGROUP block (merged by name when _merge_groups is used) *)
Definition read_node_groups (bs : list pblock) (node_ids : list Z)
  : result (list (string * list Z)) :=
  let names := captures "NGRP=" (extract_headers "!NGROUP" bs) in
  vals <- mapM parse_ints_rank1 (extract_blocks "!NGROUP" bs) ;;
  let pairs := if merge_ngroups
               then fold_left (fun acc kv => dict_append (fst kv) (snd kv) acc)
                              (combine names vals) []
               else combine names vals in
  Ok (fold_left (fun d kv => dict_set (fst kv) (snd kv) d) pairs [("ALL", node_ids)]).

Definition read_sections (bs : list pblock)
  : result (list (string * (string * string))) :=
  let hs := extract_headers "!SECTION" bs in
  let types := captures "TYPE=" hs in
  let grps := captures "EGRP=" hs in
  let mats := captures "MATERIAL=" hs in
  if ((length types =? length mats)%nat && (length grps =? length mats)%nat)
  then Ok (combine mats (combine types grps))
  else Err "ValueError: section attribute lengths differ".

Definition starts_alpha (f : string) : bool :=
  match f with String a _ => is_alpha a | "" => false end.

Definition read_initial (bs : list pblock) (nodes : list (Z * list dec))
  : result (list (string * list (Z * list dec))) :=
  let types0 := captures "TYPE=" (extract_headers "!INITIAL CONDITION" bs) in
  let blocks0 := extract_blocks "!INITIAL CONDITION" bs in
  (* blocks of the same type are concatenated first (when the merge loop is present) *)
  let merged := if merge_initial
                then fold_left (fun acc kv => dict_append (fst kv) (snd kv) acc)
                               (combine types0 blocks0) []
                else combine types0 blocks0 in
  let types := map fst merged in
  let blocks := map snd merged in
  if existsb (existsb (fun fs => match fs with f :: _ => starts_alpha f | [] => false end))
             blocks
  then Err "node group name in !INITIAL CONDITION: outside the model"
  else
    vals <- mapM (fun rows => match rows with
                              | [] => Err "empty initial condition"
                              | _ => mapM parse_value_row rows
                              end) blocks ;;
    let d := fold_left (fun d kv => dict_set (fst kv) (snd kv) d) (combine types vals) [] in
    (* pad missing initial temperatures with zero (positional!) *)
    match lookup "TEMPERATURE" d with
    | None => Ok d
    | Some rows =>
      if (length rows =? length nodes)%nat then Ok d
      else if (length nodes <? length rows)%nat then Err "ValueError: negative dimensions"
      else Ok (dict_set "TEMPERATURE"
                 (combine (map fst nodes)
                          (map snd rows ++ repeat [dec_zero] (length nodes - length rows))%list) d)
    end.

(* ------------------------------------------------------------------ *)
(* FEMData.remove_useless_nodes                                       *)
Fixpoint walk (orig : list (Z * nat)) (useful : list Z) : option (list (Z * nat)) :=
  match useful with
  | [] => Some []
  | u :: us =>
    match orig with
    | [] => None                                 (* IndexError *)
    | o :: os => if Z.eqb (fst o) u
                 then option_map (cons o) (walk os us)
                 else walk os useful
    end
  end.

Fixpoint lookupZ {A} (i : Z) (t : list (Z * A)) : option A :=
  match t with
  | [] => None
  | (j, v) :: r => if Z.eqb i j then Some v else lookupZ i r
  end.

Definition referenced (es : list (string * list (Z * list Z))) : list Z :=
  uniq (ZSort.sort (concat (map (fun b => concat (map snd (snd b))) es))).

Definition remove_useless (m : mesh) : result mesh :=
  let useful := referenced (m_elems m) in
  let ids := map fst (m_nodes m) in
  let sorted := ZNSort.sort (combine ids (seq 0 (length ids))) in
  if (length sorted =? length useful)%nat then
    if list_eqb Z.eqb (map fst sorted) useful then Ok m
    else Err "Node IDs are inconsistent with elements"
  else
    kept <- of_option "IndexError" (walk sorted useful) ;;
    let pos := map snd kept in
    nodes' <- of_option "IndexError" (mapO (nth_error (m_nodes m)) pos) ;;
    init' <- mapM (fun kv =>
                     if rebind_by_id then
                       (* value.loc[self.nodes.ids].values *)
                       vals <- of_option "KeyError"
                                 (mapO (fun i => lookupZ i (snd kv)) (map fst nodes')) ;;
                       Ok (fst kv, combine (map fst nodes') vals)
                     else
                       (* value.data[useful_indices] re-labelled with the new node ids *)
                       rows' <- of_option "IndexError" (mapO (nth_error (snd kv)) pos) ;;
                       Ok (fst kv, combine (map fst nodes') (map snd rows')))
                  (m_initial m) ;;
    Ok (mkmesh nodes' (m_elems m) (m_egroups m) (m_sections m) init').

(* _resolve_assignments -> _extract_ids_from_sections: every section's EGRP
   must be a known element group (KeyError otherwise) *)
Definition check_sections (m : mesh) : result mesh :=
  if forallb (fun s => match lookup (snd (snd s)) (m_egroups m) with
                       | Some _ => true | None => false end) (m_sections m)
  then Ok m else Err "KeyError: section refers to an unknown element group".

Definition read_blocks (bs : list pblock) : result mesh :=
  nodes <- read_nodes bs ;;
  elems <- read_elements bs ;;
  all_ids <- element_ids elems ;;
  groups <- read_egroups bs all_ids ;;
  sects <- read_sections bs ;;
  init <- read_initial bs nodes ;;
  m <- remove_useless (mkmesh nodes elems groups sects init) ;;
  check_sections m.

Definition read_msh_with (pats : list ipat) (ls : list string) : result mesh :=
  read_blocks (parse_blocks pats ls).

(* the node groups femio holds after reading the .msh (used by the .cnt reader, C03) *)
Definition read_ngroups_with (pats : list ipat) (ls : list string)
  : result (list (string * list Z)) :=
  let bs := parse_blocks pats ls in
  nodes <- read_nodes bs ;; read_node_groups bs (map fst nodes).

(* the reader of the tree under test *)
Definition read_msh (ls : list string) : result mesh := read_msh_with ignore_pats ls.

(* ------------------------------------------------------------------ *)
(* canonical text of a result (used to compare with what femio returned) *)
Definition show_mesh (m : mesh) : list string :=
  (["NODES"] ++ map node_row (m_nodes m)
  ++ flat_map (fun b => ("ELEMENTS " ++ fst b)%string :: map elem_row (snd b)) (m_elems m)
  ++ flat_map (fun g => [("EGROUP " ++ fst g)%string; join "," (map print_Z (snd g))]) (m_egroups m)
  ++ map (fun s => ("SECTION " ++ fst s ++ "," ++ fst (snd s) ++ "," ++ snd (snd s))%string) (m_sections m)
  ++ flat_map (fun kv => ("INITIAL " ++ fst kv)%string :: map node_row (snd kv)) (m_initial m))%list.

Definition show_result (r : result mesh) : list string :=
  match r with Ok m => show_mesh m | Err _ => ["ERROR"] end.

Definition read_ngroups (ls : list string) := read_ngroups_with ignore_pats ls.

Definition show_groups (r : result (list (string * list Z))) : list string :=
  match r with
  | Ok gs => flat_map (fun g => [("GROUP " ++ fst g)%string; join "," (map print_Z (snd g))]) gs
  | Err _ => ["ERROR"]
  end.

Definition show_lines (r : result (list string)) : list string :=
  match r with Ok ls => ls | Err _ => ["ERROR"] end.

Definition lines_eqb (a b : list string) : bool := list_eqb String.eqb a b.
