(* C11 — lemmas and proofs about the TRANSLATED kernels (gen/Kernels.v) over R. *)
From Coq Require Import ZArith Reals List String Lra Nsatz Permutation Bool.
From FV.C11 Require Import Model Entry.
From FV.C11.gen Require Import Kernels.
Import ListNotations.
Open Scope R_scope.
(* no sentence of this file may hold the shared Coq build lock for long *)
Set Default Timeout 240.

(* ------------------------------------------------------------------ tactics *)
Ltac dM M := destruct M as [[[[? ?] ?] [[? ?] ?]] [[? ?] ?]].
Ltac destruct_pts :=
  repeat match goal with
  | M : m33 R |- _ => dM M
  | p : v3 R |- _ => destruct p as [[? ?] ?]
  end.

Ltac unfold_kernels := cbv [
  k_element_volumes_tet_like_core k_element_volumes_hex_with_nodes k_volumes_quad_centroid
  k_element_areas_tri k_element_areas_quad k_element_areas_quad_gaussian
  k_element_areas_quad_centroid
  k_element_volumes_tet_like k_element_volumes_pyr k_element_volumes_pyr_centroid
  k_element_volumes_prism k_element_volumes_prism_centroid k_element_volumes_hex
  k_element_volumes_hex_gaussian k_element_volumes_hex_centroid k_element_volumes_hexprism
  k_tri_normals k_quad_normals k_quad_normals_centroid k_tri_crosses].
Ltac unfold_ops := cbv [
  similarity rotation reflection scaling
  aff mapply mdet cof midentity dot cross det3 vadd vsub vopp vscale vscaler vdivs vx vy vz
  normsq norm lit half tri_cross zero one add sub mul opp div of_Z sqrt_ ROps].
Ltac unfold_ops_in H := cbv [
  similarity rotation reflection scaling
  aff mapply mdet cof midentity dot cross det3 vadd vsub vopp vscale vscaler vdivs vx vy vz
  normsq norm lit half tri_cross zero one add sub mul opp div of_Z sqrt_ ROps] in H.
Ltac unfold_all := unfold_kernels; unfold_ops.

Lemma v3_eq (a b c a' b' c' : R) : a = a' -> b = b' -> c = c' -> (a, b, c) = (a', b', c').
Proof. intros -> -> ->. reflexivity. Qed.

(* term-by-term splitting of  sum' = d * sum  (falls back to one big `field`) *)
Lemma div_congr a b c d : a = d * b -> a / c = d * (b / c).
Proof. intros ->. unfold Rdiv. ring. Qed.
Lemma addsub_congr r a a' r0 b b' d :
  r = d * r0 -> a - a' = d * (b - b') -> (r + a) - a' = d * ((r0 + b) - b').
Proof. intros -> H. replace (d * r0 + a - a') with (d * r0 + (a - a')) by ring. rewrite H. ring. Qed.
Lemma add_congr r a r0 b d : r = d * r0 -> a = d * b -> r + a = d * (r0 + b).
Proof. intros -> ->. ring. Qed.
Ltac termwise :=
  lazymatch goal with
  | |- ?a / ?c = ?d * (?b / ?c) => apply div_congr; termwise
  | |- (?r + ?a) - ?a' = ?d * ((?r0 + ?b) - ?b') => apply addsub_congr; [termwise | ring]
  | |- ?r + ?a = ?d * (?r0 + ?b) => apply add_congr; [termwise | ring]
  | |- _ => ring
  end.
Ltac poly := first [ termwise | field ].
Ltac vol_tac := intros; destruct_pts; unfold_all; poly.

(* --------------------------------------------------- matrices: core facts *)
Lemma det3_mapply M a b c :
  det3 ROps (mapply ROps M a) (mapply ROps M b) (mapply ROps M c) = mdet ROps M * det3 ROps a b c.
Proof. vol_tac. Qed.
Lemma cross_mapply M a b :
  cross ROps (mapply ROps M a) (mapply ROps M b) = mapply ROps (cof ROps M) (cross ROps a b).
Proof. intros; destruct_pts; unfold_ops; apply v3_eq; ring. Qed.
Lemma aff_sub M t a b :
  vsub ROps (aff ROps M t a) (aff ROps M t b) = mapply ROps M (vsub ROps a b).
Proof. intros; destruct_pts; unfold_ops; apply v3_eq; ring. Qed.
Lemma aff_identity p : aff ROps (midentity ROps) (vzero ROps) p = p.
Proof. destruct_pts; cbv [vzero]; unfold_ops; apply v3_eq; ring. Qed.

Lemma normsq_cof M s v :
  similarity M s -> normsq ROps (mapply ROps (cof ROps M) v) = (s * s) * (s * s) * normsq ROps v.
Proof.
  destruct_pts. intros H. unfold_ops_in H. unfold_ops.
  destruct H as (H1 & H2 & H3 & H4 & H5 & H6). nsatz.
Qed.
Lemma cof_rot M : rotation M -> cof ROps M = M.
Proof.
  destruct_pts. intros H. unfold_ops_in H. unfold_ops.
  destruct H as ((H1 & H2 & H3 & H4 & H5 & H6) & H7).
  repeat f_equal; nsatz.
Qed.
Lemma cof_refl M : reflection M -> forall v, mapply ROps (cof ROps M) v = vopp ROps (mapply ROps M v).
Proof.
  destruct_pts. intros H v. destruct v as [[x y] z]. unfold_ops_in H. unfold_ops.
  destruct H as ((H1 & H2 & H3 & H4 & H5 & H6) & H7).
  apply v3_eq; nsatz.
Qed.
Lemma similarity_det M s : similarity M s -> mdet ROps M * mdet ROps M = (s * s) * (s * s) * (s * s).
Proof.
  destruct_pts. intros H. unfold_ops_in H. unfold_ops.
  destruct H as (H1 & H2 & H3 & H4 & H5 & H6). nsatz.
Qed.
Lemma similarity_scaling lam : similarity (scaling lam) (Rabs lam).
Proof.
  unfold_ops. assert (Rabs lam * Rabs lam = lam * lam).
  { rewrite <- Rabs_mult. apply Rabs_pos_eq. nra. }
  repeat split; try ring; rewrite H; ring.
Qed.
Lemma mdet_scaling lam : mdet ROps (scaling lam) = lam * lam * lam.
Proof. unfold_ops. ring. Qed.

Lemma sqrt_sq_scale k b : 0 <= k -> sqrt (k * k * b) = k * sqrt b.
Proof.
  intros Hk. destruct (Rle_or_lt 0 b) as [Hb | Hb].
  - rewrite sqrt_mult by nra. rewrite sqrt_square by assumption. reflexivity.
  - rewrite (sqrt_neg_0 b) by lra. rewrite sqrt_neg_0; [ring | nra].
Qed.
(* |cof M v| = s^2 |v| in the flat form produced by unfolding *)
Lemma sqrt_sim3 M s : similarity M s -> 0 <= s ->
  forall x' y' z' x y z, (x', y', z') = mapply ROps (cof ROps M) (x, y, z) ->
  sqrt (x' * x' + y' * y' + z' * z') = s * s * sqrt (x * x + y * y + z * z).
Proof.
  intros Hs Hpos x' y' z' x y z E.
  pose proof (normsq_cof M s (x, y, z) Hs) as H. rewrite <- E in H.
  cbv [normsq add mul ROps] in H. rewrite H.
  replace (s * s * (s * s) * (x * x + y * y + z * z))
    with ((s * s) * (s * s) * (x * x + y * y + z * z)) by ring.
  apply sqrt_sq_scale. nra.
Qed.
Lemma norm_cof M s v : similarity M s -> 0 <= s ->
  norm ROps (mapply ROps (cof ROps M) v) = s * s * norm ROps v.
Proof.
  intros Hs Hpos. destruct v as [[x y] z].
  remember (mapply ROps (cof ROps M) (x, y, z)) as w eqn:E. destruct w as [[x' y'] z'].
  cbv [norm normsq add mul sqrt_ ROps]. apply (sqrt_sim3 M s Hs Hpos). exact E.
Qed.

(* every sqrt on the left is s^2 times the corresponding sqrt on the right *)
Ltac sim_sqrt Hsim Hpos :=
  repeat match goal with
  | |- ?L = ?R =>
    match L with context [sqrt (?x' * ?x' + ?y' * ?y' + ?z' * ?z')] =>
    match R with context [sqrt (?x * ?x + ?y * ?y + ?z * ?z)] =>
      rewrite (sqrt_sim3 _ _ Hsim Hpos x' y' z' x y z) by (unfold_ops; apply v3_eq; ring);
      let q := fresh "q" in set (q := sqrt (x * x + y * y + z * z)); clearbody q
    end end
  end.
Ltac area_tac :=
  let Hsim := fresh "Hsim" in let Hpos := fresh "Hpos" in
  intros *; intros Hsim Hpos; destruct_pts; unfold_kernels; unfold_ops;
  sim_sqrt Hsim Hpos; field.

(* ------------------------------------------- id -> position lookup (lists) *)
Section Relabel.
  Variable P : Type.
  Implicit Types (tbl : list (Z * P)) (i : Z).

  Lemma lookup_In tbl i p : lookup tbl i = Some p -> In (i, p) tbl.
  Proof.
    induction tbl as [| [j q] tl IH]; simpl; [discriminate |].
    destruct (Z.eqb_spec i j) as [-> | Hne].
    - intros [= ->]. now left.
    - intros H. right. now apply IH.
  Qed.
  Lemma lookup_NoDup tbl i p : NoDup (map fst tbl) -> In (i, p) tbl -> lookup tbl i = Some p.
  Proof.
    induction tbl as [| [j q] tl IH]; simpl; [tauto |].
    intros Hnd [H | H].
    - inversion H; subst. now rewrite Z.eqb_refl.
    - inversion Hnd as [| ? ? Hnotin Hnd']; subst.
      destruct (Z.eqb_spec i j) as [-> | Hne].
      + exfalso. apply Hnotin. change j with (fst (j, p)). now apply in_map.
      + now apply IH.
  Qed.
  Lemma lookup_None tbl i : lookup tbl i = None <-> ~ In i (map fst tbl).
  Proof.
    induction tbl as [| [j q] tl IH]; simpl; [tauto |].
    destruct (Z.eqb_spec i j) as [-> | Hne].
    - split; [discriminate | intros H; exfalso; apply H; now left].
    - rewrite IH. split; intros H; [intros [E | E]; [congruence | tauto] | tauto].
  Qed.

  (* storage order of the node table is irrelevant *)
  Lemma lookup_perm tbl tbl' i :
    NoDup (map fst tbl) -> Permutation tbl tbl' -> lookup tbl' i = lookup tbl i.
  Proof.
    intros Hnd Hp.
    assert (Hnd' : NoDup (map fst tbl')).
    { eapply Permutation_NoDup; [apply Permutation_map; exact Hp | exact Hnd]. }
    destruct (lookup tbl i) as [p |] eqn:E.
    - apply lookup_NoDup; [exact Hnd' |]. eapply Permutation_in; [exact Hp |]. now apply lookup_In.
    - apply lookup_None. apply lookup_None in E. intros H. apply E.
      eapply Permutation_in; [apply Permutation_map; apply Permutation_sym; exact Hp | exact H].
  Qed.
  Lemma collect_perm tbl tbl' ids :
    NoDup (map fst tbl) -> Permutation tbl tbl' -> collect tbl' ids = collect tbl ids.
  Proof.
    intros Hnd Hp. induction ids as [| i tl IH]; simpl; [reflexivity |].
    now rewrite (lookup_perm tbl tbl' i Hnd Hp), IH.
  Qed.

  (* renaming node ids consistently in the table and in the connectivity *)
  Definition rename_tbl (f : Z -> Z) tbl : list (Z * P) := map (fun r => (f (fst r), snd r)) tbl.
  Lemma lookup_rename (f : Z -> Z) tbl i :
    (forall j, In j (map fst tbl) -> f j = f i -> j = i) ->
    lookup (rename_tbl f tbl) (f i) = lookup tbl i.
  Proof.
    induction tbl as [| [j q] tl IH]; simpl; [reflexivity |].
    intros Hinj. destruct (Z.eqb_spec i j) as [-> | Hne].
    - now rewrite Z.eqb_refl.
    - destruct (Z.eqb_spec (f i) (f j)) as [E | E].
      + exfalso. apply Hne. symmetry. apply Hinj; [now left | now symmetry].
      + apply IH. intros k Hk. apply Hinj. now right.
  Qed.
  Lemma collect_rename (f : Z -> Z) tbl ids :
    (forall i j, In i ids -> In j (map fst tbl) -> f j = f i -> j = i) ->
    collect (rename_tbl f tbl) (map f ids) = collect tbl ids.
  Proof.
    induction ids as [| i tl IH]; simpl; [reflexivity |].
    intros Hinj. rewrite lookup_rename; [| intros j Hj; apply Hinj; [now left | exact Hj]].
    rewrite IH; [reflexivity |]. intros a b Ha. apply Hinj. now right.
  Qed.
End Relabel.

(* per-element results depend on ids only through the lookup *)
Lemma elem_scalar_perm tbl ty mode (nodes nodes' : node_table R) conn :
  NoDup (map fst nodes) -> Permutation nodes nodes' ->
  elem_scalar ROps tbl ty mode nodes' conn = elem_scalar ROps tbl ty mode nodes conn.
Proof. intros Hnd Hp. unfold elem_scalar. now rewrite (collect_perm _ nodes nodes' conn Hnd Hp). Qed.
Lemma elem_scalar_rename tbl ty mode (f : Z -> Z) (nodes : node_table R) conn :
  (forall i j, In i conn -> In j (map fst nodes) -> f j = f i -> j = i) ->
  elem_scalar ROps tbl ty mode (rename_tbl _ f nodes) (map f conn) = elem_scalar ROps tbl ty mode nodes conn.
Proof. intros H. unfold elem_scalar. now rewrite (collect_rename _ f nodes conn H). Qed.
Lemma elem_vector_perm tbl ty mode (nodes nodes' : node_table R) conn :
  NoDup (map fst nodes) -> Permutation nodes nodes' ->
  elem_vector ROps tbl ty mode nodes' conn = elem_vector ROps tbl ty mode nodes conn.
Proof. intros Hnd Hp. unfold elem_vector. now rewrite (collect_perm _ nodes nodes' conn Hnd Hp). Qed.
Lemma elem_vector_rename tbl ty mode (f : Z -> Z) (nodes : node_table R) conn :
  (forall i j, In i conn -> In j (map fst nodes) -> f j = f i -> j = i) ->
  elem_vector ROps tbl ty mode (rename_tbl _ f nodes) (map f conn) = elem_vector ROps tbl ty mode nodes conn.
Proof. intros H. unfold elem_vector. now rewrite (collect_rename _ f nodes conn H). Qed.

(* a single-type block: the result rows are (element id, value of that element):
   renaming element ids renames the result ids, values untouched; the order of
   the result is the storage order of the rows *)
Lemma block_values_spec {V} (f : list Z -> option V) rows res :
  block_values f rows = Some res ->
  map fst res = map fst rows /\
  forall k r, nth_error rows k = Some r ->
    exists v, f (snd r) = Some v /\ nth_error res k = Some (fst r, v).
Proof.
  revert res. induction rows as [| r tl IH]; simpl; intros res H.
  - inversion H; subst. split; [reflexivity |]. intros [| k] r0 E; discriminate.
  - unfold block_values in H. simpl in H.
    destruct (f (snd r)) as [v |] eqn:Ef; simpl in H; [| discriminate].
    fold (block_values f tl) in H.
    destruct (block_values f tl) as [res' |] eqn:Er; [| discriminate].
    inversion H; subst. destruct (IH res' eq_refl) as [Hids Hrows].
    split; [simpl; now rewrite Hids |].
    intros [| k] r0 E; simpl in E.
    + inversion E; subst. exists v. now split.
    + apply Hrows. exact E.
Qed.

(* ------------------------------------------------ mixed meshes: result assembly
   `res[self.elements.types == k] = partial_k` pairs the j-th slot of type k (in
   ascending id order) with the j-th row of block k in STORAGE order: wrong as
   soon as a block's ids are not ascending in storage. *)
Definition mix_witness : list (string * list (Z * Z)) :=
  ("tet"%string, (30%Z, 300%Z) :: (10%Z, 100%Z) :: nil) :: ("hex"%string, (20%Z, 200%Z) :: nil) :: nil.
Lemma mask_assignment_refuted :
  NoDup (map fst (flat_map snd mix_witness)) /\
  assemble_impl mix_witness <> Some (assemble_spec mix_witness).
Proof.
  split.
  - simpl. repeat (constructor; [simpl; intuition discriminate |]). constructor.
  - vm_compute. discriminate.
Qed.
Lemma by_id_assignment_is_spec V (blocks : list (string * list (Z * V))) :
  asm_of true V blocks = Some (assemble_spec blocks).
Proof. reflexivity. Qed.

