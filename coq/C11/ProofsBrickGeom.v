(* C11 — brick generator: every generated cell has the closed-form metric, in every mode. *)
From Coq Require Import ZArith Reals List Lra Lia Permutation.
Import ListNotations.
From FV.C11 Require Import Model Entry Proofs BrickModel ProofsBrick.
From FV.C11.gen Require Import Kernels Brick.
Open Scope R_scope.
(* no sentence of this file may hold the shared Coq build lock for long *)
Set Default Timeout 240.

Definition cell_points (dx dy dz : R) (a b c : Z) (row : list (Z * Z * Z)) : list (v3 R) :=
  map (fun d => match d with (da, db, dc) =>
                  lattice_pos ROps dx dy dz (a + da) (b + db) (c + dc) end) row.
Definition apply8 (f : v3 R -> v3 R -> v3 R -> v3 R -> v3 R -> v3 R -> v3 R -> v3 R -> R) l :=
  match l with [p0; p1; p2; p3; p4; p5; p6; p7] => Some (f p0 p1 p2 p3 p4 p5 p6 p7) | _ => None end.
Definition apply4 (f : v3 R -> v3 R -> v3 R -> v3 R -> R) l :=
  match l with [p0; p1; p2; p3] => Some (f p0 p1 p2 p3) | _ => None end.
Definition apply3 (f : v3 R -> v3 R -> v3 R -> R) l :=
  match l with [p0; p1; p2] => Some (f p0 p1 p2) | _ => None end.

Ltac cell_tac :=
  cbv [cell_points map lattice_pos apply8 apply4 apply3 of_Z mul ROps];
  rewrite ?Z.add_0_r, ?plus_IZR; f_equal;
  repeat match goal with |- context [IZR ?z] =>
    lazymatch z with
    | Z0 => fail | Zpos _ => fail | Zneg _ => fail
    | _ => let x := fresh "x" in generalize (IZR z); intro x
    end end.

Lemma brick_hex_cell dx dy dz a b c row : In row template_hex ->
  apply8 (k_element_volumes_hex ROps) (cell_points dx dy dz a b c row) = Some (dx * dy * dz) /\
  apply8 (k_element_volumes_hex_gaussian ROps) (cell_points dx dy dz a b c row) = Some (dx * dy * dz) /\
  apply8 (k_element_volumes_hex_centroid ROps) (cell_points dx dy dz a b c row) = Some (dx * dy * dz).
Proof.
  cbv [template_hex]. intros [<- | []].
  repeat split; cell_tac; unfold_all; field.
Qed.
Lemma brick_tet_cell dx dy dz a b c row : In row template_tet ->
  apply4 (k_element_volumes_tet_like ROps) (cell_points dx dy dz a b c row) = Some (dx * dy * dz / 6).
Proof.
  cbv [template_tet]. intros H.
  repeat (destruct H as [<- | H]; [cell_tac; unfold_all; field |]). destruct H.
Qed.
Lemma brick_template_sizes :
  List.length template_hex = 1%nat /\ List.length template_tet = 6%nat /\
  List.length template_quad = 1%nat /\ List.length template_tri = 2%nat.
Proof. repeat split. Qed.

(* 2D bricks: z = 0 *)
Ltac sqrt_to k dx dy :=
  repeat match goal with |- context [sqrt ?e] =>
    replace e with ((k * dx * dy) * (k * dx * dy)) by (first [ring | field]);
    rewrite (sqrt_square (k * dx * dy)) by nra end.
Lemma brick_quad_cell dx dy dz a b row : 0 < dx -> 0 < dy -> In row template_quad ->
  apply4 (k_element_areas_quad ROps) (cell_points dx dy dz a b 0 row) = Some (dx * dy) /\
  apply4 (k_element_areas_quad_gaussian ROps) (cell_points dx dy dz a b 0 row) = Some (dx * dy) /\
  apply4 (k_element_areas_quad_centroid ROps) (cell_points dx dy dz a b 0 row) = Some (dx * dy).
Proof.
  intros Hx Hy. cbv [template_quad]. intros [<- | []].
  repeat split; cell_tac; unfold_kernels; unfold_ops.
  - sqrt_to 1 dx dy. field.
  - sqrt_to 4 dx dy. field.
  - sqrt_to 2 dx dy. field.
Qed.
Lemma brick_tri_cell dx dy dz a b row : 0 < dx -> 0 < dy -> In row template_tri ->
  apply3 (k_element_areas_tri ROps) (cell_points dx dy dz a b 0 row) = Some (dx * dy / 2).
Proof.
  intros Hx Hy. cbv [template_tri]. intros H.
  repeat (destruct H as [<- | H]; [cell_tac; unfold_kernels; unfold_ops; sqrt_to 1 dx dy; field |]).
  destruct H.
Qed.

(* ------------------- from connectivity to geometry: node id -> position -> kernel *)
Lemma brick_corner_pos dx dy dz nx ny a b c da db dc :
  (0 <= a < nx)%Z -> (0 <= b < ny)%Z -> (0 <= c)%Z ->
  (0 <= da <= 1)%Z -> (0 <= db <= 1)%Z -> (0 <= dc <= 1)%Z ->
  node_pos3 ROps dx dy dz (nx + 1) (ny + 1)
    (cell_index (nx + 1) ((nx + 1) * (ny + 1)) a b c + offset (nx + 1) ((nx + 1) * (ny + 1)) (da, db, dc))
  = lattice_pos ROps dx dy dz (a + da) (b + db) (c + dc).
Proof.
  intros Ha Hb Hc Hda Hdb Hdc. unfold node_pos3.
  destruct (FV.C11.ProofsBrick.corner_digits nx ny a b c da db dc Ha Hb Hc Hda Hdb Hdc) as (E1 & E2 & E3).
  cbv zeta in E1, E2, E3. rewrite E1, E2, E3. reflexivity.
Qed.

(* positions of the nodes of a generated element row (node id = index + 1) *)
Definition row_points (dx dy dz : R) (nx ny : Z) (row : list Z) : list (v3 R) :=
  map (fun id => node_pos3 ROps dx dy dz (nx + 1) (ny + 1) (id - 1)) row.

Lemma brick3_rows nx ny nz tmpl row : (1 <= nx)%Z -> (1 <= ny)%Z -> (1 <= nz)%Z ->
  In row (brick3_conn tmpl nx ny nz) ->
  exists a b c trow, (0 <= a < nx)%Z /\ (0 <= b < ny)%Z /\ (0 <= c < nz)%Z /\ In trow tmpl /\
    row = map (fun d => (cell_index (nx + 1) ((nx + 1) * (ny + 1)) a b c
                         + offset (nx + 1) ((nx + 1) * (ny + 1)) d + 1)%Z) trow.
Proof.
  intros Hnx Hny Hnz Hin. unfold brick3_conn in Hin. cbv zeta in Hin.
  apply in_flat_map in Hin. destruct Hin as [i [Hi Hrow]].
  apply in_map_iff in Hrow. destruct Hrow as [trow [<- Htrow]].
  apply (Permutation.Permutation_in _ (FV.C11.ProofsBrick.brick3_kept_are_the_cells nx ny nz Hnx Hny Hnz)) in Hi.
  apply in_map_iff in Hi. destruct Hi as [[c [b a]] [<- Hc]].
  unfold FV.C11.ProofsBrick.cells3 in Hc. rewrite !in_prod_iff, !FV.C11.ProofsBrick.zrange_In in Hc.
  exists a, b, c, trow. repeat split; try lia; try assumption.
Qed.

Ltac corner_rewrite :=
  repeat match goal with
  | |- context [node_pos3 ROps ?dx ?dy ?dz (?nx + 1) (?ny + 1)
                  (cell_index _ _ ?a ?b ?c + offset _ _ (?da, ?db, ?dc) + 1 - 1)] =>
      replace (cell_index (nx + 1) ((nx + 1) * (ny + 1)) a b c
               + offset (nx + 1) ((nx + 1) * (ny + 1)) (da, db, dc) + 1 - 1)%Z
        with (cell_index (nx + 1) ((nx + 1) * (ny + 1)) a b c
              + offset (nx + 1) ((nx + 1) * (ny + 1)) (da, db, dc))%Z by ring;
      rewrite (brick_corner_pos dx dy dz nx ny a b c da db dc) by lia
  end.

(* every generated hexahedron has volume dx dy dz in every mode; every generated
   tetrahedron dx dy dz / 6 — through node ids, node positions and the kernels *)
Theorem brick3_hex_volumes dx dy dz nx ny nz row : (1 <= nx)%Z -> (1 <= ny)%Z -> (1 <= nz)%Z ->
  In row (brick3_conn template_hex nx ny nz) ->
  apply8 (k_element_volumes_hex ROps) (row_points dx dy dz nx ny row) = Some (dx * dy * dz) /\
  apply8 (k_element_volumes_hex_gaussian ROps) (row_points dx dy dz nx ny row) = Some (dx * dy * dz) /\
  apply8 (k_element_volumes_hex_centroid ROps) (row_points dx dy dz nx ny row) = Some (dx * dy * dz).
Proof.
  intros Hnx Hny Hnz Hin.
  destruct (brick3_rows nx ny nz template_hex row Hnx Hny Hnz Hin)
    as (a & b & c & trow & Ha & Hb & Hc & Ht & ->).
  pose proof (brick_hex_cell dx dy dz a b c trow Ht) as H.
  cbv [template_hex] in Ht. destruct Ht as [<- | []].
  unfold row_points. cbv [map]. corner_rewrite. exact H.
Qed.
Theorem brick3_tet_volumes dx dy dz nx ny nz row : (1 <= nx)%Z -> (1 <= ny)%Z -> (1 <= nz)%Z ->
  In row (brick3_conn template_tet nx ny nz) ->
  apply4 (k_element_volumes_tet_like ROps) (row_points dx dy dz nx ny row) = Some (dx * dy * dz / 6).
Proof.
  intros Hnx Hny Hnz Hin.
  destruct (brick3_rows nx ny nz template_tet row Hnx Hny Hnz Hin)
    as (a & b & c & trow & Ha & Hb & Hc & Ht & ->).
  pose proof (brick_tet_cell dx dy dz a b c trow Ht) as H.
  cbv [template_tet] in Ht.
  repeat (destruct Ht as [<- | Ht]; [unfold row_points; cbv [map]; corner_rewrite; exact H |]).
  destruct Ht.
Qed.

(* the box: (number of cells) x (cell volume) = Lx Ly Lz *)
Lemma brick_box_volume nx ny nz lx ly lz : (1 <= nx)%Z -> (1 <= ny)%Z -> (1 <= nz)%Z ->
  IZR (nx * ny * nz) * ((lx / IZR nx) * (ly / IZR ny) * (lz / IZR nz)) = lx * ly * lz.
Proof.
  intros. rewrite !mult_IZR. field. repeat split; apply not_0_IZR; lia.
Qed.
(* sum of a list whose entries all equal v *)
Lemma tsum_const (l : list R) v : Forall (fun x => x = v) l -> tsum ROps l = INR (List.length l) * v.
Proof.
  unfold tsum. cbv [add zero ROps].
  assert (G : forall acc, Forall (fun x => x = v) l -> fold_left Rplus l acc = acc + INR (List.length l) * v).
  { induction l as [| x tl IH]; intros acc Hall; simpl fold_left.
    - simpl. ring.
    - inversion Hall; subst. rewrite IH by assumption.
      change (List.length (v :: tl)) with (S (List.length tl)). rewrite S_INR. ring. }
  intros Hall. rewrite G by assumption. ring.
Qed.
