(* C11 — the 2x2x2 Gauss hexahedron kernel (slowest proof, kept in its own file
   so that `make -j` builds it in parallel with Proofs.v). *)
From Coq Require Import ZArith Reals List String Lra.
From FV.C11 Require Import Model Entry Proofs.
From FV.C11.gen Require Import Kernels.
Open Scope R_scope.
(* no sentence of this file may hold the shared Coq build lock for long *)
Set Default Timeout 240.

Lemma hex_gaussian_affine M t p0 p1 p2 p3 p4 p5 p6 p7 :
  k_element_volumes_hex_gaussian ROps (aff ROps M t p0) (aff ROps M t p1) (aff ROps M t p2)
    (aff ROps M t p3) (aff ROps M t p4) (aff ROps M t p5) (aff ROps M t p6) (aff ROps M t p7)
  = mdet ROps M * k_element_volumes_hex_gaussian ROps p0 p1 p2 p3 p4 p5 p6 p7.
Proof. vol_tac. Qed.
