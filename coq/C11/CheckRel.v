(* C11 — execution instance of `Ops` over Q whose square root has RELATIVE precision
   (>= 62 significant bits), for correspondence streams whose values span many orders of
   magnitude (graded meshes: areas of 1e-20 next to areas of 1).  `Model.QOps` rounds the
   root to an absolute 2^-60.  Definitions only. *)
From Coq Require Import ZArith QArith Qabs List Bool.
From FV.C11 Require Import Model.

(* floor(sqrt(q) * 2^e) / 2^e with e >= 64 chosen so that sqrt(q) * 2^e >= 2^62 *)
Definition Qsqrt_rel (q : Q) : Q :=
  match Qnum q with
  | Zpos _ =>
      let n := Qnum q in
      let d := Zpos (Qden q) in
      let e := (64 + Z.max 0 ((Z.log2 d - Z.log2 n) / 2 + 1))%Z in
      Qred (Qmake (Z.sqrt ((n * 2 ^ (2 * e)) / d)) (Z.to_pos (2 ^ e)))
  | _ => 0%Q
  end.

Definition QOpsHP : Ops Q :=
  mkOps Q 0%Q 1%Q (fun a b => Qred (a + b)) (fun a b => Qred (a - b))
        (fun a b => Qred (a * b)) Qopp (fun a b => Qred (a / b))
        (fun z => inject_Z z) Qsqrt_rel Qltb.

(* sanity: sqrt(4) = 2, sqrt(1/4 * 10^-40) = 1/2 * 10^-20 up to 2^-62 relative *)
Example Qsqrt_rel_4 : Qeq_bool (Qsqrt_rel (4#1)) (2#1) = true.
Proof. vm_compute. reflexivity. Qed.
Example Qsqrt_rel_small :
  let x := Qsqrt_rel (1 # (4 * 10 ^ 40)) in
  let y := (1 # (2 * 10 ^ 20))%Q in
  Qle_bool (Qabs (x - y)) (y * (1 # 2 ^ 60)) = true.
Proof. vm_compute. reflexivity. Qed.
