(* C11 — proofs about the translated glue (gen/Glue.v): _validate_metric is
   elementwise and idempotent, it is the `validate` of the entry-point model
   (Entry.v), and the stored-result slots are option-history independent. *)
From Coq Require Import ZArith Reals List String Bool Lra.
Import ListNotations.
From FV.C11 Require Import Model Entry Slot.
From FV.C11.gen Require Import Glue.
Set Default Timeout 240.
Open Scope R_scope.

(* ---------------------------------------------------------------- numbers *)
Lemma Rltb_true a b : Rltb a b = true <-> a < b.
Proof. unfold Rltb. destruct (Rlt_dec a b); split; intros; auto; discriminate. Qed.
Lemma Rltb_false a b : Rltb a b = false <-> ~ a < b.
Proof. unfold Rltb. destruct (Rlt_dec a b); split; intros; auto; try discriminate; contradiction. Qed.
Lemma lit0 : lit ROps 0 1 = 0.
Proof. unfold lit. simpl. lra. Qed.
Lemma mabs_Rabs x : mabs ROps x = Rabs x.
Proof.
  unfold mabs. simpl. destruct (Rltb x 0) eqn:E.
  - apply Rltb_true in E. rewrite Rabs_left; auto.
  - apply Rltb_false in E. rewrite Rabs_right; auto. lra.
Qed.

(* ------------------------------------------- the specification of validate *)
Definition neg (x : R) : bool := Rltb x 0.
Definition vspec (r a : bool) (l : list R) : option (list R) :=
  if r && existsb neg l then None
  else Some (map (fun x => if a then Rabs x else x) l).

Lemma existsb_ext' {A} (f g : A -> bool) l : (forall x, f x = g x) -> existsb f l = existsb g l.
Proof. intros H. induction l; simpl; auto. rewrite H, IHl. reflexivity. Qed.

(* the translated _validate_metric IS the specification (re-checked against gen/Glue.v) *)
Lemma validate_metric_spec r a l : validate_metric ROps r a l = vspec r a l.
Proof.
  unfold validate_metric, vspec.
  rewrite (existsb_ext' (fun x => ltb_ ROps x (lit ROps 0 1)) neg)
    by (intros x; unfold neg; rewrite lit0; reflexivity).
  destruct (r && existsb neg l); auto.
  f_equal. apply map_ext. intros x. destruct a; auto. apply mabs_Rabs.
Qed.

(* an element's validated value is a function of its own value and the flags only *)
Lemma validate_metric_elementwise r a l v :
  validate_metric ROps r a l = Some v -> v = map (fun x => if a then Rabs x else x) l.
Proof.
  rewrite validate_metric_spec. unfold vspec.
  destruct (r && existsb neg l); intros H; inversion H; reflexivity.
Qed.
Lemma validate_metric_raises r a l :
  validate_metric ROps r a l = None <-> r = true /\ exists x, In x l /\ x < 0.
Proof.
  rewrite validate_metric_spec. unfold vspec. split.
  - destruct r; simpl; try discriminate.
    destruct (existsb neg l) eqn:E; try discriminate. intros _.
    apply existsb_exists in E. destruct E as [x [Hin Hx]]. split; auto.
    exists x. split; auto. apply Rltb_true. exact Hx.
  - intros [-> [x [Hin Hx]]]. simpl.
    assert (E : existsb neg l = true).
    { apply existsb_exists. exists x. split; auto. apply Rltb_true. exact Hx. }
    rewrite E. reflexivity.
Qed.
(* locality: the k-th value after validation does not depend on the OTHER elements of the call *)
Lemma validate_metric_local r a l1 l2 v1 v2 k x :
  validate_metric ROps r a l1 = Some v1 -> validate_metric ROps r a l2 = Some v2 ->
  nth_error l1 k = Some x -> forall k2, nth_error l2 k2 = Some x ->
  nth_error v1 k = nth_error v2 k2.
Proof.
  intros H1 H2 N1 k2 N2.
  apply validate_metric_elementwise in H1. apply validate_metric_elementwise in H2. subst.
  rewrite (map_nth_error _ _ _ N1), (map_nth_error _ _ _ N2). reflexivity.
Qed.

Lemma existsb_neg_abs l : existsb neg (map Rabs l) = false.
Proof.
  induction l; simpl; auto. rewrite IHl.
  assert (E : neg (Rabs a) = false).
  { apply Rltb_false. pose proof (Rabs_pos a). lra. }
  rewrite E. reflexivity.
Qed.
(* validating a validated result with the same flags changes nothing *)
Lemma validate_metric_idem r a l v :
  validate_metric ROps r a l = Some v -> validate_metric ROps r a v = Some v.
Proof.
  rewrite !validate_metric_spec. unfold vspec.
  destruct (r && existsb neg l) eqn:E; intros H; inversion H; subst; clear H.
  destruct a.
  - rewrite existsb_neg_abs, andb_false_r. f_equal.
    rewrite map_map. apply map_ext. intros x. apply Rabs_Rabsolu.
  - rewrite map_id. rewrite E. f_equal. rewrite map_id. reflexivity.
Qed.

(* the hand model `validate` of Entry.v (used by every entry_* of the correspondence)
   = the translated _validate_metric applied to the value column *)
Lemma entry_validate_is_translated r a (rows : list (Z * R)) :
  validate ROps r a rows =
  option_map (fun vs => combine (map fst rows) vs) (validate_metric ROps r a (map snd rows)).
Proof.
  rewrite validate_metric_spec. unfold validate, vspec.
  assert (E : existsb (fun r0 : Z * R => ltb_ ROps (snd r0) (zero ROps)) rows
              = existsb neg (map snd rows)).
  { induction rows as [|[i x] tl IH]; [reflexivity|]. cbn [existsb map]. rewrite IH. reflexivity. }
  rewrite E. clear E. destruct (r && existsb neg (map snd rows)); simpl; auto.
  f_equal. destruct a.
  - induction rows as [|[i x] tl IH]; [reflexivity|]. cbn [map combine fst snd]. f_equal.
    + f_equal. rewrite <- mabs_Rabs. reflexivity.
    + exact IH.
  - induction rows as [|[i x] tl IH]; [reflexivity|]. cbn [map combine fst snd]. f_equal. exact IH.
Qed.

(* ------------------------------------------------- slots: history independence *)
Section History.
  Variable V : Type.
  Variable answers : option (list optv) -> list optv -> bool.
  Variable validate : bool -> bool -> V -> option V.
  Variable q_fields s_fields : list field.
  Variable raw : string -> option V.
  (* what the translated pieces have to satisfy (discharged below for each entry point) *)
  Hypothesis answers_sound : forall c1 c2,
      answers (Some (proj s_fields c1)) (proj q_fields c2) = true ->
      c_raise c1 = c_raise c2 /\ c_abs c1 = c_abs c2 /\ raw (c_mode c1) = raw (c_mode c2).
  Hypothesis validate_idem : forall r a l v, validate r a l = Some v -> validate r a v = Some v.

  Definition good (st : state V) : Prop :=
    match st with
    | None => True
    | Some (so, sv) => exists c0, so = proj s_fields c0 /\ spec_answer validate raw c0 = Some sv
    end.

  Lemma step_spec st c :
    good st ->
    fst (step answers validate q_fields s_fields (FRaise, FAbs) (FRaise, FAbs) raw st c)
      = spec_answer validate raw c /\
    good (snd (step answers validate q_fields s_fields (FRaise, FAbs) (FRaise, FAbs) raw st c)).
  Proof.
    intros G.
    assert (R : forall st', good st' ->
                fst (run validate s_fields (FRaise, FAbs) raw st' c) = spec_answer validate raw c /\
                good (snd (run validate s_fields (FRaise, FAbs) raw st' c))).
    { intros st' G'. unfold run, spec_answer, validated. simpl.
      destruct (raw (c_mode c)) as [l|] eqn:E2; simpl; auto.
      destruct (validate (c_raise c) (c_abs c) l) as [v|] eqn:E; simpl; auto.
      split; auto. exists c. split; auto. unfold spec_answer. rewrite E2. exact E. }
    unfold step. destruct st as [[so sv]|]; [|apply R; exact G].
    destruct (answers (Some so) (proj q_fields c)) eqn:A; [|apply R; exact G].
    simpl. split; [|exact G].
    destruct G as [c0 [-> S0]].
    destruct (answers_sound _ _ A) as [Hr [Ha Hraw]].
    unfold validated, spec_answer in *. simpl. rewrite <- Hraw, <- Hr, <- Ha.
    destruct (raw (c_mode c0)) as [l|]; [|discriminate].
    rewrite S0. apply validate_idem with (l := l). exact S0.
  Qed.

  Lemma session_spec cs : forall st, good st ->
    session answers validate q_fields s_fields (FRaise, FAbs) (FRaise, FAbs) raw st cs
    = map (spec_answer validate raw) cs.
  Proof.
    induction cs as [|c tl IH]; intros st G; simpl; auto.
    destruct (step_spec st c G) as [E G']. rewrite E. f_equal. apply IH. exact G'.
  Qed.
End History.

Lemma optv_eqb_eq a b : optv_eqb a b = true -> a = b.
Proof.
  destruct a, b; simpl; try discriminate; intros H.
  - apply String.eqb_eq in H. congruence.
  - apply Bool.eqb_prop in H. congruence.
Qed.
Lemma optl_eqb_eq a : forall b, optl_eqb a b = true -> a = b.
Proof.
  induction a as [|x a IH]; destruct b as [|y b]; simpl; try discriminate; auto.
  intros H. apply andb_true_iff in H. destruct H as [H1 H2].
  apply optv_eqb_eq in H1. apply IH in H2. congruence.
Qed.

(* the translated _slot_answers, with the translated option tuples of each entry point, only
   answers when raise_negative and return_abs agree (and the mode, where there is one) *)
Lemma areas_answers_sound (raw : string -> option (list R)) c1 c2 :
  slot_answers (Some (proj areas_slot_store c1)) (proj areas_slot_query c2) = true ->
  c_raise c1 = c_raise c2 /\ c_abs c1 = c_abs c2 /\ raw (c_mode c1) = raw (c_mode c2).
Proof.
  destruct c1, c2. unfold slot_answers. intros H. apply optl_eqb_eq in H.
  unfold proj, areas_slot_store, areas_slot_query in H. simpl in H.
  simpl. inversion H. subst. auto.
Qed.
Lemma volumes_answers_sound (raw : string -> option (list R)) c1 c2 :
  slot_answers (Some (proj volumes_slot_store c1)) (proj volumes_slot_query c2) = true ->
  c_raise c1 = c_raise c2 /\ c_abs c1 = c_abs c2 /\ raw (c_mode c1) = raw (c_mode c2).
Proof.
  destruct c1, c2. unfold slot_answers. intros H. apply optl_eqb_eq in H.
  unfold proj, volumes_slot_store, volumes_slot_query in H. simpl in H.
  simpl. inversion H. subst. auto.
Qed.
(* calculate_element_metrics has no mode: its raw values do not depend on one *)
Lemma metrics_answers_sound (r0 : option (list R)) c1 c2 :
  slot_answers (Some (proj metrics_slot_store c1)) (proj metrics_slot_query c2) = true ->
  c_raise c1 = c_raise c2 /\ c_abs c1 = c_abs c2 /\
  (fun _ : string => r0) (c_mode c1) = (fun _ : string => r0) (c_mode c2).
Proof.
  destruct c1, c2. unfold slot_answers. intros H. apply optl_eqb_eq in H.
  unfold proj, metrics_slot_store, metrics_slot_query in H. simpl in H.
  simpl. inversion H. subst. auto.
Qed.

Lemma flags_are_the_calls_own :
  areas_cached_flags = (FRaise, FAbs) /\ areas_final_flags = (FRaise, FAbs) /\
  volumes_cached_flags = (FRaise, FAbs) /\ volumes_final_flags = (FRaise, FAbs) /\
  metrics_cached_flags = (FRaise, FAbs) /\ metrics_final_flags = (FRaise, FAbs).
Proof. repeat split; reflexivity. Qed.

Lemma areas_history (raw : string -> option (list R)) cs :
  session slot_answers (validate_metric ROps) areas_slot_query areas_slot_store
          areas_cached_flags areas_final_flags raw None cs
  = map (spec_answer (validate_metric ROps) raw) cs.
Proof.
  apply (session_spec (list R) slot_answers (validate_metric ROps) areas_slot_query areas_slot_store raw
           (areas_answers_sound raw) validate_metric_idem cs None I).
Qed.
Lemma volumes_history (raw : string -> option (list R)) cs :
  session slot_answers (validate_metric ROps) volumes_slot_query volumes_slot_store
          volumes_cached_flags volumes_final_flags raw None cs
  = map (spec_answer (validate_metric ROps) raw) cs.
Proof.
  apply (session_spec (list R) slot_answers (validate_metric ROps) volumes_slot_query volumes_slot_store raw
           (volumes_answers_sound raw) validate_metric_idem cs None I).
Qed.
Lemma metrics_history (r0 : option (list R)) cs :
  session slot_answers (validate_metric ROps) metrics_slot_query metrics_slot_store
          metrics_cached_flags metrics_final_flags (fun _ => r0) None cs
  = map (spec_answer (validate_metric ROps) (fun _ => r0)) cs.
Proof.
  apply (session_spec (list R) slot_answers (validate_metric ROps) metrics_slot_query metrics_slot_store
           (fun _ => r0) (metrics_answers_sound r0) validate_metric_idem cs None I).
Qed.

(* ------------------------------------------------------------ functions.normalize *)
(* the translated functions.normalize (keep_zeros=False, config.EPSILON) is the hand model
   Model.normalize used by the normal kernels, entry_normals and C11_normalize_rotation *)
Lemma normalize_translated_is_model (a : v3 R) : normalize_t ROps false a = normalize ROps a.
Proof.
  unfold normalize_t, normalize, config_epsilon, epsilon.
  cbv zeta. try reflexivity.
  all: repeat match goal with |- context [if ?b then _ else _] => destruct b eqn:? end; reflexivity.
Qed.
