(* C11 — comparison of implementation outputs (exact rationals of the floats)
   with the model evaluated over Q.  Definitions only; used by the generated
   case files of the correspondence check. *)
From Coq Require Import ZArith QArith Qabs List String Bool.
Import ListNotations.
From FV.C11 Require Import Model Entry.

(* |model - impl| <= eabs + erel * |model| *)
Definition close (eabs erel model impl : Q) : bool :=
  Qle_bool (Qabs (model - impl)%Q) (eabs + erel * Qabs model)%Q.
Definition close3 (eabs erel : Q) (m i : v3 Q) : bool :=
  match m, i with (m0, m1, m2), (i0, i1, i2) =>
    close eabs erel m0 i0 && close eabs erel m1 i1 && close eabs erel m2 i2 end.

Fixpoint agree_rows {V} (cl : V -> V -> bool) (m i : list (Z * V)) : bool :=
  match m, i with
  | [], [] => true
  | (a, x) :: m', (b, y) :: i' => Z.eqb a b && cl x y && agree_rows cl m' i'
  | _, _ => false
  end.
(* model None = the entry point raises; impl None = it raised *)
Definition agree {V} (cl : V -> V -> bool) (m i : option (list (Z * V))) : bool :=
  match m, i with
  | None, None => true
  | Some a, Some b => agree_rows cl a b
  | _, _ => false
  end.
Fixpoint agree_list {V} (cl : V -> V -> bool) (m i : list V) : bool :=
  match m, i with
  | [], [] => true
  | x :: m', y :: i' => cl x y && agree_list cl m' i'
  | _, _ => false
  end.
