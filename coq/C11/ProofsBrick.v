(* C11 — brick generator: index filter = cell predicate, lattice digits. *)
From Coq Require Import ZArith List Bool Lia.
Import ListNotations.
From FV.C11 Require Import Model BrickModel.
Open Scope Z_scope.
(* no sentence of this file may hold the shared Coq build lock for long *)
Set Default Timeout 240.

(* a node index decomposes uniquely into lattice digits *)
Lemma digits3 n_x n_y a b c :
  0 <= a < n_x -> 0 <= b < n_y -> 0 <= c ->
  let j := cell_index n_x (n_x * n_y) a b c in
  j mod n_x = a /\ (j / n_x) mod n_y = b /\ j / (n_x * n_y) = c.
Proof.
  intros Ha Hb Hc j. subst j. unfold cell_index.
  assert (E1 : a + n_x * b + n_x * n_y * c = a + (b + n_y * c) * n_x) by ring.
  rewrite E1.
  repeat split.
  - rewrite Z.mod_add by lia. apply Z.mod_small. lia.
  - rewrite Z.div_add by lia. rewrite (Z.div_small a n_x) by lia. simpl.
    replace (b + n_y * c) with (b + c * n_y) by ring.
    rewrite Z.mod_add by lia. apply Z.mod_small. lia.
  - rewrite <- E1. replace (a + n_x * b + n_x * n_y * c) with ((a + n_x * b) + c * (n_x * n_y)) by ring.
    rewrite Z.div_add by nia. rewrite Z.div_small by nia. lia.
Qed.

(* the comprehension's filter keeps exactly the first nodes of the nx*ny*nz cells *)
Lemma keep3_spec nx ny nz a b c :
  1 <= nx -> 1 <= ny -> 1 <= nz -> 0 <= a <= nx -> 0 <= b <= ny -> 0 <= c <= nz ->
  keep3 (nx + 1) (ny + 1) nz (cell_index (nx + 1) ((nx + 1) * (ny + 1)) a b c) = true
  <-> (a < nx /\ b < ny /\ c < nz).
Proof.
  intros Hnx Hny Hnz Ha Hb Hc. unfold keep3, cell_index.
  set (n_x := nx + 1). set (n_y := ny + 1).
  assert (Hx : 0 < n_x) by (subst n_x; lia). assert (Hy : 0 < n_y) by (subst n_y; lia).
  assert (Hxy : 0 < n_x * n_y) by nia.
  (* (i+1) mod n_x *)
  assert (E1 : (a + n_x * b + n_x * n_y * c + 1) mod n_x = (a + 1) mod n_x).
  { replace (a + n_x * b + n_x * n_y * c + 1) with ((a + 1) + (b + n_y * c) * n_x) by ring.
    apply Z.mod_add. lia. }
  assert (E2 : (a + n_x * b + n_x * n_y * c + 1) mod (n_x * n_y) = (a + 1 + n_x * b) mod (n_x * n_y)).
  { replace (a + n_x * b + n_x * n_y * c + 1) with ((a + 1 + n_x * b) + c * (n_x * n_y)) by ring.
    apply Z.mod_add. lia. }
  rewrite E1, E2.
  rewrite !andb_true_iff, negb_true_iff, Z.eqb_neq, !Z.ltb_lt.
  destruct (Z.eq_dec a nx) as [-> | Hane].
  - (* a = nx: (a+1) mod n_x = 0 *)
    replace (nx + 1) with n_x by reflexivity. rewrite Z_mod_same_full. lia.
  - assert (Ha' : a + 1 < n_x) by (subst n_x; lia).
    rewrite (Z.mod_small (a + 1) n_x) by lia.
    destruct (Z.eq_dec b ny) as [-> | Hbne].
    + (* b = ny: second test fails *)
      assert (Hs : a + 1 + n_x * ny < n_x * n_y) by (subst n_y; nia).
      rewrite Z.mod_small by nia.
      split; [intros [[_ H] _]; subst n_y; nia | lia].
    + assert (Hb' : b < ny) by lia.
      assert (Hs : a + 1 + n_x * b < n_x * n_y) by (subst n_y; nia).
      rewrite Z.mod_small by nia.
      split.
      * intros [[_ _] H3]. repeat split; try lia.
        destruct (Z.lt_ge_cases c nz); [assumption |]. exfalso. subst n_y. nia.
      * intros (_ & _ & Hc'). repeat split; [lia | subst n_y; nia | subst n_y; nia].
Qed.
Lemma keep2_spec nx ny a b :
  1 <= nx -> 1 <= ny -> 0 <= a <= nx -> 0 <= b <= ny ->
  keep2 (nx + 1) ny (a + (nx + 1) * b) = true <-> (a < nx /\ b < ny).
Proof.
  intros Hnx Hny Ha Hb. unfold keep2. set (n_x := nx + 1).
  assert (E1 : (a + n_x * b + 1) mod n_x = (a + 1) mod n_x).
  { replace (a + n_x * b + 1) with ((a + 1) + b * n_x) by ring. apply Z.mod_add. subst n_x; lia. }
  rewrite E1, andb_true_iff, negb_true_iff, Z.eqb_neq, Z.ltb_lt.
  destruct (Z.eq_dec a nx) as [-> | Hane].
  - replace (nx + 1) with n_x by reflexivity. rewrite Z_mod_same_full. lia.
  - rewrite (Z.mod_small (a + 1) n_x) by (subst n_x; lia).
    split; [intros [_ H]; split; [lia |]; destruct (Z.lt_ge_cases b ny); [assumption | exfalso; subst n_x; nia]
           | intros [H1 H2]; split; [lia | subst n_x; nia]].
Qed.

(* ------------------------------------------------------------------ counting *)
From Coq Require Import Permutation.

Lemma zrange_In n i : In i (zrange n) <-> 0 <= i < n.
Proof.
  unfold zrange. rewrite in_map_iff. split.
  - intros [k [<- Hk]]. apply in_seq in Hk. lia.
  - intros H. exists (Z.to_nat i). split; [lia |]. apply in_seq. lia.
Qed.
Lemma zrange_length n : 0 <= n -> Z.of_nat (length (zrange n)) = n.
Proof. intros H. unfold zrange. rewrite map_length, seq_length. lia. Qed.
Lemma zrange_NoDup n : NoDup (zrange n).
Proof.
  unfold zrange. apply FinFun.Injective_map_NoDup; [| apply seq_NoDup].
  intros x y H. lia.
Qed.

Lemma NoDup_app_disjoint {A} (l l' : list A) :
  NoDup l -> NoDup l' -> (forall x, In x l -> ~ In x l') -> NoDup (l ++ l').
Proof.
  induction l as [| a tl IH]; simpl; intros H1 H2 Hd; [assumption |].
  inversion H1 as [| ? ? Hn H1']; subst. constructor.
  - rewrite in_app_iff. intros [H | H]; [contradiction | apply (Hd a); [now left | assumption]].
  - apply IH; [assumption | assumption | intros x Hx; apply Hd; now right].
Qed.
Lemma NoDup_list_prod {A B} (l : list A) (l' : list B) :
  NoDup l -> NoDup l' -> NoDup (list_prod l l').
Proof.
  induction l as [| x t IH]; simpl; intros H1 H2; [constructor |].
  inversion H1 as [| ? ? Hn H1']; subst.
  apply NoDup_app_disjoint.
  - apply FinFun.Injective_map_NoDup; [| assumption]. intros y z E. now inversion E.
  - now apply IH.
  - intros [a b] Hin. apply in_map_iff in Hin. destruct Hin as [y [E _]]. inversion E; subst.
    rewrite in_prod_iff. tauto.
Qed.
Lemma NoDup_map_inj_on {A B} (f : A -> B) (l : list A) :
  (forall x y, In x l -> In y l -> f x = f y -> x = y) -> NoDup l -> NoDup (map f l).
Proof.
  induction l as [| a tl IH]; simpl; intros Hinj Hnd; [constructor |].
  inversion Hnd as [| ? ? Hn Hnd']; subst. constructor.
  - rewrite in_map_iff. intros [y [E Hy]]. apply Hn.
    rewrite (Hinj a y); [assumption | now left | now right | now symmetry].
  - apply IH; [intros x y Hx Hy; apply Hinj; now right | assumption].
Qed.

(* the nx*ny*nz cells, as (c, (b, a)) triples and as first-node indices *)
Definition cells3 (nx ny nz : Z) : list (Z * (Z * Z)) :=
  list_prod (zrange nz) (list_prod (zrange ny) (zrange nx)).
Definition cell_first (nx ny : Z) (t : Z * (Z * Z)) : Z :=
  match t with (c, (b, a)) => cell_index (nx + 1) ((nx + 1) * (ny + 1)) a b c end.
Lemma cells3_length nx ny nz : 0 <= nx -> 0 <= ny -> 0 <= nz ->
  Z.of_nat (length (cells3 nx ny nz)) = nx * ny * nz.
Proof.
  intros. unfold cells3. rewrite !prod_length, !Nat2Z.inj_mul, !zrange_length by assumption. ring.
Qed.

Theorem brick3_kept_are_the_cells nx ny nz : 1 <= nx -> 1 <= ny -> 1 <= nz ->
  Permutation (filter (keep3 (nx + 1) (ny + 1) nz) (zrange ((nx + 1) * (ny + 1) * (nz + 1))))
              (map (cell_first nx ny) (cells3 nx ny nz)).
Proof.
  intros Hnx Hny Hnz.
  set (n_x := nx + 1). set (n_y := ny + 1).
  assert (Hx : 0 < n_x) by (subst n_x; lia). assert (Hy : 0 < n_y) by (subst n_y; lia).
  apply NoDup_Permutation.
  - apply NoDup_filter, zrange_NoDup.
  - apply NoDup_map_inj_on.
    + intros [c [b a]] [c' [b' a']] H1 H2 E. unfold cells3 in H1, H2.
      rewrite !in_prod_iff, !zrange_In in H1, H2. unfold cell_first in E. fold n_x n_y in E.
      pose proof (digits3 n_x n_y a b c ltac:(lia) ltac:(lia) ltac:(lia)) as (D1 & D2 & D3).
      pose proof (digits3 n_x n_y a' b' c' ltac:(lia) ltac:(lia) ltac:(lia)) as (D1' & D2' & D3').
      rewrite E in D1, D2, D3. congruence.
    + unfold cells3. repeat apply NoDup_list_prod; apply zrange_NoDup.
  - intros i. rewrite filter_In, zrange_In, in_map_iff. split.
    + intros [Hi Hk].
      (* digits of i *)
      set (a := i mod n_x). set (q := i / n_x). set (b := q mod n_y). set (c := q / n_y).
      assert (Ei : i = cell_index n_x (n_x * n_y) a b c).
      { unfold cell_index. subst a b c.
        pose proof (Z.div_mod i n_x ltac:(lia)). pose proof (Z.div_mod q n_y ltac:(lia)).
        subst q. nia. }
      assert (Ha : 0 <= a < n_x) by (subst a; apply Z.mod_pos_bound; lia).
      assert (Hb : 0 <= b < n_y) by (subst b; apply Z.mod_pos_bound; lia).
      assert (Hq : 0 <= q) by (subst q; apply Z.div_pos; lia).
      assert (Hc : 0 <= c) by (subst c; apply Z.div_pos; lia).
      assert (Hc' : c <= nz).
      { destruct (Z.le_gt_cases c nz); [assumption |]. exfalso.
        assert (n_x * n_y * (nz + 1) <= i) by (rewrite Ei; unfold cell_index; nia). lia. }
      rewrite Ei in Hk. fold n_x n_y in Hk.
      apply (keep3_spec nx ny nz a b c Hnx Hny Hnz) in Hk; [| subst n_x; lia | subst n_y; lia | lia].
      exists (c, (b, a)). split; [unfold cell_first; fold n_x n_y; now rewrite Ei |].
      unfold cells3. rewrite !in_prod_iff, !zrange_In. lia.
    + intros [[c [b a]] [E Hin]]. unfold cells3 in Hin. rewrite !in_prod_iff, !zrange_In in Hin.
      unfold cell_first in E. fold n_x n_y in E. subst i. split.
      * unfold cell_index. subst n_x n_y. nia.
      * apply (keep3_spec nx ny nz a b c); lia.
Qed.
(* exactly nx * ny * nz kept indices, hence nx*ny*nz hexes / 6*nx*ny*nz tets *)
Theorem brick3_count nx ny nz : 1 <= nx -> 1 <= ny -> 1 <= nz ->
  Z.of_nat (length (filter (keep3 (nx + 1) (ny + 1) nz) (zrange ((nx + 1) * (ny + 1) * (nz + 1)))))
  = nx * ny * nz.
Proof.
  intros Hnx Hny Hnz.
  rewrite (Permutation_length (brick3_kept_are_the_cells nx ny nz Hnx Hny Hnz)), map_length.
  apply cells3_length; lia.
Qed.

Lemma digits2 n_x a b : 0 <= a < n_x -> (a + n_x * b) mod n_x = a /\ (a + n_x * b) / n_x = b.
Proof.
  intros Ha. replace (a + n_x * b) with (a + b * n_x) by ring. split.
  - rewrite Z.mod_add by lia. apply Z.mod_small. lia.
  - rewrite Z.div_add by lia. rewrite Z.div_small by lia. lia.
Qed.
(* 2D: exactly nx * ny kept indices *)
Definition cells2 (nx ny : Z) : list (Z * Z) := list_prod (zrange ny) (zrange nx).
Theorem brick2_kept_are_the_cells nx ny : 1 <= nx -> 1 <= ny ->
  Permutation (filter (keep2 (nx + 1) ny) (zrange ((nx + 1) * (ny + 1))))
              (map (fun t => match t with (b, a) => a + (nx + 1) * b end) (cells2 nx ny)).
Proof.
  intros Hnx Hny. set (n_x := nx + 1). assert (Hx : 0 < n_x) by (subst n_x; lia).
  apply NoDup_Permutation.
  - apply NoDup_filter, zrange_NoDup.
  - apply NoDup_map_inj_on.
    + intros [b a] [b' a'] H1 H2 E. unfold cells2 in H1, H2. rewrite in_prod_iff, !zrange_In in H1, H2.
      destruct (digits2 n_x a b ltac:(subst n_x; lia)) as [D1 D2].
      destruct (digits2 n_x a' b' ltac:(subst n_x; lia)) as [D1' D2'].
      rewrite E in D1, D2. congruence.
    + apply NoDup_list_prod; apply zrange_NoDup.
  - intros i. rewrite filter_In, zrange_In, in_map_iff. split.
    + intros [Hi Hk]. set (a := i mod n_x). set (b := i / n_x).
      assert (Ei : i = a + n_x * b) by (subst a b; pose proof (Z.div_mod i n_x ltac:(lia)); lia).
      assert (Ha : 0 <= a < n_x) by (subst a; apply Z.mod_pos_bound; lia).
      assert (Hb : 0 <= b) by (subst b; apply Z.div_pos; lia).
      assert (Hb' : b <= ny) by (destruct (Z.le_gt_cases b ny); [assumption | exfalso; subst n_x; nia]).
      rewrite Ei in Hk. apply (keep2_spec nx ny a b Hnx Hny) in Hk; [| subst n_x; lia | lia].
      exists (b, a). split; [now rewrite Ei |]. unfold cells2. rewrite in_prod_iff, !zrange_In. lia.
    + intros [[b a] [E Hin]]. unfold cells2 in Hin. rewrite in_prod_iff, !zrange_In in Hin. subst i. split.
      * subst n_x. nia.
      * apply (keep2_spec nx ny a b); lia.
Qed.
Theorem brick2_count nx ny : 1 <= nx -> 1 <= ny ->
  Z.of_nat (length (filter (keep2 (nx + 1) ny) (zrange ((nx + 1) * (ny + 1))))) = nx * ny.
Proof.
  intros Hnx Hny.
  rewrite (Permutation_length (brick2_kept_are_the_cells nx ny Hnx Hny)), map_length.
  unfold cells2. rewrite prod_length, Nat2Z.inj_mul, !zrange_length by lia. ring.
Qed.

(* number of generated elements = (rows of the template) * (number of cells) *)
Lemma flat_map_const_length {A B} (f : A -> list B) (l : list A) k :
  (forall x, length (f x) = k) -> length (flat_map f l) = (k * length l)%nat.
Proof.
  intros H. induction l as [| a tl IH]; simpl; [lia |]. rewrite app_length, H, IH. lia.
Qed.
Theorem brick3_element_count tmpl nx ny nz : 1 <= nx -> 1 <= ny -> 1 <= nz ->
  Z.of_nat (length (brick3_conn tmpl nx ny nz)) = Z.of_nat (length tmpl) * (nx * ny * nz).
Proof.
  intros Hnx Hny Hnz. unfold brick3_conn.
  rewrite (flat_map_const_length _ _ (length tmpl)) by (intros; now rewrite map_length).
  rewrite Nat2Z.inj_mul, (brick3_count nx ny nz Hnx Hny Hnz). reflexivity.
Qed.
Theorem brick2_element_count tmpl nx ny : 1 <= nx -> 1 <= ny ->
  Z.of_nat (length (brick2_conn tmpl nx ny)) = Z.of_nat (length tmpl) * (nx * ny).
Proof.
  intros Hnx Hny. unfold brick2_conn.
  rewrite (flat_map_const_length _ _ (length tmpl)) by (intros; now rewrite map_length).
  rewrite Nat2Z.inj_mul, (brick2_count nx ny Hnx Hny). reflexivity.
Qed.

(* the node a template corner refers to sits at the lattice point (a+da, b+db, c+dc) *)
Lemma corner_digits nx ny a b c da db dc :
  0 <= a < nx -> 0 <= b < ny -> 0 <= c -> 0 <= da <= 1 -> 0 <= db <= 1 -> 0 <= dc <= 1 ->
  let n_x := nx + 1 in let n_y := ny + 1 in
  let j := cell_index n_x (n_x * n_y) a b c + offset n_x (n_x * n_y) (da, db, dc) in
  j mod n_x = a + da /\ (j / n_x) mod n_y = b + db /\ j / (n_x * n_y) = c + dc.
Proof.
  intros Ha Hb Hc Hda Hdb Hdc n_x n_y j.
  assert (E : j = cell_index n_x (n_x * n_y) (a + da) (b + db) (c + dc)).
  { subst j. unfold cell_index, offset. ring. }
  rewrite E. apply digits3; subst n_x n_y; lia.
Qed.
