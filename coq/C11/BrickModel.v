(* C11 — femio/util/brick_generator.py.  Definitions only.  The element templates
   come from gen/Brick.v (translated); index range, filter, `+ 1`, node ids
   1..N and the meshgrid / linspace / ravel layout are the text that
   translate/c11_brick.py checks verbatim. *)
From Coq Require Import ZArith List Bool.
Import ListNotations.
From FV.C11 Require Import Model.
Open Scope Z_scope.

Definition zrange (n : Z) : list Z := map Z.of_nat (seq 0 (Z.to_nat n)).

(* (i+1) % n_x != 0 and (i+1) % n_xy < 1 + n_xy - n_x and i < n_xy * n_z_element *)
Definition keep3 (n_x n_y nz i : Z) : bool :=
  let n_xy := n_x * n_y in
  negb ((i + 1) mod n_x =? 0) && ((i + 1) mod n_xy <? 1 + n_xy - n_x) && (i <? n_xy * nz).
(* (i+1) % n_x != 0 and i < n_x * n_y_element *)
Definition keep2 (n_x ny i : Z) : bool := negb ((i + 1) mod n_x =? 0) && (i <? n_x * ny).

Definition offset (n_x n_xy : Z) (d : Z * Z * Z) : Z :=
  match d with (a, b, c) => a + b * n_x + c * n_xy end.
(* element connectivities (node ids = 0-based index + 1), in generation order *)
Definition brick3_conn (tmpl : list (list (Z * Z * Z))) (nx ny nz : Z) : list (list Z) :=
  let n_x := nx + 1 in let n_y := ny + 1 in let n_z := nz + 1 in let n_xy := n_x * n_y in
  flat_map (fun i => map (map (fun d => i + offset n_x n_xy d + 1)) tmpl)
           (filter (keep3 n_x n_y nz) (zrange (n_x * n_y * n_z))).
Definition brick2_conn (tmpl : list (list (Z * Z * Z))) (nx ny : Z) : list (list Z) :=
  let n_x := nx + 1 in let n_y := ny + 1 in
  flat_map (fun i => map (map (fun d => i + offset n_x 0 d + 1)) tmpl)
           (filter (keep2 n_x ny) (zrange (n_x * n_y))).

(* node positions: np.meshgrid + np.ravel: the node with 0-based index j sits at
   lattice point (j mod n_x, (j / n_x) mod n_y, j / n_xy); linspace(0, L, n+1)[a] = a * (L / n) *)
Section Pos.
  Variable T : Type.
  Variable O : Ops T.
  Definition lattice_pos (dx dy dz : T) (a b c : Z) : v3 T :=
    (mul O (of_Z O a) dx, mul O (of_Z O b) dy, mul O (of_Z O c) dz).
  Definition node_pos3 (dx dy dz : T) (n_x n_y j : Z) : v3 T :=
    lattice_pos dx dy dz (j mod n_x) ((j / n_x) mod n_y) (j / (n_x * n_y)).
  Definition node_pos2 (dx dy : T) (n_x j : Z) : v3 T :=
    (mul O (of_Z O (j mod n_x)) dx, mul O (of_Z O (j / n_x)) dy, zero O).
  Definition brick3_nodes (lx ly lz : T) (nx ny nz : Z) : list (v3 T) :=
    let dx := div O lx (of_Z O nx) in let dy := div O ly (of_Z O ny) in let dz := div O lz (of_Z O nz) in
    map (node_pos3 dx dy dz (nx + 1) (ny + 1)) (zrange ((nx + 1) * (ny + 1) * (nz + 1))).
  Definition brick2_nodes (lx ly : T) (nx ny : Z) : list (v3 T) :=
    let dx := div O lx (of_Z O nx) in let dy := div O ly (of_Z O ny) in
    map (node_pos2 dx dy (nx + 1)) (zrange ((nx + 1) * (ny + 1))).
End Pos.
Arguments lattice_pos {T} O dx dy dz a b c. Arguments node_pos3 {T} O dx dy dz n_x n_y j.
Arguments node_pos2 {T} O dx dy n_x j. Arguments brick3_nodes {T} O lx ly lz nx ny nz.
Arguments brick2_nodes {T} O lx ly nx ny.

(* the cells the property speaks about: first nodes (a, b, c), a < nx, b < ny, c < nz *)
Definition cell_index (n_x n_xy a b c : Z) : Z := a + n_x * b + n_xy * c.
