(* C11 — area kernels, normals. *)
From Coq Require Import ZArith Reals List String Lra Nsatz Permutation Bool.
From FV.C11 Require Import Model Entry Proofs.
From FV.C11.gen Require Import Kernels.
Import ListNotations.
Open Scope R_scope.
(* no sentence of this file may hold the shared Coq build lock for long *)
Set Default Timeout 240.
(* ---------------------------------------------------------- area kernels *)
Lemma tri_crosses_affine M t p0 p1 p2 :
  k_tri_crosses ROps (aff ROps M t p0) (aff ROps M t p1) (aff ROps M t p2)
  = mapply ROps (cof ROps M) (k_tri_crosses ROps p0 p1 p2).
Proof. intros; destruct_pts; unfold_all; apply v3_eq; ring. Qed.

Lemma tri_area_similarity M s t p0 p1 p2 : similarity M s -> 0 <= s ->
  k_element_areas_tri ROps (aff ROps M t p0) (aff ROps M t p1) (aff ROps M t p2)
  = s * s * k_element_areas_tri ROps p0 p1 p2.
Proof. area_tac. Qed.
Lemma quad_area_similarity M s t p0 p1 p2 p3 : similarity M s -> 0 <= s ->
  k_element_areas_quad ROps (aff ROps M t p0) (aff ROps M t p1) (aff ROps M t p2) (aff ROps M t p3)
  = s * s * k_element_areas_quad ROps p0 p1 p2 p3.
Proof. area_tac. Qed.
Lemma quad_centroid_area_similarity M s t p0 p1 p2 p3 : similarity M s -> 0 <= s ->
  k_element_areas_quad_centroid ROps (aff ROps M t p0) (aff ROps M t p1) (aff ROps M t p2) (aff ROps M t p3)
  = s * s * k_element_areas_quad_centroid ROps p0 p1 p2 p3.
Proof. area_tac. Qed.
Lemma quad_gaussian_area_similarity M s t p0 p1 p2 p3 : similarity M s -> 0 <= s ->
  k_element_areas_quad_gaussian ROps (aff ROps M t p0) (aff ROps M t p1) (aff ROps M t p2) (aff ROps M t p3)
  = s * s * k_element_areas_quad_gaussian ROps p0 p1 p2 p3.
Proof. area_tac. Qed.

(* --------------------------------------------------------------- normals *)
Lemma Rltb_eq a b c d : a = c -> b = d -> Rltb a b = Rltb c d.
Proof. intros -> ->. reflexivity. Qed.
Lemma mapply_vdivs M v k : k <> 0 -> mapply ROps M (vdivs ROps v k) = vdivs ROps (mapply ROps M v) k.
Proof. intros Hk; destruct_pts; unfold_ops; apply v3_eq; field; exact Hk. Qed.
Lemma epsilon_pos : 0 < epsilon ROps.
Proof. unfold_ops. cbv [epsilon lit div of_Z ROps]. lra. Qed.
Lemma norm_nonneg v : 0 <= norm ROps v.
Proof. cbv [norm sqrt_ ROps]. apply sqrt_pos. Qed.

(* functions.normalize commutes with rotations *)
Lemma normalize_rot M : rotation M ->
  forall v' v, v' = mapply ROps M v -> normalize ROps v' = mapply ROps M (normalize ROps v).
Proof.
  intros Hrot v' v ->. pose proof Hrot as [Hsim Hdet].
  assert (Hn : norm ROps (mapply ROps M v) = norm ROps v).
  { rewrite <- (cof_rot M Hrot) at 1. rewrite (norm_cof M 1 v Hsim) by lra. ring. }
  unfold normalize. rewrite Hn.
  cbv [ltb_ ROps]. fold ROps.
  destruct (Rltb (norm ROps v) (epsilon ROps)) eqn:E.
  - rewrite mapply_vdivs; [reflexivity | pose proof epsilon_pos; lra].
  - rewrite mapply_vdivs; [reflexivity |].
    unfold Rltb in E. destruct (Rlt_dec (norm ROps v) (epsilon ROps)); [discriminate |].
    pose proof epsilon_pos. lra.
Qed.

Ltac normal_tac :=
  let Hrot := fresh "Hrot" in
  intros *; intros Hrot; unfold_kernels;
  repeat (apply (normalize_rot _ Hrot));
  match goal with |- _ = mapply ROps ?M0 ?v =>
    transitivity (mapply ROps (cof ROps M0) v); [| now rewrite (cof_rot _ Hrot)] end;
  clear Hrot; destruct_pts; unfold_ops; apply v3_eq; ring.

Lemma tri_normals_rotation M t p0 p1 p2 : rotation M ->
  k_tri_normals ROps (aff ROps M t p0) (aff ROps M t p1) (aff ROps M t p2)
  = mapply ROps M (k_tri_normals ROps p0 p1 p2).
Proof. normal_tac. Qed.
Lemma quad_normals_rotation M t p0 p1 p2 p3 : rotation M ->
  k_quad_normals ROps (aff ROps M t p0) (aff ROps M t p1) (aff ROps M t p2) (aff ROps M t p3)
  = mapply ROps M (k_quad_normals ROps p0 p1 p2 p3).
Proof. normal_tac. Qed.
Lemma quad_normals_centroid_rotation M t p0 p1 p2 p3 : rotation M ->
  k_quad_normals_centroid ROps (aff ROps M t p0) (aff ROps M t p1) (aff ROps M t p2) (aff ROps M t p3)
  = mapply ROps M (k_quad_normals_centroid ROps p0 p1 p2 p3).
Proof. normal_tac. Qed.

