(* C11 — translation() / rotation() as translated (gen/Motion.v): the code's own rigid motions
   are affine maps p -> M p + t with M a rotation (Rodrigues), resp. M = I. *)
From Coq Require Import ZArith Reals List String Bool Lra Nsatz.
From FV.C11 Require Import Model.
From FV.C11.gen Require Import Motion.
Set Default Timeout 120.
Open Scope R_scope.

(* the matrix of rotation(a1, a2, a3, theta): rows = coefficient rows of new_X, new_Y, new_Z,
   obtained from the translated code itself by feeding it the basis vectors *)
Definition rot_col (a1 a2 a3 c s : R) (e : v3 R) : v3 R :=
  match e with (x, y, z) => rotation_xyz ROps a1 a2 a3 c s x y z end.
Definition rot_matrix (a1 a2 a3 c s : R) : m33 R :=
  let c0 := rot_col a1 a2 a3 c s (1, 0, 0) in
  let c1 := rot_col a1 a2 a3 c s (0, 1, 0) in
  let c2 := rot_col a1 a2 a3 c s (0, 0, 1) in
  ((vx c0, vx c1, vx c2), (vy c0, vy c1, vy c2), (vz c0, vz c1, vz c2)).
Definition rotate_code (a1 a2 a3 c s : R) (p : v3 R) : v3 R := rot_col a1 a2 a3 c s p.
Definition translate_code (a1 a2 a3 : R) (p : v3 R) : v3 R :=
  match p with (x, y, z) => translation_xyz ROps a1 a2 a3 x y z end.

Lemma lit11 : lit ROps 1 1 = 1.
Proof. unfold lit. simpl. lra. Qed.

(* the code's rotation is linear: it is its own matrix applied to the node *)
Lemma rotate_code_linear a1 a2 a3 c s p :
  rotate_code a1 a2 a3 c s p = mapply ROps (rot_matrix a1 a2 a3 c s) p.
Proof.
  destruct p as [[x y] z].
  unfold rotate_code, rot_matrix, rot_col, rotation_xyz, mapply, dot, vx, vy, vz.
  cbv zeta. rewrite !lit11. simpl.
  set (n := sqrt (a1 * a1 + a2 * a2 + a3 * a3)).
  f_equal; [f_equal|]; ring.
Qed.
Lemma rotate_code_aff a1 a2 a3 c s p :
  rotate_code a1 a2 a3 c s p = aff ROps (rot_matrix a1 a2 a3 c s) (0, 0, 0) p.
Proof.
  rewrite rotate_code_linear. unfold aff.
  destruct (mapply ROps (rot_matrix a1 a2 a3 c s) p) as [[u v] w]. simpl.
  f_equal; [f_equal|]; lra.
Qed.
Lemma translate_code_aff a1 a2 a3 p :
  translate_code a1 a2 a3 p = aff ROps (midentity ROps) (a1, a2, a3) p.
Proof.
  destruct p as [[x y] z]. unfold translate_code, translation_xyz, aff, mapply, midentity, dot, vadd.
  simpl. f_equal; [f_equal|]; ring.
Qed.

(* Rodrigues: for a non-zero axis and c^2 + s^2 = 1 the matrix is a rotation *)
Lemma rot_matrix_rotation a1 a2 a3 c s :
  (a1, a2, a3) <> (0, 0, 0) -> c * c + s * s = 1 -> rotation (rot_matrix a1 a2 a3 c s).
Proof.
  intros Ha Hcs.
  assert (Hpos : 0 < a1 * a1 + a2 * a2 + a3 * a3).
  { destruct (Req_dec a1 0) as [E1|E1]; [|nra].
    destruct (Req_dec a2 0) as [E2|E2]; [|nra].
    destruct (Req_dec a3 0) as [E3|E3]; [|nra].
    exfalso. apply Ha. subst. reflexivity. }
  unfold rotation, similarity, rot_matrix, rot_col, rotation_xyz, mdet, det3, dot, vx, vy, vz.
  cbv zeta. rewrite !lit11. simpl.
  set (n := sqrt (a1 * a1 + a2 * a2 + a3 * a3)).
  assert (Hn : n * n = a1 * a1 + a2 * a2 + a3 * a3) by (apply sqrt_sqrt; lra).
  assert (Hn0 : n <> 0) by (intros E; rewrite E in Hn; lra).
  set (n1 := a1 / n). set (n2 := a2 / n). set (n3 := a3 / n).
  assert (U : n1 * n1 + n2 * n2 + n3 * n3 = 1).
  { unfold n1, n2, n3.
    replace (a1 / n * (a1 / n) + a2 / n * (a2 / n) + a3 / n * (a3 / n))
      with ((a1 * a1 + a2 * a2 + a3 * a3) / (n * n)) by (field; exact Hn0).
    rewrite <- Hn. field. exact Hn0. }
  clearbody n1 n2 n3. clear Hn Hn0 Hpos Ha n.
  repeat split; nsatz.
Qed.

(* rotation(a, theta) followed by translation(t), as the code performs them on one node *)
Definition move_code (a1 a2 a3 c s t1 t2 t3 : R) (p : v3 R) : v3 R :=
  translate_code t1 t2 t3 (rotate_code a1 a2 a3 c s p).
Lemma move_code_aff a1 a2 a3 c s t1 t2 t3 p :
  move_code a1 a2 a3 c s t1 t2 t3 p = aff ROps (rot_matrix a1 a2 a3 c s) (t1, t2, t3) p.
Proof.
  unfold move_code. rewrite translate_code_aff, rotate_code_aff. unfold aff.
  destruct (mapply ROps (rot_matrix a1 a2 a3 c s) p) as [[u v] w].
  unfold mapply, midentity, dot, vadd. simpl. f_equal; [f_equal|]; ring.
Qed.
Lemma rot_matrix_det a1 a2 a3 c s :
  (a1, a2, a3) <> (0, 0, 0) -> c * c + s * s = 1 -> mdet ROps (rot_matrix a1 a2 a3 c s) = 1.
Proof. intros A C. exact (proj2 (rot_matrix_rotation a1 a2 a3 c s A C)). Qed.
Lemma rot_matrix_sim a1 a2 a3 c s :
  (a1, a2, a3) <> (0, 0, 0) -> c * c + s * s = 1 -> similarity (rot_matrix a1 a2 a3 c s) 1.
Proof. intros A C. exact (proj1 (rot_matrix_rotation a1 a2 a3 c s A C)). Qed.
(* the pure motions are instances: theta = 0 (c = 1, s = 0) leaves every node where it is *)
Lemma rotate_code_theta0 a1 a2 a3 p : (a1, a2, a3) <> (0, 0, 0) -> rotate_code a1 a2 a3 1 0 p = p.
Proof.
  intros Ha. destruct p as [[x y] z].
  unfold rotate_code, rot_col, rotation_xyz. cbv zeta. rewrite !lit11. simpl.
  f_equal; [f_equal|]; ring.
Qed.
