(* C11 — polygons of any number of vertices (hand model of the fan loop):
   the summed fan cross product transforms with the cofactor matrix, hence the
   fan area scales with s^2 under every similarity. *)
From Coq Require Import ZArith Reals List Lra.
Import ListNotations.
From FV.C11 Require Import Model Entry Proofs.
Open Scope R_scope.
(* no sentence of this file may hold the shared Coq build lock for long *)
Set Default Timeout 240.

Lemma tri_cross_affine M t p0 a b :
  tri_cross ROps (aff ROps M t p0) (aff ROps M t a) (aff ROps M t b)
  = mapply ROps (cof ROps M) (tri_cross ROps p0 a b).
Proof. unfold tri_cross. now rewrite !aff_sub, cross_mapply. Qed.

Lemma fan_crosses_affine M t p0 rest :
  fan_crosses ROps (aff ROps M t p0) (map (aff ROps M t) rest)
  = map (mapply ROps (cof ROps M)) (fan_crosses ROps p0 rest).
Proof.
  induction rest as [| a tl IH]; [reflexivity |].
  destruct tl as [| b tl']; [reflexivity |].
  cbn [map] in IH |- *.
  change (fan_crosses ROps (aff ROps M t p0) (aff ROps M t a :: aff ROps M t b :: map (aff ROps M t) tl'))
    with (tri_cross ROps (aff ROps M t p0) (aff ROps M t a) (aff ROps M t b)
          :: fan_crosses ROps (aff ROps M t p0) (aff ROps M t b :: map (aff ROps M t) tl')).
  change (fan_crosses ROps p0 (a :: b :: tl'))
    with (tri_cross ROps p0 a b :: fan_crosses ROps p0 (b :: tl')).
  cbn [map]. rewrite IH, tri_cross_affine. reflexivity.
Qed.

Lemma mapply_vadd C u v : mapply ROps C (vadd ROps u v) = vadd ROps (mapply ROps C u) (mapply ROps C v).
Proof. destruct_pts; unfold_ops; apply v3_eq; ring. Qed.
Lemma mapply_vzero C : mapply ROps C (vzero ROps) = vzero ROps.
Proof. destruct_pts; cbv [vzero]; unfold_ops; apply v3_eq; ring. Qed.
Lemma vsum_mapply C l : vsum ROps (map (mapply ROps C) l) = mapply ROps C (vsum ROps l).
Proof.
  unfold vsum. rewrite <- (mapply_vzero C) at 1. generalize (vzero ROps) as acc.
  induction l as [| x tl IH]; intros acc; simpl; [reflexivity |].
  rewrite <- mapply_vadd. apply IH.
Qed.

(* vector area of the fan: cofactor law for every polygon and every M *)
Theorem polygon_fan_sum_affine M t pts :
  polygon_fan_sum ROps (map (aff ROps M t) pts)
  = option_map (mapply ROps (cof ROps M)) (polygon_fan_sum ROps pts).
Proof.
  destruct pts as [| p0 [| a [| b tl]]]; try reflexivity.
  cbn [map]. unfold polygon_fan_sum. cbv [option_map]. f_equal.
  change (aff ROps M t a :: aff ROps M t b :: map (aff ROps M t) tl)
    with (map (aff ROps M t) (a :: b :: tl)).
  rewrite fan_crosses_affine, vsum_mapply. reflexivity.
Qed.
(* fan area (the kernel behind mode "centroid" of calculate_element_areas for
   polygons): s^2 under every similarity, for every number of vertices *)
Theorem polygon_area_fan_similarity M s t pts : similarity M s -> 0 <= s ->
  polygon_area_fan ROps (map (aff ROps M t) pts)
  = option_map (fun a => s * s * a) (polygon_area_fan ROps pts).
Proof.
  intros Hs Hpos. unfold polygon_area_fan. rewrite polygon_fan_sum_affine.
  destruct (polygon_fan_sum ROps pts) as [v |]; [| reflexivity].
  cbv [option_map]. f_equal. rewrite (norm_cof M s v Hs Hpos).
  cbv [mul half lit div of_Z ROps]. field.
Qed.
