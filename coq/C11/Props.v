(* C11 — element areas / volumes / normals are geometric invariants and add up.
   Statements only.  gen/Kernels.v is regenerated from /repo on every run; every
   theorem below is about the regenerated kernels.
   Notation: aff M t p = M p + t;  mdet M = det M;  cof M = cofactor matrix;
   similarity M s: M M^T = s^2 I (rotations, reflections, uniform scalings and
   their products);  rotation M: similarity M 1 and det M = 1. *)
From Coq Require Import ZArith Reals List String Permutation Lra Lia.
Import ListNotations.
From FV.C11 Require Import Model Entry Proofs ProofsVol ProofsArea ProofsRef ProofsGauss.
From FV.C11 Require Import BrickModel ProofsBrick ProofsBrickGeom ProofsPolygon.
From FV.C11.gen Require Import Kernels Brick.
Open Scope R_scope.
(* no sentence of this file may hold the shared Coq build lock for long *)
Set Default Timeout 240.

Local Notation A M t := (aff ROps M t).

(* ---- volumes: for EVERY 3x3 matrix M and translation t,
        vol (M p + t) = det M * vol p.
   det M = 1: rigid motion invariance; M = lambda I: lambda^3 scaling;
   det M = -1: sign change under reflection. *)
Theorem C11_vol_affine_tet : forall M t p0 p1 p2 p3,
  k_element_volumes_tet_like ROps (A M t p0) (A M t p1) (A M t p2) (A M t p3)
  = mdet ROps M * k_element_volumes_tet_like ROps p0 p1 p2 p3.
Proof. exact tet_affine. Qed.
Theorem C11_vol_affine_pyr : forall M t p0 p1 p2 p3 p4,
  k_element_volumes_pyr ROps (A M t p0) (A M t p1) (A M t p2) (A M t p3) (A M t p4)
  = mdet ROps M * k_element_volumes_pyr ROps p0 p1 p2 p3 p4.
Proof. exact pyr_affine. Qed.
Theorem C11_vol_affine_pyr_centroid : forall M t p0 p1 p2 p3 p4,
  k_element_volumes_pyr_centroid ROps (A M t p0) (A M t p1) (A M t p2) (A M t p3) (A M t p4)
  = mdet ROps M * k_element_volumes_pyr_centroid ROps p0 p1 p2 p3 p4.
Proof. exact pyr_centroid_affine. Qed.
Theorem C11_vol_affine_prism : forall M t p0 p1 p2 p3 p4 p5,
  k_element_volumes_prism ROps (A M t p0) (A M t p1) (A M t p2) (A M t p3) (A M t p4) (A M t p5)
  = mdet ROps M * k_element_volumes_prism ROps p0 p1 p2 p3 p4 p5.
Proof. exact prism_affine. Qed.
Theorem C11_vol_affine_prism_centroid : forall M t p0 p1 p2 p3 p4 p5,
  k_element_volumes_prism_centroid ROps (A M t p0) (A M t p1) (A M t p2) (A M t p3) (A M t p4) (A M t p5)
  = mdet ROps M * k_element_volumes_prism_centroid ROps p0 p1 p2 p3 p4 p5.
Proof. exact prism_centroid_affine. Qed.
Theorem C11_vol_affine_hex_linear : forall M t p0 p1 p2 p3 p4 p5 p6 p7,
  k_element_volumes_hex ROps (A M t p0) (A M t p1) (A M t p2) (A M t p3)
                             (A M t p4) (A M t p5) (A M t p6) (A M t p7)
  = mdet ROps M * k_element_volumes_hex ROps p0 p1 p2 p3 p4 p5 p6 p7.
Proof. exact hex_affine. Qed.
Theorem C11_vol_affine_hex_gaussian : forall M t p0 p1 p2 p3 p4 p5 p6 p7,
  k_element_volumes_hex_gaussian ROps (A M t p0) (A M t p1) (A M t p2) (A M t p3)
                                      (A M t p4) (A M t p5) (A M t p6) (A M t p7)
  = mdet ROps M * k_element_volumes_hex_gaussian ROps p0 p1 p2 p3 p4 p5 p6 p7.
Proof. exact hex_gaussian_affine. Qed.
Theorem C11_vol_affine_hex_centroid : forall M t p0 p1 p2 p3 p4 p5 p6 p7,
  k_element_volumes_hex_centroid ROps (A M t p0) (A M t p1) (A M t p2) (A M t p3)
                                      (A M t p4) (A M t p5) (A M t p6) (A M t p7)
  = mdet ROps M * k_element_volumes_hex_centroid ROps p0 p1 p2 p3 p4 p5 p6 p7.
Proof. exact hex_centroid_affine. Qed.
Theorem C11_vol_affine_hexprism : forall M t p0 p1 p2 p3 p4 p5 p6 p7 p8 p9 p10 p11,
  k_element_volumes_hexprism ROps (A M t p0) (A M t p1) (A M t p2) (A M t p3) (A M t p4) (A M t p5)
     (A M t p6) (A M t p7) (A M t p8) (A M t p9) (A M t p10) (A M t p11)
  = mdet ROps M * k_element_volumes_hexprism ROps p0 p1 p2 p3 p4 p5 p6 p7 p8 p9 p10 p11.
Proof. exact hexprism_affine. Qed.

(* ---- all modes agree on affine elements and equal the closed form:
        every parallelepiped / affine pyramid / affine wedge / affine hexagonal prism *)
Theorem C11_modes_agree_hex : forall M t,
  let e k := k (A M t (0,0,0)) (A M t (1,0,0)) (A M t (1,1,0)) (A M t (0,1,0))
               (A M t (0,0,1)) (A M t (1,0,1)) (A M t (1,1,1)) (A M t (0,1,1)) in
  e (k_element_volumes_hex ROps) = mdet ROps M /\
  e (k_element_volumes_hex_gaussian ROps) = mdet ROps M /\
  e (k_element_volumes_hex_centroid ROps) = mdet ROps M.
Proof.
  intros M t e. subst e. cbv beta.
  rewrite hex_affine, hex_gaussian_affine, hex_centroid_affine,
          hex_ref, hex_gaussian_ref, hex_centroid_ref.
  repeat split; ring.
Qed.
Theorem C11_modes_agree_prism : forall M t,
  let e k := k (A M t (0,0,0)) (A M t (0,1,0)) (A M t (1,0,0))
               (A M t (0,0,1)) (A M t (0,1,1)) (A M t (1,0,1)) in
  e (k_element_volumes_prism ROps) = mdet ROps M / 2 /\
  e (k_element_volumes_prism_centroid ROps) = mdet ROps M / 2.
Proof.
  intros M t e. subst e. cbv beta.
  rewrite prism_affine, prism_centroid_affine, prism_ref, prism_centroid_ref.
  split; field.
Qed.
Theorem C11_modes_agree_pyr : forall M t,
  let e k := k (A M t (0,0,0)) (A M t (1,0,0)) (A M t (1,1,0)) (A M t (0,1,0)) (A M t (0,0,1)) in
  e (k_element_volumes_pyr ROps) = mdet ROps M / 3 /\
  e (k_element_volumes_pyr_centroid ROps) = mdet ROps M / 3.
Proof.
  intros M t e. subst e. cbv beta.
  rewrite pyr_affine, pyr_centroid_affine, pyr_ref, pyr_centroid_ref.
  split; field.
Qed.
Theorem C11_closed_form_tet : forall M t,
  k_element_volumes_tet_like ROps (A M t (0,0,0)) (A M t (1,0,0)) (A M t (0,1,0)) (A M t (0,0,1))
  = mdet ROps M / 6.
Proof. intros. rewrite tet_affine, tet_ref. field. Qed.
Theorem C11_closed_form_hexprism : forall M t,
  k_element_volumes_hexprism ROps
     (A M t (1,0,0)) (A M t (0,1,0)) (A M t (-1,1,0)) (A M t (-1,0,0)) (A M t (0,-1,0)) (A M t (1,-1,0))
     (A M t (1,0,1)) (A M t (0,1,1)) (A M t (-1,1,1)) (A M t (-1,0,1)) (A M t (0,-1,1)) (A M t (1,-1,1))
  = 3 * mdet ROps M.
Proof. intros. rewrite hexprism_affine, hexprism_ref. ring. Qed.

(* ---- planar-faced elements that are NOT affine images (frusta, general
   planar-faced hexahedra / wedges / pyramids): for ALL coordinates the linear
   and the centroid kernel differ exactly by the non-planarity of the quadrilateral
   faces, hence agree whenever every quadrilateral face is planar *)
Theorem C11_modes_agree_planar_hex : forall p0 p1 p2 p3 p4 p5 p6 p7,
  coplanar p3 p2 p1 p0 -> coplanar p5 p4 p0 p1 -> coplanar p6 p7 p4 p5 ->
  coplanar p2 p3 p7 p6 -> coplanar p5 p1 p2 p6 -> coplanar p4 p7 p3 p0 ->
  k_element_volumes_hex ROps p0 p1 p2 p3 p4 p5 p6 p7
  = k_element_volumes_hex_centroid ROps p0 p1 p2 p3 p4 p5 p6 p7.
Proof.
  intros * H1 H2 H3 H4 H5 H6.
  pose proof (hex_linear_centroid_defect p0 p1 p2 p3 p4 p5 p6 p7) as E.
  rewrite !coplanar_defect in E by assumption. lra.
Qed.
Theorem C11_modes_agree_planar_prism : forall p0 p1 p2 p3 p4 p5,
  coplanar p2 p5 p3 p0 -> coplanar p1 p4 p5 p2 -> coplanar p0 p3 p4 p1 ->
  k_element_volumes_prism ROps p0 p1 p2 p3 p4 p5
  = k_element_volumes_prism_centroid ROps p0 p1 p2 p3 p4 p5.
Proof.
  intros * H1 H2 H3.
  pose proof (prism_linear_centroid_defect p0 p1 p2 p3 p4 p5) as E.
  rewrite !coplanar_defect in E by assumption. lra.
Qed.
Theorem C11_modes_agree_planar_pyr : forall p0 p1 p2 p3 p4,
  coplanar p1 p0 p3 p2 ->
  k_element_volumes_pyr ROps p0 p1 p2 p3 p4 = k_element_volumes_pyr_centroid ROps p0 p1 p2 p3 p4.
Proof.
  intros * H1. pose proof (pyr_linear_centroid_defect p0 p1 p2 p3 p4) as E.
  rewrite !coplanar_defect in E by assumption. lra.
Qed.
(* non-vacuity: a frustum (not a parallelepiped) has planar faces *)
Example C11_frustum_planar :
  coplanar (0,2,0) (2,2,0) (2,0,0) (0,0,0) /\ coplanar (1,0,1) (0,0,1) (0,0,0) (2,0,0) /\
  coplanar (1,1,1) (0,1,1) (0,0,1) (1,0,1) /\ coplanar (2,2,0) (0,2,0) (0,1,1) (1,1,1) /\
  coplanar (1,0,1) (2,0,0) (2,2,0) (1,1,1) /\ coplanar (0,0,1) (0,1,1) (0,2,0) (0,0,0).
Proof. unfold coplanar. cbv [det3 vsub sub mul add ROps]. repeat split; ring. Qed.

(* ---- areas: for every similarity (M M^T = s^2 I, s >= 0) and translation,
        area (M p + t) = s^2 * area p   (s = 1: rotations AND reflections) *)
Theorem C11_area_similarity_tri : forall M s t p0 p1 p2, similarity M s -> 0 <= s ->
  k_element_areas_tri ROps (A M t p0) (A M t p1) (A M t p2)
  = s * s * k_element_areas_tri ROps p0 p1 p2.
Proof. exact tri_area_similarity. Qed.
Theorem C11_area_similarity_quad_linear : forall M s t p0 p1 p2 p3, similarity M s -> 0 <= s ->
  k_element_areas_quad ROps (A M t p0) (A M t p1) (A M t p2) (A M t p3)
  = s * s * k_element_areas_quad ROps p0 p1 p2 p3.
Proof. exact quad_area_similarity. Qed.
Theorem C11_area_similarity_quad_gaussian : forall M s t p0 p1 p2 p3, similarity M s -> 0 <= s ->
  k_element_areas_quad_gaussian ROps (A M t p0) (A M t p1) (A M t p2) (A M t p3)
  = s * s * k_element_areas_quad_gaussian ROps p0 p1 p2 p3.
Proof. exact quad_gaussian_area_similarity. Qed.
Theorem C11_area_similarity_quad_centroid : forall M s t p0 p1 p2 p3, similarity M s -> 0 <= s ->
  k_element_areas_quad_centroid ROps (A M t p0) (A M t p1) (A M t p2) (A M t p3)
  = s * s * k_element_areas_quad_centroid ROps p0 p1 p2 p3.
Proof. exact quad_centroid_area_similarity. Qed.
(* the vector area of a triangle transforms with the cofactor matrix, for every M *)
Theorem C11_vector_area_affine_tri : forall M t p0 p1 p2,
  k_tri_crosses ROps (A M t p0) (A M t p1) (A M t p2)
  = mapply ROps (cof ROps M) (k_tri_crosses ROps p0 p1 p2).
Proof. exact tri_crosses_affine. Qed.
(* uniform scaling is a similarity with s = |lambda|, det = lambda^3 *)
Theorem C11_scaling_is_similarity : forall lam,
  similarity (scaling lam) (Rabs lam) /\ mdet ROps (scaling lam) = lam * lam * lam.
Proof. intros; split; [apply similarity_scaling | apply mdet_scaling]. Qed.

(* ---- polygons with any number of vertices (hand model of the fan loop
   _trianglate_polygon + _calculate_tri_crosses + sum): the fan's vector area
   transforms with the cofactor matrix for EVERY M; the fan area (what
   calculate_element_areas computes for polygons in its default mode) scales with
   s^2 under every similarity (rigid motions, reflections, scalings) *)
Theorem C11_polygon_fan_vector_area_affine : forall M t pts,
  polygon_fan_sum ROps (map (A M t) pts)
  = option_map (mapply ROps (cof ROps M)) (polygon_fan_sum ROps pts).
Proof. exact polygon_fan_sum_affine. Qed.
Theorem C11_polygon_fan_area_similarity : forall M s t pts, similarity M s -> 0 <= s ->
  polygon_area_fan ROps (map (A M t) pts)
  = option_map (fun a => s * s * a) (polygon_area_fan ROps pts).
Proof. exact polygon_area_fan_similarity. Qed.

(* ---- all quad modes agree on parallelograms (= affine images of the unit
        square) and equal the closed form |(p1-p0) x (p3-p0)| *)
Theorem C11_modes_agree_quad : forall p0 p1 p3,
  let closed := norm ROps (cross ROps (vsub ROps p1 p0) (vsub ROps p3 p0)) in
  let p2 := vsub ROps (vadd ROps p1 p3) p0 in
  k_element_areas_quad ROps p0 p1 p2 p3 = closed /\
  k_element_areas_quad_gaussian ROps p0 p1 p2 p3 = closed /\
  k_element_areas_quad_centroid ROps p0 p1 p2 p3 = closed.
Proof.
  intros. subst closed p2. repeat split;
  [apply quad_parallelogram_linear | apply quad_parallelogram_gaussian | apply quad_parallelogram_centroid].
Qed.

(* ---- normals rotate with the body (and ignore translations) *)
Theorem C11_normal_rotation_tri : forall M t p0 p1 p2, rotation M ->
  k_tri_normals ROps (A M t p0) (A M t p1) (A M t p2) = mapply ROps M (k_tri_normals ROps p0 p1 p2).
Proof. exact tri_normals_rotation. Qed.
Theorem C11_normal_rotation_quad_linear : forall M t p0 p1 p2 p3, rotation M ->
  k_quad_normals ROps (A M t p0) (A M t p1) (A M t p2) (A M t p3)
  = mapply ROps M (k_quad_normals ROps p0 p1 p2 p3).
Proof. exact quad_normals_rotation. Qed.
Theorem C11_normal_rotation_quad_centroid : forall M t p0 p1 p2 p3, rotation M ->
  k_quad_normals_centroid ROps (A M t p0) (A M t p1) (A M t p2) (A M t p3)
  = mapply ROps M (k_quad_normals_centroid ROps p0 p1 p2 p3).
Proof. exact quad_normals_centroid_rotation. Qed.
(* the final functions.normalize of calculate_element_normals commutes with rotations too *)
Theorem C11_normalize_rotation : forall M v, rotation M ->
  normalize ROps (mapply ROps M v) = mapply ROps M (normalize ROps v).
Proof. intros M v H. now apply (normalize_rot M H). Qed.

(* ---- brick generator (util/brick_generator.py; templates translated into
   gen/Brick.v, index filter / layout stated in BrickModel.v and checked verbatim
   by the translator).  For ALL nx, ny, nz >= 1: *)
(* the indices the comprehension keeps are exactly the first nodes of the
   nx*ny*nz cells (a permutation of them, each once) *)
Theorem C11_brick_kept_are_the_cells : forall nx ny nz, (1 <= nx)%Z -> (1 <= ny)%Z -> (1 <= nz)%Z ->
  Permutation (filter (keep3 (nx + 1) (ny + 1) nz) (zrange ((nx + 1) * (ny + 1) * (nz + 1))))
              (map (cell_first nx ny) (cells3 nx ny nz)).
Proof. exact brick3_kept_are_the_cells. Qed.
(* exactly the requested element counts *)
Theorem C11_brick_count : forall nx ny nz, (1 <= nx)%Z -> (1 <= ny)%Z -> (1 <= nz)%Z ->
  Z.of_nat (List.length (brick3_conn template_hex nx ny nz)) = (nx * ny * nz)%Z /\
  Z.of_nat (List.length (brick3_conn template_tet nx ny nz)) = (6 * (nx * ny * nz))%Z /\
  Z.of_nat (List.length (brick2_conn template_quad nx ny)) = (nx * ny)%Z /\
  Z.of_nat (List.length (brick2_conn template_tri nx ny)) = (2 * (nx * ny))%Z.
Proof.
  intros nx ny nz Hx Hy Hz.
  rewrite !brick3_element_count, !brick2_element_count by assumption.
  cbv [template_hex template_tet template_quad template_tri List.length]. repeat split; lia.
Qed.
(* every generated element, through its node ids and the node positions, has
   the cell volume in EVERY mode: positive orientation when dx, dy, dz > 0 *)
Theorem C11_brick_hex_volumes : forall dx dy dz nx ny nz row,
  (1 <= nx)%Z -> (1 <= ny)%Z -> (1 <= nz)%Z -> In row (brick3_conn template_hex nx ny nz) ->
  apply8 (k_element_volumes_hex ROps) (row_points dx dy dz nx ny row) = Some (dx * dy * dz) /\
  apply8 (k_element_volumes_hex_gaussian ROps) (row_points dx dy dz nx ny row) = Some (dx * dy * dz) /\
  apply8 (k_element_volumes_hex_centroid ROps) (row_points dx dy dz nx ny row) = Some (dx * dy * dz).
Proof. exact brick3_hex_volumes. Qed.
Theorem C11_brick_tet_volumes : forall dx dy dz nx ny nz row,
  (1 <= nx)%Z -> (1 <= ny)%Z -> (1 <= nz)%Z -> In row (brick3_conn template_tet nx ny nz) ->
  apply4 (k_element_volumes_tet_like ROps) (row_points dx dy dz nx ny row) = Some (dx * dy * dz / 6).
Proof. exact brick3_tet_volumes. Qed.
(* 2D cells (lattice form): every mode gives dx dy (quad), dx dy / 2 (tri) *)
Theorem C11_brick_quad_tri_cells : forall dx dy dz a b, 0 < dx -> 0 < dy ->
  (forall row, In row template_quad ->
     apply4 (k_element_areas_quad ROps) (cell_points dx dy dz a b 0 row) = Some (dx * dy) /\
     apply4 (k_element_areas_quad_gaussian ROps) (cell_points dx dy dz a b 0 row) = Some (dx * dy) /\
     apply4 (k_element_areas_quad_centroid ROps) (cell_points dx dy dz a b 0 row) = Some (dx * dy)) /\
  (forall row, In row template_tri ->
     apply3 (k_element_areas_tri ROps) (cell_points dx dy dz a b 0 row) = Some (dx * dy / 2)).
Proof.
  intros dx dy dz a b Hx Hy. split; intros row Hr;
  [apply brick_quad_cell | apply brick_tri_cell]; assumption.
Qed.
(* the metrics add up to the box: (number of hexes) * (hex volume) = Lx Ly Lz, and the
   sum of any list of nx*ny*nz values all equal to the cell volume is Lx Ly Lz *)
Theorem C11_brick_sum : forall nx ny nz lx ly lz (vols : list R),
  (1 <= nx)%Z -> (1 <= ny)%Z -> (1 <= nz)%Z ->
  Z.of_nat (List.length vols) = (nx * ny * nz)%Z ->
  Forall (fun v => v = (lx / IZR nx) * (ly / IZR ny) * (lz / IZR nz)) vols ->
  tsum ROps vols = lx * ly * lz.
Proof.
  intros nx ny nz lx ly lz vols Hx Hy Hz Hlen Hall.
  rewrite (tsum_const vols _ Hall), INR_IZR_INZ, Hlen.
  now apply brick_box_volume.
Qed.

(* ---- relabelling: per-element results depend on node ids only through the
        id -> position lookup.  For every node table with distinct ids:
        any permutation of node storage, and any renaming of node ids that is
        injective on the ids involved, gives the same value for every element,
        for every dispatch table / type / mode. *)
Theorem C11_relabel_nodes_scalar : forall tbl ty mode (nodes nodes' : node_table R) conn,
  NoDup (map fst nodes) -> Permutation nodes nodes' ->
  elem_scalar ROps tbl ty mode nodes' conn = elem_scalar ROps tbl ty mode nodes conn.
Proof. exact elem_scalar_perm. Qed.
Theorem C11_rename_nodes_scalar : forall tbl ty mode (f : Z -> Z) (nodes : node_table R) conn,
  (forall i j, In i conn -> In j (map fst nodes) -> f j = f i -> j = i) ->
  elem_scalar ROps tbl ty mode (rename_tbl _ f nodes) (map f conn)
  = elem_scalar ROps tbl ty mode nodes conn.
Proof. exact elem_scalar_rename. Qed.
Theorem C11_relabel_nodes_vector : forall tbl ty mode (nodes nodes' : node_table R) conn,
  NoDup (map fst nodes) -> Permutation nodes nodes' ->
  elem_vector ROps tbl ty mode nodes' conn = elem_vector ROps tbl ty mode nodes conn.
Proof. exact elem_vector_perm. Qed.
Theorem C11_rename_nodes_vector : forall tbl ty mode (f : Z -> Z) (nodes : node_table R) conn,
  (forall i j, In i conn -> In j (map fst nodes) -> f j = f i -> j = i) ->
  elem_vector ROps tbl ty mode (rename_tbl _ f nodes) (map f conn)
  = elem_vector ROps tbl ty mode nodes conn.
Proof. exact elem_vector_rename. Qed.
(* single-type mesh: row k of the result is (id of element k, value computed
   from the connectivity of element k): element ids and element storage order
   do not influence any value *)
Theorem C11_block_rows : forall (V : Type) (f : list Z -> option V) rows res,
  block_values f rows = Some res ->
  map fst res = map fst rows /\
  forall k r, nth_error rows k = Some r ->
    exists v, f (snd r) = Some v /\ nth_error res k = Some (fst r, v).
Proof. intros V. exact (@block_values_spec V). Qed.

(* non-vacuity: a rotation by 90 degrees about z is a rotation; (3,4,0)-scaled
   similarity exists *)
Example C11_rotation_example : rotation ((0,-1,0),(1,0,0),(0,0,1)).
Proof. unfold rotation, similarity, mdet. cbv [dot det3 add mul sub ROps]. repeat split; ring. Qed.
Example C11_similarity_example : similarity ((0,-5,0),(3,0,4),(4,0,-3)) 5.
Proof. unfold similarity. cbv [dot add mul ROps]. repeat split; ring. Qed.

(* ---- mixed meshes.  The model of `res[self.elements.types == k] = partial`
   VIOLATES "unchanged by reordering storage": with distinct element ids
   30, 10 (tet block, in that storage order) and 20 (hex block) the values of
   elements 10 and 30 are swapped.  The witness is replayed on the implementation
   on every run (corpus/C11/mix_unsorted_block.json); fixed in /repo by aad563d.  Assignment by element id
   (what gen/Kernels.v records as *_mix_by_id = true) is the specification. *)
Theorem C11_mixed_assignment_by_type_mask_refuted :
  exists blocks : list (string * list (Z * Z)),
    NoDup (map fst (flat_map snd blocks)) /\ assemble_impl blocks <> Some (assemble_spec blocks).
Proof. exists mix_witness. exact mask_assignment_refuted. Qed.
Theorem C11_mixed_assignment_by_id_is_spec : forall V (blocks : list (string * list (Z * V))),
  asm_of true V blocks = Some (assemble_spec blocks).
Proof. exact by_id_assignment_is_spec. Qed.
