(* C11 — reference elements and closed forms. *)
From Coq Require Import ZArith Reals List String Lra Nsatz Permutation Bool.
From FV.C11 Require Import Model Entry Proofs.
From FV.C11.gen Require Import Kernels.
Import ListNotations.
Open Scope R_scope.
(* no sentence of this file may hold the shared Coq build lock for long *)
Set Default Timeout 240.
(* ----------------------------------------- reference elements, closed forms *)
Ltac ref_tac := unfold_all; field.
Lemma tet_ref : k_element_volumes_tet_like ROps (0,0,0) (1,0,0) (0,1,0) (0,0,1) = 1 / 6.
Proof. ref_tac. Qed.
Lemma pyr_ref : k_element_volumes_pyr ROps (0,0,0) (1,0,0) (1,1,0) (0,1,0) (0,0,1) = 1 / 3.
Proof. ref_tac. Qed.
Lemma pyr_centroid_ref :
  k_element_volumes_pyr_centroid ROps (0,0,0) (1,0,0) (1,1,0) (0,1,0) (0,0,1) = 1 / 3.
Proof. ref_tac. Qed.
Lemma prism_ref :
  k_element_volumes_prism ROps (0,0,0) (0,1,0) (1,0,0) (0,0,1) (0,1,1) (1,0,1) = 1 / 2.
Proof. ref_tac. Qed.
Lemma prism_centroid_ref :
  k_element_volumes_prism_centroid ROps (0,0,0) (0,1,0) (1,0,0) (0,0,1) (0,1,1) (1,0,1) = 1 / 2.
Proof. ref_tac. Qed.
Lemma hex_ref :
  k_element_volumes_hex ROps (0,0,0) (1,0,0) (1,1,0) (0,1,0) (0,0,1) (1,0,1) (1,1,1) (0,1,1) = 1.
Proof. ref_tac. Qed.
Lemma hex_gaussian_ref :
  k_element_volumes_hex_gaussian ROps (0,0,0) (1,0,0) (1,1,0) (0,1,0) (0,0,1) (1,0,1) (1,1,1) (0,1,1) = 1.
Proof. ref_tac. Qed.
Lemma hex_centroid_ref :
  k_element_volumes_hex_centroid ROps (0,0,0) (1,0,0) (1,1,0) (0,1,0) (0,0,1) (1,0,1) (1,1,1) (0,1,1) = 1.
Proof. ref_tac. Qed.
(* affine image of the regular hexagonal prism: hexagon u, v, v-u, -u, -v, u-v *)
Lemma hexprism_ref :
  k_element_volumes_hexprism ROps (1,0,0) (0,1,0) (-1,1,0) (-1,0,0) (0,-1,0) (1,-1,0)
                                  (1,0,1) (0,1,1) (-1,1,1) (-1,0,1) (0,-1,1) (1,-1,1) = 3.
Proof. ref_tac. Qed.

(* parallelogram quads: all three modes give |(p1-p0) x (p3-p0)| *)
Ltac to_closed k :=
  match goal with |- _ = sqrt ?B =>
    repeat match goal with |- context [sqrt ?a] =>
      lazymatch a with B => fail | _ => idtac end;
      replace (sqrt a) with (k * sqrt B)
        by ((rewrite <- (sqrt_sq_scale k B) by lra); f_equal; first [ring | field])
    end;
    let q := fresh "q" in set (q := sqrt B); clearbody q
  end.
Ltac quad_closed k := intros; destruct_pts; unfold_kernels; unfold_ops; to_closed k; field.
Definition par (p0 p1 p3 : v3 R) : v3 R := vsub ROps (vadd ROps p1 p3) p0.
Lemma quad_parallelogram_linear p0 p1 p3 :
  k_element_areas_quad ROps p0 p1 (par p0 p1 p3) p3
  = norm ROps (cross ROps (vsub ROps p1 p0) (vsub ROps p3 p0)).
Proof. unfold par. quad_closed (1%R). Qed.
Lemma quad_parallelogram_gaussian p0 p1 p3 :
  k_element_areas_quad_gaussian ROps p0 p1 (par p0 p1 p3) p3
  = norm ROps (cross ROps (vsub ROps p1 p0) (vsub ROps p3 p0)).
Proof. unfold par. quad_closed (4%R). Qed.
Lemma quad_parallelogram_centroid p0 p1 p3 :
  k_element_areas_quad_centroid ROps p0 p1 (par p0 p1 p3) p3
  = norm ROps (cross ROps (vsub ROps p1 p0) (vsub ROps p3 p0)).
Proof. unfold par. quad_closed (2%R). Qed.


(* ----------------------- planar-faced (not necessarily affine) elements:
   linear (tet decomposition) - centroid (face fans) = signed sum of the
   non-planarity tets of the quadrilateral faces, for ALL coordinates *)
Definition face_defect (q0 q1 q2 q3 : v3 R) : R :=
  det3 ROps (vsub ROps q1 q0) (vsub ROps q2 q0) (vsub ROps q3 q0) / 12.
Lemma hex_linear_centroid_defect p0 p1 p2 p3 p4 p5 p6 p7 :
  k_element_volumes_hex ROps p0 p1 p2 p3 p4 p5 p6 p7
  - k_element_volumes_hex_centroid ROps p0 p1 p2 p3 p4 p5 p6 p7
  = - face_defect p3 p2 p1 p0 + face_defect p5 p4 p0 p1 - face_defect p6 p7 p4 p5
    + face_defect p2 p3 p7 p6 + face_defect p5 p1 p2 p6 - face_defect p4 p7 p3 p0.
Proof. intros; destruct_pts; cbv [face_defect]; unfold_all; field. Qed.
Lemma prism_linear_centroid_defect p0 p1 p2 p3 p4 p5 :
  k_element_volumes_prism ROps p0 p1 p2 p3 p4 p5
  - k_element_volumes_prism_centroid ROps p0 p1 p2 p3 p4 p5
  = - face_defect p2 p5 p3 p0 + face_defect p1 p4 p5 p2 + face_defect p0 p3 p4 p1.
Proof. intros; destruct_pts; cbv [face_defect]; unfold_all; field. Qed.
Lemma pyr_linear_centroid_defect p0 p1 p2 p3 p4 :
  k_element_volumes_pyr ROps p0 p1 p2 p3 p4 - k_element_volumes_pyr_centroid ROps p0 p1 p2 p3 p4
  = face_defect p1 p0 p3 p2.
Proof. intros; destruct_pts; cbv [face_defect]; unfold_all; field. Qed.
Lemma coplanar_defect q0 q1 q2 q3 : coplanar q0 q1 q2 q3 -> face_defect q0 q1 q2 q3 = 0.
Proof. unfold coplanar, face_defect. intros ->. field. Qed.
