(* C11 — the code's own rigid motions.  gen/Motion.v is regenerated from
   GeometryProcessorMixin.translation / .rotation on every run (translate/c11_motion.py): what
   the methods do to one node, with c = cos theta, s = sin theta as symbols.  Statements only.
   rotate_code a c s p / translate_code t p / move_code a c s t p (rotation, then translation)
   are the translated definitions applied to a node p; rot_matrix a c s is the matrix the
   translated rotation has on the basis vectors. *)
From Coq Require Import ZArith QArith Reals List String Bool Lra.
From FV.C11 Require Import Model Props ProofsMotion.
From FV.C11.gen Require Import Kernels Motion.
Set Default Timeout 120.
Open Scope R_scope.

(* ---- rotation(vx, vy, vz, theta) is p -> M p with M a rotation (M M^T = I, det M = 1), for
   EVERY non-zero axis (normalised by the code itself) and every c, s with c^2 + s^2 = 1;
   translation(vx, vy, vz) is p -> p + v.  So the C11_vol_affine_* / C11_area_similarity_* /
   C11_normal_rotation_* theorems apply to what the code does, not to an abstract motion. *)
Theorem C11_rotation_code_is_a_rotation : forall a1 a2 a3 c s,
  (a1, a2, a3) <> (0, 0, 0) -> c * c + s * s = 1 ->
  rotation (rot_matrix a1 a2 a3 c s) /\
  forall p, rotate_code a1 a2 a3 c s p = aff ROps (rot_matrix a1 a2 a3 c s) (0, 0, 0) p.
Proof. intros. split; [now apply rot_matrix_rotation | intros; apply rotate_code_aff]. Qed.
Theorem C11_translation_code_is_a_translation : forall t1 t2 t3 p,
  translate_code t1 t2 t3 p = vadd ROps p (t1, t2, t3) /\
  translate_code t1 t2 t3 p = aff ROps (midentity ROps) (t1, t2, t3) p.
Proof.
  intros. split; [|apply translate_code_aff].
  destruct p as [[x y] z]. reflexivity.
Qed.
Theorem C11_motion_code_is_affine : forall a1 a2 a3 c s t1 t2 t3 p,
  move_code a1 a2 a3 c s t1 t2 t3 p = aff ROps (rot_matrix a1 a2 a3 c s) (t1, t2, t3) p.
Proof. exact move_code_aff. Qed.
Theorem C11_rotation_code_by_zero_angle : forall a1 a2 a3 p,
  (a1, a2, a3) <> (0, 0, 0) -> rotate_code a1 a2 a3 1 0 p = p.
Proof. exact rotate_code_theta0. Qed.
Theorem C11_motion_code_guards :      (* both methods refuse when data are attached and clear the memoised queries *)
  translation_refuses_attached_data = true /\ rotation_refuses_attached_data = true /\
  translation_clears_query_caches = true /\ rotation_clears_query_caches = true.
Proof. repeat split; reflexivity. Qed.

Section CodeMotion.
  Variables a1 a2 a3 c s t1 t2 t3 : R.
  Hypothesis axis : (a1, a2, a3) <> (0, 0, 0).
  Hypothesis cs : c * c + s * s = 1.
  Local Notation mv := (move_code a1 a2 a3 c s t1 t2 t3).
  Local Notation rot := (rotate_code a1 a2 a3 c s).

  (* ---- volumes are unchanged by rotation() followed by translation(), every kernel *)
  Theorem C11_vol_invariant_code_motion_tet : forall p0 p1 p2 p3,
    k_element_volumes_tet_like ROps (mv p0) (mv p1) (mv p2) (mv p3) = k_element_volumes_tet_like ROps p0 p1 p2 p3.
  Proof. intros. rewrite !move_code_aff, C11_vol_affine_tet, (rot_matrix_det _ _ _ _ _ axis cs). apply Rmult_1_l. Qed.
  Theorem C11_vol_invariant_code_motion_pyr : forall p0 p1 p2 p3 p4,
    k_element_volumes_pyr ROps (mv p0) (mv p1) (mv p2) (mv p3) (mv p4) = k_element_volumes_pyr ROps p0 p1 p2 p3 p4.
  Proof. intros. rewrite !move_code_aff, C11_vol_affine_pyr, (rot_matrix_det _ _ _ _ _ axis cs). apply Rmult_1_l. Qed.
  Theorem C11_vol_invariant_code_motion_pyr_centroid : forall p0 p1 p2 p3 p4,
    k_element_volumes_pyr_centroid ROps (mv p0) (mv p1) (mv p2) (mv p3) (mv p4) = k_element_volumes_pyr_centroid ROps p0 p1 p2 p3 p4.
  Proof. intros. rewrite !move_code_aff, C11_vol_affine_pyr_centroid, (rot_matrix_det _ _ _ _ _ axis cs). apply Rmult_1_l. Qed.
  Theorem C11_vol_invariant_code_motion_prism : forall p0 p1 p2 p3 p4 p5,
    k_element_volumes_prism ROps (mv p0) (mv p1) (mv p2) (mv p3) (mv p4) (mv p5) = k_element_volumes_prism ROps p0 p1 p2 p3 p4 p5.
  Proof. intros. rewrite !move_code_aff, C11_vol_affine_prism, (rot_matrix_det _ _ _ _ _ axis cs). apply Rmult_1_l. Qed.
  Theorem C11_vol_invariant_code_motion_prism_centroid : forall p0 p1 p2 p3 p4 p5,
    k_element_volumes_prism_centroid ROps (mv p0) (mv p1) (mv p2) (mv p3) (mv p4) (mv p5) = k_element_volumes_prism_centroid ROps p0 p1 p2 p3 p4 p5.
  Proof. intros. rewrite !move_code_aff, C11_vol_affine_prism_centroid, (rot_matrix_det _ _ _ _ _ axis cs). apply Rmult_1_l. Qed.
  Theorem C11_vol_invariant_code_motion_hex_linear : forall p0 p1 p2 p3 p4 p5 p6 p7,
    k_element_volumes_hex ROps (mv p0) (mv p1) (mv p2) (mv p3) (mv p4) (mv p5) (mv p6) (mv p7) = k_element_volumes_hex ROps p0 p1 p2 p3 p4 p5 p6 p7.
  Proof. intros. rewrite !move_code_aff, C11_vol_affine_hex_linear, (rot_matrix_det _ _ _ _ _ axis cs). apply Rmult_1_l. Qed.
  Theorem C11_vol_invariant_code_motion_hex_gaussian : forall p0 p1 p2 p3 p4 p5 p6 p7,
    k_element_volumes_hex_gaussian ROps (mv p0) (mv p1) (mv p2) (mv p3) (mv p4) (mv p5) (mv p6) (mv p7) = k_element_volumes_hex_gaussian ROps p0 p1 p2 p3 p4 p5 p6 p7.
  Proof. intros. rewrite !move_code_aff, C11_vol_affine_hex_gaussian, (rot_matrix_det _ _ _ _ _ axis cs). apply Rmult_1_l. Qed.
  Theorem C11_vol_invariant_code_motion_hex_centroid : forall p0 p1 p2 p3 p4 p5 p6 p7,
    k_element_volumes_hex_centroid ROps (mv p0) (mv p1) (mv p2) (mv p3) (mv p4) (mv p5) (mv p6) (mv p7) = k_element_volumes_hex_centroid ROps p0 p1 p2 p3 p4 p5 p6 p7.
  Proof. intros. rewrite !move_code_aff, C11_vol_affine_hex_centroid, (rot_matrix_det _ _ _ _ _ axis cs). apply Rmult_1_l. Qed.
  Theorem C11_vol_invariant_code_motion_hexprism : forall p0 p1 p2 p3 p4 p5 p6 p7 p8 p9 p10 p11,
    k_element_volumes_hexprism ROps (mv p0) (mv p1) (mv p2) (mv p3) (mv p4) (mv p5) (mv p6) (mv p7) (mv p8) (mv p9) (mv p10) (mv p11) = k_element_volumes_hexprism ROps p0 p1 p2 p3 p4 p5 p6 p7 p8 p9 p10 p11.
  Proof. intros. rewrite !move_code_aff, C11_vol_affine_hexprism, (rot_matrix_det _ _ _ _ _ axis cs). apply Rmult_1_l. Qed.
  (* ---- areas are unchanged *)
  Theorem C11_area_invariant_code_motion_tri : forall p0 p1 p2,
    k_element_areas_tri ROps (mv p0) (mv p1) (mv p2) = k_element_areas_tri ROps p0 p1 p2.
  Proof.
    intros. rewrite !move_code_aff, (C11_area_similarity_tri _ 1 _ _ _ _ (rot_matrix_sim _ _ _ _ _ axis cs) Rle_0_1).
    rewrite !Rmult_1_l. reflexivity.
  Qed.
  Theorem C11_area_invariant_code_motion_quad_linear : forall p0 p1 p2 p3,
    k_element_areas_quad ROps (mv p0) (mv p1) (mv p2) (mv p3) = k_element_areas_quad ROps p0 p1 p2 p3.
  Proof.
    intros. rewrite !move_code_aff, (C11_area_similarity_quad_linear _ 1 _ _ _ _ _ (rot_matrix_sim _ _ _ _ _ axis cs) Rle_0_1).
    rewrite !Rmult_1_l. reflexivity.
  Qed.
  Theorem C11_area_invariant_code_motion_quad_gaussian : forall p0 p1 p2 p3,
    k_element_areas_quad_gaussian ROps (mv p0) (mv p1) (mv p2) (mv p3) = k_element_areas_quad_gaussian ROps p0 p1 p2 p3.
  Proof.
    intros. rewrite !move_code_aff, (C11_area_similarity_quad_gaussian _ 1 _ _ _ _ _ (rot_matrix_sim _ _ _ _ _ axis cs) Rle_0_1).
    rewrite !Rmult_1_l. reflexivity.
  Qed.
  Theorem C11_area_invariant_code_motion_quad_centroid : forall p0 p1 p2 p3,
    k_element_areas_quad_centroid ROps (mv p0) (mv p1) (mv p2) (mv p3) = k_element_areas_quad_centroid ROps p0 p1 p2 p3.
  Proof.
    intros. rewrite !move_code_aff, (C11_area_similarity_quad_centroid _ 1 _ _ _ _ _ (rot_matrix_sim _ _ _ _ _ axis cs) Rle_0_1).
    rewrite !Rmult_1_l. reflexivity.
  Qed.
  (* ---- normals rotate with the body: the normal of the moved element is the code's rotation of the normal *)
  Theorem C11_normal_follows_code_motion_tri : forall p0 p1 p2,
    k_tri_normals ROps (mv p0) (mv p1) (mv p2) = rot (k_tri_normals ROps p0 p1 p2).
  Proof.
    intros. rewrite !move_code_aff, rotate_code_linear.
    apply C11_normal_rotation_tri. exact (rot_matrix_rotation _ _ _ _ _ axis cs).
  Qed.
  Theorem C11_normal_follows_code_motion_quad_linear : forall p0 p1 p2 p3,
    k_quad_normals ROps (mv p0) (mv p1) (mv p2) (mv p3) = rot (k_quad_normals ROps p0 p1 p2 p3).
  Proof.
    intros. rewrite !move_code_aff, rotate_code_linear.
    apply C11_normal_rotation_quad_linear. exact (rot_matrix_rotation _ _ _ _ _ axis cs).
  Qed.
  Theorem C11_normal_follows_code_motion_quad_centroid : forall p0 p1 p2 p3,
    k_quad_normals_centroid ROps (mv p0) (mv p1) (mv p2) (mv p3) = rot (k_quad_normals_centroid ROps p0 p1 p2 p3).
  Proof.
    intros. rewrite !move_code_aff, rotate_code_linear.
    apply C11_normal_rotation_quad_centroid. exact (rot_matrix_rotation _ _ _ _ _ axis cs).
  Qed.
End CodeMotion.

(* non-vacuity (executed over Q; Qsqrt 4 = 2 exactly): rotation(0, 0, 2, pi/2) -- c = 0, s = 1 -- takes
   (1, 0, 0) to (0, 1, 0) and (0, 1, 5) to (-1, 0, 5); translation(3, -2, 5) adds the vector *)
Example C11_rotation_hypotheses_satisfiable :      (* an axis and (c, s) = (3/5, 4/5) satisfy the hypotheses *)
  ((1, 2, 2) : v3 R) <> (0, 0, 0) /\ (3 / 5) * (3 / 5) + (4 / 5) * (4 / 5) = 1.
Proof. split; [intros H; inversion H; lra | lra]. Qed.
Open Scope Q_scope.
Example C11_rotation_code_example :
  let q := rotation_xyz QOps 0 0 (2#1) 0 1 1 0 0 in
  let r := rotation_xyz QOps 0 0 (2#1) 0 1 0 1 (5#1) in
  (Qeq_bool (vx q) 0 && Qeq_bool (vy q) 1 && Qeq_bool (vz q) 0 &&
   Qeq_bool (vx r) (-1#1) && Qeq_bool (vy r) 0 && Qeq_bool (vz r) (5#1))%bool = true.
Proof. vm_compute. reflexivity. Qed.
Example C11_translation_code_example :
  translation_xyz QOps (3#1) (-2#1) (5#1) (1#1) (1#1) (1#1) = ((4#1), (-1#1), (6#1))%Q.
Proof. vm_compute. reflexivity. Qed.
