(* C11 — comparisons for the brick generator correspondence. Definitions only. *)
From Coq Require Import ZArith QArith List Bool.
Import ListNotations.
From FV.C11 Require Import Model Check BrickModel.

Fixpoint zlist_eqb (a b : list Z) : bool :=
  match a, b with
  | [], [] => true
  | x :: a', y :: b' => Z.eqb x y && zlist_eqb a' b'
  | _, _ => false
  end.
Fixpoint conn_eqb (a b : list (list Z)) : bool :=
  match a, b with
  | [], [] => true
  | x :: a', y :: b' => zlist_eqb x y && conn_eqb a' b'
  | _, _ => false
  end.
Definition brick3_ok (tmpl : list (list (Z * Z * Z))) (nx ny nz : Z) (lx ly lz : Q)
           (node_ids : list Z) (coords : list (v3 Q)) (elem_ids : list Z) (conn : list (list Z)) : bool :=
  conn_eqb (brick3_conn tmpl nx ny nz) conn
  && agree_list (close3 (1 # 1099511627776) (1 # 1099511627776)) (brick3_nodes QOps lx ly lz nx ny nz) coords
  && zlist_eqb node_ids (map (fun i => (i + 1)%Z) (zrange ((nx + 1) * (ny + 1) * (nz + 1))))
  && zlist_eqb elem_ids (map (fun i => (i + 1)%Z) (zrange (Z.of_nat (List.length conn)))).
Definition brick2_ok (tmpl : list (list (Z * Z * Z))) (nx ny : Z) (lx ly : Q)
           (node_ids : list Z) (coords : list (v3 Q)) (elem_ids : list Z) (conn : list (list Z)) : bool :=
  conn_eqb (brick2_conn tmpl nx ny) conn
  && agree_list (close3 (1 # 1099511627776) (1 # 1099511627776)) (brick2_nodes QOps lx ly nx ny) coords
  && zlist_eqb node_ids (map (fun i => (i + 1)%Z) (zrange ((nx + 1) * (ny + 1))))
  && zlist_eqb elem_ids (map (fun i => (i + 1)%Z) (zrange (Z.of_nat (List.length conn)))).
