(* C11 — element areas / volumes / normals.
   Definitions only (no proofs): number interface `Ops`, 3-vectors, affine
   maps, the hand models of the loops of geometry_processor.py that are not
   straight-line code (polygon fan / centroid sums, polyhedron face-list
   volumes, functions.normalize), the id -> position lookup
   (graph_processor.collect_node_positions_by_ids) and the assembly of the
   per-element result arrays (single-type and mixed meshes).
   The straight-line kernels are NOT here: they are regenerated from /repo
   into gen/Kernels.v on every run. *)
From Coq Require Import ZArith QArith Reals List String Bool.
Import ListNotations.

(* ------------------------------------------------------------------ numbers *)
Record Ops (T : Type) := mkOps {
  zero : T; one : T;
  add : T -> T -> T; sub : T -> T -> T; mul : T -> T -> T; opp : T -> T;
  div : T -> T -> T; of_Z : Z -> T;
  sqrt_ : T -> T;            (* exact over R; certified 2^-60 approximation over Q *)
  ltb_ : T -> T -> bool }.
Arguments zero {T} _. Arguments one {T} _. Arguments add {T} _ _ _.
Arguments sub {T} _ _ _. Arguments mul {T} _ _ _. Arguments opp {T} _ _.
Arguments div {T} _ _ _. Arguments of_Z {T} _ _. Arguments sqrt_ {T} _ _.
Arguments ltb_ {T} _ _ _.

Definition Rltb (a b : R) : bool := if Rlt_dec a b then true else false.
Definition ROps : Ops R :=
  mkOps R 0%R 1%R Rplus Rminus Rmult Ropp Rdiv IZR sqrt Rltb.

(* floor(sqrt(q) * 2^60) / 2^60 for q >= 0 (0 for q < 0) *)
Definition Qsqrt (q : Q) : Q :=
  Qred (Qmake (Z.sqrt ((Qnum q * 2 ^ 120) / Zpos (Qden q))) (2 ^ 60)).
Definition Qltb (a b : Q) : bool :=
  match Qcompare a b with Lt => true | _ => false end.
Definition QOps : Ops Q :=
  mkOps Q 0%Q 1%Q (fun a b => Qred (a + b)) (fun a b => Qred (a - b))
        (fun a b => Qred (a * b)) Qopp (fun a b => Qred (a / b))
        (fun z => inject_Z z) Qsqrt Qltb.

(* a decimal / rational literal of the source: n/d *)
Definition lit {T} (O : Ops T) (n d : Z) : T := div O (of_Z O n) (of_Z O d).

(* ------------------------------------------------------------------ vectors *)
Definition v3 (T : Type) : Type := (T * T * T)%type.

Section Vec.
  Variable T : Type.
  Variable O : Ops T.
  Local Notation "a + b" := (add O a b).
  Local Notation "a - b" := (sub O a b).
  Local Notation "a * b" := (mul O a b).
  Local Notation "a / b" := (div O a b).

  Definition vzero : v3 T := (zero O, zero O, zero O).
  Definition vadd (a b : v3 T) : v3 T :=
    match a, b with (a0, a1, a2), (b0, b1, b2) => (a0 + b0, a1 + b1, a2 + b2) end.
  Definition vsub (a b : v3 T) : v3 T :=
    match a, b with (a0, a1, a2), (b0, b1, b2) => (a0 - b0, a1 - b1, a2 - b2) end.
  Definition vopp (a : v3 T) : v3 T :=
    match a with (a0, a1, a2) => (opp O a0, opp O a1, opp O a2) end.
  Definition vscale (k : T) (a : v3 T) : v3 T :=
    match a with (a0, a1, a2) => (k * a0, k * a1, k * a2) end.
  Definition vscaler (a : v3 T) (k : T) : v3 T :=
    match a with (a0, a1, a2) => (a0 * k, a1 * k, a2 * k) end.
  Definition vdivs (a : v3 T) (k : T) : v3 T :=
    match a with (a0, a1, a2) => (a0 / k, a1 / k, a2 / k) end.
  Definition vx (a : v3 T) : T := match a with (a0, _, _) => a0 end.
  Definition vy (a : v3 T) : T := match a with (_, a1, _) => a1 end.
  Definition vz (a : v3 T) : T := match a with (_, _, a2) => a2 end.
  (* numpy.cross *)
  Definition cross (a b : v3 T) : v3 T :=
    match a, b with (a0, a1, a2), (b0, b1, b2) =>
      (a1 * b2 - a2 * b1, a2 * b0 - a0 * b2, a0 * b1 - a1 * b0) end.
  Definition dot (a b : v3 T) : T :=
    match a, b with (a0, a1, a2), (b0, b1, b2) => a0 * b0 + a1 * b1 + a2 * b2 end.
  (* numpy.linalg.det(numpy.stack([a, b, c], axis=1)): the matrix with ROWS a, b, c *)
  Definition det3 (a b c : v3 T) : T :=
    match a, b, c with (a0, a1, a2), (b0, b1, b2), (c0, c1, c2) =>
      a0 * (b1 * c2 - b2 * c1) - a1 * (b0 * c2 - b2 * c0) + a2 * (b0 * c1 - b1 * c0) end.
  Definition normsq (a : v3 T) : T :=
    match a with (a0, a1, a2) => a0 * a0 + a1 * a1 + a2 * a2 end.
  (* numpy.linalg.norm *)
  Definition norm (a : v3 T) : T := sqrt_ O (normsq a).

  (* femio.config.EPSILON = 1e-5 and functions.normalize(array) (keep_zeros=False):
       norms[norms < EPSILON] = EPSILON; array / norms *)
  Definition epsilon : T := lit O 1 100000.
  Definition normalize (a : v3 T) : v3 T :=
    let n := norm a in
    vdivs a (if ltb_ O n epsilon then epsilon else n).

  (* ------------------------------------------------------- affine maps *)
  Definition m33 : Type := v3 (v3 T).            (* rows *)
  Definition mapply (M : m33) (p : v3 T) : v3 T :=
    match M with (r0, r1, r2) => (dot r0 p, dot r1 p, dot r2 p) end.
  Definition aff (M : m33) (t : v3 T) (p : v3 T) : v3 T := vadd (mapply M p) t.
  Definition mdet (M : m33) : T := match M with (r0, r1, r2) => det3 r0 r1 r2 end.
  (* cofactor matrix: cross (M u) (M v) = cof M (cross u v) *)
  Definition cof (M : m33) : m33 :=
    match M with (r0, r1, r2) => (cross r1 r2, cross r2 r0, cross r0 r1) end.
  Definition midentity : m33 :=
    ((one O, zero O, zero O), (zero O, one O, zero O), (zero O, zero O, one O)).

  (* ------------------------------------------- polygons (hand model, H)
     _trianglate_polygon: fan [0, i+1, i+2], i < n-2;
     _calculate_element_area_polygon: |sum of tri crosses| * .5
     _calculate_polygon_cross:        mean of the tri crosses
     _calculate_polygon_cross_centroid / _calculate_element_area_polygon_centroid:
        p = mean(points); normal = sum_i cross(points[i-1]-p, points[i]-p)  (i-1 wraps) *)
  Definition tri_cross (p0 p1 p2 : v3 T) : v3 T := cross (vsub p1 p0) (vsub p2 p0).
  Fixpoint fan_crosses (p0 : v3 T) (rest : list (v3 T)) : list (v3 T) :=
    match rest with
    | a :: (b :: _) as tl => tri_cross p0 a b :: fan_crosses p0 tl
    | _ => []
    end.
  Definition vsum (l : list (v3 T)) : v3 T := fold_left vadd l vzero.
  Definition polygon_fan_sum (pts : list (v3 T)) : option (v3 T) :=
    match pts with
    | p0 :: (_ :: _ :: _) as rest => Some (vsum (fan_crosses p0 rest))
    | _ => None                                   (* assert n_points > 2 *)
    end.
  Definition of_nat_T (n : nat) : T := of_Z O (Z.of_nat n).
  Definition vmean (l : list (v3 T)) : v3 T := vdivs (vsum l) (of_nat_T (List.length l)).
  (* consecutive pairs with wrap-around: (last, first), (first, second), ... *)
  Fixpoint pairs_from (prev : v3 T) (l : list (v3 T)) : list (v3 T * v3 T) :=
    match l with [] => [] | a :: tl => (prev, a) :: pairs_from a tl end.
  Definition cyc_pairs (l : list (v3 T)) : list (v3 T * v3 T) :=
    match l with [] => [] | a :: _ => pairs_from (last l a) l end.
  Definition polygon_centroid_sum (pts : list (v3 T)) : v3 T :=
    let p := vmean pts in
    vsum (map (fun ab => cross (vsub (fst ab) p) (vsub (snd ab) p)) (cyc_pairs pts)).

  Definition half : T := lit O 1 2.
  Definition polygon_area_fan (pts : list (v3 T)) : option T :=
    option_map (fun s => norm s * half) (polygon_fan_sum pts).
  Definition polygon_area_centroid (pts : list (v3 T)) : option T :=
    match pts with [] => None | _ => Some (norm (polygon_centroid_sum pts) * half) end.
  Definition polygon_cross_fan (pts : list (v3 T)) : option (v3 T) :=
    match pts with
    | p0 :: (_ :: _ :: _) as rest =>
        let cs := fan_crosses p0 rest in Some (vdivs (vsum cs) (of_nat_T (List.length cs)))
    | _ => None
    end.
  Definition polygon_cross_centroid (pts : list (v3 T)) : option (v3 T) :=
    match pts with [] => None | _ => Some (polygon_centroid_sum pts) end.

  (* ------------------------------------------- polyhedra (hand model, H)
     a polyhedron is a list of faces, a face a list of points (already looked
     up by storage index: the kernels index nodes.data with the face entries).
     _calculate_element_volumes_polyhedron_core: for each face, fan from F[0]:
        sum_{i=2..k-1} dot(cross(F[0], F[i-1]), F[i]);  volume/6
     ..._centroid_core: c = mean(F); sum_{i=0..k-1} dot(cross(c, F[i-1]), F[i]); /6 *)
  Fixpoint face_fan (f0 : v3 T) (rest : list (v3 T)) : T :=
    match rest with
    | a :: (b :: _) as tl => add O (dot (cross f0 a) b) (face_fan f0 tl)
    | _ => zero O
    end.
  Definition face_vol_fan (f : list (v3 T)) : T :=
    match f with f0 :: rest => face_fan f0 rest | [] => zero O end.
  Definition face_vol_centroid (f : list (v3 T)) : T :=
    let c := vmean f in
    fold_left (fun acc ab => acc + dot (cross c (fst ab)) (snd ab)) (cyc_pairs f) (zero O).
  Definition tsum (l : list T) : T := fold_left (add O) l (zero O).
  Definition polyhedron_vol_fan (faces : list (list (v3 T))) : T :=
    tsum (map face_vol_fan faces) / of_Z O 6.
  Definition polyhedron_vol_centroid (faces : list (list (v3 T))) : T :=
    tsum (map face_vol_centroid faces) / of_Z O 6.
  (* local origin of the polyhedron cores: the first node of the first face *)
  Definition faces_origin (faces : list (list (v3 T))) : v3 T :=
    match faces with (p :: _) :: _ => p | _ => vzero end.
  Definition shift_faces_if (b : bool) (faces : list (list (v3 T))) : list (list (v3 T)) :=
    if b then map (map (fun p => vsub p (faces_origin faces))) faces else faces.
End Vec.

Arguments vzero {T} O. Arguments vadd {T} O a b. Arguments vsub {T} O a b.
Arguments vopp {T} O a. Arguments vscale {T} O k a. Arguments vscaler {T} O a k.
Arguments vdivs {T} O a k.
Arguments vx {T} a. Arguments vy {T} a. Arguments vz {T} a.
Arguments cross {T} O a b. Arguments dot {T} O a b. Arguments det3 {T} O a b c.
Arguments normsq {T} O a. Arguments norm {T} O a. Arguments epsilon {T} O.
Arguments normalize {T} O a. Arguments m33 T : clear implicits.
Arguments mapply {T} O M p. Arguments aff {T} O M t p. Arguments mdet {T} O M.
Arguments cof {T} O M. Arguments midentity {T} O.
Arguments tri_cross {T} O p0 p1 p2. Arguments fan_crosses {T} O p0 rest.
Arguments vsum {T} O l. Arguments polygon_fan_sum {T} O pts. Arguments of_nat_T {T} O n.
Arguments vmean {T} O l. Arguments pairs_from {T} prev l. Arguments cyc_pairs {T} l.
Arguments polygon_centroid_sum {T} O pts. Arguments half {T} O.
Arguments polygon_area_fan {T} O pts. Arguments polygon_area_centroid {T} O pts.
Arguments polygon_cross_fan {T} O pts. Arguments polygon_cross_centroid {T} O pts.
Arguments face_fan {T} O f0 rest. Arguments face_vol_fan {T} O f.
Arguments face_vol_centroid {T} O f. Arguments tsum {T} O l.
Arguments polyhedron_vol_fan {T} O faces. Arguments polyhedron_vol_centroid {T} O faces.
Arguments faces_origin {T} O faces. Arguments shift_faces_if {T} O b faces.

(* -------------------------------------------------- id -> position lookup
   FEMData.dict_node_id2index = {id: storage index}; collect_node_positions_by_ids
   = nodes.data[[dict[id] for id in ids]].  A node table is the list of
   (id, position) rows in storage order; looking an id up returns the position
   stored in the row with that id (None = KeyError). *)
Section Lookup.
  Variable P : Type.
  Fixpoint lookup (tbl : list (Z * P)) (i : Z) : option P :=
    match tbl with
    | [] => None
    | (j, p) :: tl => if Z.eqb i j then Some p else lookup tl i
    end.
  Fixpoint collect (tbl : list (Z * P)) (ids : list Z) : option (list P) :=
    match ids with
    | [] => Some []
    | i :: tl => match lookup tbl i, collect tbl tl with
                 | Some p, Some ps => Some (p :: ps)
                 | _, _ => None
                 end
    end.
End Lookup.
Arguments lookup {P} tbl i. Arguments collect {P} tbl ids.

(* ---------------------------------------------------- result assembly
   Single-type mesh: results are returned in block storage order, aligned with
   elements.ids (= the block's ids in storage order).
   Mixed mesh (FEMElementalAttribute._update_self): elements.ids = all ids
   sorted ascending (stable argsort of the concatenation in ELEMENT_TYPES
   order); the entry points fill  result[types == k] = partial_k  for each
   block k, i.e. the j-th slot (in id order) whose type is k receives the
   j-th value of block k IN BLOCK STORAGE ORDER. *)
Section Assemble.
  Variable V : Type.
  (* stable insertion sort by id *)
  Fixpoint insert_by_id {A} (x : Z * A) (l : list (Z * A)) : list (Z * A) :=
    match l with
    | [] => [x]
    | y :: tl => if Z.leb (fst y) (fst x) then y :: insert_by_id x tl else x :: y :: tl
    end.
  Definition sort_by_id {A} (l : list (Z * A)) : list (Z * A) :=
    fold_right (fun x acc => insert_by_id x acc) [] l.
  (* the fold_right above inserts later elements first, so equal ids keep
     their relative order (stable); ids are distinct in well-formed meshes *)

  (* blocks : list (type name, list (element id, value of that element computed
     from its own connectivity)) in ELEMENT_TYPES order, rows in storage order *)
  Definition slots (blocks : list (string * list (Z * V))) : list (Z * string) :=
    sort_by_id (flat_map (fun b => map (fun r => (fst r, fst b)) (snd b)) blocks).
  (* pop the next value of block k *)
  Fixpoint take_from (k : string) (st : list (string * list V)) : option (V * list (string * list V)) :=
    match st with
    | [] => None
    | (k', vs) :: tl =>
        if String.eqb k k' then
          match vs with [] => None | v :: vs' => Some (v, (k', vs') :: tl) end
        else match take_from k tl with
             | Some (v, tl') => Some (v, (k', vs) :: tl')
             | None => None
             end
    end.
  Fixpoint fill (sl : list (Z * string)) (st : list (string * list V)) : option (list (Z * V)) :=
    match sl with
    | [] => Some []
    | (i, k) :: tl =>
        match take_from k st with
        | Some (v, st') => match fill tl st' with Some r => Some ((i, v) :: r) | None => None end
        | None => None
        end
    end.
  (* what the implementation returns, paired with elements.ids *)
  Definition assemble_impl (blocks : list (string * list (Z * V))) : option (list (Z * V)) :=
    match blocks with
    | [(_, rows)] => Some rows
    | _ => fill (slots blocks) (map (fun b => (fst b, map snd (snd b))) blocks)
    end.
  (* what the property asks for: each id paired with its own value *)
  Definition assemble_spec (blocks : list (string * list (Z * V))) : list (Z * V) :=
    match blocks with
    | [(_, rows)] => rows
    | _ => sort_by_id (flat_map snd blocks)
    end.
End Assemble.
Arguments insert_by_id {A} x l. Arguments sort_by_id {A} l.
Arguments slots {V} blocks. Arguments take_from {V} k st. Arguments fill {V} sl st.
Arguments assemble_impl {V} blocks. Arguments assemble_spec {V} blocks.

(* ------------------------------------------------ rigid motions (spec, over R)
   M M^T = s^2 I  (rows pairwise orthogonal, each of squared length s^2):
   rotations and reflections (s = 1), uniform scalings (M = lambda I, s = |lambda|)
   and their compositions.  For square matrices this is equivalent to M^T M = s^2 I. *)
Definition similarity (M : m33 R) (s : R) : Prop :=
  match M with (r0, r1, r2) =>
    dot ROps r0 r0 = (s * s)%R /\ dot ROps r1 r1 = (s * s)%R /\ dot ROps r2 r2 = (s * s)%R /\
    dot ROps r0 r1 = 0%R /\ dot ROps r0 r2 = 0%R /\ dot ROps r1 r2 = 0%R end.
Definition rotation (M : m33 R) : Prop := similarity M 1 /\ mdet ROps M = 1%R.
Definition reflection (M : m33 R) : Prop := similarity M 1 /\ mdet ROps M = (-1)%R.
Definition scaling (lam : R) : m33 R := ((lam, 0, 0), (0, lam, 0), (0, 0, lam))%R.

(* four points are coplanar: the (translated) tet volume of the four points vanishes.
   Stated on the determinant so that Model.v does not depend on generated code. *)
Definition coplanar (q0 q1 q2 q3 : v3 R) : Prop :=
  det3 ROps (vsub ROps q1 q0) (vsub ROps q2 q0) (vsub ROps q3 q0) = 0%R.
