(* C11 — the public entry points calculate_element_areas / _volumes / _metrics /
   _normals as functions of (node table, element blocks), built from the
   TRANSLATED dispatch tables and kernels (gen/Kernels.v), the id -> position
   lookup and the result assembly of Model.v.  Definitions only. *)
From Coq Require Import ZArith List String Bool.
Import ListNotations.
From FV.C11 Require Import Model.
From FV.C11.gen Require Import Kernels.
Open Scope string_scope.

Fixpoint mapM {A B} (f : A -> option B) (l : list A) : option (list B) :=
  match l with
  | [] => Some []
  | a :: tl => match f a, mapM f tl with
               | Some b, Some bs => Some (b :: bs)
               | _, _ => None
               end
  end.

Fixpoint table_lookup (tbl : list ((string * string) * string)) (ty mode : string) : option string :=
  match tbl with
  | [] => None
  | ((t, m), k) :: tl => if String.eqb t ty && String.eqb m mode then Some k
                         else table_lookup tl ty mode
  end.
Fixpoint assoc (tbl : list (string * string)) (ty : string) : option string :=
  match tbl with
  | [] => None
  | (t, v) :: tl => if String.eqb t ty then Some v else assoc tl ty
  end.

Section Entry.
  Variable T : Type.
  Variable O : Ops T.
  (* how a mixed mesh's per-block results are put into one array:
     asm_impl (what the code does) or asm_spec (each id with its own value) *)
  Variable asm : forall V : Type, list (string * list (Z * V)) -> option (list (Z * V)).
  Definition node_table := list (Z * v3 T).            (* storage order *)
  Definition block := (string * list (Z * list Z))%type.  (* type, rows (id, connectivity) *)

  (* one element: kernel chosen by (type, mode); positions by id lookup *)
  Definition elem_scalar (tbl : list ((string * string) * string)) (ty mode : string)
             (nodes : node_table) (conn : list Z) : option T :=
    match table_lookup tbl ty mode with
    | Some k => match collect nodes conn with
                | Some pts => apply_scalar O k pts []
                | None => None
                end
    | None => None                                         (* NotImplementedError *)
    end.
  Definition elem_vector (tbl : list ((string * string) * string)) (ty mode : string)
             (nodes : node_table) (conn : list Z) : option (v3 T) :=
    match table_lookup tbl ty mode with
    | Some k => match collect nodes conn with
                | Some pts => apply_vector O k pts []
                | None => None
                end
    | None => None
    end.

  Definition block_values {V} (f : list Z -> option V) (rows : list (Z * list Z)) : option (list (Z * V)) :=
    mapM (fun r => option_map (pair (fst r)) (f (snd r))) rows.

  (* _validate_metric *)
  Definition tabs (v : T) : T := if ltb_ O v (zero O) then opp O v else v.
  Definition validate (raise_negative return_abs : bool) (l : list (Z * T)) : option (list (Z * T)) :=
    if raise_negative && existsb (fun r => ltb_ O (snd r) (zero O)) l then None
    else Some (if return_abs then map (fun r => (fst r, tabs (snd r))) l else l).

  Definition entry_scalar (tbl : list ((string * string) * string)) (mix_ok passes_mode : bool)
             (default_mode mode : string) (nodes : node_table) (blocks : list block)
    : option (list (Z * T)) :=
    match blocks with
    | [(ty, rows)] => block_values (elem_scalar tbl ty mode nodes) rows
    | _ => if mix_ok then
             match mapM (fun b : block =>
                           option_map (pair (fst b))
                             (block_values (elem_scalar tbl (fst b)
                                (if passes_mode then mode else default_mode) nodes) (snd b))) blocks with
             | Some vals => asm _ vals
             | None => None
             end
           else None
    end.

  Definition entry_areas (mode : string) (raise_negative return_abs : bool) nodes blocks :=
    match entry_scalar areas_table areas_mix_supported areas_mix_passes_mode areas_default_mode
                       mode nodes blocks with
    | Some l => validate raise_negative return_abs l
    | None => None
    end.
  Definition entry_volumes (mode : string) (raise_negative return_abs : bool) nodes blocks :=
    match entry_scalar volumes_table volumes_mix_supported volumes_mix_passes_mode
                       volumes_default_mode mode nodes blocks with
    | Some l => validate raise_negative return_abs l
    | None => None
    end.

  (* calculate_element_metrics: areas or volumes by type, always the default mode *)
  Definition metric_elem (ty : string) (nodes : node_table) (conn : list Z) : option T :=
    match assoc metrics_table ty with
    | Some "areas" => elem_scalar areas_table ty areas_default_mode nodes conn
    | Some "volumes" => elem_scalar volumes_table ty volumes_default_mode nodes conn
    | _ => None
    end.
  Definition entry_metrics (raise_negative return_abs : bool) (nodes : node_table) (blocks : list block)
    : option (list (Z * T)) :=
    match (match blocks with
           | [(ty, rows)] => block_values (metric_elem ty nodes) rows
           | _ => if metrics_mix_supported then
                    match mapM (fun b : block => option_map (pair (fst b))
                                  (block_values (metric_elem (fst b) nodes) (snd b))) blocks with
                    | Some vals => asm _ vals
                    | None => None
                    end
                  else None
           end) with
    | Some l => validate raise_negative return_abs l
    | None => None
    end.

  (* calculate_element_normals: kernel, then functions.normalize once more; in a mixed
     mesh the recursive call per block normalises too, then the outer call again *)
  Definition entry_normals (mode : string) (nodes : node_table) (blocks : list block)
    : option (list (Z * v3 T)) :=
    match blocks with
    | [(ty, rows)] =>
        block_values (fun c => option_map (normalize O) (elem_vector normals_table ty mode nodes c)) rows
    | _ => if normals_mix_supported then
             match mapM (fun b : block =>
                           option_map (pair (fst b))
                             (block_values (fun c => option_map (normalize O)
                                (elem_vector normals_table (fst b)
                                   (if normals_mix_passes_mode then mode else normals_default_mode) nodes c))
                                (snd b))) blocks with
             | Some vals => option_map (map (fun r => (fst r, normalize O (snd r)))) (asm _ vals)
             | None => None
             end
           else None
    end.
End Entry.

Arguments elem_scalar {T} O tbl ty mode nodes conn.
Arguments elem_vector {T} O tbl ty mode nodes conn.
Arguments block_values {V} f rows.
Arguments validate {T} O raise_negative return_abs l.
Arguments entry_scalar {T} O asm tbl mix_ok passes_mode default_mode mode nodes blocks.
Arguments entry_areas {T} O asm mode raise_negative return_abs nodes blocks.
Arguments entry_volumes {T} O asm mode raise_negative return_abs nodes blocks.
Arguments metric_elem {T} O ty nodes conn.
Arguments entry_metrics {T} O asm raise_negative return_abs nodes blocks.
Arguments entry_normals {T} O asm mode nodes blocks.

Definition asm_impl : forall V : Type, list (string * list (Z * V)) -> option (list (Z * V)) :=
  fun V b => assemble_impl b.
Definition asm_spec : forall V : Type, list (string * list (Z * V)) -> option (list (Z * V)) :=
  fun V b => Some (assemble_spec b).
(* gen/Kernels.v records, per entry point, how the mixed branch stores a block's
   results: by the type mask (asm_impl) or by element id (asm_spec) *)
Definition asm_of (by_id : bool) : forall V : Type, list (string * list (Z * V)) -> option (list (Z * V)) :=
  if by_id then asm_spec else asm_impl.
Definition impl_areas {T} (O : Ops T) := entry_areas O (asm_of areas_mix_by_id).
Definition impl_volumes {T} (O : Ops T) := entry_volumes O (asm_of volumes_mix_by_id).
Definition impl_metrics {T} (O : Ops T) := entry_metrics O (asm_of metrics_mix_by_id).
Definition impl_normals {T} (O : Ops T) := entry_normals O (asm_of normals_mix_by_id).
Definition spec_areas {T} (O : Ops T) := entry_areas O asm_spec.
Definition spec_volumes {T} (O : Ops T) := entry_volumes O asm_spec.
Definition spec_metrics {T} (O : Ops T) := entry_metrics O asm_spec.
Definition spec_normals {T} (O : Ops T) := entry_normals O asm_spec.
