(* C11 — volume kernels: vol (M p + t) = det M * vol p. *)
From Coq Require Import ZArith Reals List String Lra Nsatz Permutation Bool.
From FV.C11 Require Import Model Entry Proofs.
From FV.C11.gen Require Import Kernels.
Import ListNotations.
Open Scope R_scope.
(* no sentence of this file may hold the shared Coq build lock for long *)
Set Default Timeout 240.
(* -------------------------------------------------------- volume kernels *)
  Lemma tet_core_affine M t q0 q1 q2 q3 :
    k_element_volumes_tet_like_core ROps (aff ROps M t q0) (aff ROps M t q1) (aff ROps M t q2) (aff ROps M t q3)
    = mdet ROps M * k_element_volumes_tet_like_core ROps q0 q1 q2 q3.
  Proof. vol_tac. Qed.
  Lemma hex_with_nodes_affine M t q0 q1 q2 q3 q4 q5 q6 q7 :
    k_element_volumes_hex_with_nodes ROps (aff ROps M t q0) (aff ROps M t q1) (aff ROps M t q2) (aff ROps M t q3) (aff ROps M t q4) (aff ROps M t q5) (aff ROps M t q6) (aff ROps M t q7)
    = mdet ROps M * k_element_volumes_hex_with_nodes ROps q0 q1 q2 q3 q4 q5 q6 q7.
  Proof. vol_tac. Qed.
  Lemma tet_affine M t p0 p1 p2 p3 :
    k_element_volumes_tet_like ROps (aff ROps M t p0) (aff ROps M t p1) (aff ROps M t p2) (aff ROps M t p3)
    = mdet ROps M * k_element_volumes_tet_like ROps p0 p1 p2 p3.
  Proof. vol_tac. Qed.
  Lemma pyr_affine M t p0 p1 p2 p3 p4 :
    k_element_volumes_pyr ROps (aff ROps M t p0) (aff ROps M t p1) (aff ROps M t p2) (aff ROps M t p3) (aff ROps M t p4)
    = mdet ROps M * k_element_volumes_pyr ROps p0 p1 p2 p3 p4.
  Proof. vol_tac. Qed.
  Lemma pyr_centroid_affine M t p0 p1 p2 p3 p4 :
    k_element_volumes_pyr_centroid ROps (aff ROps M t p0) (aff ROps M t p1) (aff ROps M t p2) (aff ROps M t p3) (aff ROps M t p4)
    = mdet ROps M * k_element_volumes_pyr_centroid ROps p0 p1 p2 p3 p4.
  Proof. intros; destruct_pts; unfold_all; field. Qed.
  Lemma prism_affine M t p0 p1 p2 p3 p4 p5 :
    k_element_volumes_prism ROps (aff ROps M t p0) (aff ROps M t p1) (aff ROps M t p2) (aff ROps M t p3) (aff ROps M t p4) (aff ROps M t p5)
    = mdet ROps M * k_element_volumes_prism ROps p0 p1 p2 p3 p4 p5.
  Proof. vol_tac. Qed.
  Lemma prism_centroid_affine M t p0 p1 p2 p3 p4 p5 :
    k_element_volumes_prism_centroid ROps (aff ROps M t p0) (aff ROps M t p1) (aff ROps M t p2) (aff ROps M t p3) (aff ROps M t p4) (aff ROps M t p5)
    = mdet ROps M * k_element_volumes_prism_centroid ROps p0 p1 p2 p3 p4 p5.
  Proof. intros; destruct_pts; unfold_all; field. Qed.
  Lemma hex_affine M t p0 p1 p2 p3 p4 p5 p6 p7 :
    k_element_volumes_hex ROps (aff ROps M t p0) (aff ROps M t p1) (aff ROps M t p2) (aff ROps M t p3) (aff ROps M t p4) (aff ROps M t p5) (aff ROps M t p6) (aff ROps M t p7)
    = mdet ROps M * k_element_volumes_hex ROps p0 p1 p2 p3 p4 p5 p6 p7.
  Proof. vol_tac. Qed.
  Lemma hex_centroid_affine M t p0 p1 p2 p3 p4 p5 p6 p7 :
    k_element_volumes_hex_centroid ROps (aff ROps M t p0) (aff ROps M t p1) (aff ROps M t p2) (aff ROps M t p3) (aff ROps M t p4) (aff ROps M t p5) (aff ROps M t p6) (aff ROps M t p7)
    = mdet ROps M * k_element_volumes_hex_centroid ROps p0 p1 p2 p3 p4 p5 p6 p7.
  Proof. intros; destruct_pts; unfold_all; field. Qed.


Lemma hexprism_affine M t p0 p1 p2 p3 p4 p5 p6 p7 p8 p9 p10 p11 :
    k_element_volumes_hexprism ROps (aff ROps M t p0) (aff ROps M t p1) (aff ROps M t p2)
      (aff ROps M t p3) (aff ROps M t p4) (aff ROps M t p5) (aff ROps M t p6) (aff ROps M t p7)
      (aff ROps M t p8) (aff ROps M t p9) (aff ROps M t p10) (aff ROps M t p11)
    = mdet ROps M * k_element_volumes_hexprism ROps p0 p1 p2 p3 p4 p5 p6 p7 p8 p9 p10 p11.
  Proof. vol_tac. Qed.

(* the quad-face helper of the centroid kernels alone is linear (not translation
   invariant: only the closed sums above are) *)
Lemma quad_centroid_linear M q0 q1 q2 q3 :
  k_volumes_quad_centroid ROps (mapply ROps M q0) (mapply ROps M q1) (mapply ROps M q2) (mapply ROps M q3)
  = mdet ROps M * k_volumes_quad_centroid ROps q0 q1 q2 q3.
Proof. intros; destruct_pts; unfold_all; field. Qed.

