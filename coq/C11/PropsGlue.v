(* C11 — the glue around the kernels: `_validate_metric` (common exit of
   calculate_element_areas / _volumes / _metrics) and the stored-result slots
   ('area' / 'volume' / 'metric').  Statements only.  gen/Glue.v is regenerated from
   /repo on every run (translate/c11_glue.py); every theorem below is about the
   regenerated definitions validate_metric, slot_answers, *_slot_query, *_slot_store,
   *_cached_flags, *_final_flags. *)
From Coq Require Import ZArith QArith Reals List String Bool.
Import ListNotations.
From FV.C11 Require Import Model Entry Slot ProofsGlue.
From FV.C11.gen Require Import Glue.
Set Default Timeout 240.
Open Scope R_scope.

(* ---- _validate_metric, for every array of values and both flags: it raises iff
   raise_negative is set and some value is negative; otherwise element k of the result is
   |value k| (return_abs) or value k.  "The metric of an element depends only on its
   shape": nothing in this exit depends on the other elements of the call (no noise floor
   relative to the largest element, no normalisation by a sum ...). *)
Theorem C11_validate_metric_spec : forall (r a : bool) (l : list R),
  validate_metric ROps r a l =
  if r && existsb (fun x => Rltb x 0) l then None
  else Some (map (fun x => if a then Rabs x else x) l).
Proof. exact validate_metric_spec. Qed.
Theorem C11_validate_metric_raises : forall (r a : bool) (l : list R),
  validate_metric ROps r a l = None <-> r = true /\ exists x, In x l /\ x < 0.
Proof. exact validate_metric_raises. Qed.
(* the same element value at position k of one call and position k2 of ANOTHER call (other
   mesh, other neighbours, other sizes) comes out the same *)
Theorem C11_validate_metric_local : forall r a l1 l2 v1 v2 k x,
  validate_metric ROps r a l1 = Some v1 -> validate_metric ROps r a l2 = Some v2 ->
  nth_error l1 k = Some x -> forall k2, nth_error l2 k2 = Some x ->
  nth_error v1 k = nth_error v2 k2.
Proof. exact validate_metric_local. Qed.
Theorem C11_validate_metric_idempotent : forall r a l v,
  validate_metric ROps r a l = Some v -> validate_metric ROps r a v = Some v.
Proof. exact validate_metric_idem. Qed.
(* the `validate` of the entry-point model (Entry.v: what entry_areas / _volumes / _metrics of
   every correspondence stream end with) is the translated _validate_metric on the value column *)
Theorem C11_entry_validate_is_translated : forall r a (rows : list (Z * R)),
  validate ROps r a rows =
  option_map (fun vs => combine (map fst rows) vs) (validate_metric ROps r a (map snd rows)).
Proof. exact entry_validate_is_translated. Qed.

(* ---- stored results.  One object, ANY sequence of calls (mode, raise_negative, return_abs)
   of one entry point, any kernel results `raw` (per mode; None = the kernel raises): with the
   translated _slot_answers, option tuples and flags, call k returns exactly what a fresh
   object returns for the options of call k -- signed values after absolute ones, a raise
   after a quiet call, another mode after the first.  (Motions between calls are not part of
   this model: translation()/rotation() refuse when data are attached.) *)
Theorem C11_slot_history_areas : forall (raw : string -> option (list R)) (cs : list call),
  session slot_answers (validate_metric ROps) areas_slot_query areas_slot_store
          areas_cached_flags areas_final_flags raw None cs
  = map (spec_answer (validate_metric ROps) raw) cs.
Proof. exact areas_history. Qed.
Theorem C11_slot_history_volumes : forall (raw : string -> option (list R)) (cs : list call),
  session slot_answers (validate_metric ROps) volumes_slot_query volumes_slot_store
          volumes_cached_flags volumes_final_flags raw None cs
  = map (spec_answer (validate_metric ROps) raw) cs.
Proof. exact volumes_history. Qed.
(* calculate_element_metrics takes no mode: its kernel results are one array r0 *)
Theorem C11_slot_history_metrics : forall (r0 : option (list R)) (cs : list call),
  session slot_answers (validate_metric ROps) metrics_slot_query metrics_slot_store
          metrics_cached_flags metrics_final_flags (fun _ => r0) None cs
  = map (spec_answer (validate_metric ROps) (fun _ => r0)) cs.
Proof. exact metrics_history. Qed.

(* ---- functions.normalize + config.EPSILON as translated (keep_zeros=False, the way
   calculate_element_normals and the normal kernels call it) is Model.normalize, the function
   C11_normalize_rotation and the C11_normal_rotation_* theorems of Props.v are about *)
Theorem C11_normalize_translated_is_model : forall a : v3 R,
  normalize_t ROps false a = normalize ROps a.
Proof. exact normalize_translated_is_model. Qed.

(* non-vacuity (executed over Q): a mirrored mesh with signed values -1, -1, -2; absolute,
   then signed, then raise_negative on one object: three different answers, the session
   model gives each call its own; and a slot that ignored return_abs would not *)
Open Scope Q_scope.
Example C11_slot_history_example :
  session slot_answers (validate_metric QOps) metrics_slot_query metrics_slot_store
          metrics_cached_flags metrics_final_flags
          (fun _ => Some [-1#1; -1#1; -2#1]) None
          [mkCall "" false true; mkCall "" false false; mkCall "" true false; mkCall "" false true]
  = [Some [1#1; 1#1; 2#1]; Some [-1#1; -1#1; -2#1]; None; Some [1#1; 1#1; 2#1]].
Proof. vm_compute. reflexivity. Qed.
Example C11_slot_ignoring_abs_is_wrong :
  session (fun st o => match st with None => true | Some s => optl_eqb (firstn 1 s) (firstn 1 o) end)
          (validate_metric QOps) metrics_slot_query metrics_slot_store
          metrics_cached_flags metrics_final_flags
          (fun _ => Some [-1#1; -1#1; -2#1]) None
          [mkCall "" false true; mkCall "" false false]
  <> map (spec_answer (validate_metric QOps) (fun _ => Some [-1#1; -1#1; -2#1]))
         [mkCall "" false true; mkCall "" false false].
Proof. vm_compute. intros H. discriminate H. Qed.
Example C11_normalize_example :     (* 3-4-0 vector -> unit; a vector shorter than EPSILON is divided by EPSILON *)
  normalize_t QOps false (3#1, 4#1, 0#1) = (3#5, 4#5, 0#1) /\
  normalize_t QOps false (1#1000000, 0#1, 0#1) = (1#10, 0#1, 0#1).
Proof. vm_compute. split; reflexivity. Qed.
Example C11_validate_example :
  validate_metric QOps false true [3#1; -5#2; 0#1] = Some [3#1; 5#2; 0#1] /\
  validate_metric QOps true false [3#1; -5#2] = None /\
  validate_metric QOps true false [3#1; 1#1000000000000000000000] = Some [3#1; 1#1000000000000000000000].
Proof. vm_compute. repeat split; reflexivity. Qed.
