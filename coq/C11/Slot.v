(* C11 — the stored-result slots ('area' / 'volume' / 'metric') of
   calculate_element_areas / _volumes / _metrics as a state machine over option
   histories on ONE object.  Definitions only.  The pieces that are code
   (`_validate_metric`, `_slot_answers`, the option tuples each entry point
   compares and stores, the flags handed to `_validate_metric`) are parameters
   here and are instantiated with the TRANSLATED definitions of gen/Glue.v. *)
From Coq Require Import ZArith List String Bool.
Import ListNotations.
From FV.C11 Require Import Model.
Open Scope string_scope.

(* numpy.abs on one value *)
Definition mabs {T} (O : Ops T) (v : T) : T := if ltb_ O v (zero O) then opp O v else v.

(* an option tuple: (mode, raise_negative_X, return_abs_X) or (raise_negative_metric, return_abs_metric) *)
Inductive field := FMode | FRaise | FAbs.
Inductive optv := OMode (s : string) | OFlag (b : bool).
Definition optv_eqb (a b : optv) : bool :=
  match a, b with
  | OMode s, OMode t => String.eqb s t
  | OFlag x, OFlag y => Bool.eqb x y
  | _, _ => false
  end.
Fixpoint optl_eqb (a b : list optv) : bool :=     (* tuple == tuple *)
  match a, b with
  | [], [] => true
  | x :: a', y :: b' => optv_eqb x y && optl_eqb a' b'
  | _, _ => false
  end.

(* one call of an entry point on the whole mesh *)
Record call := mkCall { c_mode : string; c_raise : bool; c_abs : bool }.
Definition proj1f (c : call) (f : field) : optv :=
  match f with FMode => OMode (c_mode c) | FRaise => OFlag (c_raise c) | FAbs => OFlag (c_abs c) end.
Definition proj (fs : list field) (c : call) : list optv := map (proj1f c) fs.
Definition flag (c : call) (f : field) : bool :=
  match f with FRaise => c_raise c | FAbs => c_abs c | FMode => false end.

Section Session.
  Variable V : Type.                                        (* the array of per-element values *)
  Variable answers : option (list optv) -> list optv -> bool.       (* _slot_answers *)
  Variable validate : bool -> bool -> V -> option V.                (* _validate_metric; None = raises *)
  Variable q_fields s_fields : list field.                  (* tuple compared / tuple stored *)
  Variable cached_flags final_flags : field * field.        (* flags given to _validate_metric *)
  Variable raw : string -> option V.      (* mode -> unvalidated kernel results (None = raises) *)

  Definition validated (ff : field * field) (c : call) (l : V) : option V :=
    validate (flag c (fst ff)) (flag c (snd ff)) l.
  (* None: nothing stored by these methods yet; Some (options, values) *)
  Definition state := option (list optv * V).
  (* compute, validate, store (update=True, whole mesh); an exception stores nothing *)
  Definition run (st : state) (c : call) : option V * state :=
    match raw (c_mode c) with
    | Some l => match validated final_flags c l with
                | Some v => (Some v, Some (proj s_fields c, v))
                | None => (None, st)
                end
    | None => (None, st)
    end.
  Definition step (st : state) (c : call) : option V * state :=
    match st with
    | Some (so, sv) =>
        if answers (Some so) (proj q_fields c)
        then (validated cached_flags c sv, st)              (* answered from the slot *)
        else run st c
    | None => run st c
    end.
  Fixpoint session (st : state) (cs : list call) : list (option V) :=
    match cs with
    | [] => []
    | c :: tl => fst (step st c) :: session (snd (step st c)) tl
    end.
  (* specification: every call is answered as on a fresh object, for its own options *)
  Definition spec_answer (c : call) : option V :=
    match raw (c_mode c) with
    | Some l => validate (c_raise c) (c_abs c) l
    | None => None
    end.
End Session.

Arguments session {V} answers validate q_fields s_fields cached_flags final_flags raw st cs.
Arguments spec_answer {V} validate raw c.
Arguments step {V} answers validate q_fields s_fields cached_flags final_flags raw st c.
Arguments run {V} validate s_fields final_flags raw st c.
