(* C09 — cut_with_element_ids on a mesh whose polyhedron elements carry the
   'face' variable (fem_data.py: "convert face data"): the variable is filtered
   like every elemental variable (FEMElementalAttribute.filter_with_ids) and
   the rows of its 'polyhedron' block are then renumbered by
   convert_polyhedron(self.nodes.ids, node_ids, row).  Definitions only. *)
From Coq Require Import ZArith List Bool Arith.
Import ListNotations.
From FV.C09 Require Import Table AttrModel Model PolyModel.

Definition POLY : nat := 17.      (* index of 'polyhedron' in ELEMENT_TYPES *)

Definition convert_rows (now new : list Z) (tb : table (list Z)) : option (table (list Z)) :=
  mapM (fun e => option_map (pair (fst e)) (convert_polyhedron now new (snd e))) tb.

Definition convert_block (now new : list Z) (b : nat * table (list Z)) : option (nat * table (list Z)) :=
  if Nat.eqb (fst b) POLY then option_map (pair (fst b)) (convert_rows now new (snd b)) else Some b.

Section PolyCut.
Context {V : Type}.

(* the cut mesh and the 'face' variable of the cut mesh; None = raises *)
Definition cut_face (m : mesh V) (face : @blocks (list Z)) (sel : list Z)
  : option (mesh V * @blocks (list Z)) :=
  match cut_with_element_ids m sel with
  | None => None
  | Some m' =>
      option_map (pair m') (mapM (convert_block (ids (nodes m)) (ids (nodes m'))) (efilter face sel))
  end.

(* the face variable fits the mesh: one row per element id; a polyhedron row
   decodes on the node table of the mesh, and its faces use nodes of that
   element only *)
Definition face_wf (m : mesh V) (face : @blocks (list Z)) : Prop :=
  NoDup (ids (flatten face)) /\
  forall i row, In (i, (POLY, row)) (flatten face) ->
    exists fs t c, faces_of (ids (nodes m)) row = Some fs /\
                   In (i, (t, c)) (flatten (elems m)) /\
                   forall n, In n (concat fs) -> In n c.
End PolyCut.
