(* VENDORED COPY for C09 of coq/C08/Table.v as committed at /verif e7efffc (the C08 development is edited in
   parallel by its own builder; C09 builds only from its own directory so that an edit there cannot
   break or silently change C09's model).  The part C09 uses (tables, blocks, efilter, update_self) is
   tied to the implementation by C09's own correspondence. *)
(* Id-keyed tables (shared by C08 and C09): a table is a list of (id, row) in
   storage order.  Definitions and the basic facts about lookup by id,
   position of an id, selection by ids / by positions, row overwrite and
   sorting by id.  V (the row type) is opaque: the library never inspects it. *)
From Coq Require Import ZArith List Bool Arith Lia Permutation Sorted.
Import ListNotations.
Open Scope Z_scope.

Section Table.
Context {V : Type}.

Definition table := list (Z * V).
Definition ids (t : table) : list Z := map fst t.
Definition vals (t : table) : list V := map snd t.

Fixpoint lookup (i : Z) (t : table) : option V :=
  match t with
  | [] => None
  | (j, v) :: r => if Z.eqb i j then Some v else lookup i r
  end.

(* set the row of the first entry with id i (no effect when absent) *)
Fixpoint set_row (i : Z) (v : V) (t : table) : table :=
  match t with
  | [] => []
  | (j, w) :: r => if Z.eqb i j then (j, v) :: r else (j, w) :: set_row i v r
  end.

(* rows written one after another: the last write to an id wins *)
Definition set_rows (new : table) (t : table) : table :=
  fold_left (fun t iv => set_row (fst iv) (snd iv) t) new t.

End Table.
Arguments table V : clear implicits.

Fixpoint memZ (i : Z) (l : list Z) : bool :=
  match l with [] => false | j :: r => Z.eqb i j || memZ i r end.

Fixpoint nodupZ (l : list Z) : bool :=
  match l with [] => true | j :: r => negb (memZ j r) && nodupZ r end.

(* position of the first occurrence *)
Fixpoint pos (i : Z) (l : list Z) : option nat :=
  match l with
  | [] => None
  | j :: r => if Z.eqb i j then Some 0%nat else option_map S (pos i r)
  end.

Fixpoint mapM {A B} (f : A -> option B) (l : list A) : option (list B) :=
  match l with
  | [] => Some []
  | a :: r => match f a, mapM f r with
              | Some b, Some bs => Some (b :: bs)
              | _, _ => None
              end
  end.

Fixpoint enumerate_from (k : nat) (l : list Z) : list (Z * nat) :=
  match l with [] => [] | i :: r => (i, k) :: enumerate_from (S k) r end.
Definition enumerate (l : list Z) := enumerate_from 0 l.

Section Select.
Context {V : Type}.
(* .loc[sel] : rows in the order requested; None when an id is missing *)
Definition select_ids (sel : list Z) (t : table V) : option (table V) :=
  mapM (fun i => option_map (pair i) (lookup i t)) sel.
(* .iloc[ks] *)
Definition select_pos (ks : list nat) (t : table V) : option (table V) :=
  mapM (fun k => nth_error t k) ks.

(* insertion sort by id (stable) *)
Fixpoint insert_by_id (x : Z * V) (t : table V) : table V :=
  match t with
  | [] => [x]
  | y :: r => if Z.leb (fst x) (fst y) then x :: y :: r else y :: insert_by_id x r
  end.
Fixpoint sort_by_id (t : table V) : table V :=
  match t with [] => [] | x :: r => insert_by_id x (sort_by_id r) end.
End Select.

(* np.unique / np.intersect1d order: ascending, duplicates removed *)
Fixpoint insertZ (x : Z) (l : list Z) : list Z :=
  match l with
  | [] => [x]
  | y :: r => if Z.ltb x y then x :: l else if Z.eqb x y then l else y :: insertZ x r
  end.
Definition uniqueZ (l : list Z) : list Z := fold_right insertZ [] l.

Fixpoint sortedZ (l : list Z) : bool :=
  match l with
  | [] => true
  | i :: r => match r with [] => true | j :: _ => Z.ltb i j && sortedZ r end
  end.

(* ------------------------------------------------------------------ facts *)
Lemma memZ_In i l : memZ i l = true <-> In i l.
Proof.
  induction l as [|j r IH]; simpl; [split; [discriminate|tauto]|].
  rewrite orb_true_iff, IH, Z.eqb_eq. split; intros [H|H]; auto.
Qed.

Lemma memZ_false i l : memZ i l = false <-> ~ In i l.
Proof. rewrite <- memZ_In. destruct (memZ i l); split; congruence. Qed.

Lemma nodupZ_NoDup l : nodupZ l = true <-> NoDup l.
Proof.
  induction l as [|j r IH]; simpl; [split; [constructor|reflexivity]|].
  rewrite andb_true_iff, negb_true_iff, memZ_false, IH.
  split; [intros [A B]; constructor; auto | intros H; inversion H; auto].
Qed.

Lemma mapM_length {A B} (f : A -> option B) l r : mapM f l = Some r -> length r = length l.
Proof.
  revert r; induction l as [|a l IH]; simpl; intros r H.
  - inversion H; reflexivity.
  - destruct (f a); [|discriminate]. destruct (mapM f l); [|discriminate].
    inversion H; simpl; f_equal; auto.
Qed.

Lemma mapM_nth {A B} (f : A -> option B) l r : mapM f l = Some r ->
  forall k a, nth_error l k = Some a -> exists b, f a = Some b /\ nth_error r k = Some b.
Proof.
  revert r; induction l as [|x l IH]; simpl; intros r H k a Hk.
  - destruct k; discriminate.
  - destruct (f x) eqn:Fx; [|discriminate]. destruct (mapM f l) eqn:M; [|discriminate].
    inversion H; subst. destruct k; simpl in *.
    + inversion Hk; subst. eauto.
    + eapply IH; eauto.
Qed.

Lemma mapM_Some_all {A B} (f : A -> option B) l :
  (forall a, In a l -> f a <> None) -> exists r, mapM f l = Some r.
Proof.
  induction l as [|x l IH]; simpl; intros H; [eauto|].
  destruct (f x) eqn:Fx; [|exfalso; eapply H; eauto].
  destruct IH as [r Hr]; [intros; apply H; auto|]. rewrite Hr; eauto.
Qed.

Lemma mapM_ext {A B} (f g : A -> option B) l :
  (forall a, In a l -> f a = g a) -> mapM f l = mapM g l.
Proof.
  induction l as [|x l IH]; simpl; intros H; [reflexivity|].
  rewrite (H x), IH; auto.
Qed.

Lemma mapM_map {A B C} (f : A -> option B) (g : B -> C) l r :
  mapM f l = Some r -> mapM (fun a => option_map g (f a)) l = Some (map g r).
Proof.
  revert r; induction l as [|x l IH]; simpl; intros r H.
  - inversion H; reflexivity.
  - destruct (f x); [|discriminate]. destruct (mapM f l); [|discriminate].
    inversion H; subst; simpl. rewrite (IH l0 eq_refl). reflexivity.
Qed.

Section Facts.
Context {V : Type}.
Implicit Types t : table V.

Lemma ids_length t : length (ids t) = length t.
Proof. apply map_length. Qed.
Lemma vals_length t : length (vals t) = length t.
Proof. apply map_length. Qed.

Lemma combine_ids_vals t : combine (ids t) (vals t) = t.
Proof. induction t as [|[i v] r IH]; simpl; [|rewrite IH]; reflexivity. Qed.

Lemma ids_combine (l : list Z) (d : list V) : length l = length d -> ids (combine l d) = l.
Proof.
  revert d; induction l as [|i l IH]; intros [|v d]; simpl; intros H; try discriminate; auto.
  f_equal; apply IH; lia.
Qed.
Lemma vals_combine (l : list Z) (d : list V) : length l = length d -> vals (combine l d) = d.
Proof.
  revert d; induction l as [|i l IH]; intros [|v d]; simpl; intros H; try discriminate; auto.
  f_equal; apply IH; lia.
Qed.

Lemma lookup_In i v t : lookup i t = Some v -> In (i, v) t.
Proof.
  induction t as [|[j w] r IH]; simpl; [discriminate|].
  destruct (Z.eqb_spec i j); intros H; [inversion H; subst; auto | auto].
Qed.

Lemma lookup_None i t : lookup i t = None <-> ~ In i (ids t).
Proof.
  induction t as [|[j w] r IH]; simpl; [tauto|].
  destruct (Z.eqb_spec i j); [split; [discriminate | intros H; exfalso; apply H; auto]|].
  rewrite IH. split; intros H; [intros [E|E]; [congruence|auto] | auto].
Qed.

Lemma In_lookup i v t : NoDup (ids t) -> In (i, v) t -> lookup i t = Some v.
Proof.
  induction t as [|[j w] r IH]; simpl; [tauto|]. intros ND [E|E].
  - inversion E; subst. rewrite Z.eqb_refl; reflexivity.
  - inversion ND; subst. destruct (Z.eqb_spec i j).
    + subst. exfalso. apply H1. change j with (fst (j, v)). apply in_map; exact E.
    + auto.
Qed.

(* position k holds id i and row v  <->  lookup by id finds v (ids distinct) *)
Lemma nth_lookup k i v t : NoDup (ids t) -> nth_error t k = Some (i, v) -> lookup i t = Some v.
Proof. intros ND H. apply In_lookup; auto. eapply nth_error_In; eauto. Qed.

Lemma pos_nth i l k : pos i l = Some k -> nth_error l k = Some i.
Proof.
  revert k; induction l as [|j r IH]; simpl; intros k; [discriminate|].
  destruct (Z.eqb_spec i j); intros H.
  - inversion H; subst; reflexivity.
  - destruct (pos i r); [|discriminate]. inversion H; subst; simpl; auto.
Qed.

Lemma nth_pos i l k : NoDup l -> nth_error l k = Some i -> pos i l = Some k.
Proof.
  revert k; induction l as [|j r IH]; intros k ND H; [destruct k; discriminate|].
  inversion ND; subst. destruct k; simpl in *.
  - inversion H; subst. rewrite Z.eqb_refl; reflexivity.
  - destruct (Z.eqb_spec i j).
    + subst. exfalso; apply H2. eapply nth_error_In; eauto.
    + rewrite (IH k); auto.
Qed.

Lemma pos_None i l : pos i l = None <-> ~ In i l.
Proof.
  induction l as [|j r IH]; simpl; [tauto|].
  destruct (Z.eqb_spec i j); [split; [discriminate|intros H; exfalso; auto]|].
  destruct (pos i r); simpl.
  - split; [discriminate|]. intros H. exfalso.
    destruct (in_dec Z.eq_dec i r) as [Hin|Hin]; [apply H; auto|].
    apply IH in Hin. discriminate.
  - split; auto. intros _ [E|E]; [congruence|]. apply IH in E; auto.
Qed.

Lemma lookup_enumerate_from i l k0 :
  lookup i (enumerate_from k0 l) = option_map (fun k => (k0 + k)%nat) (pos i l).
Proof.
  revert k0; induction l as [|j r IH]; intros k0; simpl; [reflexivity|].
  destruct (Z.eqb_spec i j); simpl; [f_equal; lia|].
  rewrite IH. destruct (pos i r); simpl; [f_equal; lia | reflexivity].
Qed.

Lemma lookup_enumerate i l : lookup i (enumerate l) = pos i l.
Proof.
  unfold enumerate. rewrite lookup_enumerate_from. destruct (pos i l); reflexivity.
Qed.

Lemma nth_ids k t : nth_error (ids t) k = option_map fst (nth_error t k).
Proof. unfold ids. apply nth_error_map. Qed.
Lemma nth_vals k t : nth_error (vals t) k = option_map snd (nth_error t k).
Proof. unfold vals. apply nth_error_map. Qed.

(* ---- selection by ids ---- *)
Lemma select_ids_ids sel t r : select_ids sel t = Some r -> ids r = sel.
Proof.
  unfold select_ids. revert r; induction sel as [|i sel IH]; simpl; intros r H.
  - inversion H; reflexivity.
  - destruct (lookup i t); simpl in H; [|discriminate].
    destruct (mapM _ sel); [|discriminate]. inversion H; subst; simpl. f_equal; auto.
Qed.

Lemma select_ids_rows sel t r : select_ids sel t = Some r ->
  forall i v, In (i, v) r -> lookup i t = Some v.
Proof.
  unfold select_ids. revert r; induction sel as [|j sel IH]; simpl; intros r H i v Hin.
  - inversion H; subst; destruct Hin.
  - destruct (lookup j t) eqn:L; simpl in H; [|discriminate].
    destruct (mapM _ sel); [|discriminate]. inversion H; subst.
    destruct Hin as [E|E]; [inversion E; subst; auto | eapply IH; eauto].
Qed.

Lemma select_ids_lookup sel t r : select_ids sel t = Some r ->
  forall i, In i sel -> lookup i r = lookup i t.
Proof.
  unfold select_ids. revert r; induction sel as [|j sel IH]; simpl; intros r H i Hin; [tauto|].
  destruct (lookup j t) eqn:L; simpl in H; [|discriminate].
  destruct (mapM _ sel) eqn:M; [|discriminate]. inversion H; subst; simpl.
  destruct (Z.eqb_spec i j); [subst; auto|].
  destruct Hin as [E|E]; [congruence|]. eapply IH; eauto.
Qed.

Lemma select_ids_defined sel t :
  (exists r, select_ids sel t = Some r) <-> (forall i, In i sel -> In i (ids t)).
Proof.
  split.
  - intros [r H] i Hin. unfold select_ids in H.
    destruct (In_nth_error _ _ Hin) as [k Hk].
    destruct (mapM_nth _ _ _ H k i Hk) as [b [Hb _]].
    destruct (lookup i t) eqn:L; [|discriminate].
    apply lookup_In in L. change i with (fst (i, v)). apply in_map; auto.
  - intros H. apply mapM_Some_all. intros i Hin E.
    destruct (lookup i t) eqn:L; [discriminate|]. apply lookup_None in L. auto.
Qed.

Lemma select_ids_singleton i t : select_ids [i] t = option_map (fun v => [(i, v)]) (lookup i t).
Proof. unfold select_ids; simpl. destruct (lookup i t); reflexivity. Qed.

(* ---- selection by positions ---- *)
Lemma select_pos_singleton k t : select_pos [k] t = option_map (fun x => [x]) (nth_error t k).
Proof. unfold select_pos; simpl. destruct (nth_error t k); reflexivity. Qed.

(* positions obtained by translating ids select the same rows as the ids do *)
Lemma select_pos_of_ids sel t ks : NoDup (ids t) ->
  mapM (fun i => pos i (ids t)) sel = Some ks -> select_pos ks t = select_ids sel t.
Proof.
  intros ND. unfold select_pos, select_ids.
  revert ks; induction sel as [|i sel IH]; simpl; intros ks H.
  - inversion H; reflexivity.
  - destruct (pos i (ids t)) eqn:P; [|discriminate].
    destruct (mapM _ sel) eqn:M; [|discriminate]. inversion H; subst; simpl.
    rewrite (IH l eq_refl).
    apply pos_nth in P. rewrite nth_ids in P.
    destruct (nth_error t n) as [[j v]|] eqn:N; [|discriminate]. simpl in P. inversion P; subst.
    rewrite (nth_lookup _ _ _ _ ND N). reflexivity.
Qed.

(* ---- row overwrite ---- *)
Lemma set_row_ids i v t : ids (set_row i v t) = ids t.
Proof.
  induction t as [|[j w] r IH]; simpl; [reflexivity|].
  destruct (Z.eqb i j); simpl; [|rewrite IH]; reflexivity.
Qed.

Lemma set_rows_ids new t : ids (set_rows new t) = ids t.
Proof.
  unfold set_rows. revert t; induction new as [|[i v] new IH]; intros t; simpl; [reflexivity|].
  rewrite IH. apply set_row_ids.
Qed.

Lemma lookup_set_row_same i v t : In i (ids t) -> lookup i (set_row i v t) = Some v.
Proof.
  induction t as [|[j w] r IH]; simpl; [tauto|]. intros H.
  destruct (Z.eqb_spec i j); simpl.
  - rewrite (proj2 (Z.eqb_eq i j)); auto.
  - destruct (Z.eqb_spec i j); [congruence|]. apply IH. destruct H; [congruence|auto].
Qed.

Lemma lookup_set_row_other i j v t : i <> j -> lookup i (set_row j v t) = lookup i t.
Proof.
  intros Hn. induction t as [|[k w] r IH]; simpl; [reflexivity|].
  destruct (Z.eqb_spec j k); simpl.
  - subst. destruct (Z.eqb_spec i k); [congruence|reflexivity].
  - destruct (Z.eqb_spec i k); auto.
Qed.

(* after writing the table `new` (distinct ids, all present) through, every
   written id holds its new row and every other id keeps its row *)
Lemma lookup_set_rows new t i : NoDup (ids new) -> (forall j, In j (ids new) -> In j (ids t)) ->
  lookup i (set_rows new t) = match lookup i new with Some v => Some v | None => lookup i t end.
Proof.
  unfold set_rows. revert t; induction new as [|[j v] new IH]; intros t ND Hsub; simpl; [reflexivity|].
  inversion ND; subst.
  rewrite IH; auto.
  - destruct (Z.eqb_spec i j).
    + subst. destruct (lookup j new) eqn:L.
      * exfalso. apply H1. apply lookup_In in L. change j with (fst (j, v0)). apply in_map; auto.
      * apply lookup_set_row_same. apply Hsub; simpl; auto.
    + destruct (lookup i new); [reflexivity|]. apply lookup_set_row_other; auto.
  - intros k Hk. rewrite set_row_ids. apply Hsub; simpl; auto.
Qed.

(* ---- sorting by id ---- *)
Lemma insert_perm x t : Permutation (x :: t) (insert_by_id x t).
Proof.
  induction t as [|y r IH]; simpl; [reflexivity|].
  destruct (Z.leb (fst x) (fst y)); [reflexivity|].
  rewrite perm_swap. constructor. exact IH.
Qed.

Lemma sort_perm t : Permutation t (sort_by_id t).
Proof.
  induction t as [|x r IH]; simpl; [constructor|].
  rewrite <- insert_perm. constructor; exact IH.
Qed.

Definition le_id (a b : Z * V) := fst a <= fst b.

Lemma insert_sorted x t : StronglySorted le_id t -> StronglySorted le_id (insert_by_id x t).
Proof.
  induction 1 as [|y r S IH F]; simpl; [repeat constructor|].
  destruct (Z.leb_spec (fst x) (fst y)).
  - constructor; [constructor; auto|]. constructor; [exact H|].
    eapply Forall_impl; [|exact F]. unfold le_id; intros; lia.
  - constructor; [exact IH|].
    rewrite <- insert_perm. constructor; [unfold le_id; lia | exact F].
Qed.

Lemma sort_sorted t : StronglySorted le_id (sort_by_id t).
Proof. induction t; simpl; [constructor | apply insert_sorted; auto]. Qed.

Lemma sort_ids_perm t : Permutation (ids t) (ids (sort_by_id t)).
Proof. unfold ids. apply Permutation_map. apply sort_perm. Qed.

Lemma sort_NoDup t : NoDup (ids t) -> NoDup (ids (sort_by_id t)).
Proof. intros H. eapply Permutation_NoDup; [apply sort_ids_perm|exact H]. Qed.

Lemma lookup_perm t t' i : NoDup (ids t) -> Permutation t t' -> lookup i t' = lookup i t.
Proof.
  intros ND P.
  assert (ND' : NoDup (ids t')) by (eapply Permutation_NoDup; [apply Permutation_map; exact P|exact ND]).
  destruct (lookup i t) eqn:L.
  - apply In_lookup; auto. eapply Permutation_in; [exact P|]. apply lookup_In; auto.
  - apply lookup_None. apply lookup_None in L. intros H. apply L.
    eapply Permutation_in; [apply Permutation_sym, Permutation_map; exact P|exact H].
Qed.

Lemma lookup_sort t i : NoDup (ids t) -> lookup i (sort_by_id t) = lookup i t.
Proof. intros; apply lookup_perm; auto. apply sort_perm. Qed.

(* distinct ids: the sorted id list is strictly ascending *)
Lemma sorted_nodup_strict (l : list Z) :
  StronglySorted Z.le l -> NoDup l -> StronglySorted Z.lt l.
Proof.
  induction 1 as [|x r S IH F]; intros ND; [constructor|].
  inversion ND; subst. constructor; [auto|].
  rewrite Forall_forall in *. intros y Hy. specialize (F y Hy).
  assert (x <> y) by (intros ->; auto). lia.
Qed.

Lemma sort_ids_sorted t : StronglySorted Z.le (ids (sort_by_id t)).
Proof.
  generalize (sort_sorted t). generalize (sort_by_id t). intros s H.
  induction H as [|x r S IH F]; simpl; constructor; auto.
  rewrite Forall_forall in *. intros y Hy. apply in_map_iff in Hy.
  destruct Hy as [z [E Hz]]; subst. apply (F z Hz).
Qed.

Lemma sort_ids_strict t : NoDup (ids t) -> StronglySorted Z.lt (ids (sort_by_id t)).
Proof. intros. apply sorted_nodup_strict; [apply sort_ids_sorted | apply sort_NoDup; auto]. Qed.

End Facts.

Lemma sortedZ_strict l : sortedZ l = true <-> StronglySorted Z.lt l.
Proof.
  induction l as [|i r IH]; [split; [constructor|reflexivity]|].
  destruct r as [|j r'].
  - split; [repeat constructor|reflexivity].
  - change (sortedZ (i :: j :: r')) with (Z.ltb i j && sortedZ (j :: r')).
    rewrite andb_true_iff, IH, Z.ltb_lt. split.
    + intros [L S]. constructor; auto. inversion S; subst. constructor; auto.
      eapply Forall_impl; [|eassumption]. intros; lia.
    + intros S. inversion S; subst. inversion H2; subst. auto.
Qed.

(* ------------------------------------------------------------ np.unique *)
Lemma insertZ_In x y l : In y (insertZ x l) <-> y = x \/ In y l.
Proof.
  induction l as [|z r IH]; simpl; [intuition|].
  destruct (Z.ltb_spec x z); simpl; [intuition|].
  destruct (Z.eqb_spec x z); simpl.
  - subst. intuition.
  - rewrite IH. intuition.
Qed.

Lemma uniqueZ_In x l : In x (uniqueZ l) <-> In x l.
Proof.
  unfold uniqueZ. induction l as [|y r IH]; simpl; [tauto|].
  rewrite insertZ_In, IH. intuition.
Qed.

Lemma insertZ_sorted x l : StronglySorted Z.lt l -> StronglySorted Z.lt (insertZ x l).
Proof.
  induction 1 as [|y r S IH F]; simpl; [repeat constructor|].
  destruct (Z.ltb_spec x y).
  - constructor; [constructor; auto|]. constructor; auto.
    eapply Forall_impl; [|exact F]. intros; lia.
  - destruct (Z.eqb_spec x y); [constructor; auto|].
    constructor; auto. rewrite Forall_forall in *. intros z Hz.
    apply insertZ_In in Hz. destruct Hz as [->|Hz]; [lia|auto].
Qed.

Lemma uniqueZ_sorted l : StronglySorted Z.lt (uniqueZ l).
Proof. unfold uniqueZ. induction l; simpl; [constructor|apply insertZ_sorted; auto]. Qed.

Lemma sorted_lt_NoDup l : StronglySorted Z.lt l -> NoDup l.
Proof.
  induction 1 as [|x r S IH F]; constructor; auto.
  intros Hin. rewrite Forall_forall in F. specialize (F x Hin). lia.
Qed.

Lemma uniqueZ_NoDup l : NoDup (uniqueZ l).
Proof. apply sorted_lt_NoDup, uniqueZ_sorted. Qed.

