(* C09 — proofs about convert_polyhedron (PolyModel.v) and the element part
   of to_first_order. *)
From Coq Require Import ZArith List Bool Arith Lia Sorted.
Import ListNotations.
From FV.C09 Require Import Table AttrModel Model Proofs PolyModel.
Local Open Scope Z_scope.

Lemma nthZ_of_nat l n : nthZ l (Z.of_nat n) = nth_error l n.
Proof.
  unfold nthZ. destruct (Z.ltb_spec (Z.of_nat n) 0); [lia|]. now rewrite Nat2Z.id.
Qed.

Lemma filter_lt_none x r : (forall y, In y r -> x < y) -> filter (fun y => y <? x) r = [].
Proof.
  induction r as [|a r IH]; intros H; simpl; [reflexivity|].
  destruct (Z.ltb_spec a x) as [L|L].
  - specialize (H a (or_introl eq_refl)). lia.
  - apply IH. intros y Hy. apply H. now right.
Qed.

(* searchsorted finds the position of an id that is present *)
Lemma searchsorted_nth new v : StronglySorted Z.lt new -> In v new ->
  nthZ new (searchsorted new v) = Some v.
Proof.
  unfold searchsorted. rewrite nthZ_of_nat.
  induction new as [|x r IH]; intros S Hin; [destruct Hin|].
  inversion S as [|? ? Sr Hx]; subst. rewrite Forall_forall in Hx. simpl.
  destruct Hin as [E|Hin].
  - subst v. destruct (Z.ltb_spec x x); [lia|]. rewrite filter_lt_none by exact Hx. reflexivity.
  - specialize (Hx v Hin). destruct (Z.ltb_spec x v); [|lia]. simpl. apply IH; assumption.
Qed.

Lemma mapM_searchsorted new idl : StronglySorted Z.lt new -> (forall i, In i idl -> In i new) ->
  mapM (nthZ new) (map (searchsorted new) idl) = Some idl.
Proof.
  intros S. induction idl as [|a l IH]; intros H; simpl; [reflexivity|].
  rewrite searchsorted_nth by (auto; apply H; now left).
  rewrite IH by (intros i Hi; apply H; now right). reflexivity.
Qed.

Lemma firstn_app_exact {A} (a b : list A) n : length a = n -> firstn n (a ++ b) = a.
Proof. intros <-. rewrite firstn_app, Nat.sub_diag, firstn_all. simpl. apply app_nil_r. Qed.

Lemma skipn_app_exact {A} (a b : list A) n : length a = n -> skipn n (a ++ b) = b.
Proof. intros <-. rewrite skipn_app, Nat.sub_diag, skipn_all. reflexivity. Qed.

Lemma conv_faces_spec now new : StronglySorted Z.lt new ->
  forall m poly poly' fs,
    conv_faces now new m poly = Some poly' -> face_ids now m poly = Some fs ->
    (forall i, In i (concat fs) -> In i new) ->
    face_ids new m poly' = Some fs /\ length poly' = length poly.
Proof.
  intros S. induction m as [|m IH]; intros poly poly' fs C F Hin; simpl in *.
  - inversion C; inversion F; subst. split; reflexivity.
  - destruct poly as [|k rest]; [discriminate|].
    destruct ((k <? 0) || (Z.of_nat (length rest) <? k)) eqn:G; [discriminate|].
    apply orb_false_iff in G. destruct G as [G1 G2].
    apply Z.ltb_ge in G1. apply Z.ltb_ge in G2.
    destruct (mapM (nthZ now) (firstn (Z.to_nat k) rest)) as [idl|] eqn:M; [|discriminate].
    destruct (conv_faces now new m (skipn (Z.to_nat k) rest)) as [r|] eqn:C'; [|discriminate].
    destruct (face_ids now m (skipn (Z.to_nat k) rest)) as [fs'|] eqn:F'; [|discriminate].
    inversion C; inversion F; subst; clear C F.
    assert (Lk : length (map (searchsorted new) idl) = Z.to_nat k).
    { rewrite map_length, (mapM_length _ _ _ M), firstn_length. lia. }
    destruct (IH _ _ _ C' F') as [IH1 IH2].
    { intros i Hi. apply Hin. simpl. apply in_or_app. now right. }
    assert (G : (k <? 0) || (Z.of_nat (length (map (searchsorted new) idl ++ r)) <? k) = false).
    { apply orb_false_iff. split; [now apply Z.ltb_ge|]. apply Z.ltb_ge.
      rewrite app_length, Lk. lia. }
    rewrite G. rewrite (firstn_app_exact _ _ _ Lk), (skipn_app_exact _ _ _ Lk).
    rewrite mapM_searchsorted; auto.
    2:{ intros i Hi. apply Hin. simpl. apply in_or_app. now left. }
    rewrite IH1. split; [reflexivity|].
    simpl. rewrite app_length, Lk, IH2, skipn_length. lia.
Qed.

(* the renumbered face row of a retained polyhedron names the same node ids,
   face by face, in the cut mesh as the original row did in the parent *)
Theorem convert_polyhedron_spec now new poly poly' fs :
  StronglySorted Z.lt new ->
  convert_polyhedron now new poly = Some poly' ->
  faces_of now poly = Some fs ->
  (forall i, In i (concat fs) -> In i new) ->
  faces_of new poly' = Some fs /\ length poly' = length poly /\ hd_error poly' = hd_error poly.
Proof.
  intros S C F Hin. unfold convert_polyhedron, faces_of in *.
  destruct poly as [|m rest]; [discriminate|].
  destruct (m <? 0) eqn:G; [discriminate|].
  destruct (conv_faces now new (Z.to_nat m) rest) as [r|] eqn:C'; [|discriminate].
  inversion C; subst; clear C. rewrite G.
  destruct (conv_faces_spec now new S _ _ _ _ C' F Hin) as [H1 H2].
  repeat split; [exact H1 | simpl; now rewrite H2].
Qed.

(* a well-formed row is always converted (no error path for valid input) *)
Theorem convert_polyhedron_total now new poly fs :
  faces_of now poly = Some fs -> exists poly', convert_polyhedron now new poly = Some poly'.
Proof.
  unfold faces_of, convert_polyhedron. destruct poly as [|m rest]; [discriminate|].
  destruct (m <? 0); [discriminate|]. generalize (Z.to_nat m) as n. intros n. revert rest fs.
  induction n as [|n IH]; intros rest fs F; simpl in *.
  - eexists; reflexivity.
  - destruct rest as [|k rest]; [discriminate|].
    destruct ((k <? 0) || (Z.of_nat (length rest) <? k)); [discriminate|].
    destruct (mapM (nthZ now) (firstn (Z.to_nat k) rest)) as [idl|]; [|discriminate].
    destruct (face_ids now n (skipn (Z.to_nat k) rest)) as [fs'|] eqn:F'; [|discriminate].
    destruct (IH _ _ F') as [p' Hp]. simpl in Hp.
    destruct (conv_faces now new n (skipn (Z.to_nat k) rest)); [|discriminate].
    eexists; reflexivity.
Qed.

(* ---- to_first_order, the elements: ids, types and order of the blocks are
   kept; the connectivity of a second-order block is cut to its corner nodes,
   the other blocks are untouched ---- *)
Lemma elems_first_order_spec (bs fe : @blocks conn) : elems_first_order bs = Some fe ->
  Forall2 (fun b b' =>
             fst b' = fst b /\ ids (snd b') = ids (snd b) /\
             match first_order_arity (fst b) with
             | Some None => snd b' = snd b
             | Some (Some k) => map snd (snd b') = map (firstn k) (map snd (snd b))
             | None => False
             end) bs fe.
Proof.
  intros H. apply mapM_Forall2 in H.
  induction H as [|[t b] b' bs fe Hb F IH]; constructor; [|exact IH].
  simpl in *. destruct (first_order_arity t) as [[k|]|]; try discriminate; inversion Hb; subst; simpl.
  - repeat split.
    + unfold ids. rewrite map_map. reflexivity.
    + rewrite !map_map. reflexivity.
  - repeat split.
Qed.
