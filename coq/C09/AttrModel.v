(* VENDORED COPY for C09 of coq/C08/Model.v as committed at /verif e7efffc (the C08 development is edited in
   parallel by its own builder; C09 builds only from its own directory so that an edit there cannot
   break or silently change C09's model).  The part C09 uses (tables, blocks, efilter, update_self) is
   tied to the implementation by C09's own correspondence. *)
(* C08 — FEMAttribute / FEMAttributes / FEMElementalAttribute as id-keyed
   tables.  Hand model (tie H), definitions only.

   Modelled code: femio/fem_attribute.py (FEMAttribute, _Indexer),
   femio/fem_attributes.py (overwrite, update_data, set_attribute_data),
   femio/fem_elemental_attribute.py (_update_self, filter_with_ids,
   generate_elemental_attribute).  The row type V is opaque (a flattened
   scalar / vector / tensor row, or for a time series the list of such rows
   over the time steps): no operation of the modelled code looks inside a row.

   Aliasing (pandas 3, copy-on-write; pinned by the correspondence):
   DataFrame(ndarray) copies, so after __init__ and after the `data` setter
   `_data` is an array of its own (Own); after the `data_frame` setter (hence
   after `update`) `_data = frame.values` is a view of the frame's block
   (View) and sees later in-place writes `frame.loc[...] = ...`. *)
From Coq Require Import ZArith List Bool Arith.
Import ListNotations.
From FV.C09 Require Import Table.

(* Four places where the code decides whether a second representation is
   refreshed.  The values for the tree under test are read from the source
   by translate/c08_cfg.py into gen/AttrCfg.v on every run. *)
Record cfg := {
  parent_refreshes_data : bool;     (* _update_parent also refreshes parent._data *)
  overwrite_uses_setter : bool;     (* FEMAttributes.overwrite(name, data) goes through the data setter *)
  frame_setter_refreshes_id2index : bool;  (* data_frame setter (hence update) regenerates id2index *)
  ids_setter_refreshes_id2index : bool;    (* ids setter regenerates id2index *)
  scalar_key_uses_label : bool      (* _Indexer.__getitem__(scalar): slice ids = index label (not the key) *)
}.

Definition cfg_ok (c : cfg) : bool :=
  parent_refreshes_data c && overwrite_uses_setter c && frame_setter_refreshes_id2index c
  && ids_setter_refreshes_id2index c && scalar_key_uses_label c.

Section Attr.
Context {V : Type}.

Inductive dsrc :=
| Own (rows : list V)      (* _data is an array of its own, row k at position k *)
| View.                    (* _data is a view of the frame's value block *)

Record attr := {
  frame : table V;                       (* _data_frame: index label, row *)
  dat : dsrc;                            (* _data *)
  shape_len : nat;                       (* original_shape[0] (shape[1] for a time series) *)
  id2index : option (list (Z * nat));    (* generate_id2index: id -> position frame built in __init__ *)
  ts : bool                              (* time_series *)
}.

(* FEMAttribute(name, ids, data, generate_id2index=gen, time_series=ts) *)
Definition mk_attr (l : list Z) (rows : list V) (gen tsf : bool) : option attr :=
  if Nat.eqb (length l) (length rows)
  then Some {| frame := combine l rows; dat := Own rows; shape_len := length rows;
               id2index := if gen then Some (enumerate l) else None; ts := tsf |}
  else None.

(* ---------------------------------------------------------- read paths *)
Definition ids_view (a : attr) : list Z := ids (frame a).          (* a.ids *)
Definition rows_of (a : attr) : list V :=
  match dat a with Own r => r | View => vals (frame a) end.
(* a.data = reshape(_data, original_shape): raises when the sizes differ *)
Definition data_view (a : attr) : option (list V) :=
  let r := rows_of a in if Nat.eqb (length r) (shape_len a) then Some r else None.
Definition frame_view (a : attr) : table V := frame a.             (* a.data_frame *)

Inductive sel :=
| ByIds (l : list Z)      (* a.loc[[i1, i2, ...]] *)
| ById1 (i : Z)           (* a.loc[i] *)
| ByPos (l : list nat)    (* a.iloc[[k1, k2, ...]] / a.iloc[k1:k2] *)
| ByPos1 (k : nat).       (* a.iloc[k] *)

(* rows of the slice object returned by _Indexer.__getitem__: its ids and data
   (the slice's own frame and _data are built from the same values) *)
Definition slice (c : cfg) (a : attr) (s : sel) : option (table V) :=
  match s with
  | ByIds l => select_ids l (frame a)
  | ById1 i => option_map (fun v => [(i, v)]) (lookup i (frame a))
  | ByPos ks => select_pos ks (frame a)
  | ByPos1 k => option_map (fun iv => [((if scalar_key_uses_label c then fst iv else Z.of_nat k), snd iv)])
                           (nth_error (frame a) k)
  end.

(* a.filter_with_ids(l): a fresh attribute (time series stay time series) with
   ids l and rows frame.loc[l] *)
Definition filter_with_ids (a : attr) (l : list Z) : option (table V) := select_ids l (frame a).

(* FEMAttributes.filter_with_ids(l): every member filtered by id, whatever the
   order each member stores its rows in; raises when one member raises.
   FEMAttributes.extract_dict(l): the rows a.loc[l].values of every member *)
Definition cfilter (members : list attr) (l : list Z) : option (list (table V)) :=
  mapM (fun a => filter_with_ids a l) members.

(* a.ids2indices(l) through the attribute's own id2index frame *)
Definition ids2indices (a : attr) (l : list Z) : option (list nat) :=
  match id2index a with
  | None => None
  | Some m => mapM (fun i => lookup i m) l
  end.

(* a[l] = a.loc[l].values *)
Definition getitem (c : cfg) (a : attr) (l : list Z) : option (list V) :=
  option_map vals (slice c a (ByIds l)).

Definition cextract (c : cfg) (members : list attr) (l : list Z) : option (list (list V)) :=
  mapM (fun a => getitem c a l) members.

(* -------------------------------------------------------------- updates *)
Inductive op :=
| SetData (rows : list V)            (* a.data = v ;  a.update_data(v) *)
| SetFrame (t : table V)             (* a.data_frame = DataFrame(rows, index=ids) *)
| SetIds (l : list Z)                (* a.ids = l *)
| Update (new : table V)             (* a.update(ids, v, allow_overwrite=True) ; FEMAttributes.update_data *)
| SliceWrite (s : sel) (rows : list V)   (* a.loc[...].data = v ; a.iloc[...].data = v *)
| Overwrite (rows : list V)          (* FEMAttributes.overwrite(name, v) *)
| OverwriteIds (new : table V)       (* FEMAttributes.overwrite(name, v, ids=l) *)
| SetAttr (rows : list V).           (* FEMAttributes.set_attribute_data(name, v, allow_overwrite=True) *)

Definition refresh_id2index (flag : bool) (a : attr) (f : table V) : option (list (Z * nat)) :=
  match id2index a with
  | None => None
  | Some m => if flag then Some (enumerate (ids f)) else Some m
  end.

(* new.combine_first(old): the union of the two indexes, ascending unless
   the two indexes are identical (pandas keeps the order then); rows of `new`
   win *)
Definition list_eqb (a b : list Z) : bool :=
  Nat.eqb (length a) (length b) && forallb (fun p => Z.eqb (fst p) (snd p)) (combine a b).

Definition combine_first (new old : table V) : table V :=
  let merged := new ++ filter (fun iv => negb (memZ (fst iv) (ids new))) old in
  if list_eqb (ids new) (ids old) then new else sort_by_id merged.

Definition set_data (a : attr) (rows : list V) : option attr :=
  if Nat.eqb (length rows) (length (frame a))
  then Some {| frame := combine (ids (frame a)) rows; dat := Own rows; shape_len := length rows;
               id2index := id2index a; ts := ts a |}
  else None.

Definition set_frame (c : cfg) (a : attr) (f : table V) (len : nat) : attr :=
  {| frame := f; dat := View; shape_len := len;
     id2index := refresh_id2index (frame_setter_refreshes_id2index c) a f; ts := ts a |}.

(* None = the call raises and leaves the attribute as it was *)
Definition step (c : cfg) (a : attr) (o : op) : option attr :=
  match o with
  | SetData rows => set_data a rows
  | SetFrame f => if ts a then None else Some (set_frame c a f (shape_len a))
  | SetIds l =>
      if ts a then None
      else if Nat.eqb (length l) (length (frame a))
      then Some {| frame := combine l (vals (frame a)); dat := dat a; shape_len := shape_len a;
                   id2index := refresh_id2index (ids_setter_refreshes_id2index c) a
                                 (combine l (vals (frame a)));
                   ts := ts a |}
      else None
  | Update new =>
      if ts a then None
      else match new with
           | [] => None
           | _ => let f := combine_first new (frame a) in Some (set_frame c a f (length f))
           end
  | SliceWrite s rows =>
      match slice c a s with
      | None => None
      | Some sl =>
          if negb (Nat.eqb (length rows) (length sl)) then None
          else if ts a then None        (* TimeSeriesArray does not support item assignment *)
          else
            let written := combine (ids sl) rows in
            if negb (forallb (fun i => memZ i (ids (frame a))) (ids written)) then None
            else Some {| frame := set_rows written (frame a);
                         dat := if parent_refreshes_data c then View else dat a;
                         shape_len := shape_len a; id2index := id2index a; ts := ts a |}
      end
  | Overwrite rows =>
      if overwrite_uses_setter c then set_data a rows
      else Some {| frame := frame a; dat := Own rows; shape_len := shape_len a;
                   id2index := id2index a; ts := ts a |}
  | OverwriteIds new => mk_attr (ids new) (vals new) false false
  | SetAttr rows =>
      (* are_same_lengths() reads len(attribute.data) first *)
      match data_view a with
      | None => None
      | Some _ => mk_attr (ids (frame a)) rows false false
      end
  end.

Definition step_total (c : cfg) (a : attr) (o : op) : attr :=
  match step c a o with Some a' => a' | None => a end.

Definition run (c : cfg) (a : attr) (os : list op) : attr := fold_left (step_total c) os a.

(* domain of the model: tables handed to an update have distinct ids; a frame
   assigned directly has as many rows as the one it replaces (the setter does
   not touch original_shape) *)
Definition op_wf (a : attr) (o : op) : bool :=
  match o with
  | SetFrame f => nodupZ (ids f) && Nat.eqb (length f) (length (frame a))
  | SetIds l => nodupZ l
  | Update new => nodupZ (ids new)
  | OverwriteIds new => nodupZ (ids new)
  | _ => true
  end.

Definition is_view (d : dsrc) : bool := match d with View => true | Own _ => false end.
Definition no_id2index (a : attr) : bool := match id2index a with None => true | Some _ => false end.

(* when does an operation keep the representations equal, for a given cfg *)
Definition safe_op (c : cfg) (a : attr) (o : op) : bool :=
  match o with
  | SetData _ | OverwriteIds _ | SetAttr _ => true
  | SetFrame _ | Update _ => frame_setter_refreshes_id2index c || no_id2index a
  | SetIds _ => ids_setter_refreshes_id2index c || no_id2index a
  | SliceWrite _ _ => parent_refreshes_data c || is_view (dat a)
  | Overwrite _ => overwrite_uses_setter c
  end.

Fixpoint ops_wf (c : cfg) (a : attr) (os : list op) : bool :=
  match os with
  | [] => true
  | o :: r => op_wf a o && ops_wf c (step_total c a o) r
  end.

(* the same along every history all of whose steps are safe for the cfg at hand *)
Fixpoint ops_safe (c : cfg) (a : attr) (os : list op) : bool :=
  match os with
  | [] => true
  | o :: r => safe_op c a o && ops_safe c (step_total c a o) r
  end.

(* --------------------------------------------------------- the invariant *)
(* the positional view, the frame and the id->position frame are one table *)
Definition Inv (a : attr) : Prop :=
  NoDup (ids (frame a)) /\
  data_view a = Some (vals (frame a)) /\
  (forall m, id2index a = Some m -> m = enumerate (ids (frame a))).

End Attr.
Arguments attr V : clear implicits.
Arguments op V : clear implicits.
Arguments dsrc V : clear implicits.

(* ------------------------------------------------- mixed element collections *)
Section Elemental.
Context {V : Type}.

(* blocks in ELEMENT_TYPES order: (type index, block table) *)
Definition blocks := list (nat * table V).

Record summary := {
  s_ids : list Z; s_data : list V; s_types : list nat; s_id2index : list (Z * nat)
}.

Definition flatten (bs : blocks) : table (nat * V) :=
  flat_map (fun b => map (fun iv => (fst iv, (fst b, snd iv))) (snd b)) bs.

(* FEMElementalAttribute._update_self (ids distinct; the renumbering branch
   `_unique_element_ids` taken for duplicate ids is outside the model) *)
Definition update_self (bs : blocks) : option summary :=
  let flat := flatten bs in
  if negb (nodupZ (ids flat)) then None
  else
    let s := match bs with [_] => flat | _ => sort_by_id flat end in
    Some {| s_ids := ids s; s_data := map snd (vals s); s_types := map fst (vals s);
            s_id2index := enumerate (ids s) |}.

(* FEMElementalAttribute.filter_with_ids(l): ids not present are dropped;
   blocks of the result, in type order, each in the order requested *)
Definition efilter (bs : blocks) (l : list Z) : blocks :=
  let flat := flatten bs in
  let present := filter (fun i => memZ i (ids flat)) l in
  filter (fun b => negb (Nat.eqb (length (snd b)) 0))
    (map (fun b => (fst b,
            flat_map (fun i => match lookup i flat with
                               | Some (t, v) => if Nat.eqb t (fst b) then [(i, v)] else []
                               | None => [] end) present)) bs).
(* FEMElementalAttribute.generate_elemental_attribute(name, ids, data) with
   tbl = DataFrame(data, index=ids): per type the ids of the block that occur
   in tbl (np.intersect1d: ascending, once each) with the row tbl holds for
   that id; types without any such id are left out *)
Definition egenerate {W} (bs : list (nat * table W)) (tbl : table V) : blocks :=
  filter (fun b => negb (Nat.eqb (length (snd b)) 0))
    (map (fun b => (fst b,
            flat_map (fun i => match lookup i tbl with Some v => [(i, v)] | None => [] end)
                     (uniqueZ (ids (snd b))))) bs).
End Elemental.
