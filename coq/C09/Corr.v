(* C09 — correspondence evaluator: applies the model operation to the mesh
   the implementation was given and compares the resulting mesh.
   Rows are flattened integer lists.  Definitions only. *)
From Coq Require Import ZArith List Bool Arith.
Import ListNotations.
From FV.C09 Require Import Table AttrModel Model PolyModel.

(* comparison helpers (rows are flattened integer lists) *)
Definition row := list Z.

Fixpoint row_eqb (a b : row) : bool :=
  match a, b with
  | [], [] => true
  | x :: a', y :: b' => Z.eqb x y && row_eqb a' b'
  | _, _ => false
  end.

Fixpoint list_eqb' {A} (eqb : A -> A -> bool) (a b : list A) : bool :=
  match a, b with
  | [], [] => true
  | x :: a', y :: b' => eqb x y && list_eqb' eqb a' b'
  | _, _ => false
  end.

Definition ent_eqb (a b : Z * row) := Z.eqb (fst a) (fst b) && row_eqb (snd a) (snd b).
Definition table_eqb := list_eqb' ent_eqb.
Definition rows_eqb := list_eqb' row_eqb.
Definition zs_eqb := list_eqb' Z.eqb.
Definition nats_eqb := list_eqb' Nat.eqb.
Definition block_eqb (a b : nat * table row) := Nat.eqb (fst a) (fst b) && table_eqb (snd a) (snd b).

Inductive cop :=
| CutEids (sel : list Z)
| CutType (t : nat)
| CutNids (sel : list Z)
| ExtractIdx (ks : list nat)
| RemoveUseless
| FirstOrder
| Surface (surf : list (nat * list (list nat))) (remove : bool)
| Facets (raw : list (nat * list conn)).   (* all faces, per width, before duplicate removal *)

Definition apply_op (c : cfg) (m : mesh row) (o : cop) : option (mesh row) :=
  match o with
  | CutEids sel => cut_with_element_ids m sel
  | CutType t => cut_with_element_type m t
  | CutNids sel => cut_with_node_ids m sel
  | ExtractIdx ks => extract_with_element_indices m ks
  | RemoveUseless => remove_useless_nodes c m
  | FirstOrder => to_first_order c m
  | Surface s r => to_surface c m s r
  | Facets raw => Some (to_facets m (map (fun g => (fst g, remove_duplicates (snd g))) raw))
  end.

(* edits through the public update API before the extraction:
   nodes.update(ids, xyz, allow_overwrite=True) and
   nodal_data.update_data(ids, {name: rows}, allow_overwrite=True); both are
   C08's Update = combine_first on the table concerned *)
Inductive edit :=
| EditNodes (new : table row)
| EditNodal (k : nat) (new : table row)
| EditXyz (rows : list row)        (* fem_data.nodes.data = xyz : C08's SetData on the node table *)
| EditConn (rows : list conn)      (* fem_data.elements.data = conn on a single-type mesh *)
| EditUseless.                     (* fem_data.remove_useless_nodes(): the in-place modification *)

Definition apply_edit (c : cfg) (m : mesh row) (e : edit) : mesh row :=
  match e with
  | EditUseless => match remove_useless_nodes c m with Some x => x | None => m end
  | EditNodes new => {| nodes := combine_first new (nodes m); elems := elems m; nodal := nodal m;
                        elemental := elemental m |}
  | EditNodal k new =>
      {| nodes := nodes m; elems := elems m;
         nodal := map (fun nv => if Nat.eqb (fst nv) k then (k, combine_first new (snd nv)) else nv) (nodal m);
         elemental := elemental m |}
  | EditXyz rows => {| nodes := combine (ids (nodes m)) rows; elems := elems m; nodal := nodal m;
                       elemental := elemental m |}
  | EditConn rows =>
      {| nodes := nodes m;
         elems := match elems m with [(t, b)] => [(t, combine (ids b) rows)] | e => e end;
         nodal := nodal m; elemental := elemental m |}
  end.

Definition blocks_eqb := list_eqb' block_eqb.
Definition nodal_eqb := list_eqb' (fun a b : nat * table row => Nat.eqb (fst a) (fst b) && table_eqb (snd a) (snd b)).
Definition elemental_eqb :=
  list_eqb' (fun a b : nat * @blocks row => Nat.eqb (fst a) (fst b) && blocks_eqb (snd a) (snd b)).

(* what the implementation returned: the mesh and the collection summary of
   its elements (ids, types, connectivity in summary order) *)
Record mobs := { ob_mesh : mesh row; ob_ids : list Z; ob_types : list nat; ob_data : list row }.

(* removed_first: remove_useless_nodes() was called on the object before the
   operation (the only operation that changes the object); every other earlier
   call (the same or another extraction, extract_surface, extract_facets) must
   leave the object as it was, so the model ignores it *)
(* mid: edits made through the update API AFTER the earlier call and before the
   operation (history  edits ; earlier call ; edits ; operation  on one object):
   the result must be that of the operation on the mesh as it is then *)
Definition check_h (c : cfg) (m0 : mesh row) (pre : list edit) (removed_first : bool) (mid : list edit)
           (o : cop) (ob : option mobs) : list nat :=
  let m1 := fold_left (apply_edit c) pre m0 in
  let m2 := if removed_first then match remove_useless_nodes c m1 with Some x => x | None => m1 end else m1 in
  let m := fold_left (apply_edit c) mid m2 in
  if negb (wf_mesh m) then [99%nat] else
  match apply_op c m o, ob with
  | None, None => []
  | Some _, None => [1%nat]
  | None, Some _ => [2%nat]
  | Some r, Some b =>
      let i := ob_mesh b in
      (if table_eqb (nodes r) (nodes i) then [] else [3%nat]) ++
      (if blocks_eqb (elems r) (elems i) then [] else [4%nat]) ++
      (if nodal_eqb (nodal r) (nodal i) then [] else [5%nat]) ++
      (if elemental_eqb (elemental r) (elemental i) then [] else [6%nat]) ++
      match update_self (elems r) with
      | None => [7%nat]
      | Some s => if zs_eqb (s_ids s) (ob_ids b) && nats_eqb (s_types s) (ob_types b)
                     && rows_eqb (s_data s) (ob_data b) then [] else [8%nat]
      end
  end.

Definition check (c : cfg) (m0 : mesh row) (pre : list edit) (removed_first : bool) (o : cop)
           (ob : option mobs) : list nat := check_h c m0 pre removed_first [] o ob.

(* FEMData.convert_polyhedron on one face row: the converted row (None = the
   call raised / the row is outside the model's domain), and what the faces
   mean (node ids per face) before and after *)
Definition check_poly (now new poly : list Z) (ob : option (list Z)) : bool :=
  match convert_polyhedron now new poly, ob with
  | Some r, Some o => zs_eqb r o
  | None, None => true
  | _, _ => false
  end.

Definition faces_eqb (a b : option (list (list Z))) : bool :=
  match a, b with
  | Some x, Some y => list_eqb' zs_eqb x y
  | None, None => true
  | _, _ => false
  end.

(* cut_with_element_ids on a polyhedron mesh with a 'face' variable: now = node ids of the parent
   in storage order, new = node ids of the result, conns = connectivity of the retained elements,
   pairs = (face row of the parent, face row of the result) per retained element.
   1: result nodes are not np.unique of the retained connectivity; 2: result row differs from the
   model's convert_polyhedron; 3: the faces name other node ids than before; 4: harness error *)
Definition pcheck (now new : list Z) (conns : list (list Z)) (pairs : list (list Z * list Z)) : list nat :=
  (if zs_eqb new (uniqueZ (concat conns)) then [] else [1%nat]) ++
  (if forallb (fun pr => check_poly now new (fst pr) (Some (snd pr))) pairs then [] else [2%nat]) ++
  (if forallb (fun pr => faces_eqb (faces_of now (fst pr)) (faces_of new (snd pr))) pairs then [] else [3%nat]) ++
  (if forallb (fun pr => match faces_of now (fst pr) with Some _ => true | None => false end) pairs
   then [] else [4%nat]).
