(* C09 — FEMData.convert_polyhedron (fem_data.py), the renumbering of the
   'face' variable of polyhedron elements inside cut_with_element_ids, and
   the element part of to_first_order.  Definitions only.

   A face row is  [m; k1; p11 .. p1k1; k2; p21 .. ; ...]  : m faces, each a
   count followed by node *positions* in the node table (now_ids = the ids of
   the parent's node table in storage order).  The cut replaces every
   position p by  searchsorted(new_ids, now_ids[p])  where new_ids are the
   (ascending, np.unique) node ids of the cut mesh. *)
From Coq Require Import ZArith List Bool Arith.
Import ListNotations.
From FV.C09 Require Import Table.
Local Open Scope Z_scope.

(* now_ids[p] for an array index p (negative indices are outside the model) *)
Definition nthZ (l : list Z) (p : Z) : option Z :=
  if p <? 0 then None else nth_error l (Z.to_nat p).

(* np.searchsorted(a, v) (side='left') on an ascending array: the number of
   entries smaller than v *)
Definition searchsorted (a : list Z) (v : Z) : Z :=
  Z.of_nat (length (filter (fun x => x <? v) a)).

(* the loop of convert_polyhedron over the m faces; None = malformed row
   (negative count, row too short, position outside the node table) *)
Fixpoint conv_faces (now new : list Z) (m : nat) (poly : list Z) : option (list Z) :=
  match m with
  | O => Some poly
  | S m' =>
      match poly with
      | [] => None
      | k :: rest =>
          if (k <? 0) || (Z.of_nat (length rest) <? k) then None else
          let kn := Z.to_nat k in
          match mapM (nthZ now) (firstn kn rest), conv_faces now new m' (skipn kn rest) with
          | Some idl, Some r => Some (k :: map (searchsorted new) idl ++ r)
          | _, _ => None
          end
      end
  end.

Definition convert_polyhedron (now new poly : list Z) : option (list Z) :=
  match poly with
  | [] => None
  | m :: rest => if m <? 0 then None else option_map (cons m) (conv_faces now new (Z.to_nat m) rest)
  end.

(* what a face row means: the node ids of its faces, looked up in a node table *)
Fixpoint face_ids (tbl : list Z) (m : nat) (poly : list Z) : option (list (list Z)) :=
  match m with
  | O => Some []
  | S m' =>
      match poly with
      | [] => None
      | k :: rest =>
          if (k <? 0) || (Z.of_nat (length rest) <? k) then None else
          let kn := Z.to_nat k in
          match mapM (nthZ tbl) (firstn kn rest), face_ids tbl m' (skipn kn rest) with
          | Some f, Some fs => Some (f :: fs)
          | _, _ => None
          end
      end
  end.

Definition faces_of (tbl poly : list Z) : option (list (list Z)) :=
  match poly with
  | [] => None
  | m :: rest => if m <? 0 then None else face_ids tbl (Z.to_nat m) rest
  end.
