(* C09 — the element types of the facet groups of to_surface / to_facets
   (FEMElementalAttribute._generate_surface over the groups of
   _generate_surface_ids_tuple): every group of facets with w nodes each gets
   the type facet_type w, regenerated from _generate_surface_core on every run
   (gen/FacetType.v).  Definitions only. *)
From Coq Require Import ZArith List Bool Arith.
Import ListNotations.
From FV.C09 Require Import Table AttrModel Model.
From FV.C09.gen Require Export FacetType.

(* groups keyed by the number of nodes per facet -> groups keyed by element type; None = raises *)
Definition typed (gs : list (nat * list conn)) : option (list (nat * list conn)) :=
  mapM (fun g => option_map (fun t => (t, snd g)) (facet_type (fst g))) gs.

Definition to_facets_by_width {V} (m : mesh V) (gs : list (nat * list conn)) : option (mesh V) :=
  option_map (to_facets m) (typed gs).
