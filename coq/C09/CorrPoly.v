(* C09 — correspondence evaluator for cut_with_element_ids on polyhedron meshes
   with the 'face' variable: PolyCut.cut_face on the mesh the implementation
   was given against the mesh and the variable it returned.  Definitions only. *)
From Coq Require Import ZArith List Bool Arith.
Import ListNotations.
From FV.C09 Require Import Table AttrModel Model Corr PolyModel PolyCut.

(* 1: implementation raises, model does not; 2: the converse; 3: nodes; 4: elements;
   5: the face variable *)
Definition pcut_check (nodes_t : table row) (conn_t face_t : table (list Z)) (sel : list Z)
           (ob : option (table row * table (list Z) * table (list Z))) : list nat :=
  let m := {| nodes := nodes_t; elems := [(POLY, conn_t)]; nodal := []; elemental := [] |} in
  match cut_face m [(POLY, face_t)] sel, ob with
  | None, None => []
  | Some _, None => [1%nat]
  | None, Some _ => [2%nat]
  | Some (m', f'), Some (n', c', fr') =>
      (if table_eqb (nodes m') n' then [] else [3%nat]) ++
      (if blocks_eqb (elems m') [(POLY, c')] then [] else [4%nat]) ++
      (if blocks_eqb f' [(POLY, fr')] then [] else [5%nat])
  end.
